(* Tie: Signal.calculate_raw_range regenerated from /repo's source (integer signals: is_float = False is the translator's
   stated assumption, the float arm is not translated) equals the hand model (model/Scaling.v) for every width the
   property quantifies over: sizes 1..64, signed and unsigned.  What the code does with wider signals (the clamp at 128
   bits) is not part of C04 and deliberately not tied: a change there must not raise an alarm.  Size 0 of a
   signed signal (a negative exponent: Python leaves the integers there) is outside the obligation - the generated function
   answers None there, which tie_raw_range_leaves_subset states, so the hypothesis is not an accident of the proof. *)
From CM Require Import lib.Prelude model.Scaling gen.Gen_scaling.

Theorem tie_calculate_raw_range : forall size signed, 1 <= size <= 64 ->
  gen_calculate_raw_range signed size = Some (calculate_raw_range size signed).
Proof.
  intros size signed Hsize. unfold gen_calculate_raw_range, calculate_raw_range. cbv zeta.
  (* inside the envelope the 128-bit clamp is never taken, however the source spells its test *)
  assert (H128 : (size <=? 128) = true) by lia.
  rewrite ?H128. cbn [orb andb negb]. rewrite ?Z.eqb_refl. cbn [orb andb negb].
  destruct signed; cbn [orb andb negb];
    repeat match goal with
    | |- context [if ?b then _ else _] => let E := fresh "E" in destruct b eqn:E
    end; try reflexivity; try discriminate; try (exfalso; lia);
    try (repeat f_equal; lia).
Qed.
Print Assumptions tie_calculate_raw_range.

Theorem tie_raw_range_leaves_subset : gen_calculate_raw_range true 0 = None.
Proof. reflexivity. Qed.
Print Assumptions tie_raw_range_leaves_subset.
