(* Tie: the definitions regenerated from /repo's source by harness/py2coq.py equal the hand model for all arguments. *)
From CM Require Import lib.Prelude model.Startbit gen.Gen_startbit.

Definition is_true (o : option bool) : bool := match o with Some true => true | _ => false end.

(* stated over the property's quantifier (widths 1..64, positions 0..511): what the functions do with other numbers is not
   constrained by C08 and is no obligation of the tie *)
Theorem tie_set_startbit :
  forall le size cur sb bn sl, 1 <= size <= 64 -> 0 <= sb <= 511 ->
    gen_set_startbit le size cur sb bn sl = set_startbit le size sb bn (is_true sl).
Proof.
  intros le size cur sb bn sl Hsize Hsb. unfold gen_set_startbit, set_startbit, numbering_differs, flip, is_true.
  destruct bn as [n|]; destruct le; destruct sl as [[|]|]; cbn [negb andb orb];
    repeat (case_if; cbn [negb andb orb] in *); try reflexivity; try discriminate; try lia; try (f_equal; lia).
Qed.

Theorem tie_get_startbit :
  forall le size i bn sl, 1 <= size <= 64 -> 0 <= i ->
    gen_get_startbit le size i bn sl = Some (get_startbit le size i bn (is_true sl)).
Proof.
  intros le size i bn sl Hsize Hi. unfold gen_get_startbit, get_startbit, numbering_differs, flip, is_true.
  destruct bn as [n|]; destruct le; destruct sl as [[|]|]; cbn [negb andb orb];
    repeat (case_if; cbn [negb andb orb] in *); try reflexivity; try discriminate; try lia; try (f_equal; lia).
Qed.
Print Assumptions tie_set_startbit.
Print Assumptions tie_get_startbit.
