(* Tie: Frame.calc_dlc and CanMatrix.recalc_dlc regenerated from /repo's source (gen/Gen_layout.v) equal the hand model
   (model/Layout.v: calc_dlc, recalc_frame, recalc_dlc) for all arguments, for frames that are not PDU containers (the hand
   model covers plain frames only; the container branch is translated as the source has it, including its read of
   self.pdus of the matrix, and is left out here).
   A frame is the tuple (is_pdu_container, pdus, signals, size); a signal the tuple (is_little_endian, size, start_bit).
   The proofs go through two generic fold lemmas and finish by case analysis + lia, so harmless rewrites of the source
   (renamed locals, reordered independent statements, a < b instead of b > a) still prove. *)
From Coq Require Import String.
From CM Require Import lib.Prelude model.Codec model.Layout gen.Gen_layout.

Definition sig_rec : Type := (bool * Z * Z)%type.
Definition frame_rec : Type := (bool * list Z * list sig_rec * Z)%type.

(* the signal of the hand model behind a record (name, signedness and float flag play no role for lengths) *)
Definition sig_of_rec (r : sig_rec) : signal :=
  let '(le, sz, st) := r in mkSignal 0 st sz le false false.
Definition fr_container (f : frame_rec) : bool := let '(c, _, _, _) := f in c.
Definition fr_signals (f : frame_rec) : list signal := let '(_, _, sg, _) := f in map sig_of_rec sg.
Definition fr_size (f : frame_rec) : Z := let '(_, _, _, sz) := f in sz.
Definition fr_with_size (f : frame_rec) (v : Z) : frame_rec := let '(c, pd, sg, _) := f in (c, pd, sg, v).

(* the strategy string as the hand model's code: 0 "max", 1 "force", 2 anything else *)
Definition strat_code (s : string) : Z :=
  if String.eqb "max" s then 0 else if String.eqb "force" s then 1 else 2.

(* ---------- generic facts about the option-carrying folds the translator emits ---------- *)

Lemma fold_opt_some : forall A B (F : option A -> B -> option A) (g : A -> B -> A) l a,
  (forall a b, F (Some a) b = Some (g a b)) ->
  fold_left F l (Some a) = Some (fold_left g l a).
Proof.
  intros A B F g l. induction l as [|x l IH]; intros a H; cbn [fold_left]; [reflexivity|].
  rewrite H. apply IH. exact H.
Qed.

Lemma fold_rebuild : forall A (F : option (list A) -> A -> option (list A)) (h : A -> A) l acc,
  (forall acc x, In x l -> F (Some acc) x = Some (acc ++ [h x])) ->
  fold_left F l (Some acc) = Some (acc ++ map h l).
Proof.
  intros A F h l. induction l as [|x l IH]; intros acc H; cbn [fold_left map].
  - rewrite app_nil_r. reflexivity.
  - rewrite H by (left; reflexivity). rewrite IH by (intros; apply H; right; assumption).
    rewrite <- app_assoc. reflexivity.
Qed.

Lemma fold_left_map_l : forall A B C (f : A -> B -> A) (h : C -> B) l a,
  fold_left f (map h l) a = fold_left (fun a x => f a (h x)) l a.
Proof. intros A B C f h l. induction l as [|x l IH]; intros a; cbn [map fold_left]; [reflexivity|apply IH]. Qed.

(* get_startbit() without arguments is the internal start bit *)
Lemma sig_get_startbit_default : forall le sz st, gen_sig_get_startbit le sz st None None = Some st.
Proof. intros le sz st. unfold gen_sig_get_startbit. destruct le; cbn; repeat case_if; try discriminate; f_equal; lia. Qed.

(* one round of the running maximum, on a record *)
Definition mb_rec (m : Z) (r : sig_rec) : Z :=
  let s := sig_of_rec r in if s_start s + s_size s >? m then s_start s + s_size s else m.

Lemma max_bit_recs : forall rs, max_bit (map sig_of_rec rs) = fold_left mb_rec rs 0.
Proof. intros rs. unfold max_bit. rewrite fold_left_map_l. reflexivity. Qed.

Ltac max_round :=
  let m := fresh "m" in let r := fresh "r" in let le := fresh "le" in let sz := fresh "sz" in let st := fresh "st" in
  intros m r; destruct r as [[le sz] st]; unfold mb_rec; cbn [sig_of_rec s_start s_size];
  rewrite ?sig_get_startbit_default; repeat case_if; try discriminate; f_equal; lia.

(* two rebuilt frame lists that differ at most in how the new size is written *)
Ltac same_frame :=
  try reflexivity;
  match goal with
  | |- Some (_ ++ [(_, _, _, ?x)]) = Some (_ ++ [(_, _, _, ?y)]) => replace x with y by lia; reflexivity
  end.

(* the three cases of the strategy string, with every comparison against "max" / "force" (in either orientation) decided *)
Ltac str_decide s lit :=
  let E := fresh "E" in
  destruct (string_dec s lit) as [E|E];
  [ subst s; rewrite ?String.eqb_refl
  | rewrite ?(proj2 (String.eqb_neq s lit) E), ?(proj2 (String.eqb_neq lit s) (not_eq_sym E)) ].
Ltac str_closed :=
  repeat match goal with
         | |- context [String.eqb ?a ?b] =>
             let v := eval vm_compute in (String.eqb a b) in
             match v with true => idtac | false => idtac end;
             change (String.eqb a b) with v
         end.
Ltac str_cases s :=
  str_decide s "max"%string; [str_closed | str_decide s "force"%string; [str_closed|]].

Theorem tie_calc_dlc : forall (pdus : list Z) (sigs : list sig_rec) (size : Z),
  gen_calc_dlc false pdus sigs size = Some (calc_dlc size (map sig_of_rec sigs)).
Proof.
  intros pdus sigs size. unfold gen_calc_dlc.
  rewrite (fold_opt_some _ _ _ mb_rec); [|max_round].
  cbv beta iota zeta. unfold calc_dlc, max_byte. rewrite max_bit_recs.
  set (M := fold_left mb_rec sigs 0).
  (* any further case splits of the source (e.g. around a log call) are decided here *)
  repeat case_if; try discriminate; f_equal; lia.
Qed.
Print Assumptions tie_calc_dlc.

(* one frame of the matrix loop, the strategy being a literal by now *)
Ltac per_frame Hplain :=
  let acc := fresh "acc" in let f := fresh "f" in let Hin := fresh "Hin" in
  let c := fresh "c" in let pd := fresh "pd" in let sg := fresh "sg" in let sz := fresh "sz" in
  intros acc f Hin; rewrite Forall_forall in Hplain; specialize (Hplain f Hin);
  destruct f as [[[c pd] sg] sz]; cbn [fr_container] in Hplain; subst c;
  cbn [fr_with_size fr_size fr_signals]; unfold strat_code, recalc_frame; str_closed;
  cbv beta iota zeta; rewrite ?tie_calc_dlc; cbv beta iota zeta;
  try (rewrite (fold_opt_some _ _ _ mb_rec); [|max_round]);
  cbv beta iota zeta; cbn [Z.eqb Pos.eqb]; cbv beta iota zeta;
  unfold max_byte; rewrite ?max_bit_recs; repeat case_if; try discriminate; same_frame.

(* The property speaks about the two strategies "max" and "force" (never below the declared length / forced); what the code
   does with any other string is not part of the obligation. *)
Theorem tie_recalc_dlc : forall (frames : list frame_rec) (mpdus : list Z) (strategy : string),
  Forall (fun f => fr_container f = false) frames ->
  strategy = "max"%string \/ strategy = "force"%string ->
  gen_recalc_dlc frames mpdus strategy =
    Some (map (fun f => fr_with_size f (recalc_frame (strat_code strategy) (fr_size f) (fr_signals f))) frames) /\
  map fr_size (map (fun f => fr_with_size f (recalc_frame (strat_code strategy) (fr_size f) (fr_signals f))) frames) =
    recalc_dlc (strat_code strategy) (map (fun f => (fr_size f, fr_signals f)) frames).
Proof.
  intros frames mpdus strategy Hplain Hstrat. split.
  - unfold gen_recalc_dlc.
    destruct Hstrat as [E|E]; subst strategy; str_closed; cbn [negb orb andb]; cbv beta iota zeta.
    + rewrite (fold_rebuild _ _ (fun f => fr_with_size f (recalc_frame (strat_code "max") (fr_size f) (fr_signals f))));
        [reflexivity|per_frame Hplain].
    + rewrite (fold_rebuild _ _ (fun f => fr_with_size f (recalc_frame (strat_code "force") (fr_size f) (fr_signals f))));
        [reflexivity|per_frame Hplain].
  - unfold recalc_dlc. rewrite !map_map. apply map_ext. intros f. destruct f as [[[c pd] sg] sz]. reflexivity.
Qed.
Print Assumptions tie_recalc_dlc.
