(* Tie: Signal.multiplexer_value_in_range regenerated from /repo's source equals the hand model (model/Mux.v). *)
From CM Require Import lib.Prelude model.Codec model.Mux gen.Gen_mux.

Lemma any_range_find g v :
  any_range g v = match find (fun pr => (v >=? fst pr) && (v <=? snd pr)) g with Some _ => true | None => false end.
Proof.
  induction g as [|[lo hi] r IH]; cbn [any_range find fst snd]; [reflexivity|].
  rewrite Z.geb_leb. destruct ((lo <=? v) && (v <=? hi)); [reflexivity | exact IH].
Qed.

Theorem tie_multiplexer_value_in_range :
  forall s mv, gen_multiplexer_value_in_range (m_mux_val s) (m_grp s) mv = Some (value_in_range s mv).
Proof.
  intros s mv. unfold gen_multiplexer_value_in_range, value_in_range, opt_eqb.
  destruct mv as [v|]; destruct (m_grp s) as [|p r] eqn:Hg.
  - cbn. destruct (m_mux_val s); reflexivity.
  - replace (Z.of_nat (length (p :: r)) >? 0) with true by (cbn [length]; lia).
    rewrite any_range_find. destruct (find _ (p :: r)); reflexivity.
  - destruct (m_mux_val s); reflexivity.
  - destruct (m_mux_val s); reflexivity.
Qed.
Print Assumptions tie_multiplexer_value_in_range.
