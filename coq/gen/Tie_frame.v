(* Tie: Frame.fit_dlc regenerated from /repo's source equals the hand model (model/Layout.v) for all arguments. *)
From CM Require Import lib.Prelude model.Layout gen.Gen_frame.

Theorem tie_fit_dlc : forall size, gen_fit_dlc size = Some (fit_dlc size).
Proof.
  intros size. unfold gen_fit_dlc, fit_dlc. cbn [fit_loop]. cbv zeta.
  repeat (case_if; try reflexivity).
Qed.
Print Assumptions tie_fit_dlc.
