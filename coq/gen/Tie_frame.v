(* Tie: Frame.fit_dlc regenerated from /repo's source equals the hand model (model/Layout.v) for every length the property
   quantifies over (0..64 bytes; what the code does with longer or negative lengths is not part of the obligation).
   The proof is a case analysis over all comparisons of both sides closed by lia, so any rewrite that computes the same
   length (early returns, reordered tests, a < b < c) still proves. *)
From CM Require Import lib.Prelude model.Layout gen.Gen_frame.

Theorem tie_fit_dlc : forall size, 0 <= size <= 64 -> gen_fit_dlc size = Some (fit_dlc size).
Proof.
  intros size Hsize. unfold gen_fit_dlc, fit_dlc. cbn [fit_loop]. cbv zeta.
  repeat case_if; try reflexivity; try discriminate; f_equal; lia.
Qed.
Print Assumptions tie_fit_dlc.
