(* Tie: ArbitrationId definitions regenerated from /repo's source equal the hand model (model/ArbId.v) for all arguments.
   The proofs are semantic: after unfolding, masks and shifts are normalised to div/mod arithmetic (proofs/BitTactic.v),
   every remaining condition is split and lia decides - so an equal mask-and-shift or arithmetic rewrite of the source
   still proves, whatever its syntactic shape. *)
From CM Require Import lib.Prelude model.ArbId proofs.BitLemmas proofs.BitTactic gen.Gen_arbid.

Ltac unfold_gen :=
  unfold gen_pgn, gen_j1939_destination, gen_set_pgn, gen_set_source, gen_set_priority, gen_to_compound_integer,
    gen_from_compound_integer, gen_from_pgn, gen_post_init in *;
  unfold gen_j1939_pdu_format, gen_j1939_source, gen_j1939_ps, gen_j1939_pf, gen_j1939_dp, gen_j1939_edp,
    gen_j1939_priority in *.
Ltac unfold_model :=
  unfold from_compound_integer, from_pgn in *;
  unfold mk_arbid, guard_ext, j1939_pdu_format, j1939_source, j1939_ps, j1939_pf, j1939_dp, j1939_edp, j1939_priority,
    pgn, j1939_destination, set_pgn, set_source, set_priority, to_compound_integer,
    compound_extended_mask, extended_id_mask, standard_id_mask in *.
Ltac tie := intros; unfold_gen; unfold_model; cbn [negb fst snd]; tie_auto.

Theorem tie_post_init : forall id ext, gen_post_init ext id = mk_arbid id ext.
Proof. intros id ext. destruct ext; tie. Qed.

Theorem tie_getters : forall id ext,
  gen_j1939_source ext id = j1939_source (id, ext) /\
  gen_j1939_ps ext id = j1939_ps (id, ext) /\
  gen_j1939_pf ext id = j1939_pf (id, ext) /\
  gen_j1939_dp ext id = j1939_dp (id, ext) /\
  gen_j1939_edp ext id = j1939_edp (id, ext) /\
  gen_j1939_priority ext id = j1939_priority (id, ext) /\
  gen_j1939_pdu_format ext id = j1939_pdu_format (id, ext).
Proof. intros id ext. destruct ext; repeat split; tie. Qed.

Theorem tie_pgn : forall id ext, gen_pgn ext id = pgn (id, ext).
Proof. intros id ext. destruct ext; tie. Qed.

Theorem tie_destination : forall id ext, gen_j1939_destination ext id = j1939_destination (id, ext).
Proof. intros id ext. destruct ext; tie. Qed.

(* stated over the property's quantifier: a setter is handed a value of its field (18-bit PGN, 8-bit source address, 3-bit
   priority), a compound integer is a 32-bit number, from_pgn gets an 18-bit PGN, identifiers are 29-bit numbers; what the
   functions do with other numbers (truncate, refuse) is not constrained by C09 and is no obligation of the tie *)
Theorem tie_setters : forall id ext v, 0 <= id < 2 ^ 29 ->
  (0 <= v < 2 ^ 18 -> gen_set_pgn ext id v = Some (set_pgn (id, ext) v)) /\
  (0 <= v < 2 ^ 8 -> gen_set_source ext id v = Some (set_source (id, ext) v)) /\
  (0 <= v < 2 ^ 3 -> gen_set_priority ext id v = Some (set_priority (id, ext) v)).
Proof.
  intros id ext v Hid. change (2 ^ 29) with 536870912 in Hid.
  change (2 ^ 18) with 262144. change (2 ^ 8) with 256. change (2 ^ 3) with 8.
  repeat split; intros Hv; tie.
Qed.

Theorem tie_compound : forall id ext i p, 0 <= id < 2 ^ 29 -> 0 <= i < 2 ^ 32 -> 0 <= p < 2 ^ 18 ->
  gen_to_compound_integer ext id = Some (to_compound_integer (id, ext)) /\
  gen_from_compound_integer i = from_compound_integer i /\
  gen_from_pgn p = from_pgn p.
Proof.
  intros id ext i p Hid Hi Hp.
  change (2 ^ 29) with 536870912 in Hid. change (2 ^ 32) with 4294967296 in Hi. change (2 ^ 18) with 262144 in Hp.
  repeat split; [destruct ext; tie | tie | tie].
Qed.
Print Assumptions tie_post_init.
Print Assumptions tie_getters.
Print Assumptions tie_pgn.
Print Assumptions tie_destination.
Print Assumptions tie_setters.
Print Assumptions tie_compound.
