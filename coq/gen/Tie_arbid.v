(* Tie: ArbitrationId definitions regenerated from /repo's source equal the hand model (model/ArbId.v) for all arguments. *)
From CM Require Import lib.Prelude model.ArbId gen.Gen_arbid.

Theorem tie_post_init : forall id ext, gen_post_init ext id = mk_arbid id ext.
Proof.
  intros. unfold gen_post_init, mk_arbid, extended_id_mask, standard_id_mask.
  change (2 ^ 29 - 1) with 536870911. change (2 ^ 11 - 1) with 2047.
  destruct ext; cbn [negb]; repeat (case_if; cbn [negb] in * ); try reflexivity; try discriminate.
Qed.

Theorem tie_getters : forall id ext,
  gen_j1939_source ext id = j1939_source (id, ext) /\
  gen_j1939_ps ext id = j1939_ps (id, ext) /\
  gen_j1939_pf ext id = j1939_pf (id, ext) /\
  gen_j1939_dp ext id = j1939_dp (id, ext) /\
  gen_j1939_edp ext id = j1939_edp (id, ext) /\
  gen_j1939_priority ext id = j1939_priority (id, ext) /\
  gen_j1939_pdu_format ext id = j1939_pdu_format (id, ext).
Proof.
  intros. unfold gen_j1939_pdu_format, gen_j1939_source, gen_j1939_ps, gen_j1939_pf, gen_j1939_dp, gen_j1939_edp, gen_j1939_priority,
    j1939_pdu_format, j1939_source, j1939_ps, j1939_pf, j1939_dp, j1939_edp, j1939_priority, guard_ext.
  destruct ext; cbn [negb fst snd]; repeat split; reflexivity.
Qed.

Theorem tie_pgn : forall id ext, gen_pgn ext id = pgn (id, ext).
Proof.
  intros. unfold gen_pgn, gen_j1939_pdu_format, gen_j1939_ps, gen_j1939_pf, gen_j1939_dp, gen_j1939_edp, pgn.
  destruct ext; cbn [negb fst snd]; [|reflexivity].
  destruct (Z.land (Z.shiftr id 16) 255 <? 240) eqn:H;
    [change (1 =? 2) with false | change (2 =? 2) with true]; cbv beta iota; f_equal; lia.
Qed.

Theorem tie_setters : forall id ext v,
  gen_set_pgn ext id v = Some (set_pgn (id, ext) v) /\
  gen_set_source ext id v = Some (set_source (id, ext) v) /\
  gen_set_priority ext id v = Some (set_priority (id, ext) v).
Proof. intros. unfold gen_set_pgn, gen_set_source, gen_set_priority, set_pgn, set_source, set_priority. cbn [fst snd]. repeat split; reflexivity. Qed.

Theorem tie_compound : forall id ext i p,
  gen_to_compound_integer ext id = Some (to_compound_integer (id, ext)) /\
  gen_from_compound_integer i = from_compound_integer i /\
  gen_from_pgn p = from_pgn p.
Proof.
  intros. unfold gen_to_compound_integer, gen_from_compound_integer, gen_from_pgn, to_compound_integer, from_compound_integer, from_pgn,
    compound_extended_mask, extended_id_mask.
  change (2 ^ 31) with 2147483648. change (2 ^ 29 - 1) with 536870911. cbn [fst snd].
  repeat split; try (destruct ext; reflexivity); rewrite tie_post_init; reflexivity.
Qed.
Print Assumptions tie_post_init.
Print Assumptions tie_getters.
Print Assumptions tie_pgn.
Print Assumptions tie_setters.
Print Assumptions tie_compound.

Theorem tie_destination : forall id ext, gen_j1939_destination ext id = j1939_destination (id, ext).
Proof.
  intros. unfold gen_j1939_destination, gen_j1939_pdu_format, gen_j1939_ps, gen_j1939_pf, j1939_destination.
  destruct ext; cbn [negb fst snd]; [|reflexivity].
  destruct (Z.land (Z.shiftr id 16) 255 <? 240) eqn:H;
    [change (1 =? 1) with true | change (2 =? 1) with false]; cbv beta iota zeta; reflexivity.
Qed.
Print Assumptions tie_destination.
