(* C04: value tables - label -> raw key, raw -> label, uniqueness of keys after normalisation. *)
From CM Require Import lib.Prelude model.Decimal model.ValueTable model.Scaling.

Lemma label_to_raw_sound : forall t l k, label_to_raw t l = Some k -> In (k, l) t.
Proof.
  induction t as [|[k' l'] r IH]; intros l k H; cbn [label_to_raw] in H; [discriminate|].
  destruct (l' =? l) eqn:E.
  - injection H as <-. left. f_equal. lia.
  - right. apply IH. exact H.
Qed.

Lemma label_to_raw_complete : forall t l k, In (k, l) t -> exists k', label_to_raw t l = Some k'.
Proof.
  induction t as [|[k' l'] r IH]; intros l k H; [contradiction|]. cbn [label_to_raw].
  destruct (l' =? l) eqn:E; [eexists; reflexivity|].
  destruct H as [H|H]; [injection H as -> ->; lia | eapply IH; exact H].
Qed.

Lemma label_to_raw_unique : forall t l k, NoDup (labels t) -> In (k, l) t -> label_to_raw t l = Some k.
Proof.
  induction t as [|[k' l'] r IH]; intros l k Hnd H; [contradiction|]. cbn [label_to_raw].
  unfold labels in Hnd. cbn [map snd] in Hnd. inversion Hnd as [|x xs Hnotin Hnd']. subst.
  destruct H as [H|H].
  - injection H as -> ->. rewrite Z.eqb_refl. reflexivity.
  - destruct (l' =? l) eqn:E.
    + exfalso. assert (l' = l) by lia. subst l'. apply Hnotin. change l with (snd (k, l)). apply in_map. exact H.
    + apply IH; assumption.
Qed.

Lemma raw_to_label_sound : forall t raw l, raw_to_label t raw = Some l -> In (raw, l) t.
Proof.
  induction t as [|[k' l'] r IH]; intros raw l H; cbn [raw_to_label] in H; [discriminate|].
  destruct (k' =? raw) eqn:E.
  - injection H as <-. left. f_equal. lia.
  - right. apply IH. exact H.
Qed.

Lemma raw_to_label_unique : forall t raw l, NoDup (keys t) -> In (raw, l) t -> raw_to_label t raw = Some l.
Proof.
  induction t as [|[k' l'] r IH]; intros raw l Hnd H; [contradiction|]. cbn [raw_to_label].
  unfold keys in Hnd. cbn [map fst] in Hnd. inversion Hnd as [|x xs Hnotin Hnd']. subst.
  destruct H as [H|H].
  - injection H as -> ->. rewrite Z.eqb_refl. reflexivity.
  - destruct (k' =? raw) eqn:E.
    + exfalso. assert (k' = raw) by lia. subst k'. apply Hnotin. change raw with (fst (raw, l)). apply in_map. exact H.
    + apply IH; assumption.
Qed.

Lemma raw_to_label_none : forall t raw, ~ In raw (keys t) -> raw_to_label t raw = None.
Proof.
  induction t as [|[k' l'] r IH]; intros raw H; [reflexivity|]. cbn [raw_to_label].
  unfold keys in H. cbn [map fst In] in H.
  destruct (k' =? raw) eqn:E; [exfalso; apply H; left; lia|]. apply IH. intro. apply H. right. assumption.
Qed.

(* dict assignment *)
Lemma dict_set_keys : forall t k v x, In x (keys (dict_set t k v)) <-> x = k \/ In x (keys t).
Proof.
  induction t as [|[k' v'] r IH]; intros k v x; cbn [dict_set keys map fst In].
  - intuition.
  - destruct (k' =? k) eqn:E; cbn [keys map fst In].
    + assert (k' = k) by lia. subst. fold (keys r). intuition.
    + fold (keys (dict_set r k v)). fold (keys r). rewrite IH. intuition.
Qed.

Lemma dict_set_nodup : forall t k v, NoDup (keys t) -> NoDup (keys (dict_set t k v)).
Proof.
  induction t as [|[k' v'] r IH]; intros k v H; cbn [dict_set].
  - cbn. constructor; [intros []|constructor].
  - unfold keys in H. cbn [map fst] in H. inversion H as [|x xs Hnotin Hnd]. subst.
    destruct (k' =? k) eqn:E.
    + assert (k' = k) by lia. subst. unfold keys. cbn [map fst]. constructor; assumption.
    + unfold keys. cbn [map fst]. constructor.
      * fold (keys (dict_set r k v)). rewrite dict_set_keys. fold (keys r) in Hnotin. intros [Hx|Hx]; [lia | contradiction].
      * apply IH. exact Hnd.
Qed.

Lemma fold_dict_set_nodup : forall items acc, NoDup (keys acc) ->
  NoDup (keys (fold_left (fun t kv => dict_set t (fst kv) (snd kv)) items acc)).
Proof.
  induction items as [|x r IH]; intros acc H; cbn [fold_left]; [exact H|].
  apply IH. apply dict_set_nodup. exact H.
Qed.

Lemma normalize_nodup : forall items, NoDup (keys (normalize_value_table items)).
Proof. intros. unfold normalize_value_table. apply fold_dict_set_nodup. constructor. Qed.

(* the dict comprehension keeps, for every key, the value of its LAST occurrence *)
Lemma raw_to_label_dict_set : forall t k v x,
  raw_to_label (dict_set t k v) x = if k =? x then Some v else raw_to_label t x.
Proof.
  induction t as [|[k' v'] r IH]; intros k v x; cbn [dict_set raw_to_label].
  - reflexivity.
  - destruct (k' =? k) eqn:E; cbn [raw_to_label].
    + assert (k' = k) by lia. subst. destruct (k =? x); reflexivity.
    + rewrite IH. destruct (k' =? x) eqn:E2; [|reflexivity]. destruct (k =? x) eqn:E3; [lia | reflexivity].
Qed.

Lemma raw_to_label_app : forall a b x,
  raw_to_label (a ++ b) x = match raw_to_label a x with Some v => Some v | None => raw_to_label b x end.
Proof.
  induction a as [|[k v] r IH]; intros b x; cbn [app raw_to_label]; [reflexivity|].
  destruct (k =? x); [reflexivity | apply IH].
Qed.

Lemma fold_dict_set_lookup : forall items acc x,
  raw_to_label (fold_left (fun t kv => dict_set t (fst kv) (snd kv)) items acc) x =
  match raw_to_label (rev items) x with Some v => Some v | None => raw_to_label acc x end.
Proof.
  induction items as [|[k v] r IH]; intros acc x; cbn [fold_left rev]; [reflexivity|].
  rewrite IH, raw_to_label_app, raw_to_label_dict_set. cbn [fst snd raw_to_label].
  destruct (raw_to_label (rev r) x); [reflexivity|]. destruct (k =? x); reflexivity.
Qed.

Lemma normalize_lookup : forall items x,
  raw_to_label (normalize_value_table items) x = raw_to_label (rev items) x.
Proof.
  intros. unfold normalize_value_table. rewrite fold_dict_set_lookup. cbn [raw_to_label].
  destruct (raw_to_label (rev items) x); reflexivity.
Qed.

(* named decoding *)
Lemma named_value_label_or_scaled : forall s raw,
  NoDup (keys (sc_values s)) ->
  (forall l, In (raw, l) (sc_values s) -> named_value s raw = Label l) /\
  (~ In raw (keys (sc_values s)) -> named_value s raw = Number (phys_value s raw)).
Proof.
  intros s raw Hnd. unfold named_value. split.
  - intros l H. rewrite (raw_to_label_unique _ _ _ Hnd H). reflexivity.
  - intros H. rewrite (raw_to_label_none _ _ H). reflexivity.
Qed.

Lemma label_roundtrip : forall s k l,
  NoDup (keys (sc_values s)) -> NoDup (labels (sc_values s)) -> In (k, l) (sc_values s) ->
  phys2raw_label s l = Some k /\ named_value s k = Label l.
Proof.
  intros s k l Hk Hl H. unfold phys2raw_label, named_value. split.
  - apply label_to_raw_unique; assumption.
  - rewrite (raw_to_label_unique _ _ _ Hk H). reflexivity.
Qed.

Lemma normalized_table :
  forall items, NoDup (keys (normalize_value_table items)) /\
                forall k, raw_to_label (normalize_value_table items) k = raw_to_label (rev items) k.
Proof. intros items. split; [exact (normalize_nodup items) | exact (normalize_lookup items)]. Qed.

Lemma label_to_raw_key :
  forall t l,
    (forall k, label_to_raw t l = Some k -> In (k, l) t) /\
    (forall k, In (k, l) t -> exists k', label_to_raw t l = Some k') /\
    (forall k, NoDup (labels t) -> In (k, l) t -> label_to_raw t l = Some k).
Proof.
  intros t l. split; [exact (label_to_raw_sound t l)|].
  split; [exact (label_to_raw_complete t l) | exact (label_to_raw_unique t l)].
Qed.

(* a str argument that is a label converts to its key whatever decimal.Decimal would make of the text:
   the table scan takes precedence over numeric parsing; a text that is no label is parsed *)
Lemma label_precedes_parsing : forall s text parsed,
  (forall k, In (k, text) (sc_values s) ->
     exists k', phys2raw_arg s (PStr text parsed) = Some k' /\ In (k', text) (sc_values s)) /\
  (forall k, NoDup (labels (sc_values s)) -> In (k, text) (sc_values s) ->
     phys2raw_arg s (PStr text parsed) = Some k) /\
  (~ In text (labels (sc_values s)) ->
     phys2raw_arg s (PStr text parsed) = match parsed with Some v => phys2raw_num s v | None => None end).
Proof.
  intros s text parsed. unfold phys2raw_arg, phys2raw_label. split; [|split].
  - intros k H. destruct (sc_values s) as [|x r] eqn:E; [contradiction|]. rewrite <- E in *.
    destruct (label_to_raw_complete _ _ _ H) as [k' Hk']. rewrite Hk'. exists k'. split; [reflexivity|].
    apply label_to_raw_sound. exact Hk'.
  - intros k Hnd H. destruct (sc_values s) as [|x r] eqn:E; [contradiction|]. rewrite <- E in *.
    rewrite (label_to_raw_unique _ _ _ Hnd H). reflexivity.
  - intros Hnot. destruct (sc_values s) as [|x r] eqn:E; [reflexivity|]. rewrite <- E in *.
    destruct (label_to_raw (sc_values s) text) as [k|] eqn:El; [|reflexivity].
    exfalso. apply Hnot. apply label_to_raw_sound in El. change text with (snd (k, text)). apply in_map. exact El.
Qed.
