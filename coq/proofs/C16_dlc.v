(* C16, part 3: calc_dlc / recalc_dlc / fit_dlc / set_fd_type. *)
From CM Require Import lib.Prelude model.Codec model.Layout proofs.C16_layout.

(* ---------- max_bit ---------- *)

Definition mb_step (m : Z) (s : signal) : Z := if s_start s + s_size s >? m then s_start s + s_size s else m.

Lemma max_bit_fold : forall sigs m0,
  let M := fold_left mb_step sigs m0 in
  m0 <= M /\ (forall s, In s sigs -> s_start s + s_size s <= M) /\
  (M = m0 \/ exists s, In s sigs /\ M = s_start s + s_size s).
Proof.
  induction sigs as [|s r IH]; intros m0; cbv zeta.
  - cbn [fold_left]. split; [lia|]. split; [intros s []|left; reflexivity].
  - cbn [fold_left]. specialize (IH (mb_step m0 s)). cbv zeta in IH. destruct IH as [I1 [I2 I3]].
    assert (Hstep : m0 <= mb_step m0 s /\ s_start s + s_size s <= mb_step m0 s /\
                    (mb_step m0 s = m0 \/ mb_step m0 s = s_start s + s_size s)).
    { unfold mb_step. destruct (s_start s + s_size s >? m0) eqn:E; lia. }
    split; [lia|]. split.
    + intros t [Ht|Ht]; [subst t; lia|apply I2; exact Ht].
    + destruct I3 as [I3|[t [T1 T2]]].
      * destruct Hstep as [_ [_ [H|H]]].
        -- left. lia.
        -- right. exists s. split; [left; reflexivity|lia].
      * right. exists t. split; [right; exact T1|exact T2].
Qed.

Lemma max_bit_spec : forall sigs,
  0 <= max_bit sigs /\ (forall s, In s sigs -> s_start s + s_size s <= max_bit sigs) /\
  (max_bit sigs = 0 \/ exists s, In s sigs /\ max_bit sigs = s_start s + s_size s).
Proof. intros sigs. exact (max_bit_fold sigs 0). Qed.

(* ---------- covering ---------- *)


(* all used bits of s lie in the first n bytes  <->  its end (in its own numbering) does *)
Lemma covers_one : forall n s, wellformed s ->
  ((forall p, occupies s p -> 0 <= p < 8 * n) <-> s_start s + s_size s <= 8 * n).
Proof.
  intros n s [H0 H1]. split.
  - intros H.
    (* the bit at the end of the interval *)
    set (e := s_start s + s_size s - 1).
    assert (Ho : occupies s (walk_pos (s_le s) e)).
    { apply occupies_occz. unfold occz. rewrite walk_pos_invol. unfold wocc, e. lia. }
    specialize (H _ Ho). unfold walk_pos, e in H. destruct (s_le s); lia.
  - intros H p Ho. apply occupies_occz in Ho. unfold occz, wocc, walk_pos in Ho. destruct (s_le s); lia.
Qed.

Lemma covers_iff : forall n sigs, Forall wellformed sigs ->
  (covers n sigs <-> forall s, In s sigs -> s_start s + s_size s <= 8 * n).
Proof.
  intros n sigs Hw. rewrite Forall_forall in Hw. unfold covers. split.
  - intros H s Hs. apply covers_one; [apply Hw; exact Hs|]. intros p Hp. exact (H s p Hs Hp).
  - intros H s p Hs Hp. pose proof (proj2 (covers_one n s (Hw s Hs)) (H s Hs)) as C. exact (C p Hp).
Qed.

Lemma covers_inside : forall n sigs, Forall wellformed sigs ->
  (covers n sigs <-> Forall (fun s => inside (8 * n) s = true) sigs).
Proof.
  intros n sigs Hw. rewrite covers_iff by exact Hw. rewrite Forall_forall in *. split.
  - intros H s Hs. specialize (H s Hs). destruct (Hw s Hs). unfold inside. lia.
  - intros H s Hs. specialize (H s Hs). unfold inside in H. lia.
Qed.

Theorem calc_dlc_minimal_cover : forall sigs,
  Forall wellformed sigs ->
  let n := max_byte sigs in
  0 <= n /\ covers n sigs /\ Forall (fun s => inside (8 * n) s = true) sigs /\
  forall m, 0 <= m -> covers m sigs -> n <= m.
Proof.
  intros sigs Hw. cbv zeta. destruct (max_bit_spec sigs) as [M0 [M1 M2]]. unfold max_byte.
  assert (C : covers ((max_bit sigs + 7) / 8) sigs).
  { apply covers_iff; [exact Hw|]. intros s Hs. specialize (M1 s Hs). lia. }
  split; [lia|]. split; [exact C|]. split; [apply covers_inside; assumption|].
  intros m Hm Hc. rewrite covers_iff in Hc by exact Hw.
  destruct M2 as [M2|[s [S1 S2]]]; [lia|]. specialize (Hc s S1). lia.
Qed.

Theorem calc_dlc_never_shrinks : forall f sigs,
  Forall wellformed sigs ->
  let n := calc_dlc f sigs in
  f <= n /\ n = Z.max f (max_byte sigs) /\ covers n sigs /\
  (forall m, f <= m -> 0 <= m -> covers m sigs -> n <= m) /\
  recalc_frame 0 f sigs = n.
Proof.
  intros f sigs Hw. cbv zeta. destruct (calc_dlc_minimal_cover sigs Hw) as [C0 [C1 [_ C3]]].
  unfold calc_dlc. split; [lia|]. split; [reflexivity|]. split.
  - rewrite covers_iff in * by exact Hw. intros s Hs. specialize (C1 s Hs). lia.
  - split; [|reflexivity]. intros m H1 H2 H3. specialize (C3 m H2 H3). lia.
Qed.

Theorem recalc_force_is_minimal : forall f sigs,
  Forall wellformed sigs ->
  let n := recalc_frame 1 f sigs in
  n = max_byte sigs /\ 0 <= n /\ covers n sigs /\ forall m, 0 <= m -> covers m sigs -> n <= m.
Proof.
  intros f sigs Hw. cbv zeta. destruct (calc_dlc_minimal_cover sigs Hw) as [C0 [C1 [_ C3]]].
  change (recalc_frame 1 f sigs) with (max_byte sigs).
  split; [reflexivity|]. split; [exact C0|]. split; [exact C1|exact C3].
Qed.

Lemma recalc_dlc_frames : forall strategy frames,
  recalc_dlc strategy frames = map (fun fr => recalc_frame strategy (fst fr) (snd fr)) frames.
Proof. reflexivity. Qed.

(* ---------- fit_dlc ---------- *)

Definition fit_ok (size : Z) : bool :=
  existsb (Z.eqb (fit_dlc size)) fd_lengths && (size <=? fit_dlc size) &&
  forallb (fun m => negb (size <=? m) || (fit_dlc size <=? m)) fd_lengths.

Lemma fit_sweep : forallb fit_ok (map Z.of_nat (seq 0 65)) = true.
Proof. vm_compute. reflexivity. Qed.

Theorem fit_dlc_smallest_fd_length : forall size,
  (0 <= size <= 64 ->
     In (fit_dlc size) fd_lengths /\ size <= fit_dlc size /\
     forall m, In m fd_lengths -> size <= m -> fit_dlc size <= m) /\
  (64 < size -> fit_dlc size = size) /\
  (size <= 8 -> fit_dlc size = size).
Proof.
  intros size. split; [|split].
  - intros Hs. pose proof fit_sweep as Sw. rewrite forallb_forall in Sw.
    assert (Hin : In size (map Z.of_nat (seq 0 65))).
    { apply in_map_iff. exists (Z.to_nat size). split; [lia|]. apply in_seq. lia. }
    specialize (Sw size Hin). unfold fit_ok in Sw.
    apply andb_prop in Sw. destruct Sw as [Sw S3]. apply andb_prop in Sw. destruct Sw as [S1 S2].
    split; [|split].
    + apply existsb_exists in S1. destruct S1 as [x [X1 X2]]. apply Z.eqb_eq in X2. subst x. exact X1.
    + lia.
    + intros m Hm Hle. rewrite forallb_forall in S3. specialize (S3 m Hm). lia.
  - intros H. unfold fit_dlc. cbn [fit_loop]. repeat case_if; lia.
  - intros H. unfold fit_dlc. cbn [fit_loop]. repeat case_if; lia.
Qed.

Theorem set_fd_type_spec : forall f is_fd, set_fd_type f is_fd = (is_fd || (8 <? f)).
Proof. intros f [|]; unfold set_fd_type; destruct (f >? 8) eqn:E; destruct (8 <? f) eqn:E2; try reflexivity; lia. Qed.

(* ---------- matrix level: every frame is treated on its own ---------- *)

Theorem recalc_dlc_frame_by_frame : forall strategy before f sigs after,
  let r := recalc_dlc strategy (before ++ (f, sigs) :: after) in
  length r = length (before ++ (f, sigs) :: after) /\
  nth (length before) r 0 = recalc_frame strategy f sigs /\
  r = recalc_dlc strategy before ++ recalc_dlc strategy [(f, sigs)] ++ recalc_dlc strategy after.
Proof.
  intros strategy before f sigs after. cbv zeta. unfold recalc_dlc. split; [apply map_length|]. split.
  - rewrite map_app. rewrite app_nth2 by (rewrite map_length; lia). rewrite map_length, Nat.sub_diag. reflexivity.
  - rewrite map_app. reflexivity.
Qed.

Theorem set_fd_types_frame_by_frame : forall before f fd after,
  let r := set_fd_types (before ++ (f, fd) :: after) in
  length r = length (before ++ (f, fd) :: after) /\
  nth (length before) r false = (fd || (8 <? f)).
Proof.
  intros before f fd after. cbv zeta. unfold set_fd_types. split; [apply map_length|].
  rewrite map_app. rewrite app_nth2 by (rewrite map_length; lia). rewrite map_length, Nat.sub_diag.
  cbn [map nth fst snd]. apply set_fd_type_spec.
Qed.
