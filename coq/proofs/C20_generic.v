(* C20, generic part: fault isolation of a fold with a per-line handler, for ANY step function. *)
From CM Require Import lib.Prelude model.LineFold.

Lemma read_nil {S L} (step : S -> L -> outcome S) s : read step s [] = s.
Proof. reflexivity. Qed.
Lemma read_cons {S L} (step : S -> L -> outcome S) s l ls : read step s (l :: ls) = read step (step' step s l) ls.
Proof. reflexivity. Qed.
Lemma read_app {S L} (step : S -> L -> outcome S) s l1 l2 : read step s (l1 ++ l2) = read step (read step s l1) l2.
Proof. unfold read. apply fold_left_app. Qed.

Lemma fails_before_mutation_neutral {S L} (step : S -> L -> outcome S) l : fails_before_mutation step l -> neutral step l.
Proof. intros H s. unfold step'. rewrite H. reflexivity. Qed.
Lemma unrecognised_neutral {S L} (step : S -> L -> outcome S) l : unrecognised step l -> neutral step l.
Proof. intros H s. unfold step'. rewrite H. reflexivity. Qed.

Lemma filter_neutral {S L} (step : S -> L -> outcome S) (good : L -> bool) :
  (forall l, good l = false -> neutral step l) ->
  forall ls s, read step s (filter good ls) = read step s ls.
Proof.
  intros Hn ls. induction ls as [|l ls IH]; intros s.
  - reflexivity.
  - cbn [filter]. destruct (good l) eqn:Hg.
    + rewrite !read_cons. apply IH.
    + rewrite read_cons. rewrite (Hn l Hg s). apply IH.
Qed.

Theorem bad_line_is_skipped {S L} (step : S -> L -> outcome S) (good : L -> bool) :
  (forall l, good l = false -> fails_before_mutation step l \/ unrecognised step l) ->
  (forall l, good l = false -> neutral step l) /\
  (forall s ls, read step s (filter good ls) = read step s ls) /\
  (forall R (post : S -> option R) s ls, load_with step post s (filter good ls) = load_with step post s ls).
Proof.
  intros H.
  assert (Hn : forall l, good l = false -> neutral step l).
  { intros l Hg. destruct (H l Hg) as [Hf|Hu].
    - apply fails_before_mutation_neutral; exact Hf.
    - apply unrecognised_neutral; exact Hu. }
  split; [exact Hn|]. split.
  - intros s ls. apply filter_neutral. exact Hn.
  - intros R post s ls. unfold load_with. rewrite (filter_neutral step good Hn). reflexivity.
Qed.

Theorem bad_lines_interleaved {S L} (step : S -> L -> outcome S) :
  forall bads goods merged, Interleave bads goods merged -> Forall (neutral step) bads ->
  forall s, read step s merged = read step s goods.
Proof.
  intros bads goods merged Hi. induction Hi as [|x bads goods merged Hi IH|x bads goods merged Hi IH]; intros Hb s.
  - reflexivity.
  - inversion Hb as [|y ys Hx Hrest]; subst. rewrite read_cons, (Hx s). apply IH. exact Hrest.
  - rewrite !read_cons. apply IH. exact Hb.
Qed.

(* fault isolation up to an observation *)
Theorem faulted_up_to {S L} (step : S -> L -> outcome S) (sim : S -> S -> Prop) (bad resetting preserving : L -> Prop) :
  (forall s, sim s s) -> (forall a b, sim a b -> sim b a) -> (forall a b c, sim a b -> sim b c -> sim a c) ->
  (forall l, bad l -> sim_neutral sim step l) ->
  (forall l, resetting l -> sim_resetting sim step l) ->
  (forall l, preserving l -> sim_preserving sim step l) ->
  forall d clean faulted, Faulted bad resetting preserving d clean faulted ->
  forall s1 s2, (if d then sim s1 s2 else s1 = s2) -> sim (read step s1 clean) (read step s2 faulted).
Proof.
  intros Hrefl Hsym Htrans Hbad Hres Hpres d clean faulted HF.
  induction HF as [d|d x a b Hx HF IH|d l a b Hl HF IH|d l a b Hl HF IH|l a b HF IH]; intros s1 s2 Hrel.
  - cbn. destruct d; [exact Hrel|subst; apply Hrefl].
  - rewrite read_cons. apply IH.
    assert (Hs : sim s1 s2) by (destruct d; [exact Hrel|subst; apply Hrefl]).
    apply Htrans with s2; [exact Hs|]. apply Hsym. apply (Hbad x Hx s2).
  - rewrite !read_cons. apply IH.
    assert (Hs : sim s1 s2) by (destruct d; [exact Hrel|subst; apply Hrefl]).
    apply (Hres l Hl s1 s2 Hs).
  - rewrite !read_cons. apply IH. destruct d.
    + apply (Hpres l Hl s1 s2 Hrel).
    + subst. reflexivity.
  - rewrite !read_cons. apply IH. subst. reflexivity.
Qed.

Theorem prefix_keeps_complete_objects {S L O} (step : S -> L -> outcome S) (objs : S -> O -> Prop) :
  preserves_introduced step objs ->
  forall s l1 l2 o, objs (read step s l1) o -> objs (read step s (l1 ++ l2)) o.
Proof.
  intros Hp s l1 l2 o H. rewrite read_app. generalize dependent (read step s l1).
  induction l2 as [|l l2 IH]; intros s' H.
  - exact H.
  - rewrite read_cons. apply IH. apply Hp. exact H.
Qed.
