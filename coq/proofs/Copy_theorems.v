(* C12: the statements about copy_frame in the form props/C12.v quotes them. *)
From CM Require Import lib.Prelude model.CopyOps model.CopySpec proofs.Copy_lib proofs.Copy_focus proofs.Copy_frame proofs.Copy_steps.

(* ------------------------------------------------------------------ keeps => the property's sentence about bystanders *)
Lemma eff_keeps : forall t t' c attrs a,
  keeps_definitions t t' -> defined_for attrs (get_defs c t) a ->
  obj_attribute attrs a (get_defs c t') = obj_attribute attrs a (get_defs c t).
Proof.
  intros t t' c attrs a Hk Hd. rewrite !obj_attribute_dflt.
  destruct (lookup a attrs) eqn:El; [reflexivity|].
  destruct Hd as [Hd|Hd].
  - apply mem_true_iff in Hd. destruct Hd as [v Hv]. congruence.
  - apply mem_dinfo_some in Hd. destruct Hd as [x Hx]. unfold dflt_of. rewrite Hx, (Hk _ _ _ Hx). reflexivity.
Qed.

Lemma keeps_bystanders : forall t t', keeps t t' -> bystanders_keep_values t t'.
Proof.
  intros t t' (((le & He) & (lf & Hf) & (ls & Hs) & Hg) & Hk).
  split; [|split; [|split; [|split]]].
  - intros e a Hin Hd. split; [rewrite He; apply in_or_app; left; exact Hin|].
    exact (eff_keeps t t' CEcu (e_attrs e) a Hk Hd).
  - intros f a Hin Hd. split; [rewrite Hf; apply in_or_app; left; exact Hin|].
    exact (eff_keeps t t' CFrame (f_attrs f) a Hk Hd).
  - intros f s a Hin _ Hd. split; [rewrite Hf; apply in_or_app; left; exact Hin|].
    exact (eff_keeps t t' CSig (s_attrs s) a Hk Hd).
  - intros s a Hin Hd. split; [rewrite Hs; apply in_or_app; left; exact Hin|].
    exact (eff_keeps t t' CSig (s_attrs s) a Hk Hd).
  - intros a Hd. unfold eff_glob. rewrite Hg. rewrite <- Hg at 1.
    pose proof (eff_keeps t t' CGlob (m_gattrs t) a Hk Hd) as H. simpl in H. rewrite Hg. exact H.
Qed.

Lemma keeps_refl : forall t, keeps t t.
Proof.
  intros t. split; [|apply keeps_definitions_refl].
  repeat split; try (exists []; rewrite app_nil_r; reflexivity).
Qed.

Lemma keeps_trans : forall t1 t2 t3, keeps t1 t2 -> keeps t2 t3 -> keeps t1 t3.
Proof.
  intros t1 t2 t3 (((le & He) & (lf & Hf) & (ls & Hs) & Hg) & Hk) (((le' & He') & (lf' & Hf') & (ls' & Hs') & Hg') & Hk').
  split; [|eapply keeps_definitions_trans; eassumption].
  split; [exists (le ++ le'); rewrite He', He, app_assoc; reflexivity|].
  split; [exists (lf ++ lf'); rewrite Hf', Hf, app_assoc; reflexivity|].
  split; [exists (ls ++ ls'); rewrite Hs', Hs, app_assoc; reflexivity|congruence].
Qed.

(* ------------------------------------------------------------------ copy_frame *)
Lemma copy_frame_true : forall id src t t', copy_frame id src t = (true, t') ->
  exists f, frame_by_id id (m_frames src) = Some f /\ fid f = id /\ frame_by_id id (m_frames t) = None /\
            t' = copy_frame_body f src t.
Proof.
  intros id src t t' H. unfold copy_frame in H.
  destruct (frame_by_id id (m_frames src)) as [f|] eqn:Es; [|inversion H].
  destruct (frame_by_id_some _ _ _ Es) as [_ Hid]. rewrite Hid in H.
  destruct (frame_by_id id (m_frames t)) eqn:Et; inversion H. exists f. auto.
Qed.

Lemma copy_frame_refused_unchanged : forall id src t f,
  frame_by_id id (m_frames src) = Some f -> frame_by_id id (m_frames t) <> None ->
  copy_frame id src t = (false, t).
Proof.
  intros id src t f Hs Ht. unfold copy_frame. rewrite Hs.
  destruct (frame_by_id_some _ _ _ Hs) as [_ Hid]. rewrite Hid.
  destruct (frame_by_id id (m_frames t)); [reflexivity|congruence].
Qed.

(* the result of copy_frame is false exactly when the id is in the target (given the source has it) *)
Lemma copy_frame_result : forall id src t f,
  frame_by_id id (m_frames src) = Some f ->
  fst (copy_frame id src t) = is_none (frame_by_id id (m_frames t)).
Proof.
  intros id src t f Hs. unfold copy_frame. rewrite Hs.
  destruct (frame_by_id_some _ _ _ Hs) as [_ Hid]. rewrite Hid.
  destruct (frame_by_id id (m_frames t)); reflexivity.
Qed.

(* explicit attributes survive the object's own loop, whatever the dictionaries look like *)
Lemma loop_carried : forall o sk ef oattrs l t at0,
  attrs_of o t = Some at0 -> attrs_carried oattrs at0 ->
  exists at1, attrs_of o (loop o sk ef oattrs l t) = Some at1 /\ attrs_carried oattrs at1.
Proof.
  intros o sk ef oattrs l. unfold loop. induction l as [|ad r IH]; intros t at0 Hat Hc; [exists at0; auto|].
  simpl. destruct (attr_step_attrs o sk ef oattrs t ad at0 Hat) as (at1 & Hat1 & Hshape).
  apply (IH _ at1 Hat1).
  destruct Hshape as [->|(Hl & v & Hv & ->)]; [exact Hc|].
  intros a w Haw. destruct (Z.eq_dec a (fst ad)) as [->|Hne]; [congruence|].
  rewrite lookup_aset_other by exact Hne. apply Hc. exact Haw.
Qed.

Lemma attrs_of_last_frame : forall t p f', m_frames t = p ++ [f'] -> frame_by_id (fid f') p = None ->
  attrs_of (TFrame (fid f')) t = Some (f_attrs f').
Proof.
  intros t p f' Hf Hp. simpl. rewrite Hf, frame_by_id_app, Hp. simpl. rewrite id_eqb_refl. reflexivity.
Qed.

Lemma copy_frame_carries_frame : forall id src t t',
  copy_frame id src t = (true, t') ->
  exists f f', frame_by_id id (m_frames src) = Some f /\ frame_by_id id (m_frames t) = None /\
               m_frames t' = m_frames t ++ [f'] /\ frame_carried f f'.
Proof.
  intros id src t t' H. destruct (copy_frame_true _ _ _ _ H) as (f & Hs & Hid & Ht & ->).
  rewrite <- Hid in Ht.
  destruct (copy_frame_body_shape f src t Ht) as (l & f' & He & Hf & Hc & _).
  exists f, f'. split; [exact Hs|]. split; [rewrite <- Hid; exact Ht|]. split; [exact Hf|].
  destruct Hc as (A1 & A2 & A3 & A4 & A5 & A6 & A7 & A8).
  repeat split; try assumption.
  (* the frame's explicit attributes *)
  assert (Hfid : fid f' = fid f) by (unfold fid; congruence).
  assert (Hat : attrs_of (TFrame (fid f)) (copy_frame_body f src t) = Some (f_attrs f')).
  { rewrite <- Hfid. eapply attrs_of_last_frame; [exact Hf|]. rewrite Hfid. exact Ht. }
  rewrite copy_frame_body_eq in Hat. rewrite sig_loops_attrs_other in Hat by (intros s _; discriminate).
  unfold frame_phase in Hat.
  destruct (loop_carried (TFrame (fid f)) true false (f_attrs f) (m_fdefs src)
              (bring_all (frame_refs f) src (add_frame f t)) (f_attrs f)) as (at1 & Hat1 & Hc1).
  - simpl. rewrite frames_after_bring, frame_by_id_app, Ht. simpl. rewrite id_eqb_refl. reflexivity.
  - intros a v Hv. exact Hv.
  - rewrite Hat in Hat1. inversion Hat1. subst at1. exact Hc1.
Qed.

(* ---- values ---- *)
Lemma Forall2_impl_in : forall {A B} (R P : A -> B -> Prop) l l',
  Forall2 R l l' -> (forall x y, In x l -> In y l' -> R x y -> P x y) -> Forall2 P l l'.
Proof.
  intros A B R P l l' H. induction H as [|x y l l' Hxy H IH]; intros Himp; constructor.
  - apply Himp; [left; reflexivity|left; reflexivity|exact Hxy].
  - apply IH. intros a b Ha Hb. apply Himp; right; assumption.
Qed.

Lemma sig_by_name_Forall2 : forall l l',
  NoDup (map s_name l) -> Forall2 signal_carried l l' ->
  Forall2 (fun s s' => sig_by_name (s_name s) l' = Some s') l l'.
Proof.
  intros l l' Hnd H. induction H as [|s s' l l' Hss H IH]; [constructor|].
  inversion Hnd as [|x xs Hnotin Hnd']; subst. destruct Hss as (Hn & _).
  constructor.
  - simpl. rewrite Hn, Z.eqb_refl. reflexivity.
  - eapply Forall2_impl_in; [exact (IH Hnd')|].
    intros x y Hx _ Hxy. simpl. rewrite Hn.
    destruct (s_name s =? s_name x) eqn:E; [|exact Hxy].
    apply Z.eqb_eq in E. exfalso. apply Hnotin. rewrite E. apply in_map. exact Hx.
Qed.

Lemma loop_ecus_same : forall o sk ef oattrs l t, (forall n, o <> TEcu n) -> m_ecus (loop o sk ef oattrs l t) = m_ecus t.
Proof.
  intros o sk ef oattrs l t Hno.
  pose proof (loop_objs_inv (fun ob => fst (fst (fst ob)) = m_ecus t) o sk ef oattrs l t) as Hinv.
  simpl in Hinv. apply Hinv; [|reflexivity].
  intros a v t3 H3. destruct o as [n0|id|id sn|]; simpl.
  - exfalso. apply (Hno n0). reflexivity.
  - destruct (existsb _ (m_frames t3)); exact H3.
  - destruct (frame_by_id id (m_frames t3)) as [f0|]; [|exact H3]. destruct (existsb _ (f_sigs f0)); exact H3.
  - exact H3.
Qed.

Lemma copy_frame_body_ecus : forall f src t,
  m_ecus (copy_frame_body f src t) = m_ecus (bring_all (frame_refs f) src (add_frame f t)).
Proof.
  intros f src t. rewrite copy_frame_body_eq. unfold frame_phase.
  set (t1 := bring_all (frame_refs f) src (add_frame f t)).
  assert (Hsl : forall sigs t0, m_ecus (sig_loops (fid f) src sigs t0) = m_ecus t0).
  { intros sigs. unfold sig_loops. induction sigs as [|s r IH]; intros t0; [reflexivity|].
    simpl. rewrite IH. apply loop_ecus_same. intros n0; discriminate. }
  rewrite Hsl. apply loop_ecus_same. intros n0; discriminate.
Qed.

Lemma eff_is_src_eff_frame : forall src f a, eff_frame src f a = src_eff (f_attrs f) (m_fdefs src) a.
Proof. reflexivity. Qed.

Lemma copied_effective_values_equal_source : forall ns id src t t' f,
  ns_ok ns src -> dicts_ok src -> NoDup (map s_name (f_sigs f)) ->
  frame_by_id id (m_frames src) = Some f -> copy_frame id src t = (true, t') ->
  exists f', m_frames t' = m_frames t ++ [f'] /\
    values_from (eff_frame src f) (eff_frame t' f') /\
    Forall2 (fun s s' => values_from (eff_sig src s) (eff_sig t' s')) (f_sigs f) (f_sigs f') /\
    (forall n e, In n (frame_refs f) -> ecu_by_name n (m_ecus src) = Some e -> ecu_by_name n (m_ecus t) = None ->
       exists e', ecu_by_name n (m_ecus t') = Some e' /\ values_from (eff_ecu src e) (eff_ecu t' e')).
Proof.
  intros ns id src t t' f Hns (Hd1 & Hd2 & Hd3) Hnames Hs H.
  destruct (copy_frame_true _ _ _ _ H) as (f0 & Hs0 & Hid & Ht & ->).
  rewrite Hs in Hs0. inversion Hs0. subst f0. clear Hs0. rewrite <- Hid in Ht.
  destruct (copy_frame_body_shape f src t Ht) as (l & f' & He & Hf & Hc & _).
  exists f'. split; [exact Hf|].
  assert (Hfid : fid f' = fid f) by (apply fid_core; exact Hc).
  split; [|split].
  - (* the frame *)
    destruct (copy_frame_body_frame_good ns f src t Hns Hd2 Ht) as (at0 & Hat & _ & Hv & _).
    rewrite <- Hfid in Hat. rewrite (attrs_of_last_frame _ _ _ Hf) in Hat by (rewrite Hfid; exact Ht).
    inversion Hat. subst at0. intros a v Hav. apply (Hv a v). exact Hav.
  - (* its signals, by position *)
    destruct Hc as (_ & _ & _ & _ & _ & _ & _ & Hsigs).
    pose proof (sig_by_name_Forall2 _ _ Hnames Hsigs) as Hpos.
    eapply Forall2_impl_in; [exact Hpos|].
    intros s s' Hin _ Hby a v Hav.
    destruct (copy_frame_body_sig_good ns f src t s Hns Hd1 Hnames Ht Hin) as (at0 & Hat & _ & Hv & _).
    simpl in Hat. rewrite Hf, frame_by_id_app, Ht in Hat. simpl in Hat. rewrite Hfid, id_eqb_refl, Hby in Hat.
    simpl in Hat. inversion Hat. subst at0. apply (Hv a v). exact Hav.
  - (* the ECUs it brought *)
    intros n e Hin Hse Hab.
    assert (Hp : ecu_by_name n (m_ecus (copy_frame_body f src t)) <> None).
    { rewrite copy_frame_body_ecus. apply bring_all_present; [exact Hin|congruence]. }
    destruct (copy_frame_body_ecu_good ns f src t n Hns Hd3 Hab Hp) as (e0 & He0 & (at0 & Hat & _ & Hv & _)).
    rewrite Hse in He0. inversion He0. subst e0.
    simpl in Hat. destruct (ecu_by_name n (m_ecus (copy_frame_body f src t))) as [e'|]; [|discriminate].
    exists e'. split; [reflexivity|]. simpl in Hat. inversion Hat. subst at0.
    intros a v Hav. apply (Hv a v). exact Hav.
Qed.

(* ---- what comes along ---- *)
Lemma define_brought_from : forall ns src t t' c a sd,
  ns_ok ns src -> dicts_ok src -> steps src t t' -> lookup a (get_defs c src) = Some sd ->
  mem a (get_defs c t') = true -> define_brought c a src t t'.
Proof.
  intros ns src t t' c a sd Hns Hd Hst Hl Hm. split; [exact Hm|].
  intros Hno. destruct (steps_src_define ns src t t' c a sd Hns Hd Hl Hst) as [_ H2].
  apply dinfo_none_mem in Hno. destruct (H2 Hno) as [H|H].
  - apply dinfo_none_mem in H. congruence.
  - rewrite H. unfold dinfo. rewrite Hl. reflexivity.
Qed.

Lemma copy_frame_brings_ecus_and_defines : forall ns id src t t' f,
  ns_ok ns src -> dicts_ok src -> NoDup (map s_name (f_sigs f)) ->
  frame_by_id id (m_frames src) = Some f -> copy_frame id src t = (true, t') ->
  (forall n, In n (frame_refs f) -> ecu_by_name n (m_ecus src) <> None -> ecu_by_name n (m_ecus t') <> None) /\
  (forall a v, eff_frame src f a = Some v -> mem a (m_fdefs src) = true -> define_brought CFrame a src t t') /\
  (forall s a v, In s (f_sigs f) -> eff_sig src s a = Some v -> mem a (m_sdefs src) = true -> define_brought CSig a src t t') /\
  (forall n e a v, In n (frame_refs f) -> ecu_by_name n (m_ecus src) = Some e -> ecu_by_name n (m_ecus t) = None ->
     eff_ecu src e a = Some v -> mem a (m_edefs src) = true -> define_brought CEcu a src t t').
Proof.
  intros ns id src t t' f Hns Hd Hnames Hs H. pose proof Hd as (Hd1 & Hd2 & Hd3).
  destruct (copy_frame_true _ _ _ _ H) as (f0 & Hs0 & Hid & Ht & ->).
  rewrite Hs in Hs0. inversion Hs0. subst f0. clear Hs0. rewrite <- Hid in Ht.
  pose proof (steps_copy_frame_body f src t) as Hst.
  assert (Hpres : forall n, In n (frame_refs f) -> ecu_by_name n (m_ecus src) <> None ->
                    ecu_by_name n (m_ecus (copy_frame_body f src t)) <> None).
  { intros n Hin Hn. rewrite copy_frame_body_ecus. apply bring_all_present; assumption. }
  split; [exact Hpres|]. split; [|split].
  - intros a v Hv Hm. apply mem_true_iff in Hm. destruct Hm as [sd Hl].
    apply (define_brought_from ns src t _ CFrame a sd Hns Hd Hst Hl).
    destruct (copy_frame_body_frame_good ns f src t Hns Hd2 Ht) as (at0 & _ & _ & _ & Hmem).
    apply (Hmem a v Hv). apply mem_true_iff. eauto.
  - intros s a v Hin Hv Hm. apply mem_true_iff in Hm. destruct Hm as [sd Hl].
    apply (define_brought_from ns src t _ CSig a sd Hns Hd Hst Hl).
    destruct (copy_frame_body_sig_good ns f src t s Hns Hd1 Hnames Ht Hin) as (at0 & _ & _ & _ & Hmem).
    apply (Hmem a v Hv). apply mem_true_iff. eauto.
  - intros n e a v Hin Hse Hab Hv Hm. apply mem_true_iff in Hm. destruct Hm as [sd Hl].
    apply (define_brought_from ns src t _ CEcu a sd Hns Hd Hst Hl).
    assert (Hp : ecu_by_name n (m_ecus (copy_frame_body f src t)) <> None) by (apply Hpres; [exact Hin|congruence]).
    destruct (copy_frame_body_ecu_good ns f src t n Hns Hd3 Hab Hp) as (e0 & He0 & (at0 & _ & _ & _ & Hmem)).
    rewrite Hse in He0. inversion He0. subst e0.
    apply (Hmem a v Hv). apply mem_true_iff. eauto.
Qed.

(* ---- bystanders ---- *)
Lemma copy_frame_keeps : forall ns id src t,
  ns_ok ns src -> ns_ok ns t -> keeps t (snd (copy_frame id src t)) /\ ns_ok ns (snd (copy_frame id src t)).
Proof.
  intros ns id src t Hs Ht.
  destruct (steps_ns ns src t _ Hs (steps_copy_frame id src t) Ht) as [Hns Hk].
  split; [|exact Hns]. split; [|exact Hk].
  unfold copy_frame. destruct (frame_by_id id (m_frames src)) as [f|]; simpl.
  - destruct (frame_by_id (fid f) (m_frames t)) eqn:Et; simpl.
    + apply keeps_refl.
    + destruct (copy_frame_body_shape f src t Et) as (l & f' & He & Hf & _ & Hsg & Hg).
      split; [exists l; exact He|]. split; [exists [f']; exact Hf|]. split; [exists []; rewrite app_nil_r; exact Hsg|exact Hg].
  - repeat split; try (exists []; rewrite app_nil_r; reflexivity).
Qed.
