(* General facts relating masks (Z.land / Z.lor with shifted blocks of ones) to div/mod arithmetic.
   Valid for every integer x (two's complement on negatives). *)
From CM Require Import lib.Prelude.

(* (B) a right shift followed by a low mask is a div/mod field *)
Lemma land_ones_div : forall x k m, 0 <= k -> 0 <= m ->
  Z.land (Z.shiftr x k) (Z.ones m) = (x / 2 ^ k) mod 2 ^ m.
Proof.
  intros x k m Hk Hm. rewrite Z.land_ones by assumption.
  rewrite Z.shiftr_div_pow2 by assumption. reflexivity.
Qed.

Lemma land_ones_mod : forall x m, 0 <= m -> Z.land x (Z.ones m) = x mod 2 ^ m.
Proof. intros x m Hm. apply Z.land_ones; assumption. Qed.

(* (A) masking with a shifted block of ones keeps the field in place *)
Lemma land_shifted_ones : forall x k m, 0 <= k -> 0 <= m ->
  Z.land x (Z.shiftl (Z.ones m) k) = ((x / 2 ^ k) mod 2 ^ m) * 2 ^ k.
Proof.
  intros x k m Hk Hm.
  rewrite <- land_ones_div by assumption.
  rewrite <- Z.shiftl_mul_pow2 by assumption.
  apply Z.bits_inj'. intros n Hn.
  rewrite Z.land_spec, !Z.shiftl_spec by assumption.
  destruct (Z.ltb_spec n k) as [Hlt | Hge].
  - rewrite !(Z.testbit_neg_r _ (n - k)) by lia. apply andb_false_r.
  - rewrite Z.land_spec, Z.shiftr_spec by lia.
    replace (n - k + k) with n by ring. reflexivity.
Qed.

(* (C) disjoint bit patterns: or = plus *)
Lemma lor_land0_add : forall a b, Z.land a b = 0 -> Z.lor a b = a + b.
Proof.
  intros a b H. rewrite (Z.add_nocarry_lxor _ _ H). symmetry. apply Z.lxor_lor; assumption.
Qed.

Lemma land_mul_pow2_small : forall u k b, 0 <= k -> 0 <= b < 2 ^ k -> Z.land (u * 2 ^ k) b = 0.
Proof.
  intros u k b Hk Hb. apply Z.bits_inj'. intros n Hn.
  rewrite Z.land_spec, Z.bits_0.
  destruct (Z.ltb_spec n k) as [Hlt | Hge].
  - rewrite Z.mul_pow2_bits_low by assumption. reflexivity.
  - rewrite <- (Z.mod_small b (2 ^ k)) by assumption.
    rewrite Z.mod_pow2_bits_high by lia. apply andb_false_r.
Qed.

Lemma lor_disjoint_add : forall u k b, 0 <= k -> 0 <= b < 2 ^ k -> Z.lor (u * 2 ^ k) b = u * 2 ^ k + b.
Proof. intros u k b Hk Hb. apply lor_land0_add. apply land_mul_pow2_small; assumption. Qed.

Lemma lor_disjoint_add_l : forall u k b, 0 <= k -> 0 <= b < 2 ^ k -> Z.lor b (u * 2 ^ k) = u * 2 ^ k + b.
Proof. intros u k b Hk Hb. rewrite Z.lor_comm. apply lor_disjoint_add; assumption. Qed.

(* (D) the range check `id == id & (2^n - 1)` *)
Lemma eq_land_ones_iff : forall id n, 0 <= n -> (id = Z.land id (Z.ones n) <-> 0 <= id < 2 ^ n).
Proof.
  intros id n Hn. rewrite Z.land_ones by assumption.
  pose proof (Z.pow_pos_nonneg 2 n ltac:(lia) Hn) as Hp.
  split.
  - intros H. rewrite H. apply Z.mod_pos_bound; assumption.
  - intros H. symmetry. apply Z.mod_small; assumption.
Qed.

Lemma ones_pow2_pred : forall n, Z.ones n = 2 ^ n - 1.
Proof. intros n. rewrite Z.ones_equiv. apply Z.sub_1_r. Qed.
