(* C03: reusable facts about model/Mux.v - Python dict model, lookups in the unpacked frame, copy loops. *)
From CM Require Import lib.Prelude model.Codec model.Mux proofs.Codec_decode.

(* ---------- opt_eqb ---------- *)

Lemma opt_eqb_eq : forall a b, opt_eqb a b = true <-> a = b.
Proof.
  intros [x|] [y|]; cbn [opt_eqb]; split; intro H; try discriminate; try reflexivity.
  - apply Z.eqb_eq in H. congruence.
  - assert (x = y) by congruence. subst. apply Z.eqb_refl.
Qed.

Lemma opt_eqb_refl : forall a, opt_eqb a a = true.
Proof. intro a. apply opt_eqb_eq. reflexivity. Qed.

Lemma opt_eqb_neq : forall a b, opt_eqb a b = false <-> a <> b.
Proof.
  intros a b. split.
  - intros H E. apply opt_eqb_eq in E. congruence.
  - intro H. destruct (opt_eqb a b) eqn:E; [|reflexivity]. apply opt_eqb_eq in E. contradiction.
Qed.

Lemma is_none_eq : forall a, is_none a = true <-> a = None.
Proof. intros [x|]; cbn; split; intro H; congruence. Qed.

(* ---------- dict_set / dict_of_list ---------- *)

Lemma dict_set_notin : forall d k v, ~ In k (map fst d) -> dict_set d k v = d ++ [(k, v)].
Proof.
  induction d as [|[k' v'] r IH]; intros k v Hni.
  - reflexivity.
  - cbn [dict_set]. cbn [map fst In] in Hni.
    destruct (Z.eqb_spec k' k) as [E|E].
    + exfalso. apply Hni. left. exact E.
    + rewrite IH by (intro H; apply Hni; right; exact H). reflexivity.
Qed.

Lemma fold_dict_set_nodup : forall l acc, NoDup (map fst (acc ++ l)) ->
  fold_left (fun d kv => dict_set d (fst kv) (snd kv)) l acc = acc ++ l.
Proof.
  induction l as [|[k v] r IH]; intros acc Hnd.
  - cbn. rewrite app_nil_r. reflexivity.
  - cbn [fold_left fst snd].
    assert (Hni : ~ In k (map fst acc)).
    { rewrite map_app in Hnd. cbn [map fst] in Hnd. apply NoDup_remove_2 in Hnd.
      intro H. apply Hnd. apply in_or_app. left. exact H. }
    rewrite (dict_set_notin acc k v Hni).
    rewrite IH.
    + rewrite <- app_assoc. reflexivity.
    + rewrite <- app_assoc. exact Hnd.
Qed.

Lemma dict_of_list_nodup : forall l, NoDup (map fst l) -> dict_of_list l = l.
Proof. intros l H. unfold dict_of_list. rewrite fold_dict_set_nodup; [reflexivity|exact H]. Qed.

Lemma dict_set_keys : forall d k v n, In n (map fst (dict_set d k v)) <-> In n (map fst d) \/ n = k.
Proof.
  induction d as [|[k' v'] r IH]; intros k v n.
  - cbn. intuition.
  - cbn [dict_set]. destruct (Z.eqb_spec k' k) as [E|E].
    + subst k'. cbn [map fst In]. intuition.
    + cbn [map fst In]. rewrite IH. intuition.
Qed.

Lemma dict_set_nodup : forall d k v, NoDup (map fst d) -> NoDup (map fst (dict_set d k v)).
Proof.
  induction d as [|[k' v'] r IH]; intros k v Hnd.
  - cbn. constructor; [intros []|constructor].
  - cbn [dict_set]. cbn [map fst] in Hnd. inversion Hnd as [|a l Hni Hnd']; subst a l.
    destruct (Z.eqb_spec k' k) as [E|E].
    + subst k'. cbn [map fst]. constructor; assumption.
    + cbn [map fst]. constructor.
      * rewrite dict_set_keys. intros [H|H]; [exact (Hni H)|congruence].
      * apply IH. exact Hnd'.
Qed.

Lemma dict_set_entry : forall d k v n x,
  In (n, x) (dict_set d k v) -> (n = k /\ x = v) \/ In (n, x) d.
Proof.
  induction d as [|[k' v'] r IH]; intros k v n x H.
  - cbn in H. destruct H as [H|[]]. left. split; congruence.
  - cbn [dict_set] in H. destruct (Z.eqb_spec k' k) as [E|E].
    + destruct H as [H|H].
      * left. split; congruence.
      * right. right. exact H.
    + destruct H as [H|H].
      * right. left. exact H.
      * destruct (IH k v n x H) as [H'|H']; [left; exact H'|right; right; exact H'].
Qed.

(* a dict all of whose entries carry the value `decoded` holds for their key *)
Definition consistent (decoded d : list (Z * raw)) : Prop :=
  forall n x, In (n, x) d -> lookup n decoded = Some x.

Lemma consistent_nil : forall decoded, consistent decoded [].
Proof. intros decoded n x []. Qed.

Lemma consistent_set : forall decoded d k v,
  consistent decoded d -> lookup k decoded = Some v -> consistent decoded (dict_set d k v).
Proof.
  intros decoded d k v Hc Hk n x H.
  destruct (dict_set_entry d k v n x H) as [[E1 E2]|H']; [subst; exact Hk|apply Hc; exact H'].
Qed.

Lemma consistent_entries : forall decoded d n x, consistent decoded d ->
  (In (n, x) d <-> In n (map fst d) /\ lookup n decoded = Some x).
Proof.
  intros decoded d n x Hc. split.
  - intro H. split; [|apply Hc; exact H].
    apply in_map_iff. exists (n, x). split; [reflexivity|exact H].
  - intros [Hk Hl]. apply in_map_iff in Hk. destruct Hk as [[n' x'] [E H]]. cbn in E. subst n'.
    pose proof (Hc n x' H) as Hx. assert (x = x') by congruence. subst x'. exact H.
Qed.

(* ---------- the copy loop ---------- *)

Lemma copy_values_spec : forall decoded l dv,
  (forall s, In s l -> lookup (m_name s) decoded <> None) ->
  exists dv', copy_values l decoded dv = Some dv' /\
    (forall n, In n (map fst dv') <-> In n (map fst dv) \/ In n (map m_name l)) /\
    (consistent decoded dv -> consistent decoded dv') /\
    (NoDup (map fst dv) -> NoDup (map fst dv')).
Proof.
  intros decoded. induction l as [|s r IH]; intros dv Hl.
  - exists dv. split; [reflexivity|]. split; [|split; auto].
    intro n. cbn. intuition.
  - cbn [copy_values].
    destruct (lookup (m_name s) decoded) as [v|] eqn:E.
    2:{ exfalso. apply (Hl s); [left; reflexivity|exact E]. }
    destruct (IH (dict_set dv (m_name s) v)) as [dv' [H1 [H2 [H3 H4]]]].
    { intros t Ht. apply Hl. right. exact Ht. }
    exists dv'. split; [exact H1|]. split; [|split].
    + intro n. rewrite H2. rewrite dict_set_keys. cbn [map In]. intuition.
    + intro Hc. apply H3. apply consistent_set; assumption.
    + intro Hn. apply H4. apply dict_set_nodup. exact Hn.
Qed.

Lemma copy_values_exact : forall decoded (g : msignal -> raw) l dv,
  (forall s, In s l -> lookup (m_name s) decoded = Some (g s)) ->
  NoDup (map fst dv ++ map m_name l) ->
  copy_values l decoded dv = Some (dv ++ map (fun s => (m_name s, g s)) l).
Proof.
  intros decoded g. induction l as [|s r IH]; intros dv Hl Hnd.
  - cbn. rewrite app_nil_r. reflexivity.
  - cbn [copy_values]. rewrite (Hl s) by (left; reflexivity).
    cbn [map] in Hnd.
    assert (Hni : ~ In (m_name s) (map fst dv)).
    { apply NoDup_remove_2 in Hnd. intro H. apply Hnd. apply in_or_app. left. exact H. }
    rewrite (dict_set_notin dv _ _ Hni).
    rewrite IH.
    + rewrite <- app_assoc. reflexivity.
    + intros t Ht. apply Hl. right. exact Ht.
    + rewrite map_app. cbn [map fst]. rewrite <- app_assoc. exact Hnd.
Qed.

(* names determine signals *)
Lemma unique_names_inj : forall sigs s t, unique_names sigs -> In s sigs -> In t sigs ->
  m_name s = m_name t -> s = t.
Proof.
  intros sigs s t Hn. unfold unique_names in Hn. induction sigs as [|a r IH]; intros Hs Ht E; [destruct Hs|].
  cbn [map] in Hn. inversion Hn as [|x l Hni Hnd]; subst x l.
  destruct Hs as [<-|Hs]; destruct Ht as [<-|Ht].
  - reflexivity.
  - exfalso. apply Hni. rewrite E. apply in_map. exact Ht.
  - exfalso. apply Hni. rewrite <- E. apply in_map. exact Hs.
  - apply IH; assumption.
Qed.


(* ---------- the unpacked frame ---------- *)

Definition decoded_of (d : list Z) (sigs : list msignal) : list (Z * raw) :=
  map (fun s => (m_name s, convention_value d (m_sig s))) sigs.

Lemma decoded_keys : forall d sigs, map fst (decoded_of d sigs) = map m_name sigs.
Proof. intros d sigs. unfold decoded_of. rewrite map_map. reflexivity. Qed.

Lemma lookup_decoded : forall d sigs s, unique_names sigs -> In s sigs ->
  lookup (m_name s) (decoded_of d sigs) = Some (convention_value d (m_sig s)).
Proof.
  intros d sigs s. unfold unique_names, decoded_of. induction sigs as [|t r IH]; intros Hnd Hin.
  - destruct Hin.
  - cbn [map] in Hnd. inversion Hnd as [|a l Hni Hnd']; subst a l.
    cbn [map lookup]. destruct Hin as [<-|Hin].
    + rewrite Z.eqb_refl. reflexivity.
    + destruct (Z.eqb_spec (m_name t) (m_name s)) as [E|E].
      * exfalso. apply Hni. rewrite E. apply in_map. exact Hin.
      * apply IH; assumption.
Qed.

Lemma lookup_decoded_name : forall d sigs n x, lookup n (decoded_of d sigs) = Some x ->
  exists s, In s sigs /\ m_name s = n /\ x = convention_value d (m_sig s).
Proof.
  intros d sigs n x. unfold decoded_of. induction sigs as [|t r IH]; intro H.
  - discriminate.
  - cbn [map lookup] in H. destruct (Z.eqb_spec (m_name t) n) as [E|E].
    + exists t. split; [left; reflexivity|]. split; [exact E|congruence].
    + destruct (IH H) as [s [H1 H2]]. exists s. split; [right; exact H1|exact H2].
Qed.

Lemma placed_codec : forall fsize sigs, placed fsize sigs ->
  Forall (fun s => inside (8 * fsize) s = true /\ float_ok s) (map m_sig sigs).
Proof.
  intros fsize sigs H. unfold placed in H. rewrite Forall_forall in *.
  intros s Hs. apply in_map_iff in Hs. destruct Hs as [t [<- Ht]].
  destruct (H t Ht) as [H1 [H2 _]]. split; assumption.
Qed.

Lemma unpack_msigs : forall f d, unique_names (f_sigs f) -> placed (f_size f) (f_sigs f) ->
  zlen d = f_size f ->
  frame_unpack (f_size f) (map m_sig (f_sigs f)) false false d = UOk (decoded_of d (f_sigs f)) /\
  dict_of_list (decoded_of d (f_sigs f)) = decoded_of d (f_sigs f).
Proof.
  intros f d Hn Hp Hl. split.
  - rewrite (frame_unpack_values (f_size f) (map m_sig (f_sigs f)) false false d Hl (placed_codec _ _ Hp)).
    unfold decoded_of. rewrite map_map. reflexivity.
  - apply dict_of_list_nodup. rewrite decoded_keys. exact Hn.
Qed.

Lemma mux_int_value : forall fsize sigs d m, placed fsize sigs -> In m sigs -> m_is_mux m = true ->
  exists v, convention_value d (m_sig m) = RInt v /\ int_value d m = Some v.
Proof.
  intros fsize sigs d m Hp Hin Hm. unfold placed in Hp. rewrite Forall_forall in Hp.
  destruct (Hp m Hin) as [_ [_ Hf]]. specialize (Hf Hm).
  unfold int_value, convention_value. rewrite Hf. eexists. split; reflexivity.
Qed.
