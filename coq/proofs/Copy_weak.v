(* C12: histories that include direct_ecu_only=True: ECUs may disappear from the target and ECU names may be struck from
   transmitter/receiver lists, but no surviving object changes an attribute value. *)
From CM Require Import lib.Prelude model.CopyOps model.CopySpec proofs.Copy_lib proofs.Copy_focus proofs.Copy_frame
  proofs.Copy_steps proofs.Copy_theorems proofs.Copy_ops.

Lemma sublist_refl : forall {A} (l : list A), sublist l l.
Proof. intros A l. induction l; constructor; assumption. Qed.

Lemma sublist_trans : forall {A} (l1 l2 l3 : list A), sublist l1 l2 -> sublist l2 l3 -> sublist l1 l3.
Proof.
  intros A l1 l2 l3 H12 H23. revert l1 H12. induction H23 as [|x l2 l3 H IH|x l2 l3 H IH]; intros l1 H12.
  - inversion H12. constructor.
  - apply sub_skip. apply IH. exact H12.
  - inversion H12; subst.
    + apply sub_skip. apply IH. assumption.
    + apply sub_keep. apply IH. assumption.
Qed.

Lemma sublist_app : forall {A} (a a' b b' : list A), sublist a a' -> sublist b b' -> sublist (a ++ b) (a' ++ b').
Proof.
  intros A a a' b b' Ha Hb. induction Ha; simpl; [exact Hb| |]; constructor; assumption.
Qed.

Lemma sublist_app_inv : forall {A} (l a b : list A), sublist l (a ++ b) ->
  exists la lb, l = la ++ lb /\ sublist la a /\ sublist lb b.
Proof.
  intros A l a. revert l. induction a as [|x a IH]; intros l b H; simpl in H.
  - exists [], l. repeat split; [constructor|exact H].
  - inversion H as [|x' l1' l2' Hsub|x' l1' l2' Hsub]; subst.
    + destruct (IH _ _ Hsub) as (la & lb & -> & Ha & Hb). exists la, lb. repeat split; [constructor; exact Ha|exact Hb].
    + destruct (IH _ _ Hsub) as (la & lb & -> & Ha & Hb). exists (x :: la), lb. repeat split; [constructor; exact Ha|exact Hb].
Qed.

Lemma sublist_remove_first : forall {A} (p : A -> bool) l, sublist (remove_first p l) l.
Proof.
  intros A p l. induction l as [|x r IH]; simpl; [constructor|].
  destruct (p x); [apply sub_skip; apply sublist_refl|apply sub_keep; exact IH].
Qed.

Lemma sublist_in : forall {A} (l l' : list A) x, sublist l l' -> In x l -> In x l'.
Proof.
  intros A l l' x H. induction H; simpl; intros Hin; [contradiction|right; auto|].
  destruct Hin; [left; assumption|right; auto].
Qed.

Lemma Forall2_app_inv_l' : forall {A B} (R : A -> B -> Prop) l1 l2 l',
  Forall2 R (l1 ++ l2) l' -> exists l1' l2', l' = l1' ++ l2' /\ Forall2 R l1 l1' /\ Forall2 R l2 l2'.
Proof.
  intros A B R l1. induction l1 as [|x r IH]; intros l2 l' H; simpl in H.
  - exists [], l'. repeat split; [constructor|exact H].
  - inversion H as [|x0 y l0 l0' Hxy Hrest]; subst. destruct (IH _ _ Hrest) as (l1' & l2' & -> & H1 & H2).
    exists (y :: l1'), l2'. repeat split; [constructor; assumption|exact H2].
Qed.

Lemma Forall2_impl' : forall {A B} (R P : A -> B -> Prop) l l',
  (forall x y, R x y -> P x y) -> Forall2 R l l' -> Forall2 P l l'.
Proof. intros A B R P l l' Himp H. induction H; constructor; auto. Qed.

(* ---- the relation ---- *)
Lemma sig_same_refl : forall s, sig_same_but_receivers s s.
Proof. intros s. repeat split; try reflexivity. apply sublist_refl. Qed.
Lemma frame_same_refl : forall f, frame_same_but_ecu_refs f f.
Proof.
  intros f. repeat split; try reflexivity; [apply sublist_refl|]. apply Forall2_refl. apply sig_same_refl.
Qed.
Lemma sig_same_trans : forall s1 s2 s3, sig_same_but_receivers s1 s2 -> sig_same_but_receivers s2 s3 -> sig_same_but_receivers s1 s3.
Proof.
  intros s1 s2 s3 (A1 & A2 & A3 & A4 & A5) (B1 & B2 & B3 & B4 & B5).
  repeat split; try congruence. eapply sublist_trans; eassumption.
Qed.
Lemma frame_same_trans : forall f1 f2 f3, frame_same_but_ecu_refs f1 f2 -> frame_same_but_ecu_refs f2 f3 -> frame_same_but_ecu_refs f1 f3.
Proof.
  intros f1 f2 f3 (A1 & A2 & A3 & A4 & A5 & A6 & A7 & A8) (B1 & B2 & B3 & B4 & B5 & B6 & B7 & B8).
  repeat split; try congruence; [eapply sublist_trans; eassumption|].
  eapply Forall2_trans; [exact sig_same_trans|exact A8|exact B8].
Qed.

Lemma keeps_weakly_refl : forall t, keeps_weakly t t.
Proof.
  intros t. split; [exists (m_ecus t), []; split; [apply sublist_refl|rewrite app_nil_r; reflexivity]|].
  split; [exists (m_frames t), []; split; [apply Forall2_refl; apply frame_same_refl|rewrite app_nil_r; reflexivity]|].
  split; [exists []; rewrite app_nil_r; reflexivity|]. split; [reflexivity|apply keeps_definitions_refl].
Qed.

Lemma keeps_weakly_trans : forall t1 t2 t3, keeps_weakly t1 t2 -> keeps_weakly t2 t3 -> keeps_weakly t1 t3.
Proof.
  intros t1 t2 t3 ((e0 & el & Hes & He) & (fs & fl & Hfs & Hf) & (sl & Hs) & Hg & Hk)
                  ((e0' & el' & Hes' & He') & (fs' & fl' & Hfs' & Hf') & (sl' & Hs') & Hg' & Hk').
  split; [|split; [|split; [|split]]].
  - rewrite He in Hes'. destruct (sublist_app_inv _ _ _ Hes') as (la & lb & -> & Ha & Hb).
    exists la, (lb ++ el'). split; [eapply sublist_trans; eassumption|]. rewrite He', app_assoc. reflexivity.
  - rewrite Hf in Hfs'. destruct (Forall2_app_inv_l' _ _ _ _ Hfs') as (fa & fb & -> & Ha & Hb).
    exists fa, (fb ++ fl'). split; [|rewrite Hf', app_assoc; reflexivity].
    eapply Forall2_trans; [exact frame_same_trans|exact Hfs|exact Ha].
  - exists (sl ++ sl'). rewrite Hs', Hs, app_assoc. reflexivity.
  - congruence.
  - eapply keeps_definitions_trans; eassumption.
Qed.

Lemma keeps_keeps_weakly : forall t t', keeps t t' -> keeps_weakly t t'.
Proof.
  intros t t' (((le & He) & (lf & Hf) & Hs & Hg) & Hk).
  split; [exists (m_ecus t), le; split; [apply sublist_refl|exact He]|].
  split; [exists (m_frames t), lf; split; [apply Forall2_refl; apply frame_same_refl|exact Hf]|].
  auto.
Qed.

(* ---- direct_ecu_only ---- *)
Lemma del_from_frame_same : forall n f, frame_same_but_ecu_refs f (del_from_frame n f).
Proof.
  intros n f. unfold del_from_frame. repeat split; simpl; try reflexivity.
  - apply sublist_remove_first.
  - induction (f_sigs f) as [|s r IH]; simpl; constructor; [|exact IH].
    repeat split; simpl; try reflexivity. apply sublist_remove_first.
Qed.

Lemma del_ecu_keeps_weakly : forall e t, keeps_weakly t (del_ecu e t).
Proof.
  intros e t. unfold del_ecu. destruct (existsb _ _); [|apply keeps_weakly_refl].
  split; [exists (remove_first (ecu_eqb e) (m_ecus t)), []; split; [apply sublist_remove_first|simpl; rewrite app_nil_r; reflexivity]|].
  split.
  { exists (map (del_from_frame (e_name e)) (m_frames t)), []. split; [|simpl; rewrite app_nil_r; reflexivity].
    induction (m_frames t) as [|f r IH]; simpl; constructor; [apply del_from_frame_same|exact IH]. }
  split; [exists []; simpl; rewrite app_nil_r; reflexivity|]. split; [reflexivity|].
  intros c a x H. destruct c; exact H.
Qed.

Lemma keeps_weakly_fold : forall {A} (F : matrix -> A -> matrix) l t,
  (forall t x, keeps_weakly t (F t x)) -> keeps_weakly t (fold_left F l t).
Proof.
  intros A F l. induction l as [|x r IH]; intros t H; simpl; [apply keeps_weakly_refl|].
  eapply keeps_weakly_trans; [apply H|apply IH; exact H].
Qed.

Lemma direct_only_keeps_weakly : forall w t, keeps_weakly t (direct_only w t).
Proof. intros w t. unfold direct_only. apply keeps_weakly_fold. intros t0 e. apply del_ecu_keeps_weakly. Qed.

Lemma ns_ok_same_defs : forall ns t t', (forall c, get_defs c t' = get_defs c t) -> ns_ok ns t -> ns_ok ns t'.
Proof. intros ns t t' H Hns c a Hm. apply Hns. rewrite <- H. exact Hm. Qed.

Lemma get_defs_del_ecu : forall e t c, get_defs c (del_ecu e t) = get_defs c t.
Proof. intros e t c. unfold del_ecu. destruct (existsb _ _); destruct c; reflexivity. Qed.

Lemma get_defs_direct_only : forall w t c, get_defs c (direct_only w t) = get_defs c t.
Proof.
  intros w t c. unfold direct_only.
  generalize (filter (fun e : ecu => negb (memz (e_name e) w) && negb (is_sender (e_name e) t)) (m_ecus t)).
  intros l. revert t. induction l as [|e r IH]; intros t; simpl; [reflexivity|]. rewrite IH. apply get_defs_del_ecu.
Qed.

Lemma copy_ecu_with_frames_direct : forall g rx tx src t,
  copy_ecu_with_frames g rx tx true src t =
  direct_only (map e_name (glob_ecus g src)) (copy_ecu_with_frames g rx tx false src t).
Proof. reflexivity. Qed.

Lemma op_keeps_weakly : forall ns o t, ns_ok ns t -> Forall (ns_ok ns) (op_sources o) ->
  keeps_weakly t (apply_op t o) /\ ns_ok ns (apply_op t o).
Proof.
  intros ns o t Ht Hs. destruct (op_deletes o) eqn:Ed.
  - destruct o as [id src|g src|g rx tx d src|g src|srcs]; simpl in Ed; try discriminate. subst d.
    change (apply_op t (OpCopyEcuFrames g rx tx true src))
      with (direct_only (map e_name (glob_ecus g src)) (copy_ecu_with_frames g rx tx false src t)).
    destruct (op_keeps ns (OpCopyEcuFrames g rx tx false src) t Ht Hs eq_refl) as [H1 H2]. simpl in H1, H2.
    split.
    + eapply keeps_weakly_trans; [apply keeps_keeps_weakly; exact H1|apply direct_only_keeps_weakly].
    + eapply ns_ok_same_defs; [|exact H2]. intros c. apply get_defs_direct_only.
  - destruct (op_keeps ns o t Ht Hs Ed) as [H1 H2]. split; [apply keeps_keeps_weakly; exact H1|exact H2].
Qed.

Lemma history_keeps_weakly : forall ns ops t,
  ns_ok ns t -> Forall (fun o => Forall (ns_ok ns) (op_sources o)) ops ->
  keeps_weakly t (run_history t ops) /\ ns_ok ns (run_history t ops).
Proof.
  intros ns ops. unfold run_history. induction ops as [|o r IH]; intros t Ht Hs; [split; [apply keeps_weakly_refl|exact Ht]|].
  simpl. inversion Hs as [|x xs Hso Hsr]; subst.
  destruct (op_keeps_weakly ns o t Ht Hso) as [H1 H2].
  destruct (IH _ H2 Hsr) as [H3 H4]. split; [eapply keeps_weakly_trans; eassumption|exact H4].
Qed.

(* ---- what it means for values ---- *)
Lemma keeps_weakly_bystanders : forall t t', keeps_weakly t t' -> bystanders_keep_values_weakly t t'.
Proof.
  intros t t' ((e0 & el & Hes & He) & (fs & fl & Hfs & Hf) & (sl & Hs) & Hg & Hk).
  split; [|split; [|split]].
  - exists e0, el. split; [exact Hes|]. split; [exact He|].
    intros e a _ Hd. exact (eff_keeps t t' CEcu (e_attrs e) a Hk Hd).
  - exists fs, fl. split; [exact Hf|].
    eapply Forall2_impl'; [|exact Hfs].
    intros f f' (A1 & A2 & A3 & A4 & A5 & A6 & A7 & A8). split; [exact A1|]. split.
    + intros a Hd. unfold eff_frame. rewrite A6. exact (eff_keeps t t' CFrame (f_attrs f) a Hk Hd).
    + eapply Forall2_impl'; [|exact A8].
      intros s s' (B1 & B2 & B3 & B4 & B5). split; [exact B1|].
      intros a Hd. unfold eff_sig. rewrite B4. exact (eff_keeps t t' CSig (s_attrs s) a Hk Hd).
  - intros s a Hin Hd. split; [rewrite Hs; apply in_or_app; left; exact Hin|].
    exact (eff_keeps t t' CSig (s_attrs s) a Hk Hd).
  - intros a Hd. unfold eff_glob. rewrite Hg.
    pose proof (eff_keeps t t' CGlob (m_gattrs t) a Hk Hd) as H. simpl in H. exact H.
Qed.

(* ---- the statements quoted by props/C12.v ---- *)
Lemma copy_frame_bystanders : forall ns id src t,
  ns_ok ns src -> ns_ok ns t ->
  keeps t (snd (copy_frame id src t)) /\ bystanders_keep_values t (snd (copy_frame id src t)).
Proof.
  intros ns id src t Hs Ht. destruct (copy_frame_keeps ns id src t Hs Ht) as [H _].
  split; [exact H|apply keeps_bystanders; exact H].
Qed.

Lemma op_bystanders : forall ns o t,
  ns_ok ns t -> Forall (ns_ok ns) (op_sources o) -> op_deletes o = false ->
  keeps t (apply_op t o) /\ bystanders_keep_values t (apply_op t o).
Proof.
  intros ns o t Ht Hs Hd. destruct (op_keeps ns o t Ht Hs Hd) as [H _].
  split; [exact H|apply keeps_bystanders; exact H].
Qed.

Lemma history_bystanders : forall ns ops t,
  ns_ok ns t -> Forall (fun o => Forall (ns_ok ns) (op_sources o)) ops -> Forall (fun o => op_deletes o = false) ops ->
  keeps t (run_history t ops) /\ bystanders_keep_values t (run_history t ops).
Proof.
  intros ns ops t Ht Hs Hd. destruct (history_keeps ns ops t Ht Hs Hd) as [H _].
  split; [exact H|apply keeps_bystanders; exact H].
Qed.

Lemma history_bystanders_weakly : forall ns ops t,
  ns_ok ns t -> Forall (fun o => Forall (ns_ok ns) (op_sources o)) ops ->
  keeps_weakly t (run_history t ops) /\ bystanders_keep_values_weakly t (run_history t ops).
Proof.
  intros ns ops t Ht Hs. destruct (history_keeps_weakly ns ops t Ht Hs) as [H _].
  split; [exact H|apply keeps_weakly_bystanders; exact H].
Qed.
