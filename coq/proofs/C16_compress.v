(* C16, part 4b: the compress loops: termination, what is kept, no overlap, no gap. *)
From CM Require Import lib.Prelude model.Codec model.Layout proofs.Codec_encode_lib proofs.C16_layout
  proofs.C16_dummy proofs.C16_compress_lib.

(* ---------- both loops are one iteration scheme ---------- *)

Fixpoint iter_loop (stepf : list signal -> option (list signal)) (fuel : nat) (sigs : list signal) : option (list signal) :=
  match fuel with
  | O => None
  | S fu => match stepf sigs with
            | None => Some sigs
            | Some sigs' => iter_loop stepf fu sigs'
            end
  end.

Definition big_stepf (f : Z) (sigs : list signal) : option (list signal) :=
  match find_move_big (layout_idx f sigs) 0 None with
  | None => None
  | Some (fs, k) => Some (update_start k (fun _ => fs) sigs)
  end.
Definition little_stepf (f : Z) (sigs : list signal) : option (list signal) :=
  match find_move_little (visit_little (layout_idx f sigs)) None with
  | None => None
  | Some (g, k) => Some (update_start k (fun st => st - g) sigs)
  end.

Lemma big_loop_iter : forall fuel f sigs, compress_big_loop fuel f sigs = iter_loop (big_stepf f) fuel sigs.
Proof.
  induction fuel as [|fu IH]; intros f sigs; cbn [compress_big_loop iter_loop]; [reflexivity|].
  unfold big_stepf. destruct (find_move_big (layout_idx f sigs) 0 None) as [[fs k]|]; [apply IH|reflexivity].
Qed.

Lemma little_loop_iter : forall fuel f sigs, compress_little_loop fuel f sigs = iter_loop (little_stepf f) fuel sigs.
Proof.
  induction fuel as [|fu IH]; intros f sigs; cbn [compress_little_loop iter_loop]; [reflexivity|].
  unfold little_stepf. destruct (find_move_little (visit_little (layout_idx f sigs)) None) as [[g k]|]; [apply IH|reflexivity].
Qed.

Lemma iter_mono : forall stepf fuel sigs r, iter_loop stepf fuel sigs = Some r ->
  forall fuel', (fuel <= fuel')%nat -> iter_loop stepf fuel' sigs = Some r.
Proof.
  induction fuel as [|fu IH]; intros sigs r H fuel' Hle; cbn [iter_loop] in H; [discriminate|].
  destruct fuel' as [|fu']; [lia|]. cbn [iter_loop]. destruct (stepf sigs) as [sigs'|]; [|exact H].
  apply IH; [exact H|lia].
Qed.

(* ---------- the step functions move one signal or report that no gap is left ---------- *)

Definition good (W : Z) (le : bool) (sigs : list signal) : Prop :=
  Forall (fun s => inside0 W s = true) sigs /\ Forall (fun s => s_le s = le) sigs.

Definition stepf_ok (W : Z) (le : bool) (stepf : list signal -> option (list signal)) : Prop :=
  forall sigs, good W le sigs ->
    match stepf sigs with
    | None => no_gap W sigs
    | Some sigs' => moved sigs sigs'
    end.

Lemma big_stepf_ok : forall f, 0 <= f -> stepf_ok (8 * f) false (big_stepf f).
Proof.
  intros f Hf sigs [Hin Hbe]. unfold big_stepf. rewrite big_scan3.
  pose proof (cells_ok_big f sigs Hf Hin Hbe) as Hok.
  destruct (scan3 (layout_idx f sigs) 0 None) as [[[n0 n1] k]|] eqn:E; cbn [option_map fst snd].
  - apply (scan_moves sigs (8 * f) _ n0 n1 k (fun _ => n0) Hok Hin E). intros; reflexivity.
  - apply (scan_final sigs (8 * f) _ Hok E).
Qed.

Lemma little_stepf_ok : forall f, 0 <= f -> stepf_ok (8 * f) true (little_stepf f).
Proof.
  intros f Hf sigs [Hin Hle]. unfold little_stepf.
  pose proof (cells_ok_little f sigs Hf Hin Hle) as Hok.
  pose proof (little_scan3 (visit_little (layout_idx f sigs)) 0 None) as L. cbn [option_map] in L. rewrite L.
  destruct (scan3 (visit_little (layout_idx f sigs)) 0 None) as [[[n0 n1] k]|] eqn:E; cbn [option_map fst snd].
  - apply (scan_moves sigs (8 * f) _ n0 n1 k (fun st => st - (n1 - n0)) Hok Hin E). intros s _ Hs. cbv beta. lia.
  - apply (scan_final sigs (8 * f) _ Hok E).
Qed.

(* ---------- what one move keeps ---------- *)

Lemma sum_starts_app : forall l1 l2, sum_starts (l1 ++ l2) = sum_starts l1 + sum_starts l2.
Proof.
  induction l1 as [|x l1 IH]; intros l2.
  - change (sum_starts []) with 0. cbn [app]. lia.
  - change (sum_starts ((x :: l1) ++ l2)) with (s_start x + sum_starts (l1 ++ l2)).
    change (sum_starts (x :: l1)) with (s_start x + sum_starts l1). rewrite IH. lia.
Qed.

Lemma sum_starts_nonneg : forall W sigs, Forall (fun s => inside0 W s = true) sigs -> 0 <= sum_starts sigs.
Proof.
  intros W sigs H. induction H as [|s l Hs Hl IH]; cbn [sum_starts fold_right]; [lia|].
  apply inside0_facts in Hs. unfold sum_starts in IH. lia.
Qed.

Lemma moved_sum : forall sigs sigs', moved sigs sigs' -> sum_starts sigs' < sum_starts sigs.
Proof.
  intros sigs sigs' [l1 [s [l2 [n0 [n1 [E1 [E2 [Hn [Hst _]]]]]]]]]. subst sigs sigs'.
  rewrite !sum_starts_app. cbn [sum_starts fold_right set_start s_start]. lia.
Qed.

Lemma moved_good : forall W le sigs sigs', good W le sigs -> moved sigs sigs' -> good W le sigs'.
Proof.
  intros W le sigs sigs' [G1 G2] [l1 [s [l2 [n0 [n1 [E1 [E2 [Hn [Hst [Hsz _]]]]]]]]]]. subst sigs sigs'.
  apply Forall_app in G1. destruct G1 as [A1 A2]. inversion A2 as [|? ? A3 A4]; subst.
  apply Forall_app in G2. destruct G2 as [B1 B2]. inversion B2 as [|? ? B3 B4]; subst.
  split; apply Forall_app; (split; [assumption|]); constructor; try assumption.
  - apply inside0_facts in A3. unfold inside0. cbn [set_start s_start s_size]. lia.
  - reflexivity.
Qed.

Lemma moved_shape : forall sigs sigs', moved sigs sigs' -> map shape sigs' = map shape sigs.
Proof.
  intros sigs sigs' [l1 [s [l2 [n0 [n1 [E1 [E2 _]]]]]]]. subst sigs sigs'. rewrite !map_app. reflexivity.
Qed.

Lemma moved_sizes : forall sigs sigs', moved sigs sigs' ->
  Forall (fun s => 1 <= s_size s) sigs -> Forall (fun s => 1 <= s_size s) sigs'.
Proof.
  intros sigs sigs' [l1 [s [l2 [n0 [n1 [E1 [E2 _]]]]]]] H. subst sigs sigs'.
  apply Forall_app in H. destruct H as [A1 A2]. inversion A2 as [|? ? A3 A4]; subst.
  apply Forall_app. split; [assumption|]. constructor; assumption.
Qed.

Lemma wcount_app : forall l1 l2 n, wcount (l1 ++ l2) n = (wcount l1 n + wcount l2 n)%nat.
Proof. intros. unfold wcount. rewrite filter_app, app_length. reflexivity. Qed.

Lemma wcount_cons : forall s l n, wcount (s :: l) n = ((if wocc s n then 1 else 0) + wcount l n)%nat.
Proof. intros. unfold wcount. cbn [filter]. destruct (wocc s n); reflexivity. Qed.

Lemma wcount_zero : forall l n, (forall t, In t l -> wocc t n = false) -> wcount l n = 0%nat.
Proof.
  induction l as [|s l IH]; intros n H; [reflexivity|]. rewrite wcount_cons.
  rewrite (H s (or_introl eq_refl)). cbn [Nat.add]. apply IH. intros t Ht. apply H. right. exact Ht.
Qed.

Lemma wcount_pos : forall l n t, In t l -> wocc t n = true -> (1 <= wcount l n)%nat.
Proof.
  induction l as [|s l IH]; intros n t Ht Ho; [destruct Ht|]. rewrite wcount_cons. destruct Ht as [Ht|Ht].
  - subst s. rewrite Ho. lia.
  - pose proof (IH n t Ht Ho). lia.
Qed.

Lemma moved_wcount : forall sigs sigs', moved sigs sigs' ->
  (forall n, (wcount sigs n <= 1)%nat) -> forall n, (wcount sigs' n <= 1)%nat.
Proof.
  intros sigs sigs' [l1 [s [l2 [n0 [n1 [E1 [E2 [Hn [Hst [Hsz Hfree]]]]]]]]]] H n. subst sigs'.
  specialize (H n). rewrite E1 in H. rewrite wcount_app, wcount_cons in H |- *.
  destruct (wocc (set_start s n0) n) eqn:Eo.
  - unfold wocc in Eo. cbn [set_start s_start s_size] in Eo.
    destruct (Z.ltb_spec n n1) as [Hl|Hl].
    + assert (Z1 : wcount l1 n = 0%nat).
      { apply wcount_zero. intros t Ht. apply Hfree; [|lia]. rewrite E1. apply in_or_app. left. exact Ht. }
      assert (Z2 : wcount l2 n = 0%nat).
      { apply wcount_zero. intros t Ht. apply Hfree; [|lia]. rewrite E1. apply in_or_app. right. right. exact Ht. }
      lia.
    + assert (Es : wocc s n = true) by (unfold wocc; lia). rewrite Es in H. exact H.
  - destruct (wocc s n); lia.
Qed.

(* relative order of the start bits *)

Lemma same_order_refl : forall xs, same_order xs xs.
Proof. intros xs. split; [reflexivity|]. intros; reflexivity. Qed.

Lemma same_order_trans : forall xs ys zs, same_order xs ys -> same_order ys zs -> same_order xs zs.
Proof.
  intros xs ys zs [L1 O1] [L2 O2]. split; [congruence|]. intros i j Hi Hj.
  rewrite (O1 i j Hi Hj). apply O2; rewrite <- L1; assumption.
Qed.

Lemma same_order_map : forall (g : Z -> Z) (S : Z -> Prop) xs,
  (forall x y, S x -> S y -> (x <? y) = (g x <? g y)) -> Forall S xs -> same_order xs (map g xs).
Proof.
  intros g S xs Hg HS. split; [rewrite map_length; reflexivity|]. intros i j Hi Hj.
  rewrite (nth_indep (map g xs) 0 (g 0)) by (rewrite map_length; exact Hi).
  rewrite (nth_indep (map g xs) 0 (g 0)) by (rewrite map_length; exact Hj).
  rewrite !map_nth. rewrite Forall_forall in HS. apply Hg; apply HS; apply nth_In; assumption.
Qed.

Lemma moved_order : forall sigs sigs', moved sigs sigs' ->
  (forall n, (wcount sigs n <= 1)%nat) -> Forall (fun s => 1 <= s_size s) sigs ->
  same_order (map s_start sigs) (map s_start sigs').
Proof.
  intros sigs sigs' [l1 [s [l2 [n0 [n1 [E1 [E2 [Hn [Hst [Hsz Hfree]]]]]]]]]] Hc Hsizes.
  set (g := fun x => if x =? n1 then n0 else x).
  assert (Hown : forall t, In t sigs -> wocc t (s_start t) = true).
  { intros t Ht. rewrite Forall_forall in Hsizes. specialize (Hsizes t Ht). unfold wocc. lia. }
  assert (HS : Forall (fun x => x < n0 \/ n1 <= x) (map s_start sigs)).
  { apply Forall_forall. intros x Hx. apply in_map_iff in Hx. destruct Hx as [t [Tx Ht]]. subst x.
    destruct (Z.ltb_spec (s_start t) n0); [left; assumption|]. destruct (Z.leb_spec n1 (s_start t)); [right; assumption|].
    exfalso. pose proof (Hfree t (s_start t) Ht ltac:(lia)) as F. rewrite (Hown t Ht) in F. discriminate. }
  assert (Hother : forall t, In t l1 \/ In t l2 -> s_start t <> n1).
  { intros t Ht E. specialize (Hc n1). rewrite E1, wcount_app, wcount_cons in Hc.
    assert (Es : wocc s n1 = true) by (unfold wocc; lia). rewrite Es in Hc.
    assert (Et : wocc t n1 = true).
    { rewrite <- E. apply Hown. rewrite E1. apply in_or_app. destruct Ht; [left|right; right]; assumption. }
    destruct Ht as [Ht|Ht]; pose proof (wcount_pos _ n1 t Ht Et); lia. }
  assert (Eg : map s_start sigs' = map g (map s_start sigs)).
  { subst sigs sigs'. rewrite !map_app. cbn [map set_start s_start]. rewrite !map_map. f_equal; [|f_equal].
    - apply map_ext_in. intros t Ht. unfold g. destruct (Z.eqb_spec (s_start t) n1) as [E|E]; [|reflexivity].
      exfalso. apply (Hother t (or_introl Ht)). exact E.
    - unfold g. rewrite Hst, Z.eqb_refl. reflexivity.
    - apply map_ext_in. intros t Ht. unfold g. destruct (Z.eqb_spec (s_start t) n1) as [E|E]; [|reflexivity].
      exfalso. apply (Hother t (or_intror Ht)). exact E. }
  rewrite Eg. apply (same_order_map g (fun x => x < n0 \/ n1 <= x)); [|exact HS].
  intros x y Hx Hy. unfold g. destruct (Z.eqb_spec x n1); destruct (Z.eqb_spec y n1); lia.
Qed.

(* ---------- the loop ---------- *)

Lemma iter_props : forall W le stepf, stepf_ok W le stepf ->
  forall fuel sigs, good W le sigs -> sum_starts sigs < Z.of_nat fuel ->
  exists r, iter_loop stepf fuel sigs = Some r /\ good W le r /\ no_gap W r /\
    map shape r = map shape sigs /\
    (Forall (fun s => 1 <= s_size s) sigs -> Forall (fun s => 1 <= s_size s) r) /\
    ((forall n, (wcount sigs n <= 1)%nat) ->
       (forall n, (wcount r n <= 1)%nat) /\
       (Forall (fun s => 1 <= s_size s) sigs -> same_order (map s_start sigs) (map s_start r))).
Proof.
  intros W le stepf Hok. induction fuel as [|fu IH]; intros sigs Hg Hsum.
  - pose proof (sum_starts_nonneg W sigs (proj1 Hg)). lia.
  - cbn [iter_loop]. pose proof (Hok sigs Hg) as Hs. destruct (stepf sigs) as [sigs'|].
    + pose proof (moved_sum _ _ Hs) as Hlt.
      destruct (IH sigs' (moved_good _ _ _ _ Hg Hs) ltac:(lia)) as [r [R1 [R2 [R3 [R4 [R5 R6]]]]]].
      exists r. split; [exact R1|]. split; [exact R2|]. split; [exact R3|]. split.
      * rewrite R4. apply moved_shape. exact Hs.
      * split.
        -- intros Hz. apply R5. apply (moved_sizes _ _ Hs Hz).
        -- intros Hc. destruct (R6 (moved_wcount _ _ Hs Hc)) as [R61 R62]. split; [exact R61|].
           intros Hz. eapply same_order_trans; [apply (moved_order _ _ Hs Hc Hz)|]. apply R62. apply (moved_sizes _ _ Hs Hz).
    + exists sigs. split; [reflexivity|]. split; [exact Hg|]. split; [exact Hs|]. split; [reflexivity|].
      split; [intros H; exact H|]. intros Hc. split; [exact Hc|]. intros _. apply same_order_refl.
Qed.

(* ---------- compress ---------- *)

Lemma compress_fuel_sum : forall W sigs, Forall (fun s => inside0 W s = true) sigs ->
  sum_starts sigs < Z.of_nat (compress_fuel sigs).
Proof.
  intros W sigs H. pose proof (sum_starts_nonneg W sigs H). unfold compress_fuel.
  change (fold_right (fun s a => s_start s + a) 0 sigs) with (sum_starts sigs). lia.
Qed.

Lemma existsb_false_all : forall sigs, existsb s_le sigs = false -> Forall (fun s => s_le s = false) sigs.
Proof.
  induction sigs as [|s l IH]; intros H; [constructor|]. cbn [existsb] in H. apply Bool.orb_false_iff in H.
  destruct H as [H1 H2]. constructor; [exact H1|apply IH; exact H2].
Qed.

Lemma forallb_true_all : forall sigs, forallb s_le sigs = true -> Forall (fun s => s_le s = true) sigs.
Proof.
  induction sigs as [|s l IH]; intros H; [constructor|]. cbn [forallb] in H. apply andb_prop in H.
  destruct H as [H1 H2]. constructor; [exact H1|apply IH; exact H2].
Qed.

(* which loop runs (independent of the fuel) *)
Lemma compress_dispatch : forall f sigs,
  (existsb s_le sigs = true /\ forallb s_le sigs = false /\ forall fuel, compress fuel f sigs = Some sigs) \/
  (exists le, Forall (fun s => s_le s = le) sigs /\
     forall fuel, compress fuel f sigs = iter_loop (if le then little_stepf f else big_stepf f) fuel sigs).
Proof.
  intros f sigs. unfold compress, compress_little.
  destruct (existsb s_le sigs) eqn:E1.
  - destruct (forallb s_le sigs) eqn:E2.
    + right. exists true. split; [apply forallb_true_all; exact E2|]. intros fuel. apply little_loop_iter.
    + left. split; [reflexivity|]. split; reflexivity.
  - right. exists false. split; [apply existsb_false_all; exact E1|]. intros fuel. apply big_loop_iter.
Qed.

Lemma stepf_ok_le : forall f le, 0 <= f -> stepf_ok (8 * f) le (if le then little_stepf f else big_stepf f).
Proof. intros f [|] Hf; [apply little_stepf_ok|apply big_stepf_ok]; exact Hf. Qed.

Theorem compress_terminates : forall f sigs fuel,
  0 <= f -> Forall (fun s => inside0 (8 * f) s = true) sigs -> (compress_fuel sigs <= fuel)%nat ->
  exists r, compress fuel f sigs = Some r /\ compress (compress_fuel sigs) f sigs = Some r.
Proof.
  intros f sigs fuel Hf Hin Hfuel. destruct (compress_dispatch f sigs) as [[_ [_ H]]|[le [Hle H]]].
  - exists sigs. split; apply H.
  - destruct (iter_props (8 * f) le _ (stepf_ok_le f le Hf) (compress_fuel sigs) sigs (conj Hin Hle)
                (compress_fuel_sum _ _ Hin)) as [r [R1 _]].
    exists r. rewrite !H. split; [|exact R1]. apply (iter_mono _ _ _ _ R1 fuel Hfuel).
Qed.

(* the facts about a finished compress, in walking coordinates *)
Lemma compress_facts : forall f sigs fuel r,
  0 <= f -> Forall (fun s => inside0 (8 * f) s = true) sigs ->
  compress fuel f sigs = Some r ->
  map shape r = map shape sigs /\
  ((existsb s_le sigs = true /\ forallb s_le sigs = false /\ r = sigs) \/
   exists le, good (8 * f) le sigs /\ good (8 * f) le r /\ no_gap (8 * f) r /\
     (Forall (fun s => 1 <= s_size s) sigs -> Forall (fun s => 1 <= s_size s) r) /\
     ((forall n, (wcount sigs n <= 1)%nat) ->
        (forall n, (wcount r n <= 1)%nat) /\
        (Forall (fun s => 1 <= s_size s) sigs -> same_order (map s_start sigs) (map s_start r)))).
Proof.
  intros f sigs fuel r Hf Hin Hr. destruct (compress_dispatch f sigs) as [[E1 [E2 H]]|[le [Hle H]]].
  - rewrite H in Hr. inversion Hr; subst r. split; [reflexivity|]. left. repeat split; assumption.
  - rewrite H in Hr.
    set (F := Nat.max fuel (compress_fuel sigs)).
    pose proof (iter_mono _ _ _ _ Hr F ltac:(lia)) as Hr2.
    destruct (iter_props (8 * f) le _ (stepf_ok_le f le Hf) F sigs (conj Hin Hle)) as [r' [R1 [R2 [R3 [R4 [R5 R6]]]]]].
    { pose proof (compress_fuel_sum _ _ Hin). lia. }
    rewrite Hr2 in R1. inversion R1; subst r'. split; [exact R4|]. right. exists le.
    split; [split; assumption|]. split; [exact R2|]. split; [exact R3|]. split; [exact R5|exact R6].
Qed.

(* ---------- back to payload positions ---------- *)

Lemma occ_count_wcount : forall le sigs p, Forall (fun s => s_le s = le) sigs ->
  occ_count sigs p = wcount sigs (walk_pos le p).
Proof.
  intros le sigs p H. unfold occ_count, wcount. f_equal. apply filter_ext_in. intros s Hs.
  rewrite Forall_forall in H. unfold occz. rewrite (H s Hs). reflexivity.
Qed.

Lemma disjoint_wcount : forall le sigs, Forall (fun s => s_le s = le) sigs ->
  (pairwise_disjoint sigs <-> forall n, (wcount sigs n <= 1)%nat).
Proof.
  intros le sigs H. split.
  - intros D n. rewrite <- (walk_pos_invol le n). rewrite <- (occ_count_wcount le sigs _ H).
    apply disjoint_count_le1. exact D.
  - intros C. apply count_le1_disjoint. intros p. rewrite (occ_count_wcount le sigs p H). apply C.
Qed.


Lemma used_used_at : forall le sigs n, Forall (fun s => s_le s = le) sigs ->
  (used sigs (walk_pos le n) <-> used_at sigs n).
Proof.
  intros le sigs n H. rewrite Forall_forall in H.
  split; intros [s [S1 S2]]; exists s; (split; [exact S1|]).
  - apply occupies_occz in S2. unfold occz in S2. rewrite (H s S1), walk_pos_invol in S2. exact S2.
  - apply occupies_occz. unfold occz. rewrite (H s S1), walk_pos_invol. exact S2.
Qed.

Theorem compress_changes_only_start_bits : forall f sigs fuel r,
  0 <= f -> Forall (fun s => inside0 (8 * f) s = true) sigs ->
  compress fuel f sigs = Some r -> map shape r = map shape sigs.
Proof. intros f sigs fuel r Hf Hin Hr. apply (compress_facts f sigs fuel r Hf Hin Hr). Qed.

Lemma inside_split : forall W s, inside W s = true <-> inside0 W s = true /\ 1 <= s_size s.
Proof. intros W s. unfold inside, inside0. lia. Qed.

Lemma uniform_not_mixed : forall le sigs, Forall (fun s => s_le s = le) sigs ->
  existsb s_le sigs = true -> forallb s_le sigs = false -> False.
Proof.
  intros le sigs H E1 E2. rewrite Forall_forall in H. apply existsb_exists in E1. destruct E1 as [s [S1 S2]].
  assert (forallb s_le sigs = true); [|congruence]. apply forallb_forall. intros t Ht.
  rewrite (H t Ht). rewrite <- (H s S1). exact S2.
Qed.

Theorem compress_keeps_sizes_orders : forall f le sigs fuel r,
  0 <= f -> Forall (fun s => inside (8 * f) s = true) sigs -> Forall (fun s => s_le s = le) sigs ->
  pairwise_disjoint sigs -> compress fuel f sigs = Some r ->
  map shape r = map shape sigs /\ same_order (map s_start sigs) (map s_start r).
Proof.
  intros f le sigs fuel r Hf Hin Hle Hd Hr.
  assert (Hin0 : Forall (fun s => inside0 (8 * f) s = true) sigs).
  { eapply Forall_impl; [|exact Hin]. intros s H. apply inside_split in H. tauto. }
  assert (Hsz : Forall (fun s => 1 <= s_size s) sigs).
  { eapply Forall_impl; [|exact Hin]. intros s H. apply inside_split in H. tauto. }
  destruct (compress_facts f sigs fuel r Hf Hin0 Hr) as [Hshape [[E1 [E2 _]]|[le' [G1 [G2 [G3 [G4 G5]]]]]]].
  - exfalso. exact (uniform_not_mixed le sigs Hle E1 E2).
  - split; [exact Hshape|]. apply G5; [|exact Hsz]. apply (disjoint_wcount le' sigs (proj2 G1)). exact Hd.
Qed.

Theorem compress_no_overlap : forall f le sigs fuel r,
  0 <= f -> Forall (fun s => inside (8 * f) s = true) sigs -> Forall (fun s => s_le s = le) sigs ->
  pairwise_disjoint sigs -> compress fuel f sigs = Some r ->
  Forall (fun s => inside (8 * f) s = true) r /\ pairwise_disjoint r.
Proof.
  intros f le sigs fuel r Hf Hin Hle Hd Hr.
  assert (Hin0 : Forall (fun s => inside0 (8 * f) s = true) sigs).
  { eapply Forall_impl; [|exact Hin]. intros s H. apply inside_split in H. tauto. }
  assert (Hsz : Forall (fun s => 1 <= s_size s) sigs).
  { eapply Forall_impl; [|exact Hin]. intros s H. apply inside_split in H. tauto. }
  destruct (compress_facts f sigs fuel r Hf Hin0 Hr) as [Hshape [[E1 [E2 _]]|[le' [G1 [G2 [G3 [G4 G5]]]]]]].
  - exfalso. exact (uniform_not_mixed le sigs Hle E1 E2).
  - split.
    + pose proof (G4 Hsz) as Hz. destruct G2 as [G21 _]. rewrite Forall_forall in *. intros s Hs.
      apply inside_split. split; [apply G21; exact Hs|apply Hz; exact Hs].
    + apply (disjoint_wcount le' r (proj2 G2)). apply G5. apply (disjoint_wcount le' sigs (proj2 G1)). exact Hd.
Qed.

Lemma map_shape_nil : forall r, map shape r = map shape [] -> r = [].
Proof. intros [|x r] H; [reflexivity|discriminate]. Qed.

Theorem compress_no_gap_before_last : forall f le sigs fuel r,
  0 <= f -> Forall (fun s => inside0 (8 * f) s = true) sigs -> Forall (fun s => s_le s = le) sigs ->
  compress fuel f sigs = Some r ->
  forall n m, 0 <= n < m -> used r (walk_pos le m) -> used r (walk_pos le n).
Proof.
  intros f le sigs fuel r Hf Hin0 Hle Hr n m Hnm Hu.
  destruct (compress_facts f sigs fuel r Hf Hin0 Hr) as [Hshape [[E1 [E2 _]]|[le' [G1 [G2 [G3 _]]]]]].
  - exfalso. exact (uniform_not_mixed le sigs Hle E1 E2).
  - destruct sigs as [|s0 l].
    + apply map_shape_nil in Hshape. subst r. destruct Hu as [s [[] _]].
    + assert (le' = le).
      { destruct G1 as [_ A]. inversion A; subst. inversion Hle; subst. reflexivity. }
      subst le'. destruct G2 as [G21 G22].
      apply (used_used_at le r n G22). apply (used_used_at le r m G22) in Hu.
      apply (G3 n m Hnm); [|exact Hu].
      destruct Hu as [t [T1 T2]]. rewrite Forall_forall in G21. specialize (G21 t T1).
      apply inside0_facts in G21. unfold wocc in T2. lia.
Qed.
