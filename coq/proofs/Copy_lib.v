(* C12: lemmas about dicts, locators and one round of the attribute loop (model/CopyOps.v). *)
From CM Require Import lib.Prelude model.CopyOps model.CopySpec.

(* ------------------------------------------------------------------ dicts *)
Lemma lookup_app : forall {A} k (l1 l2 : list (Z * A)),
  lookup k (l1 ++ l2) = match lookup k l1 with Some v => Some v | None => lookup k l2 end.
Proof.
  intros A k l1 l2. induction l1 as [|kv r IH]; simpl; [reflexivity|].
  destruct (fst kv =? k); [reflexivity|exact IH].
Qed.

Lemma lookup_aset_same : forall {A} k (v : A) l, lookup k (aset k v l) = Some v.
Proof.
  intros A k v l. induction l as [|kv r IH]; simpl.
  - rewrite Z.eqb_refl. reflexivity.
  - destruct (fst kv =? k) eqn:E; simpl; rewrite E; [reflexivity|exact IH].
Qed.

Lemma lookup_aset_other : forall {A} k k' (v : A) l, k' <> k -> lookup k' (aset k v l) = lookup k' l.
Proof.
  intros A k k' v l Hne. induction l as [|kv r IH]; simpl.
  - destruct (k =? k') eqn:E; [apply Z.eqb_eq in E; congruence|reflexivity].
  - destruct (fst kv =? k) eqn:E; simpl.
    + apply Z.eqb_eq in E. destruct (fst kv =? k') eqn:E'; [apply Z.eqb_eq in E'; congruence|reflexivity].
    + destruct (fst kv =? k'); [reflexivity|exact IH].
Qed.

Lemma mem_true_iff : forall {A} k (l : list (Z * A)), mem k l = true <-> exists v, lookup k l = Some v.
Proof.
  intros A k l. unfold mem. destruct (lookup k l) as [v|]; split; intros H.
  - exists v; reflexivity.
  - reflexivity.
  - discriminate.
  - destruct H as [v H]; discriminate.
Qed.

Lemma mem_false_iff : forall {A} k (l : list (Z * A)), mem k l = false <-> lookup k l = None.
Proof.
  intros A k l. unfold mem. destruct (lookup k l); split; intros H; congruence.
Qed.

Lemma lookup_in_keys : forall {A} k (l : list (Z * A)) v, lookup k l = Some v -> In k (keys l).
Proof.
  intros A k l v. induction l as [|kv r IH]; simpl; [discriminate|].
  destruct (fst kv =? k) eqn:E; intros H.
  - left. apply Z.eqb_eq in E. exact E.
  - right. exact (IH H).
Qed.

Lemma lookup_not_in_keys : forall {A} k (l : list (Z * A)), ~ In k (keys l) -> lookup k l = None.
Proof.
  intros A k l H. destruct (lookup k l) eqn:E; [|reflexivity].
  exfalso. apply H. eapply lookup_in_keys; eassumption.
Qed.

Lemma in_nodup_lookup : forall {A} k (v : A) l, NoDup (keys l) -> In (k, v) l -> lookup k l = Some v.
Proof.
  intros A k v l. induction l as [|kv r IH]; simpl; intros Hnd Hin; [contradiction|].
  inversion Hnd as [|x xs Hnotin Hnd']; subst.
  destruct Hin as [Heq|Hin].
  - subst kv. simpl. rewrite Z.eqb_refl. reflexivity.
  - destruct (fst kv =? k) eqn:E.
    + apply Z.eqb_eq in E. exfalso. apply Hnotin. rewrite E. unfold keys.
      change k with (fst (k, v)). apply in_map. exact Hin.
    + apply IH; assumption.
Qed.

Lemma keys_aset_in : forall {A} k (v : A) l, In k (keys l) -> keys (aset k v l) = keys l.
Proof.
  intros A k v l. induction l as [|kv r IH]; simpl; intros Hin; [contradiction|].
  destruct (fst kv =? k) eqn:E; simpl; [reflexivity|].
  f_equal. apply IH. destruct Hin as [H|H]; [|exact H].
  apply Z.eqb_neq in E. congruence.
Qed.

Lemma memz_true_iff : forall x l, memz x l = true <-> In x l.
Proof.
  intros x l. induction l as [|y r IH]; simpl.
  - split; [discriminate|contradiction].
  - rewrite orb_true_iff, IH, Z.eqb_eq. tauto.
Qed.

(* ------------------------------------------------------------------ upd_first / upd_last / remove_first *)
Lemma upd_first_app_none : forall {A} (p : A -> bool) g l1 l2,
  existsb p l1 = false -> upd_first p g (l1 ++ l2) = l1 ++ upd_first p g l2.
Proof.
  intros A p g l1 l2. induction l1 as [|x r IH]; simpl; intros H; [reflexivity|].
  apply orb_false_iff in H. destruct H as [Hx Hr]. rewrite Hx. f_equal. exact (IH Hr).
Qed.

Lemma upd_first_app_some : forall {A} (p : A -> bool) g l1 l2,
  existsb p l1 = true -> upd_first p g (l1 ++ l2) = upd_first p g l1 ++ l2.
Proof.
  intros A p g l1 l2. induction l1 as [|x r IH]; simpl; intros H; [discriminate|].
  destruct (p x); simpl; [reflexivity|]. f_equal. exact (IH H).
Qed.

Lemma upd_first_none : forall {A} (p : A -> bool) g l, existsb p l = false -> upd_first p g l = l.
Proof.
  intros A p g l. induction l as [|x r IH]; simpl; intros H; [reflexivity|].
  apply orb_false_iff in H. destruct H as [Hx Hr]. rewrite Hx. f_equal. exact (IH Hr).
Qed.

Lemma upd_first_length : forall {A} (p : A -> bool) g l, length (upd_first p g l) = length l.
Proof.
  intros A p g l. induction l as [|x r IH]; simpl; [reflexivity|].
  destruct (p x); simpl; [reflexivity|]. f_equal. exact IH.
Qed.

Lemma map_upd_first : forall {A B} (h : A -> B) (p : A -> bool) g l,
  (forall x, h (g x) = h x) -> map h (upd_first p g l) = map h l.
Proof.
  intros A B h p g l Hg. induction l as [|x r IH]; simpl; [reflexivity|].
  destruct (p x); simpl; [rewrite Hg; reflexivity|]. f_equal. exact IH.
Qed.

Lemma existsb_upd_first : forall {A} (q p : A -> bool) g l,
  (forall x, q (g x) = q x) -> existsb q (upd_first p g l) = existsb q l.
Proof.
  intros A q p g l Hg. induction l as [|x r IH]; simpl; [reflexivity|].
  destruct (p x); simpl; [rewrite Hg; reflexivity|]. rewrite IH. reflexivity.
Qed.

Lemma upd_last_app : forall {A} (g : A -> A) l x, upd_last g (l ++ [x]) = l ++ [g x].
Proof.
  intros A g l x. induction l as [|y r IH]; simpl; [reflexivity|].
  rewrite IH. destruct (r ++ [x]) eqn:E; [destruct r; discriminate|reflexivity].
Qed.

Lemma Forall2_refl : forall {A} (R : A -> A -> Prop) l, (forall x, R x x) -> Forall2 R l l.
Proof. intros A R l H. induction l; constructor; auto. Qed.

Lemma Forall2_trans : forall {A} (R : A -> A -> Prop) l1 l2 l3,
  (forall x y z, R x y -> R y z -> R x z) -> Forall2 R l1 l2 -> Forall2 R l2 l3 -> Forall2 R l1 l3.
Proof.
  intros A R l1 l2 l3 Ht H12. revert l3. induction H12; intros l3 H23; inversion H23; subst; constructor; eauto.
Qed.

(* ------------------------------------------------------------------ identifiers and lookups *)
Lemma id_eqb_eq : forall a b, id_eqb a b = true <-> a = b.
Proof.
  intros [a1 a2] [b1 b2]. unfold id_eqb. simpl. rewrite andb_true_iff, Z.eqb_eq, eqb_true_iff.
  split; [intros [H1 H2]; subst; reflexivity|intros H; inversion H; auto].
Qed.
Lemma id_eqb_refl : forall a, id_eqb a a = true.
Proof. intros a. apply id_eqb_eq. reflexivity. Qed.
Lemma id_eqb_neq : forall a b, id_eqb a b = false <-> a <> b.
Proof.
  intros a b. destruct (id_eqb a b) eqn:E.
  - apply id_eqb_eq in E. split; [discriminate|congruence].
  - split; [|reflexivity]. intros _ H. apply id_eqb_eq in H. congruence.
Qed.

Lemma frame_by_id_some : forall id fs f, frame_by_id id fs = Some f -> In f fs /\ fid f = id.
Proof.
  intros id fs f. induction fs as [|x r IH]; simpl; [discriminate|].
  destruct (id_eqb (fid x) id) eqn:E; intros H.
  - inversion H; subst. apply id_eqb_eq in E. auto.
  - destruct (IH H). auto.
Qed.

Lemma frame_by_id_none : forall id fs, frame_by_id id fs = None <-> existsb (fun f => id_eqb (fid f) id) fs = false.
Proof.
  intros id fs. induction fs as [|x r IH]; simpl; [tauto|].
  destruct (id_eqb (fid x) id); simpl; [split; discriminate|exact IH].
Qed.

Lemma existsb_map' : forall {A B} (h : A -> B) (p : B -> bool) l, existsb p (map h l) = existsb (fun x => p (h x)) l.
Proof. intros A B h p l. induction l as [|x r IH]; simpl; [reflexivity|]. rewrite IH. reflexivity. Qed.

Lemma frame_by_id_none_mem : forall id fs, frame_by_id id fs = None <-> mem_id id (map fid fs) = false.
Proof.
  intros id fs. rewrite frame_by_id_none. unfold mem_id. rewrite existsb_map'. tauto.
Qed.

Lemma frame_by_id_app : forall id l1 l2,
  frame_by_id id (l1 ++ l2) = match frame_by_id id l1 with Some f => Some f | None => frame_by_id id l2 end.
Proof.
  intros id l1 l2. induction l1 as [|x r IH]; simpl; [reflexivity|].
  destruct (id_eqb (fid x) id); [reflexivity|exact IH].
Qed.

Lemma ecu_by_name_none : forall n es, ecu_by_name n es = None <-> existsb (fun e => e_name e =? n) es = false.
Proof.
  intros n es. induction es as [|x r IH]; simpl; [tauto|].
  destruct (e_name x =? n); simpl; [split; discriminate|exact IH].
Qed.

Lemma ecu_by_name_app : forall n l1 l2,
  ecu_by_name n (l1 ++ l2) = match ecu_by_name n l1 with Some e => Some e | None => ecu_by_name n l2 end.
Proof.
  intros n l1 l2. induction l1 as [|x r IH]; simpl; [reflexivity|].
  destruct (e_name x =? n); [reflexivity|exact IH].
Qed.

Lemma ecu_by_name_some : forall n es e, ecu_by_name n es = Some e -> In e es /\ e_name e = n.
Proof.
  intros n es e. induction es as [|x r IH]; simpl; [discriminate|].
  destruct (e_name x =? n) eqn:E; intros H.
  - inversion H; subst. apply Z.eqb_eq in E. auto.
  - destruct (IH H). auto.
Qed.

Fixpoint sig_by_name (n : Z) (ss : list signal) : option signal :=
  match ss with
  | [] => None
  | s :: r => if s_name s =? n then Some s else sig_by_name n r
  end.

Lemma sig_by_name_none : forall n ss, sig_by_name n ss = None <-> existsb (fun s => s_name s =? n) ss = false.
Proof.
  intros n ss. induction ss as [|x r IH]; simpl; [tauto|].
  destruct (s_name x =? n); simpl; [split; discriminate|exact IH].
Qed.

(* ------------------------------------------------------------------ definitions: what each primitive does to dinfo *)
Lemma get_set_defs_same : forall c x t, get_defs c (set_defs c x t) = x.
Proof. intros [] x t; reflexivity. Qed.
Lemma get_set_defs_other : forall c c' x t, c' <> c -> get_defs c' (set_defs c x t) = get_defs c' t.
Proof. intros [] [] x t H; try reflexivity; congruence. Qed.

Definition cat_eq_dec : forall c c' : cat, {c = c'} + {c <> c'}.
Proof. decide equality. Defined.

Lemma lookup_set_default_in_other : forall a a' v ds, a' <> a -> lookup a' (set_default_in a v ds) = lookup a' ds.
Proof.
  intros a a' v ds Hne. unfold set_default_in. destruct (lookup a ds); [|reflexivity].
  apply lookup_aset_other. exact Hne.
Qed.

Lemma lookup_set_default_in_same : forall a v ds,
  lookup a (set_default_in a v ds) = option_map (set_default v) (lookup a ds).
Proof.
  intros a v ds. unfold set_default_in. destruct (lookup a ds) eqn:E; simpl; [|exact E].
  apply lookup_aset_same.
Qed.

Lemma get_defs_add_define_default : forall c a v t,
  get_defs c (add_define_default a v t) = set_default_in a v (get_defs c t).
Proof. intros [] a v t; reflexivity. Qed.

Lemma dinfo_add_define_default_other : forall c a a' v t, a' <> a -> dinfo c a' (add_define_default a v t) = dinfo c a' t.
Proof.
  intros c a a' v t Hne. unfold dinfo. rewrite get_defs_add_define_default, lookup_set_default_in_other by exact Hne.
  reflexivity.
Qed.

Lemma dinfo_some_mem : forall c a t x, dinfo c a t = Some x -> mem a (get_defs c t) = true.
Proof.
  intros c a t x. unfold dinfo, mem. destruct (lookup a (get_defs c t)); simpl; [reflexivity|discriminate].
Qed.
Lemma mem_dinfo_some : forall c a t, mem a (get_defs c t) = true -> exists x, dinfo c a t = Some x.
Proof.
  intros c a t. unfold dinfo, mem. destruct (lookup a (get_defs c t)); simpl; [eauto|discriminate].
Qed.
Lemma dinfo_none_mem : forall c a t, dinfo c a t = None <-> mem a (get_defs c t) = false.
Proof.
  intros c a t. unfold dinfo, mem. destruct (lookup a (get_defs c t)); simpl; split; congruence.
Qed.

(* ensure_define *)
Lemma ensure_define_present : forall c a sd t, mem a (get_defs c t) = true -> ensure_define c a sd t = t.
Proof. intros c a sd t H. unfold ensure_define. rewrite H. reflexivity. Qed.

Lemma ensure_define_mem : forall c a sd t, mem a (get_defs c (ensure_define c a sd t)) = true.
Proof.
  intros c a sd t. unfold ensure_define. destruct (mem a (get_defs c t)) eqn:E; [exact E|].
  rewrite get_defs_add_define_default, get_set_defs_same.
  apply mem_true_iff. rewrite lookup_set_default_in_same, lookup_app.
  apply mem_false_iff in E. rewrite E. simpl. rewrite Z.eqb_refl. simpl. eauto.
Qed.

Lemma dinfo_ensure_define_other_key : forall c c' a a' sd t,
  a' <> a -> dinfo c' a' (ensure_define c a sd t) = dinfo c' a' t.
Proof.
  intros c c' a a' sd t Hne. unfold ensure_define. destruct (mem a (get_defs c t)); [reflexivity|].
  rewrite dinfo_add_define_default_other by exact Hne. unfold dinfo.
  destruct (cat_eq_dec c' c) as [-> | Hc].
  - rewrite get_set_defs_same, lookup_app. destruct (lookup a' (get_defs c t)); [reflexivity|].
    simpl. destruct (a =? a') eqn:E; [apply Z.eqb_eq in E; congruence|reflexivity].
  - rewrite get_set_defs_other by exact Hc. reflexivity.
Qed.

Lemma dinfo_ensure_define_same_cat : forall c a sd t x,
  dinfo c a t = Some x -> dinfo c a (ensure_define c a sd t) = Some x.
Proof.
  intros c a sd t x H. rewrite ensure_define_present; [exact H|]. eapply dinfo_some_mem; eassumption.
Qed.

Lemma dinfo_ensure_define_new : forall c a sd t,
  mem a (get_defs c t) = false -> dinfo c a (ensure_define c a sd t) = Some (dview sd).
Proof.
  intros c a sd t E. unfold ensure_define. rewrite E. unfold dinfo.
  rewrite get_defs_add_define_default, get_set_defs_same, lookup_set_default_in_same, lookup_app.
  apply mem_false_iff in E. rewrite E. simpl. rewrite Z.eqb_refl. reflexivity.
Qed.

(* the one place where a definition of ANOTHER category can lose its default: same name, other category *)
Lemma dinfo_ensure_define_keeps : forall c c' a a' sd t x,
  (a' <> a \/ c' = c) -> dinfo c' a' t = Some x -> dinfo c' a' (ensure_define c a sd t) = Some x.
Proof.
  intros c c' a a' sd t x [Hne | ->] H.
  - rewrite dinfo_ensure_define_other_key by exact Hne. exact H.
  - destruct (Z.eq_dec a' a) as [-> | Hne].
    + apply dinfo_ensure_define_same_cat. exact H.
    + rewrite dinfo_ensure_define_other_key by exact Hne. exact H.
Qed.

(* enum_step *)
Lemma dinfo_enum_step : forall c c' a a' sd sv t, dinfo c' a' (enum_step c a sd sv t) = dinfo c' a' t.
Proof.
  intros c c' a a' sd sv t. unfold enum_step.
  destruct (is_enum sd); [|reflexivity].
  destruct (lookup a (get_defs c t)) as [td|] eqn:E; [|destruct c'; reflexivity].
  destruct (is_enum td); [|destruct c'; reflexivity].
  destruct sv as [v|]; [|destruct c'; reflexivity].
  destruct (memz v (d_values td)); [reflexivity|].
  unfold dinfo. destruct (cat_eq_dec c' c) as [-> | Hc].
  - rewrite get_set_defs_same. destruct (Z.eq_dec a' a) as [-> | Hne].
    + rewrite lookup_aset_same, E. reflexivity.
    + rewrite lookup_aset_other by exact Hne. reflexivity.
  - rewrite get_set_defs_other by exact Hc. reflexivity.
Qed.

Lemma mem_enum_step : forall c c' a a' sd sv t, mem a' (get_defs c' (enum_step c a sd sv t)) = mem a' (get_defs c' t).
Proof.
  intros. destruct (mem a' (get_defs c' t)) eqn:E.
  - apply mem_dinfo_some in E. destruct E as [x E]. eapply dinfo_some_mem. rewrite dinfo_enum_step. exact E.
  - apply dinfo_none_mem. rewrite dinfo_enum_step. apply dinfo_none_mem. exact E.
Qed.

(* ------------------------------------------------------------------ objects: what each primitive does to them *)
Definition objs (t : matrix) := (m_ecus t, m_frames t, m_sigs t, m_gattrs t).

Lemma objs_set_defs : forall c x t, objs (set_defs c x t) = objs t.
Proof. intros [] x t; reflexivity. Qed.
Lemma objs_add_define_default : forall a v t, objs (add_define_default a v t) = objs t.
Proof. reflexivity. Qed.
Lemma objs_ensure_define : forall c a sd t, objs (ensure_define c a sd t) = objs t.
Proof.
  intros c a sd t. unfold ensure_define. destruct (mem a (get_defs c t)); [reflexivity|].
  rewrite objs_add_define_default. apply objs_set_defs.
Qed.
Lemma objs_enum_step : forall c a sd sv t, objs (enum_step c a sd sv t) = objs t.
Proof.
  intros c a sd sv t. unfold enum_step.
  destruct (is_enum sd); [|reflexivity].
  destruct (lookup a (get_defs c t)) as [td|]; [|reflexivity].
  destruct (is_enum td); [|reflexivity].
  destruct sv as [v|]; [|reflexivity].
  destruct (memz v (d_values td)); [reflexivity|apply objs_set_defs].
Qed.

Lemma objs_eq : forall t t', objs t = objs t' ->
  m_ecus t = m_ecus t' /\ m_frames t = m_frames t' /\ m_sigs t = m_sigs t' /\ m_gattrs t = m_gattrs t'.
Proof. intros t t' H. unfold objs in H. inversion H. auto. Qed.

(* set_explicit never touches a definition *)
Lemma get_defs_set_explicit : forall o a v c t, get_defs c (set_explicit o a v t) = get_defs c t.
Proof.
  intros o a v c t. destruct o as [n|id|id sn|]; simpl.
  - destruct (existsb _ (m_ecus t)); destruct c; reflexivity.
  - destruct (existsb _ (m_frames t)); destruct c; reflexivity.
  - destruct (frame_by_id id (m_frames t)) as [f0|]; [|destruct c; reflexivity].
    destruct (existsb _ (f_sigs f0)); destruct c; reflexivity.
  - destruct c; reflexivity.
Qed.
Lemma dinfo_set_explicit : forall o a v c a' t, dinfo c a' (set_explicit o a v t) = dinfo c a' t.
Proof. intros. unfold dinfo. rewrite get_defs_set_explicit. reflexivity. Qed.

(* and reads only the objects *)
Lemma objs_set_explicit_congr : forall o a v t1 t2, objs t1 = objs t2 -> objs (set_explicit o a v t1) = objs (set_explicit o a v t2).
Proof.
  intros o a v t1 t2 H. apply objs_eq in H. destruct H as (He & Hf & Hs & Hg).
  destruct o as [n|id|id sn|]; simpl.
  - rewrite He. destruct (existsb _ (m_ecus t2)); unfold objs; simpl; congruence.
  - rewrite Hf. destruct (existsb _ (m_frames t2)); unfold objs; simpl; congruence.
  - rewrite Hf. destruct (frame_by_id id (m_frames t2)) as [f0|]; [|unfold objs; simpl; congruence].
    destruct (existsb _ (f_sigs f0)); unfold objs; simpl; congruence.
  - unfold objs; simpl. congruence.
Qed.

(* ------------------------------------------------------------------ one round of the attribute loop *)
Definition src_value (oattrs : list (Z * Z)) (ad : Z * define) : option Z :=
  match lookup (fst ad) oattrs with Some v => Some v | None => d_default (snd ad) end.

(* definitions after a round: everything the target had stays, unless the round's name lives in another category *)
Lemma dinfo_explicit_step : forall o a oattrs sv c a' t, dinfo c a' (explicit_step o a oattrs sv t) = dinfo c a' t.
Proof.
  intros. unfold explicit_step. destruct (lookup a oattrs); [reflexivity|].
  destruct sv; [|reflexivity]. destruct (opt_eqb _ _); [reflexivity|apply dinfo_set_explicit].
Qed.

Lemma dinfo_attr_step_keeps : forall o sk ef oattrs t ad c a x,
  (a <> fst ad \/ c = cat_of o) -> dinfo c a t = Some x -> dinfo c a (attr_step o sk ef oattrs t ad) = Some x.
Proof.
  intros o sk ef oattrs t ad c a x Hor H. unfold attr_step.
  destruct (sk && is_none _); [exact H|].
  destruct ef.
  - rewrite dinfo_explicit_step, dinfo_enum_step. apply dinfo_ensure_define_keeps; assumption.
  - rewrite dinfo_enum_step, dinfo_explicit_step. apply dinfo_ensure_define_keeps; assumption.
Qed.

Lemma dinfo_attr_step_other_key : forall o sk ef oattrs t ad c a,
  a <> fst ad -> dinfo c a (attr_step o sk ef oattrs t ad) = dinfo c a t.
Proof.
  intros o sk ef oattrs t ad c a Hne. unfold attr_step.
  destruct (sk && is_none _); [reflexivity|].
  destruct ef.
  - rewrite dinfo_explicit_step, dinfo_enum_step. apply dinfo_ensure_define_other_key. exact Hne.
  - rewrite dinfo_enum_step, dinfo_explicit_step. apply dinfo_ensure_define_other_key. exact Hne.
Qed.

(* when the round is not skipped the definition is there afterwards; if it was not there before, it is the source's *)
Lemma attr_step_defines : forall o sk ef oattrs t ad,
  (sk && is_none (src_value oattrs ad)) = false ->
  mem (fst ad) (get_defs (cat_of o) (attr_step o sk ef oattrs t ad)) = true /\
  (mem (fst ad) (get_defs (cat_of o) t) = false ->
   dinfo (cat_of o) (fst ad) (attr_step o sk ef oattrs t ad) = Some (dview (snd ad))).
Proof.
  intros o sk ef oattrs t ad Hsk. unfold attr_step. unfold src_value in Hsk. rewrite Hsk.
  split.
  - destruct ef.
    + apply dinfo_some_mem with (x := match dinfo (cat_of o) (fst ad) (ensure_define (cat_of o) (fst ad) (snd ad) t) with Some x => x | None => dview (snd ad) end).
      rewrite dinfo_explicit_step, dinfo_enum_step.
      pose proof (ensure_define_mem (cat_of o) (fst ad) (snd ad) t) as Hm.
      apply mem_dinfo_some in Hm. destruct Hm as [x Hx]. rewrite Hx. reflexivity.
    + rewrite mem_enum_step.
      pose proof (ensure_define_mem (cat_of o) (fst ad) (snd ad) t) as Hm.
      apply mem_dinfo_some in Hm. destruct Hm as [x Hx].
      eapply dinfo_some_mem. rewrite dinfo_explicit_step. exact Hx.
  - intros Hno. destruct ef.
    + rewrite dinfo_explicit_step, dinfo_enum_step. apply dinfo_ensure_define_new. exact Hno.
    + rewrite dinfo_enum_step, dinfo_explicit_step. apply dinfo_ensure_define_new. exact Hno.
Qed.

(* objects after a round: untouched, or one explicit value written into the located object - and that only for a name
   the source object has no explicit value for, with the source's value *)
Lemma objs_attr_step : forall o sk ef oattrs t ad,
  objs (attr_step o sk ef oattrs t ad) = objs t \/
  (lookup (fst ad) oattrs = None /\ exists v, src_value oattrs ad = Some v /\
   objs (attr_step o sk ef oattrs t ad) = objs (set_explicit o (fst ad) v t)).
Proof.
  intros o sk ef oattrs t ad. unfold attr_step.
  destruct (sk && is_none _); [left; reflexivity|].
  set (sv := match lookup (fst ad) oattrs with Some v => Some v | None => d_default (snd ad) end).
  set (t1 := ensure_define (cat_of o) (fst ad) (snd ad) t).
  assert (H1 : objs t1 = objs t) by apply objs_ensure_define.
  destruct ef.
  - set (t2 := enum_step (cat_of o) (fst ad) (snd ad) sv t1).
    assert (H2 : objs t2 = objs t) by (unfold t2; rewrite objs_enum_step; exact H1).
    unfold explicit_step. destruct (lookup (fst ad) oattrs) eqn:El; [left; exact H2|].
    destruct sv as [v|] eqn:Esv; [|left; exact H2].
    destruct (opt_eqb _ _); [left; exact H2|].
    right. split; [reflexivity|]. exists v. split.
    + unfold src_value. rewrite El. exact Esv.
    + apply objs_set_explicit_congr. exact H2.
  - rewrite objs_enum_step. unfold explicit_step. destruct (lookup (fst ad) oattrs) eqn:El; [left; exact H1|].
    destruct sv as [v|] eqn:Esv; [|left; exact H1].
    destruct (opt_eqb _ _); [left; exact H1|].
    right. split; [reflexivity|]. exists v. split.
    + unfold src_value. rewrite El. exact Esv.
    + apply objs_set_explicit_congr. exact H1.
Qed.
