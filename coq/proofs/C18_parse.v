(* C18: the option-string functions of model/Convert.v (split / join / tuples / --ecus items / int / str). *)
From CM Require Import lib.Prelude model.Glob model.Convert proofs.Glob_proofs.

(* ---------- split / join ---------- *)
Lemma split_on_not_nil : forall c s, split_on c s <> [].
Proof.
  intros c s. induction s as [|x r IH]; cbn [split_on]; [discriminate|].
  destruct (x =? c); [discriminate|]. destruct (split_on c r); discriminate.
Qed.

Lemma join_with_cons : forall c p q ps, join_with c (p :: q :: ps) = p ++ c :: join_with c (q :: ps).
Proof. reflexivity. Qed.

Lemma join_split : forall c s, join_with c (split_on c s) = s.
Proof.
  intros c s. induction s as [|x r IH]; [reflexivity|].
  cbn [split_on]. destruct (x =? c) eqn:E.
  - apply Z.eqb_eq in E. subst x.
    destruct (split_on c r) as [|p ps] eqn:S; [exfalso; eapply split_on_not_nil; eauto|].
    rewrite join_with_cons. cbn [app]. f_equal. exact IH.
  - destruct (split_on c r) as [|p ps] eqn:S; [exfalso; eapply split_on_not_nil; eauto|].
    destruct ps as [|q ps].
    + cbn [join_with] in *. f_equal. exact IH.
    + rewrite join_with_cons in *. cbn [app]. f_equal. exact IH.
Qed.

Lemma split_on_no_sep : forall c s, ~ In c s -> split_on c s = [s].
Proof.
  intros c s. induction s as [|x r IH]; intros H; [reflexivity|].
  cbn [split_on]. destruct (x =? c) eqn:E.
  - apply Z.eqb_eq in E. exfalso. apply H. left. exact E.
  - rewrite IH; [reflexivity|]. intros Hin. apply H. right. exact Hin.
Qed.

Lemma split_on_app_sep : forall c p rest, ~ In c p -> split_on c (p ++ c :: rest) = p :: split_on c rest.
Proof.
  intros c p rest. induction p as [|x r IH]; intros H.
  - cbn [app split_on]. rewrite Z.eqb_refl. reflexivity.
  - cbn [app split_on]. destruct (x =? c) eqn:E.
    + apply Z.eqb_eq in E. exfalso. apply H. left. exact E.
    + rewrite IH; [reflexivity|]. intros Hin. apply H. right. exact Hin.
Qed.

Lemma split_join : forall c parts, parts <> [] -> Forall (no_char c) parts -> split_on c (join_with c parts) = parts.
Proof.
  intros c parts. induction parts as [|p ps IH]; intros Hne Hall; [congruence|].
  inversion Hall as [|? ? Hp Hps]; subst.
  destruct ps as [|q ps].
  - cbn [join_with]. apply split_on_no_sep. exact Hp.
  - rewrite join_with_cons. rewrite split_on_app_sep by exact Hp. f_equal. apply IH; [discriminate|exact Hps].
Qed.

(* ---------- tuples ---------- *)
Lemma no_char_app_cons : forall c a b, no_char c a -> no_char c b -> forall d, d <> c -> no_char c (a ++ d :: b).
Proof.
  intros c a b Ha Hb d Hd Hin. apply in_app_or in Hin. destruct Hin as [H|[H|H]]; [exact (Ha H)|congruence|exact (Hb H)].
Qed.

Lemma parse_pair_render : forall a b, no_char COLON a -> no_char COLON b -> parse_pair (a ++ COLON :: b) = Some (a, b).
Proof.
  intros a b Ha Hb. unfold parse_pair. rewrite split_on_app_sep by exact Ha.
  rewrite split_on_no_sep by exact Hb. reflexivity.
Qed.

Lemma split_parts_no_sep : forall c s, Forall (no_char c) (split_on c s).
Proof.
  intros c s. induction s as [|x r IH]; cbn [split_on].
  - constructor; [intros H; exact H|constructor].
  - destruct (x =? c) eqn:E.
    + constructor; [intros H; exact H|exact IH].
    + destruct (split_on c r) as [|p ps]; [constructor; [|constructor]|].
      * intros [H|H]; [apply Z.eqb_neq in E; congruence|exact H].
      * inversion IH as [|? ? Hp Hps]; subst. constructor; [|exact Hps].
        intros [H|H]; [apply Z.eqb_neq in E; congruence|exact (Hp H)].
Qed.

Lemma parse_pair_some_iff : forall s a b,
  parse_pair s = Some (a, b) <-> s = a ++ COLON :: b /\ no_char COLON a /\ no_char COLON b.
Proof.
  intros s a b. split.
  - unfold parse_pair.
    pose proof (join_split COLON s) as J. pose proof (split_parts_no_sep COLON s) as N. revert J N.
    destruct (split_on COLON s) as [|x [|y [|z r]]]; intros J N H; try discriminate.
    inversion H; subst x y. cbn [join_with] in J.
    apply Forall_cons_iff in N. destruct N as [Na N']. apply Forall_cons_iff in N'. destruct N' as [Nb _].
    split; [symmetry; exact J|]. split; assumption.
  - intros [-> [Ha Hb]]. apply parse_pair_render; assumption.
Qed.

Lemma pair_missing_colon_is_error : forall s, no_char COLON s -> parse_pair s = None.
Proof. intros s H. unfold parse_pair. rewrite split_on_no_sep by exact H. reflexivity. Qed.

Lemma pair_two_colons_is_error : forall a b c,
  no_char COLON a -> parse_pair (a ++ COLON :: b ++ COLON :: c) = None.
Proof.
  intros a b c Ha. unfold parse_pair. rewrite split_on_app_sep by exact Ha.
  pose proof (split_parts_no_sep COLON (b ++ COLON :: c)) as N.
  pose proof (join_split COLON (b ++ COLON :: c)) as J. revert N J.
  destruct (split_on COLON (b ++ COLON :: c)) as [|x [|y r]]; intros N J; [reflexivity| |reflexivity].
  exfalso. cbn [join_with] in J. subst x. inversion N as [|? ? Nx _]; subst. apply Nx. apply in_or_app. right. left. reflexivity.
Qed.

Lemma parse_items_map : forall (A : Type) (f : str -> option A) (g : A -> str) l,
  (forall x, In x l -> f (g x) = Some x) -> parse_items f (map g l) = Some l.
Proof.
  intros A f g l. induction l as [|x r IH]; intros H; [reflexivity|].
  cbn [map parse_items]. rewrite H by (left; reflexivity). rewrite IH; [reflexivity|].
  intros y Hy. apply H. right. exact Hy.
Qed.

Lemma render_pair_no_comma : forall p, plain_name (fst p) -> plain_name (snd p) -> no_char COMMA (render_pair p).
Proof.
  intros [a b] [Ha _] [Hb _]. unfold render_pair. cbn [fst snd] in *.
  apply no_char_app_cons; [exact Ha|exact Hb|discriminate].
Qed.

Lemma rename_tuple_parse : forall ps,
  ps <> [] -> Forall (fun p => plain_name (fst p) /\ plain_name (snd p)) ps -> parse_pairs (render_pairs ps) = Some ps.
Proof.
  intros ps Hne Hall. unfold parse_pairs, render_pairs.
  rewrite split_join.
  - apply parse_items_map. intros [a b] Hin. rewrite Forall_forall in Hall. destruct (Hall _ Hin) as [[_ Ha] [_ Hb]].
    apply parse_pair_render; assumption.
  - destruct ps; [congruence|discriminate].
  - rewrite Forall_forall in *. intros x Hx. apply in_map_iff in Hx. destruct Hx as [p [<- Hp]].
    destruct (Hall _ Hp). apply render_pair_no_comma; assumption.
Qed.

Lemma comma_list_parse : forall l, l <> [] -> Forall (no_char COMMA) l -> parse_list (render_list l) = l.
Proof. intros l Hne H. apply split_join; assumption. Qed.

Lemma parse_pairs_bad_item : forall pre bad post,
  parse_pair bad = None -> Forall (no_char COMMA) (pre ++ bad :: post) ->
  parse_pairs (join_with COMMA (pre ++ bad :: post)) = None.
Proof.
  intros pre bad post Hb Hall. unfold parse_pairs. rewrite split_join; [|destruct pre; discriminate|exact Hall].
  clear Hall. induction pre as [|x r IH]; cbn [app parse_items].
  - rewrite Hb. reflexivity.
  - rewrite IH. destruct (parse_pair x); reflexivity.
Qed.

(* ---------- --ecus ---------- *)
Lemma has_char_true : forall c s, has_char c s = true <-> In c s.
Proof.
  intros c s. unfold has_char. rewrite existsb_exists. split.
  - intros [x [Hin E]]. apply Z.eqb_eq in E. subst. exact Hin.
  - intros H. exists c. split; [exact H|apply Z.eqb_refl].
Qed.
Lemma has_char_false : forall c s, has_char c s = false <-> ~ In c s.
Proof. intros c s. rewrite <- has_char_true. destruct (has_char c s); split; intros; congruence. Qed.

Lemma s_rx_plain : no_char COLON s_rx /\ no_char COMMA s_rx.
Proof. split; intros H; cbn in H; intuition discriminate. Qed.
Lemma s_tx_plain : no_char COLON s_tx /\ no_char COMMA s_tx.
Proof. split; intros H; cbn in H; intuition discriminate. Qed.

Lemma parse_ecu_item_render : forall carry d it rest,
  plain_name (fst it) ->
  parse_ecus_from carry d (render_ecu_item it :: rest) =
  match parse_ecus_from carry (match snd it with DBoth => if carry then d else None | DRx => Some s_rx | DTx => Some s_tx end) rest with
  | None => None
  | Some l => Some ((fst it,
                     dir_rx (match snd it with DBoth => if carry then d else None | DRx => Some s_rx | DTx => Some s_tx end),
                     dir_tx (match snd it with DBoth => if carry then d else None | DRx => Some s_rx | DTx => Some s_tx end)) :: l)
  end.
Proof.
  intros carry d [n dr] rest [Hcomma Hcolon]. cbn [fst snd] in *. cbn [parse_ecus_from].
  destruct dr; unfold render_ecu_item; cbn [fst snd].
  - assert (has_char COLON n = false) as -> by (apply has_char_false; exact Hcolon). reflexivity.
  - assert (has_char COLON (n ++ COLON :: s_rx) = true) as ->
      by (apply has_char_true; apply in_or_app; right; left; reflexivity).
    rewrite split_on_app_sep by exact Hcolon. rewrite split_on_no_sep by (apply s_rx_plain). reflexivity.
  - assert (has_char COLON (n ++ COLON :: s_tx) = true) as ->
      by (apply has_char_true; apply in_or_app; right; left; reflexivity).
    rewrite split_on_app_sep by exact Hcolon. rewrite split_on_no_sep by (apply s_tx_plain). reflexivity.
Qed.

Lemma sel_of_dirs : forall it,
  sel_of it = (fst it, dir_rx (match snd it with DBoth => None | DRx => Some s_rx | DTx => Some s_tx end),
                       dir_tx (match snd it with DBoth => None | DRx => Some s_rx | DTx => Some s_tx end)).
Proof. intros [n [| |]]; reflexivity. Qed.

Lemma parse_ecus_from_render : forall l d,
  Forall (fun it => plain_name (fst it)) l -> parse_ecus_from false d (map render_ecu_item l) = Some (map sel_of l).
Proof.
  induction l as [|it r IH]; intros d H; [reflexivity|].
  inversion H as [|? ? Hit Hr]; subst. cbn [map]. rewrite parse_ecu_item_render by exact Hit.
  rewrite IH by exact Hr. rewrite sel_of_dirs. reflexivity.
Qed.

Lemma render_ecu_item_no_comma : forall it, plain_name (fst it) -> no_char COMMA (render_ecu_item it).
Proof.
  intros [n dr] [Hc _]. cbn [fst] in Hc. destruct dr; unfold render_ecu_item; cbn [fst snd]; [exact Hc| |].
  - apply no_char_app_cons; [exact Hc|apply s_rx_plain|discriminate].
  - apply no_char_app_cons; [exact Hc|apply s_tx_plain|discriminate].
Qed.

Lemma render_ecus_split : forall l, l <> [] -> Forall (fun it => plain_name (fst it)) l ->
  split_on COMMA (render_ecus l) = map render_ecu_item l.
Proof.
  intros l Hne H. unfold render_ecus. apply split_join.
  - destruct l; [congruence|discriminate].
  - rewrite Forall_forall in *. intros x Hx. apply in_map_iff in Hx. destruct Hx as [it [<- Hit]].
    apply render_ecu_item_no_comma. apply H. exact Hit.
Qed.

Theorem ecu_selection_parse : forall l,
  l <> [] -> Forall (fun it => plain_name (fst it)) l -> parse_ecus (render_ecus l) = Some (map sel_of l).
Proof.
  intros l Hne H. unfold parse_ecus. rewrite render_ecus_split by assumption. apply parse_ecus_from_render. exact H.
Qed.

(* the code in /repo: a suffix is inherited by the following items without one *)
Theorem ecu_direction_carry_refuted :
  exists l, l <> [] /\ Forall (fun it => plain_name (fst it)) l /\
            parse_ecus_unfixed (render_ecus l) <> Some (map sel_of l).
Proof.
  exists [([65], DRx); ([66], DBoth)]. split; [discriminate|]. split.
  - constructor; [split; intros H; cbn in H; intuition discriminate|].
    constructor; [split; intros H; cbn in H; intuition discriminate|constructor].
  - vm_compute. discriminate.
Qed.

Lemma parse_ecus_from_carry_irrelevant : forall l d d',
  Forall (fun it => plain_name (fst it) /\ snd it <> DBoth) l ->
  parse_ecus_from true d (map render_ecu_item l) = parse_ecus_from false d' (map render_ecu_item l).
Proof.
  induction l as [|it r IH]; intros d d' H; [reflexivity|].
  inversion H as [|? ? [Hit Hd] Hr]; subst. cbn [map]. rewrite !parse_ecu_item_render by exact Hit.
  destruct it as [n dr]. cbn [fst snd] in *. destruct dr; [congruence| |].
  - rewrite (IH (Some s_rx) (Some s_rx)) by exact Hr. reflexivity.
  - rewrite (IH (Some s_tx) (Some s_tx)) by exact Hr. reflexivity.
Qed.

Theorem ecu_direction_carry_partial : forall l,
  l <> [] -> Forall (fun it => plain_name (fst it) /\ snd it <> DBoth) l ->
  parse_ecus_unfixed (render_ecus l) = Some (map sel_of l).
Proof.
  intros l Hne H.
  assert (Forall (fun it => plain_name (fst it)) l) as Hp
    by (rewrite Forall_forall in *; intros x Hx; apply (H x Hx)).
  unfold parse_ecus_unfixed. rewrite render_ecus_split by assumption.
  rewrite (parse_ecus_from_carry_irrelevant l None None) by exact H. apply parse_ecus_from_render. exact Hp.
Qed.

(* ---------- int / str ---------- *)
Lemma digits_val_app : forall l acc c, is_digit c = true ->
  digits_val acc (l ++ [c]) = option_map (fun v => 10 * v + (c - 48)) (digits_val acc l).
Proof.
  induction l as [|x r IH]; intros acc c Hc.
  - cbn. rewrite Hc. reflexivity.
  - cbn [app digits_val]. destruct (is_digit x); [apply IH; exact Hc|reflexivity].
Qed.

Lemma is_digit_48 : forall d, 0 <= d < 10 -> is_digit (48 + d) = true.
Proof. intros d H. unfold is_digit. lia. Qed.

Lemma render_nat_fuel_spec : forall fuel n, 0 <= n < 2 ^ Z.of_nat (S fuel) ->
  digits_val 0 (render_nat_fuel fuel n) = Some n /\ render_nat_fuel fuel n <> [] /\
  Forall (fun c => is_digit c = true) (render_nat_fuel fuel n).
Proof.
  induction fuel as [|f IH]; intros n Hn.
  - change (2 ^ Z.of_nat 1) with 2 in Hn. cbn [render_nat_fuel].
    assert (n mod 10 = n) as -> by (apply Z.mod_small; lia).
    split; [|split; [discriminate|]].
    + cbn [digits_val]. rewrite is_digit_48 by lia. f_equal. lia.
    + constructor; [apply is_digit_48; lia|constructor].
  - cbn [render_nat_fuel]. destruct (n <? 10) eqn:E.
    + split; [|split; [discriminate|]].
      * cbn [digits_val]. rewrite is_digit_48 by lia. f_equal. lia.
      * constructor; [apply is_digit_48; lia|constructor].
    + assert (0 <= n / 10 < 2 ^ Z.of_nat (S f)) as Hq.
      { rewrite Nat2Z.inj_succ in Hn. rewrite Z.pow_succ_r in Hn by lia.
        split; [apply Z.div_pos; lia|]. apply Z.div_lt_upper_bound; lia. }
      destruct (IH _ Hq) as [Hv [Hne Hd]].
      split; [|split].
      * rewrite digits_val_app by (apply is_digit_48; apply Z.mod_pos_bound; lia).
        rewrite Hv. cbn [option_map]. f_equal. pose proof (Z.div_mod n 10). lia.
      * destruct (render_nat_fuel f (n / 10)); [congruence|discriminate].
      * apply Forall_app. split; [exact Hd|]. constructor; [|constructor].
        apply is_digit_48. apply Z.mod_pos_bound. lia.
Qed.

Lemma render_nat_spec : forall n, 0 <= n ->
  digits_val 0 (render_nat n) = Some n /\ render_nat n <> [] /\ Forall (fun c => is_digit c = true) (render_nat n).
Proof.
  intros n Hn. unfold render_nat. apply render_nat_fuel_spec. split; [exact Hn|].
  destruct (Z.eq_dec n 0) as [->|Hz]; [cbn; lia|].
  rewrite Nat2Z.inj_succ. rewrite Z2Nat.id by apply Z.log2_nonneg.
  apply Z.log2_spec. lia.
Qed.

Lemma parse_nat_render : forall n, 0 <= n -> parse_nat (render_nat n) = Some n.
Proof.
  intros n Hn. destruct (render_nat_spec n Hn) as [Hv [Hne _]]. unfold parse_nat.
  destruct (render_nat n); [congruence|exact Hv].
Qed.

Lemma render_nat_head_digit : forall n, 0 <= n -> exists c r, render_nat n = c :: r /\ is_digit c = true.
Proof.
  intros n Hn. destruct (render_nat_spec n Hn) as [_ [Hne Hd]].
  destruct (render_nat n) as [|c r]; [congruence|]. inversion Hd; subst. eauto.
Qed.

Theorem int_parse_render : forall z, parse_int (render_int z) = Some z.
Proof.
  intros z. unfold render_int. destruct (z <? 0) eqn:E.
  - unfold parse_int. rewrite Z.eqb_refl. rewrite parse_nat_render by lia. cbn. f_equal. lia.
  - destruct (render_nat_head_digit z ltac:(lia)) as [c [r [Hr Hc]]].
    unfold parse_int. rewrite Hr. unfold is_digit in Hc.
    assert (c =? MINUS = false) as -> by (unfold MINUS; lia).
    assert (c =? PLUS = false) as -> by (unfold PLUS; lia).
    rewrite <- Hr. apply parse_nat_render. lia.
Qed.

Lemma digits_plain : forall l, Forall (fun c => is_digit c = true) l -> plain_name l.
Proof.
  intros l H. split; intros Hin; rewrite Forall_forall in H; apply H in Hin; unfold is_digit, COMMA, COLON in *; lia.
Qed.

Lemma render_int_plain : forall z, plain_name (render_int z).
Proof.
  intros z. unfold render_int. destruct (z <? 0) eqn:E.
  - destruct (render_nat_spec (- z) ltac:(lia)) as [_ [_ Hd]]. destruct (digits_plain _ Hd) as [H1 H2].
    split; intros [H|H]; try (unfold MINUS, COMMA, COLON in H; discriminate); [exact (H1 H)|exact (H2 H)].
  - destruct (render_nat_spec z ltac:(lia)) as [_ [_ Hd]]. apply digits_plain. exact Hd.
Qed.

(* a string with a character that is neither sign nor digit is refused *)
Lemma digits_val_bad : forall l acc, (exists c, In c l /\ is_digit c = false) -> digits_val acc l = None.
Proof.
  induction l as [|x r IH]; intros acc [c [Hin Hc]]; [destruct Hin|].
  cbn [digits_val]. destruct (is_digit x) eqn:E.
  - apply IH. destruct Hin as [->|Hin]; [congruence|]. eauto.
  - reflexivity.
Qed.
Theorem int_parse_rejects : forall s, (exists c, In c (tl s) /\ is_digit c = false) -> parse_int s = None.
Proof.
  intros [|c r] [d [Hin Hd]]; [destruct Hin|]. cbn [tl] in Hin. unfold parse_int.
  assert (digits_val 0 r = None /\ forall acc, digits_val acc r = None) as [H0 Hall]
    by (split; [|intros acc]; apply digits_val_bad; eauto).
  destruct (c =? MINUS); [|destruct (c =? PLUS)].
  - unfold parse_nat. destruct r; [destruct Hin|]. rewrite H0. reflexivity.
  - unfold parse_nat. destruct r; [destruct Hin|]. exact H0.
  - unfold parse_nat. cbn [digits_val]. destruct (is_digit c); [apply Hall|reflexivity].
Qed.
