(* Facts about model/Glob.v: name equality, the matcher against its declarative relation, literal patterns. *)
From CM Require Import lib.Prelude model.Glob.

Lemma name_eqb_eq : forall a b, name_eqb a b = true <-> a = b.
Proof.
  induction a as [|x a IH]; destruct b as [|y b]; cbn; split; intro H; try congruence; try discriminate.
  - apply andb_true_iff in H. destruct H as [H1 H2]. apply Z.eqb_eq in H1. apply IH in H2. congruence.
  - injection H as H1 H2. subst. apply andb_true_iff. split; [apply Z.eqb_refl | apply IH; reflexivity].
Qed.

Lemma name_eqb_refl : forall a, name_eqb a a = true.
Proof. intro a. apply name_eqb_eq. reflexivity. Qed.

Lemma name_eqb_neq : forall a b, name_eqb a b = false <-> a <> b.
Proof.
  intros a b. split.
  - intros H E. apply name_eqb_eq in E. congruence.
  - intro H. destruct (name_eqb a b) eqn:E; [apply name_eqb_eq in E; contradiction | reflexivity].
Qed.

Lemma name_eqb_sym : forall a b, name_eqb a b = name_eqb b a.
Proof.
  intros a b. destruct (name_eqb a b) eqn:E.
  - apply name_eqb_eq in E. subst. symmetry. apply name_eqb_refl.
  - symmetry. apply name_eqb_neq. apply name_eqb_neq in E. congruence.
Qed.

Lemma name_eq_dec : forall a b : name, {a = b} + {a <> b}.
Proof. intros a b. destruct (name_eqb a b) eqn:E; [left; apply name_eqb_eq; exact E | right; apply name_eqb_neq; exact E]. Qed.

(* the inner loop of the `*` case, named *)
Fixpoint star_loop (p' : list Z) (s : list Z) : bool :=
  glob_match p' s || match s with [] => false | _ :: s' => star_loop p' s' end.

Lemma glob_match_star : forall p' s, glob_match (STAR :: p') s = star_loop p' s.
Proof.
  intros p' s. cbn [glob_match]. rewrite Z.eqb_refl.
  induction s as [|d s IH]; cbn [star_loop]; [reflexivity|]. rewrite <- IH. reflexivity.
Qed.

Lemma glob_match_cons : forall c p' s, c <> STAR ->
  glob_match (c :: p') s = match s with [] => false | d :: s' => ((c =? QMARK) || (c =? d)) && glob_match p' s' end.
Proof.
  intros c p' s Hc. cbn [glob_match]. destruct (c =? STAR) eqn:E; [apply Z.eqb_eq in E; contradiction | reflexivity].
Qed.

Lemma star_loop_true : forall p' s, star_loop p' s = true <-> exists s1 s2, s = s1 ++ s2 /\ glob_match p' s2 = true.
Proof.
  intros p'. induction s as [|d s IH]; cbn [star_loop].
  - rewrite orb_false_r. split.
    + intro H. exists [], []. split; [reflexivity | exact H].
    + intros (s1 & s2 & E & H). symmetry in E. apply app_eq_nil in E. destruct E; subst. exact H.
  - rewrite orb_true_iff, IH. split.
    + intros [H | (s1 & s2 & E & H)].
      * exists [], (d :: s). split; [reflexivity | exact H].
      * exists (d :: s1), s2. split; [cbn; congruence | exact H].
    + intros (s1 & s2 & E & H). destruct s1 as [|x s1].
      * left. cbn in E. subst. exact H.
      * right. cbn in E. injection E as _ E. exists s1, s2. split; assumption.
Qed.

Lemma glob_match_sound : forall p s, glob_match p s = true -> glob_rel p s.
Proof.
  induction p as [|c p IH]; intros s H.
  - destruct s; [constructor | discriminate].
  - destruct (Z.eq_dec c STAR) as [Ec | Ec].
    + subst c. rewrite glob_match_star in H. apply star_loop_true in H. destruct H as (s1 & s2 & E & H).
      subst s. apply G_star. apply IH. exact H.
    + rewrite glob_match_cons in H by exact Ec. destruct s as [|d s]; [discriminate|].
      apply andb_true_iff in H. destruct H as [H1 H2]. apply IH in H2.
      destruct (Z.eq_dec c QMARK) as [Eq | Eq].
      * subst c. apply G_qmark. exact H2.
      * apply orb_true_iff in H1. destruct H1 as [H1 | H1]; apply Z.eqb_eq in H1; [contradiction|].
        subst d. apply G_lit; assumption.
Qed.

Lemma glob_match_complete : forall p s, glob_rel p s -> glob_match p s = true.
Proof.
  intros p s H. induction H.
  - reflexivity.
  - rewrite glob_match_star. apply star_loop_true. exists s1, s2. split; [reflexivity | exact IHglob_rel].
  - rewrite glob_match_cons by (unfold QMARK, STAR; lia). rewrite Z.eqb_refl. cbn. exact IHglob_rel.
  - rewrite glob_match_cons by assumption. rewrite Z.eqb_refl, orb_true_r. cbn. exact IHglob_rel.
Qed.

Lemma glob_match_iff : forall p s, glob_match p s = true <-> glob_rel p s.
Proof. intros p s. split; [apply glob_match_sound | apply glob_match_complete]. Qed.

(* a pattern without metacharacters matches exactly itself *)
Lemma glob_literal : forall p s, literal p = true -> glob_match p s = name_eqb p s.
Proof.
  induction p as [|c p IH]; intros s H.
  - destruct s; reflexivity.
  - cbn [literal forallb] in H. apply andb_true_iff in H. destruct H as [Hc Hp].
    unfold literal_char in Hc. apply andb_true_iff in Hc. destruct Hc as [Hc _].
    apply andb_true_iff in Hc. destruct Hc as [Hs Hq].
    apply negb_true_iff in Hs. apply negb_true_iff in Hq.
    rewrite glob_match_cons by (intro E; subst c; rewrite Z.eqb_refl in Hs; discriminate).
    destruct s as [|d s]; [reflexivity|]. rewrite Hq. cbn [orb name_eqb]. rewrite IH by exact Hp. reflexivity.
Qed.

(* `*` alone matches every name; used by the non-vacuity examples *)
Lemma glob_star_all : forall s, glob_match [STAR] s = true.
Proof. intro s. apply glob_match_iff. rewrite <- (app_nil_r s). apply G_star. constructor. Qed.

(* ================= character classes ================= *)
Definition simple_tok (c : Z) : gtoken := if c =? STAR then GStar else if c =? QMARK then GAny else GLit c.

Lemma gtokenize_f_no_bracket : forall k p, (length p <= k)%nat -> no_bracket p = true ->
  gtokenize_f k p = map simple_tok p.
Proof.
  induction k as [|k IH]; intros p Hl Hn.
  - destruct p; [reflexivity | cbn in Hl; lia].
  - destruct p as [|c r]; [reflexivity|]. cbn [gtokenize_f map]. unfold no_bracket in Hn. cbn [forallb] in Hn.
    apply andb_true_iff in Hn. destruct Hn as [Hc Hr]. apply negb_true_iff in Hc.
    assert (Hk : (length r <= k)%nat) by (cbn in Hl; lia).
    unfold simple_tok at 1. destruct (c =? STAR); [f_equal; apply IH; assumption|].
    destruct (c =? QMARK); [f_equal; apply IH; assumption|].
    rewrite Hc. f_equal. apply IH; assumption.
Qed.

Fixpoint gstar_loop (ts : list gtoken) (s : list Z) : bool :=
  gtok_match ts s || match s with [] => false | _ :: s' => gstar_loop ts s' end.

Lemma gtok_match_star : forall ts s, gtok_match (GStar :: ts) s = gstar_loop ts s.
Proof.
  intros ts s. cbn [gtok_match]. induction s as [|d s IH]; cbn [gstar_loop]; [reflexivity|]. rewrite <- IH. reflexivity.
Qed.

Lemma gtok_match_one : forall t ts s, t <> GStar ->
  gtok_match (t :: ts) s = match s with [] => false | d :: s' => gtok_ok t d && gtok_match ts s' end.
Proof. intros t ts s Ht. destruct t; [contradiction | reflexivity | reflexivity | reflexivity]. Qed.

Lemma gtok_match_simple : forall p s, gtok_match (map simple_tok p) s = glob_match p s.
Proof.
  induction p as [|c p IH]; intro s; [reflexivity|]. cbn [map]. unfold simple_tok at 1.
  destruct (c =? STAR) eqn:E.
  - apply Z.eqb_eq in E. subst c. rewrite gtok_match_star, glob_match_star.
    induction s as [|d s IHs]; cbn [gstar_loop star_loop]; rewrite IH; [reflexivity | rewrite IHs; reflexivity].
  - assert (Hc : c <> STAR) by (intro Ec; subst; rewrite Z.eqb_refl in E; discriminate).
    rewrite glob_match_cons by exact Hc. destruct (c =? QMARK) eqn:Eq.
    + rewrite gtok_match_one by discriminate. destruct s as [|d s]; [reflexivity|]. cbn. rewrite IH. reflexivity.
    + rewrite gtok_match_one by discriminate. destruct s as [|d s]; [reflexivity|]. cbn. rewrite IH. reflexivity.
Qed.

(* on patterns without `[` the class-aware matcher is the plain one *)
Lemma glob_cls_agrees : forall p s, no_bracket p = true -> glob_match_cls p s = glob_match p s.
Proof.
  intros p s H. unfold glob_match_cls, gtokenize. rewrite gtokenize_f_no_bracket by (try lia; exact H).
  apply gtok_match_simple.
Qed.

Lemma gstar_loop_true : forall ts s, gstar_loop ts s = true <-> exists s1 s2, s = s1 ++ s2 /\ gtok_match ts s2 = true.
Proof.
  intros ts. induction s as [|d s IH]; cbn [gstar_loop].
  - rewrite orb_false_r. split.
    + intro H. exists [], []. split; [reflexivity | exact H].
    + intros (s1 & s2 & E & H). symmetry in E. apply app_eq_nil in E. destruct E; subst. exact H.
  - rewrite orb_true_iff, IH. split.
    + intros [H | (s1 & s2 & E & H)].
      * exists [], (d :: s). split; [reflexivity | exact H].
      * exists (d :: s1), s2. split; [cbn; congruence | exact H].
    + intros (s1 & s2 & E & H). destruct s1 as [|x s1].
      * left. cbn in E. subst. exact H.
      * right. cbn in E. injection E as _ E. exists s1, s2. split; assumption.
Qed.

Lemma gtok_dec_star : forall t : gtoken, {t = GStar} + {t <> GStar}.
Proof. intro t. destruct t; [left; reflexivity | right; discriminate | right; discriminate | right; discriminate]. Qed.

Lemma gtok_match_iff : forall ts s, gtok_match ts s = true <-> gtok_rel ts s.
Proof.
  induction ts as [|t ts IH]; intro s.
  - split; intro H; [destruct s; [constructor | discriminate] | inversion H; reflexivity].
  - destruct (gtok_dec_star t) as [Et | Et].
    + subst t. rewrite gtok_match_star, gstar_loop_true. split.
      * intros (s1 & s2 & E & H). subst s. apply GR_star. apply IH. exact H.
      * intro H. inversion H as [|ts' s1 s2 Hr|t' ts' d s' Hne]; subst; [|contradiction].
        exists s1, s2. split; [reflexivity | apply IH; exact Hr].
    + rewrite gtok_match_one by exact Et. split.
      * intro H. destruct s as [|d s]; [discriminate|]. apply andb_true_iff in H. destruct H as [H1 H2].
        apply GR_one; [exact Et | exact H1 | apply IH; exact H2].
      * intro H. inversion H as [|ts' s1 s2 Hr|t' ts' d s' Hne Hok Hr]; subst; [contradiction|].
        rewrite Hok. cbn. apply IH. exact Hr.
Qed.

Lemma glob_cls_iff : forall p s, glob_match_cls p s = true <-> gtok_rel (gtokenize p) s.
Proof. intros p s. apply gtok_match_iff. Qed.

(* a class body without `-` is the set of its characters *)
Lemma cls_mem_no_dash : forall body d, ~ In DASH body -> (cls_mem body d = true <-> In d body).
Proof.
  induction body as [|c1 r1 IH]; intros d Hn; [cbn; split; [discriminate | intros []]|].
  assert (Hr : ~ In DASH r1) by (intro H; apply Hn; right; exact H).
  assert (E : cls_mem (c1 :: r1) d = (c1 =? d) || cls_mem r1 d).
  { cbn [cls_mem]. destruct r1 as [|dash [|c2 r2]]; try reflexivity.
    destruct (dash =? DASH) eqn:Ed; [|reflexivity]. apply Z.eqb_eq in Ed. subst. exfalso. apply Hr. left. reflexivity. }
  rewrite E, orb_true_iff, Z.eqb_eq, IH by exact Hr. cbn. reflexivity.
Qed.
