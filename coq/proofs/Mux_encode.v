(* C03: encoding of simply multiplexed frames - group selection and the round trip; extended frames are refused. *)
From CM Require Import lib.Prelude model.Codec model.Mux proofs.Codec_decode proofs.Codec_encode
  proofs.Mux_lib proofs.Mux_simple.

Theorem encode_complex_refused : forall f data, f_complex f = true -> frame_encode f data = EComplex.
Proof. intros f data H. unfold frame_encode. rewrite H. reflexivity. Qed.

(* ---------- filtering the dict = filtering the signal list ---------- *)

Lemma lookup_filter : forall (P : Z -> bool) data n,
  lookup n (filter (fun kv : Z * raw => P (fst kv)) data) = if P n then lookup n data else None.
Proof.
  intros P. induction data as [|[k v] r IH]; intro n.
  - cbn. destruct (P n); reflexivity.
  - cbn [filter fst]. destruct (P k) eqn:Ek.
    + cbn [lookup]. destruct (Z.eqb_spec k n) as [E|E].
      * subst k. rewrite Ek. reflexivity.
      * apply IH.
    + rewrite IH. cbn [lookup]. destruct (Z.eqb_spec k n) as [E|E].
      * subst k. rewrite Ek. reflexivity.
      * reflexivity.
Qed.

Lemma name_in_spec : forall names n, name_in names n = true <-> In n names.
Proof.
  intros names n. unfold name_in. rewrite existsb_exists. split.
  - intros [x [H1 H2]]. apply Z.eqb_eq in H2. subst x. exact H1.
  - intro H. exists n. split; [exact H|apply Z.eqb_refl].
Qed.

Lemma group_names : forall sigs m sel s, unique_names sigs -> In m sigs -> In s sigs ->
  name_in (m_name m :: map m_name (filter (selected sel) sigs)) (m_name s) = in_group m sel s.
Proof.
  intros sigs m sel s Hn Hm Hs. apply eq_true_iff_eq. rewrite name_in_spec. unfold in_group.
  rewrite orb_true_iff, Z.eqb_eq. cbn [In]. split.
  - intros [H|H]; [left; symmetry; exact H|right].
    apply in_map_iff in H. destruct H as [t [E Ht]]. apply filter_In in Ht. destruct Ht as [Ht Hsel].
    assert (t = s) by (apply (unique_names_inj sigs); assumption). subst t. exact Hsel.
  - intros [H|H]; [left; symmetry; exact H|right].
    apply in_map. apply filter_In. split; assumption.
Qed.

(* placing all signals with the filtered dict = placing only the group's signals with the caller's dict *)
Lemma place_group : forall N (P : msignal -> bool) data data' l lb bb,
  (forall s, In s l -> lookup (m_name s) data' = if P s then lookup (m_name s) data else None) ->
  place_signals N (map m_sig l) data' lb bb = place_signals N (map m_sig (filter P l)) data lb bb.
Proof.
  intros N P data data'. induction l as [|s r IH]; intros lb bb Hl.
  - reflexivity.
  - assert (Hr : forall t, In t r -> lookup (m_name t) data' = if P t then lookup (m_name t) data else None)
      by (intros t Ht; apply Hl; right; exact Ht).
    pose proof (Hl s (or_introl eq_refl)) as Hs. unfold m_name in Hs.
    cbn [map filter place_signals]. rewrite Hs. destruct (P s).
    + cbn [map place_signals].
      destruct (lookup (s_name (m_sig s)) data) as [v|]; [|apply IH; exact Hr].
      destruct (inside N (m_sig s)); [|reflexivity].
      destruct (pack_bitstring (m_sig s) v) as [bits|]; [|reflexivity].
      destruct (s_le (m_sig s)); apply IH; exact Hr.
    + apply IH. exact Hr.
Qed.

Lemma stb_group : forall fsize (P : msignal -> bool) data data' sigs,
  (forall s, In s sigs -> lookup (m_name s) data' = if P s then lookup (m_name s) data else None) ->
  signals_to_bytes fsize (map m_sig sigs) data' = signals_to_bytes fsize (map m_sig (filter P sigs)) data.
Proof.
  intros fsize P data data' sigs H. unfold signals_to_bytes.
  destruct (fsize <? 0); [reflexivity|].
  rewrite (place_group (fsize * 8) P data data' sigs _ _ H). reflexivity.
Qed.

Lemma get_multiplexer_in : forall sigs m, get_multiplexer sigs = Some m -> In m sigs /\ m_is_mux m = true.
Proof. intros sigs m H. unfold get_multiplexer in H. apply find_some in H. exact H. Qed.

(* Frame.encode of a simply multiplexed frame is the flat encoder run on the selected group only: the first
   multiplexer m, signals bound to nothing, signals bound to the supplied selector value.  Values supplied for
   signals of other groups are never consulted, whatever bits those signals would occupy. *)
Theorem encode_simple_selects_group :
  forall f data m sel,
    f_complex f = false -> unique_names (f_sigs f) -> get_multiplexer (f_sigs f) = Some m ->
    selector data m = Some sel ->
    frame_encode f data =
      stb_result (signals_to_bytes (f_size f) (map m_sig (filter (in_group m sel) (f_sigs f))) data).
Proof.
  intros f data m sel Hc Hn Hm Hsel. destruct (get_multiplexer_in _ _ Hm) as [Hin _].
  unfold frame_encode. rewrite Hc, Hm. unfold selector in Hsel.
  assert (G : forall sel0,
    stb_result (signals_to_bytes (f_size f) (map m_sig (f_sigs f))
      (filter (fun kv : Z * raw => name_in (m_name m :: map m_name (filter (selected sel0) (f_sigs f))) (fst kv)) data)) =
    stb_result (signals_to_bytes (f_size f) (map m_sig (filter (in_group m sel0) (f_sigs f))) data)).
  { intro sel0. f_equal. apply stb_group. intros s Hs.
    rewrite (lookup_filter (name_in (m_name m :: map m_name (filter (selected sel0) (f_sigs f)))) data (m_name s)).
    rewrite (group_names (f_sigs f) m sel0 s Hn Hin Hs). reflexivity. }
  destruct (lookup (m_name m) data) as [[v|pat]|].
  - assert (sel = Some v) by congruence. subst sel. apply G.
  - discriminate.
  - assert (sel = None) by congruence. subst sel. apply G.
Qed.

(* ---------- the selected group is a layout the flat encoder is specified for ---------- *)

Lemma selected_coexist : forall v s t, selected (Some v) s = true -> selected (Some v) t = true -> may_coexist s t.
Proof.
  intros v s t Hs Ht. apply selected_spec in Hs. apply selected_spec in Ht. unfold may_coexist.
  destruct Hs as [Hs|Hs]; [left; exact Hs|]. destruct Ht as [Ht|Ht]; [right; left; exact Ht|].
  right. right. congruence.
Qed.

Lemma group_disjoint : forall v sigs,
  ForallOrdPairs (fun s t => may_coexist s t -> forall p, ~ (occupies (m_sig s) p /\ occupies (m_sig t) p)) sigs ->
  pairwise_disjoint (map m_sig (filter (selected (Some v)) sigs)).
Proof.
  intros v sigs H. unfold pairwise_disjoint. induction H as [|a l Ha Hl IH].
  - constructor.
  - cbn [filter]. destruct (selected (Some v) a) eqn:Ea; [|exact IH].
    cbn [map]. constructor; [|exact IH].
    rewrite Forall_forall in *. intros x Hx. apply in_map_iff in Hx. destruct Hx as [b [<- Hb]].
    apply filter_In in Hb. destruct Hb as [Hb Hsb].
    apply (Ha b Hb). apply (selected_coexist v); assumption.
Qed.

Lemma group_layout_ok : forall fsize sigs v, mux_layout_ok fsize sigs ->
  layout_ok fsize (map m_sig (filter (selected (Some v)) sigs)).
Proof.
  intros fsize sigs v [H0 [Hn [Hd Hf]]]. unfold layout_ok. split; [exact H0|]. split; [|split].
  - unfold names_unique. rewrite map_map. apply (filter_names_nodup _ _ Hn).
  - apply group_disjoint. exact Hd.
  - rewrite Forall_forall in *. intros x Hx. apply in_map_iff in Hx. destruct Hx as [s [<- Hs]].
    apply filter_In in Hs. apply Hf. apply Hs.
Qed.

Lemma filter_ext_in : forall A (P Q : A -> bool) l, (forall x, In x l -> P x = Q x) -> filter P l = filter Q l.
Proof.
  intros A P Q. induction l as [|a r IH]; intro H; [reflexivity|].
  cbn [filter]. rewrite (H a (or_introl eq_refl)). rewrite IH; [reflexivity|].
  intros x Hx. apply H. right. exact Hx.
Qed.

Lemma in_group_selected : forall sigs m v s, unique_names sigs -> sole_multiplexer sigs m -> In s sigs ->
  in_group m (Some v) s = selected (Some v) s.
Proof.
  intros sigs m v s Hn [Hin [_ [Hmv _]]] Hs. unfold in_group.
  destruct (Z.eqb_spec (m_name s) (m_name m)) as [E|E]; [|reflexivity].
  assert (s = m) by (apply (unique_names_inj sigs); assumption). subst s.
  cbn [orb]. symmetry. apply selected_spec. left. exact Hmv.
Qed.

Lemma sole_placed : forall fsize sigs m, mux_layout_ok fsize sigs -> sole_multiplexer sigs m -> placed fsize sigs.
Proof.
  intros fsize sigs m [_ [_ [_ Hf]]] [_ [_ [_ [Hfl Hsole]]]]. unfold placed.
  rewrite Forall_forall in *. intros s Hs. destruct (Hf s Hs) as [H1 H2].
  split; [exact H1|]. split; [exact H2|]. intro Hmux. rewrite (Hsole s Hs Hmux). exact Hfl.
Qed.

(* The round trip.  Groups may share payload bits with each other (mux_layout_ok only separates signals that can
   be present together).  For a supplied integer selector v and representable values for the signals of group v
   (anything at all may be supplied for the other groups): encoding succeeds with the frame's length; decoding the
   result returns exactly the multiplexer, the unbound signals and group v; and every supplied value of those
   signals comes back unchanged. *)
Theorem encode_simple_roundtrip :
  forall f data m v,
    f_complex f = false -> mux_layout_ok (f_size f) (f_sigs f) -> sole_multiplexer (f_sigs f) m ->
    lookup (m_name m) data = Some (RInt v) ->
    (forall s x, In s (f_sigs f) -> m_mux_val s = None \/ m_mux_val s = Some v ->
                 lookup (m_name s) data = Some x -> in_range (m_sig s) x) ->
    exists bytes vals,
      frame_encode f data = EOk bytes /\ zlen bytes = f_size f /\ frame_decode f bytes = DOk vals /\
      (forall s, In s (f_sigs f) ->
         (In (m_name s) (map fst vals) <-> m_mux_val s = None \/ m_mux_val s = Some v)) /\
      (forall s x, In s (f_sigs f) -> m_mux_val s = None \/ m_mux_val s = Some v ->
                   lookup (m_name s) data = Some x -> In (m_name s, x) vals).
Proof.
  intros f data m v Hc Hlay Hsole Hsel Hrng.
  pose proof Hlay as [H0 [Hn _]].
  pose proof Hsole as [Hmin [Hmmux [Hmmv _]]].
  set (sigs := f_sigs f) in *.
  set (G := filter (selected (Some v)) sigs).
  pose proof (group_layout_ok (f_size f) sigs v Hlay) as HlayG. fold G in HlayG.
  assert (HrngG : forall s x, In s (map m_sig G) -> lookup (s_name s) data = Some x -> in_range s x).
  { intros s x Hs Hx. apply in_map_iff in Hs. destruct Hs as [t [<- Ht]]. apply filter_In in Ht.
    destruct Ht as [Ht Hsl]. apply selected_spec in Hsl. apply (Hrng t x Ht Hsl Hx). }
  destruct (encode_total_and_length (f_size f) (map m_sig G) data HlayG HrngG) as [bytes [Hstb [Hlen _]]].
  (* encode *)
  assert (Henc : frame_encode f data = EOk bytes).
  { rewrite (encode_simple_selects_group f data m (Some v) Hc Hn (sole_get_multiplexer _ _ Hsole)).
    2:{ unfold selector. rewrite Hsel. reflexivity. }
    rewrite (filter_ext_in _ (in_group m (Some v)) (selected (Some v)) (f_sigs f)).
    2:{ intros s Hs. apply (in_group_selected sigs m v s Hn Hsole Hs). }
    fold sigs. fold G. rewrite Hstb. reflexivity. }
  (* what each signal of the group decodes to *)
  assert (Hback : forall s x, In s sigs -> selected (Some v) s = true -> lookup (m_name s) data = Some x ->
                   convention_value bytes (m_sig s) = x).
  { intros s x Hs Hsl Hx.
    assert (HsG : In (m_sig s) (map m_sig G)) by (apply in_map; apply filter_In; split; assumption).
    pose proof (decode_encode (f_size f) (map m_sig G) data bytes HlayG HrngG Hstb (m_sig s) x HsG Hx) as Hde.
    destruct HlayG as [_ [_ [_ HF]]]. rewrite Forall_forall in HF. destruct (HF _ HsG) as [Hi Hfl].
    rewrite <- Hlen in Hi, Hde.
    rewrite (decode_is_convention_value bytes (m_sig s) Hi Hfl) in Hde. congruence. }
  (* decode *)
  pose proof (sole_placed (f_size f) sigs m Hlay Hsole) as Hp.
  destruct (decode_simple_exact f bytes m Hc Hn Hp Hlen (sole_last_multiplexer _ _ Hsole)) as [v' [Hv' Hdec]].
  assert (Hmsel : selected (Some v) m = true) by (apply selected_spec; left; exact Hmmv).
  pose proof (Hback m (RInt v) Hmin Hmsel Hsel) as Hmv.
  assert (v' = v). { unfold int_value in Hv'. rewrite Hmv in Hv'. congruence. }
  subst v'.
  exists bytes. eexists. split; [exact Henc|]. split; [exact Hlen|]. split; [exact Hdec|]. split.
  - intros s Hs. rewrite <- selected_spec. rewrite map_map. cbn [fst]. split.
    + intro Hin. apply in_map_iff in Hin. destruct Hin as [t [E Ht]]. apply filter_In in Ht.
      destruct Ht as [Ht Hsl].
      assert (t = s) by (apply (unique_names_inj sigs); assumption). subst t. exact Hsl.
    + intro Hsl. apply in_map_iff. exists s. split; [reflexivity|apply filter_In; split; assumption].
  - intros s x Hs Hsl Hx. apply selected_spec in Hsl.
    apply in_map_iff. exists s. split; [|apply filter_In; split; assumption].
    rewrite (Hback s x Hs Hsl Hx). reflexivity.
Qed.
