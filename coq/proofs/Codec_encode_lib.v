(* Helper lemmas for Codec_encode.v (C02): list/slice facts, chunks/grev, bin_value, pos_digits. *)
From CM Require Import lib.Prelude model.Codec.

(* ---------- nth with Z index ---------- *)

Definition znth {A} (l : list A) (i : Z) (d : A) : A := nth (Z.to_nat i) l d.

Lemma zlen_nonneg : forall A (l : list A), 0 <= zlen l.
Proof. intros; unfold zlen; lia. Qed.

Lemma zlen_app : forall A (l1 l2 : list A), zlen (l1 ++ l2) = zlen l1 + zlen l2.
Proof. intros; unfold zlen; rewrite app_length; lia. Qed.

Lemma zlen_map : forall A B (f : A -> B) l, zlen (map f l) = zlen l.
Proof. intros; unfold zlen; rewrite map_length; lia. Qed.

Lemma zlen_repeat : forall A (x : A) n, zlen (repeat x n) = Z.of_nat n.
Proof. intros; unfold zlen; rewrite repeat_length; lia. Qed.

Lemma zlen_cons : forall A (x : A) l, zlen (x :: l) = 1 + zlen l.
Proof. intros; unfold zlen; cbn [length]; lia. Qed.

Lemma nth_firstn' : forall A (l : list A) n i d, (i < n)%nat -> nth i (firstn n l) d = nth i l d.
Proof.
  induction l as [|x l IH]; intros n i d H.
  - rewrite firstn_nil. reflexivity.
  - destruct n as [|n]; [lia|]. destruct i as [|i]; cbn [firstn nth]; [reflexivity|].
    apply IH; lia.
Qed.

Lemma nth_skipn' : forall A (l : list A) n i d, nth i (skipn n l) d = nth (n + i) l d.
Proof.
  induction l as [|x l IH]; intros n i d.
  - rewrite skipn_nil. destruct i, n; reflexivity.
  - destruct n as [|n]; cbn [skipn Nat.add nth]; [reflexivity|]. apply IH.
Qed.

Lemma znth_app1 : forall A (l1 l2 : list A) i d, 0 <= i < zlen l1 -> znth (l1 ++ l2) i d = znth l1 i d.
Proof. intros A l1 l2 i d H; unfold znth, zlen in *; apply app_nth1; lia. Qed.

Lemma znth_app2 : forall A (l1 l2 : list A) i d, zlen l1 <= i -> znth (l1 ++ l2) i d = znth l2 (i - zlen l1) d.
Proof.
  intros A l1 l2 i d H; unfold znth, zlen in *. rewrite app_nth2 by lia. f_equal; lia.
Qed.

Lemma znth_firstn : forall A (l : list A) n i d, 0 <= i < n -> znth (firstn (Z.to_nat n) l) i d = znth l i d.
Proof. intros; unfold znth; apply nth_firstn'; lia. Qed.

Lemma znth_skipn : forall A (l : list A) n i d, 0 <= i -> 0 <= n -> znth (skipn (Z.to_nat n) l) i d = znth l (n + i) d.
Proof. intros; unfold znth; rewrite nth_skipn'; f_equal; lia. Qed.

Lemma znth_map : forall A B (f : A -> B) l i d d', 0 <= i < zlen l -> znth (map f l) i d' = f (znth l i d).
Proof.
  intros A B f l i d d' H; unfold znth, zlen in *.
  rewrite (nth_indep _ d' (f d)) by (rewrite map_length; lia). apply map_nth.
Qed.

Lemma znth_repeat : forall A (x : A) n i, znth (repeat x n) i x = x.
Proof.
  intros A x n i; unfold znth. generalize (Z.to_nat i) as k.
  induction n as [|n IH]; intros k; destruct k; cbn [repeat nth]; auto.
Qed.

Lemma znth_overflow : forall A (l : list A) i d, zlen l <= i -> znth l i d = d.
Proof. intros A l i d H; unfold znth, zlen in *; apply nth_overflow; lia. Qed.

Lemma znth_ext : forall A (l1 l2 : list A) d,
  zlen l1 = zlen l2 -> (forall i, 0 <= i < zlen l1 -> znth l1 i d = znth l2 i d) -> l1 = l2.
Proof.
  intros A l1 l2 d Hl H. apply (nth_ext _ _ d d); unfold zlen in *; [lia|].
  intros n Hn. specialize (H (Z.of_nat n)). unfold znth in H. rewrite Nat2Z.id in H. apply H; lia.
Qed.

(* ---------- py_set_slice / py_slice inside bounds ---------- *)

Lemma py_set_slice_in : forall A (l v : list A) a b,
  0 <= a -> a <= b -> b <= zlen l ->
  py_set_slice l a b v = firstn (Z.to_nat a) l ++ v ++ skipn (Z.to_nat b) l.
Proof.
  intros A l v a b Ha Hab Hb. unfold py_set_slice, py_bound.
  destruct (a <? 0) eqn:E1; [lia|]. destruct (b <? 0) eqn:E2; [lia|].
  rewrite (Z.min_l a) by lia. rewrite (Z.min_l b) by lia. rewrite Z.max_r by lia. reflexivity.
Qed.

Lemma zlen_firstn : forall A (l : list A) n, 0 <= n <= zlen l -> zlen (firstn (Z.to_nat n) l) = n.
Proof. intros A l n H; unfold zlen in *; rewrite firstn_length; lia. Qed.

Lemma zlen_skipn : forall A (l : list A) n, 0 <= n <= zlen l -> zlen (skipn (Z.to_nat n) l) = zlen l - n.
Proof. intros A l n H; unfold zlen in *; rewrite skipn_length; lia. Qed.

Lemma zlen_py_set_slice : forall A (l v : list A) a b,
  0 <= a -> a <= b -> b <= zlen l -> zlen v = b - a -> zlen (py_set_slice l a b v) = zlen l.
Proof.
  intros A l v a b Ha Hab Hb Hv. rewrite py_set_slice_in by assumption.
  rewrite !zlen_app, zlen_firstn, zlen_skipn by lia. lia.
Qed.

Lemma znth_py_set_slice : forall A (l v : list A) a b q d,
  0 <= a -> a <= b -> b <= zlen l -> zlen v = b - a -> 0 <= q ->
  znth (py_set_slice l a b v) q d = if (a <=? q) && (q <? b) then znth v (q - a) d else znth l q d.
Proof.
  intros A l v a b q d Ha Hab Hb Hv Hq. rewrite py_set_slice_in by assumption.
  destruct (Z.ltb_spec q a) as [H1|H1].
  - rewrite znth_app1 by (rewrite zlen_firstn; lia). rewrite znth_firstn by lia.
    destruct (Z.leb_spec a q); [lia|]. reflexivity.
  - rewrite znth_app2 by (rewrite zlen_firstn; lia). rewrite zlen_firstn by lia.
    destruct (Z.leb_spec a q); [|lia]. cbn [andb].
    destruct (Z.ltb_spec q b) as [H2|H2].
    + rewrite znth_app1 by lia. reflexivity.
    + rewrite znth_app2 by lia. rewrite znth_skipn by lia. f_equal. lia.
Qed.

Lemma py_slice_in : forall A (l : list A) a b,
  0 <= a -> a <= b -> b <= zlen l ->
  py_slice l a b = firstn (Z.to_nat (b - a)) (skipn (Z.to_nat a) l).
Proof.
  intros A l a b Ha Hab Hb. unfold py_slice, py_bound.
  destruct (a <? 0) eqn:E1; [lia|]. destruct (b <? 0) eqn:E2; [lia|].
  rewrite (Z.min_l a) by lia. rewrite (Z.min_l b) by lia. reflexivity.
Qed.

Lemma zlen_py_slice : forall A (l : list A) a b,
  0 <= a -> a <= b -> b <= zlen l -> zlen (py_slice l a b) = b - a.
Proof.
  intros A l a b Ha Hab Hb. rewrite py_slice_in by assumption.
  unfold zlen in *. rewrite firstn_length, skipn_length. lia.
Qed.

Lemma znth_py_slice : forall A (l : list A) a b j d,
  0 <= a -> a <= b -> b <= zlen l -> 0 <= j < b - a ->
  znth (py_slice l a b) j d = znth l (a + j) d.
Proof.
  intros A l a b j d Ha Hab Hb Hj. rewrite py_slice_in by assumption.
  rewrite znth_firstn by lia. apply znth_skipn; lia.
Qed.

(* ---------- chunks of 8 ---------- *)

Lemma chunks_fuel_enough : forall A f1 f2 (l : list A),
  (length l <= f1)%nat -> (length l <= f2)%nat -> chunks_fuel f1 8 l = chunks_fuel f2 8 l.
Proof.
  induction f1 as [|f1 IH]; intros f2 l H1 H2.
  - destruct l; [|cbn [length] in H1; lia]. destruct f2; reflexivity.
  - destruct l as [|x l]; [destruct f2; reflexivity|].
    destruct f2 as [|f2]; [cbn [length] in H2; lia|].
    cbn [chunks_fuel]. f_equal. apply IH; rewrite skipn_length; cbn [length] in *; lia.
Qed.

Lemma chunks_fuel_S : forall A f (x : A) r,
  chunks_fuel (S f) 8 (x :: r) = firstn 8 (x :: r) :: chunks_fuel f 8 (skipn 8 (x :: r)).
Proof. reflexivity. Qed.

Lemma chunks_app8 : forall A (c l : list A), length c = 8%nat -> chunks 8 (c ++ l) = c :: chunks 8 l.
Proof.
  intros A c l Hc. unfold chunks.
  assert (F : firstn 8 (c ++ l) = c).
  { rewrite firstn_app, Hc, Nat.sub_diag, firstn_O, app_nil_r. rewrite <- Hc. apply firstn_all. }
  assert (S8 : skipn 8 (c ++ l) = l).
  { rewrite skipn_app, Hc, Nat.sub_diag, skipn_O. rewrite <- Hc. rewrite skipn_all. reflexivity. }
  rewrite app_length, Hc.
  destruct (c ++ l) as [|x r] eqn:E.
  - apply (f_equal (@length A)) in E. rewrite app_length in E. cbn [length] in E. lia.
  - change (8 + length l)%nat with (S (7 + length l)). rewrite chunks_fuel_S.
    rewrite F, S8. f_equal. apply chunks_fuel_enough; lia.
Qed.

Lemma chunks_nil : forall A, chunks 8 (@nil A) = [].
Proof. reflexivity. Qed.

(* induction principle for lists whose length is a multiple of 8 *)
Lemma list8_ind : forall A (P : list A -> Prop),
  P [] ->
  (forall c l, length c = 8%nat -> P l -> P (c ++ l)) ->
  forall n l, length l = (8 * n)%nat -> P l.
Proof.
  intros A P H0 HS. induction n as [|n IH]; intros l Hl.
  - destruct l; [exact H0|cbn [length] in Hl; lia].
  - rewrite <- (firstn_skipn 8 l). apply HS.
    + rewrite firstn_length; lia.
    + apply IH. rewrite skipn_length; lia.
Qed.

Lemma chunks_length : forall A n (l : list A), length l = (8 * n)%nat -> length (chunks 8 l) = n.
Proof.
  intros A n l H. revert H. revert n.
  assert (G : forall n (l : list A), length l = (8 * n)%nat -> forall m, length l = (8 * m)%nat -> length (chunks 8 l) = m).
  { intros n0 l0 H0. pattern l0. revert n0 l0 H0. apply list8_ind.
    - intros m Hm. cbn [length] in Hm. rewrite chunks_nil. cbn [length]. lia.
    - intros c l1 Hc IH m Hm. rewrite chunks_app8 by assumption. cbn [length].
      rewrite app_length in Hm. rewrite (IH (m - 1)%nat); lia. }
  intros n H. apply (G n l H n H).
Qed.

Lemma chunks_all8 : forall A n (l : list A), length l = (8 * n)%nat ->
  Forall (fun c => length c = 8%nat) (chunks 8 l).
Proof.
  intros A. apply list8_ind.
  - rewrite chunks_nil. constructor.
  - intros c l Hc IH. rewrite chunks_app8 by assumption. constructor; assumption.
Qed.

Lemma concat_chunks : forall A n (l : list A), length l = (8 * n)%nat -> concat (chunks 8 l) = l.
Proof.
  intros A. apply list8_ind.
  - reflexivity.
  - intros c l Hc IH. rewrite chunks_app8 by assumption. cbn [concat]. rewrite IH. reflexivity.
Qed.

(* ---------- grev ---------- *)

Lemma grev_app8 : forall A (c l : list A), length c = 8%nat -> grev (c ++ l) = grev l ++ c.
Proof.
  intros A c l Hc. unfold grev. rewrite chunks_app8 by assumption. cbn [rev].
  rewrite concat_app. cbn [concat]. rewrite app_nil_r. reflexivity.
Qed.

Lemma grev_length : forall A n (l : list A), length l = (8 * n)%nat -> length (grev l) = length l.
Proof.
  intros A. apply list8_ind.
  - reflexivity.
  - intros c l Hc IH. rewrite grev_app8 by assumption. rewrite !app_length. lia.
Qed.

(* index map of grev on a list of 8*n elements *)
Definition gidx (n p : Z) : Z := 8 * (n - 1 - p / 8) + p mod 8.

Lemma znth_grev : forall A (d : A) n (l : list A), length l = (8 * n)%nat ->
  forall p, 0 <= p < zlen l -> znth (grev l) p d = znth l (gidx (Z.of_nat n) p) d.
Proof.
  intros A d n l H.
  assert (G : forall m, length l = (8 * m)%nat ->
              forall p, 0 <= p < zlen l -> znth (grev l) p d = znth l (gidx (Z.of_nat m) p) d).
  { pattern l. revert n l H. apply list8_ind.
    - intros m _ p Hp. unfold zlen in Hp. cbn [length] in Hp. lia.
    - intros c l Hc IH m Hm p Hp. rewrite grev_app8 by assumption.
      rewrite app_length in Hm. rewrite zlen_app in Hp.
      assert (Hgl : zlen (grev l) = zlen l).
      { unfold zlen. rewrite (grev_length _ (m - 1)%nat) by lia. reflexivity. }
      assert (Hzc : zlen c = 8) by (unfold zlen; lia).
      assert (Hzl : zlen l = 8 * (Z.of_nat m - 1)) by (unfold zlen; lia).
      destruct (Z.ltb_spec p (zlen l)) as [Hlt|Hge].
      + rewrite znth_app1 by lia. rewrite (IH (m - 1)%nat) by lia.
        rewrite znth_app2 by (unfold gidx; lia). f_equal. unfold gidx. lia.
      + rewrite znth_app2 by lia. rewrite Hgl.
        rewrite znth_app1 by (unfold gidx; lia). f_equal. unfold gidx. lia. }
  apply G. exact H.
Qed.

Lemma gidx_range : forall n p, 0 <= p < 8 * n -> 0 <= gidx n p < 8 * n.
Proof. intros n p H; unfold gidx; lia. Qed.

Lemma gidx_invol : forall n p, 0 <= p < 8 * n -> gidx n (gidx n p) = p.
Proof. intros n p H; unfold gidx; lia. Qed.

(* ---------- bin_value ---------- *)

Lemma bin_value_snoc : forall bs b, bin_value (bs ++ [b]) = 2 * bin_value bs + Z.b2z b.
Proof. intros bs b. unfold bin_value. rewrite fold_left_app. reflexivity. Qed.

Lemma bin_value_range : forall bs, 0 <= bin_value bs < 2 ^ zlen bs.
Proof.
  induction bs as [|b bs IH] using rev_ind.
  - cbn. lia.
  - rewrite bin_value_snoc, zlen_app. change (zlen [b]) with 1.
    rewrite Z.pow_add_r by (pose proof (zlen_nonneg _ bs); lia). change (2 ^ 1) with 2.
    destruct b; cbn [Z.b2z]; lia.
Qed.

Lemma bin_value_testbit : forall bs i, 0 <= i ->
  Z.testbit (bin_value bs) i = if i <? zlen bs then znth bs (zlen bs - 1 - i) false else false.
Proof.
  induction bs as [|b bs IH] using rev_ind; intros i Hi.
  - change (bin_value []) with 0. rewrite Z.testbit_0_l. destruct (i <? zlen []); [|reflexivity].
    unfold znth. destruct (Z.to_nat _); reflexivity.
  - rewrite bin_value_snoc, zlen_app. change (zlen [b]) with 1. pose proof (zlen_nonneg _ bs) as Hn.
    destruct (Z.eq_dec i 0) as [->|Hne].
    + rewrite Z.testbit_0_r. destruct (Z.ltb_spec 0 (zlen bs + 1)); [|lia].
      rewrite znth_app2 by lia. replace (zlen bs + 1 - 1 - 0 - zlen bs) with 0 by lia. reflexivity.
    + replace i with (Z.succ (i - 1)) at 1 by lia. rewrite Z.testbit_succ_r by lia.
      rewrite IH by lia.
      destruct (Z.ltb_spec (i - 1) (zlen bs)); destruct (Z.ltb_spec i (zlen bs + 1)); try lia; try reflexivity.
      rewrite znth_app1 by lia. f_equal. lia.
Qed.

Lemma bin_value_app : forall l1 l2, bin_value (l1 ++ l2) = bin_value l1 * 2 ^ zlen l2 + bin_value l2.
Proof.
  intros l1 l2. induction l2 as [|b l2 IH] using rev_ind.
  - rewrite app_nil_r. change (zlen []) with 0. change (bin_value []) with 0. lia.
  - rewrite app_assoc, !bin_value_snoc, IH, zlen_app. change (zlen [b]) with 1.
    rewrite Z.pow_add_r by (pose proof (zlen_nonneg _ l2); lia). change (2 ^ 1) with 2. lia.
Qed.

Lemma bin_value_repeat_false : forall k, bin_value (repeat false k) = 0.
Proof.
  intros k. pose proof (bin_value_range (repeat false k)) as H.
  apply Z.bits_inj'. intros i Hi. rewrite bin_value_testbit by assumption. rewrite Z.testbit_0_l.
  destruct (i <? _); [|reflexivity]. apply znth_repeat.
Qed.

Lemma lastn_split : forall A n (l : list A), firstn (length l - n) l ++ lastn n l = l.
Proof. intros; unfold lastn; apply firstn_skipn. Qed.

Lemma zlen_lastn : forall A n (l : list A), (n <= length l)%nat -> zlen (lastn n l) = Z.of_nat n.
Proof. intros A n l H; unfold lastn, zlen; rewrite skipn_length; lia. Qed.

Lemma bin_value_lastn : forall n l, (n <= length l)%nat ->
  bin_value (lastn n l) = bin_value l mod 2 ^ Z.of_nat n.
Proof.
  intros n l H. pose proof (bin_value_range (lastn n l)) as R. rewrite zlen_lastn in R by assumption.
  rewrite <- (lastn_split _ n l) at 2. rewrite bin_value_app, zlen_lastn by assumption.
  rewrite Z.add_comm, Z_mod_plus_full. symmetry. apply Z.mod_small. exact R.
Qed.

Lemma bin_value_pos_digits : forall p, bin_value (pos_digits p) = Zpos p.
Proof.
  induction p as [p IH|p IH|]; cbn [pos_digits].
  - rewrite bin_value_snoc, IH. cbn [Z.b2z]. lia.
  - rewrite bin_value_snoc, IH. cbn [Z.b2z]. lia.
  - reflexivity.
Qed.

(* ---------- bytes built from a bit string ---------- *)

Lemma mbit_cons_lt : forall x r p, 0 <= p < 8 -> mbit (x :: r) p = Z.testbit x (7 - p).
Proof.
  intros x r p H. unfold mbit. replace (p / 8) with 0 by lia. cbn [Z.to_nat nth]. f_equal. lia.
Qed.

Lemma mbit_cons_ge : forall x r p, 8 <= p -> mbit (x :: r) p = mbit r (p - 8).
Proof.
  intros x r p H. unfold mbit.
  replace (Z.to_nat (p / 8)) with (S (Z.to_nat ((p - 8) / 8))) by lia. cbn [nth].
  f_equal. lia.
Qed.

Lemma mbit_chunks : forall n bs, length bs = (8 * n)%nat ->
  forall p, 0 <= p < zlen bs -> mbit (map bin_value (chunks 8 bs)) p = znth bs p false.
Proof.
  apply (list8_ind bool (fun bs => forall p, 0 <= p < zlen bs ->
            mbit (map bin_value (chunks 8 bs)) p = znth bs p false)).
  - intros p Hp. change (zlen (@nil bool)) with 0 in Hp. lia.
  - intros c l Hc IH p Hp. rewrite chunks_app8 by assumption. cbn [map].
    assert (Hzc : zlen c = 8) by (unfold zlen; lia). rewrite zlen_app in Hp.
    destruct (Z.ltb_spec p 8) as [Hlt|Hge].
    + rewrite mbit_cons_lt by lia. rewrite bin_value_testbit by lia. rewrite Hzc.
      destruct (Z.ltb_spec (7 - p) 8); [|lia]. rewrite znth_app1 by lia. f_equal. lia.
    + rewrite mbit_cons_ge by lia. rewrite IH by lia. rewrite znth_app2 by lia. rewrite Hzc. reflexivity.
Qed.

Lemma bytes_ok_chunks : forall n bs, length bs = (8 * n)%nat -> bytes_ok (map bin_value (chunks 8 bs)) = true.
Proof.
  intros n bs H. unfold bytes_ok. apply forallb_forall. intros x Hx.
  apply in_map_iff in Hx. destruct Hx as [c [<- Hc]].
  pose proof (chunks_all8 _ n bs H) as F. rewrite Forall_forall in F. specialize (F c Hc).
  pose proof (bin_value_range c) as R. unfold zlen in R. rewrite F in R. change (2 ^ Z.of_nat 8) with 256 in R. lia.
Qed.

Lemma pbit_mbit : forall d n, 0 <= n -> pbit d n = mbit d (8 * (n / 8) + (7 - n mod 8)).
Proof.
  intros d n H. unfold pbit, mbit. f_equal; [f_equal; f_equal|]; lia.
Qed.

(* ---------- bitsum ---------- *)

Lemma bitsum_ext : forall f g n, (forall i, (i < n)%nat -> f i = g i) -> bitsum f n = bitsum g n.
Proof.
  induction n as [|n IH]; intros H; cbn [bitsum]; [reflexivity|].
  rewrite IH by (intros; apply H; lia). rewrite H by lia. reflexivity.
Qed.

Lemma bitsum_range : forall f n, 0 <= bitsum f n < 2 ^ Z.of_nat n.
Proof.
  induction n as [|n IH]; cbn [bitsum]; [cbn; lia|].
  rewrite Nat2Z.inj_succ, Z.pow_succ_r by lia. destruct (f n); cbn [Z.b2z]; lia.
Qed.

Lemma bitsum_testbit_mod : forall z n, bitsum (fun i => Z.testbit z (Z.of_nat i)) n = z mod 2 ^ Z.of_nat n.
Proof.
  induction n as [|n IH]; cbn [bitsum].
  - cbn. rewrite Z.mod_1_r. reflexivity.
  - rewrite IH, Nat2Z.inj_succ, Z.pow_succ_r by lia.
    rewrite Z.testbit_spec' by lia.
    rewrite (Z.mul_comm 2). rewrite Z.rem_mul_r by (pose proof (Z.pow_pos_nonneg 2 (Z.of_nat n)); lia).
    reflexivity.
Qed.

Lemma bitsum_testbit : forall f n i, (i < n)%nat -> Z.testbit (bitsum f n) (Z.of_nat i) = f i.
Proof.
  induction n as [|n IH]; intros i Hi; [lia|]. cbn [bitsum].
  pose proof (bitsum_range f n) as R.
  destruct (Nat.eq_dec i n) as [->|Hne].
  - apply (Z.testbit_unique _ _ _ (bitsum f n) 0); [exact R|]. lia.
  - rewrite <- (IH i) by lia.
    rewrite <- (Z.mod_pow2_bits_low (bitsum f n + _) (Z.of_nat n)) by lia.
    rewrite Z.mul_comm, Z_mod_plus_full. rewrite Z.mod_small by exact R. reflexivity.
Qed.

(* ---------- packing ---------- *)

Definition raw_z (v : raw) : Z := match v with RInt z => z | RFloat p => p end.

Lemma pack_int_spec : forall size v, 1 <= size -> 0 < 2 * 2 ^ size + v ->
  exists bits, pack_int size v = Some bits /\ zlen bits = size /\ bin_value bits = v mod 2 ^ size.
Proof.
  intros size v Hs Hpos. unfold pack_int. destruct (Z.ltb_spec size 1) as [|_]; [lia|].
  assert (Hmod : (2 * 2 ^ size + v) mod 2 ^ size = v mod 2 ^ size).
  { rewrite Z.add_comm. apply Z_mod_plus_full. }
  destruct (2 * 2 ^ size + v) as [|p|p] eqn:E; try lia.
  eexists; split; [reflexivity|].
  set (padded := repeat false (Z.to_nat size - length (pos_digits p)) ++ pos_digits p).
  assert (Hlen : (Z.to_nat size <= length padded)%nat).
  { unfold padded. rewrite app_length, repeat_length. lia. }
  split.
  - rewrite zlen_lastn by assumption. lia.
  - rewrite bin_value_lastn by assumption. rewrite Z2Nat.id by lia.
    unfold padded. rewrite bin_value_app, bin_value_repeat_false, bin_value_pos_digits.
    rewrite Z.mul_0_l, Z.add_0_l. exact Hmod.
Qed.

Lemma inside_facts : forall N s, inside N s = true -> 0 <= s_start s /\ 1 <= s_size s /\ s_start s + s_size s <= N.
Proof. intros N s H. unfold inside in H. lia. Qed.

Lemma pow2_half : forall n, 1 <= n -> 2 ^ n = 2 * 2 ^ (n - 1) /\ 0 < 2 ^ (n - 1).
Proof.
  intros n H. split.
  - replace n with (Z.succ (n - 1)) at 1 by lia. apply Z.pow_succ_r. lia.
  - apply Z.pow_pos_nonneg; lia.
Qed.

Lemma pack_bits_spec : forall N s v, inside N s = true -> float_ok s -> in_range s v ->
  exists bits, pack_bitstring s v = Some bits /\ zlen bits = s_size s /\
    forall i, 0 <= i < s_size s -> znth bits (s_size s - 1 - i) false = Z.testbit (raw_z v) i.
Proof.
  intros N s v Hin Hf Hr. apply inside_facts in Hin. destruct Hin as [H0 [H1 H2]].
  unfold in_range in Hr. unfold pack_bitstring. unfold float_ok in Hf.
  destruct (s_float s) eqn:Ef; destruct v as [z|p]; try contradiction.
  - (* float *)
    specialize (Hf eq_refl). unfold pack_float.
    assert (E : (s_size s =? 32) || (s_size s =? 64) = true) by lia. rewrite E.
    eexists; split; [reflexivity|]. split.
    + rewrite zlen_map. unfold zlen. rewrite seq_length. lia.
    + intros i Hi. rewrite (znth_map _ _ _ _ _ 0%nat) by (unfold zlen; rewrite seq_length; lia).
      unfold znth. rewrite seq_nth by lia. cbn [raw_z]. f_equal. lia.
  - (* int *)
    destruct (pow2_half (s_size s) H1) as [P1 P2].
    assert (Hpos : 0 < 2 * 2 ^ s_size s + z) by (destruct (s_signed s); lia).
    destruct (pack_int_spec (s_size s) z H1 Hpos) as [bits [Hp [Hl Hb]]].
    exists bits. split; [exact Hp|]. split; [exact Hl|].
    intros i Hi. cbn [raw_z]. rewrite <- (Z.mod_pow2_bits_low z (s_size s)) by lia.
    rewrite <- Hb. rewrite bin_value_testbit by lia. rewrite Hl.
    destruct (Z.ltb_spec i (s_size s)); [reflexivity|lia].
Qed.

(* ---------- convention_value versus bits ---------- *)

Lemma testbit_top : forall z n, 1 <= n -> - 2 ^ (n - 1) <= z < 2 ^ (n - 1) ->
  Z.testbit z (n - 1) = (z <? 0) /\ z mod 2 ^ n = if z <? 0 then z + 2 ^ n else z.
Proof.
  intros z n Hn Hz. destruct (pow2_half n Hn) as [P1 P2]. split.
  - rewrite Z.testbit_eqb by lia.
    destruct (Z.ltb_spec z 0) as [Hneg|Hpos].
    + replace (z / 2 ^ (n - 1)) with (-1); [reflexivity|].
      apply (Z.div_unique_pos z (2 ^ (n - 1)) (-1) (z + 2 ^ (n - 1))); lia.
    + rewrite Z.div_small by lia. reflexivity.
  - destruct (Z.ltb_spec z 0) as [Hneg|Hpos].
    + symmetry. apply (Z.mod_unique_pos z (2 ^ n) (-1)); lia.
    + apply Z.mod_small. lia.
Qed.

Lemma convention_value_of_bits : forall N d s v, inside N s = true -> in_range s v ->
  (forall i, (i < Z.to_nat (s_size s))%nat -> sig_bit d s i = Z.testbit (raw_z v) (Z.of_nat i)) ->
  convention_value d s = v.
Proof.
  intros N d s v Hin Hr Hb. apply inside_facts in Hin. destruct Hin as [H0 [H1 H2]].
  unfold convention_value, unsigned_value.
  rewrite (bitsum_ext _ _ _ Hb), bitsum_testbit_mod. rewrite Z2Nat.id by lia.
  rewrite Hb by lia. replace (Z.of_nat (Z.to_nat (s_size s) - 1)) with (s_size s - 1) by lia.
  unfold in_range in Hr.
  destruct (s_float s) eqn:Ef; destruct v as [z|p]; try contradiction; cbn [raw_z].
  - rewrite Z.mod_small by lia. reflexivity.
  - f_equal. destruct (s_signed s); cbn [andb].
    + destruct (testbit_top z (s_size s) H1 Hr) as [T1 T2]. rewrite T1, T2.
      destruct (z <? 0); lia.
    + apply Z.mod_small. lia.
Qed.

Lemma convention_value_in_range : forall N d s, inside N s = true -> in_range s (convention_value d s).
Proof.
  intros N d s Hin. apply inside_facts in Hin. destruct Hin as [H0 [H1 H2]].
  unfold convention_value, unsigned_value, in_range.
  pose proof (bitsum_range (sig_bit d s) (Z.to_nat (s_size s))) as R. rewrite Z2Nat.id in R by lia.
  destruct (s_float s); [exact R|].
  destruct (pow2_half (s_size s) H1) as [P1 P2].
  destruct (s_signed s); cbn [andb]; [|exact R].
  replace (Z.to_nat (s_size s)) with (S (Z.to_nat (s_size s) - 1)) in * by lia.
  cbn [bitsum] in *. replace (S (Z.to_nat (s_size s) - 1) - 1)%nat with (Z.to_nat (s_size s) - 1)%nat by lia.
  pose proof (bitsum_range (sig_bit d s) (Z.to_nat (s_size s) - 1)) as R'.
  replace (Z.of_nat (Z.to_nat (s_size s) - 1)) with (s_size s - 1) in * by lia.
  destruct (sig_bit d s (Z.to_nat (s_size s) - 1)); cbn [Z.b2z] in *; lia.
Qed.

Lemma convention_value_bits : forall N d s i, inside N s = true -> (i < Z.to_nat (s_size s))%nat ->
  Z.testbit (raw_z (convention_value d s)) (Z.of_nat i) = sig_bit d s i.
Proof.
  intros N d s i Hin Hi. apply inside_facts in Hin. destruct Hin as [H0 [H1 H2]].
  unfold convention_value, unsigned_value.
  destruct (s_float s); cbn [raw_z]; [apply bitsum_testbit; exact Hi|].
  destruct (s_signed s && sig_bit d s (Z.to_nat (s_size s) - 1)); [|apply bitsum_testbit; exact Hi].
  rewrite <- (Z.mod_pow2_bits_low _ (s_size s)) by lia.
  replace (bitsum (sig_bit d s) (Z.to_nat (s_size s)) - 2 ^ s_size s)
    with (bitsum (sig_bit d s) (Z.to_nat (s_size s)) + (-1) * 2 ^ s_size s) by lia.
  rewrite Z_mod_plus_full. rewrite Z.mod_pow2_bits_low by lia. apply bitsum_testbit; exact Hi.
Qed.
