(* C16, part 4a: the cells the two compress scans walk over, the scans, and one move. *)
From CM Require Import lib.Prelude model.Codec model.Layout proofs.Codec_encode_lib proofs.C16_layout.

(* ---------- the cells of layout_idx ---------- *)

Lemma in_combine_seq : forall A (l : list A) a k x,
  In (k, x) (combine (seq a (length l)) l) <-> (a <= k)%nat /\ nth_error l (k - a) = Some x.
Proof.
  induction l as [|y l IH]; intros a k x; cbn [length seq combine].
  - split; [intros []|]. intros [_ H]. destruct (k - a)%nat; discriminate.
  - cbn [In]. rewrite IH. split.
    + intros [E|[H1 H2]].
      * inversion E; subst. split; [lia|]. rewrite Nat.sub_diag. reflexivity.
      * split; [lia|]. replace (k - a)%nat with (S (k - S a)) by lia. exact H2.
    + intros [H1 H2]. destruct (Nat.eq_dec k a) as [E|E].
      * left. subst. rewrite Nat.sub_diag in H2. cbn in H2. inversion H2. reflexivity.
      * right. split; [lia|]. replace (k - a)%nat with (S (k - S a)) in H2 by lia. exact H2.
Qed.

(* cells in walking order: cell n lists the (indices of the) signals whose interval contains n *)
Definition cells_ok (sigs : list signal) (W : Z) (cells : list (list nat)) : Prop :=
  zlen cells = W /\
  forall n k, 0 <= n < W ->
    (In k (nth (Z.to_nat n) cells []) <-> exists s, nth_error sigs k = Some s /\ wocc s n = true).

Lemma layout_idx_spec : forall f sigs,
  0 <= f -> Forall (fun s => inside0 (8 * f) s = true) sigs ->
  zlen (layout_idx f sigs) = 8 * f /\
  forall p k, 0 <= p < 8 * f ->
    (In k (nth (Z.to_nat p) (layout_idx f sigs) []) <-> exists s, nth_error sigs k = Some s /\ occz s p = true).
Proof.
  intros f sigs Hf Hin. unfold layout_idx.
  assert (Hit : Forall (fun it : nat * signal => inside0 (8 * f) (snd it) = true) (combine (seq 0 (length sigs)) sigs)).
  { apply Forall_forall. intros [k s] H. apply in_combine_r in H. rewrite Forall_forall in Hin. apply Hin. exact H. }
  destruct (layout_of_spec _ f _ Hf Hit) as [L S]. split; [exact L|].
  intros p k Hp. change (nth (Z.to_nat p) ?l []) with (znth l p []). rewrite S by exact Hp.
  rewrite in_cell_of. split.
  - intros [s [H1 H2]]. apply in_combine_seq in H1. destruct H1 as [_ H1]. rewrite Nat.sub_0_r in H1. exists s. split; assumption.
  - intros [s [H1 H2]]. exists s. split; [|exact H2]. apply in_combine_seq. split; [lia|]. rewrite Nat.sub_0_r. exact H1.
Qed.

Lemma cells_ok_big : forall f sigs,
  0 <= f -> Forall (fun s => inside0 (8 * f) s = true) sigs -> Forall (fun s => s_le s = false) sigs ->
  cells_ok sigs (8 * f) (layout_idx f sigs).
Proof.
  intros f sigs Hf Hin Hbe. destruct (layout_idx_spec f sigs Hf Hin) as [L S]. split; [exact L|].
  intros n k Hn. rewrite (S n k Hn). rewrite Forall_forall in Hbe.
  split; intros [s [H1 H2]]; exists s; (split; [exact H1|]);
    pose proof (Hbe s (nth_error_In _ _ H1)) as E; unfold occz, walk_pos in *; rewrite E in *; exact H2.
Qed.

(* the order in which _compress_little visits the bits *)
Definition lo (nb : nat) : list Z :=
  flat_map (fun byte => map (fun bit => Z.of_nat byte * 8 + bit) [7; 6; 5; 4; 3; 2; 1; 0]) (seq 0 nb).

Lemma little_order_lo : forall z, little_order z = lo (Z.to_nat z).
Proof. reflexivity. Qed.

Lemma lo_S : forall nb, lo (S nb) = lo nb ++ map (fun bit => Z.of_nat nb * 8 + bit) [7; 6; 5; 4; 3; 2; 1; 0].
Proof.
  intros nb. unfold lo. rewrite seq_S, flat_map_app. cbn [flat_map Nat.add]. rewrite app_nil_r. reflexivity.
Qed.

Lemma lo_spec : forall nb,
  zlen (lo nb) = 8 * Z.of_nat nb /\
  forall n, 0 <= n < 8 * Z.of_nat nb -> znth (lo nb) n 0 = 8 * (n / 8) + (7 - n mod 8).
Proof.
  induction nb as [|nb [IL IN]].
  - split; [reflexivity|]. intros n Hn. lia.
  - rewrite lo_S. split.
    + rewrite zlen_app, IL. unfold zlen. cbn [map length]. lia.
    + intros n Hn. destruct (Z.ltb_spec n (8 * Z.of_nat nb)) as [H|H].
      * rewrite znth_app1 by lia. apply IN. lia.
      * rewrite znth_app2 by lia. rewrite IL. unfold znth. cbn [map].
        destruct (Z.to_nat (n - 8 * Z.of_nat nb)) as [|[|[|[|[|[|[|[|j]]]]]]]] eqn:Ej; cbn [nth]; lia.
Qed.

Lemma cells_ok_little : forall f sigs,
  0 <= f -> Forall (fun s => inside0 (8 * f) s = true) sigs -> Forall (fun s => s_le s = true) sigs ->
  cells_ok sigs (8 * f) (visit_little (layout_idx f sigs)).
Proof.
  intros f sigs Hf Hin Hle. destruct (layout_idx_spec f sigs Hf Hin) as [L S].
  unfold visit_little. rewrite L. replace (8 * f / 8) with f by lia. rewrite little_order_lo.
  destruct (lo_spec (Z.to_nat f)) as [LL LN]. rewrite Z2Nat.id in LL, LN by lia.
  split.
  - rewrite zlen_map. exact LL.
  - intros n k Hn. change (nth (Z.to_nat n) ?l []) with (znth l n []).
    rewrite (znth_map _ _ _ _ _ 0) by lia. rewrite LN by exact Hn.
    assert (Hr : 0 <= 8 * (n / 8) + (7 - n mod 8) < 8 * f) by lia.
    rewrite (S _ k Hr). rewrite Forall_forall in Hle.
    split; intros [s [H1 H2]]; exists s; (split; [exact H1|]);
      pose proof (Hle s (nth_error_In _ _ H1)) as E; unfold occz in *; rewrite E in *;
      change (8 * (n / 8) + (7 - n mod 8)) with (walk_pos true n) in *; rewrite walk_pos_invol in *; exact H2.
Qed.

(* ---------- the scans ---------- *)

(* what both scans compute: the first free cell n0, the first used cell n1 after it, the first signal there *)
Fixpoint scan3 (cells : list (list nat)) (i : Z) (free : option Z) : option (Z * Z * nat) :=
  match cells with
  | [] => None
  | c :: r =>
      match c with
      | [] => scan3 r (i + 1) (match free with None => Some i | Some _ => free end)
      | k :: _ =>
          match free with
          | Some f0 => Some (f0, i, k)
          | None => scan3 r (i + 1) None
          end
      end
  end.

Lemma big_scan3 : forall cells i free,
  find_move_big cells i free = option_map (fun t => (fst (fst t), snd t)) (scan3 cells i free).
Proof.
  induction cells as [|c r IH]; intros i free; cbn [find_move_big scan3]; [reflexivity|].
  destruct c as [|k rest].
  - apply IH.
  - destruct free as [f0|]; [reflexivity|apply IH].
Qed.

Lemma little_scan3 : forall cells i free,
  find_move_little cells (option_map (fun f0 => i - f0) free) =
    option_map (fun t => (snd (fst t) - fst (fst t), snd t)) (scan3 cells i free).
Proof.
  induction cells as [|c r IH]; intros i free; cbn [find_move_little scan3]; [reflexivity|].
  destruct c as [|k rest].
  - destruct free as [f0|]; cbn [option_map].
    + rewrite <- (IH (i + 1) (Some f0)). cbn [option_map]. do 2 f_equal. lia.
    + rewrite <- (IH (i + 1) (Some i)). cbn [option_map]. do 2 f_equal. lia.
  - destruct free as [f0|]; cbn [option_map]; [reflexivity|]. apply (IH (i + 1) None).
Qed.

Lemma scan3_some : forall cells i free (cf : Z -> list nat) n0 n1 k,
  (forall j, (j < length cells)%nat -> nth j cells [] = cf (i + Z.of_nat j)) ->
  scan3 cells i free = Some (n0, n1, k) ->
  (forall f0, free = Some f0 -> n0 = f0) /\
  (free = None -> i <= n0 < n1 /\ cf n0 = []) /\
  i <= n1 < i + zlen cells /\
  (exists rest, cf n1 = k :: rest) /\
  (forall n, i <= n < n1 -> n0 <= n -> cf n = []).
Proof.
  induction cells as [|c r IH]; intros i free cf n0 n1 k Hcf Hs; cbn [scan3] in Hs; [discriminate|].
  assert (Hc : c = cf i).
  { specialize (Hcf 0%nat). cbn [length nth] in Hcf. rewrite Hcf by lia. f_equal. lia. }
  assert (Hr : forall j, (j < length r)%nat -> nth j r [] = cf (i + 1 + Z.of_nat j)).
  { intros j Hj. specialize (Hcf (S j)). cbn [length nth] in Hcf. rewrite Hcf by lia. f_equal. lia. }
  rewrite zlen_cons. pose proof (zlen_nonneg _ r) as Hzr.
  destruct c as [|k0 rest].
  - destruct free as [f0|].
    + destruct (IH _ _ cf _ _ _ Hr Hs) as [I1 [I2 [I3 [I4 I5]]]].
      split; [intros f1 E; inversion E; subst; apply I1; reflexivity|].
      split; [intros E; discriminate|]. split; [lia|]. split; [exact I4|].
      intros n Hn1 Hn2. destruct (Z.eq_dec n i) as [E|E]; [subst n; symmetry; exact Hc|]. apply I5; lia.
    + destruct (IH _ _ cf _ _ _ Hr Hs) as [I1 [I2 [I3 [I4 I5]]]].
      pose proof (I1 i eq_refl) as E0. subst n0.
      split; [intros f1 E; discriminate|].
      split; [intros _; split; [lia|symmetry; exact Hc]|]. split; [lia|]. split; [exact I4|].
      intros n Hn1 Hn2. destruct (Z.eq_dec n i) as [E|E]; [subst n; symmetry; exact Hc|]. apply I5; lia.
  - destruct free as [f0|].
    + inversion Hs; subst.
      split; [intros f1 E; inversion E; reflexivity|]. split; [intros E; discriminate|]. split; [lia|].
      split; [exists rest; symmetry; exact Hc|]. intros n Hn1 Hn2. lia.
    + destruct (IH _ _ cf _ _ _ Hr Hs) as [I1 [I2 [I3 [I4 I5]]]].
      destruct (I2 eq_refl) as [I21 I22].
      split; [intros f1 E; discriminate|]. split; [intros _; split; [lia|exact I22]|]. split; [lia|].
      split; [exact I4|]. intros n Hn1 Hn2. apply I5; lia.
Qed.

Lemma scan3_none : forall cells i (cf : Z -> list nat),
  (forall j, (j < length cells)%nat -> nth j cells [] = cf (i + Z.of_nat j)) ->
  (forall f0, scan3 cells i (Some f0) = None -> forall n, i <= n < i + zlen cells -> cf n = []) /\
  (scan3 cells i None = None -> forall a b, i <= a < b -> b < i + zlen cells -> cf a = [] -> cf b = []).
Proof.
  induction cells as [|c r IH]; intros i cf Hcf.
  - unfold zlen. cbn [length]. split; intros; lia.
  - assert (Hc : c = cf i).
    { specialize (Hcf 0%nat). cbn [length nth] in Hcf. rewrite Hcf by lia. f_equal. lia. }
    assert (Hr : forall j, (j < length r)%nat -> nth j r [] = cf (i + 1 + Z.of_nat j)).
    { intros j Hj. specialize (Hcf (S j)). cbn [length nth] in Hcf. rewrite Hcf by lia. f_equal. lia. }
    rewrite zlen_cons. destruct (IH (i + 1) cf Hr) as [I1 I2]. cbn [scan3]. destruct c as [|k0 rest].
    + split.
      * intros f0 Hs n Hn. destruct (Z.eq_dec n i) as [E|E]; [subst n; symmetry; exact Hc|]. apply (I1 f0 Hs). lia.
      * intros Hs a b Hab Hb Ha. apply (I1 i Hs). lia.
    + split.
      * intros f0 Hs. discriminate.
      * intros Hs a b Hab Hb Ha. destruct (Z.eq_dec a i) as [E|E]; [subst a; rewrite <- Hc in Ha; discriminate|].
        apply (I2 Hs a b); try lia. exact Ha.
Qed.

(* ---------- one move ---------- *)

Definition sum_starts (sigs : list signal) : Z := fold_right (fun s a => s_start s + a) 0 sigs.
Definition wcount (sigs : list signal) (n : Z) : nat := length (filter (fun s => wocc s n) sigs).
Definition used_at (sigs : list signal) (n : Z) : Prop := exists t, In t sigs /\ wocc t n = true.

(* sigs' is sigs with one signal moved from n1 down to the start n0 of the free stretch [n0, n1) *)
Definition moved (sigs sigs' : list signal) : Prop :=
  exists l1 s l2 n0 n1,
    sigs = l1 ++ s :: l2 /\ sigs' = l1 ++ set_start s n0 :: l2 /\
    0 <= n0 < n1 /\ s_start s = n1 /\ 1 <= s_size s /\
    forall t n, In t sigs -> n0 <= n < n1 -> wocc t n = false.

Definition no_gap (W : Z) (sigs : list signal) : Prop :=
  forall a b, 0 <= a < b -> b < W -> used_at sigs b -> used_at sigs a.

Lemma update_start_app : forall l1 s l2 g,
  update_start (length l1) g (l1 ++ s :: l2) = l1 ++ set_start s (g (s_start s)) :: l2.
Proof. induction l1 as [|x l1 IH]; intros; cbn [length app update_start]; [reflexivity|]. rewrite IH. reflexivity. Qed.

Lemma cells_used : forall sigs W cells n, cells_ok sigs W cells -> 0 <= n < W ->
  (nth (Z.to_nat n) cells [] = [] <-> ~ used_at sigs n).
Proof.
  intros sigs W cells n [_ C] Hn. split.
  - intros E [t [Ht Ho]]. apply In_nth_error in Ht. destruct Ht as [k Hk].
    assert (In k (nth (Z.to_nat n) cells [])) by (apply C; [exact Hn|exists t; split; assumption]).
    rewrite E in H. exact H.
  - intros H. destruct (nth (Z.to_nat n) cells []) as [|k rest] eqn:E; [reflexivity|]. exfalso. apply H.
    assert (Hk : In k (nth (Z.to_nat n) cells [])) by (rewrite E; left; reflexivity).
    apply C in Hk; [|exact Hn]. destruct Hk as [s [H1 H2]]. exists s. split; [apply (nth_error_In _ _ H1)|exact H2].
Qed.

(* what a successful scan means for the signal list *)
Lemma scan_moves : forall sigs W cells n0 n1 k (g : Z -> Z),
  cells_ok sigs W cells -> Forall (fun s => inside0 W s = true) sigs ->
  scan3 cells 0 None = Some (n0, n1, k) ->
  (forall s, nth_error sigs k = Some s -> s_start s = n1 -> g (s_start s) = n0) ->
  moved sigs (update_start k g sigs).
Proof.
  intros sigs W cells n0 n1 k g Hok Hin Hs Hg.
  set (cf := fun n => nth (Z.to_nat n) cells []).
  assert (Hcf : forall j, (j < length cells)%nat -> nth j cells [] = cf (0 + Z.of_nat j)).
  { intros j Hj. unfold cf. cbn [Z.add]. rewrite Nat2Z.id. reflexivity. }
  destruct (scan3_some cells 0 None cf n0 n1 k Hcf Hs) as [_ [S2 [S3 [[rest S4] S5]]]].
  destruct (S2 eq_refl) as [S21 S22]. destruct Hok as [HW C]. rewrite HW in S3.
  assert (Hk : In k (nth (Z.to_nat n1) cells [])) by (unfold cf in S4; rewrite S4; left; reflexivity).
  apply C in Hk; [|lia]. destruct Hk as [s [Hks Hoc]].
  assert (Hfree : forall t n, In t sigs -> n0 <= n < n1 -> wocc t n = false).
  { intros t n Ht Hn. destruct (wocc t n) eqn:E; [|reflexivity]. exfalso.
    assert (Hc : cf n = []) by (apply S5; lia).
    apply (proj1 (cells_used sigs W cells n (conj HW C) ltac:(lia))) in Hc. apply Hc. exists t. split; assumption. }
  assert (Hst : s_start s = n1 /\ 1 <= s_size s).
  { pose proof (Hfree s (n1 - 1) (nth_error_In _ _ Hks) ltac:(lia)) as F. unfold wocc in Hoc, F. lia. }
  destruct Hst as [Hst Hsz].
  destruct (nth_error_split _ _ Hks) as [l1 [l2 [E1 E2]]].
  exists l1, s, l2, n0, n1. split; [exact E1|]. split.
  - rewrite E1, <- E2. rewrite update_start_app. rewrite (Hg s Hks Hst). reflexivity.
  - split; [lia|]. split; [exact Hst|]. split; [exact Hsz|exact Hfree].
Qed.

Lemma scan_final : forall sigs W cells,
  cells_ok sigs W cells -> scan3 cells 0 None = None -> no_gap W sigs.
Proof.
  intros sigs W cells Hok Hs a b Hab Hb Hub.
  set (cf := fun n => nth (Z.to_nat n) cells []).
  assert (Hcf : forall j, (j < length cells)%nat -> nth j cells [] = cf (0 + Z.of_nat j)).
  { intros j Hj. unfold cf. cbn [Z.add]. rewrite Nat2Z.id. reflexivity. }
  destruct (scan3_none cells 0 cf Hcf) as [_ N]. pose proof (proj1 Hok) as HW.
  assert (D : used_at sigs a \/ ~ used_at sigs a).
  { destruct (nth (Z.to_nat a) cells []) eqn:E.
    - right. apply (cells_used sigs W cells a Hok); [lia|exact E].
    - left. destruct (cells_used sigs W cells a Hok ltac:(lia)) as [_ U].
      destruct (existsb (fun t => wocc t a) sigs) eqn:Ex.
      + apply existsb_exists in Ex. exact Ex.
      + exfalso. assert (nth (Z.to_nat a) cells [] = []); [|congruence]. apply U. intros [t [T1 T2]].
        assert (existsb (fun t => wocc t a) sigs = true) by (apply existsb_exists; exists t; split; assumption). congruence. }
  destruct D as [D|D]; [exact D|]. exfalso.
  apply (cells_used sigs W cells a Hok ltac:(lia)) in D.
  assert (cf b = []) by (apply (N Hs a b); try lia; exact D).
  apply (proj1 (cells_used sigs W cells b Hok ltac:(lia))) in H. apply H. exact Hub.
Qed.
