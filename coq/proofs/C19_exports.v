(* Proofs about model/Exports.v referred to by props/C19.v. *)
From CM Require Import lib.Prelude model.Startbit model.Codec model.Exports
  proofs.Startbit_proofs proofs.Codec_lib proofs.Codec_decode.

(* ---------- index lists ---------- *)

Lemma in_msf : forall n j, In j (msf n) -> 0 <= j < n.
Proof.
  intros n j H. unfold msf in H. apply in_map_iff in H. destruct H as [k [<- Hk]].
  apply in_seq in Hk. lia.
Qed.

Lemma msf_map_ext : forall n (f g : Z -> Z),
  (forall j, 0 <= j < n -> f j = g j) -> map f (msf n) = map g (msf n).
Proof. intros n f g H. apply map_ext_in. intros j Hj. apply H. now apply in_msf. Qed.

Lemma msf_length : forall n, length (msf n) = Z.to_nat n.
Proof. intros n. unfold msf. now rewrite map_length, seq_length. Qed.

(* the signal's bit of index j from the top, in closed form *)
Lemma spec_pos_closed : forall s j, 0 <= j < s_size s ->
  pos_of s (Z.to_nat (s_size s - 1 - j)) =
  if s_le s then flip (s_start s + (s_size s - 1 - j)) else s_start s + j.
Proof.
  intros s j Hj. unfold pos_of. rewrite Z2Nat.id by lia.
  destruct (s_le s); unfold flip; lia.
Qed.

(* ---------- get_startbit in the notations the writers use ---------- *)

Lemma gsb_1_false : forall le size i,
  get_startbit le size i (Some 1) false = if le then i else flip i.
Proof. intros [] size i; reflexivity. Qed.
Lemma gsb_1_true : forall le size i,
  get_startbit le size i (Some 1) true = if le then i else flip (i + size - 1).
Proof. intros [] size i; reflexivity. Qed.
Lemma gsb_none_false : forall le size i, get_startbit le size i None false = i.
Proof. intros [] size i; reflexivity. Qed.

(* ---------- Scapy ---------- *)

Lemma scapy_selects : forall s, scapy_positions (scapy_emit s) = spec_positions s.
Proof.
  intros s. unfold scapy_positions, spec_positions, scapy_emit. cbn [sf_start sf_size sf_big].
  apply msf_map_ext. intros j Hj. rewrite spec_pos_closed by assumption. rewrite gsb_1_false.
  destruct (s_le s); cbn [negb].
  - f_equal. lia.
  - now rewrite flip_flip.
Qed.

Lemma scapy_records : forall s,
  sf_size (scapy_emit s) = s_size s /\
  scapy_reads_fmt (scapy_emit s) = (s_le s, s_signed s && negb (s_float s), s_float s).
Proof.
  intros s. split; [reflexivity|]. unfold scapy_reads_fmt, scapy_emit. cbn [sf_big sf_type].
  rewrite negb_involutive. destruct (s_float s), (s_signed s); reflexivity.
Qed.

(* ---------- Wireshark ---------- *)

Lemma ws_rev_pos : forall dlc m,
  let q := 8 * dlc - 1 - m in 8 * (dlc - 1 - q / 8) + q mod 8 = flip m.
Proof. intros dlc m q. subst q. unfold flip. lia. Qed.

Lemma ws_selects : forall fsize s, ws_positions fsize (ws_emit fsize s) = spec_positions s.
Proof.
  intros fsize s. unfold ws_positions, spec_positions, ws_emit, ws_offset. cbn [wf_rev wf_off wf_len].
  apply msf_map_ext. intros j Hj. rewrite spec_pos_closed by assumption.
  destruct (s_le s).
  - cbv zeta.
    replace (fsize * 8 - s_start s - s_size s + j) with (8 * fsize - 1 - (s_start s + (s_size s - 1 - j))) by lia.
    apply ws_rev_pos.
  - reflexivity.
Qed.

Lemma ws_records : forall fsize s,
  wf_len (ws_emit fsize s) = s_size s /\ wf_rev (ws_emit fsize s) = s_le s /\
  wf_fix (ws_emit fsize s) =
    if s_signed s && negb (s_float s) then Some (wf_off (ws_emit fsize s), 2 ^ s_size s) else None.
Proof.
  intros fsize s. unfold ws_emit. cbn [wf_len wf_rev wf_fix wf_off].
  repeat split. destruct (s_signed s && negb (s_float s)); [|reflexivity].
  now rewrite Z.shiftl_1_l.
Qed.

(* the sign fix-up on any non-empty bit string is the two's complement reading *)
Lemma sign_fixup : forall bits, bits <> [] ->
  let n := zlen bits in
  let u := bin_value bits in
  let v := if hd false bits then u - 2 ^ n else u in
  - 2 ^ (n - 1) <= v < 2 ^ (n - 1) /\ v mod 2 ^ n = u.
Proof.
  intros bits Hne. destruct bits as [|top rest]; [congruence|]. cbv zeta. cbn [hd].
  rewrite bin_value_cons.
  assert (Hn : zlen (top :: rest) = zlen rest + 1) by (unfold zlen; cbn [length]; lia).
  rewrite Hn. replace (zlen rest + 1 - 1) with (zlen rest) by lia.
  pose proof (bin_value_bounds rest) as Hb.
  assert (Hr : 0 <= zlen rest) by (unfold zlen; lia).
  rewrite Z.pow_add_r by lia. change (2 ^ 1) with 2.
  set (P := 2 ^ zlen rest) in *. set (r := bin_value rest) in *.
  assert (HP : 0 < P) by (subst P; apply Z.pow_pos_nonneg; lia).
  destruct top; cbn [Z.b2z].
  - split; [lia|].
    replace (1 * P + r - P * 2) with (1 * P + r + (-1) * (P * 2)) by lia.
    rewrite Z.mod_add by lia. apply Z.mod_small. lia.
  - split; [lia|]. apply Z.mod_small. lia.
Qed.

(* first element of a slice is the one-element slice at its start *)
Lemma py_slice_one : forall (l : list bool) a b, 0 <= a -> a < b -> b <= zlen l ->
  py_slice l a (a + 1) = [hd false (py_slice l a b)].
Proof.
  intros l a b Ha Hab Hb.
  assert (L1 : length (py_slice l a (a + 1)) = 1%nat)
    by (rewrite py_slice_length by lia; replace (a + 1 - a) with 1 by lia; reflexivity).
  assert (L2 : (0 < length (py_slice l a b))%nat) by (rewrite py_slice_length by lia; lia).
  destruct (py_slice l a (a + 1)) as [|x [|y t]] eqn:E1; cbn [length] in L1; try lia.
  destruct (py_slice l a b) as [|z t] eqn:E2; cbn [length] in L2; try lia.
  cbn [hd]. f_equal.
  assert (N1 : nth 0 (py_slice l a (a + 1)) false = nth (Z.to_nat a + 0) l false)
    by (apply py_slice_nth; lia).
  assert (N2 : nth 0 (py_slice l a b) false = nth (Z.to_nat a + 0) l false)
    by (apply py_slice_nth; lia).
  rewrite E1 in N1. rewrite E2 in N2. cbn [nth] in N1, N2. congruence.
Qed.

Lemma bin_value_single : forall b, bin_value [b] = Z.b2z b.
Proof. intros []; reflexivity. Qed.

Lemma ws_reads : forall d s v,
  inside (8 * zlen d) s = true -> s_float s = false ->
  convention_value d s = RInt v ->
  ws_read d (ws_emit (zlen d) s) = Some v.
Proof.
  intros d s v Hin Hfl Hv.
  assert (Hok : float_ok s) by (unfold float_ok; congruence).
  pose proof (decode_is_convention_value d s Hin Hok) as Hdec.
  pose proof (signal_bits_length d s Hin) as Hlen.
  pose proof (inside_spec _ _ Hin) as [H0 [H1 H2]].
  unfold decode_signal, unpack_bitstring in Hdec. rewrite Hfl in Hdec.
  unfold ws_read, ws_emit, ws_offset. cbn [wf_rev wf_off wf_len wf_fix].
  rewrite Hfl, andb_true_r.
  (* the range and the slice are the codec's *)
  assert (Hbits : signal_bits s (big d) (little d) (8 * zlen d) =
                  py_slice (if s_le s then little d else big d)
                           (if s_le s then zlen d * 8 - s_start s - s_size s else s_start s)
                           ((if s_le s then zlen d * 8 - s_start s - s_size s else s_start s) + s_size s)).
  { unfold signal_bits. destruct (s_le s); f_equal; lia. }
  set (range := if s_le s then little d else big d) in *.
  set (off := if s_le s then zlen d * 8 - s_start s - s_size s else s_start s) in *.
  assert (Hzr : zlen range = 8 * zlen d) by (subst range; destruct (s_le s); [apply zlen_little | apply zlen_big]).
  assert (Hoff : 0 <= off /\ off + s_size s <= 8 * zlen d) by (subst off; destruct (s_le s); lia).
  unfold ws_bitfield. rewrite Hzr.
  assert (Hc1 : (0 <=? off) && (1 <=? s_size s) && (off + s_size s <=? 8 * zlen d) = true) by lia.
  assert (Hc2 : (0 <=? off) && (1 <=? 1) && (off + 1 <=? 8 * zlen d) = true) by lia.
  rewrite Hc1.
  rewrite <- Hbits. set (bits := signal_bits s (big d) (little d) (8 * zlen d)) in *.
  destruct bits as [|top rest] eqn:Eb; [cbn [length] in Hlen; lia|].
  assert (Hz : zlen (top :: rest) = s_size s) by (unfold zlen; rewrite Hlen; lia).
  rewrite Hz in Hdec.
  assert (Hone : py_slice range off (off + 1) = [top]).
  { rewrite (py_slice_one range off (off + s_size s)) by lia. rewrite <- Hbits. reflexivity. }
  rewrite Hv in Hdec. inversion Hdec as [Hval]. clear Hdec.
  destruct (s_signed s); cbn [andb] in *.
  - rewrite Hc2, Hone, bin_value_single, Z.shiftl_1_l. destruct top; cbn [Z.b2z Z.eqb]; reflexivity.
  - reflexivity.
Qed.

(* ---------- FIBEX ---------- *)

Lemma fibex_selects : forall s, fibex_positions (fibex_emit s) = spec_positions s.
Proof.
  intros s. unfold fibex_positions, spec_positions, fibex_emit. cbn [fx_pos fx_hilo fx_len].
  apply msf_map_ext. intros j Hj. rewrite spec_pos_closed by assumption. rewrite gsb_1_false.
  destruct (s_le s); cbn [negb].
  - f_equal. lia.
  - now rewrite flip_flip.
Qed.

Lemma fibex_records : forall s, 1 <= s_size s <= 64 ->
  fx_len (fibex_emit s) = s_size s /\ fx_hilo (fibex_emit s) = negb (s_le s) /\
  fibex_reads_type (fibex_emit s) = (s_signed s && negb (s_float s), s_float s) /\
  s_size s <= fx_width (fibex_emit s).
Proof.
  intros s Hs. unfold fibex_emit, fibex_reads_type, fibex_base_type.
  cbn [fx_len fx_hilo fx_kind fx_width].
  repeat split; destruct (s_float s), (s_signed s); cbn [fst snd andb negb];
    repeat (case_if; cbn [fst snd]); try reflexivity; try lia.
Qed.

(* multiplexed frames: the frame numbers written into a PDU placed at segment position p select the signal's
   bits exactly when p = 0 *)
Lemma flip_inj : forall a b, flip a = flip b -> a = b.
Proof. intros a b H. rewrite <- (flip_flip a), <- (flip_flip b). now rewrite H. Qed.

Lemma map_eq_at : forall (f g : Z -> Z) l x, map f l = map g l -> In x l -> f x = g x.
Proof.
  induction l as [|y l IH]; intros x H Hin; [destruct Hin|].
  cbn [map] in H. inversion H. destruct Hin as [->|Hin]; [assumption|now apply IH].
Qed.

Lemma in_msf_0 : forall n, 1 <= n -> In 0 (msf n).
Proof. intros n Hn. unfold msf. apply in_map_iff. exists 0%nat. split; [reflexivity|]. apply in_seq. lia. Qed.

Lemma fibex_segment_iff : forall p s, 1 <= s_size s ->
  (fibex_positions (fibex_in_frame p (fibex_emit s)) = spec_positions s <-> p = 0).
Proof.
  intros p s Hs. split.
  - intros H. rewrite <- fibex_selects in H. unfold fibex_positions, fibex_in_frame, fibex_emit in H.
    cbn [fx_pos fx_hilo fx_len] in H.
    apply (fun E => map_eq_at _ _ _ 0 E (in_msf_0 _ Hs)) in H. cbv beta in H.
    destruct (negb (s_le s)).
    + assert (E : flip (p + get_startbit (s_le s) (s_size s) (s_start s) (Some 1) false)
                  = flip (get_startbit (s_le s) (s_size s) (s_start s) (Some 1) false)) by lia.
      apply flip_inj in E. lia.
    + apply flip_inj in H. lia.
  - intros ->. rewrite <- fibex_selects. unfold fibex_in_frame. destruct (fibex_emit s); reflexivity.
Qed.

Lemma fibex_mux_partial : forall sigs s, fst (seg_range (-1, -1) sigs) = 0 ->
  fibex_positions (fibex_in_frame (fst (seg_range (-1, -1) sigs)) (fibex_emit s)) = spec_positions s.
Proof.
  intros sigs s ->. rewrite <- fibex_selects. unfold fibex_in_frame. destruct (fibex_emit s); reflexivity.
Qed.

(* ---------- CSV ---------- *)

Lemma csv_cells_start : forall opt s, 0 <= csv_start opt s ->
  8 * (cv_byte (csv_emit opt s) - 1) + cv_bit (csv_emit opt s) = csv_start opt s.
Proof.
  intros opt s H. unfold csv_emit. cbn [cv_byte cv_bit].
  rewrite Z.quot_div_nonneg by lia. lia.
Qed.

Lemma flip_nonneg : forall b, 0 <= b -> 0 <= flip b.
Proof. intros b H. unfold flip. lia. Qed.

Lemma csv_start_nonneg : forall opt s, 0 <= s_start s -> 1 <= s_size s -> 0 <= csv_start opt s.
Proof.
  intros opt s H0 H1. unfold csv_start.
  repeat case_if; rewrite ?gsb_1_false, ?gsb_1_true, ?gsb_none_false; destruct (s_le s);
    try apply flip_nonneg; lia.
Qed.

Lemma csv_selects : forall opt s, 0 <= s_start s -> 1 <= s_size s ->
  csv_positions opt (csv_emit opt s) = spec_positions s.
Proof.
  intros opt s H0 H1. unfold csv_positions. cbv zeta.
  rewrite csv_cells_start by (apply csv_start_nonneg; assumption).
  unfold spec_positions, csv_emit. cbn [cv_len cv_motorola].
  apply msf_map_ext. intros j Hj. rewrite spec_pos_closed by assumption.
  unfold csv_start.
  destruct (opt =? 0); [|destruct (opt =? 1)];
    rewrite ?gsb_1_false, ?gsb_1_true, ?gsb_none_false; destruct (s_le s); cbn [negb];
    rewrite ?flip_flip; try lia; f_equal; lia.
Qed.

Lemma csv_records : forall opt s,
  cv_len (csv_emit opt s) = s_size s /\ cv_motorola (csv_emit opt s) = negb (s_le s) /\
  cv_signed (csv_emit opt s) = s_signed s.
Proof. intros opt s. repeat split. Qed.

(* ---------- Canard ---------- *)

Lemma canard_selects : forall s, s_le s = true \/ one_byte s = true ->
  canard_positions (canard_key s) (s_size s) = spec_positions s.
Proof.
  intros s H. unfold canard_positions, spec_positions, canard_key.
  apply msf_map_ext. intros j Hj. rewrite spec_pos_closed by assumption. rewrite gsb_1_true.
  destruct (s_le s) eqn:El.
  - f_equal. lia.
  - destruct H as [H|H]; [discriminate|]. unfold one_byte in H. unfold flip. lia.
Qed.
