(* C12: every copy operation is a sequence of (a) loops over the source's definitions of one category and (b) edits of the
   object lists.  What such sequences do to the target's definitions is proved once here. *)
From CM Require Import lib.Prelude model.CopyOps model.CopySpec proofs.Copy_lib proofs.Copy_focus proofs.Copy_frame.

Inductive steps (src : matrix) : matrix -> matrix -> Prop :=
| st_refl : forall t, steps src t t
| st_loop : forall o sk ef oattrs t t',
    steps src (loop o sk ef oattrs (get_defs (cat_of o) src) t) t' -> steps src t t'
| st_ecus : forall x t t', steps src (set_ecus x t) t' -> steps src t t'
| st_frames : forall x t t', steps src (set_frames x t) t' -> steps src t t'
| st_sigs : forall x t t', steps src (set_sigs x t) t' -> steps src t t'
| st_env : forall x t t', steps src (set_env x t) t' -> steps src t t'
| st_err : forall t t', steps src (set_err t) t' -> steps src t t'.

Lemma steps_trans : forall src t1 t2 t3, steps src t1 t2 -> steps src t2 t3 -> steps src t1 t3.
Proof.
  intros src t1 t2 t3 H12 H23. induction H12.
  - exact H23.
  - eapply st_loop. apply IHsteps. exact H23.
  - eapply st_ecus. apply IHsteps. exact H23.
  - eapply st_frames. apply IHsteps. exact H23.
  - eapply st_sigs. apply IHsteps. exact H23.
  - eapply st_env. apply IHsteps. exact H23.
  - eapply st_err. apply IHsteps. exact H23.
Qed.

Lemma steps_fold : forall {A} src (F : matrix -> A -> matrix) l t,
  (forall t x, steps src t (F t x)) -> steps src t (fold_left F l t).
Proof.
  intros A src F l. induction l as [|x r IH]; intros t H; simpl; [apply st_refl|].
  eapply steps_trans; [apply H|apply IH; exact H].
Qed.

(* ---- the operations are such sequences ---- *)
Lemma steps_one_loop : forall src o sk ef oattrs t, steps src t (loop o sk ef oattrs (get_defs (cat_of o) src) t).
Proof. intros. eapply st_loop. apply st_refl. Qed.

Lemma steps_copy_ecu_obj : forall e src t, steps src t (copy_ecu_obj e src t).
Proof.
  intros e src t. unfold copy_ecu_obj. destruct (ecu_by_name (e_name e) (m_ecus t)) eqn:E; [apply st_refl|].
  rewrite add_ecu_absent by exact E. eapply st_ecus.
  exact (steps_one_loop src (TEcu (e_name e)) true false (e_attrs e) _).
Qed.

Lemma steps_bring_ecu : forall n src t, steps src t (bring_ecu n src t).
Proof.
  intros n src t. unfold bring_ecu. destruct (ecu_by_name n (m_ecus src)); [|apply st_refl].
  destruct (ecu_by_name n (m_ecus t)); [apply st_refl|apply steps_copy_ecu_obj].
Qed.

Lemma steps_copy_frame_body : forall f src t, steps src t (copy_frame_body f src t).
Proof.
  intros f src t. rewrite copy_frame_body_eq. unfold frame_phase, add_frame.
  eapply st_frames.
  set (t0 := set_frames (m_frames t ++ [f]) t).
  apply steps_trans with (t2 := bring_all (frame_refs f) src t0).
  { unfold bring_all. apply steps_fold. intros t1 n. apply steps_bring_ecu. }
  set (t1 := bring_all (frame_refs f) src t0).
  apply steps_trans with (t2 := loop (TFrame (fid f)) true false (f_attrs f) (m_fdefs src) t1).
  { exact (steps_one_loop src (TFrame (fid f)) true false (f_attrs f) t1). }
  unfold sig_loops. apply steps_fold. intros t2 s.
  exact (steps_one_loop src (TSig (fid f) (s_name s)) true true (s_attrs s) t2).
Qed.

Lemma steps_copy_frame : forall id src t, steps src t (snd (copy_frame id src t)).
Proof.
  intros id src t. unfold copy_frame. destruct (frame_by_id id (m_frames src)) as [f|]; simpl.
  - destruct (frame_by_id (fid f) (m_frames t)); simpl; [apply st_refl|apply steps_copy_frame_body].
  - eapply st_err. apply st_refl.
Qed.

Lemma steps_copy_one_signal : forall s src t, steps src t (copy_one_signal s src t).
Proof.
  intros s src t. unfold copy_one_signal, add_signal. eapply st_sigs.
  exact (steps_one_loop src TLastFree false true (s_attrs s) _).
Qed.

Lemma steps_copy_signal : forall g src t, steps src t (copy_signal g src t).
Proof.
  intros g src t. unfold copy_signal. apply steps_fold. intros t0 f. apply steps_fold. intros t1 s.
  destruct (glob_match g (s_name s)); [apply steps_copy_one_signal|apply st_refl].
Qed.

Lemma steps_copy_ecu : forall g src t, steps src t (copy_ecu g src t).
Proof. intros g src t. unfold copy_ecu. apply steps_fold. intros t0 e. apply steps_copy_ecu_obj. Qed.

Lemma steps_copy_frames_where : forall p src t, steps src t (copy_frames_where p src t).
Proof.
  intros p src t. unfold copy_frames_where. apply steps_fold. intros t0 f.
  destruct (p f); [apply steps_copy_frame|apply st_refl].
Qed.

Lemma steps_add_ecu : forall src e t, steps src t (add_ecu e t).
Proof. intros src e t. unfold add_ecu. destruct (existsb _ _); [apply st_refl|eapply st_ecus; apply st_refl]. Qed.

Lemma steps_update_ecu_list : forall src t, steps src t (update_ecu_list t).
Proof.
  intros src t. unfold update_ecu_list. apply steps_fold. intros t0 f.
  set (t1 := fold_left (fun t n => add_ecu (blank_ecu n) t) (f_tx f) t0).
  apply steps_trans with (t2 := t1).
  - unfold t1. apply steps_fold. intros t2 n. apply steps_add_ecu.
  - apply steps_fold. intros t2 s. apply steps_fold. intros t3 n. apply steps_add_ecu.
Qed.

Lemma steps_del_ecu : forall src e t, steps src t (del_ecu e t).
Proof.
  intros src e t. unfold del_ecu. destruct (existsb _ _); [|apply st_refl].
  eapply st_ecus. eapply st_frames. apply st_refl.
Qed.

Lemma steps_direct_only : forall src w t, steps src t (direct_only w t).
Proof. intros src w t. unfold direct_only. apply steps_fold. intros t0 e. apply steps_del_ecu. Qed.

Lemma steps_copy_ecu_frames_one : forall rx tx src t e, steps src t (copy_ecu_frames_one rx tx src t e).
Proof.
  intros rx tx src t e. unfold copy_ecu_frames_one.
  set (ta := copy_ecu_obj e src t).
  set (tb := if tx then copy_frames_where (sends (e_name e)) src ta else ta).
  apply steps_trans with (t2 := ta); [apply steps_copy_ecu_obj|].
  apply steps_trans with (t2 := tb).
  - unfold tb. destruct tx; [apply steps_copy_frames_where|apply st_refl].
  - destruct rx; [apply steps_copy_frames_where|apply st_refl].
Qed.

Lemma steps_copy_ecu_with_frames : forall g rx tx d src t, steps src t (copy_ecu_with_frames g rx tx d src t).
Proof.
  intros g rx tx d src t. unfold copy_ecu_with_frames.
  set (t1 := fold_left (copy_ecu_frames_one rx tx src) (glob_ecus g src) t).
  apply steps_trans with (t2 := t1).
  { unfold t1. apply steps_fold. intros t0 e. apply steps_copy_ecu_frames_one. }
  apply steps_trans with (t2 := update_ecu_list t1); [apply steps_update_ecu_list|].
  destruct d; [apply steps_direct_only|apply st_refl].
Qed.

Lemma steps_merge_one : forall src t, steps src t (merge_one t src).
Proof.
  intros src t. unfold merge_one, merge_env.
  set (t1 := fold_left (fun t f => snd (copy_frame (fid f) src t)) (m_frames src) t).
  apply steps_trans with (t2 := t1).
  - unfold t1. apply steps_fold. intros t0 f. apply steps_copy_frame.
  - apply steps_fold. intros t0 kv. destruct (mem _ _); [apply st_refl|eapply st_env; apply st_refl].
Qed.

(* ---- what such sequences do to definitions ---- *)
Lemma dinfo_set_env : forall c a x t, dinfo c a (set_env x t) = dinfo c a t.
Proof. intros [] a x t; reflexivity. Qed.
Lemma dinfo_set_err : forall c a t, dinfo c a (set_err t) = dinfo c a t.
Proof. intros [] a t; reflexivity. Qed.
Lemma ns_ok_set_env : forall ns x t, ns_ok ns t -> ns_ok ns (set_env x t).
Proof. intros ns x t H c a Hm. apply H. destruct c; exact Hm. Qed.
Lemma ns_ok_set_err : forall ns t, ns_ok ns t -> ns_ok ns (set_err t).
Proof. intros ns t H c a Hm. apply H. destruct c; exact Hm. Qed.

(* under the namespace rule for source and target: the target's definitions are kept, the rule still holds *)
Lemma steps_ns : forall ns src t t', ns_ok ns src -> steps src t t' -> ns_ok ns t ->
  ns_ok ns t' /\ keeps_definitions t t'.
Proof.
  intros ns src t t' Hs H. induction H; intros Ht.
  - split; [exact Ht|apply keeps_definitions_refl].
  - destruct (loop_ns ns o sk ef oattrs (get_defs (cat_of o) src) t Ht (ns_ok_names_in ns src _ Hs)) as [H1 H2].
    destruct (IHsteps H1) as [H3 H4]. split; [exact H3|]. eapply keeps_definitions_trans; eassumption.
  - destruct (IHsteps (ns_ok_set_ecus ns x t Ht)) as [H3 H4]. split; [exact H3|].
    intros c a y Hy. apply H4. rewrite dinfo_set_ecus. exact Hy.
  - destruct (IHsteps (ns_ok_set_frames ns x t Ht)) as [H3 H4]. split; [exact H3|].
    intros c a y Hy. apply H4. rewrite dinfo_set_frames. exact Hy.
  - destruct (IHsteps (ns_ok_set_sigs ns x t Ht)) as [H3 H4]. split; [exact H3|].
    intros c a y Hy. apply H4. rewrite dinfo_set_sigs. exact Hy.
  - destruct (IHsteps (ns_ok_set_env ns x t Ht)) as [H3 H4]. split; [exact H3|].
    intros c a y Hy. apply H4. rewrite dinfo_set_env. exact Hy.
  - destruct (IHsteps (ns_ok_set_err ns t Ht)) as [H3 H4]. split; [exact H3|].
    intros c a y Hy. apply H4. rewrite dinfo_set_err. exact Hy.
Qed.

(* under the namespace rule for the source alone: a definition whose name the source has in that category is kept once it
   is there, and if it was not there before it is the source's *)
Lemma loop_src_define : forall ns src o sk ef oattrs t c a sd,
  ns_ok ns src -> NoDup (keys (get_defs (cat_of o) src)) -> lookup a (get_defs c src) = Some sd ->
  let t' := loop o sk ef oattrs (get_defs (cat_of o) src) t in
  (forall x, dinfo c a t = Some x -> dinfo c a t' = Some x) /\
  (dinfo c a t = None -> dinfo c a t' = None \/ dinfo c a t' = Some (dview sd)).
Proof.
  intros ns src o sk ef oattrs t c a sd Hs Hnd Hl t'.
  assert (Hns : ns a = c). { apply Hs. apply mem_true_iff. eauto. }
  destruct (cat_eq_dec c (cat_of o)) as [Hc|Hc].
  - split.
    + intros x Hx. apply loop_dinfo_keeps; [right; exact Hc|exact Hx].
    + intros Hno. clear Hns. subst c.
      (* split the loop at the round for a *)
      pose proof (lookup_in _ _ _ Hl) as Hin. apply in_split in Hin. destruct Hin as (l1 & l2 & Heq).
      unfold t'. clear t'. rewrite Heq in Hnd. rewrite Heq. rewrite keys_app in Hnd. simpl in Hnd.
      assert (Hn1 : ~ In a (keys l1)).
      { intros H. apply NoDup_remove_2 in Hnd. apply Hnd. apply in_or_app. left. exact H. }
      assert (Hn2 : ~ In a (keys l2)).
      { intros H. apply NoDup_remove_2 in Hnd. apply Hnd. apply in_or_app. right. exact H. }
      rewrite loop_app. change ((a, sd) :: l2) with ([(a, sd)] ++ l2). rewrite loop_app.
      rewrite loop_dinfo_other_key by exact Hn2.
      set (t1 := loop o sk ef oattrs l1 t).
      assert (H1 : dinfo (cat_of o) a t1 = None) by (unfold t1; rewrite loop_dinfo_other_key by exact Hn1; exact Hno).
      change (loop o sk ef oattrs [(a, sd)] t1) with (attr_step o sk ef oattrs t1 (a, sd)).
      destruct (sk && is_none (src_value oattrs (a, sd))) eqn:Esk.
      * left. unfold attr_step. unfold src_value in Esk. rewrite Esk. exact H1.
      * right. destruct (attr_step_defines o sk ef oattrs t1 (a, sd) Esk) as [_ Hnew]. apply Hnew.
        apply dinfo_none_mem. exact H1.
  - assert (Hn : ~ In a (keys (get_defs (cat_of o) src))).
    { intros Hin. apply Hc. rewrite <- Hns. apply Hs. apply mem_keys. exact Hin. }
    unfold t'. rewrite loop_dinfo_other_key by exact Hn. split; [auto|]. intros H; left; exact H.
Qed.

Definition src_define_ok (c : cat) (a : Z) (sd : define) (t t' : matrix) : Prop :=
  (forall x, dinfo c a t = Some x -> dinfo c a t' = Some x) /\
  (dinfo c a t = None -> dinfo c a t' = None \/ dinfo c a t' = Some (dview sd)).

Lemma src_define_ok_refl : forall c a sd t, src_define_ok c a sd t t.
Proof. intros. split; [auto|]. intros H; left; exact H. Qed.
Lemma src_define_ok_trans : forall c a sd t1 t2 t3,
  src_define_ok c a sd t1 t2 -> src_define_ok c a sd t2 t3 -> src_define_ok c a sd t1 t3.
Proof.
  intros c a sd t1 t2 t3 [A1 A2] [B1 B2]. split.
  - intros x Hx. apply B1. apply A1. exact Hx.
  - intros Hno. destruct (A2 Hno) as [H|H]; [apply B2; exact H|right; apply B1; exact H].
Qed.

Lemma steps_src_define : forall ns src t t' c a sd,
  ns_ok ns src -> dicts_ok src -> lookup a (get_defs c src) = Some sd -> steps src t t' -> src_define_ok c a sd t t'.
Proof.
  intros ns src t t' c a sd Hs (Hd1 & Hd2 & Hd3) Hl H. induction H.
  - apply src_define_ok_refl.
  - eapply src_define_ok_trans; [|exact IHsteps].
    assert (Hnd : NoDup (keys (get_defs (cat_of o) src))).
    { destruct o; simpl; assumption. }
    exact (loop_src_define ns src o sk ef oattrs t c a sd Hs Hnd Hl).
  - eapply src_define_ok_trans; [|exact IHsteps]. unfold src_define_ok. rewrite dinfo_set_ecus. apply src_define_ok_refl.
  - eapply src_define_ok_trans; [|exact IHsteps]. unfold src_define_ok. rewrite dinfo_set_frames. apply src_define_ok_refl.
  - eapply src_define_ok_trans; [|exact IHsteps]. unfold src_define_ok. rewrite dinfo_set_sigs. apply src_define_ok_refl.
  - eapply src_define_ok_trans; [|exact IHsteps]. unfold src_define_ok. rewrite dinfo_set_env. apply src_define_ok_refl.
  - eapply src_define_ok_trans; [|exact IHsteps]. unfold src_define_ok. rewrite dinfo_set_err. apply src_define_ok_refl.
Qed.
