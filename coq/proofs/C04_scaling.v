(* C04: raw2phys is exact and phys2raw inverts it inside the 28-digit envelope; factor converter; default limits. *)
From CM Require Import lib.Prelude model.Decimal model.DecimalSpec model.ValueTable model.Scaling
  proofs.C04_digits proofs.C04_fix proofs.C04_add proofs.C04_div.

Lemma p10_merge : forall x a b, 0 <= a -> 0 <= b -> x * 10 ^ a * 10 ^ b = x * 10 ^ (a + b).
Proof. intros. rewrite p10_add by lia. ring. Qed.

(* the structure of raw2phys' result inside the envelope *)
Lemma raw2phys_struct : forall f o raw, let e := Z.min (de f) (de o) in
  fits28 (raw * dm f) -> fits28 (raw * dnum f e + dnum o e) ->
  exists qv ev, raw2phys f o raw = mkDec qv ev /\ e <= ev /\
                qv * 10 ^ (ev - e) = raw * dnum f e + dnum o e /\ ndigits qv <= 28.
Proof.
  intros [mf ef] [mo eo] raw e H1 H2. cbn [dm de] in *. unfold dnum in *. cbn [dm de] in *.
  unfold raw2phys.
  destruct (dmul_fits (of_Z raw) (mkDec mf ef) H1) as [qp [kp [Hkp [Hp [Hqp Hnp]]]]].
  cbn [of_Z dm de] in Hp, Hqp. rewrite Hp. clear Hp.
  set (ep := 0 + ef + kp) in *.
  assert (Hee : e <= Z.min ep eo) by (unfold e, ep; lia).
  set (e1 := Z.min ep eo) in *.
  assert (Hsum : (qp * 10 ^ (ep - e1) + mo * 10 ^ (eo - e1)) * 10 ^ (e1 - e)
                 = raw * (mf * 10 ^ (ef - e)) + mo * 10 ^ (eo - e)).
  { rewrite Z.mul_add_distr_r. rewrite !p10_merge by (unfold e1, ep, e in *; lia).
    replace (ep - e1 + (e1 - e)) with (kp + (ef - e)) by (unfold ep; lia).
    replace (eo - e1 + (e1 - e)) with (eo - e) by lia.
    rewrite <- p10_merge by (unfold e; lia). rewrite Hqp. ring. }
  assert (Hf1 : fits28 (dnum (mkDec qp ep) e1 + dnum (mkDec mo eo) e1)).
  { unfold dnum. cbn [dm de]. apply (fits28_div_p10 _ (e1 - e)); [lia|]. rewrite Hsum. exact H2. }
  destruct (dadd_fits (mkDec qp ep) (mkDec mo eo) Hf1) as [qv [kv [Hkv [Hv [Hqv Hnv]]]]].
  cbn [dm de] in Hv, Hqv. fold e1 in Hv. unfold dnum in Hqv. cbn [dm de] in Hqv. fold e1 in Hqv.
  exists qv, (e1 + kv). split; [exact Hv|]. split; [lia|]. split; [|exact Hnv].
  replace (e1 + kv - e) with (kv + (e1 - e)) by lia. rewrite <- p10_merge by lia.
  rewrite Hqv. exact Hsum.
Qed.

Lemma raw2phys_exact : forall f o raw, let e := Z.min (de f) (de o) in
  fits28 (raw * dm f) -> fits28 (raw * dnum f e + dnum o e) ->
  let r := raw2phys f o raw in
  e <= de r /\ dnum r e = raw * dnum f e + dnum o e /\ ndigits (dm r) <= 28.
Proof.
  intros f o raw e H1 H2 r.
  destruct (raw2phys_struct f o raw H1 H2) as [qv [ev [Hr [He [Hq Hn]]]]].
  unfold r. rewrite Hr. unfold dnum at 1. cbn [dm de]. fold e in Hq. auto.
Qed.

Lemma phys2raw_raw2phys : forall f o raw, let e := Z.min (de f) (de o) in
  dm f <> 0 -> ndigits raw <= 28 ->
  fits28 (raw * dm f) -> fits28 (raw * dnum f e + dnum o e) ->
  phys2raw f o (raw2phys f o raw) = Some raw.
Proof.
  intros f o raw e Hf HnR H1 H2.
  destruct (raw2phys_struct f o raw H1 H2) as [qv [ev [Hr [He [Hq Hn]]]]]. fold e in He, Hq.
  rewrite Hr. clear Hr. destruct f as [mf ef]. destruct o as [mo eo].
  unfold dnum in *. cbn [dm de] in *.
  unfold phys2raw, dsub, dneg. cbn [dm de].
  set (e2 := Z.min ev eo).
  assert (Hee : e <= e2) by (unfold e2, e in *; lia).
  assert (Hdiff : (qv * 10 ^ (ev - e2) + - mo * 10 ^ (eo - e2)) * 10 ^ (e2 - e) = raw * mf * 10 ^ (ef - e)).
  { rewrite Z.mul_add_distr_r. rewrite !p10_merge by (unfold e2, e in *; lia).
    replace (ev - e2 + (e2 - e)) with (ev - e) by lia. replace (eo - e2 + (e2 - e)) with (eo - e) by lia.
    rewrite Hq. ring. }
  assert (Hf2 : fits28 (dnum (mkDec qv ev) e2 + dnum (mkDec (- mo) eo) e2)).
  { unfold dnum. cbn [dm de]. apply (fits28_div_p10 _ (e2 - e)); [lia|]. rewrite Hdiff.
    apply fits28_mul_p10; [unfold e; lia | exact H1]. }
  destruct (dadd_fits (mkDec qv ev) (mkDec (- mo) eo) Hf2) as [qa [ka [Hka [Ha [Hqa Hna]]]]].
  cbn [dm de] in Ha, Hqa. fold e2 in Ha. unfold dnum in Hqa. cbn [dm de] in Hqa. fold e2 in Hqa.
  rewrite Ha. clear Ha.
  set (ea := e2 + ka).
  assert (Hval : qa * 10 ^ (ea - e) = raw * mf * 10 ^ (ef - e)).
  { unfold ea. replace (e2 + ka - e) with (ka + (e2 - e)) by lia. rewrite <- p10_merge by lia.
    rewrite Hqa. exact Hdiff. }
  destruct (ddiv_int_quotient (mkDec qa ea) (mkDec mf ef) raw) as [r [Hd Hround]]; cbn [dm de]; try assumption.
  - unfold dnum. cbn [dm de]. set (g := Z.min ea ef).
    assert (Hg : e <= g) by (unfold g, ea, e in *; lia).
    pose proof (p10_gt0 (g - e) ltac:(lia)) as Hp.
    apply (Z.mul_reg_r _ _ (10 ^ (g - e))); [lia|].
    rewrite <- !Z.mul_assoc. rewrite <- !p10_add by (unfold g; lia).
    replace (ea - g + (g - e)) with (ea - e) by lia. replace (ef - g + (g - e)) with (ef - e) by lia.
    rewrite Hval. ring.
  - rewrite Hd, Hround. reflexivity.
Qed.

(* raw range of integer signals of width 1..64 *)
Lemma calculate_raw_range_spec : forall size signed, 1 <= size <= 128 ->
  calculate_raw_range size signed =
    if signed then (- 2 ^ (size - 1), 2 ^ (size - 1) - 1) else (0, 2 ^ size - 1).
Proof.
  intros size signed H. unfold calculate_raw_range.
  destruct (size <=? 128) eqn:E; [|lia].
  destruct signed.
  - destruct (size - 1 <? 0) eqn:E2; [lia | reflexivity].
  - rewrite Z.sub_0_r. destruct (size <? 0) eqn:E2; [lia | reflexivity].
Qed.

Lemma raw_in_range_ndigits : forall size signed raw, 1 <= size <= 64 ->
  fst (calculate_raw_range size signed) <= raw <= snd (calculate_raw_range size signed) ->
  ndigits raw <= 28.
Proof.
  intros size signed raw Hs Hr. rewrite calculate_raw_range_spec in Hr by lia.
  apply ndigits_le_iff; [lia|].
  assert (2 ^ size <= 2 ^ 64) by (apply Z.pow_le_mono_r; lia).
  assert (2 ^ (size - 1) <= 2 ^ 64) by (apply Z.pow_le_mono_r; lia).
  assert (0 < 2 ^ size) by (apply Z.pow_pos_nonneg; lia).
  assert (0 < 2 ^ (size - 1)) by (apply Z.pow_pos_nonneg; lia).
  assert (2 ^ 64 < 10 ^ 28) by (vm_compute; reflexivity).
  destruct signed; cbn [fst snd] in Hr; lia.
Qed.

Lemma factor_zero_becomes_one : forall f,
  (dm f = 0 -> mk_factor f = mkDec 1 0) /\ (dm f <> 0 -> mk_factor f = f) /\ dm (mk_factor f) <> 0.
Proof.
  intros f. unfold mk_factor. destruct (dm f =? 0) eqn:E; cbn [dm]; repeat split; intros; try reflexivity; lia.
Qed.

Lemma calc_min_max_images : forall s,
  calc_min s = phys_value s (fst (calculate_raw_range (sc_size s) (sc_signed s))) /\
  calc_max s = phys_value s (snd (calculate_raw_range (sc_size s) (sc_signed s))).
Proof. intros s. unfold calc_min, calc_max, phys_value, raw2phys. split; apply dadd_comm. Qed.

(* the property for a constructed signal of width 1..64 (factor 0 included: the converter stores 1) *)
Lemma signal_roundtrip : forall size signed factor offset items raw,
  let s := mk_signal size signed factor offset items in
  let f := sc_factor s in let o := sc_offset s in let e := Z.min (de f) (de o) in
  1 <= size <= 64 ->
  fst (calculate_raw_range size signed) <= raw <= snd (calculate_raw_range size signed) ->
  fits28 (raw * dm f) -> fits28 (raw * dnum f e + dnum o e) ->
  (e <= de (phys_value s raw) /\ dnum (phys_value s raw) e = raw * dnum f e + dnum o e) /\
  phys2raw_num s (phys_value s raw) = Some raw.
Proof.
  intros size signed factor offset items raw s f o e Hs Hr H1 H2.
  split.
  - destruct (raw2phys_exact f o raw H1 H2) as [A [B _]]. split; assumption.
  - unfold phys2raw_num, phys_value. apply phys2raw_raw2phys; try assumption.
    + unfold f, s, mk_signal. cbn [sc_factor]. apply factor_zero_becomes_one.
    + eapply raw_in_range_ndigits; eassumption.
Qed.

Lemma default_limits_exact : forall s,
  let f := sc_factor s in let o := sc_offset s in let e := Z.min (de f) (de o) in
  let lo := fst (calculate_raw_range (sc_size s) (sc_signed s)) in
  let hi := snd (calculate_raw_range (sc_size s) (sc_signed s)) in
  (fits28 (lo * dm f) -> fits28 (lo * dnum f e + dnum o e) ->
     e <= de (calc_min s) /\ dnum (calc_min s) e = lo * dnum f e + dnum o e) /\
  (fits28 (hi * dm f) -> fits28 (hi * dnum f e + dnum o e) ->
     e <= de (calc_max s) /\ dnum (calc_max s) e = hi * dnum f e + dnum o e).
Proof.
  intros s f o e lo hi. destruct (calc_min_max_images s) as [Hmin Hmax]. rewrite Hmin, Hmax.
  unfold phys_value. fold f o lo hi. split; intros H1 H2.
  - destruct (raw2phys_exact f o lo H1 H2) as [A [B _]]. split; assumption.
  - destruct (raw2phys_exact f o hi H1 H2) as [A [B _]]. split; assumption.
Qed.

(* witnesses that the envelope is needed *)
Lemma not_fits28_witness : ~ fits28 1000000000000000000000000000007.
Proof.
  intros [c [j [Hj [H Hc]]]]. destruct (Z.eq_dec j 0) as [->|Hne].
  - rewrite Z.pow_0_r in H. lia.
  - replace j with ((j - 1) + 1) in H by lia. rewrite p10_succ in H by lia.
    set (z := 10 ^ (j - 1)) in *. assert (1000000000000000000000000000007 = 10 * (c * z)) by lia. lia.
Qed.

Lemma roundtrip_refuted_beyond_28 :
  exists f o raw, let e := Z.min (de f) (de o) in
    dm f <> 0 /\ 0 <= raw < 2 ^ 8 /\ fits28 (raw * dm f) /\
    ~ fits28 (raw * dnum f e + dnum o e) /\
    phys2raw f o (raw2phys f o raw) <> Some raw.
Proof.
  exists (mkDec 1 (-30)), (mkDec 1 0), 7. cbn zeta. split; [cbn [dm]; lia|]. split; [lia|].
  split; [apply fits28_of_ndigits; vm_compute; discriminate|].
  split.
  - assert (E : 7 * dnum (mkDec 1 (-30)) (Z.min (de (mkDec 1 (-30))) (de (mkDec 1 0))) +
                dnum (mkDec 1 0) (Z.min (de (mkDec 1 (-30))) (de (mkDec 1 0))) = 1000000000000000000000000000007)
      by (vm_compute; reflexivity).
    rewrite E. exact not_fits28_witness.
  - assert (E : phys2raw (mkDec 1 (-30)) (mkDec 1 0) (raw2phys (mkDec 1 (-30)) (mkDec 1 0) 7) = Some 0)
      by (vm_compute; reflexivity).
    rewrite E. discriminate.
Qed.

Lemma roundtrip_refuted_wide_raw :
  exists f o raw, let e := Z.min (de f) (de o) in
    dm f <> 0 /\ ndigits raw = 29 /\ fits28 (raw * dm f) /\ fits28 (raw * dnum f e + dnum o e) /\
    phys2raw f o (raw2phys f o raw) <> Some raw.
Proof.
  exists (mkDec 5 (-1)), (mkDec 0 0), (2 * (10 ^ 28 - 1)). cbn zeta. split; [cbn; lia|]. split; [vm_compute; reflexivity|].
  assert (F : fits28 (2 * (10 ^ 28 - 1) * 5)).
  { exists (10 ^ 28 - 1), 1. split; [lia|]. split; [vm_compute; reflexivity | vm_compute; reflexivity]. }
  split; [exact F|]. split.
  - unfold dnum. cbn [dm de]. replace (Z.min (-1) 0) with (-1) by reflexivity.
    replace (-1 - -1) with 0 by lia. rewrite Z.pow_0_r, Z.mul_1_r, Z.mul_0_l, Z.add_0_r. exact F.
  - vm_compute. discriminate.
Qed.
