(* Reusable list / bit lemmas about the helpers of model/Codec.v (py_slice, big, little, bin_value, bitsum).
   No model-specific theorem here; see Codec_decode.v for the decoder results. *)
From CM Require Import lib.Prelude model.Codec.

(* ---------- generic list facts ---------- *)

Lemma nth_firstn_lt : forall A (l : list A) n i d,
  (i < n)%nat -> nth i (firstn n l) d = nth i l d.
Proof.
  intros A l; induction l as [|x l IH]; intros n i d Hi.
  - rewrite firstn_nil. reflexivity.
  - destruct n as [|n]; [lia|]. destruct i as [|i]; cbn [firstn nth]; [reflexivity|].
    apply IH. lia.
Qed.

Lemma nth_skipn_add : forall A (l : list A) n i d,
  nth i (skipn n l) d = nth (n + i) l d.
Proof.
  intros A l; induction l as [|x l IH]; intros n i d.
  - rewrite skipn_nil. destruct i, n; reflexivity.
  - destruct n as [|n]; cbn [skipn Nat.add nth]; [reflexivity|]. apply IH.
Qed.

Lemma nth_ext_eq : forall A (l l' : list A) d,
  length l = length l' ->
  (forall i, (i < length l)%nat -> nth i l d = nth i l' d) -> l = l'.
Proof.
  intros A l l' d Hlen Hn. apply (nth_ext l l' d d); assumption.
Qed.

Lemma nth_nil : forall A n (d : A), nth n [] d = d.
Proof. intros A n d. destruct n; reflexivity. Qed.

(* element (q*k + r) of a concatenation of k-sized chunks *)
Lemma nth_concat_qr : forall A (ls : list (list A)) k q r d,
  Forall (fun l => length l = k) ls -> (r < k)%nat ->
  nth (q * k + r) (concat ls) d = nth r (nth q ls []) d.
Proof.
  intros A ls; induction ls as [|l ls IH]; intros k q r d Hall Hr.
  - cbn [concat]. rewrite !nth_nil. reflexivity.
  - inversion Hall as [|l0 ls0 Hl Hls]; subst l0 ls0.
    rewrite concat_cons. destruct q as [|q].
    + cbn [Nat.mul Nat.add nth]. apply app_nth1. lia.
    + rewrite app_nth2 by (rewrite Hl; cbn [Nat.mul]; lia).
      replace (S q * k + r - length l)%nat with (q * k + r)%nat by (rewrite Hl; cbn [Nat.mul]; lia).
      cbn [nth]. apply IH; assumption.
Qed.

Lemma length_concat_uniform : forall A (ls : list (list A)) k,
  Forall (fun l => length l = k) ls -> length (concat ls) = (k * length ls)%nat.
Proof.
  intros A ls k Hall; induction Hall as [|l ls Hl Hls IH].
  - cbn. lia.
  - rewrite concat_cons, app_length, IH, Hl. cbn [length]. lia.
Qed.

(* the div/mod form *)
Lemma nth_concat_chunks : forall A (ls : list (list A)) k i d,
  (0 < k)%nat -> Forall (fun l => length l = k) ls ->
  nth i (concat ls) d = nth (i mod k) (nth (i / k) ls []) d.
Proof.
  intros A ls k i d Hk Hall.
  rewrite (Nat.div_mod i k) at 1 by lia.
  rewrite (Nat.mul_comm k). apply nth_concat_qr; [assumption|].
  apply Nat.mod_upper_bound. lia.
Qed.

(* ---------- byte_bits, big, little ---------- *)

Lemma byte_bits_length : forall b, length (byte_bits b) = 8%nat.
Proof. reflexivity. Qed.

Lemma byte_bits_nth : forall b r, (r < 8)%nat ->
  nth r (byte_bits b) false = Z.testbit b (7 - Z.of_nat r).
Proof.
  intros b r Hr. unfold byte_bits.
  do 8 (destruct r as [|r]; [reflexivity|]). lia.
Qed.

Lemma big_as_concat : forall d, big d = concat (map byte_bits d).
Proof. intros d. apply flat_map_concat_map. Qed.

Lemma map_byte_bits_uniform : forall d, Forall (fun l => length l = 8%nat) (map byte_bits d).
Proof.
  intros d. apply Forall_forall. intros l Hl. apply in_map_iff in Hl.
  destruct Hl as [b [Hb _]]. subst l. reflexivity.
Qed.

Lemma big_length : forall d, length (big d) = (8 * length d)%nat.
Proof.
  intros d. rewrite big_as_concat, (length_concat_uniform _ _ 8%nat (map_byte_bits_uniform d)).
  rewrite map_length. reflexivity.
Qed.

Lemma zlen_big : forall d, zlen (big d) = 8 * zlen d.
Proof. intros d. unfold zlen. rewrite big_length. lia. Qed.

Lemma little_as_big : forall d, little d = big (rev d).
Proof. reflexivity. Qed.

Lemma little_length : forall d, length (little d) = (8 * length d)%nat.
Proof. intros d. rewrite little_as_big, big_length, rev_length. reflexivity. Qed.

Lemma zlen_little : forall d, zlen (little d) = 8 * zlen d.
Proof. intros d. unfold zlen. rewrite little_length. lia. Qed.

(* nat-indexed: bit i of big d is bit (7 - i mod 8) of byte i/8 *)
Lemma big_nth_nat : forall d i, (i < 8 * length d)%nat ->
  nth i (big d) false = Z.testbit (nth (i / 8) d 0) (7 - Z.of_nat (i mod 8)).
Proof.
  intros d i Hi. rewrite big_as_concat.
  rewrite (nth_concat_chunks _ _ 8%nat i false) by (try apply map_byte_bits_uniform; lia).
  assert (Hq : (i / 8 < length d)%nat) by (apply Nat.div_lt_upper_bound; lia).
  rewrite (nth_indep _ [] (byte_bits 0)) by (rewrite map_length; exact Hq).
  rewrite map_nth. apply byte_bits_nth. apply Nat.mod_upper_bound. lia.
Qed.

Lemma big_nth : forall d i, 0 <= i < 8 * zlen d ->
  nth (Z.to_nat i) (big d) false = mbit d i.
Proof.
  intros d i Hi. unfold zlen in Hi. rewrite big_nth_nat by lia. unfold mbit.
  assert (H1 : (Z.to_nat i / 8)%nat = Z.to_nat (i / 8)).
  { apply Nat2Z.inj. rewrite Nat2Z.inj_div. rewrite !Z2Nat.id by lia. reflexivity. }
  assert (H2 : Z.of_nat (Z.to_nat i mod 8) = i mod 8).
  { rewrite Nat2Z.inj_mod. rewrite Z2Nat.id by lia. reflexivity. }
  rewrite H1, H2. reflexivity.
Qed.

Lemma little_nth : forall d q, 0 <= q < 8 * zlen d ->
  nth (Z.to_nat q) (little d) false = pbit d (8 * zlen d - 1 - q).
Proof.
  intros d q Hq. rewrite little_as_big.
  rewrite big_nth by (unfold zlen in *; rewrite rev_length; exact Hq).
  unfold mbit, pbit, zlen in *.
  rewrite rev_nth by lia.
  f_equal; [f_equal|]; lia.
Qed.

(* ---------- py_slice inside the bounds ---------- *)

Lemma py_bound_inside : forall len i, 0 <= i <= len -> py_bound len i = i.
Proof.
  intros len i Hi. unfold py_bound. destruct (i <? 0) eqn:E; lia.
Qed.

Lemma py_slice_inside : forall A (l : list A) a b, 0 <= a <= b -> b <= zlen l ->
  py_slice l a b = firstn (Z.to_nat (b - a)) (skipn (Z.to_nat a) l).
Proof.
  intros A l a b Hab Hb. unfold py_slice.
  rewrite !py_bound_inside by lia. reflexivity.
Qed.

Lemma py_slice_length : forall A (l : list A) a b, 0 <= a <= b -> b <= zlen l ->
  length (py_slice l a b) = Z.to_nat (b - a).
Proof.
  intros A l a b Hab Hb. rewrite py_slice_inside by assumption.
  unfold zlen in Hb. rewrite firstn_length, skipn_length. lia.
Qed.

Lemma py_slice_zlen : forall A (l : list A) a b, 0 <= a <= b -> b <= zlen l ->
  zlen (py_slice l a b) = b - a.
Proof.
  intros A l a b Hab Hb. unfold zlen at 1. rewrite py_slice_length by assumption. lia.
Qed.

Lemma py_slice_nth : forall A (l : list A) a b j d, 0 <= a <= b -> b <= zlen l ->
  (j < Z.to_nat (b - a))%nat ->
  nth j (py_slice l a b) d = nth (Z.to_nat a + j) l d.
Proof.
  intros A l a b j d Hab Hb Hj. rewrite py_slice_inside by assumption.
  rewrite nth_firstn_lt by assumption. apply nth_skipn_add.
Qed.

Lemma py_slice_prefix : forall A (l : list A) n, 0 <= n <= zlen l ->
  py_slice l 0 n = firstn (Z.to_nat n) l.
Proof.
  intros A l n Hn. rewrite py_slice_inside by lia.
  rewrite Z.sub_0_r. reflexivity.
Qed.

(* l[0:n] for n beyond the end is the whole list *)
Lemma py_slice_prefix_all : forall A (l : list A) n, zlen l <= n ->
  py_slice l 0 n = l.
Proof.
  intros A l n Hn. unfold py_slice, py_bound, zlen in *.
  destruct (0 <? 0) eqn:E0; [lia|]. destruct (n <? 0) eqn:E1; [lia|].
  replace (Z.min 0 (Z.of_nat (length l))) with 0 by lia.
  replace (Z.min n (Z.of_nat (length l)) - 0) with (Z.of_nat (length l)) by lia.
  rewrite Nat2Z.id. cbn [Z.to_nat skipn]. apply firstn_all.
Qed.

(* ---------- bitsum ---------- *)

Lemma bitsum_ext : forall f g n,
  (forall i, (i < n)%nat -> f i = g i) -> bitsum f n = bitsum g n.
Proof.
  intros f g n; induction n as [|n IH]; intros H.
  - reflexivity.
  - cbn [bitsum]. rewrite IH by (intros i Hi; apply H; lia).
    rewrite (H n) by lia. reflexivity.
Qed.

Lemma bitsum_bounds : forall f n, 0 <= bitsum f n < 2 ^ Z.of_nat n.
Proof.
  intros f n; induction n as [|n IH].
  - cbn. lia.
  - cbn [bitsum]. rewrite Nat2Z.inj_succ, Z.pow_succ_r by lia.
    pose proof (Z.pow_pos_nonneg 2 (Z.of_nat n)) as Hp.
    set (P := 2 ^ Z.of_nat n) in *. destruct (f n); cbn [Z.b2z]; lia.
Qed.

Lemma bitsum_inj : forall f g n,
  bitsum f n = bitsum g n -> forall i, (i < n)%nat -> f i = g i.
Proof.
  intros f g n; induction n as [|n IH]; intros Heq i Hi.
  - lia.
  - cbn [bitsum] in Heq.
    pose proof (bitsum_bounds f n) as Hf. pose proof (bitsum_bounds g n) as Hg.
    set (P := 2 ^ Z.of_nat n) in *.
    set (A := bitsum f n) in *. set (B := bitsum g n) in *.
    assert (Hfg : f n = g n /\ A = B).
    { destruct (f n), (g n); cbn [Z.b2z] in Heq; split; try reflexivity; lia. }
    destruct Hfg as [Htop Hlow].
    destruct (Nat.eq_dec i n) as [->|Hne]; [exact Htop|].
    apply IH; [exact Hlow | lia].
Qed.

(* bitsum splits off its top bit *)
Lemma bitsum_S : forall f n, bitsum f (S n) = bitsum f n + 2 ^ Z.of_nat n * Z.b2z (f n).
Proof. reflexivity. Qed.

Lemma bitsum_testbit : forall f n i, (i < n)%nat ->
  Z.testbit (bitsum f n) (Z.of_nat i) = f i.
Proof.
  intros f n; induction n as [|n IH]; intros i Hi; [lia|].
  rewrite bitsum_S.
  pose proof (bitsum_bounds f n) as Hb.
  pose proof (Z.pow_pos_nonneg 2 (Z.of_nat n)) as Hp.
  destruct (Nat.eq_dec i n) as [->|Hne].
  - replace (Z.of_nat n) with (0 + Z.of_nat n) at 2 by lia.
    rewrite <- Z.div_pow2_bits by lia.
    rewrite Z.mul_comm, Z.div_add by lia.
    rewrite Z.div_small by lia. cbn [Z.add]. destruct (f n); reflexivity.
  - rewrite <- (Z.mod_pow2_bits_low _ (Z.of_nat n)) by lia.
    rewrite Z.mul_comm, Z.mod_add by lia.
    rewrite Z.mod_small by lia. apply IH. lia.
Qed.

Lemma bitsum_testbit_high : forall f n i, Z.of_nat n <= i ->
  Z.testbit (bitsum f n) i = false.
Proof.
  intros f n i Hi. pose proof (bitsum_bounds f n) as Hb.
  destruct (Z.eq_dec (bitsum f n) 0) as [E|E]; [rewrite E; apply Z.testbit_0_l|].
  apply Z.bits_above_log2; [lia|].
  apply Z.lt_le_trans with (Z.of_nat n); [|exact Hi].
  apply Z.log2_lt_pow2; lia.
Qed.

(* ---------- bin_value ---------- *)

Lemma bin_value_acc : forall l acc,
  fold_left (fun a b => 2 * a + Z.b2z b) l acc = acc * 2 ^ zlen l + bin_value l.
Proof.
  unfold bin_value. intros l; induction l as [|b l IH]; intros acc.
  - cbn. lia.
  - cbn [fold_left]. rewrite IH. rewrite (IH (2 * 0 + Z.b2z b)).
    unfold zlen. cbn [length]. rewrite Nat2Z.inj_succ, Z.pow_succ_r by lia.
    set (P := 2 ^ Z.of_nat (length l)). lia.
Qed.

Lemma bin_value_nil : bin_value [] = 0.
Proof. reflexivity. Qed.

Lemma bin_value_cons : forall b l,
  bin_value (b :: l) = Z.b2z b * 2 ^ zlen l + bin_value l.
Proof.
  intros b l. unfold bin_value at 1. cbn [fold_left]. rewrite bin_value_acc.
  destruct b; reflexivity.
Qed.

Lemma bin_value_snoc : forall l b,
  bin_value (l ++ [b]) = 2 * bin_value l + Z.b2z b.
Proof.
  intros l b. unfold bin_value. rewrite fold_left_app. reflexivity.
Qed.

Lemma bin_value_bitsum : forall l,
  bin_value l = bitsum (fun i => nth (length l - 1 - i) l false) (length l).
Proof.
  induction l as [|b l IH].
  - reflexivity.
  - rewrite bin_value_cons. cbn [length]. rewrite bitsum_S.
    replace (S (length l) - 1 - length l)%nat with 0%nat by lia. cbn [nth].
    rewrite IH. unfold zlen.
    rewrite (bitsum_ext (fun i => nth (S (length l) - 1 - i) (b :: l) false)
                        (fun i => nth (length l - 1 - i) l false)).
    + lia.
    + intros i Hi. replace (S (length l) - 1 - i)%nat with (S (length l - 1 - i)) by lia.
      reflexivity.
Qed.

Lemma bin_value_bounds : forall l, 0 <= bin_value l < 2 ^ zlen l.
Proof. intros l. rewrite bin_value_bitsum. apply bitsum_bounds. Qed.

(* a list whose element j is f (n-1-j) reads as bitsum f n *)
Lemma bin_value_of_bits : forall l f,
  (forall j, (j < length l)%nat -> nth j l false = f (length l - 1 - j)%nat) ->
  bin_value l = bitsum f (length l).
Proof.
  intros l f H. rewrite bin_value_bitsum. apply bitsum_ext.
  intros i Hi. rewrite H by lia. f_equal. lia.
Qed.
