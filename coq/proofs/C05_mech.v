(* C05: proofs about the mechanisms of model/FmtDbc.v (sections 1-7 of that file). *)
From CM Require Import lib.Prelude model.Startbit model.ArbId model.FmtDbc proofs.Startbit_proofs proofs.ArbId_proofs.
From Coq Require Import DecimalN DecimalPos Nnat.

(* ---- text equality ---- *)
Lemma text_eqb_refl a : text_eqb a a = true.
Proof. induction a as [|x a IH]; cbn; [reflexivity|]. rewrite Z.eqb_refl, IH. reflexivity. Qed.

Lemma text_eqb_eq a b : text_eqb a b = true <-> a = b.
Proof.
  split.
  - revert b. induction a as [|x a IH]; intros [|y b] H; cbn in H; try discriminate; [reflexivity|].
    apply andb_true_iff in H. destruct H as [H1 H2]. apply Z.eqb_eq in H1. apply IH in H2. subst. reflexivity.
  - intros ->. apply text_eqb_refl.
Qed.

Lemma text_eqb_neq a b : text_eqb a b = false <-> a <> b.
Proof.
  split.
  - intros H E. apply text_eqb_eq in E. congruence.
  - intros H. destruct (text_eqb a b) eqn:E; [|reflexivity]. apply text_eqb_eq in E. contradiction.
Qed.

(* ---- 1. start bit ---- *)
Lemma startbit_roundtrip le size i :
  0 <= i -> dbc_read_start le size (dbc_write_start le size i) = Some i.
Proof.
  intros Hi. unfold dbc_read_start, dbc_write_start. destruct le.
  - reflexivity.
  - apply set_after_get. exact Hi.
Qed.

Lemma startbit_fixed_point le size n i :
  dbc_read_start le size n = Some i -> dbc_write_start le size i = n.
Proof.
  unfold dbc_read_start, dbc_write_start. destruct le; intros H.
  - injection H as <-. reflexivity.
  - apply get_after_set. exact H.
Qed.

Lemma startbit_denotes le size i :
  coord_lsb0 (dbc_write_start le size i) = bit_coord le size i (ref_bit le size false).
Proof.
  unfold dbc_write_start.
  pose proof (get_denotes le size i (Some 1) false) as H.
  cbn [eff_lsb0 num_coord] in H. rewrite Z.eqb_refl in H. apply H.
  unfold bn_ok. auto.
Qed.

(* ---- 2. identifiers ---- *)
Lemma id_roundtrip a : valid_ext a \/ valid_std a -> dbc_read_id (dbc_write_id a) = Some a.
Proof. exact (compound_roundtrip_id a). Qed.

Lemma free_frame_id_reads_as_zero : dbc_read_id (dbc_write_id free_frame_id) = Some (0, true).
Proof. vm_compute. reflexivity. Qed.

(* ---- 3. decimal text ---- *)
Lemma codes_uint_codes d : codes_uint (uint_codes d) = Some d.
Proof. induction d; cbn [uint_codes codes_uint]; try rewrite IHd; reflexivity. Qed.

Lemma uint_codes_digits d : Forall (fun c => 48 <= c <= 57) (uint_codes d).
Proof. induction d; cbn [uint_codes]; constructor; try assumption; lia. Qed.

Lemma nat_text_nonempty n : nat_text n <> [].
Proof.
  unfold nat_text. destruct n as [|p]; cbn; [discriminate|].
  pose proof (Unsigned.to_uint_nonnil p) as H.
  destruct (Pos.to_uint p); cbn; congruence.
Qed.

Lemma nat_text_digits n : Forall (fun c => 48 <= c <= 57) (nat_text n).
Proof. apply uint_codes_digits. Qed.

Lemma text_nat_roundtrip n : text_nat (nat_text n) = Some n.
Proof.
  unfold text_nat. pose proof (nat_text_nonempty n) as Hne.
  destruct (nat_text n) as [|c r] eqn:E; [contradiction|].
  rewrite <- E. unfold nat_text. rewrite codes_uint_codes. f_equal. apply DecimalN.Unsigned.of_to.
Qed.

Lemma int_text_roundtrip z : text_int (int_text z) = Some z.
Proof.
  unfold int_text. destruct (z <? 0) eqn:Hz.
  - cbn [text_int]. rewrite Z.eqb_refl, text_nat_roundtrip. f_equal. lia.
  - pose proof (nat_text_nonempty (Z.to_N z)) as Hne. pose proof (nat_text_digits (Z.to_N z)) as Hd.
    pose proof (text_nat_roundtrip (Z.to_N z)) as Hr.
    destruct (nat_text (Z.to_N z)) as [|c r] eqn:E; [contradiction|].
    cbn [text_int]. inversion Hd as [|c' r' Hc Hr']; subst.
    destruct (c =? 45) eqn:Hc45; [lia|]. rewrite Hr. f_equal. lia.
Qed.

Lemma int_text_nonempty z : int_text z <> [].
Proof. unfold int_text. destruct (z <? 0); [discriminate|apply nat_text_nonempty]. Qed.

Lemma last_in {A} (l : list A) d : l <> [] -> In (last l d) l.
Proof.
  induction l as [|x l IH]; intros H; [contradiction|].
  destruct l as [|y l']; [left; reflexivity|]. right. apply IH. discriminate.
Qed.

Lemma int_text_last_digit z : 0 <= z -> 48 <= last (int_text z) 0 <= 57.
Proof.
  intros Hz. unfold int_text. destruct (z <? 0) eqn:E; [lia|].
  pose proof (nat_text_digits (Z.to_N z)) as Hd. rewrite Forall_forall in Hd. apply Hd.
  apply last_in. apply nat_text_nonempty.
Qed.

(* ---- 4. multiplex tokens ---- *)
Lemma mux_roundtrip r : mux_ok r -> parse_mux_token (mux_token r) = Some r.
Proof.
  destruct r as [| |n|n]; intros Hok; cbn [mux_token mux_ok] in *.
  - reflexivity.
  - reflexivity.
  - pose proof (int_text_nonempty n) as Hne. pose proof (int_text_last_digit n Hok) as Hl.
    destruct (int_text n) as [|c t] eqn:E; [contradiction|].
    unfold parse_mux_token. cbn [text_eqb]. replace (109 =? 77) with false by reflexivity. cbn [andb].
    change (last (109 :: c :: t) 0) with (last (c :: t) 0).
    destruct (last (c :: t) 0 =? 77) eqn:H77; [lia|].
    cbn [tl]. rewrite <- E, int_text_roundtrip. reflexivity.
  - pose proof (int_text_nonempty n) as Hne.
    destruct (int_text n) as [|c t] eqn:E; [contradiction|].
    unfold parse_mux_token. cbn [app text_eqb]. replace (109 =? 77) with false by reflexivity. cbn [andb].
    change (109 :: c :: t ++ [77]) with ((109 :: c :: t) ++ [77]).
    rewrite last_last, Z.eqb_refl, removelast_last. cbn [tl]. rewrite <- E, int_text_roundtrip. reflexivity.
Qed.

(* ---- 5. long names ---- *)
Definition fin_obj (n : text) : nobj := (short_name n, if is_long n then Some n else None).
Definition mk_obj (n : text) : nobj := (short_name n, None).

Lemma set_first_attr_skip k v a (l1 l2 : list nobj) :
  (forall o, In o l1 -> fst o <> k) ->
  set_first_attr k v (l1 ++ (k, a) :: l2) = l1 ++ (k, Some v) :: l2.
Proof.
  induction l1 as [|[n b] l1 IH]; intros H; cbn [app set_first_attr].
  - rewrite text_eqb_refl. reflexivity.
  - assert (Hn : n <> k) by (apply (H (n, b)); left; reflexivity).
    apply text_eqb_neq in Hn. rewrite Hn. f_equal. apply IH. intros o Ho. apply H. right. exact Ho.
Qed.

Lemma long_names_fold todo : forall done,
  NoDup (map short_name (done ++ todo)) ->
  fold_left (fun os kv => set_first_attr (fst kv) (snd kv) os) (w_long_attrs todo)
            (map fin_obj done ++ map mk_obj todo)
  = map fin_obj (done ++ todo).
Proof.
  induction todo as [|x t IH]; intros done Hnd.
  - cbn. rewrite !app_nil_r. reflexivity.
  - assert (Hnd' : NoDup (map short_name ((done ++ [x]) ++ t))) by (rewrite <- app_assoc; exact Hnd).
    specialize (IH (done ++ [x]) Hnd').
    replace (done ++ x :: t) with ((done ++ [x]) ++ t) by (rewrite <- app_assoc; reflexivity).
    rewrite <- IH. unfold w_long_attrs. cbn [flat_map map]. fold (w_long_attrs t).
    rewrite map_app. cbn [map]. rewrite <- app_assoc. cbn [app].
    destruct (is_long x) eqn:Hl.
    + cbn [app fold_left fst snd]. unfold mk_obj at 1. rewrite set_first_attr_skip.
      * unfold fin_obj at 3. rewrite Hl. reflexivity.
      * intros o Ho. apply in_map_iff in Ho. destruct Ho as [y [<- Hy]]. cbn [fin_obj fst].
        intros E. rewrite map_app in Hnd. apply NoDup_remove_2 in Hnd.
        apply Hnd. apply in_or_app. left. cbn [map]. rewrite <- E. apply in_map. exact Hy.
    + cbn [app]. unfold fin_obj at 3. rewrite Hl. reflexivity.
Qed.

Lemma short_name_id n : is_long n = false -> short_name n = n.
Proof.
  unfold is_long, short_name. intros H. apply firstn_all2. apply Nat.ltb_ge in H. exact H.
Qed.

Lemma long_names_roundtrip ns :
  NoDup (map short_name ns) -> r_names (w_short_names ns) (w_long_attrs ns) = ns.
Proof.
  intros Hnd. unfold r_names, w_short_names. rewrite map_map.
  pose proof (long_names_fold ns [] Hnd) as H. cbn [map app] in H.
  change (map (fun x => (short_name x, None)) ns) with (map mk_obj ns). rewrite H.
  rewrite map_map. rewrite <- (map_id ns) at 2. apply map_ext_in. intros n _.
  unfold fin_obj. cbn [fst snd]. destruct (is_long n) eqn:Hl; [reflexivity|]. apply short_name_id. exact Hl.
Qed.

(* two names of 33 characters sharing their first 32: the first object gets both attributes *)
Definition clash_a : text := repeat 65 32 ++ [66].
Definition clash_b : text := repeat 65 32 ++ [67].
Lemma long_names_need_unique_prefixes :
  r_names (w_short_names [clash_a; clash_b]) (w_long_attrs [clash_a; clash_b]) = [clash_b; repeat 65 32].
Proof. vm_compute. reflexivity. Qed.

(* ---- 6. ENUM keys and values ---- *)
Lemma index_of_nth v vals : In v vals -> exists k, index_of v vals = Some k /\ nth_error vals k = Some v.
Proof.
  induction vals as [|x r IH]; intros Hin; [contradiction|].
  cbn [index_of]. destruct (text_eqb x v) eqn:E.
  - apply text_eqb_eq in E. subst. exists O. split; reflexivity.
  - destruct Hin as [->|Hin]; [rewrite text_eqb_refl in E; discriminate|].
    destruct (IH Hin) as [k [Hk Hn]]. exists (S k). rewrite Hk. split; [reflexivity|exact Hn].
Qed.

Lemma enum_roundtrip v vals :
  In v vals -> exists key, enum_to_key v vals = Some key /\ enum_to_value key vals = Some v.
Proof.
  intros Hin. destruct (index_of_nth v vals Hin) as [k [Hk Hn]].
  exists (nat_text (N.of_nat k)). unfold enum_to_key, enum_to_value. rewrite Hk, text_nat_roundtrip, Nat2N.id.
  split; [reflexivity|exact Hn].
Qed.

Lemma nth_index_of vals : forall k v, NoDup vals -> nth_error vals k = Some v -> index_of v vals = Some k.
Proof.
  induction vals as [|x r IH]; intros k v Hnd Hn; [destruct k; discriminate|].
  inversion Hnd as [|x' r' Hx Hr]; subst. destruct k as [|k]; cbn in Hn.
  - injection Hn as ->. cbn [index_of]. rewrite text_eqb_refl. reflexivity.
  - cbn [index_of]. destruct (text_eqb x v) eqn:E.
    + apply text_eqb_eq in E. subst. exfalso. apply Hx. eapply nth_error_In. exact Hn.
    + rewrite (IH k v Hr Hn). reflexivity.
Qed.

Lemma enum_fixed_point k v vals :
  NoDup vals -> enum_to_value (nat_text (N.of_nat k)) vals = Some v -> enum_to_key v vals = Some (nat_text (N.of_nat k)).
Proof.
  intros Hnd H. unfold enum_to_value in H. rewrite text_nat_roundtrip, Nat2N.id in H.
  unfold enum_to_key. rewrite (nth_index_of vals k v Hnd H). reflexivity.
Qed.

(* ---- 7. initial values ---- *)
Lemma rhe_exact r F : F <> 0 -> round_half_even_div (r * F) F = r.
Proof.
  intros HF. unfold round_half_even_div.
  assert (Ha : r * F * Z.sgn F = r * Z.abs F) by nia.
  assert (Hb : 0 < Z.abs F) by lia.
  rewrite Ha, Z.div_mul, Z.mod_mul by lia.
  destruct (2 * 0 <? Z.abs F) eqn:E; [reflexivity|lia].
Qed.

Lemma phys2raw_on_grid I O F MIN MAX r :
  F <> 0 -> MIN <= I <= MAX -> I = O + r * F -> phys2raw_none I O F MIN MAX = r.
Proof.
  intros HF Hlim Hgrid. unfold phys2raw_none.
  replace ((MIN <=? I) && (I <=? MAX)) with true by lia.
  replace (I - O) with (r * F) by lia. apply rhe_exact. exact HF.
Qed.

Lemma initial_roundtrip attr_in I O F MIN MAX r :
  F <> 0 -> MIN <= I <= MAX -> I = O + r * F -> (attr_in = None \/ attr_in = Some r) ->
  read_initial (write_start_attr attr_in I O F MIN MAX) O F MIN MAX = I.
Proof.
  intros HF Hlim Hgrid Hattr. unfold write_start_attr.
  rewrite (phys2raw_on_grid I O F MIN MAX r HF Hlim Hgrid).
  destruct (negb (r =? 0) || (negb (I =? 0) && match attr_in with None => true | Some _ => false end)) eqn:C.
  - unfold read_initial. lia.
  - destruct Hattr as [-> | ->].
    + assert (r = 0 /\ I = 0) as [-> ->] by lia.
      unfold read_initial. assert (O = 0) by lia. subst O.
      rewrite (phys2raw_on_grid 0 0 F MIN MAX 0 HF Hlim); lia.
    + unfold read_initial. lia.
Qed.

Lemma start_attr_fixed_point attr_in I O F MIN MAX :
  write_start_attr (write_start_attr attr_in I O F MIN MAX) I O F MIN MAX = write_start_attr attr_in I O F MIN MAX.
Proof.
  unfold write_start_attr. cbv zeta. set (r := phys2raw_none I O F MIN MAX).
  destruct (negb (r =? 0)) eqn:A; destruct (negb (I =? 0)) eqn:B; destruct attr_in; cbn; rewrite ?A, ?B; reflexivity.
Qed.

(* ---- 10. long names of the signals of one frame: colliding shortened names get a numeric suffix ---- *)
Definition pfin (p : text * text) : nobj := (fst p, if is_long (snd p) then Some (snd p) else None).
Definition pmk (p : text * text) : nobj := (fst p, None).

Lemma pairs_fold todo : forall done,
  NoDup (map fst (done ++ todo)) ->
  fold_left (fun os kv => set_first_attr (fst kv) (snd kv) os)
            (flat_map (fun p => if is_long (snd p) then [(fst p, snd p)] else []) todo)
            (map pfin done ++ map pmk todo)
  = map pfin (done ++ todo).
Proof.
  induction todo as [|x t IH]; intros done Hnd.
  - cbn. rewrite !app_nil_r. reflexivity.
  - assert (Hnd' : NoDup (map fst ((done ++ [x]) ++ t))) by (rewrite <- app_assoc; exact Hnd).
    specialize (IH (done ++ [x]) Hnd').
    replace (done ++ x :: t) with ((done ++ [x]) ++ t) by (rewrite <- app_assoc; reflexivity).
    rewrite <- IH. cbn [flat_map map]. rewrite map_app. cbn [map]. rewrite <- app_assoc. cbn [app].
    destruct (is_long (snd x)) eqn:Hl.
    + cbn [app fold_left fst snd]. unfold pmk at 1. rewrite set_first_attr_skip.
      * unfold pfin at 3. rewrite Hl. reflexivity.
      * intros o Ho. apply in_map_iff in Ho. destruct Ho as [y [<- Hy]]. cbn [pfin fst].
        intros E. rewrite map_app in Hnd. apply NoDup_remove_2 in Hnd.
        apply Hnd. apply in_or_app. left. cbn [map]. rewrite <- E. apply in_map. exact Hy.
    + cbn [app]. unfold pfin at 3. rewrite Hl. reflexivity.
Qed.

Lemma out_pairs_snd a ns : forall seen, map snd (out_pairs a seen ns) = ns.
Proof. induction ns as [|n r IH]; intros seen; cbn [out_pairs map snd]; [reflexivity|]. rewrite IH. reflexivity. Qed.

Lemma out_pairs_fst a ns : forall seen p, In p (out_pairs a seen ns) ->
  In (snd p) ns /\
  exists k, fst p = short_name (snd p) ++ (if (1 <? count_name (short_name (snd p)) a)%nat then nat_text k else []).
Proof.
  induction ns as [|n r IH]; intros seen p Hp; [contradiction|]. cbn [out_pairs] in Hp. destruct Hp as [<- | Hp].
  - cbn [fst snd]. split; [left; reflexivity|]. eexists. reflexivity.
  - destruct (IH _ p Hp) as [Hin Hk]. split; [right; exact Hin|exact Hk].
Qed.

Lemma suffixed_names_roundtrip ns :
  NoDup (w_out_names ns) ->
  (forall n, In n ns -> is_long n = false -> count_name (short_name n) (map short_name ns) = 1%nat) ->
  r_names (w_out_names ns) (w_out_attrs ns) = ns.
Proof.
  intros Hnd Hshort. unfold r_names, w_out_names, w_out_attrs. rewrite map_map.
  pose proof (pairs_fold (w_out_pairs ns) [] Hnd) as H. cbn [map app] in H.
  change (map (fun x : text * text => (fst x, None)) (w_out_pairs ns)) with (map pmk (w_out_pairs ns)). rewrite H.
  rewrite map_map. rewrite <- (out_pairs_snd (map short_name ns) ns []) at 2. fold (w_out_pairs ns).
  apply map_ext_in. intros p Hp. unfold pfin. cbn [fst snd]. destruct (is_long (snd p)) eqn:Hl; [reflexivity|].
  destruct (out_pairs_fst _ _ _ _ Hp) as [Hin [k Hk]]. rewrite Hk, (Hshort _ Hin Hl). cbn. rewrite app_nil_r.
  apply short_name_id. exact Hl.
Qed.

(* the suffix makes shared 32-character prefixes work: the two clashing names of section 5 survive *)
Lemma suffixed_clash_ok : r_names (w_out_names [clash_a; clash_b]) (w_out_attrs [clash_a; clash_b]) = [clash_a; clash_b].
Proof. vm_compute. reflexivity. Qed.

(* ... but a name that IS the common 32-character prefix keeps its suffix (no attribute is written for a short name) *)
Lemma suffixed_needs_long_names :
  r_names (w_out_names [repeat 65 32; clash_a]) (w_out_attrs [repeat 65 32; clash_a]) = [repeat 65 32 ++ [48]; clash_a].
Proof. vm_compute. reflexivity. Qed.
