(* C03: extended (nested) multiplexed decoding - the selector walk terminates and returns exactly the active signals. *)
From CM Require Import lib.Prelude model.Codec model.Mux proofs.Codec_decode proofs.Mux_lib proofs.Mux_simple.

(* ---------- find ---------- *)

Lemma find_exists : forall A (P : A -> bool) l x, In x l -> P x = true -> exists y, find P l = Some y.
Proof.
  intros A P l x Hin Hp. destruct (find P l) as [y|] eqn:E; [exists y; reflexivity|].
  exfalso. pose proof (find_none P l E x Hin). congruence.
Qed.

Lemma sub_pred_facts : forall pn pv s, sub_pred pn pv s = true ->
  m_is_mux s = true /\ m_parent s = pn /\ value_in_range s pv = true.
Proof.
  intros pn pv s H. unfold sub_pred in H. apply andb_true_iff in H. destruct H as [H H3].
  apply andb_true_iff in H. destruct H as [H1 H2]. apply opt_eqb_eq in H2. repeat split; assumption.
Qed.

Lemma sub_pred_intro : forall pn pv s, m_is_mux s = true -> m_parent s = pn -> value_in_range s pv = true ->
  sub_pred pn pv s = true.
Proof.
  intros pn pv s H1 H2 H3. unfold sub_pred. rewrite H1, H3. subst pn. rewrite opt_eqb_refl. reflexivity.
Qed.

Lemma get_sub_some : forall sigs pn pv m, get_sub_multiplexer sigs pn pv = Some m ->
  In m sigs /\ m_is_mux m = true /\ m_parent m = pn /\ value_in_range m pv = true.
Proof.
  intros sigs pn pv m H. unfold get_sub_multiplexer in H. apply find_some in H. destruct H as [H1 H2].
  split; [exact H1|]. apply sub_pred_facts. exact H2.
Qed.

(* ---------- the walk never runs out of fuel when names are unique ---------- *)

(* the multiplexers visited so far, most recent first: each one's parent is the one visited before it *)
Definition linked (m : msignal) (seen : list msignal) : Prop :=
  match seen with
  | [] => m_parent m = None
  | p :: _ => m_parent m = Some (m_name p)
  end.
Fixpoint path (seen : list msignal) : Prop :=
  match seen with
  | [] => True
  | x :: r => linked x r /\ path r
  end.

Lemma path_successor : forall l x, path l -> In x l ->
  m_parent x = None \/ exists l1 y l2, l = l1 ++ x :: y :: l2 /\ m_parent x = Some (m_name y).
Proof.
  induction l as [|a r IH]; intros x Hp Hin; [destruct Hin|].
  cbn [path] in Hp. destruct Hp as [Hl Hp]. destruct Hin as [<-|Hin].
  - destruct r as [|y r'].
    + left. exact Hl.
    + right. exists [], y, r'. split; [reflexivity|exact Hl].
  - destruct (IH x Hp Hin) as [H|[l1 [y [l2 [E H]]]]]; [left; exact H|].
    right. exists (a :: l1), y, l2. split; [rewrite E; reflexivity|exact H].
Qed.

Lemma no_revisit : forall sigs m seen m2,
  unique_names sigs -> path (m :: seen) -> NoDup (m :: seen) -> incl (m :: seen) sigs ->
  m_parent m2 = Some (m_name m) -> ~ In m2 (m :: seen).
Proof.
  intros sigs m seen m2 Hn Hp Hnd Hincl Hpar Hin.
  destruct (path_successor (m :: seen) m2 Hp Hin) as [H|[l1 [y [l2 [E H]]]]]; [congruence|].
  assert (Hy : In y (m :: seen)) by (rewrite E; apply in_or_app; right; right; left; reflexivity).
  assert (y = m).
  { apply (unique_names_inj sigs); [exact Hn|apply Hincl; exact Hy|apply Hincl; left; reflexivity|congruence]. }
  subst y. destruct l1 as [|a l1'].
  - cbn [app] in E. assert (m2 = m) by congruence. subst m2.
    assert (seen = m :: l2) by congruence. subst seen.
    inversion Hnd as [|x l Hni _]; subst x l. apply Hni. left. reflexivity.
  - cbn [app] in E. assert (a = m) by congruence. subst a.
    assert (seen = l1' ++ m2 :: m :: l2) by congruence. subst seen.
    inversion Hnd as [|x l Hni _]; subst x l. apply Hni.
    apply in_or_app. right. right. left. reflexivity.
Qed.

Lemma walk_fuel : forall sigs decoded, unique_names sigs ->
  forall fuel sub dv filtered seen,
    path seen -> NoDup seen -> incl seen sigs ->
    (forall m, sub = Some m -> In m sigs /\ ~ In m seen /\ linked m seen) ->
    (length sigs <= fuel + length seen)%nat ->
    walk fuel sigs decoded sub dv filtered <> WOutOfFuel.
Proof.
  intros sigs decoded Hn. induction fuel as [|f IH]; intros sub dv filtered seen Hp Hnd Hincl Hsub Hlen.
  - destruct sub as [m|]; [|cbn; discriminate].
    exfalso. destruct (Hsub m eq_refl) as [Hin [Hni _]].
    assert (Hl : (length (m :: seen) <= length sigs)%nat).
    { apply NoDup_incl_length.
      - constructor; assumption.
      - intros x [<-|Hx]; [exact Hin|apply Hincl; exact Hx]. }
    cbn [length] in Hl. lia.
  - destruct sub as [m|]; [|cbn; discriminate].
    destruct (Hsub m eq_refl) as [Hin [Hni Hlk]].
    cbn [walk]. destruct (lookup (m_name m) decoded) as [[v|pat]|]; try discriminate.
    assert (Hnd' : NoDup (m :: seen)) by (constructor; assumption).
    assert (Hincl' : incl (m :: seen) sigs) by (intros x [<-|Hx]; [exact Hin|apply Hincl; exact Hx]).
    assert (Hp' : path (m :: seen)) by (cbn [path]; split; assumption).
    apply (IH _ _ _ (m :: seen) Hp' Hnd' Hincl').
    + intros m2 H2. apply get_sub_some in H2. destruct H2 as [H21 [_ [H23 _]]].
      split; [exact H21|]. split; [|exact H23].
      apply (no_revisit sigs m seen m2 Hn Hp' Hnd' Hincl' H23).
    + cbn [length]. lia.
Qed.

Lemma decode_complex_no_fuel_out : forall sigs decoded, unique_names sigs ->
  decode_complex sigs decoded <> DOutOfFuel.
Proof.
  intros sigs decoded Hn. unfold decode_complex.
  pose proof (walk_fuel sigs decoded Hn (length sigs) (get_sub_multiplexer sigs None None) []
                (filter_signals sigs None None) [] I (NoDup_nil _) (incl_nil_l _)) as H.
  destruct (walk (length sigs) sigs decoded (get_sub_multiplexer sigs None None) []
                 (filter_signals sigs None None)) eqn:E; try discriminate.
  - exfalso. apply H; [|cbn [length]; lia|reflexivity].
    intros m Hm. apply get_sub_some in Hm. destruct Hm as [H1 [_ [H3 _]]].
    split; [exact H1|]. split; [intros []|exact H3].
  - destruct (copy_values filtered decoded dv); discriminate.
Qed.

(* The while loop of Frame.decode's extended branch always finishes within len(signals) rounds when signal names
   are unique - whatever the parent references look like (cycles among them are never entered: the walk starts at a
   multiplexer without parent and each step moves to a signal whose parent is the current one). *)
Theorem decode_complex_fuel_suffices :
  forall f d, unique_names (f_sigs f) -> frame_decode f d <> DOutOfFuel.
Proof.
  intros f d Hn. unfold frame_decode.
  destruct (frame_unpack (f_size f) (map m_sig (f_sigs f)) false false d); try discriminate.
  destruct (f_complex f).
  - apply decode_complex_no_fuel_out. exact Hn.
  - destruct (is_multiplexed (f_sigs f)); [|discriminate].
    unfold decode_simple.
    destruct (last_mux_value (f_sigs f) (dict_of_list vals) None) as [[[v|p]|]|]; try discriminate.
    destruct (copy_values _ _ _); discriminate.
Qed.

(* ---------- the chain of visited multiplexers ---------- *)

Inductive is_chain (sigs : list msignal) (d : list Z) : option msignal -> list (msignal * Z) -> Prop :=
| chain_nil : is_chain sigs d None []
| chain_cons : forall m v c,
    int_value d m = Some v ->
    is_chain sigs d (get_sub_multiplexer sigs (Some (m_name m)) (Some v)) c ->
    is_chain sigs d (Some m) ((m, v) :: c).

Definition chain_names (c : list (msignal * Z)) : list Z := map (fun p => m_name (fst p)) c.
Definition chain_filtered (sigs : list msignal) (c : list (msignal * Z)) : list msignal :=
  flat_map (fun p => filter_signals sigs (Some (m_name (fst p))) (Some (snd p))) c.

Lemma walk_spec : forall sigs d, unique_names sigs ->
  forall fuel sub dv filtered dv' filtered',
    (forall m, sub = Some m -> In m sigs) ->
    walk fuel sigs (decoded_of d sigs) sub dv filtered = WDone dv' filtered' ->
    exists c, is_chain sigs d sub c /\
      (forall n, In n (map fst dv') <-> In n (map fst dv) \/ In n (chain_names c)) /\
      (consistent (decoded_of d sigs) dv -> consistent (decoded_of d sigs) dv') /\
      (NoDup (map fst dv) -> NoDup (map fst dv')) /\
      filtered' = filtered ++ chain_filtered sigs c.
Proof.
  intros sigs d Hn. induction fuel as [|f IH]; intros sub dv filtered dv' filtered' Hsub Hw.
  - destruct sub as [m|]; [cbn in Hw; discriminate|].
    cbn in Hw. assert (dv' = dv /\ filtered' = filtered) as [-> ->] by (split; congruence).
    exists []. split; [constructor|]. split; [intro n; cbn; tauto|].
    split; [auto|]. split; [auto|]. cbn. rewrite app_nil_r. reflexivity.
  - destruct sub as [m|].
    2:{ cbn in Hw. assert (dv' = dv /\ filtered' = filtered) as [-> ->] by (split; congruence).
        exists []. split; [constructor|]. split; [intro n; cbn; tauto|].
        split; [auto|]. split; [auto|]. cbn. rewrite app_nil_r. reflexivity. }
    cbn [walk] in Hw. pose proof (lookup_decoded d sigs m Hn (Hsub m eq_refl)) as Hl.
    rewrite Hl in Hw. destruct (convention_value d (m_sig m)) as [v|pat] eqn:Ecv; [|discriminate].
    apply IH in Hw.
    2:{ intros m2 H2. apply get_sub_some in H2. apply H2. }
    destruct Hw as [c [Hc [Hk [Hcons [Hnd Hf]]]]].
    exists ((m, v) :: c). split; [|split; [|split; [|split]]].
    + constructor; [|exact Hc]. unfold int_value. rewrite Ecv. reflexivity.
    + intro n. rewrite Hk. rewrite dict_set_keys. unfold chain_names. cbn [map fst In]. intuition.
    + intro H. apply Hcons. apply consistent_set; [exact H|exact Hl].
    + intro H. apply Hnd. apply dict_set_nodup. exact H.
    + rewrite Hf. unfold chain_filtered. cbn [flat_map fst snd]. rewrite <- app_assoc. reflexivity.
Qed.

Lemma walk_no_error : forall sigs d fsize, unique_names sigs -> placed fsize sigs ->
  forall fuel sub dv filtered,
    (forall m, sub = Some m -> In m sigs /\ m_is_mux m = true) ->
    walk fuel sigs (decoded_of d sigs) sub dv filtered <> WKeyError /\
    walk fuel sigs (decoded_of d sigs) sub dv filtered <> WFloat.
Proof.
  intros sigs d fsize Hn Hp. induction fuel as [|f IH]; intros sub dv filtered Hsub.
  - destruct sub; cbn; split; discriminate.
  - destruct sub as [m|]; [|cbn; split; discriminate].
    destruct (Hsub m eq_refl) as [Hin Hmux].
    cbn [walk]. rewrite (lookup_decoded d sigs m Hn Hin).
    destruct (mux_int_value fsize sigs d m Hp Hin Hmux) as [v [Hcv _]]. rewrite Hcv.
    apply IH. intros m2 H2. apply get_sub_some in H2. split; apply H2.
Qed.

(* ---------- visited multiplexers are active ---------- *)

Lemma chain_props : forall sigs d sub c, is_chain sigs d sub c ->
  (forall m, sub = Some m -> In m sigs /\ m_is_mux m = true /\ Active sigs d m) ->
  forall m v, In (m, v) c ->
    In m sigs /\ m_is_mux m = true /\ Active sigs d m /\ int_value d m = Some v.
Proof.
  intros sigs d sub c Hc. induction Hc as [|m0 v0 c Hv Hc IH]; intros Hsub m v Hin.
  - destruct Hin.
  - destruct (Hsub m0 eq_refl) as [H1 [H2 H3]]. destruct Hin as [E|Hin].
    + assert (m0 = m /\ v0 = v) as [<- <-] by (split; congruence). repeat split; assumption.
    + apply IH; [|exact Hin].
      intros m2 Hm2. apply get_sub_some in Hm2. destruct Hm2 as [G1 [G2 [G3 G4]]].
      split; [exact G1|]. split; [exact G2|].
      apply (Active_child sigs d m2 m0 v0); assumption.
Qed.

Lemma chain_next : forall sigs d sub c, is_chain sigs d sub c ->
  forall m v s, In (m, v) c -> get_sub_multiplexer sigs (Some (m_name m)) (Some v) = Some s ->
  exists v2, In (s, v2) c.
Proof.
  intros sigs d sub c Hc. induction Hc as [|m0 v0 c Hv Hc IH]; intros m v s Hin Hs.
  - destruct Hin.
  - destruct Hin as [E|Hin].
    + assert (m0 = m /\ v0 = v) as [<- <-] by (split; congruence).
      rewrite Hs in Hc. inversion Hc as [|m' v' c' Hv' Hc' E1 E2]. subst.
      exists v'. right. left. reflexivity.
    + destruct (IH m v s Hin Hs) as [v2 H2]. exists v2. right. exact H2.
Qed.

Lemma chain_head : forall sigs d s c, is_chain sigs d (Some s) c -> exists v, In (s, v) c.
Proof.
  intros sigs d s c Hc. inversion Hc as [|m' v' c' Hv' Hc' E1 E2]. subst.
  exists v'. left. reflexivity.
Qed.

(* ---------- what the decoder returns = what is active ---------- *)

Definition out_set (sigs : list msignal) (c : list (msignal * Z)) (s : msignal) : Prop :=
  In s (map fst c) \/ In s (filter_signals sigs None None) \/ In s (chain_filtered sigs c).

Lemma filter_signals_in : forall sigs pn pv s, In s (filter_signals sigs pn pv) <->
  In s sigs /\ ((value_in_range s pv = true /\ m_parent s = pn /\ m_is_mux s = false) \/ Some (m_name s) = pn).
Proof.
  intros sigs pn pv s. unfold filter_signals. rewrite filter_In. unfold filter_pred.
  rewrite orb_true_iff, !andb_true_iff, negb_true_iff, !opt_eqb_eq. tauto.
Qed.

Lemma chain_filtered_in : forall sigs c s, In s (chain_filtered sigs c) <->
  exists m v, In (m, v) c /\ In s (filter_signals sigs (Some (m_name m)) (Some v)).
Proof.
  intros sigs c s. unfold chain_filtered. rewrite in_flat_map. split.
  - intros [[m v] [H1 H2]]. exists m, v. split; assumption.
  - intros [m [v [H1 H2]]]. exists (m, v). split; assumption.
Qed.

Lemma out_active : forall sigs d c, wf_ext sigs ->
  is_chain sigs d (get_sub_multiplexer sigs None None) c ->
  forall s, out_set sigs c s <-> (In s sigs /\ Active sigs d s).
Proof.
  intros sigs d c [Hn [Hroot Hchild]] Hc.
  assert (Hstart : forall m, get_sub_multiplexer sigs None None = Some m ->
                     In m sigs /\ m_is_mux m = true /\ Active sigs d m).
  { intros m Hm. apply get_sub_some in Hm. destruct Hm as [G1 [G2 [G3 G4]]].
    split; [exact G1|]. split; [exact G2|]. apply Active_unbound; [exact G1|exact G3|].
    rewrite value_in_range_none in G4. apply is_none_eq. exact G4. }
  pose proof (chain_props sigs d _ c Hc Hstart) as Hprops.
  intro s. split.
  - intros [H|[H|H]].
    + apply in_map_iff in H. destruct H as [[m v] [E H]]. cbn in E. subst m.
      destruct (Hprops s v H) as [H1 [_ [H3 _]]]. split; assumption.
    + apply filter_signals_in in H. destruct H as [Hin [[H1 [H2 H3]]|H1]]; [|discriminate].
      split; [exact Hin|]. apply Active_unbound; [exact Hin|exact H2|].
      rewrite value_in_range_none in H1. apply is_none_eq. exact H1.
    + apply chain_filtered_in in H. destruct H as [m [v [Hmv H]]].
      destruct (Hprops m v Hmv) as [P1 [P2 [P3 P4]]].
      apply filter_signals_in in H. destruct H as [Hin [[H1 [H2 H3]]|H1]].
      * split; [exact Hin|]. apply (Active_child sigs d s m v); assumption.
      * assert (s = m).
        { apply (unique_names_inj sigs); [exact Hn|exact Hin|exact P1|congruence]. }
        subst s. split; assumption.
  - intros [Hin Hact]. clear Hin.
    induction Hact as [s Hin Hpar Hmv|s m v Hin Hinm Hmux Hpar Hactm IH Hv Hr].
    + destruct (m_is_mux s) eqn:Es.
      * left.
        assert (Hsp : sub_pred None None s = true).
        { apply sub_pred_intro; [exact Es|exact Hpar|]. rewrite value_in_range_none, Hmv. reflexivity. }
        destruct (find_exists _ (sub_pred None None) sigs s Hin Hsp) as [m0 Hm0].
        pose proof Hm0 as Hm0'. apply find_some in Hm0'. destruct Hm0' as [G1 G2].
        assert (m0 = s) by (apply Hroot; assumption). subst m0.
        unfold get_sub_multiplexer in Hc. rewrite Hm0 in Hc.
        destruct (chain_head _ _ _ _ Hc) as [v0 Hv0].
        apply in_map_iff. exists (s, v0). split; [reflexivity|exact Hv0].
      * right. left. apply filter_signals_in. split; [exact Hin|]. left.
        split; [|split; [exact Hpar|exact Es]].
        rewrite value_in_range_none, Hmv. reflexivity.
    + (* the parent m is a multiplexer in the output, hence visited *)
      assert (Hmc : exists v', In (m, v') c).
      { destruct IH as [H|[H|H]].
        - apply in_map_iff in H. destruct H as [[m' v'] [E H]]. cbn in E. subst m'. exists v'. exact H.
        - apply filter_signals_in in H. destruct H as [_ [[_ [_ H3]]|H1]]; [congruence|discriminate].
        - apply chain_filtered_in in H. destruct H as [m' [v' [Hmv' H]]].
          destruct (Hprops m' v' Hmv') as [P1 _].
          apply filter_signals_in in H. destruct H as [_ [[_ [_ H3]]|H1]]; [congruence|].
          assert (m = m').
          { apply (unique_names_inj sigs); [exact Hn|exact Hinm|exact P1|congruence]. }
          subst m'. exists v'. exact Hmv'. }
      destruct Hmc as [v' Hmc].
      destruct (Hprops m v' Hmc) as [_ [_ [_ Hv']]].
      assert (v' = v) by congruence. subst v'.
      destruct (m_is_mux s) eqn:Es.
      * left.
        assert (Hsp : sub_pred (Some (m_name m)) (Some v) s = true) by (apply sub_pred_intro; assumption).
        destruct (find_exists _ (sub_pred (Some (m_name m)) (Some v)) sigs s Hin Hsp) as [s0 Hs0].
        pose proof Hs0 as Hs0'. apply find_some in Hs0'. destruct Hs0' as [G1 G2].
        assert (s0 = s) by (apply (Hchild (m_name m) v); assumption). subst s0.
        destruct (chain_next sigs d _ c Hc m v s Hmc Hs0) as [v2 H2].
        apply in_map_iff. exists (s, v2). split; [reflexivity|exact H2].
      * right. right. apply chain_filtered_in. exists m, v. split; [exact Hmc|].
        apply filter_signals_in. split; [exact Hin|]. left. repeat split; assumption.
Qed.

(* Decoding an extended-multiplexing frame returns exactly the active signals, each once, each with the
   convention's value (C01): an entry (n, x) is returned iff n names an active signal whose value in d is x. *)
Theorem decode_complex_iff_active :
  forall f d,
    f_complex f = true -> wf_ext (f_sigs f) -> placed (f_size f) (f_sigs f) -> zlen d = f_size f ->
    exists vals, frame_decode f d = DOk vals /\ NoDup (map fst vals) /\
      forall n x, In (n, x) vals <->
        exists s, In s (f_sigs f) /\ m_name s = n /\ Active (f_sigs f) d s /\
                  x = convention_value d (m_sig s).
Proof.
  intros f d Hc Hwf Hp Hl. pose proof Hwf as [Hn _].
  destruct (unpack_msigs f d Hn Hp Hl) as [Hu Hd].
  unfold frame_decode. rewrite Hu, Hd, Hc. unfold decode_complex.
  set (sigs := f_sigs f) in *. set (decoded := decoded_of d sigs).
  assert (Hsub0 : forall m, get_sub_multiplexer sigs None None = Some m -> In m sigs /\ m_is_mux m = true).
  { intros m Hm. apply get_sub_some in Hm. split; apply Hm. }
  destruct (walk (length sigs) sigs decoded (get_sub_multiplexer sigs None None) []
                 (filter_signals sigs None None)) as [| | |dv filtered] eqn:Ew.
  - exfalso. apply (walk_no_error sigs d (f_size f) Hn Hp _ _ _ _ Hsub0) in Ew. exact Ew.
  - exfalso. apply (walk_no_error sigs d (f_size f) Hn Hp _ _ _ _ Hsub0) in Ew. exact Ew.
  - exfalso. revert Ew.
    apply (walk_fuel sigs decoded Hn (length sigs) _ [] _ [] I (NoDup_nil _) (incl_nil_l _)).
    + intros m Hm. apply get_sub_some in Hm. destruct Hm as [H1 [_ [H3 _]]].
      split; [exact H1|]. split; [intros []|exact H3].
    + cbn [length]. lia.
  - apply (walk_spec sigs d Hn) in Ew.
    2:{ intros m Hm. apply Hsub0. exact Hm. }
    destruct Ew as [c [Hchain [Hk [Hcons [Hnd Hf]]]]].
    assert (Hfin : forall s, In s filtered -> In s sigs).
    { intros s Hs. rewrite Hf in Hs. apply in_app_or in Hs. destruct Hs as [Hs|Hs].
      - apply filter_signals_in in Hs. apply Hs.
      - apply chain_filtered_in in Hs. destruct Hs as [m [v [_ Hs]]]. apply filter_signals_in in Hs. apply Hs. }
    destruct (copy_values_spec decoded filtered dv) as [vals [Hcp [Hk2 [Hcons2 Hnd2]]]].
    { intros s Hs. unfold decoded. rewrite (lookup_decoded d sigs s Hn (Hfin s Hs)). discriminate. }
    rewrite Hcp. exists vals. split; [reflexivity|].
    split; [apply Hnd2; apply Hnd; constructor|].
    pose proof (Hcons2 (Hcons (consistent_nil decoded))) as Hcv.
    pose proof (out_active sigs d c Hwf Hchain) as Hout.
    assert (Hkeys : forall n, In n (map fst vals) <-> exists s, out_set sigs c s /\ m_name s = n).
    { intro n. rewrite Hk2, Hk. cbn [map In]. unfold out_set, chain_names. split.
      - intros [[[]|H]|H].
        + apply in_map_iff in H. destruct H as [[m v] [E H]]. cbn in E.
          exists m. split; [|exact E]. left. apply in_map_iff. exists (m, v). split; [reflexivity|exact H].
        + apply in_map_iff in H. destruct H as [s [E H]]. exists s. split; [|exact E].
          rewrite Hf in H. apply in_app_or in H. destruct H as [H|H]; [right; left; exact H|right; right; exact H].
      - intros [s [[H|[H|H]] E]].
        + left. right. apply in_map_iff in H. destruct H as [[m v] [E2 H]]. cbn in E2. subst m.
          apply in_map_iff. exists (s, v). split; [exact E|exact H].
        + right. apply in_map_iff. exists s. split; [exact E|]. rewrite Hf. apply in_or_app. left. exact H.
        + right. apply in_map_iff. exists s. split; [exact E|]. rewrite Hf. apply in_or_app. right. exact H. }
    intros n x. rewrite (consistent_entries decoded vals n x Hcv). rewrite Hkeys. split.
    + intros [[s [Hos E]] Hlk]. apply Hout in Hos. destruct Hos as [Hin Hact].
      exists s. split; [exact Hin|]. split; [exact E|]. split; [exact Hact|].
      unfold decoded in Hlk. rewrite <- E in Hlk. rewrite (lookup_decoded d sigs s Hn Hin) in Hlk. congruence.
    + intros [s [Hin [E [Hact Hx]]]]. split.
      * exists s. split; [|exact E]. apply Hout. split; assumption.
      * subst n x. apply (lookup_decoded d sigs s Hn Hin).
Qed.
