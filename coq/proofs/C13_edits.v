(* C13: every compared property, when it differs between two matched objects, is reported below the objects
   concerned with the right kind. *)
From CM Require Import lib.Prelude model.Compare model.CompareSpec proofs.C13_lib proofs.C13_nodiff.

(* ------------------------------------------------------------------ membership in the shared shapes *)
Lemma chgl_in : forall same ty n, same = false -> In (leaf RChanged ty n) (chgl same ty n).
Proof. intros same ty n H. subst. left. reflexivity. Qed.

Lemma dict_kids_in_del : forall {A} del chg add (d1 d2 : list (Z * A)) k v x,
  In (k, v) d1 -> lookup k d2 = None -> In x (del k v) -> In x (dict_kids del chg add d1 d2).
Proof.
  intros A del chg add d1 d2 k v x H1 H2 Hx. unfold dict_kids. apply in_or_app. left.
  apply in_flat_map. exists (k, v). split; [exact H1|]. cbn. rewrite H2. exact Hx.
Qed.
Lemma dict_kids_in_chg : forall {A} del chg add (d1 d2 : list (Z * A)) k v v2 x,
  In (k, v) d1 -> lookup k d2 = Some v2 -> In x (chg k v v2) -> In x (dict_kids del chg add d1 d2).
Proof.
  intros A del chg add d1 d2 k v v2 x H1 H2 Hx. unfold dict_kids. apply in_or_app. left.
  apply in_flat_map. exists (k, v). split; [exact H1|]. cbn. rewrite H2. exact Hx.
Qed.
Lemma dict_kids_in_add : forall {A} del chg add (d1 d2 : list (Z * A)) k v x,
  In (k, v) d2 -> lookup k d1 = None -> In x (add k v) -> In x (dict_kids del chg add d1 d2).
Proof.
  intros A del chg add d1 d2 k v x H1 H2 Hx. unfold dict_kids. apply in_or_app. right.
  apply in_flat_map. exists (k, v). split; [exact H1|]. cbn. rewrite H2. exact Hx.
Qed.
Lemma set_part_in : forall {A} (key : A -> Z) lf (l : list A) other x,
  In x l -> ~ In (key x) other -> In (lf x) (set_part key lf l other).
Proof.
  intros A key lf l other x Hx Hn. unfold set_part. apply in_flat_map. exists x. split; [exact Hx|].
  apply mem_false in Hn. rewrite Hn. left. reflexivity.
Qed.
Lemma named_part1_in : forall {A} (name : A -> Z) del cmp (l1 l2 : list A) x,
  In x l1 -> In (match find (fun z => name z =? name x) l2 with None => del x | Some y => cmp x y end)
                (named_part1 name del cmp l1 l2).
Proof. intros A name del cmp l1 l2 x Hx. unfold named_part1. apply in_map_iff. exists x. split; [reflexivity | exact Hx]. Qed.
Lemma named_part2_in : forall {A} (name : A -> Z) add (l1 l2 : list A) y,
  In y l2 -> find (fun z => name z =? name y) l1 = None -> In (add y) (named_part2 name add l1 l2).
Proof.
  intros A name add l1 l2 y Hy Hn. unfold named_part2. apply in_flat_map. exists y. split; [exact Hy|].
  rewrite Hn. left. reflexivity.
Qed.

(* ------------------------------------------------------------------ from the raw tree to the answer of compare_db *)
Lemma report_via : forall ign a b r path res ty ref, compare_db ign a b = Some r -> is_equal res = false ->
  reports0 (compare_db_t ign a b) path res ty ref -> reports r path res ty ref.
Proof. intros ign a b r path res ty ref H Hr H0. apply compare_db_some in H. subst r. apply reports_propagate; assumption. Qed.

Lemma in_db_frame : forall ign a b f1 f2, In f1 (m_frames a) -> partner a b f1 = Some f2 ->
  In (compare_frame_t ign f1 f2) (db_kids ign a b).
Proof.
  intros ign a b f1 f2 H1 H2. unfold db_kids. apply in_or_app. left. apply in_map_iff. exists f1.
  rewrite H2. split; [reflexivity | exact H1].
Qed.
Lemma in_frame_signal : forall ign f1 f2 s1 s2, In s1 (fr_signals f1) -> signal_by_name (sg_name s1) f2 = Some s2 ->
  In (compare_signal_t ign s1 s2) (frame_kids ign f1 f2).
Proof.
  intros ign f1 f2 s1 s2 H1 H2. unfold frame_kids. apply in_or_app. left.
  pose proof (named_part1_in sg_name (fun s => leaf RDeleted TSIGNAL (sg_name s)) (compare_signal_t ign)
                (fr_signals f1) (fr_signals f2) s1 H1) as H. unfold signal_by_name in H2. rewrite H2 in H. exact H.
Qed.

(* a leaf directly below a frame / signal / ECU node *)
Lemma frame_leaf : forall ign a b f1 f2 x, In f1 (m_frames a) -> partner a b f1 = Some f2 ->
  In x (frame_kids ign f1 f2) ->
  forall res ty ref, x = Node res ty ref [] -> reports0 (compare_db_t ign a b) [(TFRAME, fr_name f1)] res ty ref.
Proof.
  intros ign a b f1 f2 x H1 H2 Hx res ty ref E. subst x. cbn. exists (compare_frame_t ign f1 f2).
  split; [apply in_db_frame; assumption|]. repeat split. exact Hx.
Qed.
Lemma frame_sub : forall ign a b f1 f2 c, In f1 (m_frames a) -> partner a b f1 = Some f2 ->
  In c (frame_kids ign f1 f2) ->
  forall rest res ty ref, reports0 c rest res ty ref ->
  reports0 (compare_db_t ign a b) ((TFRAME, fr_name f1) :: (type_of c, ref_of c) :: rest) res ty ref.
Proof.
  intros ign a b f1 f2 c H1 H2 Hc rest res ty ref Hr. cbn. exists (compare_frame_t ign f1 f2).
  split; [apply in_db_frame; assumption|]. repeat split. exists c. repeat split; assumption.
Qed.

Lemma by_name_partner : forall a f1 b f2, frame_by_name (fr_name f1) b = Some f2 -> partner a b f1 = Some f2.
Proof. intros a f1 b f2 H. unfold partner. rewrite H. reflexivity. Qed.

(* ------------------------------------------------------------------ dict-valued properties *)
Lemma dict_lift : forall {A} (t c : cres) (path : list (ctype * Z)) (d1 d2 : list (Z * A))
    (del : Z -> A -> list cres) chg add tdel tchg tadd rdel ref refchg,
  NoDup (keys d2) -> is_equal rdel = false ->
  (forall res ty rf, is_equal res = false -> In (Node res ty rf []) (dict_kids del chg add d1 d2) -> reports t path res ty rf) ->
  (forall k v, In (leaf rdel (tdel k v) (ref v)) (del k v)) ->
  (forall k v v2, v <> v2 -> In (leaf RChanged (tchg k v) (refchg v)) (chg k v v2)) ->
  (forall k v, In (leaf RAdded (tadd k v) (ref v)) (add k v)) ->
  dict_edits_reported t path d1 d2 tdel tchg tadd rdel ref refchg.
Proof.
  intros A t c path d1 d2 del chg add tdel tchg tadd rdel ref refchg N2 Hr L Hdel Hchg Hadd.
  unfold dict_edits_reported. split; [|split].
  - intros k v Ha Hb. apply L; [exact Hr|]. apply lookup_none in Hb.
    eapply dict_kids_in_del; [exact Ha | exact Hb | apply Hdel].
  - intros k v v2 Ha Hb Hc. apply L; [reflexivity|].
    eapply dict_kids_in_chg; [exact Ha | apply lookup_nodup; eassumption | apply Hchg; exact Hc].
  - intros k v Ha Hb. apply L; [reflexivity|]. apply lookup_none in Hb.
    eapply dict_kids_in_add; [exact Ha | exact Hb | apply Hadd].
Qed.

Lemma if_neq_in : forall (v v2 : Z) (x : cres), v <> v2 -> In x (if v =? v2 then [] else [x]).
Proof. intros v v2 x H. apply Z.eqb_neq in H. rewrite H. left. reflexivity. Qed.

(* attributes below a node reached by `path`: c is the ATTRIBUTES node *)
Lemma attrs_lift : forall ign t path n a1 a2, ig_attr ign = false -> NoDup (keys a2) ->
  (forall res ty rf, is_equal res = false -> reports0 (compare_attributes ign n a1 a2) [] res ty rf -> reports t path res ty rf) ->
  attrs_reported t path a1 a2.
Proof.
  intros ign t path n a1 a2 Hi N2 L. unfold attrs_reported.
  eapply (dict_lift t (compare_attributes ign n a1 a2) path a1 a2); [exact N2 | reflexivity | | | |].
  - intros res ty rf Hr Hin. apply L; [exact Hr|]. rewrite compare_attributes_shape, Hi. cbn [reports0 kids_of]. exact Hin.
  - intros k v. left. reflexivity.
  - intros k v v2 Hne. cbn beta. apply (if_neq_in v v2 _ Hne).
  - intros k v. left. reflexivity.
Qed.
Lemma values_lift : forall t path ref vt1 vt2, NoDup (keys vt2) ->
  (forall res ty rf, is_equal res = false -> reports0 (compare_value_table ref vt1 vt2) [] res ty rf -> reports t path res ty rf) ->
  values_reported t path vt1 vt2.
Proof.
  intros t path ref vt1 vt2 N2 L. unfold values_reported.
  eapply (dict_lift t (compare_value_table ref vt1 vt2) path vt1 vt2); [exact N2 | reflexivity | | | |].
  - intros res ty rf Hr Hin. apply L; [exact Hr|]. rewrite compare_value_table_shape. cbn [reports0 kids_of]. exact Hin.
  - intros k v. left. reflexivity.
  - intros k v v2 Hne. cbn beta. apply (if_neq_in v v2 _ Hne).
  - intros k v. left. reflexivity.
Qed.

Lemma type_of_compare_attributes : forall ign n a1 a2, type_of (compare_attributes ign n a1 a2) = TATTRIBUTES.
Proof. intros. unfold compare_attributes. destruct (ig_attr ign); reflexivity. Qed.
Lemma ref_of_compare_attributes : forall ign n a1 a2, ref_of (compare_attributes ign n a1 a2) = n.
Proof. intros. unfold compare_attributes. destruct (ig_attr ign); reflexivity. Qed.

Ltac kid_by := cbv zeta; rewrite !in_app_iff; tauto.
Ltac splits n := match n with O => idtac | S ?k => split; [|splits k] end.

(* ------------------------------------------------------------------ signals *)
Lemma signal_node : forall ign a b f1 f2 s1 s2, In f1 (m_frames a) -> partner a b f1 = Some f2 ->
  In s1 (fr_signals f1) -> signal_by_name (sg_name s1) f2 = Some s2 ->
  forall rest res ty ref, reports0 (compare_signal_t ign s1 s2) rest res ty ref ->
  reports0 (compare_db_t ign a b) ((TFRAME, fr_name f1) :: (TSIGNAL, sg_name s1) :: rest) res ty ref.
Proof.
  intros ign a b f1 f2 s1 s2 H1 H2 H3 H4 rest res ty ref Hr.
  apply (frame_sub ign a b f1 f2 (compare_signal_t ign s1 s2) H1 H2 (in_frame_signal ign f1 f2 s1 s2 H3 H4) rest res ty ref Hr).
Qed.

Lemma signal_edit_reported : forall ign a b r f1 f2 s1 s2,
  wf_matrix b -> compare_db ign a b = Some r ->
  In f1 (m_frames a) -> In f2 (m_frames b) -> fr_name f2 = fr_name f1 ->
  In s1 (fr_signals f1) -> In s2 (fr_signals f2) -> sg_name s2 = sg_name s1 ->
  let P := [(TFRAME, fr_name f1); (TSIGNAL, sg_name s1)] in
  let n := sg_name s1 in
  (sg_start s1 <> sg_start s2 -> reports r P RChanged Tstartbit n) /\
  (sg_size s1 <> sg_size s2 -> reports r P RChanged Tsignalsize n) /\
  (sg_le s1 <> sg_le s2 -> reports r P RChanged Tis_little_endian n) /\
  (sg_signed s1 <> sg_signed s2 -> reports r P RChanged Tsign n) /\
  (sg_factor s1 <> sg_factor s2 -> reports r P RChanged Tfactor n) /\
  (sg_offset s1 <> sg_offset s2 -> reports r P RChanged Toffset n) /\
  (sg_min s1 <> sg_min s2 -> reports r P RChanged Tmin n) /\
  (sg_max s1 <> sg_max s2 -> reports r P RChanged Tmax n) /\
  (sg_mux s1 <> sg_mux s2 -> reports r P RChanged Tmultiplex n) /\
  (sg_unit s1 <> sg_unit s2 -> reports r P RChanged Tunit n) /\
  (ig_comment ign = false -> comment_text (sg_comment s1) <> comment_text (sg_comment s2) -> reports r P RChanged Tcomment n) /\
  (forall x, In x (sg_receivers s1) -> ~ In (snd x) (map snd (sg_receivers s2)) -> reports r P RRemoved (Treceiver (fst x)) (-1)) /\
  (forall x, In x (sg_receivers s2) -> ~ In (snd x) (map snd (sg_receivers s1)) -> reports r P RAdded (Treceiver (fst x)) (-1)) /\
  (ig_attr ign = false -> attrs_reported r (P ++ [(TATTRIBUTES, n)]) (sg_attrs s1) (sg_attrs s2)) /\
  (ig_vt ign = false -> values_reported r (P ++ [(TValuetable, -1)]) (sg_values s1) (sg_values s2)).
Proof.
  intros ign a b r f1 f2 s1 s2 Wb H Hf1 Hf2 En Hs1 Hs2 Esn P n. subst P n.
  destruct Wb as [Nfb [_ [Ffb _]]].
  assert (Hp : partner a b f1 = Some f2).
  { apply by_name_partner. unfold frame_by_name. rewrite <- En. apply find_name_nodup; assumption. }
  rewrite Forall_forall in Ffb. destruct (Ffb f2 Hf2) as [[Ns2 _] [_ Ds2]].
  assert (Hsn : signal_by_name (sg_name s1) f2 = Some s2).
  { unfold signal_by_name. rewrite <- Esn. apply find_name_nodup; assumption. }
  rewrite Forall_forall in Ds2. destruct (Ds2 s2 Hs2) as [Nv2 Na2].
  assert (L : forall res ty ref, is_equal res = false -> In (Node res ty ref []) (signal_kids ign s1 s2) ->
                reports r [(TFRAME, fr_name f1); (TSIGNAL, sg_name s1)] res ty ref).
  { intros res ty ref Hr Hin. eapply report_via; [exact H | exact Hr|].
    apply (signal_node ign a b f1 f2 s1 s2 Hf1 Hp Hs1 Hsn [] res ty ref). exact Hin. }
  assert (L3 : forall c, In c (signal_kids ign s1 s2) -> forall res ty ref, is_equal res = false ->
                reports0 c [] res ty ref ->
                reports r ([(TFRAME, fr_name f1); (TSIGNAL, sg_name s1)] ++ [(type_of c, ref_of c)]) res ty ref).
  { intros c Hc res ty ref Hr H0. eapply report_via; [exact H | exact Hr|].
    apply (signal_node ign a b f1 f2 s1 s2 Hf1 Hp Hs1 Hsn [(type_of c, ref_of c)] res ty ref).
    cbn. exists c. repeat split; assumption. }
  splits 14%nat.
  - intro D. apply L; [reflexivity|]. apply Z.eqb_neq in D.
    pose proof (chgl_in _ Tstartbit (sg_name s1) D). unfold signal_kids. kid_by.
  - intro D. apply L; [reflexivity|]. apply Z.eqb_neq in D.
    pose proof (chgl_in _ Tsignalsize (sg_name s1) D). unfold signal_kids. kid_by.
  - intro D. apply L; [reflexivity|].
    assert (D' : Bool.eqb (sg_le s1) (sg_le s2) = false) by (destruct (sg_le s1), (sg_le s2); cbn; congruence).
    pose proof (chgl_in _ Tis_little_endian (sg_name s1) D'). unfold signal_kids. kid_by.
  - intro D. apply L; [reflexivity|].
    assert (D' : Bool.eqb (sg_signed s1) (sg_signed s2) = false) by (destruct (sg_signed s1), (sg_signed s2); cbn; congruence).
    pose proof (chgl_in _ Tsign (sg_name s1) D'). unfold signal_kids. kid_by.
  - intro D. apply L; [reflexivity|]. apply Z.eqb_neq in D.
    pose proof (chgl_in _ Tfactor (sg_name s1) D). unfold signal_kids. kid_by.
  - intro D. apply L; [reflexivity|]. apply Z.eqb_neq in D.
    pose proof (chgl_in _ Toffset (sg_name s1) D). unfold signal_kids. kid_by.
  - intro D. apply L; [reflexivity|].
    assert (D' : opt_eqb (sg_min s1) (sg_min s2) = false)
      by (destruct (opt_eqb (sg_min s1) (sg_min s2)) eqn:E; [apply opt_eqb_eq in E; contradiction | reflexivity]).
    pose proof (chgl_in _ Tmin (sg_name s1) D'). unfold signal_kids. kid_by.
  - intro D. apply L; [reflexivity|].
    assert (D' : opt_eqb (sg_max s1) (sg_max s2) = false)
      by (destruct (opt_eqb (sg_max s1) (sg_max s2)) eqn:E; [apply opt_eqb_eq in E; contradiction | reflexivity]).
    pose proof (chgl_in _ Tmax (sg_name s1) D'). unfold signal_kids. kid_by.
  - intro D. apply L; [reflexivity|].
    assert (D' : mux_eqb (sg_mux s1) (sg_mux s2) = false)
      by (destruct (mux_eqb (sg_mux s1) (sg_mux s2)) eqn:E; [apply mux_eqb_eq in E; contradiction | reflexivity]).
    pose proof (chgl_in _ Tmultiplex (sg_name s1) D'). unfold signal_kids. kid_by.
  - intro D. apply L; [reflexivity|]. apply Z.eqb_neq in D.
    pose proof (chgl_in _ Tunit (sg_name s1) D). unfold signal_kids. kid_by.
  - intros Hi D. apply L; [reflexivity|]. apply Z.eqb_neq in D.
    pose proof (chgl_in _ Tcomment (sg_name s1) D). unfold signal_kids. rewrite Hi. kid_by.
  - intros x Hx Hn. apply L; [reflexivity|].
    pose proof (set_part_in snd (fun r => leaf RRemoved (Treceiver (fst r)) (-1)) _ _ x Hx Hn). unfold signal_kids. kid_by.
  - intros x Hx Hn. apply L; [reflexivity|].
    pose proof (set_part_in snd (fun r => leaf RAdded (Treceiver (fst r)) (-1)) _ _ x Hx Hn). unfold signal_kids. kid_by.
  - intro Hi. eapply (attrs_lift ign r _ (sg_name s1)); [exact Hi | exact Na2|].
    intros res ty rf Hr H0.
    assert (Hc : In (compare_attributes ign (sg_name s1) (sg_attrs s1) (sg_attrs s2)) (signal_kids ign s1 s2));
      [|pose proof (L3 _ Hc res ty rf Hr H0) as G;
        rewrite type_of_compare_attributes, ref_of_compare_attributes in G; exact G].
    unfold signal_kids. rewrite Hi.
    assert (In (compare_attributes ign (sg_name s1) (sg_attrs s1) (sg_attrs s2))
               [compare_attributes ign (sg_name s1) (sg_attrs s1) (sg_attrs s2)]) by (left; reflexivity).
    kid_by.
  - intro Hi. eapply (values_lift r _ (-1)); [exact Nv2|].
    intros res ty rf Hr H0.
    apply (L3 (compare_value_table (-1) (sg_values s1) (sg_values s2))); [|exact Hr | exact H0].
    unfold signal_kids. rewrite Hi.
    assert (In (compare_value_table (-1) (sg_values s1) (sg_values s2))
               [compare_value_table (-1) (sg_values s1) (sg_values s2)]) by (left; reflexivity).
    kid_by.
Qed.

(* ------------------------------------------------------------------ frames *)
Lemma frame_edit_reported : forall ign a b r f1 f2,
  wf_matrix b -> compare_db ign a b = Some r ->
  In f1 (m_frames a) -> In f2 (m_frames b) -> fr_name f2 = fr_name f1 ->
  let P := [(TFRAME, fr_name f1)] in
  let n := fr_name f1 in
  (fr_size f1 <> fr_size f2 -> reports r P RChanged Tdlc n) /\
  (fr_id f1 <> fr_id f2 -> reports r P RChanged TID n) /\
  (fr_ext f1 <> fr_ext f2 -> reports r P RChanged TFRAME n) /\
  (ig_comment ign = false -> comment_text (fr_comment f1) <> comment_text (fr_comment f2) -> reports r P RChanged TFRAME n) /\
  (forall t, In t (fr_tx f1) -> ~ In t (fr_tx f2) -> reports r P RRemoved TFrameTransmitter n) /\
  (forall t, In t (fr_tx f2) -> ~ In t (fr_tx f1) -> reports r P RAdded TFrameTransmitter (fr_name f2)) /\
  (forall s, In s (fr_signals f1) -> ~ In (sg_name s) (map sg_name (fr_signals f2)) -> reports r P RDeleted TSIGNAL (sg_name s)) /\
  (forall s, In s (fr_signals f2) -> ~ In (sg_name s) (map sg_name (fr_signals f1)) -> reports r P RAdded TSIGNAL (sg_name s)) /\
  (forall g, In g (fr_groups f1) -> ~ In (gr_name g) (map gr_name (fr_groups f2)) -> reports r P RRemoved TSignalgroup (gr_name g)) /\
  (forall g, In g (fr_groups f2) -> ~ In (gr_name g) (map gr_name (fr_groups f1)) -> reports r P RAdded TSignalgroup (gr_name g)) /\
  (forall g1 g2, In g1 (fr_groups f1) -> In g2 (fr_groups f2) -> gr_name g2 = gr_name g1 ->
     let PG := P ++ [(TSignalGroup, gr_name g1)] in
     (gr_id g1 <> gr_id g2 -> reports r PG RChanged TSignalName (-1)) /\
     (forall m, In m (gr_members g1) -> ~ In m (gr_members g2) -> reports r PG RDeleted (TMember m) m) /\
     (forall m, In m (gr_members g2) -> ~ In m (gr_members g1) -> reports r PG RAdded (TMember m) m)) /\
  (ig_attr ign = false -> attrs_reported r (P ++ [(TATTRIBUTES, n)]) (fr_attrs f1) (fr_attrs f2)).
Proof.
  intros ign a b r f1 f2 Wb H Hf1 Hf2 En P n. subst P n.
  destruct Wb as [Nfb [_ [Ffb _]]].
  assert (Hp : partner a b f1 = Some f2).
  { apply by_name_partner. unfold frame_by_name. rewrite <- En. apply find_name_nodup; assumption. }
  rewrite Forall_forall in Ffb. destruct (Ffb f2 Hf2) as [[Ns2 Ng2] [Na2 _]].
  assert (L : forall res ty ref, is_equal res = false -> In (Node res ty ref []) (frame_kids ign f1 f2) ->
                reports r [(TFRAME, fr_name f1)] res ty ref).
  { intros res ty ref Hr Hin. eapply report_via; [exact H | exact Hr|].
    eapply frame_leaf; [exact Hf1 | exact Hp | exact Hin | reflexivity]. }
  assert (L3 : forall c, In c (frame_kids ign f1 f2) -> forall res ty ref, is_equal res = false ->
                reports0 c [] res ty ref -> reports r ([(TFRAME, fr_name f1)] ++ [(type_of c, ref_of c)]) res ty ref).
  { intros c Hc res ty ref Hr H0. eapply report_via; [exact H | exact Hr|].
    apply (frame_sub ign a b f1 f2 c Hf1 Hp Hc [] res ty ref H0). }
  splits 11%nat.
  - intro D. apply L; [reflexivity|]. apply Z.eqb_neq in D.
    pose proof (chgl_in _ Tdlc (fr_name f1) D). unfold frame_kids. kid_by.
  - intro D. apply L; [reflexivity|]. apply Z.eqb_neq in D.
    pose proof (chgl_in _ TID (fr_name f1) D). unfold frame_kids. kid_by.
  - intro D. apply L; [reflexivity|].
    assert (D' : Bool.eqb (fr_ext f1) (fr_ext f2) = false) by (destruct (fr_ext f1), (fr_ext f2); cbn; congruence).
    pose proof (chgl_in _ TFRAME (fr_name f1) D'). unfold frame_kids. kid_by.
  - intros Hi D. apply L; [reflexivity|]. apply Z.eqb_neq in D.
    pose proof (chgl_in _ TFRAME (fr_name f1) D). unfold frame_kids. rewrite Hi. kid_by.
  - intros t Ht Hn. apply L; [reflexivity|].
    pose proof (set_part_in (fun t => t) (fun _ => leaf RRemoved TFrameTransmitter (fr_name f1)) _ _ t Ht Hn).
    unfold frame_kids. kid_by.
  - intros t Ht Hn. apply L; [reflexivity|].
    pose proof (set_part_in (fun t => t) (fun _ => leaf RAdded TFrameTransmitter (fr_name f2)) _ _ t Ht Hn).
    unfold frame_kids. kid_by.
  - intros s Hs Hn. apply L; [reflexivity|].
    pose proof (named_part1_in sg_name (fun s => leaf RDeleted TSIGNAL (sg_name s)) (compare_signal_t ign)
                  (fr_signals f1) (fr_signals f2) s Hs) as Hk.
    apply (find_name_none sg_name) in Hn. rewrite Hn in Hk. unfold frame_kids. kid_by.
  - intros s Hs Hn. apply L; [reflexivity|]. apply (find_name_none sg_name) in Hn.
    pose proof (named_part2_in sg_name (fun s => leaf RAdded TSIGNAL (sg_name s)) (fr_signals f1) (fr_signals f2) s Hs Hn).
    unfold frame_kids. kid_by.
  - intros g Hg Hn. apply L; [reflexivity|].
    pose proof (named_part1_in gr_name (fun g => leaf RRemoved TSignalgroup (gr_name g)) compare_signal_group
                  (fr_groups f1) (fr_groups f2) g Hg) as Hk.
    apply (find_name_none gr_name) in Hn. rewrite Hn in Hk. unfold frame_kids. kid_by.
  - intros g Hg Hn. apply L; [reflexivity|]. apply (find_name_none gr_name) in Hn.
    pose proof (named_part2_in gr_name (fun g => leaf RAdded TSignalgroup (gr_name g)) (fr_groups f1) (fr_groups f2) g Hg Hn).
    unfold frame_kids. kid_by.
  - intros g1 g2 Hg1 Hg2 Eg PG. subst PG.
    assert (Hc : In (compare_signal_group g1 g2) (frame_kids ign f1 f2)).
    { pose proof (named_part1_in gr_name (fun g => leaf RRemoved TSignalgroup (gr_name g)) compare_signal_group
                    (fr_groups f1) (fr_groups f2) g1 Hg1) as Hk.
      assert (Ef : find (fun z => gr_name z =? gr_name g1) (fr_groups f2) = Some g2)
        by (rewrite <- Eg; apply find_name_nodup; assumption).
      rewrite Ef in Hk. unfold frame_kids. kid_by. }
    assert (LG : forall res ty ref, is_equal res = false -> In (Node res ty ref []) (group_kids g1 g2) ->
                 reports r ([(TFRAME, fr_name f1)] ++ [(TSignalGroup, gr_name g1)]) res ty ref).
    { intros res ty ref Hr Hin. apply (L3 _ Hc res ty ref Hr). rewrite compare_signal_group_shape. exact Hin. }
    splits 2%nat.
    + intro D. apply LG; [reflexivity|]. apply Z.eqb_neq in D.
      pose proof (chgl_in _ TSignalName (-1) D). unfold group_kids. kid_by.
    + intros m Hm Hn. apply LG; [reflexivity|].
      pose proof (set_part_in (fun n => n) (fun n => leaf RDeleted (TMember n) n) _ _ m Hm Hn). unfold group_kids. kid_by.
    + intros m Hm Hn. apply LG; [reflexivity|].
      pose proof (set_part_in (fun n => n) (fun n => leaf RAdded (TMember n) n) _ _ m Hm Hn). unfold group_kids. kid_by.
  - intro Hi. eapply (attrs_lift ign r _ (fr_name f1)); [exact Hi | exact Na2|].
    intros res ty rf Hr H0.
    assert (Hc : In (compare_attributes ign (fr_name f1) (fr_attrs f1) (fr_attrs f2)) (frame_kids ign f1 f2));
      [|pose proof (L3 _ Hc res ty rf Hr H0) as G;
        rewrite type_of_compare_attributes, ref_of_compare_attributes in G; exact G].
    unfold frame_kids. rewrite Hi.
    assert (In (compare_attributes ign (fr_name f1) (fr_attrs f1) (fr_attrs f2))
               [compare_attributes ign (fr_name f1) (fr_attrs f1) (fr_attrs f2)]) by (left; reflexivity).
    kid_by.
Qed.

(* ------------------------------------------------------------------ the frame set *)
Lemma frame_by_id_none : forall f m, frame_by_id f m = None <-> ~ In (arb f) (map arb (m_frames m)).
Proof.
  intros f m. unfold frame_by_id. split.
  - intros H Hin. apply in_map_iff in Hin. destruct Hin as [g [E Hg]].
    pose proof (find_none _ _ H g Hg) as F. cbn in F. unfold arb_eqb, arb in *. inversion E as [[E1 E2]].
    rewrite E1, E2, Z.eqb_refl in F. destruct (fr_ext f); discriminate.
  - intro H. destruct (find (fun g => arb_eqb g f) (m_frames m)) as [g|] eqn:E; [|reflexivity]. exfalso. apply H.
    apply find_some in E. destruct E as [Hg Ha]. unfold arb_eqb in Ha. apply andb_true_iff in Ha. destruct Ha as [A1 A2].
    apply Z.eqb_eq in A1. apply (proj1 (booleqb_eq _ _)) in A2.
    replace (arb f) with (arb g) by (unfold arb; congruence). apply in_map. exact Hg.
Qed.

Lemma frame_by_id_unique : forall f g m, ids_unique m -> In g (m_frames m) -> arb g = arb f -> frame_by_id f m = Some g.
Proof.
  intros f g m U Hg Ea. unfold frame_by_id, ids_unique in *.
  induction (m_frames m) as [|z l IH]; [contradiction|]. cbn in U. inversion U as [|? ? Hnot U']. subst. cbn [find].
  destruct (arb_eqb z f) eqn:E.
  - destruct Hg as [Hg|Hg]; [congruence|]. exfalso. apply Hnot.
    unfold arb_eqb in E. apply andb_true_iff in E. destruct E as [A1 A2]. apply Z.eqb_eq in A1. apply (proj1 (booleqb_eq _ _)) in A2.
    replace (arb z) with (arb g) by (rewrite Ea; unfold arb; congruence). apply in_map. exact Hg.
  - destruct Hg as [Hg|Hg]; [|apply IH; assumption]. subst z. exfalso.
    unfold arb_eqb, arb in *. inversion Ea as [[E1 E2]]. rewrite E1, E2, Z.eqb_refl in E. destruct (fr_ext f); discriminate.
Qed.
Lemma frame_by_id_some : forall f g m, frame_by_id f m = Some g -> In g (m_frames m) /\ arb g = arb f.
Proof.
  intros f g m H. unfold frame_by_id in H. apply find_some in H. destruct H as [Hg Ha]. split; [exact Hg|].
  unfold arb_eqb in Ha. apply andb_true_iff in Ha. destruct Ha as [A1 A2]. apply Z.eqb_eq in A1. apply (proj1 (booleqb_eq _ _)) in A2.
  unfold arb. congruence.
Qed.

(* a frame that the pairing rule leaves alone *)
Lemma unpaired_partner_none : forall a b f1, In f1 (m_frames a) -> (forall f2, ~ paired a b f1 f2) -> partner a b f1 = None.
Proof.
  intros a b f1 H1 Hun. unfold partner.
  destruct (frame_by_name (fr_name f1) b) as [g|] eqn:En.
  - exfalso. unfold frame_by_name in En. apply find_name_some in En. destruct En as [Hg Eg].
    apply (Hun g). split; [exact H1|]. split; [exact Hg|]. left. congruence.
  - destruct (frame_by_id f1 b) as [g|] eqn:Ei; [|reflexivity].
    destruct (frame_by_name (fr_name g) a) as [h|] eqn:Eg; [reflexivity|]. exfalso.
    apply frame_by_id_some in Ei. destruct Ei as [Hg Ea]. apply (Hun g). split; [exact H1|]. split; [exact Hg|]. right.
    unfold frame_by_name in En, Eg. apply (find_name_none fr_name) in En. apply (find_name_none fr_name) in Eg. repeat split; auto.
Qed.
Lemma paired_sym : forall a b f1 f2, paired a b f1 f2 -> paired b a f2 f1.
Proof.
  intros a b f1 f2 [H1 [H2 Hr]]. split; [exact H2|]. split; [exact H1|].
  destruct Hr as [E|[N1 [N2 E]]]; [left; congruence | right; repeat split; auto].
Qed.

Lemma frames_reported : forall ign a b r, compare_db ign a b = Some r ->
  (forall f1, In f1 (m_frames a) -> (forall f2, ~ paired a b f1 f2) -> reports r [] RDeleted TFRAME (fr_name f1)) /\
  (forall f2, In f2 (m_frames b) -> (forall f1, ~ paired a b f1 f2) -> reports r [] RAdded TFRAME (fr_name f2)) /\
  (NoDup (map fr_name (m_frames b)) -> ids_unique b ->
   forall f1 f2, paired a b f1 f2 ->
     exists cf, compare_frame ign f1 f2 = Some cf /\ In (propagate cf) (kids_of r) /\
                type_of cf = TFRAME /\ ref_of cf = fr_name f1 /\
                (fr_name f1 <> fr_name f2 -> reports r [(TFRAME, fr_name f1)] RChanged TName (fr_name f1))).
Proof.
  intros ign a b r H. splits 2%nat.
  - intros f1 Hf Hun. eapply report_via; [exact H | reflexivity|]. cbn [reports0 compare_db_t kids_of].
    unfold db_kids. apply in_or_app. left. apply in_map_iff. exists f1. split; [|exact Hf].
    rewrite (unpaired_partner_none a b f1 Hf Hun). reflexivity.
  - intros f2 Hf Hun. eapply report_via; [exact H | reflexivity|]. cbn [reports0 compare_db_t kids_of].
    unfold db_kids. apply in_or_app. right. apply in_or_app. left. apply in_flat_map. exists f2. split; [exact Hf|].
    rewrite (unpaired_partner_none b a f2 Hf); [left; reflexivity|].
    intros f1 Hp. apply (Hun f1). apply paired_sym. exact Hp.
  - intros Nb Ub f1 f2 [H1 [H2 Hrel]].
    assert (Hp : partner a b f1 = Some f2).
    { unfold partner. destruct Hrel as [En|[N1 [N2 Ea]]].
      - unfold frame_by_name. rewrite En. rewrite (find_name_nodup fr_name _ f2 Nb H2). reflexivity.
      - unfold frame_by_name. apply (find_name_none fr_name) in N1. rewrite N1.
        rewrite (frame_by_id_unique f1 f2 b Ub H2 (eq_sym Ea)).
        apply (find_name_none fr_name) in N2. rewrite N2. reflexivity. }
    (* the answer of compare_frame exists because compare_db answered *)
    assert (Hcf : compare_frame ign f1 f2 = Some (compare_frame_t ign f1 f2)).
    { unfold compare_db in H. destruct (compare_db_raw ign a b) as [t|] eqn:Er; [|discriminate].
      unfold compare_db_raw in Er. destruct (sequence _) as [ks|] eqn:Es; [|discriminate].
      pose proof (sequence_map_some_each _ _ _ Es f1 H1) as Hne. cbn beta in Hne.
      assert (Hx : compare_frame ign f1 f2 <> None).
      { unfold partner in Hp. destruct (frame_by_name (fr_name f1) b) as [g|].
        - inversion Hp. subst. exact Hne.
        - destruct (frame_by_id f1 b) as [g|]; [|discriminate].
          destruct (frame_by_name (fr_name g) a); [discriminate|]. inversion Hp. subst. exact Hne. }
      destruct (compare_frame ign f1 f2) as [cf|] eqn:Ec; [|congruence].
      apply compare_frame_some in Ec. subst. reflexivity. }
    exists (compare_frame_t ign f1 f2). split; [exact Hcf|].
    pose proof (compare_db_some _ _ _ _ H) as Er. subst r. rewrite kids_of_propagate. cbn [kids_of compare_db_t].
    split; [apply in_map; apply in_db_frame; assumption|]. split; [reflexivity|]. split; [reflexivity|].
    intro D. apply reports_propagate; [reflexivity|].
    eapply frame_leaf; [exact H1 | exact Hp | | reflexivity].
    apply Z.eqb_neq in D. pose proof (chgl_in _ TName (fr_name f1) D). unfold frame_kids. kid_by.
Qed.

(* ------------------------------------------------------------------ ECUs *)
Lemma ecu_edit_reported : forall ign a b r, wf_matrix b -> compare_db ign a b = Some r ->
  (forall e, In e (m_ecus a) -> ~ In (ec_name e) (map ec_name (m_ecus b)) -> reports r [] RDeleted Tecu (ec_name e)) /\
  (forall e, In e (m_ecus b) -> ~ In (ec_name e) (map ec_name (m_ecus a)) -> reports r [] RAdded Tecu (ec_name e)) /\
  (forall e1 e2, In e1 (m_ecus a) -> In e2 (m_ecus b) -> ec_name e2 = ec_name e1 ->
     (ig_comment ign = false -> ec_comment e1 <> ec_comment e2 -> reports r [(TECU, ec_name e1)] RChanged TECU (ec_name e1)) /\
     (ig_attr ign = false -> attrs_reported r [(TECU, ec_name e1); (TATTRIBUTES, ec_name e1)] (ec_attrs e1) (ec_attrs e2))).
Proof.
  intros ign a b r Wb H. destruct Wb as [_ [Neb [_ [Feb _]]]]. splits 2%nat.
  - intros e He Hn. eapply report_via; [exact H | reflexivity|]. cbn [reports0 compare_db_t kids_of].
    pose proof (named_part1_in ec_name (fun e => leaf RDeleted Tecu (ec_name e)) (compare_ecu ign) (m_ecus a) (m_ecus b) e He) as Hk.
    apply (find_name_none ec_name) in Hn. rewrite Hn in Hk. unfold db_kids. kid_by.
  - intros e He Hn. eapply report_via; [exact H | reflexivity|]. cbn [reports0 compare_db_t kids_of].
    apply (find_name_none ec_name) in Hn.
    pose proof (named_part2_in ec_name (fun e => leaf RAdded Tecu (ec_name e)) (m_ecus a) (m_ecus b) e He Hn). unfold db_kids. kid_by.
  - intros e1 e2 He1 He2 En.
    assert (Hc : In (compare_ecu ign e1 e2) (db_kids ign a b)).
    { pose proof (named_part1_in ec_name (fun e => leaf RDeleted Tecu (ec_name e)) (compare_ecu ign) (m_ecus a) (m_ecus b) e1 He1) as Hk.
      assert (Ef : find (fun z => ec_name z =? ec_name e1) (m_ecus b) = Some e2)
        by (rewrite <- En; apply find_name_nodup; assumption).
      rewrite Ef in Hk. unfold db_kids. kid_by. }
    rewrite Forall_forall in Feb. pose proof (Feb e2 He2) as Na2. unfold wf_ecu in Na2.
    split.
    + intros Hi D. eapply report_via; [exact H | reflexivity|]. cbn [reports0 compare_db_t kids_of].
      exists (compare_ecu ign e1 e2). split; [exact Hc|]. repeat split. cbn [kids_of compare_ecu]. rewrite Hi.
      apply in_or_app. left.
      destruct (opt_eqb (ec_comment e1) (ec_comment e2)) eqn:E; [apply opt_eqb_eq in E; contradiction|]. left. reflexivity.
    + intro Hi. eapply (attrs_lift ign r _ (ec_name e1)); [exact Hi | exact Na2|].
      intros res ty rf Hr H0. eapply report_via; [exact H | exact Hr|]. cbn [reports0 compare_db_t kids_of].
      exists (compare_ecu ign e1 e2). split; [exact Hc|]. repeat split.
      exists (compare_attributes ign (ec_name e1) (ec_attrs e1) (ec_attrs e2)).
      rewrite type_of_compare_attributes, ref_of_compare_attributes. repeat split; [|exact H0].
      cbn [kids_of compare_ecu]. rewrite Hi. apply in_or_app. right. left. reflexivity.
Qed.

(* ------------------------------------------------------------------ matrix level: attributes, defines, value tables *)
Lemma defines_lift : forall ign a b r ty d1 d2, compare_db ign a b = Some r -> NoDup (keys d2) ->
  In (Node REqual ty (-1) (def_kids d1 d2)) (db_kids ign a b) -> defines_reported r ty d1 d2.
Proof.
  intros ign a b r ty d1 d2 H N2 Hc.
  assert (L : forall res t0 rf, is_equal res = false -> In (Node res t0 rf []) (def_kids d1 d2) ->
                reports r [(ty, -1)] res t0 rf).
  { intros res t0 rf Hr Hin. eapply report_via; [exact H | exact Hr|]. cbn [reports0 compare_db_t kids_of].
    exists (Node REqual ty (-1) (def_kids d1 d2)). repeat split; [exact Hc | exact Hin]. }
  unfold defines_reported. splits 3%nat.
  - intros k v Ha Hb. apply L; [reflexivity|]. apply lookup_none in Hb. unfold def_kids.
    eapply dict_kids_in_del; [exact Ha | exact Hb | left; reflexivity].
  - intros k v v2 Ha Hb D. apply L; [reflexivity|]. unfold def_kids.
    eapply dict_kids_in_chg; [exact Ha | apply lookup_nodup; eassumption|]. cbn beta.
    apply in_or_app. left. apply (if_neq_in _ _ _ D).
  - intros k v v2 Ha Hb D. apply L; [reflexivity|]. unfold def_kids.
    eapply dict_kids_in_chg; [exact Ha | apply lookup_nodup; eassumption|]. cbn beta.
    apply in_or_app. right. apply (if_neq_in _ _ _ D).
  - intros k v Ha Hb. apply L; [reflexivity|]. apply lookup_none in Hb. unfold def_kids.
    eapply dict_kids_in_add; [exact Ha | exact Hb | left; reflexivity].
Qed.

Lemma matrix_edit_reported : forall ign a b r, wf_matrix b -> compare_db ign a b = Some r ->
  (ig_attr ign = false -> attrs_reported r [(TATTRIBUTES, -1)] (m_attrs a) (m_attrs b)) /\
  (ig_def ign = false ->
     defines_reported r TDefineList (m_gdefs a) (m_gdefs b) /\ defines_reported r TEcuDefines (m_edefs a) (m_edefs b) /\
     defines_reported r TFrameDefines (m_fdefs a) (m_fdefs b) /\ defines_reported r TSignalDefines (m_sdefs a) (m_sdefs b)) /\
  (ig_vt ign = false ->
     (forall k t, In (k, t) (m_vtables a) -> ~ In k (keys (m_vtables b)) -> reports r [] RDeleted (Tvaluetable k) (-1)) /\
     (forall k t, In (k, t) (m_vtables b) -> ~ In k (keys (m_vtables a)) -> reports r [] RAdded (Tvaluetable k) (-1)) /\
     (forall k t t2, In (k, t) (m_vtables a) -> In (k, t2) (m_vtables b) -> values_reported r [(TValuetable, k)] t t2)).
Proof.
  intros ign a b r Wb H.
  destruct Wb as [_ [_ [_ [_ [Nab [Ngb [Ndb [Nfdb [Nsb [Nvb Fvb]]]]]]]]]]. splits 2%nat.
  - intro Hi. eapply (attrs_lift ign r _ (-1)); [exact Hi | exact Nab|].
    intros res ty rf Hr H0. eapply report_via; [exact H | exact Hr|]. cbn [reports0 compare_db_t kids_of].
    exists (compare_attributes ign (-1) (m_attrs a) (m_attrs b)).
    rewrite type_of_compare_attributes, ref_of_compare_attributes. repeat split; [|exact H0].
    unfold db_kids. rewrite Hi.
    assert (In (compare_attributes ign (-1) (m_attrs a) (m_attrs b)) [compare_attributes ign (-1) (m_attrs a) (m_attrs b)])
      by (left; reflexivity).
    kid_by.
  - intro Hi.
    assert (Hin : forall x, In x [compare_define_list (m_gdefs a) (m_gdefs b);
                                  set_type TEcuDefines (compare_define_list (m_edefs a) (m_edefs b));
                                  set_type TFrameDefines (compare_define_list (m_fdefs a) (m_fdefs b));
                                  set_type TSignalDefines (compare_define_list (m_sdefs a) (m_sdefs b))] ->
                           In x (db_kids ign a b)).
    { intros x Hx. unfold db_kids. rewrite Hi. kid_by. }
    splits 3%nat; (eapply defines_lift; [exact H | assumption | apply Hin; rewrite !compare_define_list_shape; cbn; tauto]).
  - intro Hi.
    assert (Hin : forall x, In x (dict_kids (fun k (t : dict) => [leaf RDeleted (Tvaluetable k) (-1)])
                                            (fun k t t2 => [compare_value_table k t t2])
                                            (fun k t => [leaf RAdded (Tvaluetable k) (-1)]) (m_vtables a) (m_vtables b)) ->
                           In x (db_kids ign a b)).
    { intros x Hx. unfold db_kids. rewrite Hi. kid_by. }
    splits 2%nat.
    + intros k t Ha Hb. eapply report_via; [exact H | reflexivity|]. cbn [reports0 compare_db_t kids_of]. apply Hin.
      apply lookup_none in Hb. eapply dict_kids_in_del; [exact Ha | exact Hb | left; reflexivity].
    + intros k t Ha Hb. eapply report_via; [exact H | reflexivity|]. cbn [reports0 compare_db_t kids_of]. apply Hin.
      apply lookup_none in Hb. eapply dict_kids_in_add; [exact Ha | exact Hb | left; reflexivity].
    + intros k t t2 Ha Hb. eapply (values_lift r _ k).
      * rewrite Forall_forall in Fvb. apply (Fvb (k, t2) Hb).
      * intros res ty rf Hr H0. eapply report_via; [exact H | exact Hr|]. cbn [reports0 compare_db_t kids_of].
        exists (compare_value_table k t t2). repeat split; [|exact H0]. apply Hin.
        eapply dict_kids_in_chg; [exact Ha | apply lookup_nodup; eassumption | left; reflexivity].
Qed.
