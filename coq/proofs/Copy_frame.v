(* C12: copy_ecu (one ECU) and copy_frame: shape of the result, definitions under the namespace rule, values of the
   copied objects. *)
From CM Require Import lib.Prelude model.CopyOps model.CopySpec proofs.Copy_lib proofs.Copy_focus.

Lemma objs_eq_parts : forall t a b c d, objs t = (a, b, c, d) ->
  m_ecus t = a /\ m_frames t = b /\ m_sigs t = c /\ m_gattrs t = d.
Proof. intros t a b c d H. unfold objs in H. inversion H. auto. Qed.

(* ------------------------------------------------------------------ definitions under the namespace rule *)
Lemma keys_set_default_in : forall a v ds, keys (set_default_in a v ds) = keys ds.
Proof.
  intros a v ds. unfold set_default_in. destruct (lookup a ds) eqn:E; [|reflexivity].
  apply keys_aset_in. eapply lookup_in_keys. exact E.
Qed.

Lemma mem_keys : forall {A} k (l : list (Z * A)), mem k l = true <-> In k (keys l).
Proof.
  intros A k l. split.
  - intros H. apply mem_true_iff in H. destruct H as [v H]. eapply lookup_in_keys. exact H.
  - intros H. destruct (mem k l) eqn:E; [reflexivity|]. apply mem_false_iff in E.
    exfalso. induction l as [|kv r IH]; simpl in *; [contradiction|].
    destruct (fst kv =? k) eqn:E'; [discriminate|]. apply Z.eqb_neq in E'. destruct H; [congruence|auto].
Qed.

Lemma mem_keys_eq : forall {A B} k (l1 : list (Z * A)) (l2 : list (Z * B)), keys l1 = keys l2 -> mem k l1 = mem k l2.
Proof.
  intros A B k l1 l2 H. destruct (mem k l1) eqn:E1; destruct (mem k l2) eqn:E2; try reflexivity.
  - apply mem_keys in E1. rewrite H in E1. apply mem_keys in E1. congruence.
  - apply mem_keys in E2. rewrite <- H in E2. apply mem_keys in E2. congruence.
Qed.

Lemma mem_ensure_define_other_cat : forall c c' a a' sd t,
  c' <> c -> mem a' (get_defs c' (ensure_define c a sd t)) = mem a' (get_defs c' t).
Proof.
  intros c c' a a' sd t Hc. unfold ensure_define. destruct (mem a (get_defs c t)); [reflexivity|].
  rewrite get_defs_add_define_default. rewrite (mem_keys_eq a' _ (get_defs c' (set_defs c (get_defs c t ++ [(a, new_define sd)]) t))).
  - rewrite get_set_defs_other by exact Hc. reflexivity.
  - apply keys_set_default_in.
Qed.

Lemma mem_attr_step : forall o sk ef oattrs t ad c a,
  mem a (get_defs c (attr_step o sk ef oattrs t ad)) = true ->
  mem a (get_defs c t) = true \/ (a = fst ad /\ c = cat_of o).
Proof.
  intros o sk ef oattrs t ad c a H.
  destruct (Z.eq_dec a (fst ad)) as [Ha|Ha].
  - destruct (cat_eq_dec c (cat_of o)) as [Hc|Hc]; [right; auto|]. left.
    unfold attr_step in H. destruct (sk && is_none _); [exact H|].
    destruct ef.
    + apply mem_dinfo_some in H. destruct H as [x H]. rewrite dinfo_explicit_step in H.
      apply dinfo_some_mem in H. rewrite mem_enum_step in H. rewrite mem_ensure_define_other_cat in H by exact Hc. exact H.
    + rewrite mem_enum_step in H. apply mem_dinfo_some in H. destruct H as [x H]. rewrite dinfo_explicit_step in H.
      apply dinfo_some_mem in H. rewrite mem_ensure_define_other_cat in H by exact Hc. exact H.
  - left. apply mem_dinfo_some in H. destruct H as [x H]. rewrite dinfo_attr_step_other_key in H by exact Ha.
    eapply dinfo_some_mem. exact H.
Qed.

Definition names_in (ns : Z -> cat) (c : cat) (l : defs) : Prop := forall a, In a (keys l) -> ns a = c.

Lemma ns_ok_names_in : forall ns m c, ns_ok ns m -> names_in ns c (get_defs c m).
Proof. intros ns m c H a Hin. apply H. apply mem_keys. exact Hin. Qed.

Lemma loop_ns : forall ns o sk ef oattrs l t,
  ns_ok ns t -> names_in ns (cat_of o) l ->
  ns_ok ns (loop o sk ef oattrs l t) /\ keeps_definitions t (loop o sk ef oattrs l t).
Proof.
  intros ns o sk ef oattrs l. unfold loop. induction l as [|ad r IH]; intros t Hns Hin.
  - split; [exact Hns|]. intros c a x H. exact H.
  - simpl.
    assert (Hns1 : ns_ok ns (attr_step o sk ef oattrs t ad)).
    { intros c a Hm. apply mem_attr_step in Hm. destruct Hm as [Hm|[-> ->]]; [apply Hns; exact Hm|].
      apply Hin. left. reflexivity. }
    assert (Hk1 : keeps_definitions t (attr_step o sk ef oattrs t ad)).
    { intros c a x H. apply dinfo_attr_step_keeps; [|exact H].
      destruct (Z.eq_dec a (fst ad)) as [->|Hne]; [right|left; exact Hne].
      rewrite <- (Hns c (fst ad)); [|eapply dinfo_some_mem; exact H]. apply Hin. left. reflexivity. }
    destruct (IH (attr_step o sk ef oattrs t ad) Hns1 (fun a H => Hin a (or_intror H))) as [Hns2 Hk2].
    split; [exact Hns2|]. intros c a x H. apply Hk2. apply Hk1. exact H.
Qed.

Lemma keeps_definitions_refl : forall t, keeps_definitions t t.
Proof. intros t c a x H. exact H. Qed.
Lemma keeps_definitions_trans : forall t1 t2 t3, keeps_definitions t1 t2 -> keeps_definitions t2 t3 -> keeps_definitions t1 t3.
Proof. intros t1 t2 t3 H12 H23 c a x H. apply H23. apply H12. exact H. Qed.

(* ------------------------------------------------------------------ loops and the objects, positionally *)
Lemma loop_objs_inv : forall (I : list ecu * list frame * list signal * list (Z * Z) -> Prop) o sk ef oattrs l t,
  (forall a v t, I (objs t) -> I (objs (set_explicit o a v t))) ->
  I (objs t) -> I (objs (loop o sk ef oattrs l t)).
Proof.
  intros I o sk ef oattrs l. unfold loop. induction l as [|ad r IH]; intros t Hset H; [exact H|].
  simpl. apply IH; [exact Hset|].
  destruct (objs_attr_step o sk ef oattrs t ad) as [Ho|(_ & v & _ & Ho)]; rewrite Ho; [exact H|].
  apply Hset. exact H.
Qed.

Lemma objs_set_explicit_ecu_last : forall n a v t p ek,
  ecu_by_name n p = None -> e_name ek = n -> m_ecus t = p ++ [ek] ->
  objs (set_explicit (TEcu n) a v t) = (p ++ [set_e_attrs (aset a v (e_attrs ek)) ek], m_frames t, m_sigs t, m_gattrs t).
Proof.
  intros n a v t p ek Hp Hn He. simpl. apply ecu_by_name_none in Hp.
  assert (Hex : existsb (fun e => e_name e =? n) (m_ecus t) = true).
  { rewrite He, existsb_app. simpl. rewrite Hn, Z.eqb_refl. rewrite orb_true_r. reflexivity. }
  rewrite Hex. unfold objs. simpl. rewrite He, upd_first_app_none by exact Hp. simpl. rewrite Hn, Z.eqb_refl. reflexivity.
Qed.

(* ------------------------------------------------------------------ copy_ecu of one ECU the target does not list *)
Lemma add_ecu_absent : forall e t, ecu_by_name (e_name e) (m_ecus t) = None -> add_ecu e t = set_ecus (m_ecus t ++ [e]) t.
Proof. intros e t H. unfold add_ecu. apply ecu_by_name_none in H. rewrite H. reflexivity. Qed.

Lemma copy_ecu_obj_present : forall e src t x, ecu_by_name (e_name e) (m_ecus t) = Some x -> copy_ecu_obj e src t = t.
Proof. intros e src t x H. unfold copy_ecu_obj. rewrite H. reflexivity. Qed.

Lemma copy_ecu_obj_absent : forall e src t, ecu_by_name (e_name e) (m_ecus t) = None ->
  copy_ecu_obj e src t = loop (TEcu (e_name e)) true false (e_attrs e) (m_edefs src) (set_ecus (m_ecus t ++ [e]) t).
Proof. intros e src t H. unfold copy_ecu_obj. rewrite H, add_ecu_absent by exact H. reflexivity. Qed.

Lemma copy_ecu_obj_shape : forall e src t, ecu_by_name (e_name e) (m_ecus t) = None ->
  exists e', m_ecus (copy_ecu_obj e src t) = m_ecus t ++ [e'] /\ e_name e' = e_name e /\ e_comment e' = e_comment e /\
    m_frames (copy_ecu_obj e src t) = m_frames t /\ m_sigs (copy_ecu_obj e src t) = m_sigs t /\
    m_gattrs (copy_ecu_obj e src t) = m_gattrs t.
Proof.
  intros e src t H. rewrite copy_ecu_obj_absent by exact H.
  set (I := fun ob : list ecu * list frame * list signal * list (Z * Z) =>
              exists ek, ob = (m_ecus t ++ [ek], m_frames t, m_sigs t, m_gattrs t) /\ e_name ek = e_name e /\ e_comment ek = e_comment e).
  assert (HI : I (objs (loop (TEcu (e_name e)) true false (e_attrs e) (m_edefs src) (set_ecus (m_ecus t ++ [e]) t)))).
  { apply loop_objs_inv.
    - intros a v t0 (ek & Ho & Hn & Hc). apply objs_eq_parts in Ho. destruct Ho as (He & Hf & Hs & Hg).
      exists (set_e_attrs (aset a v (e_attrs ek)) ek). split; [|split; [exact Hn|exact Hc]].
      rewrite (objs_set_explicit_ecu_last _ a v t0 (m_ecus t) ek H Hn He). rewrite Hf, Hs, Hg. reflexivity.
    - exists e. split; [reflexivity|split; reflexivity]. }
  destruct HI as (ek & Ho & Hn & Hc). apply objs_eq_parts in Ho. destruct Ho as (He & Hf & Hs & Hg).
  exists ek. repeat split; assumption.
Qed.

(* ------------------------------------------------------------------ "good": a copied object has the source's values *)
(* o is the copy (located in t) of a source object with explicit attributes oattrs; sdefs = the source's definitions of
   its category *)
Definition good (o : target_obj) (oattrs : list (Z * Z)) (sdefs : defs) (t : matrix) : Prop :=
  exists at0, attrs_of o t = Some at0 /\ attrs_carried oattrs at0 /\
    (forall a v, src_eff oattrs sdefs a = Some v -> obj_attribute at0 a (get_defs (cat_of o) t) = Some v) /\
    (forall a v, src_eff oattrs sdefs a = Some v -> mem a sdefs = true -> mem a (get_defs (cat_of o) t) = true).

Lemma lookup_in : forall {A} k (l : list (Z * A)) v, lookup k l = Some v -> In (k, v) l.
Proof.
  intros A k l v. induction l as [|kv r IH]; simpl; [discriminate|].
  destruct (fst kv =? k) eqn:E; intros H.
  - left. apply Z.eqb_eq in E. inversion H. subst. destruct kv; reflexivity.
  - right. exact (IH H).
Qed.

Lemma good_after_own_loop : forall o sk ef oattrs sdefs t,
  NoDup (keys sdefs) -> attrs_of o t = Some oattrs -> good o oattrs sdefs (loop o sk ef oattrs sdefs t).
Proof.
  intros o sk ef oattrs sdefs t Hnd Hat.
  destruct (loop_spec o sk ef oattrs sdefs sdefs t oattrs Hnd) as (at1 & Hat1 & Hc1 & _ & _ & Hvis).
  - intros a sd Hin. apply in_nodup_lookup; assumption.
  - exact Hat.
  - intros a v H. exact H.
  - intros a w H. unfold src_eff, obj_attribute. rewrite H. reflexivity.
  - exists at1. split; [exact Hat1|]. split; [exact Hc1|]. split.
    + intros a v Hv. unfold src_eff, obj_attribute in Hv.
      destruct (lookup a oattrs) as [w|] eqn:El.
      * inversion Hv; subst. unfold obj_attribute. rewrite (Hc1 _ _ El). reflexivity.
      * destruct (lookup a sdefs) as [sd|] eqn:Ed; [|discriminate].
        destruct (Hvis a sd v (lookup_in _ _ _ Ed)) as [_ Hval]; [|exact Hval].
        unfold src_eff, obj_attribute. rewrite El, Ed. exact Hv.
    + intros a v Hv Hm. apply mem_true_iff in Hm. destruct Hm as [sd Ed].
      destruct (Hvis a sd v (lookup_in _ _ _ Ed) Hv) as [Hmem _]. exact Hmem.
Qed.

Lemma obj_attribute_stable : forall at0 a c t t' v,
  (forall x, dinfo c a t = Some x -> dinfo c a t' = Some x) ->
  obj_attribute at0 a (get_defs c t) = Some v -> obj_attribute at0 a (get_defs c t') = Some v.
Proof.
  intros at0 a c t t' v Hk H. rewrite obj_attribute_dflt in *. destruct (lookup a at0); [exact H|].
  unfold dflt_of in *. destruct (dinfo c a t) as [x|] eqn:E; [|discriminate].
  rewrite (Hk x eq_refl). exact H.
Qed.

(* a loop for another object leaves a good object good, under the namespace rule for the source *)
Lemma good_stable_loop : forall ns o o' sk ef oattrs oattrs2 sdefs l t,
  names_in ns (cat_of o') sdefs -> names_in ns (cat_of o) l -> o' <> o ->
  good o' oattrs sdefs t -> good o' oattrs sdefs (loop o sk ef oattrs2 l t).
Proof.
  intros ns o o' sk ef oattrs oattrs2 sdefs l t Hn' Hn Hne (at0 & Hat & Hc & Hv & Hm).
  assert (Hkeep : forall a x, In a (keys sdefs) -> dinfo (cat_of o') a t = Some x ->
                    dinfo (cat_of o') a (loop o sk ef oattrs2 l t) = Some x).
  { intros a x Hin Hx. apply loop_dinfo_keeps; [|exact Hx].
    destruct (cat_eq_dec (cat_of o') (cat_of o)) as [Hcc|Hcc]; [right; exact Hcc|left].
    intros Hin2. apply Hcc. rewrite <- (Hn' a Hin). apply Hn. exact Hin2. }
  exists at0. split; [rewrite loop_attrs_other by exact Hne; exact Hat|]. split; [exact Hc|]. split.
  - intros a v Hs. specialize (Hv a v Hs).
    unfold src_eff, obj_attribute in Hs. destruct (lookup a oattrs) as [w|] eqn:El.
    + unfold obj_attribute in *. rewrite (Hc _ _ El) in *. exact Hv.
    + destruct (lookup a sdefs) as [sd|] eqn:Ed; [|discriminate].
      eapply obj_attribute_stable; [|exact Hv].
      intros x Hx. apply Hkeep; [eapply lookup_in_keys; exact Ed|exact Hx].
  - intros a v Hs Hmem. specialize (Hm a v Hs Hmem). apply mem_dinfo_some in Hm. destruct Hm as [x Hx].
    eapply dinfo_some_mem. apply Hkeep; [apply mem_keys; exact Hmem|exact Hx].
Qed.

(* a definition used by the copied object comes along *)
Lemma loop_app : forall o sk ef oattrs l1 l2 t, loop o sk ef oattrs (l1 ++ l2) t = loop o sk ef oattrs l2 (loop o sk ef oattrs l1 t).
Proof. intros. unfold loop. apply fold_left_app. Qed.

Lemma keys_app : forall {A} (l1 l2 : list (Z * A)), keys (l1 ++ l2) = keys l1 ++ keys l2.
Proof. intros. unfold keys. apply map_app. Qed.

Lemma loop_defines : forall o sk ef oattrs l t a sd,
  NoDup (keys l) -> In (a, sd) l -> (sk && is_none (src_value oattrs (a, sd))) = false ->
  mem a (get_defs (cat_of o) (loop o sk ef oattrs l t)) = true /\
  (mem a (get_defs (cat_of o) t) = false -> dinfo (cat_of o) a (loop o sk ef oattrs l t) = Some (dview sd)).
Proof.
  intros o sk ef oattrs l t a sd Hnd Hin Hsk.
  apply in_split in Hin. destruct Hin as (l1 & l2 & ->).
  rewrite keys_app in Hnd. simpl in Hnd.
  assert (Hn1 : ~ In a (keys l1)).
  { intros H. apply NoDup_remove_2 in Hnd. apply Hnd. apply in_or_app. left. exact H. }
  assert (Hn2 : ~ In a (keys l2)).
  { intros H. apply NoDup_remove_2 in Hnd. apply Hnd. apply in_or_app. right. exact H. }
  rewrite loop_app. change ((a, sd) :: l2) with ([(a, sd)] ++ l2). rewrite loop_app.
  set (t1 := loop o sk ef oattrs l1 t).
  change (loop o sk ef oattrs [(a, sd)] t1) with (attr_step o sk ef oattrs t1 (a, sd)).
  destruct (attr_step_defines o sk ef oattrs t1 (a, sd) Hsk) as [Hm Hnew]. simpl in Hm, Hnew.
  split.
  - apply mem_dinfo_some in Hm. destruct Hm as [x Hx]. eapply dinfo_some_mem.
    rewrite loop_dinfo_other_key by exact Hn2. exact Hx.
  - intros Hno. rewrite loop_dinfo_other_key by exact Hn2. apply Hnew.
    apply dinfo_none_mem. unfold t1. rewrite loop_dinfo_other_key by exact Hn1. apply dinfo_none_mem. exact Hno.
Qed.

(* ------------------------------------------------------------------ copy_ecu of one ECU: values *)
Lemma attrs_of_ecu_appended : forall e t, ecu_by_name (e_name e) (m_ecus t) = None ->
  attrs_of (TEcu (e_name e)) (set_ecus (m_ecus t ++ [e]) t) = Some (e_attrs e).
Proof.
  intros e t H. simpl. rewrite ecu_by_name_app, H. simpl. rewrite Z.eqb_refl. reflexivity.
Qed.

Lemma copy_ecu_obj_good : forall e src t,
  NoDup (keys (m_edefs src)) -> ecu_by_name (e_name e) (m_ecus t) = None ->
  good (TEcu (e_name e)) (e_attrs e) (m_edefs src) (copy_ecu_obj e src t).
Proof.
  intros e src t Hnd H. rewrite copy_ecu_obj_absent by exact H.
  apply good_after_own_loop; [exact Hnd|]. apply attrs_of_ecu_appended. exact H.
Qed.

Lemma dinfo_set_ecus : forall c a x t, dinfo c a (set_ecus x t) = dinfo c a t.
Proof. intros [] a x t; reflexivity. Qed.
Lemma ns_ok_set_ecus : forall ns x t, ns_ok ns t -> ns_ok ns (set_ecus x t).
Proof. intros ns x t H c a Hm. apply H. destruct c; exact Hm. Qed.
Lemma dinfo_set_frames : forall c a x t, dinfo c a (set_frames x t) = dinfo c a t.
Proof. intros [] a x t; reflexivity. Qed.
Lemma ns_ok_set_frames : forall ns x t, ns_ok ns t -> ns_ok ns (set_frames x t).
Proof. intros ns x t H c a Hm. apply H. destruct c; exact Hm. Qed.
Lemma dinfo_set_sigs : forall c a x t, dinfo c a (set_sigs x t) = dinfo c a t.
Proof. intros [] a x t; reflexivity. Qed.
Lemma ns_ok_set_sigs : forall ns x t, ns_ok ns t -> ns_ok ns (set_sigs x t).
Proof. intros ns x t H c a Hm. apply H. destruct c; exact Hm. Qed.

Lemma copy_ecu_obj_ns : forall ns e src t,
  ns_ok ns src -> ns_ok ns t ->
  ns_ok ns (copy_ecu_obj e src t) /\ keeps_definitions t (copy_ecu_obj e src t).
Proof.
  intros ns e src t Hs Ht. unfold copy_ecu_obj.
  destruct (ecu_by_name (e_name e) (m_ecus t)) eqn:E; [split; [exact Ht|apply keeps_definitions_refl]|].
  rewrite add_ecu_absent by exact E.
  destruct (loop_ns ns (TEcu (e_name e)) true false (e_attrs e) (m_edefs src) (set_ecus (m_ecus t ++ [e]) t)) as [H1 H2].
  - apply ns_ok_set_ecus. exact Ht.
  - exact (ns_ok_names_in ns src CEcu Hs).
  - split; [exact H1|]. intros c a x Hx. apply H2. rewrite dinfo_set_ecus. exact Hx.
Qed.

(* ------------------------------------------------------------------ the ECUs a frame brings along *)
Definition bring_all (L : list Z) (src t : matrix) : matrix := fold_left (fun t n => bring_ecu n src t) L t.

Lemma bring_ecu_cases : forall n src t,
  bring_ecu n src t = t \/
  (exists e, ecu_by_name n (m_ecus src) = Some e /\ e_name e = n /\ ecu_by_name (e_name e) (m_ecus t) = None /\
             bring_ecu n src t = copy_ecu_obj e src t).
Proof.
  intros n src t. unfold bring_ecu.
  destruct (ecu_by_name n (m_ecus src)) as [e|] eqn:Es; [|left; reflexivity].
  destruct (ecu_by_name n (m_ecus t)) eqn:Et; [left; reflexivity|].
  right. exists e. destruct (ecu_by_name_some _ _ _ Es) as [_ Hn]. rewrite Hn. auto.
Qed.

Definition same_but_ecus (t t' : matrix) : Prop :=
  (exists l, m_ecus t' = m_ecus t ++ l) /\ m_frames t' = m_frames t /\ m_sigs t' = m_sigs t /\ m_gattrs t' = m_gattrs t.

Lemma same_but_ecus_refl : forall t, same_but_ecus t t.
Proof. intros t. split; [exists []; rewrite app_nil_r; reflexivity|auto]. Qed.
Lemma same_but_ecus_trans : forall t1 t2 t3, same_but_ecus t1 t2 -> same_but_ecus t2 t3 -> same_but_ecus t1 t3.
Proof.
  intros t1 t2 t3 ((l1 & H1) & Hf1 & Hs1 & Hg1) ((l2 & H2) & Hf2 & Hs2 & Hg2).
  split; [exists (l1 ++ l2); rewrite H2, H1, app_assoc; reflexivity|]. repeat split; congruence.
Qed.

Lemma bring_ecu_shape : forall n src t, same_but_ecus t (bring_ecu n src t).
Proof.
  intros n src t. destruct (bring_ecu_cases n src t) as [->|(e & _ & _ & Hab & ->)]; [apply same_but_ecus_refl|].
  destruct (copy_ecu_obj_shape e src t Hab) as (e' & He & _ & _ & Hf & Hs & Hg).
  split; [exists [e']; exact He|auto].
Qed.

Lemma bring_all_shape : forall L src t, same_but_ecus t (bring_all L src t).
Proof.
  intros L src. unfold bring_all. induction L as [|n r IH]; intros t; [apply same_but_ecus_refl|].
  simpl. eapply same_but_ecus_trans; [apply bring_ecu_shape|apply IH].
Qed.

Lemma bring_ecu_ns : forall ns n src t, ns_ok ns src -> ns_ok ns t ->
  ns_ok ns (bring_ecu n src t) /\ keeps_definitions t (bring_ecu n src t).
Proof.
  intros ns n src t Hs Ht. destruct (bring_ecu_cases n src t) as [->|(e & _ & _ & _ & ->)].
  - split; [exact Ht|apply keeps_definitions_refl].
  - apply copy_ecu_obj_ns; assumption.
Qed.

Lemma bring_all_ns : forall ns L src t, ns_ok ns src -> ns_ok ns t ->
  ns_ok ns (bring_all L src t) /\ keeps_definitions t (bring_all L src t).
Proof.
  intros ns L src. unfold bring_all. induction L as [|n r IH]; intros t Hs Ht.
  - split; [exact Ht|apply keeps_definitions_refl].
  - simpl. destruct (bring_ecu_ns ns n src t Hs Ht) as [H1 H2].
    destruct (IH (bring_ecu n src t) Hs H1) as [H3 H4].
    split; [exact H3|]. eapply keeps_definitions_trans; eassumption.
Qed.

Lemma ecu_present_mono : forall n t t', same_but_ecus t t' -> ecu_by_name n (m_ecus t) <> None -> ecu_by_name n (m_ecus t') <> None.
Proof.
  intros n t t' ((l & H) & _) Hp. rewrite H, ecu_by_name_app. destruct (ecu_by_name n (m_ecus t)); [discriminate|congruence].
Qed.

Lemma bring_ecu_present : forall n src t, ecu_by_name n (m_ecus src) <> None -> ecu_by_name n (m_ecus (bring_ecu n src t)) <> None.
Proof.
  intros n src t Hs. unfold bring_ecu.
  destruct (ecu_by_name n (m_ecus src)) as [e|] eqn:Es; [|congruence].
  destruct (ecu_by_name n (m_ecus t)) eqn:Et; [rewrite Et; discriminate|].
  destruct (ecu_by_name_some _ _ _ Es) as [_ Hn].
  assert (Hab : ecu_by_name (e_name e) (m_ecus t) = None) by (rewrite Hn; exact Et).
  destruct (copy_ecu_obj_shape e src t Hab) as (e' & He' & Hn' & _).
  rewrite He', ecu_by_name_app, Et. simpl. rewrite Hn', Hn, Z.eqb_refl. discriminate.
Qed.

Lemma bring_all_present : forall L src t n,
  In n L -> ecu_by_name n (m_ecus src) <> None -> ecu_by_name n (m_ecus (bring_all L src t)) <> None.
Proof.
  intros L src. unfold bring_all. induction L as [|n2 r IH]; intros t n Hin Hs; [contradiction|].
  simpl. destruct Hin as [->|Hin]; [|apply IH; assumption].
  eapply ecu_present_mono; [apply (bring_all_shape r src)|]. apply bring_ecu_present. exact Hs.
Qed.

(* goodness of an ECU copy survives further ECU copies *)
Lemma good_ecu_stable_bring : forall ns n n2 oattrs src t,
  ns_ok ns src ->
  good (TEcu n) oattrs (m_edefs src) t -> good (TEcu n) oattrs (m_edefs src) (bring_ecu n2 src t).
Proof.
  intros ns n n2 oattrs src t Hs Hg.
  destruct (bring_ecu_cases n2 src t) as [->|(e & He & Hn & Hab & ->)]; [exact Hg|].
  rewrite copy_ecu_obj_absent by exact Hab.
  assert (Hne : n <> e_name e).
  { intros ->. destruct Hg as (at0 & Hat & _). simpl in Hat. rewrite Hab in Hat. discriminate. }
  eapply (good_stable_loop ns).
  - exact (ns_ok_names_in ns src CEcu Hs).
  - exact (ns_ok_names_in ns src CEcu Hs).
  - congruence.
  - destruct Hg as (at0 & Hat & Hc & Hv & Hm). exists at0. split; [|split; [exact Hc|split; [exact Hv|exact Hm]]].
    simpl in *. rewrite ecu_by_name_app. destruct (ecu_by_name n (m_ecus t)); [exact Hat|discriminate].
Qed.

Lemma good_ecu_stable_bring_all : forall ns n oattrs src L t,
  ns_ok ns src ->
  good (TEcu n) oattrs (m_edefs src) t -> good (TEcu n) oattrs (m_edefs src) (bring_all L src t).
Proof.
  intros ns n oattrs src L. unfold bring_all. induction L as [|n2 r IH]; intros t Hs Hg; [exact Hg|].
  simpl. apply IH; [exact Hs|]. eapply good_ecu_stable_bring; eassumption.
Qed.

(* an ECU that was not in the target and is there afterwards is a good copy of the source's *)
Lemma bring_ecu_new_good : forall n n2 src t,
  NoDup (keys (m_edefs src)) ->
  ecu_by_name n (m_ecus t) = None -> ecu_by_name n (m_ecus (bring_ecu n2 src t)) <> None ->
  exists e, ecu_by_name n (m_ecus src) = Some e /\ good (TEcu n) (e_attrs e) (m_edefs src) (bring_ecu n2 src t).
Proof.
  intros n n2 src t Hnd Hab Hp.
  destruct (bring_ecu_cases n2 src t) as [Heq|(e & He & Hn & Hab2 & Heq)]; rewrite Heq in *; [congruence|].
  destruct (copy_ecu_obj_shape e src t Hab2) as (e' & He' & Hn' & _).
  rewrite He', ecu_by_name_app, Hab in Hp. simpl in Hp.
  destruct (e_name e' =? n) eqn:E; [|congruence]. apply Z.eqb_eq in E.
  assert (Hnn : n = e_name e) by congruence. clear E Hp. subst n.
  exists e. split; [rewrite Hn; exact He|]. apply copy_ecu_obj_good; assumption.
Qed.

Lemma bring_all_new_good : forall ns src L t n,
  ns_ok ns src -> NoDup (keys (m_edefs src)) ->
  ecu_by_name n (m_ecus t) = None -> ecu_by_name n (m_ecus (bring_all L src t)) <> None ->
  exists e, ecu_by_name n (m_ecus src) = Some e /\ good (TEcu n) (e_attrs e) (m_edefs src) (bring_all L src t).
Proof.
  intros ns src L. induction L as [|n2 r IH]; intros t n Hs Hnd Hab Hp; [simpl in Hp; congruence|].
  change (bring_all (n2 :: r) src t) with (bring_all r src (bring_ecu n2 src t)) in *.
  destruct (ecu_by_name n (m_ecus (bring_ecu n2 src t))) as [e1|] eqn:E1.
  - destruct (bring_ecu_new_good n n2 src t Hnd Hab) as (e & He & Hg); [congruence|].
    exists e. split; [exact He|]. eapply good_ecu_stable_bring_all; eassumption.
  - apply IH; assumption.
Qed.

(* ------------------------------------------------------------------ copy_frame: the phases *)
Definition sig_loops (id : arbid) (src : matrix) (sigs : list signal) (t : matrix) : matrix :=
  fold_left (fun t s => loop (TSig id (s_name s)) true true (s_attrs s) (m_sdefs src) t) sigs t.

Lemma fold_left_flat_map : forall {A B C} (g : A -> C -> A) (h : B -> list C) l t,
  fold_left (fun t s => fold_left g (h s) t) l t = fold_left g (flat_map h l) t.
Proof.
  intros A B C g h l. induction l as [|x r IH]; intros t; simpl; [reflexivity|].
  rewrite fold_left_app. apply IH.
Qed.

Definition frame_phase (f : frame) (src t : matrix) : matrix :=
  loop (TFrame (fid f)) true false (f_attrs f) (m_fdefs src) (bring_all (frame_refs f) src (add_frame f t)).

Lemma copy_frame_body_eq : forall f src t,
  copy_frame_body f src t = sig_loops (fid f) src (f_sigs f) (frame_phase f src t).
Proof.
  intros f src t. unfold copy_frame_body, sig_loops, frame_phase, loop, bring_all, frame_refs.
  rewrite fold_left_flat_map, fold_left_app. reflexivity.
Qed.

(* shape of the last frame while the loops run *)
Definition frame_core_eq (f f' : frame) : Prop :=
  f_id f' = f_id f /\ f_ext f' = f_ext f /\ f_name f' = f_name f /\ f_size f' = f_size f /\ f_tx f' = f_tx f /\
  f_comment f' = f_comment f /\ f_rest f' = f_rest f /\ Forall2 signal_carried (f_sigs f) (f_sigs f').

Lemma frame_core_eq_refl : forall f, frame_core_eq f f.
Proof. intros f. repeat split; try reflexivity. apply Forall2_refl. intros s. repeat split; reflexivity. Qed.

Lemma Forall2_upd_first_r : forall {A B} (R : A -> B -> Prop) (p : B -> bool) g l l',
  (forall x y, R x y -> R x (g y)) -> Forall2 R l l' -> Forall2 R l (upd_first p g l').
Proof.
  intros A B R p g l l' Hg H. induction H as [|x y l l' Hxy H IH]; simpl; [constructor|].
  destruct (p y); constructor; auto.
Qed.

Lemma fid_core : forall f f', frame_core_eq f f' -> fid f' = fid f.
Proof. intros f f' (H1 & H2 & _). unfold fid. congruence. Qed.

Lemma objs_set_explicit_frame_last : forall id a v t p fk,
  frame_by_id id p = None -> fid fk = id -> m_frames t = p ++ [fk] ->
  objs (set_explicit (TFrame id) a v t) = (m_ecus t, p ++ [set_f_attrs (aset a v (f_attrs fk)) fk], m_sigs t, m_gattrs t).
Proof.
  intros id a v t p fk Hp Hn Hf. simpl. apply frame_by_id_none in Hp.
  assert (Hex : existsb (fun f => id_eqb (fid f) id) (m_frames t) = true).
  { rewrite Hf, existsb_app. simpl. rewrite Hn, id_eqb_refl. rewrite orb_true_r. reflexivity. }
  rewrite Hex. unfold objs. simpl. rewrite Hf, upd_first_app_none by exact Hp. simpl. rewrite Hn, id_eqb_refl. reflexivity.
Qed.

Lemma objs_set_explicit_sig_last : forall id sn a v t p fk,
  frame_by_id id p = None -> fid fk = id -> m_frames t = p ++ [fk] ->
  exists fk', objs (set_explicit (TSig id sn) a v t) = (m_ecus t, p ++ [fk'], m_sigs t, m_gattrs t) /\ frame_core_eq fk fk'.
Proof.
  intros id sn a v t p fk Hp Hn Hf. simpl.
  rewrite Hf, frame_by_id_app, Hp. simpl. rewrite Hn, id_eqb_refl.
  destruct (existsb (fun s => s_name s =? sn) (f_sigs fk)).
  - exists (set_f_sigs (upd_first (fun s => s_name s =? sn) (fun s => set_s_attrs (aset a v (s_attrs s)) s) (f_sigs fk)) fk). split.
    + unfold objs. simpl. apply frame_by_id_none in Hp. rewrite upd_first_app_none by exact Hp. simpl.
      rewrite Hn, id_eqb_refl. reflexivity.
    + repeat split; try reflexivity. simpl. apply Forall2_upd_first_r.
      * intros x y (H1 & H2 & H3 & H4). repeat split; assumption.
      * apply Forall2_refl. intros s. repeat split; reflexivity.
  - exists fk. split; [unfold objs; simpl; rewrite Hf; reflexivity|apply frame_core_eq_refl].
Qed.

Lemma frame_core_eq_trans : forall f1 f2 f3, frame_core_eq f1 f2 -> frame_core_eq f2 f3 -> frame_core_eq f1 f3.
Proof.
  intros f1 f2 f3 (A1 & A2 & A3 & A4 & A5 & A6 & A7 & A8) (B1 & B2 & B3 & B4 & B5 & B6 & B7 & B8).
  repeat split; try congruence.
  eapply Forall2_trans; [|exact A8|exact B8].
  intros x y z (H1 & H2 & H3 & H4) (K1 & K2 & K3 & K4). repeat split; congruence.
Qed.

Definition last_frame_inv (E : list ecu) (p : list frame) (S : list signal) (G : list (Z * Z)) (f : frame)
           (ob : list ecu * list frame * list signal * list (Z * Z)) : Prop :=
  exists fk, ob = (E, p ++ [fk], S, G) /\ frame_core_eq f fk.

Lemma frame_loop_shape : forall E p S G f sk ef oattrs l t,
  frame_by_id (fid f) p = None ->
  last_frame_inv E p S G f (objs t) -> last_frame_inv E p S G f (objs (loop (TFrame (fid f)) sk ef oattrs l t)).
Proof.
  intros E p S G f sk ef oattrs l t Hp. apply loop_objs_inv.
  intros a v t0 (fk & Ho & Hc). apply objs_eq_parts in Ho. destruct Ho as (He & Hf & Hs & Hg).
  exists (set_f_attrs (aset a v (f_attrs fk)) fk). split.
  - rewrite (objs_set_explicit_frame_last (fid f) a v t0 p fk Hp (fid_core _ _ Hc) Hf). rewrite He, Hs, Hg. reflexivity.
  - destruct Hc as (A1 & A2 & A3 & A4 & A5 & A6 & A7 & A8). repeat split; assumption.
Qed.

Lemma sig_loop_shape : forall E p S G f sn sk ef oattrs l t,
  frame_by_id (fid f) p = None ->
  last_frame_inv E p S G f (objs t) -> last_frame_inv E p S G f (objs (loop (TSig (fid f) sn) sk ef oattrs l t)).
Proof.
  intros E p S G f sn sk ef oattrs l t Hp. apply loop_objs_inv.
  intros a v t0 (fk & Ho & Hc). apply objs_eq_parts in Ho. destruct Ho as (He & Hf & Hs & Hg).
  destruct (objs_set_explicit_sig_last (fid f) sn a v t0 p fk Hp (fid_core _ _ Hc) Hf) as (fk' & Ho' & Hc').
  exists fk'. split; [rewrite Ho', He, Hs, Hg; reflexivity|]. eapply frame_core_eq_trans; eassumption.
Qed.

Lemma sig_loops_shape : forall E p S G f src sigs t,
  frame_by_id (fid f) p = None ->
  last_frame_inv E p S G f (objs t) -> last_frame_inv E p S G f (objs (sig_loops (fid f) src sigs t)).
Proof.
  intros E p S G f src sigs. unfold sig_loops. induction sigs as [|s r IH]; intros t Hp H; [exact H|].
  simpl. apply IH; [exact Hp|]. apply sig_loop_shape; assumption.
Qed.

(* the whole body: the target's objects in front, one new frame, some new ECUs *)
Lemma copy_frame_body_shape : forall f src t,
  frame_by_id (fid f) (m_frames t) = None ->
  exists l f', m_ecus (copy_frame_body f src t) = m_ecus t ++ l /\
               m_frames (copy_frame_body f src t) = m_frames t ++ [f'] /\ frame_core_eq f f' /\
               m_sigs (copy_frame_body f src t) = m_sigs t /\ m_gattrs (copy_frame_body f src t) = m_gattrs t.
Proof.
  intros f src t Hp. rewrite copy_frame_body_eq. unfold frame_phase.
  set (t1 := bring_all (frame_refs f) src (add_frame f t)).
  destruct (bring_all_shape (frame_refs f) src (add_frame f t)) as ((l & He) & Hf & Hs & Hg). fold t1 in He, Hf, Hs, Hg.
  simpl in He, Hf, Hs, Hg.
  assert (H1 : last_frame_inv (m_ecus t ++ l) (m_frames t) (m_sigs t) (m_gattrs t) f (objs t1)).
  { exists f. split; [unfold objs; rewrite He, Hf, Hs, Hg; reflexivity|apply frame_core_eq_refl]. }
  apply (frame_loop_shape _ _ _ _ f true false (f_attrs f) (m_fdefs src) t1 Hp) in H1.
  apply (sig_loops_shape _ _ _ _ f src (f_sigs f) _ Hp) in H1.
  destruct H1 as (fk & Ho & Hc). apply objs_eq_parts in Ho. destruct Ho as (He' & Hf' & Hs' & Hg').
  exists l, fk. auto.
Qed.

(* ------------------------------------------------------------------ copy_frame: definitions *)
Lemma sig_loops_ns : forall ns id src sigs t, ns_ok ns src -> ns_ok ns t ->
  ns_ok ns (sig_loops id src sigs t) /\ keeps_definitions t (sig_loops id src sigs t).
Proof.
  intros ns id src sigs. unfold sig_loops. induction sigs as [|s r IH]; intros t Hs Ht.
  - split; [exact Ht|apply keeps_definitions_refl].
  - simpl.
    destruct (loop_ns ns (TSig id (s_name s)) true true (s_attrs s) (m_sdefs src) t Ht (ns_ok_names_in ns src CSig Hs)) as [H1 H2].
    destruct (IH _ Hs H1) as [H3 H4]. split; [exact H3|]. eapply keeps_definitions_trans; eassumption.
Qed.

Lemma frame_phase_ns : forall ns f src t, ns_ok ns src -> ns_ok ns t ->
  ns_ok ns (frame_phase f src t) /\ keeps_definitions t (frame_phase f src t).
Proof.
  intros ns f src t Hs Ht. unfold frame_phase.
  destruct (bring_all_ns ns (frame_refs f) src (add_frame f t) Hs (ns_ok_set_frames ns _ t Ht)) as [H1 H2].
  destruct (loop_ns ns (TFrame (fid f)) true false (f_attrs f) (m_fdefs src) _ H1 (ns_ok_names_in ns src CFrame Hs)) as [H3 H4].
  split; [exact H3|]. intros c a x Hx. apply H4. apply H2. unfold add_frame. rewrite dinfo_set_frames. exact Hx.
Qed.

Lemma copy_frame_body_ns : forall ns f src t, ns_ok ns src -> ns_ok ns t ->
  ns_ok ns (copy_frame_body f src t) /\ keeps_definitions t (copy_frame_body f src t).
Proof.
  intros ns f src t Hs Ht. rewrite copy_frame_body_eq.
  destruct (frame_phase_ns ns f src t Hs Ht) as [H1 H2].
  destruct (sig_loops_ns ns (fid f) src (f_sigs f) _ Hs H1) as [H3 H4].
  split; [exact H3|]. eapply keeps_definitions_trans; eassumption.
Qed.

(* ------------------------------------------------------------------ copy_frame: values of the copied objects *)
Lemma attrs_of_frames_eq : forall o t1 t2,
  (forall n, o <> TEcu n) -> o <> TLastFree -> m_frames t1 = m_frames t2 -> attrs_of o t1 = attrs_of o t2.
Proof.
  intros o t1 t2 H1 H2 Hf. destruct o as [n|id|id sn|]; simpl; try rewrite Hf; try reflexivity.
  - exfalso. apply (H1 n). reflexivity.
  - congruence.
Qed.

Lemma good_stable_sig_loops : forall ns id src o' oattrs sdefs sigs t,
  ns_ok ns src -> names_in ns (cat_of o') sdefs ->
  (forall s, In s sigs -> o' <> TSig id (s_name s)) ->
  good o' oattrs sdefs t -> good o' oattrs sdefs (sig_loops id src sigs t).
Proof.
  intros ns id src o' oattrs sdefs sigs. unfold sig_loops. induction sigs as [|s r IH]; intros t Hs Hn Hne Hg; [exact Hg|].
  simpl. apply IH; [exact Hs|exact Hn|intros s' Hin; apply Hne; right; exact Hin|].
  eapply (good_stable_loop ns); [exact Hn|exact (ns_ok_names_in ns src CSig Hs)|apply Hne; left; reflexivity|exact Hg].
Qed.

Lemma sig_loops_attrs_other : forall id src o' sigs t,
  (forall s, In s sigs -> o' <> TSig id (s_name s)) ->
  attrs_of o' (sig_loops id src sigs t) = attrs_of o' t.
Proof.
  intros id src o' sigs. unfold sig_loops. induction sigs as [|s r IH]; intros t Hne; [reflexivity|].
  simpl. rewrite IH by (intros s' Hin; apply Hne; right; exact Hin).
  apply loop_attrs_other. apply Hne. left. reflexivity.
Qed.

Lemma sig_loops_good : forall ns id src sigs t,
  ns_ok ns src -> NoDup (keys (m_sdefs src)) -> NoDup (map s_name sigs) ->
  (forall s, In s sigs -> attrs_of (TSig id (s_name s)) t = Some (s_attrs s)) ->
  forall s, In s sigs -> good (TSig id (s_name s)) (s_attrs s) (m_sdefs src) (sig_loops id src sigs t).
Proof.
  intros ns id src sigs. induction sigs as [|s0 r IH]; intros t Hs Hnd Hnames Hat s Hin; [contradiction|].
  inversion Hnames as [|x xs Hnotin Hnames']; subst.
  change (sig_loops id src (s0 :: r) t) with (sig_loops id src r (loop (TSig id (s_name s0)) true true (s_attrs s0) (m_sdefs src) t)).
  assert (Hother : forall s', In s' r -> TSig id (s_name s0) <> TSig id (s_name s')).
  { intros s' Hin' Heq. inversion Heq as [Hn]. apply Hnotin. rewrite Hn. apply in_map. exact Hin'. }
  destruct Hin as [->|Hin].
  - eapply good_stable_sig_loops; [exact Hs|exact (ns_ok_names_in ns src CSig Hs)|exact Hother|].
    apply good_after_own_loop; [exact Hnd|]. apply Hat. left. reflexivity.
  - apply IH; try assumption.
    intros s' Hin'. rewrite loop_attrs_other; [apply Hat; right; exact Hin'|].
    intros Heq. apply (Hother s' Hin'). congruence.
Qed.

Lemma sig_by_name_first : forall sigs s, NoDup (map s_name sigs) -> In s sigs -> sig_by_name (s_name s) sigs = Some s.
Proof.
  intros sigs s. induction sigs as [|x r IH]; intros Hnd Hin; [contradiction|].
  inversion Hnd as [|y ys Hnotin Hnd']; subst. simpl.
  destruct Hin as [->|Hin]; [rewrite Z.eqb_refl; reflexivity|].
  destruct (s_name x =? s_name s) eqn:E; [|apply IH; assumption].
  apply Z.eqb_eq in E. exfalso. apply Hnotin. rewrite E. apply in_map. exact Hin.
Qed.

(* where the copied frame, its signals and the ECUs stand at the start of each phase *)
Lemma frames_after_bring : forall f src t,
  m_frames (bring_all (frame_refs f) src (add_frame f t)) = m_frames t ++ [f].
Proof.
  intros f src t. destruct (bring_all_shape (frame_refs f) src (add_frame f t)) as (_ & Hf & _). exact Hf.
Qed.

Lemma frame_phase_frame_good : forall f src t,
  NoDup (keys (m_fdefs src)) -> frame_by_id (fid f) (m_frames t) = None ->
  good (TFrame (fid f)) (f_attrs f) (m_fdefs src) (frame_phase f src t).
Proof.
  intros f src t Hnd Hp. unfold frame_phase. apply good_after_own_loop; [exact Hnd|].
  simpl. rewrite frames_after_bring, frame_by_id_app, Hp. simpl. rewrite id_eqb_refl. reflexivity.
Qed.

Lemma frame_phase_sig_attrs : forall f src t s,
  NoDup (map s_name (f_sigs f)) -> frame_by_id (fid f) (m_frames t) = None -> In s (f_sigs f) ->
  attrs_of (TSig (fid f) (s_name s)) (frame_phase f src t) = Some (s_attrs s).
Proof.
  intros f src t s Hnd Hp Hin. unfold frame_phase. rewrite loop_attrs_other by discriminate.
  simpl. rewrite frames_after_bring, frame_by_id_app, Hp. simpl. rewrite id_eqb_refl.
  rewrite sig_by_name_first by assumption. reflexivity.
Qed.

Lemma copy_frame_body_frame_good : forall ns f src t,
  ns_ok ns src -> NoDup (keys (m_fdefs src)) -> frame_by_id (fid f) (m_frames t) = None ->
  good (TFrame (fid f)) (f_attrs f) (m_fdefs src) (copy_frame_body f src t).
Proof.
  intros ns f src t Hs Hnd Hp. rewrite copy_frame_body_eq.
  eapply good_stable_sig_loops; [exact Hs|exact (ns_ok_names_in ns src CFrame Hs)|intros s _; discriminate|].
  apply frame_phase_frame_good; assumption.
Qed.

Lemma copy_frame_body_sig_good : forall ns f src t s,
  ns_ok ns src -> NoDup (keys (m_sdefs src)) -> NoDup (map s_name (f_sigs f)) ->
  frame_by_id (fid f) (m_frames t) = None -> In s (f_sigs f) ->
  good (TSig (fid f) (s_name s)) (s_attrs s) (m_sdefs src) (copy_frame_body f src t).
Proof.
  intros ns f src t s Hs Hnd Hnames Hp Hin. rewrite copy_frame_body_eq.
  apply (sig_loops_good ns); try assumption.
  intros s' Hin'. apply frame_phase_sig_attrs; assumption.
Qed.

Lemma copy_frame_body_ecu_good : forall ns f src t n,
  ns_ok ns src -> NoDup (keys (m_edefs src)) ->
  ecu_by_name n (m_ecus t) = None -> ecu_by_name n (m_ecus (copy_frame_body f src t)) <> None ->
  exists e, ecu_by_name n (m_ecus src) = Some e /\ good (TEcu n) (e_attrs e) (m_edefs src) (copy_frame_body f src t).
Proof.
  intros ns f src t n Hs Hnd Hab Hp. rewrite copy_frame_body_eq in *. unfold frame_phase in *.
  set (t1 := bring_all (frame_refs f) src (add_frame f t)) in *.
  set (t2 := loop (TFrame (fid f)) true false (f_attrs f) (m_fdefs src) t1) in *.
  assert (He2 : m_ecus (sig_loops (fid f) src (f_sigs f) t2) = m_ecus t1).
  { (* the ECU list is not touched by the frame and signal loops *)
    assert (Hl : forall o sk ef oattrs l t0, (forall n0, o <> TEcu n0) -> m_ecus (loop o sk ef oattrs l t0) = m_ecus t0).
    { intros o sk ef oattrs l t0 Hno.
      pose proof (loop_objs_inv (fun ob => fst (fst (fst ob)) = m_ecus t0) o sk ef oattrs l t0) as Hinv.
      simpl in Hinv. apply Hinv; [|reflexivity].
      intros a v t3 H3. destruct o as [n0|id|id sn|]; simpl.
      - exfalso. apply (Hno n0). reflexivity.
      - destruct (existsb _ (m_frames t3)); exact H3.
      - destruct (frame_by_id id (m_frames t3)) as [f0|]; [|exact H3]. destruct (existsb _ (f_sigs f0)); exact H3.
      - exact H3. }
    assert (Hsl : forall sigs t0, m_ecus (sig_loops (fid f) src sigs t0) = m_ecus t0).
    { intros sigs. unfold sig_loops. induction sigs as [|s r IH]; intros t0; [reflexivity|].
      simpl. rewrite IH. apply Hl. intros n0; discriminate. }
    rewrite Hsl. unfold t2. apply Hl. intros n0; discriminate. }
  rewrite He2 in Hp.
  destruct (bring_all_new_good ns src (frame_refs f) (add_frame f t) n Hs Hnd Hab Hp) as (e & He & Hg).
  fold t1 in Hg. exists e. split; [exact He|].
  eapply good_stable_sig_loops; [exact Hs|exact (ns_ok_names_in ns src CEcu Hs)|intros s _; discriminate|].
  eapply (good_stable_loop ns); [exact (ns_ok_names_in ns src CEcu Hs)|exact (ns_ok_names_in ns src CFrame Hs)|discriminate|exact Hg].
Qed.
