(* C12: the ECU that copy_ecu_with_frames was asked for is in the target afterwards, also with direct_ecu_only
   (the repaired wanted-test compares names); an ECU the target already lists is left alone by copy_ecu. *)
From CM Require Import lib.Prelude model.CopyOps model.CopySpec proofs.Copy_lib proofs.Copy_focus proofs.Copy_frame
  proofs.Copy_steps proofs.Copy_theorems proofs.Copy_ops.

Lemma present_keeps_objects : forall n t t', keeps_objects t t' ->
  ecu_by_name n (m_ecus t) <> None -> ecu_by_name n (m_ecus t') <> None.
Proof.
  intros n t t' ((l & He) & _) H. rewrite He, ecu_by_name_app. destruct (ecu_by_name n (m_ecus t)); [discriminate|congruence].
Qed.

Lemma copy_ecu_obj_makes_present : forall e src t, ecu_by_name (e_name e) (m_ecus (copy_ecu_obj e src t)) <> None.
Proof.
  intros e src t. destruct (ecu_by_name (e_name e) (m_ecus t)) eqn:E.
  - rewrite (copy_ecu_obj_present e src t _ E). rewrite E. discriminate.
  - destruct (copy_ecu_obj_shape e src t E) as (e' & He & Hn & _).
    rewrite He, ecu_by_name_app, E. simpl. rewrite Hn, Z.eqb_refl. discriminate.
Qed.

Lemma requested_present_after_fold : forall rx tx src l t e,
  In e l -> ecu_by_name (e_name e) (m_ecus (fold_left (copy_ecu_frames_one rx tx src) l t)) <> None.
Proof.
  intros rx tx src l. induction l as [|e0 r IH]; intros t e Hin; [contradiction|].
  simpl. destruct Hin as [->|Hin]; [|apply IH; exact Hin].
  eapply present_keeps_objects.
  - apply keeps_objects_fold. intros t0 x. apply keeps_objects_copy_ecu_frames_one.
  - unfold copy_ecu_frames_one.
    set (ta := copy_ecu_obj e src t).
    set (tb := if tx then copy_frames_where (sends (e_name e)) src ta else ta).
    assert (Ha : ecu_by_name (e_name e) (m_ecus ta) <> None) by apply copy_ecu_obj_makes_present.
    assert (Hb : ecu_by_name (e_name e) (m_ecus tb) <> None).
    { unfold tb. destruct tx; [|exact Ha]. eapply present_keeps_objects; [apply keeps_objects_copy_frames_where|exact Ha]. }
    destruct rx; [|exact Hb]. eapply present_keeps_objects; [apply keeps_objects_copy_frames_where|exact Hb].
Qed.

Lemma ecu_by_name_remove_first : forall n (p : ecu -> bool) l,
  (forall x, p x = true -> e_name x <> n) -> ecu_by_name n (remove_first p l) = ecu_by_name n l.
Proof.
  intros n p l Hp. induction l as [|x r IH]; simpl; [reflexivity|].
  destruct (p x) eqn:E.
  - destruct (e_name x =? n) eqn:En; [|reflexivity]. apply Z.eqb_eq in En. exfalso. exact (Hp x E En).
  - simpl. rewrite IH. reflexivity.
Qed.

Lemma ecu_eqb_name : forall x y, ecu_eqb x y = true -> e_name y = e_name x.
Proof.
  intros x y H. unfold ecu_eqb in H. apply andb_true_iff in H. destruct H as [H _].
  apply andb_true_iff in H. destruct H as [H _]. apply Z.eqb_eq in H. congruence.
Qed.

Lemma del_ecu_keeps_other_names : forall e t n, e_name e <> n -> ecu_by_name n (m_ecus (del_ecu e t)) = ecu_by_name n (m_ecus t).
Proof.
  intros e t n Hne. unfold del_ecu. destruct (existsb _ _); [|reflexivity]. simpl.
  apply ecu_by_name_remove_first. intros x Hx. apply ecu_eqb_name in Hx. congruence.
Qed.

Lemma direct_only_keeps_wanted : forall w t n, In n w -> ecu_by_name n (m_ecus (direct_only w t)) = ecu_by_name n (m_ecus t).
Proof.
  intros w t n Hin. unfold direct_only.
  set (dels := filter (fun e => negb (memz (e_name e) w) && negb (is_sender (e_name e) t)) (m_ecus t)).
  assert (Hd : forall e, In e dels -> e_name e <> n).
  { intros e He. unfold dels in He. apply filter_In in He. destruct He as [_ He].
    apply andb_true_iff in He. destruct He as [He _]. apply negb_true_iff in He.
    intros Hn. rewrite Hn in He. apply memz_true_iff in Hin. congruence. }
  clearbody dels. revert t. induction dels as [|e r IH]; intros t; simpl; [reflexivity|].
  rewrite IH by (intros x Hx; apply Hd; right; exact Hx).
  apply del_ecu_keeps_other_names. apply Hd. left. reflexivity.
Qed.

Lemma requested_ecu_present : forall g rx tx direct src t e,
  In e (glob_ecus g src) ->
  ecu_by_name (e_name e) (m_ecus (copy_ecu_with_frames g rx tx direct src t)) <> None.
Proof.
  intros g rx tx direct src t e Hin. unfold copy_ecu_with_frames.
  set (t1 := fold_left (copy_ecu_frames_one rx tx src) (glob_ecus g src) t).
  assert (H1 : ecu_by_name (e_name e) (m_ecus t1) <> None) by (apply requested_present_after_fold; exact Hin).
  assert (H2 : ecu_by_name (e_name e) (m_ecus (update_ecu_list t1)) <> None).
  { eapply present_keeps_objects; [apply keeps_objects_update_ecu_list|exact H1]. }
  destruct direct; [|exact H2].
  rewrite direct_only_keeps_wanted; [exact H2|]. apply in_map. exact Hin.
Qed.
