(* C03: the executable well-formedness test wf_extb implies wf_ext; role bookkeeping of simple frames. *)
From CM Require Import lib.Prelude model.Codec model.Mux proofs.Mux_lib proofs.Mux_simple proofs.Mux_complex.
From CM Require proofs.Codec_encode.

Lemma nodupb_sound : forall l, nodupb l = true -> NoDup l.
Proof.
  induction l as [|x r IH]; intro H; [constructor|].
  cbn [nodupb] in H. apply andb_true_iff in H. destruct H as [H1 H2].
  constructor; [|apply IH; exact H2].
  intro Hin. apply negb_true_iff in H1.
  assert (existsb (Z.eqb x) r = true); [|congruence].
  apply existsb_exists. exists x. split; [exact Hin|apply Z.eqb_refl].
Qed.

Lemma pairs_ok_sound : forall P l, pairs_ok P l = true -> ForallOrdPairs (fun a b => P a b = true) l.
Proof.
  intros P. induction l as [|x r IH]; intro H; [constructor|].
  cbn [pairs_ok] in H. apply andb_true_iff in H. destruct H as [H1 H2].
  constructor; [|apply IH; exact H2]. rewrite forallb_forall in H1. apply Forall_forall. exact H1.
Qed.

Lemma value_in_range_accepted : forall s v, value_in_range s (Some v) = any_range (accepted s) v.
Proof.
  intros s v. unfold value_in_range, accepted. destruct (m_grp s) as [|p r]; [|reflexivity].
  destruct (m_mux_val s) as [x|]; [|reflexivity].
  cbn [opt_eqb any_range]. destruct (Z.eqb_spec v x) as [E|E].
  - subst. rewrite Z.leb_refl. reflexivity.
  - destruct (x <=? v) eqn:E1; destruct (v <=? x) eqn:E2; cbn; try reflexivity. lia.
Qed.

Lemma ranges_apart_excl : forall a b v, ranges_apart a b = true -> any_range a v = true -> any_range b v = true -> False.
Proof.
  intros a b v Hap Ha Hb. apply any_range_iff in Ha. apply any_range_iff in Hb.
  destruct Ha as [lo1 [hi1 [Hin1 Hv1]]]. destruct Hb as [lo2 [hi2 [Hin2 Hv2]]].
  unfold ranges_apart in Hap. rewrite forallb_forall in Hap. specialize (Hap _ Hin1).
  rewrite forallb_forall in Hap. specialize (Hap _ Hin2). cbn [fst snd] in Hap. lia.
Qed.

Theorem wf_extb_sound : forall sigs, wf_extb sigs = true -> wf_ext sigs.
Proof.
  intros sigs H. unfold wf_extb in H. apply andb_true_iff in H. destruct H as [H H3].
  apply andb_true_iff in H. destruct H as [H1 H2].
  apply nodupb_sound in H1. apply pairs_ok_sound in H2. apply pairs_ok_sound in H3.
  unfold wf_ext. split; [exact H1|]. split.
  - intros m1 m2 Hi1 Hi2 Hp1 Hp2.
    destruct (ForallOrdPairs_In H2 m1 m2 Hi1 Hi2) as [E|[E|E]]; [exact E| |].
    + rewrite Hp1, Hp2 in E. discriminate.
    + rewrite Hp1, Hp2 in E. discriminate.
  - intros p v m1 m2 Hi1 Hi2 Hp1 Hp2.
    destruct (sub_pred_facts _ _ _ Hp1) as [A1 [A2 A3]].
    destruct (sub_pred_facts _ _ _ Hp2) as [B1 [B2 B3]].
    rewrite value_in_range_accepted in A3, B3.
    destruct (ForallOrdPairs_In H3 m1 m2 Hi1 Hi2) as [E|[E|E]]; [exact E| |].
    + rewrite A1, A2, B1, B2 in E. rewrite opt_eqb_refl in E. cbn in E.
      exfalso. apply (ranges_apart_excl _ _ v E A3 B3).
    + rewrite A1, A2, B1, B2 in E. rewrite opt_eqb_refl in E. cbn in E.
      exfalso. apply (ranges_apart_excl _ _ v E B3 A3).
Qed.

(* ---------- role bookkeeping ---------- *)

(* Signal(..., multiplex=x) followed by Frame.multiplex_signals(): in a frame whose first 'Multiplexor' signal is
   named mux, a signal constructed with a number v ends up bound to v under parent mux; one constructed with None
   stays unbound; multiplexers are left alone. *)
Theorem setup_roles_simple : forall (l : list (signal * mplex)) mux_name,
  assign_roles mux_name (map (fun p => (new_msignal (fst p) (snd p), snd p)) l) =
  Some (map (fun p => match snd p with
                      | MxMux => mkM (fst p) true None [] None
                      | MxNone => mkM (fst p) false None [] None
                      | MxVal v => mkM (fst p) false (Some v) [] (Some mux_name)
                      end) l).
Proof.
  intros l mux_name. induction l as [|[sg x] r IH]; [reflexivity|].
  cbn [map assign_roles fst snd]. rewrite IH.
  destruct x; reflexivity.
Qed.

(* ---------- an executable test for mux_layout_ok (used for the non-vacuity example) ---------- *)

Definition may_coexistb (s t : msignal) : bool :=
  is_none (m_mux_val s) || is_none (m_mux_val t) || opt_eqb (m_mux_val s) (m_mux_val t).
Definition float_okb (s : signal) : bool := negb (s_float s) || (s_size s =? 32) || (s_size s =? 64).
Definition apartb (fsize : Z) (s t : msignal) : bool :=
  forallb (fun k => negb (occupiesb (m_sig s) (Z.of_nat k) && occupiesb (m_sig t) (Z.of_nat k)))
          (seq 0 (Z.to_nat (8 * fsize))).
Definition mux_layout_okb (fsize : Z) (sigs : list msignal) : bool :=
  (0 <=? fsize) && nodupb (map m_name sigs) &&
  pairs_ok (fun s t => negb (may_coexistb s t) || apartb fsize s t) sigs &&
  forallb (fun s => inside (8 * fsize) (m_sig s) && float_okb (m_sig s)) sigs.

Lemma occupiesb_spec : forall s p, occupiesb s p = true <-> occupies s p.
Proof.
  intros s p. unfold occupiesb, occupies. rewrite existsb_exists. split.
  - intros [i [Hi He]]. apply in_seq in Hi. apply Z.eqb_eq in He. exists i. split; [lia|exact He].
  - intros [i [Hi He]]. exists i. split; [apply in_seq; lia|apply Z.eqb_eq; exact He].
Qed.

Lemma FOP_impl_in : forall A (R R' : A -> A -> Prop) l,
  (forall a b, In a l -> In b l -> R a b -> R' a b) -> ForallOrdPairs R l -> ForallOrdPairs R' l.
Proof.
  intros A R R' l Himp H. induction H as [|a l Ha Hl IH]; [constructor|].
  constructor.
  - rewrite Forall_forall in *. intros b Hb. apply Himp; [left; reflexivity|right; exact Hb|apply Ha; exact Hb].
  - apply IH. intros x y Hx Hy. apply Himp; right; assumption.
Qed.

Theorem mux_layout_okb_sound : forall fsize sigs, mux_layout_okb fsize sigs = true -> mux_layout_ok fsize sigs.
Proof.
  intros fsize sigs H. unfold mux_layout_okb in H.
  apply andb_true_iff in H. destruct H as [H H4].
  apply andb_true_iff in H. destruct H as [H H3].
  apply andb_true_iff in H. destruct H as [H1 H2].
  rewrite forallb_forall in H4.
  assert (Hin : forall s, In s sigs -> inside (8 * fsize) (m_sig s) = true /\ float_ok (m_sig s)).
  { intros s Hs. specialize (H4 s Hs). apply andb_true_iff in H4. destruct H4 as [G1 G2].
    split; [exact G1|]. unfold float_okb in G2. intro Hf. rewrite Hf in G2. cbn in G2. lia. }
  unfold mux_layout_ok. split; [lia|]. split; [apply nodupb_sound; exact H2|]. split.
  - apply pairs_ok_sound in H3. revert H3. apply FOP_impl_in.
    intros a b Ha Hb Hab Hco p [Oa Ob].
    assert (Hcb : may_coexistb a b = true).
    { unfold may_coexistb. destruct Hco as [E|[E|E]].
      - rewrite E. reflexivity.
      - rewrite E. cbn [is_none]. rewrite orb_true_r. reflexivity.
      - rewrite E. rewrite opt_eqb_refl. apply orb_true_r. }
    rewrite Hcb in Hab. cbn in Hab. unfold apartb in Hab. rewrite forallb_forall in Hab.
    destruct (Hin a Ha) as [Ia _].
    pose proof (Codec_encode.occupies_range fsize (m_sig a) p Ia Oa) as Hp.
    specialize (Hab (Z.to_nat p)). rewrite Z2Nat.id in Hab by lia.
    assert (Hs : In (Z.to_nat p) (seq 0 (Z.to_nat (8 * fsize)))) by (apply in_seq; lia).
    specialize (Hab Hs). apply occupiesb_spec in Oa. apply occupiesb_spec in Ob.
    rewrite Oa, Ob in Hab. discriminate.
  - apply Forall_forall. exact Hin.
Qed.

(* ---------- role re-assignment: only the last assignment counts ---------- *)

Lemma set_role_frame : forall st x,
  m_sig (fst (set_role st x)) = m_sig (fst st) /\ m_grp (fst (set_role st x)) = m_grp (fst st) /\
  m_parent (fst (set_role st x)) = m_parent (fst st).
Proof. intros st x. unfold set_role. cbn. repeat split. Qed.

Lemma apply_op_frame : forall st op,
  m_sig (fst (apply_op st op)) = m_sig (fst st) /\ m_grp (fst (apply_op st op)) = m_grp (fst st) /\
  m_parent (fst (apply_op st op)) = m_parent (fst st).
Proof. intros st [x|x]; cbn [apply_op fst]; apply set_role_frame. Qed.

Lemma fold_ops_frame : forall ops st,
  m_sig (fst (fold_left apply_op ops st)) = m_sig (fst st) /\
  m_grp (fst (fold_left apply_op ops st)) = m_grp (fst st) /\
  m_parent (fst (fold_left apply_op ops st)) = m_parent (fst st).
Proof.
  induction ops as [|op r IH]; intro st; [cbn; repeat split|].
  cbn [fold_left]. destruct (IH (apply_op st op)) as [H1 [H2 H3]].
  destruct (apply_op_frame st op) as [G1 [G2 G3]].
  repeat split; congruence.
Qed.

(* After ANY history of role assignments on a signal (bare multiplex_setter calls and constructor-style assignments in
   any mix), one more assignment of x leaves exactly the role a fresh assignment of x gives: is_multiplexer and mux_val
   are those of x alone, nothing of the earlier roles survives; position, ranges and parent are untouched. *)
Theorem setter_last_wins : forall st ops op,
  let s := fst (apply_op (fold_left apply_op ops st) op) in
  m_is_mux s = fst (multiplex_setter (op_arg op)) /\ m_mux_val s = snd (multiplex_setter (op_arg op)) /\
  m_sig s = m_sig (fst st) /\ m_grp s = m_grp (fst st) /\ m_parent s = m_parent (fst st).
Proof.
  intros st ops op. cbn zeta.
  destruct (fold_ops_frame ops st) as [H1 [H2 H3]].
  destruct (apply_op_frame (fold_left apply_op ops st) op) as [G1 [G2 G3]].
  split; [destruct op; reflexivity|]. split; [destruct op; reflexivity|].
  repeat split; congruence.
Qed.

Theorem setter_last_wins_fresh : forall sg x0 ops op,
  fst (apply_op (fold_left apply_op ops (new_msignal sg x0, x0)) op) = new_msignal sg (op_arg op).
Proof.
  intros sg x0 ops op.
  destruct (setter_last_wins (new_msignal sg x0, x0) ops op) as [H1 [H2 [H3 [H4 H5]]]].
  destruct (fst (apply_op (fold_left apply_op ops (new_msignal sg x0, x0)) op)) as [a b c d e].
  cbn in *. unfold new_msignal. congruence.
Qed.
