(* C10: list and per-matrix lemmas about model/Lookup.v *)
From CM Require Import lib.Prelude model.ArbId model.Lookup.

(* ---- keys ---- *)
Lemma arbid_eqb_eq : forall a b : key, arbid_eqb a b = true <-> a = b.
Proof.
  intros [i e] [i' e']. unfold arbid_eqb. cbn [fst snd]. split.
  - intros H. apply andb_true_iff in H. destruct H as [H1 H2].
    apply Z.eqb_eq in H1. apply Bool.eqb_prop in H2. subst. reflexivity.
  - intros H. inversion H; subst. rewrite Z.eqb_refl, Bool.eqb_reflx. reflexivity.
Qed.
Lemma arbid_eqb_refl : forall a : key, arbid_eqb a a = true.
Proof. intros a. apply arbid_eqb_eq. reflexivity. Qed.
Lemma has_id_key : forall k f, has_id k f = arbid_eqb (f_key f) k.
Proof. reflexivity. Qed.

(* ---- first_such and the loops ---- *)
Lemma scan_id_first : forall k fs, scan_id k fs = first_such (has_id k) fs.
Proof. intros k fs. induction fs as [| f r IH]; [reflexivity|]. cbn. rewrite IH. reflexivity. Qed.
Lemma scan_name_first : forall n fs, scan_name n fs = first_such (has_name n) fs.
Proof. intros n fs. induction fs as [| f r IH]; [reflexivity|]. cbn. rewrite IH. reflexivity. Qed.
Lemma scan_hdr_first : forall h fs, scan_hdr h fs = first_such (has_hdr h) fs.
Proof.
  intros h fs. induction fs as [| f r IH]; [reflexivity|]. cbn. rewrite IH.
  unfold has_hdr. destruct (f_hdr f); reflexivity.
Qed.

Lemma first_such_some : forall P fs f, first_such P fs = Some f -> In f fs /\ P f = true.
Proof.
  intros P fs f. induction fs as [| g r IH]; cbn; [discriminate|].
  destruct (P g) eqn:E.
  - intros H. inversion H; subst. split; [left; reflexivity | exact E].
  - intros H. destruct (IH H) as [H1 H2]. split; [right; exact H1 | exact H2].
Qed.
Lemma first_such_none : forall P fs, first_such P fs = None -> forall f, In f fs -> P f = false.
Proof.
  intros P fs. induction fs as [| g r IH]; cbn; [intros _ f []|].
  destruct (P g) eqn:E; [discriminate|].
  intros H f [Hf | Hf]; [subst; exact E | exact (IH H f Hf)].
Qed.
Lemma first_such_none_of_all : forall P fs, (forall f, In f fs -> P f = false) -> first_such P fs = None.
Proof.
  intros P fs. induction fs as [| g r IH]; cbn; [reflexivity|].
  intros H. rewrite (H g (or_introl eq_refl)). apply IH. intros f Hf. apply H. right. exact Hf.
Qed.
Lemma lookup_ok_first : forall P fs, lookup_ok P fs (option_map f_uid (first_such P fs)).
Proof.
  intros P fs. destruct (first_such P fs) as [f|] eqn:E; cbn.
  - destruct (first_such_some _ _ _ E) as [H1 H2]. exists f. auto.
  - exact (first_such_none _ _ E).
Qed.
Lemma lookup_ok_none_iff : forall P fs r, lookup_ok P fs r -> (r = None <-> first_such P fs = None).
Proof.
  intros P fs [u|]; cbn.
  - intros (f & Hin & _ & HP). split; [discriminate|].
    intros E. rewrite (first_such_none _ _ E f Hin) in HP. discriminate.
  - intros H. split; [intros _; apply first_such_none_of_all; exact H | reflexivity].
Qed.

(* ---- objects ---- *)
Lemma find_uid_some : forall u fs f, find_uid u fs = Some f -> In f fs /\ f_uid f = u.
Proof.
  intros u fs f. induction fs as [| g r IH]; cbn; [discriminate|].
  destruct (f_uid g =? u) eqn:E.
  - intros H. inversion H; subst. split; [left; reflexivity | apply Z.eqb_eq; exact E].
  - intros H. destruct (IH H). split; [right|]; assumption.
Qed.
Lemma find_uid_in : forall u fs, In u (map f_uid fs) -> exists f, find_uid u fs = Some f.
Proof.
  intros u fs. induction fs as [| g r IH]; cbn; [intros []|].
  destruct (f_uid g =? u) eqn:E; [intros _; eexists; reflexivity|].
  intros [H | H]; [apply Z.eqb_neq in E; contradiction | exact (IH H)].
Qed.
Lemma find_uid_none : forall u fs, find_uid u fs = None -> ~ In u (map f_uid fs).
Proof.
  intros u fs H Hin. destruct (find_uid_in _ _ Hin) as [f Hf]. congruence.
Qed.
Lemma in_map_uid : forall (f : frame) fs, In f fs -> In (f_uid f) (map f_uid fs).
Proof. intros f fs H. apply in_map. exact H. Qed.

Lemma remove_uid_incl : forall u fs x, In x (map f_uid (remove_uid u fs)) -> In x (map f_uid fs).
Proof.
  intros u fs x. induction fs as [| g r IH]; cbn; [auto|].
  destruct (f_uid g =? u); cbn; [auto|]. intros [H | H]; [left | right]; auto.
Qed.
Lemma remove_uid_nodup : forall u fs, NoDup (map f_uid fs) -> NoDup (map f_uid (remove_uid u fs)).
Proof.
  intros u fs. induction fs as [| g r IH]; cbn; [auto|].
  intros H. inversion H as [| ? ? Hn Hd]; subst.
  destruct (f_uid g =? u); [exact Hd|]. cbn. constructor; [|exact (IH Hd)].
  intros Hin. apply Hn. exact (remove_uid_incl _ _ _ Hin).
Qed.
Lemma remove_uid_forall : forall (P : frame -> Prop) u fs, Forall P fs -> Forall P (remove_uid u fs).
Proof.
  intros P u fs H. induction H as [| g r Hg Hr IH]; cbn; [constructor|].
  destruct (f_uid g =? u); [exact Hr | constructor; assumption].
Qed.

Lemma map_uid_rename : forall old new fs, map f_uid (map (rename1 old new) fs) = map f_uid fs.
Proof.
  intros old new fs. rewrite map_map. apply map_ext. intros f. unfold rename1.
  destruct (f_name f =? old); reflexivity.
Qed.
Lemma map_uid_setid : forall u id ext fs, map f_uid (map (setid1 u id ext) fs) = map f_uid fs.
Proof.
  intros u id ext fs. rewrite map_map. apply map_ext. intros f. unfold setid1.
  destruct (f_uid f =? u); reflexivity.
Qed.

Lemma map_uid_sethdr : forall u h fs, map f_uid (map (sethdr1 u h) fs) = map f_uid fs.
Proof.
  intros u h fs. rewrite map_map. apply map_ext. intros f. unfold sethdr1.
  destruct (f_uid f =? u); reflexivity.
Qed.

(* ---- upd_nth ---- *)
Lemma upd_nth_length : forall A (l : list A) i x, length (upd_nth l i x) = length l.
Proof. intros A l. induction l as [| y r IH]; intros [| i] x; cbn; auto. Qed.
Lemma upd_nth_same : forall A (l : list A) i x y, nth_error l i = Some y -> nth_error (upd_nth l i x) i = Some x.
Proof.
  intros A l. induction l as [| z r IH]; intros [| i] x y; cbn; try discriminate; auto.
  intros H. exact (IH _ _ _ H).
Qed.
Lemma upd_nth_other : forall A (l : list A) i j x, i <> j -> nth_error (upd_nth l i x) j = nth_error l j.
Proof.
  intros A l. induction l as [| z r IH]; intros [| i] [| j] x H; cbn; auto; try congruence.
Qed.
Lemma upd_nth_id : forall A (l : list A) i x, nth_error l i = Some x -> upd_nth l i x = l.
Proof.
  intros A l. induction l as [| z r IH]; intros [| i] x; cbn; try discriminate; auto.
  - intros H. inversion H. reflexivity.
  - intros H. rewrite (IH _ _ H). reflexivity.
Qed.
Lemma upd_nth_forall : forall A (P : A -> Prop) (l : list A) i x, Forall P l -> P x -> Forall P (upd_nth l i x).
Proof.
  intros A P l. induction l as [| z r IH]; intros [| i] x Hl Hx; cbn; auto;
    inversion Hl; subst; constructor; auto.
Qed.
Lemma forall_nth_error : forall A (P : A -> Prop) (l : list A) i x, Forall P l -> nth_error l i = Some x -> P x.
Proof.
  intros A P l i x Hl Hn. rewrite Forall_forall in Hl. apply Hl. exact (nth_error_In _ _ Hn).
Qed.
Lemma nth_error_app_old : forall A (l : list A) x j y, nth_error l j = Some y -> nth_error (l ++ [x]) j = Some y.
Proof.
  intros A l x j y H. rewrite nth_error_app1; [exact H|]. apply nth_error_Some. congruence.
Qed.

(* ---- frame_by_id on one matrix ---- *)
(* it never touches anything but the memo *)
Lemma fbi_shape : forall m k,
  let m' := fst (frame_by_id_m m k) in
  m_frames m' = m_frames m /\ m_ecus m' = m_ecus m /\ m_dead m' = m_dead m.
Proof.
  intros m k. unfold frame_by_id_m.
  destruct (memo_get k (m_memo m)) as [u|]; [destruct (find_obj u m) as [f|]; [destruct (arbid_eqb (f_key f) k)|]|];
    try (destruct (scan_id k (m_frames m)) as [g|]); cbn; auto.
Qed.
(* either nothing changes, or the first frame carrying k is returned and memoised *)
Lemma fbi_cases : forall m k,
  (fst (frame_by_id_m m k) = m) \/
  (exists f, scan_id k (m_frames m) = Some f /\
             frame_by_id_m m k = (set_memo m ((k, f_uid f) :: m_memo m), Some (f_uid f))).
Proof.
  intros m k. unfold frame_by_id_m.
  destruct (memo_get k (m_memo m)) as [u|]; [destruct (find_obj u m) as [f|]; [destruct (arbid_eqb (f_key f) k)|]|];
    try (destruct (scan_id k (m_frames m)) as [g|] eqn:E); cbn; auto; right; exists g; auto.
Qed.
Lemma memo_get_in : forall k memo u, memo_get k memo = Some u -> exists e, In e memo /\ snd e = u.
Proof.
  intros k memo u. induction memo as [| e r IH]; cbn; [discriminate|].
  destruct (arbid_eqb (fst e) k).
  - intros H. inversion H. exists e. auto.
  - intros H. destruct (IH H) as (e' & H1 & H2). exists e'. auto.
Qed.

Lemma fbi_spec : forall m k, memo_inv_m m ->
  lookup_ok (has_id k) (m_frames m) (snd (frame_by_id_m m k)) /\ memo_inv_m (fst (frame_by_id_m m k)).
Proof.
  intros m k Hinv.
  assert (Hscan :
    let r := match scan_id k (m_frames m) with
             | Some f => (set_memo m ((k, f_uid f) :: m_memo m), Some (f_uid f))
             | None => (m, None) end in
    lookup_ok (has_id k) (m_frames m) (snd r) /\ memo_inv_m (fst r)).
  { rewrite scan_id_first. destruct (first_such (has_id k) (m_frames m)) as [f|] eqn:E; cbn.
    - destruct (first_such_some _ _ _ E) as [Hin HP]. split; [exists f; auto|].
      unfold memo_inv_m. cbn. constructor; [cbn; apply in_map; exact Hin | exact Hinv].
    - split; [exact (first_such_none _ _ E) | exact Hinv]. }
  unfold frame_by_id_m.
  destruct (memo_get k (m_memo m)) as [u|] eqn:Eg; [|exact Hscan].
  destruct (memo_get_in _ _ _ Eg) as (e & He & Hu).
  unfold memo_inv_m in Hinv. rewrite Forall_forall in Hinv. pose proof (Hinv e He) as Hin. rewrite Hu in Hin.
  destruct (find_uid_in _ _ Hin) as [f Hf].
  unfold find_obj. rewrite Hf.
  destruct (arbid_eqb (f_key f) k) eqn:Ek; [|apply Hscan; apply Forall_forall; exact Hinv].
  destruct (find_uid_some _ _ _ Hf) as [Hfin Hfu]. cbn. split.
  - exists f. rewrite has_id_key. auto.
  - apply Forall_forall. exact Hinv.
Qed.

(* a lookup does not change what later lookups answer (needed for the source of copy/merge) *)
Lemma memo_get_cons_other : forall k k' u memo, arbid_eqb k k' = false -> memo_get k' ((k, u) :: memo) = memo_get k' memo.
Proof. intros k k' u memo H. cbn. rewrite H. reflexivity. Qed.

Lemma fbi_idempotent : forall m k k',
  snd (frame_by_id_m (fst (frame_by_id_m m k)) k') = snd (frame_by_id_m m k').
Proof.
  intros m k k'. destruct (fbi_cases m k) as [H | (f & Hs & H)]; [rewrite H; reflexivity|].
  rewrite H. cbn [fst].
  destruct (arbid_eqb k k') eqn:Ek.
  - apply arbid_eqb_eq in Ek. subst k'.
    (* in the new matrix the answer for k is f either way *)
    assert (Hnew : snd (frame_by_id_m (set_memo m ((k, f_uid f) :: m_memo m)) k) = Some (f_uid f)).
    { unfold frame_by_id_m. cbn [m_memo set_memo m_frames]. cbn [memo_get fst snd]. rewrite arbid_eqb_refl.
      rewrite Hs.
      destruct (find_obj (f_uid f) (set_memo m ((k, f_uid f) :: m_memo m))) as [g|];
        [destruct (arbid_eqb (f_key g) k)|]; reflexivity. }
    rewrite Hnew. rewrite H. reflexivity.
  - unfold frame_by_id_m. cbn [m_memo set_memo m_frames]. rewrite memo_get_cons_other by exact Ek.
    unfold find_obj. cbn [m_frames m_dead set_memo].
    destruct (memo_get k' (m_memo m)) as [u|];
      [destruct (match find_uid u (m_frames m) with Some f0 => Some f0 | None => find_uid u (m_dead m) end) as [g|];
        [destruct (arbid_eqb (f_key g) k')|]|];
      try (destruct (scan_id k' (m_frames m)) as [g'|]); reflexivity.
Qed.

Lemma run_log_is_run : forall ops w, fst (run_log w ops) = run w ops.
Proof.
  induction ops as [| o r IH]; intros w; cbn [run_log run fold_left]; [reflexivity|].
  destruct (step w o) as [w1 res] eqn:E. specialize (IH w1). destruct (run_log w1 r) as [w2 l].
  cbn [fst] in *. exact IH.
Qed.
