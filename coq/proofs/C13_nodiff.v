(* C13: total presentation of compare_* (proof device), "reports nothing <-> agree" per object kind and for the
   whole matrix, comparison with itself. *)
From CM Require Import lib.Prelude model.Compare model.CompareSpec proofs.C13_lib.
From Coq Require Import Permutation.

(* ------------------------------------------------------------------ shapes shared by the compare functions *)
Definition dict_kids {A} (del : Z -> A -> list cres) (chg : Z -> A -> A -> list cres) (add : Z -> A -> list cres)
  (d1 d2 : list (Z * A)) : list cres :=
  flat_map (fun kv => match lookup (fst kv) d2 with
                      | None => del (fst kv) (snd kv)
                      | Some v2 => chg (fst kv) (snd kv) v2
                      end) d1
  ++ flat_map (fun kv => match lookup (fst kv) d1 with
                         | None => add (fst kv) (snd kv)
                         | Some _ => []
                         end) d2.

Definition named_part1 {A} (name : A -> Z) (del : A -> cres) (cmp : A -> A -> cres) (l1 l2 : list A) : list cres :=
  map (fun x => match find (fun z => name z =? name x) l2 with None => del x | Some y => cmp x y end) l1.
Definition named_part2 {A} (name : A -> Z) (add : A -> cres) (l1 l2 : list A) : list cres :=
  flat_map (fun y => match find (fun z => name z =? name y) l1 with None => [add y] | Some _ => [] end) l2.
Definition set_part {A} (key : A -> Z) (lf : A -> cres) (l : list A) (other : list Z) : list cres :=
  flat_map (fun r => if mem (key r) other then [] else [lf r]) l.

(* ------------------------------------------------------------------ total presentation *)
Definition vt_kids (vt1 vt2 : dict) : list cres :=
  dict_kids (fun k v => [leaf RRemoved (TValue k) v])
            (fun k v v2 => if v =? v2 then [] else [leaf RChanged (TValueChanged k v) (-1)])
            (fun k v => [leaf RAdded (TValue k) v]) vt1 vt2.
Lemma compare_value_table_shape : forall ref vt1 vt2,
  compare_value_table ref vt1 vt2 = Node REqual TValuetable ref (vt_kids vt1 vt2).
Proof. reflexivity. Qed.

Definition attr_kids (a1 a2 : dict) : list cres :=
  dict_kids (fun k v => [leaf RDeleted (TAttr k) v])
            (fun k v v2 => if v =? v2 then [] else [leaf RChanged (TAttr k) v])
            (fun k v => [leaf RAdded (TAttr k) v]) a1 a2.
Lemma compare_attributes_shape : forall ign ref a1 a2,
  compare_attributes ign ref a1 a2 = Node REqual TATTRIBUTES ref (if ig_attr ign then [] else attr_kids a1 a2).
Proof. intros. unfold compare_attributes. destruct (ig_attr ign); reflexivity. Qed.

Definition def_kids (d1 d2 : defines) : list cres :=
  dict_kids (fun k (v : Z * Z) => [leaf RDeleted (TDefine k) (-1)])
            (fun k v v2 => (if fst v =? fst v2 then [] else [leaf RChanged TDefinition (fst v)])
                           ++ (if snd v =? snd v2 then [] else [leaf RChanged TDefaultValue (fst v)]))
            (fun k v => [leaf RAdded (TDefine k) (-1)]) d1 d2.
Lemma compare_define_list_shape : forall d1 d2,
  compare_define_list d1 d2 = Node REqual TDefineList (-1) (def_kids d1 d2).
Proof. reflexivity. Qed.

Definition group_kids (g1 g2 : sgroup) : list cres :=
  chgl (gr_name g1 =? gr_name g2) TSignalName (-1)
  ++ chgl (gr_id g1 =? gr_id g2) TSignalName (-1)
  ++ set_part (fun n => n) (fun n => leaf RDeleted (TMember n) n) (gr_members g1) (gr_members g2)
  ++ set_part (fun n => n) (fun n => leaf RAdded (TMember n) n) (gr_members g2) (gr_members g1).
Lemma compare_signal_group_shape : forall g1 g2,
  compare_signal_group g1 g2 = Node REqual TSignalGroup (gr_name g1) (group_kids g1 g2).
Proof. reflexivity. Qed.

Definition signal_kids (ign : ignore) (s1 s2 : signal) : list cres :=
  let n := sg_name s1 in
  chgl (sg_start s1 =? sg_start s2) Tstartbit n
  ++ chgl (sg_size s1 =? sg_size s2) Tsignalsize n
  ++ chgl (sg_factor s1 =? sg_factor s2) Tfactor n
  ++ chgl (sg_offset s1 =? sg_offset s2) Toffset n
  ++ chgl (opt_eqb (sg_min s1) (sg_min s2)) Tmin n
  ++ chgl (opt_eqb (sg_max s1) (sg_max s2)) Tmax n
  ++ chgl (Bool.eqb (sg_le s1) (sg_le s2)) Tis_little_endian n
  ++ chgl (Bool.eqb (sg_signed s1) (sg_signed s2)) Tsign n
  ++ chgl (mux_eqb (sg_mux s1) (sg_mux s2)) Tmultiplex n
  ++ chgl (sg_unit s1 =? sg_unit s2) Tunit n
  ++ (if ig_comment ign then [] else chgl (comment_text (sg_comment s1) =? comment_text (sg_comment s2)) Tcomment n)
  ++ set_part snd (fun r => leaf RRemoved (Treceiver (fst r)) (-1)) (sg_receivers s1) (map snd (sg_receivers s2))
  ++ set_part snd (fun r => leaf RAdded (Treceiver (fst r)) (-1)) (sg_receivers s2) (map snd (sg_receivers s1))
  ++ (if ig_attr ign then [] else [compare_attributes ign n (sg_attrs s1) (sg_attrs s2)])
  ++ (if ig_vt ign then [] else [compare_value_table (-1) (sg_values s1) (sg_values s2)]).
Definition compare_signal_t (ign : ignore) (s1 s2 : signal) : cres :=
  Node REqual TSIGNAL (sg_name s1) (signal_kids ign s1 s2).

Lemma compare_signal_some : forall ign s1 s2 r, compare_signal ign s1 s2 = Some r -> r = compare_signal_t ign s1 s2.
Proof.
  intros ign s1 s2 r. unfold compare_signal, compare_signal_t, signal_kids.
  destruct (sg_min s1), (sg_min s2), (sg_max s1), (sg_max s2); intro H; try discriminate.
  inversion H. reflexivity.
Qed.
Lemma compare_signal_none : forall ign s1 s2,
  compare_signal ign s1 s2 = None <-> (sg_min s1 = None \/ sg_min s2 = None \/ sg_max s1 = None \/ sg_max s2 = None).
Proof.
  intros ign s1 s2. unfold compare_signal.
  destruct (sg_min s1), (sg_min s2), (sg_max s1), (sg_max s2); split; intro H; try discriminate; try reflexivity; auto;
    destruct H as [H|[H|[H|H]]]; discriminate.
Qed.

Definition frame_kids (ign : ignore) (f1 f2 : frame) : list cres :=
  let n := fr_name f1 in
  named_part1 sg_name (fun s => leaf RDeleted TSIGNAL (sg_name s)) (compare_signal_t ign) (fr_signals f1) (fr_signals f2)
  ++ chgl (fr_name f1 =? fr_name f2) TName n
  ++ chgl (fr_size f1 =? fr_size f2) Tdlc n
  ++ chgl (fr_id f1 =? fr_id f2) TID n
  ++ chgl (Bool.eqb (fr_ext f1) (fr_ext f2)) TFRAME n
  ++ (if ig_comment ign then [] else chgl (comment_text (fr_comment f1) =? comment_text (fr_comment f2)) TFRAME n)
  ++ named_part2 sg_name (fun s => leaf RAdded TSIGNAL (sg_name s)) (fr_signals f1) (fr_signals f2)
  ++ (if ig_attr ign then [] else [compare_attributes ign n (fr_attrs f1) (fr_attrs f2)])
  ++ set_part (fun t => t) (fun _ => leaf RRemoved TFrameTransmitter (fr_name f1)) (fr_tx f1) (fr_tx f2)
  ++ set_part (fun t => t) (fun _ => leaf RAdded TFrameTransmitter (fr_name f2)) (fr_tx f2) (fr_tx f1)
  ++ named_part1 gr_name (fun g => leaf RRemoved TSignalgroup (gr_name g)) compare_signal_group (fr_groups f1) (fr_groups f2)
  ++ named_part2 gr_name (fun g => leaf RAdded TSignalgroup (gr_name g)) (fr_groups f1) (fr_groups f2).
Definition compare_frame_t (ign : ignore) (f1 f2 : frame) : cres :=
  Node REqual TFRAME (fr_name f1) (frame_kids ign f1 f2).

Lemma compare_frame_some : forall ign f1 f2 r, compare_frame ign f1 f2 = Some r -> r = compare_frame_t ign f1 f2.
Proof.
  intros ign f1 f2 r. unfold compare_frame.
  destruct (sequence _) as [ks|] eqn:E; [|discriminate]. intro H. inversion H. clear H.
  unfold compare_frame_t, frame_kids. f_equal. f_equal.
  unfold named_part1, signal_by_name in *.
  eapply sequence_map_some; [|exact E].
  intros x y _ Hx. cbn beta in Hx.
  destruct (find (fun s => sg_name s =? sg_name x) (fr_signals f2)) as [s2|].
  - apply compare_signal_some in Hx. exact Hx.
  - inversion Hx. reflexivity.
Qed.

(* which frame of `other` a frame f of `own` is compared with *)
Definition partner (own other : matrix) (f : frame) : option frame :=
  match frame_by_name (fr_name f) other with
  | Some g => Some g
  | None => match frame_by_id f other with
            | None => None
            | Some g => match frame_by_name (fr_name g) own with Some _ => None | None => Some g end
            end
  end.
Definition db_kids (ign : ignore) (db1 db2 : matrix) : list cres :=
  map (fun f1 => match partner db1 db2 f1 with
                 | Some f2 => compare_frame_t ign f1 f2
                 | None => leaf RDeleted TFRAME (fr_name f1)
                 end) (m_frames db1)
  ++ flat_map (fun f2 => match partner db2 db1 f2 with
                         | None => [leaf RAdded TFRAME (fr_name f2)]
                         | Some _ => []
                         end) (m_frames db2)
  ++ (if ig_attr ign then [] else [compare_attributes ign (-1) (m_attrs db1) (m_attrs db2)])
  ++ named_part1 ec_name (fun e => leaf RDeleted Tecu (ec_name e)) (compare_ecu ign) (m_ecus db1) (m_ecus db2)
  ++ named_part2 ec_name (fun e => leaf RAdded Tecu (ec_name e)) (m_ecus db1) (m_ecus db2)
  ++ (if ig_def ign then []
      else [compare_define_list (m_gdefs db1) (m_gdefs db2);
            set_type TEcuDefines (compare_define_list (m_edefs db1) (m_edefs db2));
            set_type TFrameDefines (compare_define_list (m_fdefs db1) (m_fdefs db2));
            set_type TSignalDefines (compare_define_list (m_sdefs db1) (m_sdefs db2))])
  ++ (if ig_vt ign then []
      else dict_kids (fun k (t : dict) => [leaf RDeleted (Tvaluetable k) (-1)])
                     (fun k t t2 => [compare_value_table k t t2])
                     (fun k t => [leaf RAdded (Tvaluetable k) (-1)]) (m_vtables db1) (m_vtables db2)).
Definition compare_db_t (ign : ignore) (db1 db2 : matrix) : cres := Node RNone TNone (-1) (db_kids ign db1 db2).

Lemma map_as_flat_map : forall {A B} (f : A -> B) l, map f l = flat_map (fun x => [f x]) l.
Proof. intros A B f l. induction l as [|x l IH]; cbn; [reflexivity|]. rewrite IH. reflexivity. Qed.

Lemma compare_db_raw_some : forall ign a b r, compare_db_raw ign a b = Some r -> r = compare_db_t ign a b.
Proof.
  intros ign a b r. unfold compare_db_raw.
  destruct (sequence _) as [ks|] eqn:E; [|discriminate]. intro H. inversion H. clear H.
  unfold compare_db_t, db_kids. f_equal. f_equal.
  - eapply sequence_map_some; [|exact E].
    intros x y _ Hx. cbn beta in Hx. unfold partner.
    destruct (frame_by_name (fr_name x) b) as [f2|].
    + apply compare_frame_some in Hx. exact Hx.
    + destruct (frame_by_id x b) as [f2|]; [|inversion Hx; reflexivity].
      destruct (frame_by_name (fr_name f2) a); [inversion Hx; reflexivity | apply compare_frame_some in Hx; exact Hx].
  - f_equal.
    + apply flat_map_ext_in. intros f2 _. unfold partner.
      destruct (frame_by_name (fr_name f2) a); [reflexivity|]. destruct (frame_by_id f2 a) as [g|]; [|reflexivity].
      destruct (frame_by_name (fr_name g) b); reflexivity.
    + f_equal. f_equal. f_equal. f_equal. destruct (ig_vt ign); [reflexivity|].
      unfold dict_kids. f_equal. rewrite map_as_flat_map. apply flat_map_ext_in. intros [k t] _. cbn.
      destruct (lookup k (m_vtables b)); reflexivity.
Qed.
Lemma compare_db_some : forall ign a b r, compare_db ign a b = Some r -> r = propagate (compare_db_t ign a b).
Proof.
  intros ign a b r. unfold compare_db. destruct (compare_db_raw ign a b) as [t|] eqn:E; [|discriminate].
  intro H. inversion H. apply compare_db_raw_some in E. subst. reflexivity.
Qed.

(* ------------------------------------------------------------------ when does compare_db answer at all *)
Lemma compare_frame_defined : forall ign f1 f2,
  (forall s, In s (fr_signals f1) -> sg_min s <> None /\ sg_max s <> None) ->
  (forall s, In s (fr_signals f2) -> sg_min s <> None /\ sg_max s <> None) ->
  compare_frame ign f1 f2 <> None.
Proof.
  intros ign f1 f2 H1 H2. unfold compare_frame.
  destruct (sequence _) eqn:E; [discriminate|]. exfalso. revert E. apply sequence_map_all.
  intros s1 Hs1. unfold signal_by_name. destruct (find _ (fr_signals f2)) as [s2|] eqn:Ef; [|discriminate].
  apply find_some in Ef. destruct Ef as [Hs2 _]. intro Hn. apply compare_signal_none in Hn.
  destruct (H1 s1 Hs1), (H2 s2 Hs2). tauto.
Qed.
Lemma compare_db_defined : forall ign a b, limits_present a -> limits_present b -> compare_db ign a b <> None.
Proof.
  intros ign a b La Lb. unfold compare_db. destruct (compare_db_raw ign a b) eqn:E; [discriminate|]. exfalso.
  revert E. unfold compare_db_raw. destruct (sequence _) eqn:E; [discriminate|]. intros _. revert E.
  apply sequence_map_all. intros f1 Hf1.
  assert (Hany : forall f2, In f2 (m_frames b) -> compare_frame ign f1 f2 <> None).
  { intros f2 Hf2. apply compare_frame_defined; intros s Hs; [apply (La f1 s Hf1 Hs) | apply (Lb f2 s Hf2 Hs)]. }
  destruct (frame_by_name (fr_name f1) b) as [f2|] eqn:E1.
  - unfold frame_by_name in E1. apply find_some in E1. apply Hany. apply E1.
  - destruct (frame_by_id f1 b) as [f2|] eqn:E2; [|discriminate].
    destruct (frame_by_name (fr_name f2) a); [discriminate|].
    unfold frame_by_id in E2. apply find_some in E2. apply Hany. apply E2.
Qed.

(* ------------------------------------------------------------------ quiet <-> agree, piece by piece *)
Lemma cond_quiet : forall (b : bool) l, forallb all_equal (if b then [] else l) = true <-> (b = false -> forallb all_equal l = true).
Proof. intros [] l; cbn; split; auto; intros; congruence. Qed.
Lemma single_quiet : forall t, forallb all_equal [t] = true <-> all_equal t = true.
Proof. intro t. cbn. rewrite andb_true_r. tauto. Qed.
Lemma set_eq_incl : forall l1 l2, set_eq l1 l2 <-> (incl l1 l2 /\ incl l2 l1).
Proof. intros l1 l2. unfold set_eq, incl. split; [intro H; split; intros x; apply H | intros [H1 H2] x; split; auto]. Qed.

Lemma set_part_quiet : forall {A} (key : A -> Z) (lf : A -> cres) l other,
  (forall r, all_equal (lf r) = false) ->
  (forallb all_equal (set_part key lf l other) = true <-> incl (map key l) other).
Proof.
  intros A key lf l other Hlf. unfold set_part. rewrite forallb_flat_map. unfold incl. split.
  - intros H x Hx. apply in_map_iff in Hx. destruct Hx as [r [E Hr]]. subst. specialize (H r Hr).
    destruct (mem (key r) other) eqn:Em; [apply mem_In; exact Em|]. cbn in H. rewrite Hlf in H. discriminate.
  - intros H r Hr. assert (Hm : mem (key r) other = true) by (apply mem_In, H, in_map, Hr). rewrite Hm. reflexivity.
Qed.

Lemma dict_kids_quiet : forall {A} del chg add (d1 d2 : list (Z * A)),
  (forall k v, forallb all_equal (del k v) = false) -> (forall k v, forallb all_equal (add k v) = false) ->
  (forall k v v2, forallb all_equal (chg k v v2) = true <-> v = v2) ->
  NoDup (keys d1) -> NoDup (keys d2) ->
  (forallb all_equal (dict_kids del chg add d1 d2) = true <-> dict_agree d1 d2).
Proof.
  intros A del chg add d1 d2 Hdel Hadd Hchg N1 N2. unfold dict_kids.
  rewrite forallb_app, andb_true_iff, !forallb_flat_map, <- (dict_quiet d1 d2 N1 N2). split; intros [H1 H2]; split.
  - intros k v Hin. specialize (H1 (k, v) Hin). cbn in H1. destruct (lookup k d2) as [v2|].
    + apply Hchg in H1. subst. reflexivity.
    + rewrite Hdel in H1. discriminate.
  - intros k v Hin. specialize (H2 (k, v) Hin). cbn in H2. destruct (lookup k d1); [discriminate|].
    rewrite Hadd in H2. discriminate.
  - intros [k v] Hin. cbn. rewrite (H1 k v Hin). apply Hchg. reflexivity.
  - intros [k v] Hin. cbn. specialize (H2 k v Hin). destruct (lookup k d1); [reflexivity | congruence].
Qed.

Lemma if_eqb_quiet : forall (v v2 : Z) (l : cres), all_equal l = false ->
  (forallb all_equal (if v =? v2 then [] else [l]) = true <-> v = v2).
Proof.
  intros v v2 l Hl. destruct (v =? v2) eqn:E.
  - apply Z.eqb_eq in E. cbn. tauto.
  - apply Z.eqb_neq in E. cbn. rewrite Hl. cbn. split; [discriminate | contradiction].
Qed.

Lemma vt_quiet : forall ref vt1 vt2, NoDup (keys vt1) -> NoDup (keys vt2) ->
  (all_equal (compare_value_table ref vt1 vt2) = true <-> dict_agree vt1 vt2).
Proof.
  intros ref vt1 vt2 N1 N2. rewrite compare_value_table_shape. cbn [all_equal is_equal andb]. unfold vt_kids.
  apply dict_kids_quiet; auto. intros k v v2. apply if_eqb_quiet. reflexivity.
Qed.
Lemma attrs_quiet : forall ign ref a1 a2, NoDup (keys a1) -> NoDup (keys a2) ->
  (all_equal (compare_attributes ign ref a1 a2) = true <-> (ig_attr ign = false -> dict_agree a1 a2)).
Proof.
  intros ign ref a1 a2 N1 N2. rewrite compare_attributes_shape. cbn [all_equal is_equal andb].
  rewrite cond_quiet. unfold attr_kids. rewrite dict_kids_quiet; auto; [tauto|].
  intros k v v2. apply if_eqb_quiet. reflexivity.
Qed.
Lemma defs_quiet : forall d1 d2, NoDup (keys d1) -> NoDup (keys d2) ->
  (all_equal (compare_define_list d1 d2) = true <-> dict_agree d1 d2).
Proof.
  intros d1 d2 N1 N2. rewrite compare_define_list_shape. cbn [all_equal is_equal andb]. unfold def_kids.
  apply dict_kids_quiet; auto. intros k [x y] [x2 y2]. cbn [fst snd].
  rewrite forallb_app, andb_true_iff, !if_eqb_quiet by reflexivity. split; [intros [? ?]; congruence | intro H; inversion H; auto].
Qed.
Lemma all_equal_set_type : forall ty t, all_equal (set_type ty t) = all_equal t.
Proof. intros ty [r t0 ref kids]. reflexivity. Qed.

Lemma group_quiet : forall g1 g2, gr_name g1 = gr_name g2 ->
  (all_equal (compare_signal_group g1 g2) = true <-> group_agree g1 g2).
Proof.
  intros g1 g2 Hn. rewrite compare_signal_group_shape. cbn [all_equal is_equal andb]. unfold group_kids, group_agree.
  rewrite !forallb_app, !andb_true_iff, !chgl_quiet, !set_part_quiet by reflexivity.
  rewrite !map_id, !Z.eqb_eq, set_eq_incl. tauto.
Qed.

Lemma ecu_quiet : forall ign e1 e2, wf_ecu e1 -> wf_ecu e2 ->
  (all_equal (compare_ecu ign e1 e2) = true <-> ecu_agree ign e1 e2).
Proof.
  intros ign e1 e2 W1 W2. unfold compare_ecu, ecu_agree. cbn [all_equal is_equal andb].
  rewrite forallb_app, andb_true_iff.
  assert (Hc : forallb all_equal (if ig_comment ign then []
                 else if opt_eqb (ec_comment e1) (ec_comment e2) then [] else [leaf RChanged TECU (ec_name e1)]) = true
               <-> (ig_comment ign = false -> ec_comment e1 = ec_comment e2)).
  { rewrite cond_quiet, <- opt_eqb_eq. destruct (opt_eqb (ec_comment e1) (ec_comment e2)); cbn; tauto. }
  assert (Ha : forallb all_equal (if ig_attr ign then [] else [compare_attributes ign (ec_name e1) (ec_attrs e1) (ec_attrs e2)]) = true
               <-> (ig_attr ign = false -> dict_agree (ec_attrs e1) (ec_attrs e2))).
  { rewrite cond_quiet, single_quiet, attrs_quiet by assumption. tauto. }
  rewrite Hc, Ha. tauto.
Qed.

Lemma signal_quiet : forall ign s1 s2, dicts_ok_signal s1 -> dicts_ok_signal s2 ->
  (all_equal (compare_signal_t ign s1 s2) = true <-> signal_agree ign s1 s2).
Proof.
  intros ign s1 s2 [Nv1 Na1] [Nv2 Na2]. unfold compare_signal_t, signal_kids, signal_agree.
  cbn [all_equal is_equal andb].
  rewrite !forallb_app, !andb_true_iff, !cond_quiet, !single_quiet, !chgl_quiet, !set_part_quiet by reflexivity.
  rewrite attrs_quiet, vt_quiet by assumption.
  rewrite !Z.eqb_eq, !booleqb_eq, !opt_eqb_eq, mux_eqb_eq, set_eq_incl. tauto.
Qed.

Lemma named_parts_quiet : forall {A} (name : A -> Z) del cmp add (l1 l2 : list A),
  (forall x, all_equal (del x) = false) -> (forall y, all_equal (add y) = false) ->
  NoDup (map name l1) -> NoDup (map name l2) ->
  ((forallb all_equal (named_part1 name del cmp l1 l2) = true /\ forallb all_equal (named_part2 name add l1 l2) = true)
   <-> (same_names name l1 l2 /\ pairwise name (fun x y => all_equal (cmp x y) = true) l1 l2)).
Proof.
  intros A name del cmp add l1 l2 Hdel Hadd N1 N2.
  rewrite <- (named_quiet name (fun x y => all_equal (cmp x y) = true) l1 l2 N1 N2).
  unfold named_part1, named_part2. rewrite forallb_map, forallb_flat_map. split; intros [H1 H2]; split.
  - intros x Hx. specialize (H1 x Hx). destruct (find _ l2) as [y|]; [exists y; auto | rewrite Hdel in H1; discriminate].
  - intros y Hy. specialize (H2 y Hy). destruct (find _ l1); [discriminate | cbn in H2; rewrite Hadd in H2; discriminate].
  - intros x Hx. destruct (H1 x Hx) as [y [E Q]]. rewrite E. exact Q.
  - intros y Hy. specialize (H2 y Hy). destruct (find _ l1); [reflexivity | congruence].
Qed.

Lemma pairwise_iff : forall {A} (name : A -> Z) (P Q : A -> A -> Prop) l1 l2,
  (forall x y, In x l1 -> In y l2 -> name x = name y -> (P x y <-> Q x y)) ->
  (pairwise name P l1 l2 <-> pairwise name Q l1 l2).
Proof. intros A name P Q l1 l2 H. unfold pairwise. split; intros HP x y Hx Hy E; apply (H x y Hx Hy E); apply HP; assumption. Qed.

Lemma frame_quiet : forall ign f1 f2, wf_frame f1 -> wf_frame f2 -> fr_name f1 = fr_name f2 ->
  (all_equal (compare_frame_t ign f1 f2) = true <-> frame_agree ign f1 f2).
Proof.
  intros ign f1 f2 [[Ns1 Ng1] [Na1 Ds1]] [[Ns2 Ng2] [Na2 Ds2]] Hn.
  unfold compare_frame_t, frame_kids, frame_agree. cbn [all_equal is_equal andb].
  rewrite !forallb_app, !andb_true_iff, !cond_quiet, !single_quiet, !chgl_quiet, !set_part_quiet by reflexivity.
  rewrite attrs_quiet by assumption. rewrite !map_id.
  (* bring the two parts of each named comparison together *)
  pose proof (named_parts_quiet sg_name (fun s => leaf RDeleted TSIGNAL (sg_name s)) (compare_signal_t ign)
                (fun s => leaf RAdded TSIGNAL (sg_name s)) (fr_signals f1) (fr_signals f2)
                (fun _ => eq_refl) (fun _ => eq_refl) Ns1 Ns2) as HS.
  pose proof (named_parts_quiet gr_name (fun g => leaf RRemoved TSignalgroup (gr_name g)) compare_signal_group
                (fun g => leaf RAdded TSignalgroup (gr_name g)) (fr_groups f1) (fr_groups f2)
                (fun _ => eq_refl) (fun _ => eq_refl) Ng1 Ng2) as HG.
  assert (HSP : pairwise sg_name (fun x y => all_equal (compare_signal_t ign x y) = true) (fr_signals f1) (fr_signals f2)
                <-> pairwise sg_name (signal_agree ign) (fr_signals f1) (fr_signals f2)).
  { apply pairwise_iff. intros x y Hx Hy _. apply signal_quiet.
    - rewrite Forall_forall in Ds1. apply Ds1. exact Hx.
    - rewrite Forall_forall in Ds2. apply Ds2. exact Hy. }
  assert (HGP : pairwise gr_name (fun x y => all_equal (compare_signal_group x y) = true) (fr_groups f1) (fr_groups f2)
                <-> pairwise gr_name group_agree (fr_groups f1) (fr_groups f2)).
  { apply pairwise_iff. intros x y _ _ E. apply group_quiet. exact E. }
  rewrite !Z.eqb_eq, booleqb_eq, set_eq_incl. tauto.
Qed.

(* the name leaf: a quiet frame comparison is between frames of one name *)
Lemma frame_quiet_name : forall ign f1 f2, all_equal (compare_frame_t ign f1 f2) = true -> fr_name f1 = fr_name f2.
Proof.
  intros ign f1 f2. unfold compare_frame_t, frame_kids. cbn [all_equal is_equal andb].
  rewrite !forallb_app, !andb_true_iff, !chgl_quiet, Z.eqb_eq. tauto.
Qed.
Lemma frame_quiet_arb : forall ign f1 f2, all_equal (compare_frame_t ign f1 f2) = true -> arb f1 = arb f2.
Proof.
  intros ign f1 f2. unfold compare_frame_t, frame_kids, arb. cbn [all_equal is_equal andb].
  rewrite !forallb_app, !andb_true_iff, !chgl_quiet, !Z.eqb_eq, booleqb_eq. intros H. f_equal; tauto.
Qed.

(* value tables of the matrix *)
Lemma dict_quiet_gen : forall {A} (R : A -> A -> Prop) (d1 d2 : list (Z * A)), NoDup (keys d1) -> NoDup (keys d2) ->
  ((forall k v, In (k, v) d1 -> exists v2, lookup k d2 = Some v2 /\ R v v2) /\ (forall k v, In (k, v) d2 -> lookup k d1 <> None))
  <-> (same_names fst d1 d2 /\ pairwise fst (fun x y => R (snd x) (snd y)) d1 d2).
Proof.
  intros A R d1 d2 N1 N2. unfold same_names, set_eq, pairwise. fold (keys d1) (keys d2). split.
  - intros [H1 H2]. split.
    + intro k. split; intro Hk.
      * unfold keys in Hk. apply in_map_iff in Hk. destruct Hk as [[k' v] [E Hin]]. cbn in E. subst.
        destruct (H1 k v Hin) as [v2 [E _]]. apply lookup_in in E. eapply in_keys. exact E.
      * unfold keys in Hk. apply in_map_iff in Hk. destruct Hk as [[k' v] [E Hin]]. cbn in E. subst.
        apply lookup_some_or_none. eapply H2. exact Hin.
    + intros [k v] [k' v'] Hx Hy E. cbn in E. subst k'. cbn [snd].
      destruct (H1 k v Hx) as [v2 [E R']]. rewrite (lookup_nodup k v' d2 N2 Hy) in E. inversion E. subst. exact R'.
  - intros [HS HP]. split.
    + intros k v Hin. assert (Hk : In k (keys d2)) by (apply HS; eapply in_keys; exact Hin).
      apply lookup_some_or_none in Hk. destruct (lookup k d2) as [v2|] eqn:E; [|congruence].
      exists v2. split; [reflexivity|]. apply lookup_in in E. apply (HP (k, v) (k, v2) Hin E eq_refl).
    + intros k v Hin. apply lookup_some_or_none. apply HS. eapply in_keys. exact Hin.
Qed.

Lemma vtables_quiet : forall t1 t2, NoDup (keys t1) -> NoDup (keys t2) ->
  Forall (fun t => NoDup (keys (snd t))) t1 -> Forall (fun t => NoDup (keys (snd t))) t2 ->
  (forallb all_equal (dict_kids (fun k (t : dict) => [leaf RDeleted (Tvaluetable k) (-1)])
                                (fun k t t2 => [compare_value_table k t t2])
                                (fun k t => [leaf RAdded (Tvaluetable k) (-1)]) t1 t2) = true
   <-> vtables_agree t1 t2).
Proof.
  intros t1 t2 N1 N2 F1 F2. unfold vtables_agree, dict_kids. unfold dict in *.
  rewrite <- (dict_quiet_gen (fun x y => dict_agree x y) t1 t2 N1 N2).
  rewrite forallb_app, andb_true_iff, !forallb_flat_map. rewrite Forall_forall in F1, F2.
  split; intros [H1 H2]; split.
  - intros k v Hin. specialize (H1 (k, v) Hin). cbn [fst snd] in H1.
    destruct (lookup k t2) as [v2|] eqn:E; [|cbn in H1; discriminate].
    exists v2. split; [reflexivity|]. apply single_quiet in H1. apply vt_quiet in H1; [exact H1| |].
    + apply (F1 (k, v) Hin).
    + apply lookup_in in E. apply (F2 (k, v2) E).
  - intros k v Hin. specialize (H2 (k, v) Hin). cbn [fst snd] in H2.
    destruct (lookup k t1); [discriminate | cbn in H2; discriminate].
  - intros [k v] Hin. cbn [fst snd]. destruct (H1 k v Hin) as [v2 [E R]]. rewrite E. apply single_quiet.
    apply vt_quiet; [apply (F1 (k, v) Hin) | apply lookup_in in E; apply (F2 (k, v2) E) | exact R].
  - intros [k v] Hin. cbn [fst snd]. specialize (H2 k v Hin). destruct (lookup k t1); [reflexivity | congruence].
Qed.

(* ------------------------------------------------------------------ frames of the matrix: partner = same name *)
Lemma partner_in : forall own other f g, partner own other f = Some g -> In g (m_frames other).
Proof.
  intros own other f g H. unfold partner in H.
  destruct (frame_by_name (fr_name f) other) as [g'|] eqn:E.
  - inversion H. subst. unfold frame_by_name in E. apply find_some in E. apply E.
  - destruct (frame_by_id f other) as [g'|] eqn:Ei; [|discriminate].
    destruct (frame_by_name (fr_name g') own); [discriminate|]. inversion H. subst.
    unfold frame_by_id in Ei. apply find_some in Ei. apply Ei.
Qed.
Lemma partner_quiet_same_name : forall ign own other f1 f2, partner own other f1 = Some f2 ->
  all_equal (compare_frame_t ign f1 f2) = true -> frame_by_name (fr_name f1) other = Some f2.
Proof.
  intros ign own other f1 f2 Hp Hq. pose proof (partner_in _ _ _ _ Hp) as Hin. unfold partner in Hp.
  destruct (frame_by_name (fr_name f1) other) as [g|] eqn:E; [exact Hp|].
  exfalso. apply frame_quiet_name in Hq.
  unfold frame_by_name in E. apply (find_name_none fr_name) in E. apply E. rewrite Hq. apply in_map. exact Hin.
Qed.

Lemma frames_quiet : forall ign a b,
  NoDup (map fr_name (m_frames a)) -> NoDup (map fr_name (m_frames b)) ->
  ((forallb all_equal (map (fun f1 => match partner a b f1 with
                                      | Some f2 => compare_frame_t ign f1 f2
                                      | None => leaf RDeleted TFRAME (fr_name f1)
                                      end) (m_frames a)) = true /\
    forallb all_equal (flat_map (fun f2 => match partner b a f2 with
                                           | None => [leaf RAdded TFRAME (fr_name f2)]
                                           | Some _ => []
                                           end) (m_frames b)) = true)
   <-> (same_names fr_name (m_frames a) (m_frames b) /\
        pairwise fr_name (fun x y => all_equal (compare_frame_t ign x y) = true) (m_frames a) (m_frames b))).
Proof.
  intros ign a b Na Nb.
  rewrite <- (named_quiet fr_name (fun x y => all_equal (compare_frame_t ign x y) = true) _ _ Na Nb).
  rewrite forallb_map, forallb_flat_map. split; intros [H1 H2].
  - assert (G1 : forall x, In x (m_frames a) -> exists y,
               find (fun z => fr_name z =? fr_name x) (m_frames b) = Some y /\ all_equal (compare_frame_t ign x y) = true).
    { intros x Hx. specialize (H1 x Hx). destruct (partner a b x) as [y|] eqn:Ep; [|discriminate].
      exists y. split; [|exact H1]. apply (partner_quiet_same_name ign a b x y Ep H1). }
    split; [exact G1|].
    intros y Hy. specialize (H2 y Hy). unfold partner in H2. change (frame_by_name (fr_name y) a <> None).
    destruct (frame_by_name (fr_name y) a) as [x0|] eqn:En; [discriminate|].
    destruct (frame_by_id y a) as [x|] eqn:Ei; [|cbn in H2; discriminate]. exfalso.
    (* x would be paired with y by identifier, but x has a partner by name in b *)
    unfold frame_by_id in Ei. apply find_some in Ei. destruct Ei as [Hx _].
    destruct (G1 x Hx) as [y' [Ey' _]]. unfold frame_by_name in H2. rewrite Ey' in H2. cbn in H2. discriminate.
  - split.
    + intros x Hx. destruct (H1 x Hx) as [y [Ey Q]]. unfold partner, frame_by_name. rewrite Ey. exact Q.
    + intros y Hy. specialize (H2 y Hy). unfold partner, frame_by_name.
      destruct (find (fun z => fr_name z =? fr_name y) (m_frames a)); [reflexivity | congruence].
Qed.

(* ------------------------------------------------------------------ the whole matrix *)
Lemma db_quiet : forall ign a b, wf_matrix a -> wf_matrix b ->
  (forallb all_equal (db_kids ign a b) = true <-> agree ign a b).
Proof.
  intros ign a b Wa Wb.
  destruct Wa as [Nfa [Nea [Ffa [Fea [Naa [Nga [Nda [Nfda [Nsa [Nva Fva]]]]]]]]]].
  destruct Wb as [Nfb [Neb [Ffb [Feb [Nab [Ngb [Ndb [Nfdb [Nsb [Nvb Fvb]]]]]]]]]].
  unfold db_kids, agree. rewrite !forallb_app, !andb_true_iff.
  (* frames *)
  pose proof (frames_quiet ign a b Nfa Nfb) as HF.
  assert (HFP : pairwise fr_name (fun x y => all_equal (compare_frame_t ign x y) = true) (m_frames a) (m_frames b)
                <-> pairwise fr_name (frame_agree ign) (m_frames a) (m_frames b)).
  { apply pairwise_iff. intros x y Hx Hy E. apply frame_quiet; [| |exact E].
    - rewrite Forall_forall in Ffa. apply Ffa. exact Hx.
    - rewrite Forall_forall in Ffb. apply Ffb. exact Hy. }
  (* ECUs *)
  pose proof (named_parts_quiet ec_name (fun e => leaf RDeleted Tecu (ec_name e)) (compare_ecu ign)
                (fun e => leaf RAdded Tecu (ec_name e)) (m_ecus a) (m_ecus b) (fun _ => eq_refl) (fun _ => eq_refl) Nea Neb) as HE.
  assert (HEP : pairwise ec_name (fun x y => all_equal (compare_ecu ign x y) = true) (m_ecus a) (m_ecus b)
                <-> pairwise ec_name (ecu_agree ign) (m_ecus a) (m_ecus b)).
  { apply pairwise_iff. intros x y Hx Hy _. apply ecu_quiet.
    - rewrite Forall_forall in Fea. apply Fea. exact Hx.
    - rewrite Forall_forall in Feb. apply Feb. exact Hy. }
  (* attributes, defines, value tables *)
  assert (HA : forallb all_equal (if ig_attr ign then [] else [compare_attributes ign (-1) (m_attrs a) (m_attrs b)]) = true
               <-> (ig_attr ign = false -> dict_agree (m_attrs a) (m_attrs b))).
  { rewrite cond_quiet, single_quiet, attrs_quiet by assumption. tauto. }
  assert (HD : forallb all_equal (if ig_def ign then []
                 else [compare_define_list (m_gdefs a) (m_gdefs b);
                       set_type TEcuDefines (compare_define_list (m_edefs a) (m_edefs b));
                       set_type TFrameDefines (compare_define_list (m_fdefs a) (m_fdefs b));
                       set_type TSignalDefines (compare_define_list (m_sdefs a) (m_sdefs b))]) = true
               <-> (ig_def ign = false -> dict_agree (m_gdefs a) (m_gdefs b) /\ dict_agree (m_edefs a) (m_edefs b) /\
                                          dict_agree (m_fdefs a) (m_fdefs b) /\ dict_agree (m_sdefs a) (m_sdefs b))).
  { rewrite cond_quiet. cbn [forallb]. rewrite !andb_true_iff, !all_equal_set_type, !defs_quiet by assumption. tauto. }
  assert (HV : forallb all_equal (if ig_vt ign then []
                 else dict_kids (fun k (t : dict) => [leaf RDeleted (Tvaluetable k) (-1)])
                                (fun k t t2 => [compare_value_table k t t2])
                                (fun k t => [leaf RAdded (Tvaluetable k) (-1)]) (m_vtables a) (m_vtables b)) = true
               <-> (ig_vt ign = false -> vtables_agree (m_vtables a) (m_vtables b))).
  { rewrite cond_quiet, vtables_quiet by assumption. tauto. }
  rewrite HA, HD, HV. tauto.
Qed.

Lemma compare_db_t_quiet : forall ign a b, wf_matrix a -> wf_matrix b ->
  (reports_nothing (propagate (compare_db_t ign a b)) <-> agree ign a b).
Proof.
  intros ign a b Wa Wb. rewrite reports_nothing_propagate. unfold compare_db_t. cbn [kids_of]. apply db_quiet; assumption.
Qed.

(* ------------------------------------------------------------------ statements about compare_db itself *)
Lemma no_difference_iff_agree : forall ign a b r, wf_matrix a -> wf_matrix b ->
  compare_db ign a b = Some r -> (reports_nothing r <-> agree ign a b).
Proof.
  intros ign a b r Wa Wb H. apply compare_db_some in H. subst r. apply compare_db_t_quiet; auto.
Qed.
Lemma agree_implies_no_difference : forall ign a b r, wf_matrix a -> wf_matrix b ->
  compare_db ign a b = Some r -> agree ign a b -> reports_nothing r.
Proof. intros ign a b r Wa Wb H Ag. apply (no_difference_iff_agree ign a b r Wa Wb H). exact Ag. Qed.
Lemma root_result_none_iff : forall ign a b r, compare_db ign a b = Some r ->
  (result_of r = RNone <-> reports_nothing r).
Proof. intros ign a b r H. apply compare_db_some in H. subst r. unfold compare_db_t. apply root_none_iff. Qed.

(* agreement is reflexive on well-formed matrices *)
Lemma dict_agree_refl : forall {A} (d : list (Z * A)), dict_agree d d.
Proof. intros A d k v. tauto. Qed.
Lemma same_names_refl : forall {A} (name : A -> Z) l, same_names name l l.
Proof. intros A name l x. tauto. Qed.
Lemma nodup_name_eq : forall {A} (name : A -> Z) l x y, NoDup (map name l) -> In x l -> In y l -> name x = name y -> x = y.
Proof.
  intros A name l x y N Hx Hy E. pose proof (find_name_nodup name l x N Hx) as F1.
  pose proof (find_name_nodup name l y N Hy) as F2. rewrite E in F1. congruence.
Qed.
Lemma signal_agree_refl : forall ign s, signal_agree ign s s.
Proof.
  intros ign s. unfold signal_agree.
  do 10 (split; [reflexivity|]). split; [intro; tauto|]. split; [intros; apply dict_agree_refl|].
  split; [intros; reflexivity | intros; apply dict_agree_refl].
Qed.
Lemma frame_agree_refl : forall ign f, names_ok_frame f -> frame_agree ign f f.
Proof.
  intros ign f [Ns Ng]. unfold frame_agree.
  do 3 (split; [reflexivity|]). split; [intro; tauto|]. split; [apply same_names_refl|]. split.
  { intros x y Hx Hy E. rewrite (nodup_name_eq sg_name _ x y Ns Hx Hy E). apply signal_agree_refl. }
  split; [apply same_names_refl|]. split.
  { intros x y Hx Hy E. rewrite (nodup_name_eq gr_name _ x y Ng Hx Hy E). split; [reflexivity | intro; tauto]. }
  split; [intros; reflexivity | intros; apply dict_agree_refl].
Qed.
Lemma agree_refl : forall ign m, wf_matrix m -> agree ign m m.
Proof.
  intros ign m W. destruct W as [Nf [Ne [Ff [Fe [Na [Ng [Nd [Nfd [Ns [Nv Fv]]]]]]]]]].
  unfold agree. split; [apply same_names_refl|]. split.
  { intros x y Hx Hy E. rewrite <- (nodup_name_eq fr_name _ x y Nf Hx Hy E). apply frame_agree_refl.
    rewrite Forall_forall in Ff. apply Ff. exact Hx. }
  split; [apply same_names_refl|]. split.
  { intros x y Hx Hy E. rewrite <- (nodup_name_eq ec_name _ x y Ne Hx Hy E). split; intros; [reflexivity | apply dict_agree_refl]. }
  split; [intros; apply dict_agree_refl|]. split; [intros; repeat split; apply dict_agree_refl|].
  intros _. split; [apply same_names_refl|].
  intros x y Hx Hy E. assert (x = y).
  { apply (nodup_name_eq fst (m_vtables m) x y); auto. }
  subst. apply dict_agree_refl.
Qed.

Lemma compare_self_reports_nothing : forall ign m r, wf_matrix m -> compare_db ign m m = Some r -> reports_nothing r.
Proof. intros ign m r W H. eapply agree_implies_no_difference; eauto. apply agree_refl. exact W. Qed.
