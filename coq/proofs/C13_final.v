(* C13: per-kind statements about the model functions themselves, and the witnesses that show which
   hypotheses of the main theorems cannot be dropped. *)
From CM Require Import lib.Prelude model.Compare model.CompareSpec proofs.C13_lib proofs.C13_nodiff proofs.C13_swap.
From Coq Require Import Permutation.

Lemma signal_nodiff_iff : forall ign s1 s2 r, dicts_ok_signal s1 -> dicts_ok_signal s2 ->
  compare_signal ign s1 s2 = Some r -> (all_equal r = true <-> signal_agree ign s1 s2).
Proof. intros ign s1 s2 r D1 D2 H. apply compare_signal_some in H. subst r. apply signal_quiet; assumption. Qed.

Lemma frame_nodiff_iff : forall ign f1 f2 r, wf_frame f1 -> wf_frame f2 -> fr_name f1 = fr_name f2 ->
  compare_frame ign f1 f2 = Some r -> (all_equal r = true <-> frame_agree ign f1 f2).
Proof. intros ign f1 f2 r W1 W2 E H. apply compare_frame_some in H. subst r. apply frame_quiet; assumption. Qed.

Lemma frame_nodiff_same_name : forall ign f1 f2 r,
  compare_frame ign f1 f2 = Some r -> all_equal r = true -> fr_name f1 = fr_name f2.
Proof. intros ign f1 f2 r H Q. apply compare_frame_some in H. subst r. eapply frame_quiet_name. exact Q. Qed.

Lemma defines_nodiff_iff : forall ty d1 d2, NoDup (keys d1) -> NoDup (keys d2) ->
  (all_equal (set_type ty (compare_define_list d1 d2)) = true <-> dict_agree d1 d2).
Proof. intros ty d1 d2 N1 N2. rewrite all_equal_set_type. apply defs_quiet; assumption. Qed.

(* ------------------------------------------------------------------ witnesses *)
Definition ign0 : ignore := mkIgnore false false false false.
Definition sigx : signal := mkSignal 7 0 1 true false 1 0 (Some 0) (Some 1) MuxNone 0 None [] [] [].
Definition frP1 : frame := mkFrame 10 1 false 8 [] None [] [sigx] [].
Definition frQ2 : frame := mkFrame 11 2 false 8 [] None [] [] [].
Definition frQ1 : frame := mkFrame 11 1 false 8 [] None [] [] [].
Definition frZ1 : frame := mkFrame 12 1 false 8 [] None [] [] [].
Definition mat (fs : list frame) : matrix := mkMatrix fs [] [] [] [] [] [] [].

Ltac nodup := repeat (constructor; [cbv; intuition congruence|]); constructor.
Ltac wf_step :=
  match goal with
  | |- NoDup _ => nodup
  | |- Forall _ _ => constructor
  | |- _ /\ _ => split
  | |- ~ In _ _ => cbn; intuition congruence
  end.
Ltac wf_mat :=
  unfold wf_matrix, wf_frame, wf_ecu, names_ok_frame, dicts_ok_frame, dicts_ok_signal, keys; cbn; repeat wf_step.

(* the literal swap law fails for a renamed frame (same identifier, other name, neither name in the other matrix):
   a = {P(id 1, signal x)}, b = {Z(id 1)}.  Both directions pair P with Z; x is deleted below "FRAME P" in compare a b
   and added below "FRAME Z" in compare b a - the report names a pair of frames after the first operand's frame. *)
Lemma swap_refuted_without_coherence :
  exists a b r1 r2, wf_matrix a /\ wf_matrix b /\ ids_unique a /\ ids_unique b /\
    compare_db ign0 a b = Some r1 /\ compare_db ign0 b a = Some r2 /\
    ~ Permutation (collect is_added r2) (collect is_deleted r1).
Proof.
  exists (mat [frP1]), (mat [frZ1]).
  eexists. eexists. split; [wf_mat|]. split; [wf_mat|].
  split; [unfold ids_unique; cbn; nodup|]. split; [unfold ids_unique; cbn; nodup|].
  split; [vm_compute; reflexivity|]. split; [vm_compute; reflexivity|].
  intro H. vm_compute in H. apply Permutation_length_1 in H. discriminate.
Qed.

(* frames that re-use an identifier or pair crosswise are all accounted for:
   {Q(1)} vs {P(1, signal x), Q(2)}: Q pairs with Q, P is added (and deleted the other way round);
   {P(1)} vs {P(1), Z(1)}: Z is added *)
Lemma crosswise_frames_reported :
  exists r1 r2 r3,
    compare_db ign0 (mat [frQ1]) (mat [frP1; frQ2]) = Some r1 /\ top_frames is_added r1 = [10] /\ top_frames is_deleted r1 = [] /\
    compare_db ign0 (mat [frP1; frQ2]) (mat [frQ1]) = Some r2 /\ top_frames is_deleted r2 = [10] /\ top_frames is_added r2 = [] /\
    compare_db ign0 (mat [frP1]) (mat [frP1; frZ1]) = Some r3 /\ top_frames is_added r3 = [12].
Proof. do 3 eexists. repeat split; vm_compute; reflexivity. Qed.

(* a non-trivial instance of the hypotheses: two well-formed, coherent matrices that differ in one offset;
   the comparison answers, reports exactly at the signal, and the swapped comparison too *)
Definition sigy : signal := mkSignal 8 8 8 false true 2 5 (Some 0) (Some 9) (MuxVal 1) 3 (Some 4) [(20, 20); (21, 22)] [(0, 30); (1, 31)] [(40, 41)].
Definition sigy' : signal := mkSignal 8 8 8 false true 2 6 (Some 0) (Some 9) (MuxVal 1) 3 (Some 4) [(21, 22); (20, 20)] [(1, 31); (0, 30)] [(40, 41)].
Definition exA : matrix :=
  mkMatrix [mkFrame 10 1 false 8 [20] (Some 4) [(40, 42)] [sigx; sigy] [mkGroup 50 1 [7; 8]]; frQ2]
           [mkEcu 20 None [(40, 43)]; mkEcu 21 (Some 4) []] [(44, 45)] [(40, (60, 61))] [] [(40, (62, -1))] [] [(70, [(0, 30)])].
Definition exB : matrix :=
  mkMatrix [frQ2; mkFrame 10 1 false 8 [20] (Some 4) [(40, 42)] [sigy'; sigx] [mkGroup 50 1 [8; 7]]]
           [mkEcu 21 (Some 4) []; mkEcu 20 None [(40, 43)]] [(44, 45)] [(40, (60, 61))] [] [(40, (62, -1))] [] [(70, [(0, 30)])].

Lemma example_instance :
  wf_matrix exA /\ wf_matrix exB /\ ids_unique exB /\ coherent exA exB /\ limits_present exA /\
  exists r, compare_db ign0 exA exB = Some r /\ ~ reports_nothing r /\
            reports r [(TFRAME, 10); (TSIGNAL, 8)] RChanged Toffset 8 /\
            collect is_added r = [] /\ collect is_deleted r = [].
Proof.
  split; [wf_mat|]. split; [wf_mat|]. split; [unfold ids_unique; cbn; nodup|].
  split.
  { intros fa fb Ha Hb. cbn in Ha, Hb.
    destruct Ha as [Ha|[Ha|[]]], Hb as [Hb|[Hb|[]]]; subst; cbn; intro E; try reflexivity; inversion E. }
  split.
  { intros f s Hf Hs. cbn in Hf. destruct Hf as [Hf|[Hf|[]]]; subst; cbn in Hs.
    - destruct Hs as [Hs|[Hs|[]]]; subst; cbn; split; discriminate.
    - contradiction. }
  eexists. split; [vm_compute; reflexivity|]. split; [vm_compute; discriminate|].
  split; [|split; vm_compute; reflexivity].
  cbn. eexists. split; [left; reflexivity|]. repeat split.
  eexists. split; [right; left; reflexivity|]. repeat split. left. reflexivity.
Qed.

Lemma cli_flags_to_ignore :
  forall c a t, let i := cli_ignore c a t in
    ig_comment i = negb c /\ ig_attr i = negb a /\ ig_vt i = t /\ ig_def i = false.
Proof. intros c a t. repeat split. Qed.
