(* C13: swapping the operands swaps additions and deletions (as multisets of node paths). *)
From CM Require Import lib.Prelude model.Compare model.CompareSpec proofs.C13_lib proofs.C13_nodiff.
From Coq Require Import Permutation.

Notation pcA := (pc is_added).
Notation pcD := (pc is_deleted).

(* ------------------------------------------------------------------ pc on the shared shapes *)
Lemma pc_chgl : forall want same ty n, neutral want -> flat_map (pc want) (chgl same ty n) = [].
Proof.
  intros want same ty n [_ [N2 _]]. destruct same; unfold chgl; cbn [flat_map]; [reflexivity|]. rewrite pc_leaf, N2. reflexivity.
Qed.
Lemma pc_cond : forall want (b : bool) l, flat_map (pc want) (if b then [] else l) = if b then [] else flat_map (pc want) l.
Proof. intros want [] l; reflexivity. Qed.
Lemma pc_single : forall want t, flat_map (pc want) [t] = pc want t.
Proof. intros. cbn [flat_map]. apply app_nil_r. Qed.
Lemma pc_set_part : forall {A} want (key : A -> Z) lf l other,
  flat_map (pc want) (set_part key lf l other) = flat_map (fun r => if mem (key r) other then [] else pc want (lf r)) l.
Proof.
  intros A want key lf l other. unfold set_part. rewrite flat_map_flat_map. apply flat_map_ext_in. intros r _.
  destruct (mem (key r) other); [reflexivity | apply pc_single].
Qed.
Lemma pc_named_part1 : forall {A} want (name : A -> Z) del cmp l1 l2,
  flat_map (pc want) (named_part1 name del cmp l1 l2) =
  flat_map (fun x => match find (fun z => name z =? name x) l2 with None => pc want (del x) | Some y => pc want (cmp x y) end) l1.
Proof.
  intros A want name del cmp l1 l2. unfold named_part1. rewrite flat_map_map'. apply flat_map_ext_in. intros x _.
  destruct (find _ l2); reflexivity.
Qed.
Lemma pc_named_part2 : forall {A} want (name : A -> Z) add l1 l2,
  flat_map (pc want) (named_part2 name add l1 l2) =
  flat_map (fun y => match find (fun z => name z =? name y) l1 with None => pc want (add y) | Some _ => [] end) l2.
Proof.
  intros A want name add l1 l2. unfold named_part2. rewrite flat_map_flat_map. apply flat_map_ext_in. intros y _.
  destruct (find _ l1); [reflexivity | apply pc_single].
Qed.
Lemma pc_dict_kids : forall {A} want del chg add (d1 d2 : list (Z * A)),
  flat_map (pc want) (dict_kids del chg add d1 d2) =
  flat_map (fun kv => match lookup (fst kv) d2 with
                      | None => flat_map (pc want) (del (fst kv) (snd kv))
                      | Some v2 => flat_map (pc want) (chg (fst kv) (snd kv) v2)
                      end) d1
  ++ flat_map (fun kv => match lookup (fst kv) d1 with
                         | None => flat_map (pc want) (add (fst kv) (snd kv))
                         | Some _ => []
                         end) d2.
Proof.
  intros A want del chg add d1 d2. unfold dict_kids. rewrite flat_map_app', !flat_map_flat_map. f_equal.
  - apply flat_map_ext_in. intros kv _. destruct (lookup (fst kv) d2); reflexivity.
  - apply flat_map_ext_in. intros kv _. destruct (lookup (fst kv) d1); reflexivity.
Qed.

Lemma lookup_find : forall {A} k (d : list (Z * A)),
  lookup k d = match find (fun z => fst z =? k) d with Some z => Some (snd z) | None => None end.
Proof.
  intros A k d. induction d as [|[k' v] d IH]; cbn; [reflexivity|]. destruct (k' =? k); [reflexivity | exact IH].
Qed.

(* ------------------------------------------------------------------ the three patterns *)
Lemma dict_kids_swap : forall {A} del chg add (d1 d2 : list (Z * A)) (P : Z -> A -> list (list (ctype * Z))),
  NoDup (keys d1) -> NoDup (keys d2) ->
  (forall k v, flat_map pcD (del k v) = P k v) -> (forall k v, flat_map pcA (add k v) = P k v) ->
  (forall k v, flat_map pcA (del k v) = []) -> (forall k v, flat_map pcD (add k v) = []) ->
  (forall k v v2, In (k, v) d1 -> In (k, v2) d2 ->
     Permutation (flat_map pcA (chg k v2 v)) (flat_map pcD (chg k v v2))) ->
  Permutation (flat_map pcA (dict_kids del chg add d2 d1)) (flat_map pcD (dict_kids del chg add d1 d2)).
Proof.
  intros A del chg add d1 d2 P N1 N2 HdD HaA HdA HaD Hchg. rewrite !pc_dict_kids.
  set (fA := fun kv : Z * A => match lookup (fst kv) d2 with None => P (fst kv) (snd kv) | Some _ => [] end).
  set (fB := fun kv : Z * A => match find (fun z => fst z =? fst kv) d2 with
                               | Some y => flat_map pcD (chg (fst kv) (snd kv) (snd y)) | None => [] end).
  (* deleted side *)
  assert (ED : flat_map (fun kv => match lookup (fst kv) d2 with
                                   | None => flat_map pcD (del (fst kv) (snd kv))
                                   | Some v2 => flat_map pcD (chg (fst kv) (snd kv) v2) end) d1
               = flat_map (fun kv => fA kv ++ fB kv) d1).
  { apply flat_map_ext_in. intros kv _. unfold fA, fB. rewrite lookup_find.
    destruct (find (fun z => fst z =? fst kv) d2); [reflexivity | rewrite HdD, app_nil_r; reflexivity]. }
  assert (ED2 : flat_map (fun kv => match lookup (fst kv) d1 with
                                    | None => flat_map pcD (add (fst kv) (snd kv)) | Some _ => [] end) d2 = []).
  { apply flat_map_nil_in. intros kv _. destruct (lookup (fst kv) d1); [reflexivity | apply HaD]. }
  rewrite ED, ED2, app_nil_r.
  (* added side *)
  assert (EA2 : flat_map (fun kv => match lookup (fst kv) d2 with
                                    | None => flat_map pcA (add (fst kv) (snd kv)) | Some _ => [] end) d1
                = flat_map fA d1).
  { apply flat_map_ext_in. intros kv _. unfold fA. destruct (lookup (fst kv) d2); [reflexivity | apply HaA]. }
  rewrite EA2.
  eapply Permutation_trans; [|apply Permutation_sym, Permutation_flat_map_split].
  eapply Permutation_trans; [apply Permutation_app_comm|]. apply Permutation_app_head.
  eapply Permutation_trans; [|apply Permutation_sym; apply (matched_perm fst (fun x y => flat_map pcD (chg (fst x) (snd x) (snd y))) d1 d2 N1 N2)].
  apply Permutation_flat_map_pointwise. intros [k v2] Hy. cbn [fst snd]. rewrite lookup_find.
  destruct (find (fun z => fst z =? k) d1) as [[k' v]|] eqn:E; [|rewrite HdA; constructor].
  apply find_name_some in E. destruct E as [Hx Ek]. cbn in Ek. subst k'. cbn [fst snd]. apply Hchg; assumption.
Qed.

Lemma named_swap : forall {A} (name : A -> Z) del cmp add (l1 l2 : list A),
  NoDup (map name l1) -> NoDup (map name l2) ->
  (forall x, pcA (add x) = pcD (del x)) -> (forall x, pcA (del x) = []) -> (forall x, pcD (add x) = []) ->
  (forall x y, In x l1 -> In y l2 -> name x = name y -> Permutation (pcA (cmp y x)) (pcD (cmp x y))) ->
  Permutation (flat_map pcA (named_part1 name del cmp l2 l1) ++ flat_map pcA (named_part2 name add l2 l1))
              (flat_map pcD (named_part1 name del cmp l1 l2) ++ flat_map pcD (named_part2 name add l1 l2)).
Proof.
  intros A name del cmp add l1 l2 N1 N2 Hda HdA HaD Hcmp. rewrite !pc_named_part1, !pc_named_part2.
  set (fA := fun x : A => match find (fun z => name z =? name x) l2 with None => pcD (del x) | Some _ => [] end).
  set (fB := fun x : A => match find (fun z => name z =? name x) l2 with Some y => pcD (cmp x y) | None => [] end).
  assert (ED : flat_map (fun x => match find (fun z => name z =? name x) l2 with
                                  | None => pcD (del x) | Some y => pcD (cmp x y) end) l1
               = flat_map (fun x => fA x ++ fB x) l1).
  { apply flat_map_ext_in. intros x _. unfold fA, fB. destruct (find _ l2); [reflexivity | rewrite app_nil_r; reflexivity]. }
  assert (ED2 : flat_map (fun y => match find (fun z => name z =? name y) l1 with None => pcD (add y) | Some _ => [] end) l2 = []).
  { apply flat_map_nil_in. intros y _. destruct (find _ l1); [reflexivity | apply HaD]. }
  rewrite ED, ED2, app_nil_r.
  assert (EA2 : flat_map (fun y => match find (fun z => name z =? name y) l2 with None => pcA (add y) | Some _ => [] end) l1
                = flat_map fA l1).
  { apply flat_map_ext_in. intros x _. unfold fA. destruct (find _ l2); [reflexivity | apply Hda]. }
  rewrite EA2.
  eapply Permutation_trans; [|apply Permutation_sym, Permutation_flat_map_split].
  eapply Permutation_trans; [apply Permutation_app_comm|]. apply Permutation_app_head.
  eapply Permutation_trans; [|apply Permutation_sym; apply (matched_perm name (fun x y => pcD (cmp x y)) l1 l2 N1 N2)].
  apply Permutation_flat_map_pointwise. intros y Hy.
  destruct (find (fun z => name z =? name y) l1) as [x|] eqn:E; [|rewrite HdA; constructor].
  apply find_name_some in E. destruct E as [Hx Ek]. apply Hcmp; assumption.
Qed.

Lemma set_part_swap : forall {A} (key : A -> Z) lfD lfA (l : list A) other,
  (forall r, pcA (lfA r) = pcD (lfD r)) ->
  flat_map pcA (set_part key lfA l other) = flat_map pcD (set_part key lfD l other).
Proof.
  intros A key lfD lfA l other H. rewrite !pc_set_part. apply flat_map_ext_in. intros r _.
  destruct (mem (key r) other); [reflexivity | apply H].
Qed.
Lemma set_part_none : forall {A} want (key : A -> Z) lf (l : list A) other,
  (forall r, pc want (lf r) = []) -> flat_map (pc want) (set_part key lf l other) = [].
Proof.
  intros A want key lf l other H. rewrite pc_set_part. apply flat_map_nil_in. intros r _.
  destruct (mem (key r) other); [reflexivity | apply H].
Qed.

(* ------------------------------------------------------------------ leaves of dict comparisons *)
Lemma pc_if_leaf_changed : forall want (v v2 : Z) ty ref, neutral want ->
  flat_map (pc want) (if v =? v2 then [] else [leaf RChanged ty ref]) = [].
Proof. intros want v v2 ty ref [_ [N2 _]]. destruct (v =? v2); cbn [flat_map]; [reflexivity|]. rewrite pc_leaf, N2. reflexivity. Qed.

Lemma vt_swap : forall ref vt1 vt2, NoDup (keys vt1) -> NoDup (keys vt2) ->
  Permutation (pcA (compare_value_table ref vt2 vt1)) (pcD (compare_value_table ref vt1 vt2)).
Proof.
  intros ref vt1 vt2 N1 N2. rewrite !compare_value_table_shape.
  rewrite !pc_node by (auto using neutral_added, neutral_deleted). apply Permutation_map. unfold vt_kids.
  apply (dict_kids_swap _ _ _ vt1 vt2 (fun k v => [[(TValue k, v)]])); auto.
  - intros k v v2 _ _. rewrite !pc_if_leaf_changed by (auto using neutral_added, neutral_deleted). constructor.
Qed.
Lemma attr_kids_swap : forall a1 a2, NoDup (keys a1) -> NoDup (keys a2) ->
  Permutation (flat_map pcA (attr_kids a2 a1)) (flat_map pcD (attr_kids a1 a2)).
Proof.
  intros a1 a2 N1 N2. unfold attr_kids.
  apply (dict_kids_swap _ _ _ a1 a2 (fun k v => [[(TAttr k, v)]])); auto.
  intros k v v2 _ _. rewrite !pc_if_leaf_changed by (auto using neutral_added, neutral_deleted). constructor.
Qed.
Lemma attrs_swap : forall ign ref a1 a2, NoDup (keys a1) -> NoDup (keys a2) ->
  Permutation (pcA (compare_attributes ign ref a2 a1)) (pcD (compare_attributes ign ref a1 a2)).
Proof.
  intros ign ref a1 a2 N1 N2. rewrite !compare_attributes_shape.
  rewrite !pc_node by (auto using neutral_added, neutral_deleted). apply Permutation_map.
  destruct (ig_attr ign); [constructor | apply attr_kids_swap; assumption].
Qed.
Lemma defs_swap : forall ty d1 d2, NoDup (keys d1) -> NoDup (keys d2) ->
  Permutation (pcA (set_type ty (compare_define_list d2 d1))) (pcD (set_type ty (compare_define_list d1 d2))).
Proof.
  intros ty d1 d2 N1 N2. rewrite !compare_define_list_shape. cbn [set_type].
  rewrite !pc_node by (auto using neutral_added, neutral_deleted). apply Permutation_map. unfold def_kids.
  apply (dict_kids_swap _ _ _ d1 d2 (fun k v => [[(TDefine k, -1)]])); auto.
  intros k v v2 _ _. rewrite !flat_map_app', !pc_if_leaf_changed by (auto using neutral_added, neutral_deleted). constructor.
Qed.

(* ------------------------------------------------------------------ groups, ECUs, signals, frames *)
Ltac neut := auto using neutral_added, neutral_deleted.

Lemma group_swap : forall g1 g2, gr_name g1 = gr_name g2 ->
  Permutation (pcA (compare_signal_group g2 g1)) (pcD (compare_signal_group g1 g2)).
Proof.
  intros g1 g2 En. rewrite !compare_signal_group_shape. rewrite !pc_node by neut. rewrite En. apply Permutation_map.
  unfold group_kids. rewrite !flat_map_app'. rewrite !pc_chgl by neut.
  rewrite (set_part_none is_added (fun n => n) (fun n => leaf RDeleted (TMember n) n)) by (intro; reflexivity).
  rewrite (set_part_none is_deleted (fun n => n) (fun n => leaf RAdded (TMember n) n)) by (intro; reflexivity).
  rewrite (set_part_swap (fun n => n) (fun n => leaf RDeleted (TMember n) n) (fun n => leaf RAdded (TMember n) n))
    by (intro; reflexivity).
  cbn [app]. rewrite app_nil_r. reflexivity.
Qed.

Lemma ecu_swap : forall ign e1 e2, ec_name e1 = ec_name e2 -> wf_ecu e1 -> wf_ecu e2 ->
  Permutation (pcA (compare_ecu ign e2 e1)) (pcD (compare_ecu ign e1 e2)).
Proof.
  intros ign e1 e2 En W1 W2. unfold compare_ecu. rewrite !pc_node by neut. rewrite En. apply Permutation_map.
  rewrite !flat_map_app'.
  assert (Hc : forall want x y n, neutral want ->
            flat_map (pc want) (if ig_comment ign then [] else if opt_eqb x y then [] else [leaf RChanged TECU n]) = []).
  { intros want x y n [_ [N2 _]]. destruct (ig_comment ign); [reflexivity|]. destruct (opt_eqb x y); [reflexivity|].
    cbn [flat_map]. rewrite pc_leaf, N2. reflexivity. }
  rewrite !Hc by neut. cbn [app]. rewrite !pc_cond. destruct (ig_attr ign); [constructor|].
  rewrite !pc_single. apply attrs_swap; assumption.
Qed.

Lemma signal_swap : forall ign s1 s2, sg_name s1 = sg_name s2 -> dicts_ok_signal s1 -> dicts_ok_signal s2 ->
  Permutation (pcA (compare_signal_t ign s2 s1)) (pcD (compare_signal_t ign s1 s2)).
Proof.
  intros ign s1 s2 En [Nv1 Na1] [Nv2 Na2]. unfold compare_signal_t.
  rewrite !pc_node by neut. rewrite En. apply Permutation_map.
  unfold signal_kids. cbv zeta. rewrite !flat_map_app'. rewrite !pc_cond. rewrite !pc_chgl by neut.
  rewrite (set_part_none is_added snd (fun r => leaf RRemoved (Treceiver (fst r)) (-1))) by (intro; reflexivity).
  rewrite (set_part_none is_deleted snd (fun r => leaf RAdded (Treceiver (fst r)) (-1))) by (intro; reflexivity).
  rewrite (set_part_swap snd (fun r => leaf RRemoved (Treceiver (fst r)) (-1)) (fun r => leaf RAdded (Treceiver (fst r)) (-1)))
    by (intro; reflexivity).
  rewrite !pc_single, En.
  assert (Hnil : (if ig_comment ign then [] else []) = (@nil (list (ctype * Z)))) by (destruct (ig_comment ign); reflexivity).
  rewrite !Hnil. cbn [app].
  apply Permutation_app_head.
  apply Permutation_app.
  - destruct (ig_attr ign); [constructor | apply attrs_swap; assumption].
  - destruct (ig_vt ign); [constructor | apply vt_swap; assumption].
Qed.

Lemma frame_swap : forall ign f1 f2, fr_name f1 = fr_name f2 -> wf_frame f1 -> wf_frame f2 ->
  Permutation (pcA (compare_frame_t ign f2 f1)) (pcD (compare_frame_t ign f1 f2)).
Proof.
  intros ign f1 f2 En [[Ns1 Ng1] [Na1 Ds1]] [[Ns2 Ng2] [Na2 Ds2]]. unfold compare_frame_t.
  rewrite !pc_node by neut. rewrite En. apply Permutation_map.
  unfold frame_kids. cbv zeta. rewrite !flat_map_app'. rewrite !pc_cond. rewrite !pc_chgl by neut.
  rewrite (set_part_none is_added (fun t => t) (fun _ => leaf RRemoved TFrameTransmitter (fr_name f2))) by (intro; reflexivity).
  rewrite (set_part_none is_deleted (fun t => t) (fun _ => leaf RAdded TFrameTransmitter (fr_name f2))) by (intro; reflexivity).
  rewrite (set_part_swap (fun t => t) (fun _ => leaf RRemoved TFrameTransmitter (fr_name f1))
             (fun _ => leaf RAdded TFrameTransmitter (fr_name f1))) by (intro; reflexivity).
  rewrite !pc_single, En.
  assert (Hnil : (if ig_comment ign then [] else []) = (@nil (list (ctype * Z)))) by (destruct (ig_comment ign); reflexivity).
  rewrite !Hnil. cbn [app]. rewrite ?app_nil_r.
  (* signals | attributes | transmitters | groups *)
  rewrite (app_assoc (flat_map pcA (named_part1 sg_name _ _ _ _))).
  rewrite (app_assoc (flat_map pcD (named_part1 sg_name _ _ _ _))).
  apply Permutation_app; [|apply Permutation_app; [|apply Permutation_app]].
  - apply named_swap; try assumption; try (intro; reflexivity).
    intros x y Hx Hy E. apply signal_swap; [exact E| |].
    + rewrite Forall_forall in Ds1. apply Ds1. exact Hx.
    + rewrite Forall_forall in Ds2. apply Ds2. exact Hy.
  - destruct (ig_attr ign); [constructor | apply attrs_swap; assumption].
  - reflexivity.
  - apply named_swap; try assumption; try (intro; reflexivity).
    intros x y Hx Hy E. apply group_swap. exact E.
Qed.

(* ------------------------------------------------------------------ the whole matrix *)
Lemma coherent_sym : forall a b, coherent a b -> coherent b a.
Proof. intros a b H fb fa Hb Ha E. symmetry. apply H; auto. Qed.

Lemma partner_coherent : forall a b f1, coherent a b -> In f1 (m_frames a) ->
  partner a b f1 = find (fun z => fr_name z =? fr_name f1) (m_frames b).
Proof.
  intros a b f1 C H1. unfold partner, frame_by_name.
  destruct (find (fun f => fr_name f =? fr_name f1) (m_frames b)) as [f2|] eqn:E; [reflexivity|].
  destruct (frame_by_id f1 b) as [f2|] eqn:Ei; [|reflexivity]. exfalso.
  unfold frame_by_id in Ei. apply find_some in Ei. destruct Ei as [H2 Ha].
  unfold arb_eqb in Ha. apply andb_true_iff in Ha. destruct Ha as [A1 A2].
  apply Z.eqb_eq in A1. apply (proj1 (booleqb_eq _ _)) in A2.
  assert (En : fr_name f1 = fr_name f2) by (apply C; auto; unfold arb; congruence).
  apply (find_name_none fr_name) in E. apply E. rewrite En. apply in_map. exact H2.
Qed.

Lemma db_kids_coherent : forall ign a b, coherent a b ->
  db_kids ign a b =
  named_part1 fr_name (fun f => leaf RDeleted TFRAME (fr_name f)) (compare_frame_t ign) (m_frames a) (m_frames b)
  ++ named_part2 fr_name (fun f => leaf RAdded TFRAME (fr_name f)) (m_frames a) (m_frames b)
  ++ (if ig_attr ign then [] else [compare_attributes ign (-1) (m_attrs a) (m_attrs b)])
  ++ named_part1 ec_name (fun e => leaf RDeleted Tecu (ec_name e)) (compare_ecu ign) (m_ecus a) (m_ecus b)
  ++ named_part2 ec_name (fun e => leaf RAdded Tecu (ec_name e)) (m_ecus a) (m_ecus b)
  ++ (if ig_def ign then []
      else [compare_define_list (m_gdefs a) (m_gdefs b);
            set_type TEcuDefines (compare_define_list (m_edefs a) (m_edefs b));
            set_type TFrameDefines (compare_define_list (m_fdefs a) (m_fdefs b));
            set_type TSignalDefines (compare_define_list (m_sdefs a) (m_sdefs b))])
  ++ (if ig_vt ign then []
      else dict_kids (fun k (t : dict) => [leaf RDeleted (Tvaluetable k) (-1)])
                     (fun k t t2 => [compare_value_table k t t2])
                     (fun k t => [leaf RAdded (Tvaluetable k) (-1)]) (m_vtables a) (m_vtables b)).
Proof.
  intros ign a b C. unfold db_kids. f_equal; [|f_equal].
  - unfold named_part1. apply map_ext_in. intros f1 H1. rewrite (partner_coherent a b f1 C H1).
    destruct (find _ (m_frames b)); reflexivity.
  - unfold named_part2. apply flat_map_ext_in. intros f2 H2.
    rewrite (partner_coherent b a f2 (coherent_sym a b C) H2). destruct (find _ (m_frames a)); reflexivity.
Qed.

Lemma defs_swap0 : forall d1 d2, NoDup (keys d1) -> NoDup (keys d2) ->
  Permutation (pcA (compare_define_list d2 d1)) (pcD (compare_define_list d1 d2)).
Proof. intros d1 d2 N1 N2. apply (defs_swap TDefineList d1 d2 N1 N2). Qed.

Lemma db_swap : forall ign a b, wf_matrix a -> wf_matrix b -> coherent a b ->
  Permutation (pcA (compare_db_t ign b a)) (pcD (compare_db_t ign a b)).
Proof.
  intros ign a b Wa Wb C.
  destruct Wa as [Nfa [Nea [Ffa [Fea [Naa [Nga [Nda [Nfda [Nsa [Nva Fva]]]]]]]]]].
  destruct Wb as [Nfb [Neb [Ffb [Feb [Nab [Ngb [Ndb [Nfdb [Nsb [Nvb Fvb]]]]]]]]]].
  unfold compare_db_t. rewrite !pc_node by neut. apply Permutation_map.
  rewrite (db_kids_coherent ign a b C), (db_kids_coherent ign b a (coherent_sym a b C)).
  rewrite !flat_map_app'. rewrite !pc_cond.
  rewrite (app_assoc (flat_map pcA (named_part1 fr_name _ _ _ _))).
  rewrite (app_assoc (flat_map pcD (named_part1 fr_name _ _ _ _))).
  apply Permutation_app; [|apply Permutation_app].
  - apply named_swap; try assumption; try (intro; reflexivity).
    intros x y Hx Hy E. apply frame_swap; [exact E| |].
    + rewrite Forall_forall in Ffa. apply Ffa. exact Hx.
    + rewrite Forall_forall in Ffb. apply Ffb. exact Hy.
  - destruct (ig_attr ign); [constructor|]. rewrite !pc_single. apply attrs_swap; assumption.
  - rewrite (app_assoc (flat_map pcA (named_part1 ec_name _ _ _ _))).
    rewrite (app_assoc (flat_map pcD (named_part1 ec_name _ _ _ _))).
    apply Permutation_app; [|apply Permutation_app].
    + apply named_swap; try assumption; try (intro; reflexivity).
      intros x y Hx Hy E. apply ecu_swap; [exact E| |].
      * rewrite Forall_forall in Fea. apply Fea. exact Hx.
      * rewrite Forall_forall in Feb. apply Feb. exact Hy.
    + destruct (ig_def ign); [constructor|]. cbn [flat_map]. rewrite !app_nil_r.
      apply Permutation_app; [apply defs_swap0; assumption|].
      apply Permutation_app; [apply defs_swap; assumption|].
      apply Permutation_app; apply defs_swap; assumption.
    + destruct (ig_vt ign); [constructor|].
      apply (dict_kids_swap _ _ _ (m_vtables a) (m_vtables b) (fun k t => [[(Tvaluetable k, -1)]])); auto.
      intros k t t2 Ha Hb. rewrite !pc_single. rewrite Forall_forall in Fva, Fvb.
      apply vt_swap; [apply (Fva (k, t) Ha) | apply (Fvb (k, t2) Hb)].
Qed.

Lemma swap_swaps_added_deleted : forall ign a b r1 r2, wf_matrix a -> wf_matrix b -> coherent a b ->
  compare_db ign a b = Some r1 -> compare_db ign b a = Some r2 ->
  Permutation (collect is_added r2) (collect is_deleted r1) /\ Permutation (collect is_added r1) (collect is_deleted r2).
Proof.
  intros ign a b r1 r2 Wa Wb C H1 H2. apply compare_db_some in H1, H2. subst r1 r2. split.
  - apply db_swap; assumption.
  - apply db_swap; [assumption | assumption | apply coherent_sym; exact C].
Qed.

(* ------------------------------------------------------------------ frames added / deleted: no hypothesis at all *)
Definition topf (want : cresult -> bool) (k : cres) : list Z :=
  match k with
  | Node r TFRAME ref [] => if want r then [ref] else []
  | _ => []
  end.
Lemma top_frames_eq : forall want t, top_frames want t = flat_map (topf want) (kids_of t).
Proof. reflexivity. Qed.
Lemma topf_other_type : forall want k, type_of k <> TFRAME -> topf want (propagate k) = [].
Proof. intros want [r ty ref kids] H. rewrite propagate_node. cbn in H. destruct ty; try reflexivity. congruence. Qed.
Lemma topf_all_other : forall want l, (forall k, In k l -> type_of k <> TFRAME) -> flat_map (topf want) (map propagate l) = [].
Proof.
  intros want l H. rewrite flat_map_map'. apply flat_map_nil_in. intros k Hk. apply topf_other_type. apply H. exact Hk.
Qed.
Lemma topf_frame_node : forall want ign f1 f2, neutral want -> topf want (propagate (compare_frame_t ign f1 f2)) = [].
Proof.
  intros want ign f1 f2 [N1 [N2 _]]. unfold compare_frame_t. rewrite propagate_node. cbn [topf].
  destruct (map propagate (frame_kids ign f1 f2)); [|reflexivity].
  cbn [existsb]. rewrite N1. reflexivity.
Qed.

Lemma top_frames_db : forall want ign a b, neutral want ->
  top_frames want (propagate (compare_db_t ign a b)) =
  flat_map (fun f1 => match partner a b f1 with Some _ => [] | None => if want RDeleted then [fr_name f1] else [] end) (m_frames a)
  ++ flat_map (fun f2 => match partner b a f2 with Some _ => [] | None => if want RAdded then [fr_name f2] else [] end) (m_frames b).
Proof.
  intros want ign a b N. rewrite top_frames_eq, kids_of_propagate. unfold compare_db_t. cbn [kids_of]. unfold db_kids.
  rewrite !map_app, !flat_map_app'.
  assert (Hrest : forall l, (forall k, In k l -> type_of k <> TFRAME) -> flat_map (topf want) (map propagate l) = [])
    by (apply topf_all_other).
  (* everything after the two frame passes has another type *)
  rewrite (Hrest (if ig_attr ign then [] else _)).
  2:{ intros k Hk. destruct (ig_attr ign); [contradiction|]. destruct Hk as [Hk|[]]. subst k.
      rewrite compare_attributes_shape. discriminate. }
  rewrite (Hrest (named_part1 ec_name _ _ _ _)).
  2:{ intros k Hk. unfold named_part1 in Hk. apply in_map_iff in Hk. destruct Hk as [e [E _]]. subst k.
      destruct (find _ (m_ecus b)); discriminate. }
  rewrite (Hrest (named_part2 ec_name _ _ _)).
  2:{ intros k Hk. unfold named_part2 in Hk. apply in_flat_map in Hk. destruct Hk as [e [_ Hk]].
      destruct (find _ (m_ecus a)); [contradiction|]. destruct Hk as [Hk|[]]. subst k. discriminate. }
  rewrite (Hrest (if ig_def ign then [] else _)).
  2:{ intros k Hk. destruct (ig_def ign); [contradiction|]. rewrite !compare_define_list_shape in Hk. cbn in Hk.
      destruct Hk as [Hk|[Hk|[Hk|[Hk|[]]]]]; subst k; discriminate. }
  rewrite (Hrest (if ig_vt ign then [] else _)).
  2:{ intros k Hk. destruct (ig_vt ign); [contradiction|]. unfold dict_kids in Hk. apply in_app_or in Hk.
      destruct Hk as [Hk|Hk]; apply in_flat_map in Hk; destruct Hk as [[n t] [_ Hk]]; cbn [fst snd] in Hk.
      - destruct (lookup n (m_vtables b)); destruct Hk as [Hk|[]]; subst k; [rewrite compare_value_table_shape|]; discriminate.
      - destruct (lookup n (m_vtables a)); [contradiction|]. destruct Hk as [Hk|[]]. subst k. discriminate. }
  rewrite !app_nil_r. f_equal.
  - rewrite !flat_map_map'. apply flat_map_ext_in. intros f1 _. destruct (partner a b f1).
    + apply topf_frame_node. exact N.
    + reflexivity.
  - rewrite flat_map_map', flat_map_flat_map. apply flat_map_ext_in. intros f2 _. destruct (partner b a f2); [reflexivity|].
    cbn. apply app_nil_r.
Qed.

Lemma frames_swap : forall ign a b r1 r2, compare_db ign a b = Some r1 -> compare_db ign b a = Some r2 ->
  top_frames is_added r2 = top_frames is_deleted r1 /\ top_frames is_added r1 = top_frames is_deleted r2.
Proof.
  intros ign a b r1 r2 H1 H2. apply compare_db_some in H1, H2. subst r1 r2.
  rewrite !top_frames_db by neut. cbn [is_added is_deleted].
  assert (Hn : forall (x y : matrix), flat_map (fun f : frame => match partner x y f with Some _ => [] | None => @nil Z end) (m_frames x) = [])
    by (intros x y; apply flat_map_nil_in; intros f _; destruct (partner x y f); reflexivity).
  rewrite !Hn, !app_nil_r. cbn [app]. split; reflexivity.
Qed.
