(* C20, DBC-like language: the statement steps of model/LineFold.v satisfy the generic predicates. *)
From CM Require Import lib.Prelude model.ArbId model.LineFold proofs.C20_generic.

Ltac break_match :=
  match goal with
  | |- context [match ?x with _ => _ end] => destruct x eqn:?
  end.
Ltac break_all := repeat break_match.

Lemma not_num_none f : not_num f = true -> num_of f = None.
Proof. destruct f; cbn; congruence. Qed.
Lemma is_bad_none f : is_bad f = true -> name_of f = None.
Proof. destruct f; cbn; congruence. Qed.
Lemma num_some_not_num f z : num_of f = Some z -> not_num f = false.
Proof. destruct f; cbn; congruence. Qed.
Lemma num_some_is f z : num_of f = Some z -> f = Num z.
Proof. destruct f; cbn; congruence. Qed.
Lemma name_some_not_bad f z : name_of f = Some z -> is_bad f = false.
Proof. destruct f; cbn; congruence. Qed.

(* ---- every failing step leaves the matrix as it was (SG_MUL_VAL_/VAL_ repaired; with or without the BA_ value check) ---- *)
Lemma dbc_fail_frames : forall c s l s', dbc_step_gen true c s l = Fail s' -> frames s' = frames s.
Proof.
  intros c s l s' H. destruct l; unfold dbc_step_gen in H;
    unfold step_bo, step_sg, step_babo, step_basg, step_cmbo, step_cmsg, step_val, step_mulval in H;
    cbn [andb negb] in H;
    repeat match type of H with
           | context [match ?x with _ => _ end] => destruct x eqn:?
           end;
    try discriminate; inversion H; subst; reflexivity.
Qed.

Lemma dbc_fail_frames_step' : forall c s l, (exists s', dbc_step_gen true c s l = Fail s') ->
  frames (step' (dbc_step_gen true c) s l) = frames s.
Proof. intros c s l [s' H]. unfold step'. rewrite H. cbn. apply dbc_fail_frames with c l. exact H. Qed.

(* ---- malformed lines: fail (matrix unchanged) or are not recognised ---- *)
Lemma dbc_malformed_outcome : forall c l, dbc_malformed_gen c l = true ->
  forall s, (exists s', dbc_step_gen true c s l = Fail s') \/ (exists s', dbc_step_gen true c s l = Ok s' /\ frames s' = frames s).
Proof.
  intros c l Hm s. destruct l; unfold dbc_step_gen; cbn [dbc_malformed_gen] in Hm.
  - (* BO_ *) unfold step_bo.
    destruct (num_of id) eqn:Hi; [|left; eexists; reflexivity].
    destruct (name_of name) eqn:Hn; [|left; eexists; reflexivity].
    destruct (num_of size) eqn:Hs; [|left; eexists; reflexivity].
    destruct (name_of sender) eqn:He; [|left; eexists; reflexivity].
    destruct (from_compound_integer z) eqn:Hc; [|left; eexists; reflexivity].
    exfalso. rewrite (num_some_not_num _ _ Hi), (num_some_not_num _ _ Hs), (name_some_not_bad _ _ Hn),
      (name_some_not_bad _ _ He) in Hm.
    rewrite (num_some_is _ _ Hi) in Hm. rewrite Hc in Hm. discriminate.
  - (* SG_ *) unfold step_sg.
    destruct (name_of name) eqn:Hn; [|left; eexists; reflexivity].
    destruct (mux_code mux) eqn:Hx; [|left; eexists; reflexivity].
    destruct (num_of start) eqn:H1; [|left; eexists; reflexivity].
    destruct (num_of size) eqn:H2; [|left; eexists; reflexivity].
    destruct (num_of order) eqn:H3; [|left; eexists; reflexivity].
    destruct (num_of sign) eqn:H4; [|left; eexists; reflexivity].
    destruct (num_of factor) eqn:H5; [|left; eexists; reflexivity].
    destruct (num_of offset) eqn:H6; [|left; eexists; reflexivity].
    exfalso. rewrite (name_some_not_bad _ _ Hn), (num_some_not_num _ _ H1), (num_some_not_num _ _ H2),
      (num_some_not_num _ _ H3), (num_some_not_num _ _ H4), (num_some_not_num _ _ H5), (num_some_not_num _ _ H6) in Hm.
    destruct mux as [[| |]|]; cbn in Hx, Hm; congruence.
  - (* BA_ BO_ *) unfold step_babo.
    destruct (num_of id) eqn:Hi; [|left; eexists; reflexivity].
    rewrite (num_some_not_num _ _ Hi) in Hm. cbn in Hm.
    destruct (aval_missing value) eqn:Hv; [left; eexists; reflexivity|]. cbn in Hm.
    destruct (from_compound_integer z); [|left; eexists; reflexivity].
    destruct (find_frame (frames s) a); [|left; eexists; reflexivity].
    unfold value_ok. rewrite Hm. left; eexists; reflexivity.
  - (* BA_ SG_ *) unfold step_basg.
    destruct (num_of id) eqn:Hi; [|right; eexists; split; reflexivity].
    destruct (name_of sname) eqn:Hn; [|right; eexists; split; reflexivity].
    rewrite (num_some_not_num _ _ Hi), (name_some_not_bad _ _ Hn) in Hm. cbn in Hm.
    destruct (aval_missing value) eqn:Hv; [right; eexists; split; reflexivity|]. cbn in Hm.
    destruct (from_compound_integer z); [|left; eexists; reflexivity].
    destruct (find_frame (frames s) a); [|left; eexists; reflexivity].
    destruct (frame_has_signal _ _ _); [|left; eexists; reflexivity].
    unfold value_ok. rewrite Hm. left; eexists; reflexivity.
  - (* CM_ BO_ *) unfold step_cmbo. destruct text; try (right; eexists; split; reflexivity);
      (destruct (num_of id) eqn:Hi; [rewrite (num_some_not_num _ _ Hi) in Hm; cbn in Hm; discriminate|left; eexists; reflexivity]).
  - (* CM_ SG_ *) unfold step_cmsg. destruct text; try (right; eexists; split; reflexivity);
      (destruct (name_of sname) eqn:Hn; [|right; eexists; split; reflexivity]);
      (destruct (num_of id) eqn:Hi; [|left; eexists; reflexivity]);
      rewrite (num_some_not_num _ _ Hi), (name_some_not_bad _ _ Hn) in Hm; cbn in Hm; discriminate.
  - (* VAL_ *) unfold step_val. destruct terminated; [|right; eexists; split; reflexivity]. cbn [negb].
    destruct (num_of id) eqn:Hi; [|right; eexists; split; reflexivity].
    destruct (name_of sname) eqn:Hn; [|right; eexists; split; reflexivity].
    rewrite (num_some_not_num _ _ Hi), (name_some_not_bad _ _ Hn) in Hm. cbn in Hm.
    destruct (from_compound_integer z); [|left; eexists; reflexivity].
    destruct (find_frame (frames s) a); [|left; eexists; reflexivity].
    unfold completed in Hm. destruct (parse_pairs pairs); [discriminate|]. left; eexists; reflexivity.
  - (* SG_MUL_VAL_ *) unfold step_mulval. destruct terminated; [|right; eexists; split; reflexivity]. cbn [negb].
    destruct (num_of id) eqn:Hi; [|right; eexists; split; reflexivity].
    destruct (name_of sname) eqn:Hn; [|right; eexists; split; reflexivity].
    destruct (name_of muxer) eqn:Hx; [|right; eexists; split; reflexivity].
    rewrite (num_some_not_num _ _ Hi), (name_some_not_bad _ _ Hn), (name_some_not_bad _ _ Hx) in Hm. cbn in Hm.
    destruct (from_compound_integer z); [|left; eexists; reflexivity].
    destruct (find_frame (frames s) a); [|right; eexists; split; reflexivity].
    destruct (frame_has_signal _ _ _); [|left; eexists; reflexivity].
    destruct (parse_ranges ranges); [discriminate|]. left; eexists; reflexivity.
  - (* frame lookup only *) destruct (num_of id) eqn:Hi; [|left; eexists; reflexivity].
    rewrite (num_some_not_num _ _ Hi) in Hm. discriminate.
  - right; eexists; split; reflexivity.
Qed.

Lemma dbc_malformed_frames : forall c l, dbc_malformed_gen c l = true ->
  forall s, frames (step' (dbc_step_gen true c) s l) = frames s.
Proof.
  intros c l Hm s. destruct (dbc_malformed_outcome c l Hm s) as [Hf|Ho].
  - apply dbc_fail_frames_step'. exact Hf.
  - destruct Ho as [s' [Ho Hfr]]. unfold step'. rewrite Ho. exact Hfr.
Qed.

(* ---- the matrix part of every non-SG_ step is a function of the matrix alone ---- *)
Lemma dbc_nonsg_frames_det : forall l, is_sg l = false ->
  forall c fs c1 c2, frames (step' (dbc_step_gen true c) (mkD fs c1) l) = frames (step' (dbc_step_gen true c) (mkD fs c2) l).
Proof.
  intros l Hl c fs c1 c2. destruct l; try discriminate; unfold step', dbc_step_gen;
    unfold step_bo, step_babo, step_basg, step_cmbo, step_cmsg, step_val, step_mulval, with_frames, with_cur, on_frame,
      frame_has_signal; cbn [frames cur andb negb];
    break_all; reflexivity.
Qed.

Lemma dbc_good_bo_resets : forall l, is_bo l = true -> dbc_malformed l = false ->
  forall c fs c1 c2, step' (dbc_step_gen true c) (mkD fs c1) l = step' (dbc_step_gen true c) (mkD fs c2) l.
Proof.
  intros l Hb Hm c fs c1 c2. destruct l; try discriminate. unfold step', dbc_step_gen, step_bo. cbn [frames].
  unfold dbc_malformed in Hm. cbn [dbc_malformed_gen] in Hm.
  destruct id; cbn in Hm; try discriminate.
  destruct name; cbn in Hm; try (rewrite ?orb_true_r in Hm; discriminate);
    destruct size; cbn in Hm; try (rewrite ?orb_true_r in Hm; discriminate);
    destruct sender; cbn in Hm; try (rewrite ?orb_true_r in Hm; discriminate);
    cbn; destruct (from_compound_integer z); try discriminate; reflexivity.
Qed.

Lemma dstate_eq : forall s1 s2, frames s1 = frames s2 -> cur s1 = cur s2 -> s1 = s2.
Proof. intros [f1 c1] [f2 c2]; cbn; intros; subst; reflexivity. Qed.

Definition head_not_sg (a : list line) : Prop := match a with l :: _ => is_sg l = false | [] => True end.

Lemma dbc_inserted_gen : forall c clean faulted, DbcInserted c clean faulted ->
  forall p s1 s2, sg_guarded_from p clean = true -> frames s1 = frames s2 ->
    (p = true -> cur s1 = cur s2 \/ head_not_sg clean) ->
    frames (read (dbc_step_gen true c) s1 clean) = frames (read (dbc_step_gen true c) s2 faulted).
Proof.
  intros c clean faulted HI. induction HI as [|l a b HI IH|x a b Hx Hhead HI IH]; intros p s1 s2 Hg Hf Hc.
  - exact Hf.
  - rewrite !read_cons. cbn [sg_guarded_from] in Hg. apply andb_true_iff in Hg. destruct Hg as [Hg1 Hg2].
    destruct (is_sg l) eqn:Hsg.
    + (* SG_: the loop variable must agree *)
      subst p. destruct (Hc eq_refl) as [Hcur|Hh]; [|cbn in Hh; congruence].
      assert (s1 = s2) by (apply dstate_eq; assumption). subst s2.
      eapply IH; [exact Hg2|reflexivity|]. intros _. left. reflexivity.
    + cbn [andb orb] in Hg2.
      assert (Hfr : frames (step' (dbc_step_gen true c) s1 l) = frames (step' (dbc_step_gen true c) s2 l)).
      { destruct s1 as [f1 c1], s2 as [f2 c2]. cbn in Hf. subst f2. apply dbc_nonsg_frames_det. exact Hsg. }
      eapply IH; [exact Hg2|exact Hfr|]. intros Hp. left.
      apply andb_true_iff in Hp. destruct Hp as [Hbo Hgood]. apply negb_true_iff in Hgood.
      destruct s1 as [f1 c1], s2 as [f2 c2]. cbn in Hf. subst f2.
      rewrite (dbc_good_bo_resets l Hbo Hgood c f1 c1 c2). reflexivity.
  - rewrite read_cons. eapply IH; [exact Hg| |].
    + rewrite (dbc_malformed_frames c x Hx s2). exact Hf.
    + intros _. right. destruct a; [exact I|exact Hhead].
Qed.

Theorem dbc_insertions_outside_signal_lists : forall c clean faulted,
  DbcInserted c clean faulted -> sg_guarded clean = true ->
  forall s, frames (read (dbc_step_gen true c) s faulted) = frames (read (dbc_step_gen true c) s clean) /\
            dbc_post (read (dbc_step_gen true c) s faulted) = dbc_post (read (dbc_step_gen true c) s clean).
Proof.
  intros c clean faulted HI Hg s.
  assert (H : frames (read (dbc_step_gen true c) s clean) = frames (read (dbc_step_gen true c) s faulted)).
  { eapply dbc_inserted_gen; [exact HI|exact Hg|reflexivity|]. intros; discriminate. }
  split; [symmetry; exact H|]. unfold dbc_post. rewrite H. reflexivity.
Qed.

(* the envelope is necessary: a failing CM_ SG_ line between a BO_ line and its SG_ line loses the signal *)
Definition ex_bo := LBo (Num 291) (Str 1) (Num 8) (Str 2).
Definition ex_sg := LSg (Str 3) None (Num 0) (Num 8) (Num 1) (Num 0) (Num 10) (Num 11).
Definition ex_bad_cm := LCmSg (Num 999) (Str 3) (Str 4).        (* CM_ SG_ 999 Sig "text"; for a frame that does not exist *)
Lemma dbc_insertion_inside_signal_list_refuted :
  exists clean bad, sg_guarded clean = true /\
    (exists s', dbc_step dbc_init bad = Fail s' /\ frames s' = frames dbc_init) /\
    frames (read dbc_step dbc_init [ex_bo; bad; ex_sg]) <> frames (read dbc_step dbc_init clean) /\ clean = [ex_bo; ex_sg].
Proof.
  exists [ex_bo; ex_sg], ex_bad_cm. split; [vm_compute; reflexivity|]. split.
  - exists (with_cur dbc_init None). split; vm_compute; reflexivity.
  - split; [|reflexivity]. vm_compute. intros H. discriminate H.
Qed.

(* ---- the reader as found: statements that mutate before they fail ---- *)
Definition ex_state : dstate := read dbc_step dbc_init [ex_bo; ex_sg].
Lemma dbc_orig_fail_before_mutation_refuted :
  (exists l s', dbc_step_orig ex_state l = Fail s' /\ frames s' <> frames ex_state /\
                l = LMulVal (Num 291) (Str 77) (Str 3) [(Num 1, Num 1)] true) /\         (* unknown signal 77 *)
  (exists l s', dbc_step_orig ex_state l = Fail s' /\ frames s' <> frames ex_state /\
                l = LMulVal (Num 291) (Str 3) (Str 3) [(Num 1, Num 1); (Bad, Num 2)] true) /\   (* 1-1, x-2 *)
  (exists l s', dbc_step_orig ex_state l = Fail s' /\ frames s' <> frames ex_state /\
                l = LVal (Num 291) (Str 3) [(Num 7, Str 5); (Bad, Str 6)] true).          (* 7 "Seven" x "Off" *)
Proof.
  split; [|split].
  - exists (LMulVal (Num 291) (Str 77) (Str 3) [(Num 1, Num 1)] true). eexists.
    split; [vm_compute; reflexivity|]. split; [|reflexivity]. vm_compute. intros H. discriminate H.
  - exists (LMulVal (Num 291) (Str 3) (Str 3) [(Num 1, Num 1); (Bad, Num 2)] true). eexists.
    split; [vm_compute; reflexivity|]. split; [|reflexivity]. vm_compute. intros H. discriminate H.
  - exists (LVal (Num 291) (Str 3) [(Num 7, Str 5); (Bad, Str 6)] true). eexists.
    split; [vm_compute; reflexivity|]. split; [|reflexivity]. vm_compute. intros H. discriminate H.
Qed.

(* ---- nothing a step does removes or alters frames / signal skeletons introduced earlier (both readers) ---- *)
Definition frame_le (f f' : frame) : Prop :=
  f_id f' = f_id f /\ forall x, In x (f_signals f) -> exists x', In x' (f_signals f') /\ sig_skel x' = sig_skel x.
Definition frames_le (fs fs' : list frame) : Prop := forall f, In f fs -> exists f', In f' fs' /\ frame_le f f'.

Lemma frame_le_refl f : frame_le f f.
Proof. split; [reflexivity|]. intros x Hx. exists x. split; [exact Hx|reflexivity]. Qed.
Lemma frames_le_refl fs : frames_le fs fs.
Proof. intros f Hf. exists f. split; [exact Hf|apply frame_le_refl]. Qed.
Lemma frames_le_app fs f : frames_le fs (fs ++ [f]).
Proof. intros g Hg. exists g. split; [apply in_or_app; left; exact Hg|apply frame_le_refl]. Qed.

Lemma upd_nth_le : forall (g : frame -> frame), (forall f, frame_le f (g f)) ->
  forall fs i, frames_le fs (upd_nth fs i g).
Proof.
  intros g Hgle fs. induction fs as [|f fs IH]; intros i h Hh.
  - destruct Hh.
  - destruct i as [|j]; cbn [upd_nth].
    + destruct Hh as [Hh|Hh].
      * subst h. exists (g f). split; [left; reflexivity|apply Hgle].
      * exists h. split; [right; exact Hh|apply frame_le_refl].
    + destruct Hh as [Hh|Hh].
      * subst h. exists f. split; [left; reflexivity|apply frame_le_refl].
      * destruct (IH j h Hh) as [f' [Hin Hle]]. exists f'. split; [right; exact Hin|exact Hle].
Qed.

Lemma upd_signal_skel : forall (g : signal -> signal), (forall x, sig_skel (g x) = sig_skel x) ->
  forall sigs n x, In x sigs -> exists x', In x' (upd_signal sigs n g) /\ sig_skel x' = sig_skel x.
Proof.
  intros g Hg sigs n. induction sigs as [|y r IH]; intros x Hx.
  - destruct Hx.
  - cbn [upd_signal]. destruct (s_name y =? n).
    + destruct Hx as [Hx|Hx].
      * subst y. exists (g x). split; [left; reflexivity|apply Hg].
      * exists x. split; [right; exact Hx|reflexivity].
    + destruct Hx as [Hx|Hx].
      * subst y. exists x. split; [left; reflexivity|reflexivity].
      * destruct (IH x Hx) as [x' [Hin Hs]]. exists x'. split; [right; exact Hin|exact Hs].
Qed.

Lemma on_signal_le : forall n g, (forall x, sig_skel (g x) = sig_skel x) -> forall f, frame_le f (on_signal n g f).
Proof. intros n g Hg f. split; [reflexivity|]. cbn [on_signal f_signals]. intros x Hx. apply upd_signal_skel; assumption. Qed.
Lemma f_set_attr_le a v f : frame_le f (f_set_attr a v f).
Proof. split; [reflexivity|]. cbn. intros x Hx. exists x. split; [exact Hx|reflexivity]. Qed.
Lemma f_set_comment_le t f : frame_le f (f_set_comment t f).
Proof. split; [reflexivity|]. cbn. intros x Hx. exists x. split; [exact Hx|reflexivity]. Qed.
Lemma f_set_complex_le f : frame_le f (f_set_complex f).
Proof. split; [reflexivity|]. cbn. intros x Hx. exists x. split; [exact Hx|reflexivity]. Qed.
Lemma f_add_signal_le y f : frame_le f (f_add_signal y f).
Proof. split; [reflexivity|]. cbn. intros x Hx. exists x. split; [apply in_or_app; left; exact Hx|reflexivity]. Qed.
Lemma frame_le_trans f g h : frame_le f g -> frame_le g h -> frame_le f h.
Proof.
  intros [H1 H2] [H3 H4]. split; [congruence|]. intros x Hx. destruct (H2 x Hx) as [y [Hy Hs]].
  destruct (H4 y Hy) as [z [Hz Hs']]. exists z. split; [exact Hz|congruence].
Qed.

Lemma complex_on_signal_le : forall n g, (forall x, sig_skel (g x) = sig_skel x) ->
  forall f, frame_le f (f_set_complex (on_signal n g f)).
Proof.
  intros n g Hg f. apply frame_le_trans with (on_signal n g f); [apply on_signal_le; exact Hg|apply f_set_complex_le].
Qed.

Lemma add_values_skel : forall vs x, sig_skel (add_values vs x) = sig_skel x.
Proof. induction vs as [|[k v] r IH]; intros x; cbn [add_values]; [reflexivity|]. rewrite IH. reflexivity. Qed.
Lemma add_values_until_bad_skel : forall ps x, sig_skel (fst (add_values_until_bad ps x)) = sig_skel x.
Proof.
  induction ps as [|[k v] r IH]; intros x; cbn [add_values_until_bad]; [reflexivity|].
  destruct (num_of k); [|reflexivity]. destruct (name_of v); [|reflexivity]. rewrite IH. reflexivity.
Qed.

Lemma dbc_step_gen_le : forall atomic check s l, frames_le (frames s) (frames (step' (dbc_step_gen atomic check) s l)).
Proof.
  intros atomic check s l. unfold step'. destruct l; unfold dbc_step_gen.
  - unfold step_bo. break_all; cbn [settle frames]; try apply frames_le_refl. apply frames_le_app.
  - unfold step_sg. break_all; cbn [settle frames with_frames]; try apply frames_le_refl.
    apply upd_nth_le. intros f. apply f_add_signal_le.
  - unfold step_babo. break_all; cbn [settle frames with_frames]; try apply frames_le_refl.
    apply upd_nth_le. intros f. apply f_set_attr_le.
  - unfold step_basg. break_all; cbn [settle frames with_frames]; try apply frames_le_refl.
    apply upd_nth_le. intros f. apply on_signal_le. reflexivity.
  - unfold step_cmbo. break_all; cbn [settle frames with_cur]; try apply frames_le_refl;
      (apply upd_nth_le; intros f; apply f_set_comment_le).
  - unfold step_cmsg. break_all; cbn [settle frames with_cur]; try apply frames_le_refl;
      (apply upd_nth_le; intros f; apply on_signal_le; reflexivity).
  - unfold step_val. break_all; cbn [settle frames with_cur]; try apply frames_le_refl;
      (apply upd_nth_le; intros f; apply on_signal_le; intros x;
       first [apply add_values_skel | apply add_values_until_bad_skel]).
  - unfold step_mulval. break_all; cbn [settle frames with_cur]; try apply frames_le_refl;
      (apply upd_nth_le; intros f;
       first [apply f_set_complex_le | apply complex_on_signal_le; intros x; reflexivity]).
  - break_all; cbn [settle frames with_cur]; apply frames_le_refl.
  - cbn. apply frames_le_refl.
Qed.

Lemma frames_le_objs : forall s s' o, frames_le (frames s) (frames s') -> dbc_objs s o -> dbc_objs s' o.
Proof.
  intros s s' o Hle Ho. destruct o as [a|a sk]; cbn [dbc_objs] in *.
  - destruct Ho as [f [Hf Hid]]. destruct (Hle f Hf) as [f' [Hf' [Hid' _]]]. exists f'. split; [exact Hf'|congruence].
  - destruct Ho as [f [x [Hf [Hid [Hx Hs]]]]]. destruct (Hle f Hf) as [f' [Hf' [Hid' Hsig]]].
    destruct (Hsig x Hx) as [x' [Hx' Hs']]. exists f', x'. repeat split; congruence || assumption.
Qed.

Theorem dbc_steps_preserve_introduced : forall atomic check, preserves_introduced (dbc_step_gen atomic check) dbc_objs.
Proof. intros atomic check s l o Ho. eapply frames_le_objs; [apply dbc_step_gen_le|exact Ho]. Qed.

Theorem dbc_prefix_keeps_frames_and_signals : forall atomic check l1 l2 o,
  dbc_objs (read (dbc_step_gen atomic check) dbc_init l1) o -> dbc_objs (read (dbc_step_gen atomic check) dbc_init (l1 ++ l2)) o.
Proof. intros atomic check l1 l2 o. apply prefix_keeps_complete_objects. apply dbc_steps_preserve_introduced. Qed.

(* a complete BO_ line and a complete SG_ line directly in its signal list do introduce their objects *)
Lemma step_bo_ok : forall s i n z e a, from_compound_integer i = Some a ->
  step' dbc_step s (LBo (Num i) (Str n) (Num z) (Str e)) =
  mkD (frames s ++ [mkFrame a n z e [] None false []]) (Some (length (frames s))).
Proof.
  intros s i n z e a Ha. unfold step', dbc_step, dbc_step_gen, step_bo. cbn [num_of name_of]. rewrite Ha. reflexivity.
Qed.
Lemma upd_nth_last : forall (fs : list frame) f g, upd_nth (fs ++ [f]) (length fs) g = fs ++ [g f].
Proof. induction fs as [|h t IH]; intros f g; cbn; [reflexivity|]. rewrite IH. reflexivity. Qed.
Lemma step_sg_ok : forall fs f sn st sz o sg fa off,
  step' dbc_step (mkD (fs ++ [f]) (Some (length fs)))
        (LSg (Str sn) None (Num st) (Num sz) (Num o) (Num sg) (Num fa) (Num off)) =
  mkD (fs ++ [f_add_signal (mkSig sn st sz (o =? 1) (sg =? 1) fa off (-1) [] None [] None []) f]) (Some (length fs)).
Proof.
  intros. unfold step', dbc_step, dbc_step_gen, step_sg. cbn [num_of name_of mux_code cur frames].
  rewrite app_length. cbn [length].
  replace (length fs <? length fs + 1)%nat with true by (symmetry; apply Nat.ltb_lt; lia).
  unfold with_frames, on_frame. cbn [settle frames cur]. rewrite upd_nth_last. reflexivity.
Qed.

Lemma dbc_bo_sg_introduce : forall pre i n z e a sn st sz o sg fa off,
  from_compound_integer i = Some a ->
  let ls := pre ++ [LBo (Num i) (Str n) (Num z) (Str e); LSg (Str sn) None (Num st) (Num sz) (Num o) (Num sg) (Num fa) (Num off)] in
  dbc_objs (read dbc_step dbc_init ls) (OFrame a) /\
  dbc_objs (read dbc_step dbc_init ls)
           (OSignal a [sn; st; sz; if o =? 1 then 1 else 0; if sg =? 1 then 1 else 0; fa; off]).
Proof.
  intros pre i n z e a sn st sz o sg fa off Ha ls. subst ls. rewrite read_app.
  remember (read dbc_step dbc_init pre) as s0. clear Heqs0.
  rewrite read_cons, (step_bo_ok s0 i n z e a Ha), read_cons, step_sg_ok, read_nil.
  split; cbn [dbc_objs frames].
  - eexists. split; [apply in_or_app; right; left; reflexivity|reflexivity].
  - eexists. eexists. split; [apply in_or_app; right; left; reflexivity|]. split; [reflexivity|]. split.
    + cbn. left. reflexivity.
    + reflexivity.
Qed.

(* ---- post-processing ---- *)
Lemma dbc_post_gen_total : forall fs, dbc_post_gen true fs <> None.
Proof.
  induction fs as [|f r IH]; cbn [dbc_post_gen]; [discriminate|].
  assert (Hc : exists c, cycle_of true f = Some c).
  { unfold cycle_of. destruct (assoc (f_attrs f) gen_msg_cycle_time) as [[| | |]|]; eexists; reflexivity. }
  destruct Hc as [c Hc]. rewrite Hc. destruct (dbc_post_gen true r); [discriminate|exact IH].
Qed.
Theorem dbc_post_total : forall atomic check ls, load_with (dbc_step_gen atomic check) dbc_post dbc_init ls <> None.
Proof. intros atomic check ls. unfold load_with, dbc_post. apply dbc_post_gen_total. Qed.

Lemma dbc_orig_post_total_refuted :
  (* BO_ 291 .. ; BA_ "GenMsgCycleTime" BO_ 291 abc;   and   ... BO_ 291 "fast"; *)
  load_with dbc_step_orig dbc_post_orig dbc_init [ex_bo; LBaBo gen_msg_cycle_time (Num 291) (VWord 9)] = None /\
  load_with dbc_step_orig dbc_post_orig dbc_init [ex_bo; LBaBo gen_msg_cycle_time (Num 291) (VStr 9)] = None.
Proof. split; vm_compute; reflexivity. Qed.

(* the reader as it is now: a BA_ line whose value is present but no attribute_value of the grammar (`BA_ "GenMsgCycleTime"
   BO_ 291 abc;`) is malformed, yet it is not skipped: it runs to its end and the matrix has changed.  The declined repair
   (dbc_step_strict) would skip it. *)
Lemma dbc_ba_value_not_skipped_refuted :
  let l := LBaBo gen_msg_cycle_time (Num 291) (VWord 9) in
  dbc_malformed_gen true l = true /\ dbc_malformed l = false /\
  (exists s', dbc_step ex_state l = Ok s' /\ frames s' <> frames ex_state) /\
  (forall s, frames (step' dbc_step_strict s l) = frames s).
Proof.
  cbv zeta. split; [reflexivity|]. split; [reflexivity|]. split.
  - eexists. split; [vm_compute; reflexivity|]. vm_compute. intros H. discriminate H.
  - intros s. apply (dbc_malformed_frames true). reflexivity.
Qed.
