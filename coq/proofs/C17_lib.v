(* C17: list / dict / string lemmas behind the bulk-operation proofs. *)
From CM Require Import lib.Prelude model.Glob_c17 model.BulkOps.

(* ---------- generic list facts ---------- *)
Lemma filter_all_true {A} (f : A -> bool) (l : list A) :
  (forall x, In x l -> f x = true) -> filter f l = l.
Proof.
  induction l as [|a l IH]; intros H; cbn [filter]; [reflexivity|].
  rewrite (H a (or_introl eq_refl)). f_equal. apply IH. intros x Hx. apply H. right. exact Hx.
Qed.

Lemma filter_filter {A} (f g : A -> bool) (l : list A) :
  filter f (filter g l) = filter (fun x => g x && f x) l.
Proof.
  induction l as [|a l IH]; cbn [filter]; [reflexivity|].
  destruct (g a); cbn [andb filter]; [destruct (f a)|]; rewrite IH; reflexivity.
Qed.

Lemma filter_ext_in' {A} (f g : A -> bool) (l : list A) :
  (forall x, In x l -> f x = g x) -> filter f l = filter g l.
Proof.
  induction l as [|a l IH]; intros H; cbn [filter]; [reflexivity|].
  rewrite (H a (or_introl eq_refl)). rewrite IH; [reflexivity|]. intros x Hx. apply H. right. exact Hx.
Qed.

Lemma map_ext_in' {A B} (f g : A -> B) (l : list A) :
  (forall x, In x l -> f x = g x) -> map f l = map g l.
Proof.
  induction l as [|a l IH]; intros H; cbn [map]; [reflexivity|].
  rewrite (H a (or_introl eq_refl)). rewrite IH; [reflexivity|]. intros x Hx. apply H. right. exact Hx.
Qed.

Lemma NoDup_map_filter {A B} (g : A -> B) (f : A -> bool) (l : list A) :
  NoDup (map g l) -> NoDup (map g (filter f l)).
Proof.
  induction l as [|a l IH]; intros H; cbn [filter map]; [constructor|].
  cbn [map] in H. inversion H as [|x r Hn Hr]; subst.
  destruct (f a); cbn [map]; [|apply IH; exact Hr].
  constructor; [|apply IH; exact Hr].
  intros Hin. apply Hn. apply in_map_iff in Hin. destruct Hin as [y [Ey Hy]].
  apply filter_In in Hy. destruct Hy as [Hy _]. apply in_map_iff. exists y. split; assumption.
Qed.

Lemma NoDup_map_inj {A B} (g : A -> B) (l : list A) (x y : A) :
  NoDup (map g l) -> In x l -> In y l -> g x = g y -> x = y.
Proof.
  induction l as [|a l IH]; intros H Hx Hy E; [destruct Hx|].
  cbn [map] in H. inversion H as [|z r Hn Hr]; subst.
  destruct Hx as [Hx|Hx]; destruct Hy as [Hy|Hy].
  - congruence.
  - subst a. exfalso. apply Hn. rewrite E. apply in_map. exact Hy.
  - subst a. exfalso. apply Hn. rewrite <- E. apply in_map. exact Hx.
  - apply IH; assumption.
Qed.

Lemma fold_left_filter {A B} (f : B -> A -> B) (p : A -> bool) (xs : list A) (b : B) :
  fold_left f (filter p xs) b = fold_left (fun acc x => if p x then f acc x else acc) xs b.
Proof.
  revert b. induction xs as [|x xs IH]; intros b; cbn [filter fold_left]; [reflexivity|].
  destruct (p x); cbn [fold_left]; apply IH.
Qed.

Lemma existsb_eq_filter (q : Z -> bool) (a : Z) (l : list Z) :
  existsb (fun k => k =? a) (filter q l) = q a && existsb (fun k => k =? a) l.
Proof.
  induction l as [|k l IH]; cbn [filter existsb]; [rewrite andb_false_r; reflexivity|].
  destruct (k =? a) eqn:E.
  - apply Z.eqb_eq in E. subst k. destruct (q a) eqn:Q; cbn [existsb orb andb].
    + rewrite Z.eqb_refl. reflexivity.
    + rewrite IH. reflexivity.
  - destruct (q k); cbn [existsb orb]; [rewrite E; cbn [orb]|]; exact IH.
Qed.

Lemma firstn_length_app {A} (a b : list A) : firstn (length a) (a ++ b) = a.
Proof. induction a as [|x a IH]; cbn; [reflexivity|]. f_equal. exact IH. Qed.
Lemma skipn_length_app {A} (a b : list A) : skipn (length a) (a ++ b) = b.
Proof. induction a as [|x a IH]; cbn; [reflexivity|]. exact IH. Qed.

Lemma removelast_length' {A} (l : list A) : l <> [] -> length (removelast l) = (length l - 1)%nat.
Proof.
  intros H. destruct (exists_last H) as [p [x E]]. subst l.
  rewrite removelast_last, app_length. cbn. lia.
Qed.

(* ---------- strings ---------- *)
Lemma str_eqb_eq : forall a b, str_eqb a b = true <-> a = b.
Proof.
  induction a as [|x a IH]; destruct b as [|y b]; cbn [str_eqb]; split; intros H; try reflexivity; try discriminate.
  - apply andb_true_iff in H. destruct H as [H1 H2]. apply Z.eqb_eq in H1. apply IH in H2. subst. reflexivity.
  - injection H as H1 H2. subst. rewrite Z.eqb_refl. cbn [andb]. apply IH. reflexivity.
Qed.
Lemma str_eqb_refl : forall a, str_eqb a a = true.
Proof. intros a. apply str_eqb_eq. reflexivity. Qed.
Lemma str_eqb_neq : forall a b, str_eqb a b = false <-> a <> b.
Proof.
  intros a b. split.
  - intros H E. apply str_eqb_eq in E. congruence.
  - intros H. destruct (str_eqb a b) eqn:E; [|reflexivity]. apply str_eqb_eq in E. contradiction.
Qed.

Lemma strip_prefix_spec : forall p name,
  match strip_prefix p name with
  | Some rest => name = p ++ rest
  | None => forall rest, name <> p ++ rest
  end.
Proof.
  induction p as [|c p IH]; intros name; cbn [strip_prefix]; [reflexivity|].
  destruct name as [|d name].
  - intros rest. discriminate.
  - destruct (c =? d) eqn:E.
    + apply Z.eqb_eq in E. subst d. specialize (IH name). destruct (strip_prefix p name) as [rest|].
      * cbn. f_equal. exact IH.
      * intros rest H. cbn in H. injection H as H. exact (IH rest H).
    + apply Z.eqb_neq in E. intros rest H. cbn in H. injection H as H1 H2. apply E. symmetry. exact H1.
Qed.

Lemma strip_prefix_app : forall p rest, strip_prefix p (p ++ rest) = Some rest.
Proof.
  intros p rest. pose proof (strip_prefix_spec p (p ++ rest)) as H.
  destruct (strip_prefix p (p ++ rest)) as [r|].
  - apply app_inv_head in H. subst. reflexivity.
  - exfalso. exact (H rest eq_refl).
Qed.

Lemma strip_suffix_spec : forall s name,
  match strip_suffix s name with
  | Some rest => name = rest ++ s
  | None => forall rest, name <> rest ++ s
  end.
Proof.
  intros s name. unfold strip_suffix. pose proof (strip_prefix_spec (rev s) (rev name)) as H.
  destruct (strip_prefix (rev s) (rev name)) as [r|].
  - apply (f_equal (@rev Z)) in H. rewrite rev_involutive, rev_app_distr, rev_involutive in H. exact H.
  - intros rest E. apply (H (rev rest)). rewrite E, rev_app_distr. reflexivity.
Qed.

Lemma strip_suffix_app : forall s rest, strip_suffix s (rest ++ s) = Some rest.
Proof.
  intros s rest. pose proof (strip_suffix_spec s (rest ++ s)) as H.
  destruct (strip_suffix s (rest ++ s)) as [r|].
  - apply app_inv_tail in H. subst. reflexivity.
  - exfalso. exact (H rest eq_refl).
Qed.

(* Python's name[:k] == p / new + name[k:] is prefix stripping *)
Lemma rename_prefix_name_spec : forall old new name, old <> [] ->
  rename_prefix_name old new name =
  match strip_prefix (removelast old) name with Some rest => new ++ rest | None => name end.
Proof.
  intros old new name Hne. unfold rename_prefix_name, slice_to, slice_from.
  rewrite <- (removelast_length' old Hne).
  pose proof (strip_prefix_spec (removelast old) name) as H.
  destruct (strip_prefix (removelast old) name) as [rest|].
  - subst name. rewrite firstn_length_app, str_eqb_refl, skipn_length_app. reflexivity.
  - destruct (str_eqb (firstn (length (removelast old)) name) (removelast old)) eqn:E; [|reflexivity].
    apply str_eqb_eq in E. exfalso. apply (H (skipn (length (removelast old)) name)).
    pose proof (firstn_skipn (length (removelast old)) name) as FS. rewrite E in FS. symmetry. exact FS.
Qed.

(* Python's name[-k:] == s / name[:-k] + new, for k = len(s) >= 1, is suffix stripping *)
Lemma rename_suffix_name_spec : forall c s new name, s <> [] ->
  rename_suffix_name (c :: s) new name =
  match strip_suffix s name with Some rest => rest ++ new | None => name end.
Proof.
  intros c s new name Hne. unfold rename_suffix_name. cbn [length tl].
  replace (S (length s) - 1)%nat with (length s) by lia.
  unfold slice_last, slice_but_last.
  destruct (length s) eqn:Ls; [destruct s; [contradiction|discriminate]|]. rewrite <- Ls. clear Ls n.
  pose proof (strip_suffix_spec s name) as H.
  destruct (strip_suffix s name) as [rest|].
  - subst name. rewrite app_length. replace (length rest + length s - length s)%nat with (length rest) by lia.
    rewrite skipn_length_app, firstn_length_app, str_eqb_refl. reflexivity.
  - destruct (str_eqb (skipn (length name - length s) name) s) eqn:E; [|reflexivity].
    apply str_eqb_eq in E. exfalso. apply (H (firstn (length name - length s) name)).
    pose proof (firstn_skipn (length name - length s) name) as FS. rewrite E in FS. symmetry. exact FS.
Qed.

(* k = 0: name[-0:] is the whole name and name[:-0] is empty - after the prefix step of pattern "*" the step changes nothing *)
Lemma rename_suffix_name_k0 : forall c new name, rename_suffix_name [c] new (new ++ name) = new ++ name.
Proof.
  intros c new name. unfold rename_suffix_name. cbn [length tl Nat.sub slice_last slice_but_last].
  destruct (str_eqb (new ++ name) []) eqn:E; [|reflexivity]. apply str_eqb_eq in E.
  rewrite E. apply app_eq_nil in E. destruct E as [E1 E2]. subst. reflexivity.
Qed.

(* ---------- dicts ---------- *)
Lemma del_keys_filter : forall ks d, del_keys ks d = filter (keeps ks) d.
Proof.
  unfold del_keys. induction ks as [|k ks IH]; intros d; cbn [fold_left].
  - symmetry. apply filter_all_true. intros x _. reflexivity.
  - rewrite IH. unfold dict_del. rewrite filter_filter. apply filter_ext_in'. intros kv _.
    unfold keeps. cbn [existsb]. rewrite negb_orb. rewrite (Z.eqb_sym k (fst kv)). reflexivity.
Qed.

Lemma del_attribute_is_del : forall k d, del_attribute k d = dict_del k d.
Proof.
  intros k d. unfold del_attribute. destruct (dict_has k d) eqn:E; [reflexivity|].
  unfold dict_del. symmetry. apply filter_all_true. intros kv Hin.
  destruct (fst kv =? k) eqn:E2; [|reflexivity]. exfalso.
  unfold dict_has in E. assert (existsb (fun kv0 => fst kv0 =? k) d = true) as T.
  { apply existsb_exists. exists kv. split; assumption. }
  congruence.
Qed.

Lemma del_attributes_filter : forall ks d, del_attributes ks d = filter (keeps ks) d.
Proof.
  intros ks d. rewrite <- del_keys_filter. unfold del_attributes, del_keys. revert d.
  induction ks as [|k ks IH]; intros d; cbn [fold_left]; [reflexivity|].
  rewrite del_attribute_is_del. apply IH.
Qed.

Lemma for_else_unused_existsb {A} (has : A -> bool) (objs : list A) :
  for_else_unused has objs = negb (existsb has objs).
Proof.
  induction objs as [|o r IH]; cbn [for_else_unused existsb]; [reflexivity|].
  destruct (has o); cbn [orb negb]; [reflexivity|exact IH].
Qed.

Lemma obsolete_keys_filter {A} (defs : dict) (objs : list A) (attrs_of : A -> dict) :
  del_keys (defines_to_delete defs objs attrs_of) defs = filter (used_by objs attrs_of) defs.
Proof.
  rewrite del_keys_filter. apply filter_ext_in'. intros kv Hin.
  unfold keeps, defines_to_delete. rewrite existsb_eq_filter.
  assert (existsb (fun k => k =? fst kv) (map fst defs) = true) as T.
  { apply existsb_exists. exists (fst kv). split; [apply in_map; exact Hin|apply Z.eqb_refl]. }
  rewrite T, andb_true_r, for_else_unused_existsb, negb_involutive. reflexivity.
Qed.

Lemma dict_has_iff : forall k d, dict_has k d = true <-> exists v, In (k, v) d.
Proof.
  intros k d. unfold dict_has. rewrite existsb_exists. split.
  - intros [[k' v] [Hin E]]. cbn in E. apply Z.eqb_eq in E. subst k'. exists v. exact Hin.
  - intros [v Hin]. exists (k, v). split; [exact Hin|apply Z.eqb_refl].
Qed.

(* ---------- list.remove by identity ---------- *)
Lemma remove_sig_filter : forall i l, NoDup (map bs_id l) ->
  remove_sig i l = filter (fun x => negb (bs_id x =? i)) l.
Proof.
  intros i l. induction l as [|s r IH]; intros H; cbn [remove_sig filter]; [reflexivity|].
  cbn [map] in H. inversion H as [|z zs Hn Hr]; subst.
  destruct (bs_id s =? i) eqn:E; cbn [negb].
  - apply Z.eqb_eq in E. symmetry. apply filter_all_true. intros x Hx.
    destruct (bs_id x =? i) eqn:E2; [|reflexivity]. apply Z.eqb_eq in E2. exfalso. apply Hn.
    rewrite E, <- E2. apply in_map. exact Hx.
  - f_equal. apply IH. exact Hr.
Qed.

Lemma remove_frame_filter : forall i l, NoDup (map bf_id l) ->
  remove_frame i l = filter (fun x => negb (bf_id x =? i)) l.
Proof.
  intros i l. induction l as [|s r IH]; intros H; cbn [remove_frame filter]; [reflexivity|].
  cbn [map] in H. inversion H as [|z zs Hn Hr]; subst.
  destruct (bf_id s =? i) eqn:E; cbn [negb].
  - apply Z.eqb_eq in E. symmetry. apply filter_all_true. intros x Hx.
    destruct (bf_id x =? i) eqn:E2; [|reflexivity]. apply Z.eqb_eq in E2. exfalso. apply Hn.
    rewrite E, <- E2. apply in_map. exact Hx.
  - f_equal. apply IH. exact Hr.
Qed.

(* removing, one after the other, every element of a snapshot xs that satisfies p *)
Lemma fold_remove_cond : forall (p : bsignal -> bool) xs live, NoDup (map bs_id live) ->
  fold_left (fun live s => if p s then remove_sig (bs_id s) live else live) xs live =
  filter (fun x => negb (existsb (fun y => p y && (bs_id y =? bs_id x)) xs)) live.
Proof.
  intros p xs. induction xs as [|s xs IH]; intros live H; cbn [fold_left].
  - symmetry. apply filter_all_true. intros x _. reflexivity.
  - destruct (p s) eqn:P.
    + rewrite IH.
      * rewrite (remove_sig_filter _ _ H), filter_filter. apply filter_ext_in'. intros x _.
        cbn [existsb]. rewrite P. cbn [andb]. rewrite negb_orb, (Z.eqb_sym (bs_id s) (bs_id x)). reflexivity.
      * rewrite (remove_sig_filter _ _ H). apply NoDup_map_filter. exact H.
    + rewrite IH by exact H. apply filter_ext_in'. intros x _. cbn [existsb]. rewrite P. reflexivity.
Qed.

Lemma remove_all_matching : forall (p : bsignal -> bool) l, NoDup (map bs_id l) ->
  fold_left (fun live s => if p s then remove_sig (bs_id s) live else live) l l = filter (fun x => negb (p x)) l.
Proof.
  intros p l H. rewrite (fold_remove_cond p l l H). apply filter_ext_in'. intros x Hx. f_equal.
  destruct (p x) eqn:P.
  - apply existsb_exists. exists x. split; [exact Hx|]. rewrite P, Z.eqb_refl. reflexivity.
  - destruct (existsb (fun y => p y && (bs_id y =? bs_id x)) l) eqn:E; [|reflexivity].
    apply existsb_exists in E. destruct E as [y [Hy E]]. apply andb_true_iff in E. destruct E as [Py E].
    apply Z.eqb_eq in E. assert (y = x) by (eapply NoDup_map_inj; eauto). subst y. congruence.
Qed.

(* ---------- record eta ---------- *)
Lemma set_signals_same : forall f, set_signals f (bf_signals f) = f.
Proof. destruct f; reflexivity. Qed.
Lemma set_fname_same : forall f, set_fname f (bf_name f) = f.
Proof. destruct f; reflexivity. Qed.
Lemma set_sname_same : forall s, set_sname s (bs_name s) = s.
Proof. destruct s; reflexivity. Qed.
Lemma set_frames_same : forall m, set_frames m (bm_frames m) = m.
Proof. destruct m; reflexivity. Qed.
