(* Proofs for props/C14.v (model/ExportEffects.v). *)
From CM Require Import lib.Prelude model.ExportEffects.
From Coq Require Import Permutation Sorted.

(* ------------------------------------------------------------------ membership helpers *)
Lemma memz_In : forall x l, memz x l = true <-> In x l.
Proof.
  intros x l. unfold memz. rewrite existsb_exists. split.
  - intros [y [Hy He]]. apply Z.eqb_eq in He. subst. exact Hy.
  - intros H. exists x. split; [exact H | apply Z.eqb_refl].
Qed.

Lemma str_eqb_eq : forall a b, str_eqb a b = true <-> a = b.
Proof.
  induction a as [|x a IH]; intros [|y b]; cbn [str_eqb]; split; intros H; try reflexivity; try discriminate.
  - apply andb_true_iff in H. destruct H as [H1 H2]. apply Z.eqb_eq in H1. apply IH in H2. subst. reflexivity.
  - inversion H; subst. apply andb_true_iff. split; [apply Z.eqb_refl | apply IH; reflexivity].
Qed.

Lemma mems_In : forall x l, mems x l = true <-> In x l.
Proof.
  intros x l. unfold mems. rewrite existsb_exists. split.
  - intros [y [Hy He]]. apply str_eqb_eq in He. subst. exact Hy.
  - intros H. exists x. split; [exact H | apply str_eqb_eq; reflexivity].
Qed.

Lemma mems_false : forall x l, ~ In x l -> mems x l = false.
Proof.
  intros x l H. destruct (mems x l) eqn:E; [|reflexivity]. apply mems_In in E. contradiction.
Qed.

Lemma memz_false : forall x l, ~ In x l -> memz x l = false.
Proof.
  intros x l H. destruct (memz x l) eqn:E; [|reflexivity]. apply memz_In in E. contradiction.
Qed.

Lemma add_all_present : forall xs l, (forall x, In x xs -> In x l) -> add_all l xs = l.
Proof.
  unfold add_all. induction xs as [|x xs IH]; intros l H; cbn [fold_left]; [reflexivity|].
  assert (Hx : add_unique l x = l).
  { unfold add_unique. assert (E : memz x l = true) by (apply memz_In; apply H; left; reflexivity).
    rewrite E. reflexivity. }
  rewrite Hx. apply IH. intros y Hy. apply H. right. exact Hy.
Qed.

(* ------------------------------------------------------------------ effects: identity after the fixes *)
Lemma effect_copies_identity : forall w m, effect true w m = m.
Proof. intros w m. destruct w; reflexivity. Qed.

Lemma effect_readonly_identity :
  forall copies w m, w <> Arxml -> w <> Fibex -> effect copies w m = m.
Proof. intros copies w m H1 H2. destruct w; try reflexivity; try contradiction; destruct copies; reflexivity. Qed.

Lemma effect_identity_kcd : forall copies m, effect copies Kcd m = m.
Proof. intros; apply effect_readonly_identity; discriminate. Qed.


(* one lemma per read-only / copying writer (props/C14.v only says `exact`) *)
Lemma effect_identity_csv : forall copies m, effect copies Csv m = m.
Proof. intros; apply effect_readonly_identity; discriminate. Qed.
Lemma effect_identity_dbc : forall copies m, effect copies Dbc m = m.
Proof. intros; apply effect_readonly_identity; discriminate. Qed.
Lemma effect_identity_dbf : forall copies m, effect copies Dbf m = m.
Proof. intros; apply effect_readonly_identity; discriminate. Qed.
Lemma effect_identity_json : forall copies m, effect copies Json m = m.
Proof. intros; apply effect_readonly_identity; discriminate. Qed.
Lemma effect_identity_json_all : forall copies m, effect copies JsonAll m = m.
Proof. intros; apply effect_readonly_identity; discriminate. Qed.
Lemma effect_identity_json_native : forall copies m, effect copies JsonNative m = m.
Proof. intros; apply effect_readonly_identity; discriminate. Qed.
Lemma effect_identity_scapy : forall copies m, effect copies Scapy m = m.
Proof. intros; apply effect_readonly_identity; discriminate. Qed.
Lemma effect_identity_sym : forall copies m, effect copies Sym m = m.
Proof. intros; apply effect_readonly_identity; discriminate. Qed.
Lemma effect_identity_wireshark : forall copies m, effect copies Wireshark m = m.
Proof. intros; apply effect_readonly_identity; discriminate. Qed.
Lemma effect_identity_xls : forall copies m, effect copies Xls m = m.
Proof. intros; apply effect_readonly_identity; discriminate. Qed.

Lemma after_exports_identity : forall ws m, after_exports true ws m = m.
Proof.
  unfold after_exports. induction ws as [|w ws IH]; intros m; cbn [fold_left]; [reflexivity|].
  rewrite effect_copies_identity. apply IH.
Qed.

Lemma second_export_equals_first_lemma :
  forall (Bytes : Type) (render : writer -> matrix -> Bytes) (ws : list writer) (b : writer) (m : matrix),
    render b (after_exports true ws m) = render b m.
Proof. intros. rewrite after_exports_identity. reflexivity. Qed.

(* exports interleaved with in-place edits: the object is what the edits alone make of it *)
Lemma run_steps_edits_only : forall steps m, run_steps true steps m = run_steps true (edits_only steps) m.
Proof.
  unfold run_steps. induction steps as [|s steps IH]; intros m; [reflexivity|].
  destruct s as [w | e]; cbn [fold_left edits_only run_step].
  - rewrite effect_copies_identity. apply IH.
  - apply IH.
Qed.

Lemma export_after_edits_equals_fresh_lemma :
  forall (Bytes : Type) (render : writer -> matrix -> Bytes) (steps : list step) (b : writer) (m : matrix),
    render b (run_steps true steps m) = render b (run_steps true (edits_only steps) m).
Proof. intros. rewrite run_steps_edits_only. reflexivity. Qed.

(* ------------------------------------------------------------------ arxml on the unfixed tree *)
Lemma arxml_frame_fold :
  forall sigs l, (forall s r, In s sigs -> In r (s_receivers s) -> In r l) ->
    fold_left (fun acc s => add_all acc (s_receivers s)) sigs l = l.
Proof.
  induction sigs as [|s sigs IH]; intros l H; cbn [fold_left]; [reflexivity|].
  rewrite add_all_present.
  - apply IH. intros s' r Hs Hr. apply (H s' r); [right; exact Hs | exact Hr].
  - intros r Hr. apply (H s r); [left; reflexivity | exact Hr].
Qed.

Lemma arxml_propagate_id : forall m, receivers_propagated m -> arxml_propagate m = m.
Proof.
  intros m H. unfold arxml_propagate.
  rewrite <- (map_id m) at 2. apply map_ext_in. intros f Hf.
  unfold arxml_frame, set_receivers. rewrite arxml_frame_fold.
  - destruct f; reflexivity.
  - intros s r Hs Hr. exact (H f Hf s r Hs Hr).
Qed.

(* ------------------------------------------------------------------ fibex on the unfixed tree *)
Lemma fibex_rename_aux_id :
  forall fs seen, NoDup (map f_name fs) -> (forall f, In f fs -> ~ In (f_name f) seen) ->
    fibex_rename_aux seen fs = fs.
Proof.
  induction fs as [|f fs IH]; intros seen Hnd Hseen; cbn [fibex_rename_aux]; [reflexivity|].
  cbn [map] in Hnd. inversion Hnd as [|x l Hnotin Hnd']; subst.
  rewrite mems_false by (apply Hseen; left; reflexivity).
  f_equal.
  - destruct f; reflexivity.
  - apply IH; [exact Hnd'|].
    intros g Hg [Heq | Hin].
    + apply Hnotin. rewrite Heq. apply in_map. exact Hg.
    + apply (Hseen g); [right; exact Hg | exact Hin].
Qed.

Lemma fibex_rename_id : forall m, NoDup (frame_names m) -> fibex_rename m = m.
Proof.
  intros m H. unfold fibex_rename. apply fibex_rename_aux_id; [exact H|]. intros f _ [].
Qed.

(* ------------------------------------------------------------------ CanCluster.update on the unfixed tree *)
Lemma map_nth_seq : forall (A : Type) (d : A) (l : list A), map (fun k => nth k l d) (seq 0 (length l)) = l.
Proof.
  intros A d. induction l as [|x l IH]; [reflexivity|].
  cbn [length seq map nth]. f_equal. rewrite <- seq_shift, map_map. exact IH.
Qed.

Lemma flat_map_nth_seq :
  forall (A B : Type) (d : A) (h : A -> list B) (l : list A),
    flat_map (fun k => h (nth k l d)) (seq 0 (length l)) = flat_map h l.
Proof.
  intros A B d h l.
  rewrite <- (map_nth_seq A d l) at 2.
  rewrite !flat_map_concat_map, map_map. reflexivity.
Qed.

Lemma map_flat_map : forall (A B C : Type) (g : B -> C) (f : A -> list B) (l : list A),
    map g (flat_map f l) = flat_map (fun x => map g (f x)) l.
Proof.
  intros A B C g f. induction l as [|x l IH]; [reflexivity|]. cbn [flat_map]. rewrite map_app, IH. reflexivity.
Qed.

Lemma NoDup_app_head : forall (A : Type) (l : list A) (x : A) (r : list A), NoDup (l ++ x :: r) -> ~ In x l.
Proof.
  intros A l x r H Hin. apply NoDup_remove_2 in H. apply H. apply in_or_app. left. exact Hin.
Qed.

Lemma merge_frames_fold_id :
  forall m ks names firsts,
    NoDup (names ++ map (fun k => f_name (nth k m empty_frame)) ks) ->
    fst (fold_left merge_frame_step ks (m, (names, firsts))) = m.
Proof.
  intros m. induction ks as [|k ks IH]; intros names firsts H; cbn [fold_left]; [reflexivity|].
  cbn [map] in H. unfold merge_frame_step at 2.
  rewrite mems_false by (eapply NoDup_app_head; exact H).
  apply IH. rewrite <- app_assoc. exact H.
Qed.

Lemma merge_frames_id : forall m, NoDup (frame_names m) -> merge_frames m = m.
Proof.
  intros m H. unfold merge_frames. apply merge_frames_fold_id. cbn [app].
  replace (map (fun k => f_name (nth k m empty_frame)) (seq 0 (length m))) with (frame_names m); [exact H|].
  unfold frame_names. rewrite <- (map_nth_seq _ empty_frame m) at 1. rewrite map_map. reflexivity.
Qed.

Lemma merge_signals_fold_id :
  forall m ps names firsts,
    NoDup (names ++ map (fun p => s_name (signal_at m p)) ps) ->
    fst (fold_left merge_signal_step ps (m, (names, firsts))) = m.
Proof.
  intros m. induction ps as [|p ps IH]; intros names firsts H; cbn [fold_left]; [reflexivity|].
  cbn [map] in H. unfold merge_signal_step at 2.
  rewrite memz_false by (eapply NoDup_app_head; exact H).
  apply IH. rewrite <- app_assoc. exact H.
Qed.

Lemma signal_names_positions :
  forall m, map (fun p => s_name (signal_at m p)) (positions m) = signal_names m.
Proof.
  intros m. unfold positions, signal_names.
  rewrite map_flat_map.
  rewrite <- (flat_map_nth_seq frame Z empty_frame (fun f => map s_name (f_signals f)) m).
  apply flat_map_ext. intros fi.
  rewrite map_map. unfold signal_at. cbn [fst snd].
  rewrite <- (map_nth_seq _ empty_signal (f_signals (nth fi m empty_frame))) at 2.
  rewrite map_map. reflexivity.
Qed.

Lemma merge_signals_id : forall m, NoDup (signal_names m) -> merge_signals m = m.
Proof.
  intros m H. unfold merge_signals. apply merge_signals_fold_id. cbn [app].
  rewrite signal_names_positions. exact H.
Qed.

Lemma cluster_update_id :
  forall m, NoDup (frame_names m) -> NoDup (signal_names m) -> cluster_update m = m.
Proof.
  intros m Hf Hs. unfold cluster_update. rewrite (merge_frames_id m Hf). apply merge_signals_id. exact Hs.
Qed.

(* the unfixed tree inside the envelope that excludes all three findings *)
Lemma effect_unfixed_partial :
  forall w m, receivers_propagated m -> NoDup (frame_names m) -> effect false w m = m.
Proof.
  intros w m Hp Hf. destruct w; try reflexivity; unfold effect, works_on_copy, normalise.
  - apply arxml_propagate_id. exact Hp.
  - apply fibex_rename_id. exact Hf.
Qed.

Lemma after_exports_unfixed_partial :
  forall ws m, receivers_propagated m -> NoDup (frame_names m) ->
    after_exports false ws m = m.
Proof.
  unfold after_exports. induction ws as [|w ws IH]; intros m Hp Hf; cbn [fold_left]; [reflexivity|].
  rewrite effect_unfixed_partial by assumption. apply IH; assumption.
Qed.

Lemma second_export_unfixed_partial_lemma :
  forall (Bytes : Type) (render : writer -> matrix -> Bytes) (ws : list writer) (b : writer) (m : matrix),
    receivers_propagated m -> NoDup (frame_names m) ->
    render b (after_exports false ws m) = render b m.
Proof. intros Bytes render ws b m Hp Hf. rewrite (after_exports_unfixed_partial ws m Hp Hf). reflexivity. Qed.

(* witnesses (replayed on the implementation by harness/p_c14.py) *)
Definition wit_unpropagated : matrix := [mkFrame [70] [1] [] [mkSignal 5 [2; 3]]].
Definition wit_dup_frames : matrix :=
  [mkFrame [68; 117; 112] [1] [2] [mkSignal 5 [2]]; mkFrame [68; 117; 112] [3] [4] [mkSignal 6 [4]]].
Definition wit_dup_signals : matrix :=
  [mkFrame [65] [1] [2] [mkSignal 5 [2]]; mkFrame [66] [1] [3] [mkSignal 5 [3]]].

Lemma arxml_unfixed_refuted : exists m, effect false Arxml m <> m.
Proof. exists wit_unpropagated. vm_compute. intro H. discriminate H. Qed.
Lemma fibex_unfixed_refuted : exists m, effect false Fibex m <> m.
Proof. exists wit_dup_frames. vm_compute. intro H. discriminate H. Qed.
Lemma cluster_view_refuted : exists m, cluster_view m <> m.
Proof. exists wit_dup_frames. vm_compute. intro H. discriminate H. Qed.
Lemma cluster_view_refuted_signals : exists m, NoDup (frame_names m) /\ cluster_view m <> m.
Proof.
  exists wit_dup_signals. split.
  - unfold frame_names, wit_dup_signals. cbn [map f_name].
    constructor; [intros [H | []]; discriminate H|]. constructor; [intros []|]. constructor.
  - vm_compute. intro H. discriminate H.
Qed.
Lemma second_export_unfixed_refuted : exists a b m, view b (effect false a m) <> view b m.
Proof. exists Fibex, Csv, wit_dup_frames. vm_compute. intro H. discriminate H. Qed.

(* ------------------------------------------------------------------ SYM: order of the Mux groups *)
Lemma insert_comm : forall x y l, insert x (insert y l) = insert y (insert x l).
Proof.
  intros x y. induction l as [|z l IH].
  - cbn [insert]. destruct (x <=? y) eqn:A, (y <=? x) eqn:B; try reflexivity.
    + assert (x = y) by lia. subst. reflexivity.
    + exfalso. lia.
  - cbn [insert].
    destruct (y <=? z) eqn:A, (x <=? z) eqn:B; cbn [insert]; rewrite ?A, ?B.
    + destruct (x <=? y) eqn:C, (y <=? x) eqn:D; try reflexivity.
      * assert (x = y) by lia. subst. reflexivity.
      * exfalso. lia.
    + destruct (x <=? y) eqn:C; [exfalso; lia | reflexivity].
    + destruct (y <=? x) eqn:C; [exfalso; lia | reflexivity].
    + rewrite IH. reflexivity.
Qed.

Lemma isort_perm_eq : forall l l', Permutation l l' -> isort l = isort l'.
Proof.
  intros l l' H. induction H as [| x l l' _ IH | x y l | l l' l'' _ IH1 _ IH2].
  - reflexivity.
  - cbn [isort]. rewrite IH. reflexivity.
  - cbn [isort]. apply insert_comm.
  - rewrite IH1. exact IH2.
Qed.

Lemma ints_of_perm : forall l l', Permutation l l' -> Permutation (ints_of l) (ints_of l').
Proof.
  intros l l' H. induction H as [| x l l' _ IH | x y l | l l' l'' _ IH1 _ IH2].
  - constructor.
  - destruct x; cbn [ints_of]; [exact IH | exact IH | constructor; exact IH].
  - destruct x, y; cbn [ints_of]; try apply Permutation_refl. apply perm_swap.
  - eapply Permutation_trans; eassumption.
Qed.

Lemma sym_emit_perm : forall sigs l l', Permutation l l' -> sym_emit l sigs = sym_emit l' sigs.
Proof.
  intros sigs l l' H. unfold sym_emit. rewrite (isort_perm_eq _ _ (ints_of_perm _ _ H)). reflexivity.
Qed.

Lemma sym_emit_iteration : forall sigs l l', iteration_of sigs l -> iteration_of sigs l' -> sym_emit l sigs = sym_emit l' sigs.
Proof.
  intros sigs l l' [Hn Hi] [Hn' Hi']. apply sym_emit_perm. apply NoDup_Permutation; try assumption.
  intros x. rewrite Hi, Hi'. reflexivity.
Qed.

(* isort is Python's sorted() on ints: ascending and a rearrangement of the input *)
Lemma insert_perm : forall x l, Permutation (insert x l) (x :: l).
Proof.
  intros x. induction l as [|y l IH]; cbn [insert]; [apply Permutation_refl|].
  destruct (x <=? y); [apply Permutation_refl|].
  eapply Permutation_trans; [apply perm_skip; exact IH | apply perm_swap].
Qed.

Lemma isort_perm : forall l, Permutation (isort l) l.
Proof.
  induction l as [|x l IH]; cbn [isort]; [constructor|].
  eapply Permutation_trans; [apply insert_perm | apply perm_skip; exact IH].
Qed.

Lemma insert_sorted : forall x l, Sorted Z.le l -> Sorted Z.le (insert x l).
Proof.
  intros x. induction l as [|y l IH]; intros H; cbn [insert].
  - constructor; constructor.
  - destruct (x <=? y) eqn:A.
    + constructor; [exact H | constructor; lia].
    + inversion H as [|a b Hs Hh]; subst. constructor; [apply IH; exact Hs|].
      destruct l as [|z l]; cbn [insert].
      * constructor. lia.
      * destruct (x <=? z); constructor; [lia|]. inversion Hh; subst. assumption.
Qed.

Lemma isort_sorted : forall l, Sorted Z.le (isort l).
Proof. induction l as [|x l IH]; cbn [isort]; [constructor | apply insert_sorted; exact IH]. Qed.

Lemma isort_spec : forall l, Sorted Z.le (isort l) /\ Permutation (isort l) l.
Proof. intros l. split; [apply isort_sorted | apply isort_perm]. Qed.

(* the iteration-order model of the unfixed writer is order-sensitive: two iterations of the same set, different output *)
Definition wit_sigs : list ssig := [(1, MMultiplexor); (2, MNone); (3, MInt 1); (4, MInt 9)].
Lemma sym_unfixed_refuted :
  exists sigs l l', iteration_of sigs l /\ iteration_of sigs l' /\ sym_emit_in_order l sigs <> sym_emit_in_order l' sigs.
Proof.
  exists wit_sigs, [MMultiplexor; MNone; MInt 1; MInt 9], [MInt 9; MMultiplexor; MInt 1; MNone].
  assert (Hiter : forall o, Permutation [MMultiplexor; MNone; MInt 1; MInt 9] o -> iteration_of wit_sigs o).
  { intros o Hp. split.
    - eapply Permutation_NoDup; [exact Hp|].
      repeat (constructor; [cbn [In]; intros Hc; repeat (destruct Hc as [Hc | Hc]; [discriminate Hc|]); exact Hc|]).
      constructor.
    - intros x. cbn [wit_sigs map snd]. split; intros Hx.
      + eapply Permutation_in; [apply Permutation_sym; exact Hp | exact Hx].
      + eapply Permutation_in; [exact Hp | exact Hx]. }
  split; [apply Hiter; apply Permutation_refl|]. split.
  - apply Hiter.
    apply Permutation_sym.
    change [MInt 9; MMultiplexor; MInt 1; MNone] with ([MInt 9] ++ [MMultiplexor; MInt 1; MNone]).
    eapply Permutation_trans; [apply Permutation_app_comm|]. cbn [app].
    apply perm_skip.
    change [MInt 1; MNone; MInt 9] with ([MInt 1] ++ [MNone; MInt 9]).
    eapply Permutation_trans; [apply Permutation_app_comm|]. cbn [app].
    apply perm_skip. apply perm_swap.
  - vm_compute. intro H. discriminate H.
Qed.
