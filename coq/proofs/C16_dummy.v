(* C16, part 2: the usage map agrees with the decoder's dependency set; create_dummy_signals. *)
From CM Require Import lib.Prelude model.Codec model.Layout proofs.Codec_encode_lib proofs.Codec_decode
  proofs.Codec_encode proofs.C16_layout.

(* ---------- flipping one payload bit changes exactly the listed signals ---------- *)

Theorem layout_lists_value_dependents : forall f sigs d d' p s,
  zlen d = f -> zlen d' = f ->
  Forall (fun s => inside (8 * f) s = true /\ float_ok s) sigs -> In s sigs ->
  0 <= p < 8 * f ->
  (forall q, q <> p -> mbit d q = mbit d' q) -> mbit d p <> mbit d' p ->
  (In s (nth (Z.to_nat p) (get_frame_layout f sigs) []) <->
   decode_signal d (8 * f) s <> decode_signal d' (8 * f) s).
Proof.
  intros f sigs d d' p s Hd Hd' Hall Hs Hp Hsame Hdiff.
  assert (Hin : Forall (fun s => inside (8 * f) s = true) sigs).
  { eapply Forall_impl; [|exact Hall]. intros t [H _]. exact H. }
  assert (Hf : 0 <= f) by (subst f; apply zlen_nonneg).
  destruct (layout_lists_exactly_dependents f sigs Hf Hin) as [_ S].
  rewrite (S p s Hp). rewrite Forall_forall in Hall. destruct (Hall s Hs) as [Hi Hfo].
  pose proof (inside_facts _ _ Hi) as [Hst [Hsz Hend]].
  split.
  - intros [_ [i [Hi1 Hi2]]] Heq.
    assert (Hb : sig_bit d s i = sig_bit d' s i).
    { pose proof (decode_determines_own_bits d d' s) as D. rewrite Hd, Hd' in D.
      apply D; try assumption; reflexivity. }
    rewrite !sig_bit_mbit in Hb by lia. rewrite Hi2 in Hb. contradiction.
  - intros Hne. split; [exact Hs|]. destruct (occupies_dec s p) as [H|H]; [exact H|]. exfalso. apply Hne.
    pose proof (decode_depends_only_on_own_bits d d' s) as D. rewrite Hd, Hd' in D. apply D; try assumption; try reflexivity.
    intros i Hi1. rewrite !sig_bit_mbit by lia. apply Hsame. intros E. apply H. exists i. split; assumption.
Qed.

(* ---------- counting the signals on a bit ---------- *)

Definition occ_count (sigs : list signal) (p : Z) : nat := length (filter (fun s => occz s p) sigs).

Lemma occ_count_app : forall l1 l2 p, occ_count (l1 ++ l2) p = (occ_count l1 p + occ_count l2 p)%nat.
Proof. intros. unfold occ_count. rewrite filter_app, app_length. reflexivity. Qed.

Lemma occ_count_cons : forall s l p, occ_count (s :: l) p = ((if occz s p then 1 else 0) + occ_count l p)%nat.
Proof. intros. unfold occ_count. cbn [filter]. destruct (occz s p); reflexivity. Qed.

Lemma occ_count_zero : forall l p, occ_count l p = 0%nat <-> forall s, In s l -> occz s p = false.
Proof.
  induction l as [|s l IH]; intros p.
  - split; [intros _ s []|reflexivity].
  - rewrite occ_count_cons. split.
    + intros H t [Ht|Ht].
      * subst t. destruct (occz s p); [lia|reflexivity].
      * apply IH; [|exact Ht]. destruct (occz s p); lia.
    + intros H. rewrite (H s (or_introl eq_refl)). cbn [Nat.add]. apply IH. intros t Ht. apply H. right. exact Ht.
Qed.

Lemma occ_count_pos : forall l p t, In t l -> occz t p = true -> (1 <= occ_count l p)%nat.
Proof.
  intros l p t Ht Ho. destruct (occ_count l p) eqn:E; [|lia].
  rewrite occ_count_zero in E. rewrite (E t Ht) in Ho. discriminate.
Qed.

Lemma disjoint_count_le1 : forall l p, pairwise_disjoint l -> (occ_count l p <= 1)%nat.
Proof.
  intros l p H. induction H as [|s l Hs Hl IH].
  - cbn. lia.
  - rewrite occ_count_cons. destruct (occz s p) eqn:E; [|lia].
    assert (occ_count l p = 0%nat); [|lia].
    apply occ_count_zero. intros t Ht. rewrite Forall_forall in Hs. specialize (Hs t Ht p).
    destruct (occz t p) eqn:Et; [|reflexivity]. exfalso. apply Hs. split; apply occupies_occz; assumption.
Qed.

Lemma count_le1_disjoint : forall l, (forall p, (occ_count l p <= 1)%nat) -> pairwise_disjoint l.
Proof.
  induction l as [|s l IH]; intros H.
  - constructor.
  - constructor.
    + apply Forall_forall. intros t Ht p [H1 H2]. apply occupies_occz in H1. apply occupies_occz in H2.
      specialize (H p). rewrite occ_count_cons, H1 in H.
      pose proof (occ_count_pos l p t Ht H2). lia.
    + apply IH. intros p. specialize (H p). rewrite occ_count_cons in H. lia.
Qed.

Lemma count_one_exactly : forall l p, occ_count l p = 1%nat -> exactly_one l p.
Proof.
  induction l as [|s l IH]; intros p H.
  - cbn in H. lia.
  - rewrite occ_count_cons in H. destruct (occz s p) eqn:E.
    + exists [], s, l. split; [reflexivity|]. split; [apply occupies_occz; exact E|]. split; [constructor|].
      assert (Z0 : occ_count l p = 0%nat) by lia. rewrite occ_count_zero in Z0.
      apply Forall_forall. intros t Ht Ho. apply occupies_occz in Ho. rewrite (Z0 t Ht) in Ho. discriminate.
    + destruct (IH p) as [l1 [t [l2 [E1 [E2 [E3 E4]]]]]]; [lia|].
      exists (s :: l1), t, l2. split; [rewrite E1; reflexivity|]. split; [exact E2|]. split; [|exact E4].
      constructor; [|exact E3]. intros Ho. apply occupies_occz in Ho. congruence.
Qed.

Lemma exactly_one_count : forall l p, exactly_one l p -> occ_count l p = 1%nat.
Proof.
  intros l p [l1 [s [l2 [E [Ho [F1 F2]]]]]]. subst l. rewrite occ_count_app, occ_count_cons.
  apply occupies_occz in Ho. rewrite Ho.
  assert (Z1 : occ_count l1 p = 0%nat).
  { apply occ_count_zero. intros t Ht. rewrite Forall_forall in F1. specialize (F1 t Ht).
    destruct (occz t p) eqn:E; [|reflexivity]. exfalso. apply F1. apply occupies_occz. exact E. }
  assert (Z2 : occ_count l2 p = 0%nat).
  { apply occ_count_zero. intros t Ht. rewrite Forall_forall in F2. specialize (F2 t Ht).
    destruct (occz t p) eqn:E; [|reflexivity]. exfalso. apply F2. apply occupies_occz. exact E. }
  lia.
Qed.

Lemma count_outside : forall f l p, Forall (fun s => inside0 (8 * f) s = true) l -> ~ (0 <= p < 8 * f) ->
  occ_count l p = 0%nat.
Proof.
  intros f l p H Hp. apply occ_count_zero. intros s Hs. rewrite Forall_forall in H. specialize (H s Hs).
  apply inside0_facts in H. unfold occz, wocc, walk_pos. destruct (s_le s); lia.
Qed.

(* ---------- dummy_scan ---------- *)

Definition in_dummy (d : Z * Z) (p : Z) : bool := (fst d <=? p) && (p <? fst d + snd d).
Definition dcov (ds : list (Z * Z)) (p : Z) : nat := length (filter (fun d => in_dummy d p) ds).

Lemma dcov_cons : forall d ds p, dcov (d :: ds) p = ((if in_dummy d p then 1 else 0) + dcov ds p)%nat.
Proof. intros. unfold dcov. cbn [filter]. destruct (in_dummy d p); reflexivity. Qed.

Lemma dummy_scan_acc : forall A (cells : list (list A)) i len sb acc,
  dummy_scan cells i len sb acc = acc ++ dummy_scan cells i len sb [].
Proof.
  induction cells as [|c r IH]; intros i len sb acc.
  - cbn [dummy_scan]. rewrite app_nil_r. reflexivity.
  - cbn [dummy_scan].
    destruct (((i =? len - 1) || negb (is_nil c)) && negb ((if is_nil c && (sb =? -1) then i else sb) =? -1)).
    + rewrite IH. rewrite (IH _ _ _ ([] ++ _)). rewrite app_assoc. reflexivity.
    + apply IH.
Qed.

Lemma dummy_scan_count : forall A (cells : list (list A)) i len sb (fr : Z -> bool) p,
  len = i + zlen cells -> 0 <= i -> (sb = -1 \/ (0 <= sb < i /\ cells <> [])) ->
  (forall j, (j < length cells)%nat -> is_nil (nth j cells []) = fr (i + Z.of_nat j)) ->
  dcov (dummy_scan cells i len sb []) p =
    if (negb (sb =? -1) && (sb <=? p) && (p <? i)) || ((i <=? p) && (p <? len) && fr p) then 1%nat else 0%nat.
Proof.
  induction cells as [|c r IH]; intros i len sb fr p Hlen Hi Hsb Hfr.
  - cbn [dummy_scan]. unfold zlen in Hlen. cbn [length] in Hlen.
    destruct Hsb as [Hsb|[_ Hsb]]; [|congruence]. subst sb. cbn. case_if; [lia|reflexivity].
  - assert (Hc : is_nil c = fr i).
    { specialize (Hfr 0%nat). cbn [length nth] in Hfr. rewrite Hfr by lia. f_equal. lia. }
    assert (Hr : forall j, (j < length r)%nat -> is_nil (nth j r []) = fr (i + 1 + Z.of_nat j)).
    { intros j Hj. specialize (Hfr (S j)). cbn [length nth] in Hfr. rewrite Hfr by lia. f_equal. lia. }
    rewrite zlen_cons in Hlen.
    assert (Hlr : len = i + 1 + zlen r) by lia.
    pose proof (zlen_nonneg _ r) as Hzr.
    assert (Hlast : (i =? len - 1) = true <-> r = []).
    { split.
      - intros H. destruct r; [reflexivity|]. rewrite zlen_cons in Hlr. pose proof (zlen_nonneg _ r). lia.
      - intros H. subst r. unfold zlen in Hlr. cbn [length] in Hlr. lia. }
    cbn [dummy_scan]. rewrite Hc.
    destruct (((i =? len - 1) || negb (fr i)) && negb ((if fr i && (sb =? -1) then i else sb) =? -1)) eqn:Eemit.
    + rewrite dummy_scan_acc. cbn [app]. rewrite dcov_cons.
      rewrite (IH (i + 1) len (-1) fr p Hlr); [|lia|left; reflexivity|exact Hr].
      unfold in_dummy. cbn [fst snd].
      destruct (fr i) eqn:Efi.
      * (* the last cell, empty *)
        assert (Hl : (i =? len - 1) = true) by (destruct (i =? len - 1); [reflexivity|cbn in Eemit; discriminate]).
        rewrite Hl. cbn [andb].
        destruct (Z.eqb_spec sb (-1)) as [E|E].
        -- subst sb. cbn [andb]. destruct (Z.eqb_spec p i) as [Ep|Ep].
           ++ subst p. rewrite Efi. repeat case_if; lia.
           ++ destruct (fr p); repeat case_if; lia.
        -- cbn [andb]. destruct (Z.eqb_spec p i) as [Ep|Ep].
           ++ subst p. rewrite Efi. repeat case_if; lia.
           ++ destruct (fr p); repeat case_if; lia.
      * (* a used cell with a pending gap *)
        cbn [andb] in Eemit |- *.
        assert (Hs1 : sb <> -1) by (destruct (Z.eqb_spec sb (-1)); [cbn in Eemit; lia|assumption]).
        destruct (Z.eqb_spec sb (-1)) as [E|_]; [contradiction|].
        destruct (Z.eqb_spec p i) as [Ep|Ep].
        -- subst p. rewrite Efi. repeat case_if; lia.
        -- destruct (fr p); repeat case_if; lia.
    + (* nothing emitted *)
      destruct (fr i) eqn:Efi.
      * cbn [andb negb orb] in Eemit.
        assert (Hnl : (i =? len - 1) = false).
        { destruct (i =? len - 1) eqn:E; [|reflexivity]. cbn [orb andb] in Eemit. destruct (Z.eqb_spec sb (-1)); cbn [andb] in Eemit; lia. }
        assert (Hrne : r <> []) by (intros E; apply Hlast in E; congruence).
        rewrite (IH (i + 1) len (if true && (sb =? -1) then i else sb) fr p Hlr); [|lia| |exact Hr].
        -- cbn [andb]. destruct (Z.eqb_spec sb (-1)) as [E|E].
           ++ subst sb. destruct (Z.eqb_spec p i) as [Ep|Ep].
              ** subst p. rewrite Efi. repeat case_if; lia.
              ** destruct (fr p); repeat case_if; lia.
           ++ destruct (Z.eqb_spec p i) as [Ep|Ep].
              ** subst p. rewrite Efi. repeat case_if; lia.
              ** destruct (fr p); repeat case_if; lia.
        -- right. split; [|exact Hrne]. cbn [andb]. destruct (Z.eqb_spec sb (-1)); lia.
      * cbn [andb negb orb] in Eemit.
        assert (Hs1 : sb = -1) by (destruct (Z.eqb_spec sb (-1)); [assumption|rewrite Bool.orb_true_r in Eemit; cbn in Eemit; discriminate]).
        subst sb. cbn [andb Z.eqb].
        rewrite (IH (i + 1) len (-1) fr p Hlr); [|lia|left; reflexivity|exact Hr].
        destruct (Z.eqb_spec p i) as [Ep|Ep].
        -- subst p. rewrite Efi. repeat case_if; lia.
        -- destruct (fr p); repeat case_if; lia.
Qed.

Lemma dummy_scan_shape : forall A (cells : list (list A)) i len sb,
  len = i + zlen cells -> 0 <= i -> (sb = -1 \/ 0 <= sb < i) ->
  Forall (fun d => 0 <= fst d /\ 1 <= snd d /\ fst d + snd d <= len) (dummy_scan cells i len sb []).
Proof.
  induction cells as [|c r IH]; intros i len sb Hlen Hi Hsb.
  - cbn [dummy_scan]. constructor.
  - rewrite zlen_cons in Hlen. pose proof (zlen_nonneg _ r) as Hzr. cbn [dummy_scan].
    destruct (((i =? len - 1) || negb (is_nil c)) && negb ((if is_nil c && (sb =? -1) then i else sb) =? -1)) eqn:Eemit.
    + rewrite dummy_scan_acc. cbn [app]. constructor.
      * cbn [fst snd]. destruct (is_nil c); destruct (Z.eqb_spec sb (-1)); cbn [andb] in *; repeat case_if; lia.
      * apply IH; lia.
    + apply IH; [lia|lia|]. destruct (is_nil c); destruct (Z.eqb_spec sb (-1)); cbn [andb]; lia.
Qed.

(* ---------- create_dummy_signals ---------- *)

Lemma dummy_signals_count : forall name ds k p, occ_count (dummy_signals name k ds) p = dcov ds p.
Proof.
  induction ds as [|[st sz] r IH]; intros k p.
  - reflexivity.
  - cbn [dummy_signals]. rewrite occ_count_cons, dcov_cons, IH. reflexivity.
Qed.

Lemma dummy_signals_big : forall name ds k, Forall (fun t => s_le t = false) (dummy_signals name k ds).
Proof.
  induction ds as [|[st sz] r IH]; intros k; cbn [dummy_signals]; constructor; [reflexivity|apply IH].
Qed.

Lemma dummy_signals_inside : forall name N ds k,
  Forall (fun d => 0 <= fst d /\ 1 <= snd d /\ fst d + snd d <= N) ds ->
  Forall (fun t => inside N t = true) (dummy_signals name k ds).
Proof.
  induction ds as [|[st sz] r IH]; intros k H; cbn [dummy_signals]; [constructor|].
  inversion H as [|? ? H1 H2]; subst. constructor; [|apply IH; exact H2].
  unfold inside. cbn [s_start s_size fst snd] in *. lia.
Qed.

Theorem dummy_keeps_existing : forall name f sigs,
  exists ds, create_dummy_signals name f sigs = sigs ++ ds /\ Forall (fun t => s_le t = false) ds.
Proof.
  intros name f sigs. exists (dummy_signals name 0 (dummies f sigs)). split; [reflexivity|apply dummy_signals_big].
Qed.

Lemma is_nil_iff : forall A (l : list A), is_nil l = true <-> l = [].
Proof. intros A [|x l]; cbn; split; congruence. Qed.

Theorem dummy_partitions_bits : forall name f sigs,
  0 <= f -> Forall (fun s => inside (8 * f) s = true) sigs -> pairwise_disjoint sigs ->
  let r := create_dummy_signals name f sigs in
  Forall (fun s => inside (8 * f) s = true) r /\
  pairwise_disjoint r /\
  forall p, 0 <= p < 8 * f -> exactly_one r p.
Proof.
  intros name f sigs Hf Hin Hdis. cbv zeta.
  assert (Hin0 : Forall (fun s => inside0 (8 * f) s = true) sigs).
  { eapply Forall_impl; [|exact Hin]. intros s H. apply inside_inside0. exact H. }
  destruct (layout_lists_exactly_occupants0 f sigs Hf Hin0) as [Hlen _].
  set (fr := fun p => match occ_count sigs p with O => true | _ => false end).
  assert (Hfr : forall j, (j < length (get_frame_layout f sigs))%nat ->
                  is_nil (nth j (get_frame_layout f sigs) []) = fr (0 + Z.of_nat j)).
  { intros j Hj. unfold zlen in Hlen. cbn [Z.add].
    assert (Hjr : 0 <= Z.of_nat j < 8 * f) by lia.
    pose proof (layout_cell_nil f sigs (Z.of_nat j) Hf Hin0 Hjr) as C. rewrite Nat2Z.id in C.
    unfold fr. destruct (occ_count sigs (Z.of_nat j)) eqn:E.
    - apply is_nil_iff. apply C. apply occ_count_zero. exact E.
    - destruct (is_nil (nth j (get_frame_layout f sigs) [])) eqn:En; [|reflexivity].
      apply is_nil_iff in En. pose proof (proj1 C En) as En2. apply occ_count_zero in En2. congruence. }
  assert (Hshape : Forall (fun d => 0 <= fst d /\ 1 <= snd d /\ fst d + snd d <= 8 * f) (dummies f sigs)).
  { unfold dummies. rewrite Hlen. apply dummy_scan_shape; [rewrite Hlen; lia|lia|left; reflexivity]. }
  assert (Hcount : forall p, 0 <= p < 8 * f -> occ_count (create_dummy_signals name f sigs) p = 1%nat).
  { intros p Hp. unfold create_dummy_signals. rewrite occ_count_app, dummy_signals_count.
    unfold dummies. rewrite (dummy_scan_count _ _ 0 _ (-1) fr p); [|lia|lia|left; reflexivity|exact Hfr].
    rewrite Hlen. pose proof (disjoint_count_le1 sigs p Hdis) as Hle. unfold fr.
    destruct (occ_count sigs p) as [|[|n]]; [| |lia]; repeat case_if; lia. }
  assert (Hall : Forall (fun s => inside (8 * f) s = true) (create_dummy_signals name f sigs)).
  { unfold create_dummy_signals. apply Forall_app. split; [exact Hin|]. apply dummy_signals_inside. exact Hshape. }
  split; [exact Hall|]. split.
  - apply count_le1_disjoint. intros p.
    assert (D : 0 <= p < 8 * f \/ ~ (0 <= p < 8 * f)) by lia. destruct D as [D|D].
    + rewrite (Hcount p D). lia.
    + rewrite (count_outside f _ p); [lia| |exact D].
      eapply Forall_impl; [|exact Hall]. intros s H. apply inside_inside0. exact H.
  - intros p Hp. apply count_one_exactly. apply Hcount. exact Hp.
Qed.
