(* List lemmas for model/EcuOps.v: Python list idioms (remove first / append if absent), first-occurrence
   de-duplication, filters, and the frame-level consequences. *)
From Coq Require Import Permutation.
From CM Require Import lib.Prelude model.Glob model.EcuOps proofs.Glob_proofs.

Arguments dedup : simpl never.
Arguments nub : simpl nomatch.

(* ---------- membership ---------- *)
Lemma mem_In : forall x l, mem x l = true <-> In x l.
Proof.
  intros x l. unfold mem. rewrite existsb_exists. split.
  - intros (y & Hy & E). apply name_eqb_eq in E. subst. exact Hy.
  - intro H. exists x. split; [exact H | apply name_eqb_refl].
Qed.

Lemma mem_false : forall x l, mem x l = false <-> ~ In x l.
Proof.
  intros x l. split.
  - intros H HI. apply mem_In in HI. congruence.
  - intro H. destruct (mem x l) eqn:E; [apply mem_In in E; contradiction | reflexivity].
Qed.

Lemma mem_cons : forall x y l, mem x (y :: l) = name_eqb x y || mem x l.
Proof. reflexivity. Qed.

Lemma mem_app : forall x l1 l2, mem x (l1 ++ l2) = mem x l1 || mem x l2.
Proof. intros. unfold mem. apply existsb_app. Qed.

Lemma keep_not_true : forall n x, keep_not n x = true <-> x <> n.
Proof.
  intros n x. unfold keep_not. rewrite negb_true_iff, name_eqb_neq. split; intros H E; apply H; congruence.
Qed.

Lemma keep_not_false : forall n x, keep_not n x = false <-> x = n.
Proof.
  intros n x. unfold keep_not. rewrite negb_false_iff, name_eqb_eq. split; congruence.
Qed.

(* ---------- filters ---------- *)
Lemma filter_all : forall (A : Type) (p : A -> bool) l, (forall x, In x l -> p x = true) -> filter p l = l.
Proof.
  intros A p. induction l as [|a l IH]; intro H; cbn; [reflexivity|].
  rewrite (H a) by (left; reflexivity). f_equal. apply IH. intros x Hx. apply H. right. exact Hx.
Qed.

Lemma filter_filter : forall (A : Type) (p q : A -> bool) l, filter p (filter q l) = filter (fun x => p x && q x) l.
Proof.
  intros A p q. induction l as [|a l IH]; cbn; [reflexivity|].
  destruct (q a); cbn; [destruct (p a); cbn; congruence | rewrite andb_false_r; exact IH].
Qed.

Lemma filter_ext_in' : forall (A : Type) (p q : A -> bool) l, (forall x, In x l -> p x = q x) -> filter p l = filter q l.
Proof.
  intros A p q. induction l as [|a l IH]; intro H; cbn; [reflexivity|].
  rewrite (H a) by (left; reflexivity). rewrite IH by (intros x Hx; apply H; right; exact Hx). reflexivity.
Qed.

Lemma filter_comm : forall (A : Type) (p q : A -> bool) l, filter p (filter q l) = filter q (filter p l).
Proof. intros. rewrite !filter_filter. apply filter_ext_in'. intros. apply andb_comm. Qed.

Lemma flat_map_filter : forall (A : Type) (g : A -> list name) p l,
  flat_map (fun s => filter p (g s)) l = filter p (flat_map g l).
Proof.
  intros A g p. induction l as [|a l IH]; cbn; [reflexivity|]. rewrite filter_app, IH. reflexivity.
Qed.

Lemma flat_map_map' : forall (A B C : Type) (h : A -> B) (g : B -> list C) l,
  flat_map g (map h l) = flat_map (fun x => g (h x)) l.
Proof. intros A B C h g. induction l as [|a l IH]; cbn; [reflexivity | rewrite IH; reflexivity]. Qed.

Lemma flat_map_ext_in : forall (A B : Type) (f g : A -> list B) l,
  (forall x, In x l -> f x = g x) -> flat_map f l = flat_map g l.
Proof.
  intros A B f g. induction l as [|a l IH]; intro H; cbn; [reflexivity|].
  rewrite (H a) by (left; reflexivity). rewrite IH by (intros x Hx; apply H; right; exact Hx). reflexivity.
Qed.

(* ---------- remove first / append if absent ---------- *)
Lemma remove_first_notin : forall x l, ~ In x l -> remove_first x l = l.
Proof.
  intros x. induction l as [|y l IH]; intro H; cbn; [reflexivity|].
  destruct (name_eqb x y) eqn:E.
  - apply name_eqb_eq in E. subst. exfalso. apply H. left. reflexivity.
  - f_equal. apply IH. intro HI. apply H. right. exact HI.
Qed.

Lemma remove_first_nodup : forall x l, NoDup l -> remove_first x l = filter (keep_not x) l.
Proof.
  intros x. induction l as [|y l IH]; intro H; cbn; [reflexivity|].
  inversion H as [|y' l' Hy Hl]; subst. unfold keep_not at 1. destruct (name_eqb x y) eqn:E; cbn.
  - apply name_eqb_eq in E. subst y. symmetry. apply filter_all. intros z Hz. apply keep_not_true.
    intro Ez. subst. contradiction.
  - f_equal. apply IH. exact Hl.
Qed.

Lemma del_name_nodup : forall x l, NoDup l -> del_name x l = filter (keep_not x) l.
Proof.
  intros x l H. unfold del_name. destruct (mem x l) eqn:E.
  - apply remove_first_nodup. exact H.
  - symmetry. apply filter_all. intros z Hz. apply keep_not_true. intro Ez. subst. apply mem_false in E. contradiction.
Qed.

Lemma NoDup_filter' : forall (p : name -> bool) l, NoDup l -> NoDup (filter p l).
Proof.
  intros p. induction l as [|a l IH]; intro H; cbn; [constructor|].
  inversion H as [|a' l' Ha Hl]; subst. destruct (p a).
  - constructor; [|apply IH; exact Hl]. intro HI. apply filter_In in HI. destruct HI. contradiction.
  - apply IH. exact Hl.
Qed.

Lemma del_name_NoDup : forall x l, NoDup l -> NoDup (del_name x l).
Proof. intros x l H. rewrite del_name_nodup by exact H. apply NoDup_filter'. exact H. Qed.

Lemma in_add_name : forall x y l, In y (add_name x l) <-> y = x \/ In y l.
Proof.
  intros x y l. unfold add_name. destruct (mem x l) eqn:E.
  - split; [intro H; right; exact H|]. intros [H | H]; [subst; apply mem_In; exact E | exact H].
  - rewrite in_app_iff. cbn. split.
    + intros [H | [H | []]]; [right; exact H | left; congruence].
    + intros [H | H]; [right; left; congruence | left; exact H].
Qed.

Lemma NoDup_snoc : forall (x : name) l, NoDup l -> ~ In x l -> NoDup (l ++ [x]).
Proof.
  intros x l H Hx. apply (Permutation_NoDup (l := x :: l)).
  - change (x :: l) with ([x] ++ l). apply Permutation_app_comm.
  - constructor; assumption.
Qed.

Lemma add_name_NoDup : forall x l, NoDup l -> NoDup (add_name x l).
Proof.
  intros x l H. unfold add_name. destruct (mem x l) eqn:E; [exact H|].
  apply NoDup_snoc; [exact H | apply mem_false; exact E].
Qed.

Lemma rename_in_NoDup : forall old new l, NoDup l -> NoDup (rename_in old new l).
Proof.
  intros old new l H. unfold rename_in. destruct (mem old l); [|exact H].
  apply add_name_NoDup. rewrite remove_first_nodup by exact H. apply NoDup_filter'. exact H.
Qed.

(* ---------- substitution ---------- *)
Lemma subst_old : forall old new, subst old new old = new.
Proof. intros. unfold subst. rewrite name_eqb_refl. reflexivity. Qed.

Lemma subst_other : forall old new x, x <> old -> subst old new x = x.
Proof. intros old new x H. unfold subst. apply name_eqb_neq in H. rewrite H. reflexivity. Qed.

Lemma subst_not_old : forall old new x, new <> old -> subst old new x <> old.
Proof.
  intros old new x H. destruct (name_eq_dec x old) as [E | E].
  - subst. rewrite subst_old. exact H.
  - rewrite subst_other by exact E. exact E.
Qed.

Lemma map_subst_notin : forall old new l, ~ In old l -> map (subst old new) l = l.
Proof.
  intros old new. induction l as [|a l IH]; intro H; cbn; [reflexivity|].
  rewrite subst_other by (intro E; apply H; left; congruence). f_equal. apply IH. intro HI. apply H. right. exact HI.
Qed.

(* ---------- the rewritten list of rename_ecu ---------- *)
Lemma rename_in_repl : forall old new l, NoDup l -> (In new l -> new = old) -> rename_in old new l = repl old new l.
Proof.
  intros old new l H Hnew. unfold rename_in, repl. destruct (mem old l) eqn:E; [|reflexivity].
  rewrite remove_first_nodup by exact H. unfold add_name.
  destruct (mem new (filter (keep_not old) l)) eqn:E2; [|reflexivity].
  apply mem_In in E2. apply filter_In in E2. destruct E2 as [Hin Hk]. apply keep_not_true in Hk.
  exfalso. apply Hk. apply Hnew. exact Hin.
Qed.

Lemma repl_perm : forall old new l, NoDup l -> Permutation (map (subst old new) l) (repl old new l).
Proof.
  intros old new l H. unfold repl. destruct (mem old l) eqn:E.
  - apply mem_In in E. apply in_split in E. destruct E as (l1 & l2 & E). subst l.
    assert (H1 : ~ In old l1 /\ ~ In old l2).
    { apply NoDup_remove_2 in H. split; intro HI; apply H; apply in_or_app; [left | right]; exact HI. }
    destruct H1 as [H1 H2].
    rewrite map_app. cbn [map]. rewrite subst_old, !map_subst_notin by assumption.
    rewrite filter_app. cbn [filter]. unfold keep_not at 2. rewrite name_eqb_refl. cbn [negb].
    rewrite !filter_all by (intros z Hz; apply keep_not_true; intro Ez; subst; contradiction).
    apply Permutation_sym. eapply Permutation_trans; [apply Permutation_app_comm|]. cbn [app].
    apply Permutation_cons_app. apply Permutation_refl.
  - apply mem_false in E. rewrite map_subst_notin by exact E. apply Permutation_refl.
Qed.

Lemma rename_in_no_old : forall old new l, new <> old -> NoDup l -> ~ In old (rename_in old new l).
Proof.
  intros old new l Hne H. unfold rename_in. destruct (mem old l) eqn:E.
  - rewrite remove_first_nodup by exact H. intro HI. apply in_add_name in HI. destruct HI as [HI | HI].
    + apply Hne. congruence.
    + apply filter_In in HI. destruct HI as [_ Hk]. apply keep_not_true in Hk. apply Hk. reflexivity.
  - apply mem_false. exact E.
Qed.

Lemma in_repl_iff : forall old new l y, NoDup l -> (In y (repl old new l) <-> In y (map (subst old new) l)).
Proof.
  intros old new l y H. split; intro HI.
  - eapply Permutation_in; [apply Permutation_sym; apply repl_perm; exact H | exact HI].
  - eapply Permutation_in; [apply repl_perm; exact H | exact HI].
Qed.

(* ---------- first-occurrence de-duplication ---------- *)
Lemma In_nub : forall x l, In x (nub l) <-> In x l.
Proof.
  intros x. induction l as [|a l IH]; cbn; [tauto|]. rewrite filter_In, IH. split.
  - intros [H | [H _]]; auto.
  - intros [H | H]; [left; exact H|]. destruct (name_eq_dec a x) as [E | E]; [left; exact E|].
    right. split; [exact H|]. apply negb_true_iff. apply name_eqb_neq. exact E.
Qed.

Lemma NoDup_nub : forall l, NoDup (nub l).
Proof.
  induction l as [|a l IH]; cbn; constructor.
  - intro H. apply filter_In in H. destruct H as [_ H]. rewrite name_eqb_refl in H. discriminate.
  - apply NoDup_filter'. exact IH.
Qed.

Lemma nub_filter : forall p l, nub (filter p l) = filter p (nub l).
Proof.
  intros p. induction l as [|a l IH]; cbn; [reflexivity|]. destruct (p a) eqn:E; cbn.
  - f_equal. rewrite IH. apply filter_comm.
  - rewrite IH, filter_filter. apply filter_ext_in'. intros x _.
    destruct (p x) eqn:Ex; [|reflexivity]. cbn. symmetry. apply negb_true_iff. apply name_eqb_neq. congruence.
Qed.

Lemma fold_add_nub : forall l acc,
  fold_left (fun acc r => add_name r acc) l acc = acc ++ filter (fun y => negb (mem y acc)) (nub l).
Proof.
  induction l as [|x l IH]; intro acc; cbn [fold_left nub filter]; [rewrite app_nil_r; reflexivity|].
  rewrite IH. unfold add_name. destruct (mem x acc) eqn:E; cbn [negb].
  - f_equal. rewrite filter_filter. apply filter_ext_in'. intros y _.
    destruct (mem y acc) eqn:Ey; cbn; [reflexivity|]. symmetry. apply negb_true_iff. apply name_eqb_neq.
    intro Exy. subst. congruence.
  - rewrite <- app_assoc. cbn [app]. f_equal. f_equal. rewrite filter_filter. apply filter_ext_in'. intros y _.
    rewrite mem_app. cbn [mem existsb]. rewrite orb_false_r, negb_orb. rewrite (name_eqb_sym x y). reflexivity.
Qed.

Lemma dedup_nub : forall l, dedup l = nub l.
Proof. intro l. unfold dedup. rewrite fold_add_nub. cbn. apply filter_all. reflexivity. Qed.

(* ---------- frames ---------- *)
Definition frame_wf (f : frame) : Prop := frame_uptodate f /\ frame_refs_nodup f.

Lemma wf_frames : forall m, wf m <-> Forall frame_wf (frames m).
Proof.
  intro m. unfold wf, receivers_uptodate, refs_nodup. rewrite !Forall_forall. split.
  - intros [H1 H2] f Hf. split; auto.
  - intro H. split; intros f Hf; apply H; exact Hf.
Qed.

Lemma update_receiver_uptodate : forall f, frame_uptodate (update_receiver f).
Proof. intro f. unfold frame_uptodate, update_receiver. cbn. apply dedup_nub. Qed.

Lemma update_receiver_id : forall f, frame_uptodate f -> update_receiver f = f.
Proof.
  intros [n tx rx sg p] H. unfold frame_uptodate in H. cbn in H. unfold update_receiver. cbn.
  rewrite dedup_nub, <- H. reflexivity.
Qed.

Lemma rewrite_frame_wf : forall g f, (forall l, NoDup l -> NoDup (g l)) -> frame_refs_nodup f -> frame_wf (rewrite_frame g f).
Proof.
  intros g f Hg [Htx Hsg]. split; [apply update_receiver_uptodate|].
  unfold rewrite_frame, update_receiver, frame_refs_nodup. cbn. split; [apply Hg; exact Htx|].
  rewrite Forall_map. eapply Forall_impl; [|exact Hsg]. intros s Hs. cbn. apply Hg. exact Hs.
Qed.

Lemma map_refs_ext : forall g h f, (forall l, g l = h l) -> map_refs g f = map_refs h f.
Proof.
  intros g h f H. unfold map_refs. rewrite !H. f_equal. apply map_ext. intro s. rewrite H. reflexivity.
Qed.

Lemma map_refs_filter_ext : forall p q f, (forall x, p x = q x) -> map_refs (filter p) f = map_refs (filter q) f.
Proof. intros p q f H. apply map_refs_ext. intro l. apply filter_ext. exact H. Qed.

Lemma rewrite_frame_filter : forall g p f, frame_wf f -> (forall l, NoDup l -> g l = filter p l) ->
  rewrite_frame g f = map_refs (filter p) f.
Proof.
  intros g p [n tx rx sg pay] [Hup [Htx Hsg]] Hg. unfold frame_uptodate in Hup. cbn in *.
  unfold rewrite_frame, update_receiver, map_refs. cbn.
  assert (Es : map (fun s => set_sreceivers s (g (sreceivers s))) sg
               = map (fun s => mkSig (sname s) (filter p (sreceivers s)) (spay s)) sg).
  { apply map_ext_in. intros s Hs. unfold set_sreceivers. rewrite Hg; [reflexivity|].
    rewrite Forall_forall in Hsg. apply Hsg. exact Hs. }
  rewrite Es. rewrite (Hg tx Htx). f_equal.
  rewrite dedup_nub, flat_map_map'. cbn. rewrite flat_map_filter, nub_filter, <- Hup. reflexivity.
Qed.

Lemma map_refs_filter_wf : forall p f, frame_wf f -> frame_wf (map_refs (filter p) f).
Proof.
  intros p [n tx rx sg pay] [Hup [Htx Hsg]]. unfold frame_uptodate in Hup. cbn in *.
  split; [|split]; cbn.
  - unfold frame_uptodate. cbn. rewrite flat_map_map'. cbn. rewrite flat_map_filter, nub_filter, <- Hup. reflexivity.
  - apply NoDup_filter'. exact Htx.
  - rewrite Forall_map. eapply Forall_impl; [|exact Hsg]. intros s Hs. cbn. apply NoDup_filter'. exact Hs.
Qed.

Lemma map_refs_filter_filter : forall p q f,
  map_refs (filter p) (map_refs (filter q) f) = map_refs (filter (fun x => p x && q x)) f.
Proof.
  intros p q [n tx rx sg pay]. unfold map_refs. cbn. rewrite !filter_filter. f_equal.
  rewrite map_map. apply map_ext. intro s. cbn. rewrite filter_filter. reflexivity.
Qed.

Lemma map_refs_filter_id : forall p f, (forall x, In x (frame_refs f) -> p x = true) -> map_refs (filter p) f = f.
Proof.
  intros p [n tx rx sg pay] H. unfold frame_refs in H. cbn in H. unfold map_refs. cbn.
  rewrite (filter_all _ p tx) by (intros x Hx; apply H; apply in_or_app; left; exact Hx).
  rewrite (filter_all _ p rx) by (intros x Hx; apply H; apply in_or_app; right; apply in_or_app; right; exact Hx).
  f_equal. rewrite <- (map_id sg) at 2. apply map_ext_in. intros [sn sr sp] Hs. cbn. f_equal.
  apply filter_all. intros x Hx. apply H. apply in_or_app. right. apply in_or_app. left.
  apply in_flat_map. exists (mkSig sn sr sp). split; [exact Hs | exact Hx].
Qed.

Lemma Forall2_map_r : forall (A B : Type) (R : A -> B -> Prop) (h : A -> B) l,
  (forall x, In x l -> R x (h x)) -> Forall2 R l (map h l).
Proof.
  intros A B R h. induction l as [|a l IH]; intro H; cbn; constructor.
  - apply H. left. reflexivity.
  - apply IH. intros x Hx. apply H. right. exact Hx.
Qed.

Lemma fold_left_preserves : forall (A B : Type) (P : A -> Prop) (f : A -> B -> A) l a,
  (forall a x, P a -> P (f a x)) -> P a -> P (fold_left f l a).
Proof.
  intros A B P f. induction l as [|x l IH]; intros a Hf Ha; cbn; [exact Ha|]. apply IH; [exact Hf | apply Hf; exact Ha].
Qed.

(* an up-to-date receiver list, read as a set: duplicate-free and exactly the union of the signals' receivers *)
Lemma uptodate_union : forall f, frame_uptodate f ->
  NoDup (receivers f) /\ (forall x, In x (receivers f) <-> exists s, In s (signals f) /\ In x (sreceivers s)).
Proof.
  intros f H. unfold frame_uptodate in H. rewrite H. split; [apply NoDup_nub|].
  intro x. rewrite In_nub, in_flat_map. reflexivity.
Qed.
