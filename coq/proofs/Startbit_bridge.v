(* Bridge between the start-bit notation model (Startbit) and the payload codec model (Codec):
   the physical coordinate Startbit assigns to a bit of a signal is the payload bit Codec reads for it. *)
From CM Require Import lib.Prelude model.Startbit model.Codec.
From CM Require Import proofs.Startbit_proofs proofs.Codec_lib proofs.Codec_decode.

(* payload bit at a physical coordinate (byte index, bit index from the byte's LSB) *)
Definition coord_bit (d : list Z) (c : coord) : bool := Z.testbit (nth (Z.to_nat (fst c)) d 0) (snd c).

Definition coord_eqb (a b : coord) : bool := (fst a =? fst b) && (snd a =? snd b).

Lemma coord_eqb_eq a b : coord_eqb a b = true <-> a = b.
Proof.
  destruct a as [a1 a2], b as [b1 b2]. unfold coord_eqb. cbn [fst snd]. split.
  - intros H. apply andb_true_iff in H. destruct H as [H1 H2].
    apply Z.eqb_eq in H1. apply Z.eqb_eq in H2. subst. reflexivity.
  - intros H. apply andb_true_iff.
    pose proof (f_equal fst H) as H1. pose proof (f_equal snd H) as H2. cbn [fst snd] in H1, H2.
    split; apply Z.eqb_eq; assumption.
Qed.

(* Codec's reading of the bit of significance k is the payload bit at Startbit's physical coordinate *)
Lemma sig_bit_is_coord_bit :
  forall d s k, 0 <= s_start s -> 1 <= s_size s -> (k < Z.to_nat (s_size s))%nat ->
    sig_bit d s k = coord_bit d (bit_coord (s_le s) (s_size s) (s_start s) (Z.of_nat k)).
Proof.
  intros d s k _ _ _. unfold sig_bit, bit_coord, coord_bit, pbit, mbit, coord_lsb0, coord_msb0.
  destruct (s_le s); cbn [fst snd]; reflexivity.
Qed.

(* ---------- a sum with a single set bit ---------- *)

Lemma bitsum_ext_lt : forall f g n, (forall j, (j < n)%nat -> f j = g j) -> bitsum f n = bitsum g n.
Proof.
  intros f g n. induction n as [|n IH]; intros H.
  - reflexivity.
  - cbn [bitsum]. rewrite IH by (intros j Hj; apply H; lia). rewrite (H n) by lia. reflexivity.
Qed.

Lemma bitsum_zero_below : forall k n, (n <= k)%nat -> bitsum (fun j => Nat.eqb j k) n = 0.
Proof.
  intros k n. induction n as [|n IH]; intros H.
  - reflexivity.
  - cbn [bitsum]. rewrite IH by lia.
    destruct (Nat.eqb n k) eqn:E; [apply Nat.eqb_eq in E; lia|].
    cbn [Z.b2z]. lia.
Qed.

Lemma bitsum_single : forall k n, (k < n)%nat -> bitsum (fun j => Nat.eqb j k) n = 2 ^ Z.of_nat k.
Proof.
  intros k n. induction n as [|n IH]; intros H.
  - lia.
  - cbn [bitsum]. destruct (Nat.eqb n k) eqn:E.
    + apply Nat.eqb_eq in E. subst n. rewrite bitsum_zero_below by lia. cbn [Z.b2z]. lia.
    + apply Nat.eqb_neq in E. rewrite IH by lia. cbn [Z.b2z]. lia.
Qed.

(* if among the signal's own bits exactly the bit of significance k is set, the unsigned value is 2^k *)
Lemma single_bit_payload_decodes_to_weight :
  forall d s k,
    inside (8 * zlen d) s = true -> s_float s = false -> s_signed s = false ->
    (k < Z.to_nat (s_size s))%nat ->
    (forall j, (j < Z.to_nat (s_size s))%nat -> sig_bit d s j = Nat.eqb j k) ->
    decode_signal d (8 * zlen d) s = Some (RInt (2 ^ Z.of_nat k)).
Proof.
  intros d s k Hin Hfl Hsg Hk Hbits.
  rewrite decode_is_convention_value; [| assumption | unfold float_ok; rewrite Hfl; discriminate].
  unfold convention_value. rewrite Hfl, Hsg. cbn [andb].
  unfold unsigned_value.
  rewrite (bitsum_ext_lt _ (fun j => Nat.eqb j k) _ Hbits).
  rewrite bitsum_single by assumption. reflexivity.
Qed.

(* distinct significances of one signal have distinct physical coordinates *)
Lemma bit_coord_inj : forall le size i a b,
  bit_coord le size i a = bit_coord le size i b -> a = b.
Proof.
  intros le size i a b H. unfold bit_coord in H. destruct le.
  - apply coord_lsb0_inj in H. lia.
  - apply coord_msb0_inj in H. lia.
Qed.

Lemma ref_bit_range : forall le size sl, 1 <= size -> 0 <= ref_bit le size sl < size.
Proof. intros le size sl H. unfold ref_bit. destruct le, sl; lia. Qed.

(* set the signal's position to number sb in notation (bn, sl); if among the signal's own bits exactly the
   physical bit that sb denotes in the caller's numbering is set, the signal decodes to the weight of the bit
   the notation refers to: 2^(size-1) for the MSB, 1 for the LSB *)
Lemma denoted_bit_decodes_to_weight :
  forall d s sb bn sl i,
    bn_ok bn -> set_startbit (s_le s) (s_size s) sb bn sl = Some i -> s_start s = i ->
    inside (8 * zlen d) s = true -> s_float s = false -> s_signed s = false ->
    (forall j, (j < Z.to_nat (s_size s))%nat ->
        coord_bit d (bit_coord (s_le s) (s_size s) i (Z.of_nat j)) =
        (if coord_eqb (bit_coord (s_le s) (s_size s) i (Z.of_nat j)) (num_coord (eff_lsb0 (s_le s) bn) sb) then true else false)) ->
    decode_signal d (8 * zlen d) s = Some (RInt (2 ^ ref_bit (s_le s) (s_size s) sl)).
Proof.
  intros d s sb bn sl i Hbn Hset Hst Hin Hfl Hsg Hbits.
  pose proof (inside_spec _ _ Hin) as [H0 [H1 H2]].
  pose proof (ref_bit_range (s_le s) (s_size s) sl H1) as Hr.
  pose proof (set_denotes _ _ _ _ _ _ Hbn Hset) as Hden.
  rewrite Hden in Hbits.
  rewrite <- (Z2Nat.id (ref_bit (s_le s) (s_size s) sl)) at 1 by lia.
  apply single_bit_payload_decodes_to_weight; try assumption; [lia|].
  intros j Hj.
  rewrite sig_bit_is_coord_bit by (try assumption; lia).
  rewrite Hst. rewrite (Hbits j Hj).
  destruct (coord_eqb (bit_coord (s_le s) (s_size s) i (Z.of_nat j))
                      (bit_coord (s_le s) (s_size s) i (ref_bit (s_le s) (s_size s) sl))) eqn:E.
  - apply coord_eqb_eq in E. apply bit_coord_inj in E.
    symmetry. apply Nat.eqb_eq. lia.
  - symmetry. apply Nat.eqb_neq. intros Heq.
    assert (Hc : coord_eqb (bit_coord (s_le s) (s_size s) i (Z.of_nat j))
                      (bit_coord (s_le s) (s_size s) i (ref_bit (s_le s) (s_size s) sl)) = true).
    { apply coord_eqb_eq. f_equal. lia. }
    congruence.
Qed.

(* ---------- non-vacuity: concrete numbers ---------- *)

(* 3-byte payload, Motorola signal of width 12 set with sb = 7 in LSB0 numbering (bn = Some 1), sb naming the
   MSB (sl = false): internal start 0; only payload byte 0 bit 7 set decodes to 2^11 *)
Example denoted_bit_example_msb :
  let s := mkSignal 0 0 12 false false false in
  set_startbit (s_le s) (s_size s) 7 (Some 1) false = Some (s_start s) /\
  num_coord (eff_lsb0 (s_le s) (Some 1)) 7 = (0, 7) /\
  coord_bit [128; 0; 0] (0, 7) = true /\
  decode_signal [128; 0; 0] (8 * zlen [128; 0; 0]) s = Some (RInt (2 ^ 11)).
Proof. vm_compute. repeat split. Qed.

(* the same signal addressed by its LSB (sl = true): sb = 12 in LSB0 numbering denotes byte 1 bit 4, which
   carries weight 1 *)
Example denoted_bit_example_lsb :
  let s := mkSignal 0 0 12 false false false in
  set_startbit (s_le s) (s_size s) 12 (Some 1) true = Some (s_start s) /\
  num_coord (eff_lsb0 (s_le s) (Some 1)) 12 = (1, 4) /\
  coord_bit [0; 16; 0] (1, 4) = true /\
  decode_signal [0; 16; 0] (8 * zlen [0; 16; 0]) s = Some (RInt 1).
Proof. vm_compute. repeat split. Qed.

(* the general lemma instantiated on the first example (hypotheses discharged by computation) *)
Example denoted_bit_example_via_lemma :
  decode_signal [128; 0; 0] 24 (mkSignal 0 0 12 false false false) = Some (RInt (2 ^ 11)).
Proof.
  change 24 with (8 * zlen [128; 0; 0]).
  change 11 with (ref_bit (s_le (mkSignal 0 0 12 false false false)) (s_size (mkSignal 0 0 12 false false false)) false).
  apply (denoted_bit_decodes_to_weight [128; 0; 0] (mkSignal 0 0 12 false false false) 7 (Some 1) false 0).
  - right; right; reflexivity.
  - reflexivity.
  - reflexivity.
  - reflexivity.
  - reflexivity.
  - reflexivity.
  - intros j Hj. cbn [s_le s_size] in *.
    change (Z.to_nat 12) with 12%nat in Hj.
    do 12 (destruct j as [|j]; [vm_compute; reflexivity|]). lia.
Qed.
