(* C04 library: powers of ten and the digit-count specification of model/Decimal.v's ndigits. *)
From CM Require Import lib.Prelude model.Decimal.

Lemma p10_pos : forall k, 0 < 10 ^ k \/ k < 0.
Proof. intros k. destruct (Z_lt_le_dec k 0); [right; lia | left; apply Z.pow_pos_nonneg; lia]. Qed.

Lemma p10_gt0 : forall k, 0 <= k -> 0 < 10 ^ k.
Proof. intros; apply Z.pow_pos_nonneg; lia. Qed.

Lemma p10_ge1 : forall k, 0 <= k -> 1 <= 10 ^ k.
Proof. intros k H. pose proof (p10_gt0 k H). lia. Qed.

Lemma p10_add : forall a b, 0 <= a -> 0 <= b -> 10 ^ (a + b) = 10 ^ a * 10 ^ b.
Proof. intros; apply Z.pow_add_r; lia. Qed.

Lemma p10_succ : forall a, 0 <= a -> 10 ^ (a + 1) = 10 * 10 ^ a.
Proof. intros. rewrite p10_add by lia. change (10 ^ 1) with 10. lia. Qed.

Lemma p10_le : forall a b, 0 <= a <= b -> 10 ^ a <= 10 ^ b.
Proof. intros; apply Z.pow_le_mono_r; lia. Qed.

Lemma p10_lt : forall a b, 0 <= a < b -> 10 ^ a < 10 ^ b.
Proof. intros; apply Z.pow_lt_mono_r; lia. Qed.

Lemma p10_lt_inv : forall a b, 0 <= a -> 0 <= b -> 10 ^ a < 10 ^ b -> a < b.
Proof.
  intros a b Ha Hb H. destruct (Z_lt_le_dec a b) as [|Hle]; [assumption|].
  pose proof (p10_le b a ltac:(lia)). lia.
Qed.

Lemma p10_split : forall a b, 0 <= b <= a -> 10 ^ a = 10 ^ (a - b) * 10 ^ b.
Proof. intros. rewrite <- p10_add by lia. f_equal. lia. Qed.

(* ---------- ndigits ---------- *)

Lemma log2_div10 : forall n, 10 <= n -> Z.log2 (n / 10) < Z.log2 n.
Proof.
  intros n Hn.
  assert (H1 : n / 10 <= n / 2) by (apply Z.div_le_compat_l; lia).
  assert (H2 : Z.log2 (n / 10) <= Z.log2 (n / 2)) by (apply Z.log2_le_mono; exact H1).
  assert (H3 : Z.log2 (n / 2) = Z.log2 n - 1).
  { rewrite <- Z.div2_div. rewrite Z.div2_spec. rewrite Z.log2_shiftr by lia.
    pose proof (Z.log2_nonneg n). assert (1 <= Z.log2 n).
    { apply Z.log2_le_pow2; [lia|]. change (2 ^ 1) with 2. lia. }
    lia. }
  lia.
Qed.

Lemma ndigits_fuel_spec : forall fuel n, 0 < n -> Z.log2 n <= Z.of_nat fuel ->
  1 <= ndigits_fuel fuel n /\ 10 ^ (ndigits_fuel fuel n - 1) <= n < 10 ^ (ndigits_fuel fuel n).
Proof.
  induction fuel as [|f IH]; intros n Hn Hl.
  - cbn [ndigits_fuel]. assert (Z.log2 n = 0) by (pose proof (Z.log2_nonneg n); lia).
    assert (n < 2). { destruct (Z_lt_le_dec n 2); [assumption|].
      assert (1 <= Z.log2 n) by (apply Z.log2_le_pow2; [lia|]; change (2 ^ 1) with 2; lia). lia. }
    change (10 ^ (1 - 1)) with 1. change (10 ^ 1) with 10. lia.
  - cbn [ndigits_fuel]. destruct (n <? 10) eqn:E.
    + change (10 ^ (1 - 1)) with 1. change (10 ^ 1) with 10. lia.
    + assert (H10 : 10 <= n) by lia.
      pose proof (log2_div10 n H10) as Hlog.
      destruct (IH (n / 10)) as [Hp [Hlo Hhi]].
      * assert (1 <= n / 10) by (apply Z.div_le_lower_bound; lia). lia.
      * lia.
      * set (d := ndigits_fuel f (n / 10)) in *.
        split; [lia|].
        replace (1 + d - 1) with ((d - 1) + 1) by lia. rewrite p10_succ by lia.
        replace (1 + d) with (d + 1) by lia. rewrite p10_succ by lia.
        pose proof (Z.div_mod n 10 ltac:(lia)). pose proof (Z.mod_pos_bound n 10 ltac:(lia)). lia.
Qed.

Lemma ndigits_abs : forall n, ndigits (Z.abs n) = ndigits n.
Proof. intros. unfold ndigits. rewrite Z.abs_involutive. reflexivity. Qed.

Lemma ndigits_opp : forall n, ndigits (- n) = ndigits n.
Proof. intros. unfold ndigits. rewrite Z.abs_opp. reflexivity. Qed.

Lemma ndigits_0 : ndigits 0 = 1.
Proof. reflexivity. Qed.

Lemma ndigits_spec : forall n, n <> 0 ->
  1 <= ndigits n /\ 10 ^ (ndigits n - 1) <= Z.abs n < 10 ^ (ndigits n).
Proof.
  intros n Hn. unfold ndigits. apply ndigits_fuel_spec; [lia|].
  rewrite Z2Nat.id; [lia | apply Z.log2_nonneg].
Qed.

Lemma ndigits_ge1 : forall n, 1 <= ndigits n.
Proof. intros n. destruct (Z.eq_dec n 0) as [->|H]; [rewrite ndigits_0; lia | apply ndigits_spec; assumption]. Qed.

Lemma ndigits_unique : forall n k, 1 <= k -> 10 ^ (k - 1) <= Z.abs n < 10 ^ k -> ndigits n = k.
Proof.
  intros n k Hk [Hlo Hhi].
  assert (Hn : n <> 0). { intro; subst. pose proof (p10_gt0 (k - 1) ltac:(lia)). cbn in Hlo. lia. }
  destruct (ndigits_spec n Hn) as [H1 [H2 H3]]. set (d := ndigits n) in *.
  assert (d - 1 < k) by (apply p10_lt_inv; lia).
  assert (k - 1 < d) by (apply p10_lt_inv; lia). lia.
Qed.

(* |n| < 10^k  <->  at most k digits *)
Lemma ndigits_le_iff : forall n k, 1 <= k -> (ndigits n <= k <-> Z.abs n < 10 ^ k).
Proof.
  intros n k Hk. destruct (Z.eq_dec n 0) as [->|Hn].
  - rewrite ndigits_0. cbn [Z.abs]. pose proof (p10_gt0 k ltac:(lia)). lia.
  - destruct (ndigits_spec n Hn) as [H1 [H2 H3]]. set (d := ndigits n) in *. split; intro H.
    + pose proof (p10_le d k ltac:(lia)). lia.
    + destruct (Z_lt_le_dec k d); [|lia]. pose proof (p10_le k (d - 1) ltac:(lia)). lia.
Qed.

Lemma ndigits_mono : forall a b, Z.abs a <= Z.abs b -> ndigits a <= ndigits b.
Proof.
  intros a b H. destruct (Z.eq_dec b 0) as [->|Hb].
  - assert (a = 0) by lia. subst. lia.
  - destruct (ndigits_spec b Hb) as [H1 [H2 H3]]. apply ndigits_le_iff; lia.
Qed.

(* multiplying by 10^k appends k digits *)
Lemma ndigits_mul_p10 : forall n k, n <> 0 -> 0 <= k -> ndigits (n * 10 ^ k) = ndigits n + k.
Proof.
  intros n k Hn Hk. destruct (ndigits_spec n Hn) as [H1 [H2 H3]]. set (d := ndigits n) in *.
  pose proof (p10_gt0 k Hk) as Hp.
  apply ndigits_unique; [lia|]. rewrite Z.abs_mul. rewrite (Z.abs_eq (10 ^ k)) by lia.
  replace (d + k - 1) with ((d - 1) + k) by lia. rewrite !p10_add by lia. nia.
Qed.
