(* C15: printing a well-formed rendering and parsing it back gives the denoted (sign, coefficient, exponent);
   respelling rules keep the value; value equality is an equivalence. *)
From CM Require Import lib.Prelude model.Readers.

(* ---------------- digits ---------------- *)
Lemma is_digit_print : forall d, digit_ok d -> is_digit (d + 48) = true.
Proof. intros d Hd. unfold digit_ok in Hd. unfold is_digit. lia. Qed.

Definition head_nondigit (s : list Z) : Prop := match s with c :: _ => is_digit c = false | [] => True end.

Lemma take_digits_print : forall ds rest, Forall digit_ok ds -> head_nondigit rest ->
  take_digits (print_digits ds ++ rest) = (ds, rest).
Proof.
  induction ds as [|d ds IH]; intros rest Hds Hrest.
  - cbn [print_digits map app]. destruct rest as [|c r]; [reflexivity|]. cbn [take_digits]. cbn in Hrest. rewrite Hrest. reflexivity.
  - inversion Hds as [|x l Hd Hl]; subst. cbn [print_digits map app take_digits].
    rewrite (is_digit_print d Hd). fold (print_digits ds). rewrite (IH rest Hl Hrest).
    replace (d + 48 - 48) with d by lia. reflexivity.
Qed.

Lemma digits_val_app1 : forall ds a d, digits_val a (ds ++ [d]) = 10 * digits_val a ds + d.
Proof. induction ds as [|x ds IH]; intros a d; cbn [app digits_val]; [reflexivity| apply IH]. Qed.

Lemma digits_val_lead0 : forall ds, digits_val 0 (0 :: ds) = digits_val 0 ds.
Proof. intros ds. cbn [digits_val]. reflexivity. Qed.

(* ---------------- sign ---------------- *)
Definition head_nonsign (s : list Z) : Prop := match s with c :: _ => c <> c_plus /\ c <> c_minus | [] => False end.

Lemma parse_sign_nonsign : forall s, head_nonsign s -> parse_sign s = (false, s).
Proof.
  intros [|c r] H; [destruct H|]. cbn in H. destruct H as [H1 H2]. cbn [parse_sign].
  destruct (c =? c_plus) eqn:E1; [lia|]. destruct (c =? c_minus) eqn:E2; [lia|]. reflexivity.
Qed.

Lemma parse_sign_print : forall sg rest, head_nonsign rest -> parse_sign (print_sign sg ++ rest) = (is_minus sg, rest).
Proof.
  intros sg rest H. destruct sg; cbn [print_sign app is_minus].
  - apply parse_sign_nonsign; exact H.
  - reflexivity.
  - reflexivity.
Qed.

Lemma head_nonsign_digits : forall ds rest, Forall digit_ok ds -> ds <> [] -> head_nonsign (print_digits ds ++ rest).
Proof.
  intros [|d ds] rest Hds Hne; [congruence|]. inversion Hds as [|x l Hd Hl]; subst. cbn. unfold digit_ok in Hd. unfold c_plus, c_minus. lia.
Qed.

(* ---------------- print / parse ---------------- *)
Lemma dec_eq3 : forall (n n' : bool) (m m' e e' : Z), n = n' -> m = m' -> e = e' -> (n, m, e) = (n', m', e').
Proof. intros; subst; reflexivity. Qed.


Lemma head_nondigit_exp : forall x, head_nondigit (print_exp x).
Proof. intros [|up es ed]; cbn; [exact I|]. destruct up; reflexivity. Qed.

Theorem parse_print : forall r, rend_ok r -> parse_dec (print r) = Some (rend_dec r).
Proof.
  intros [sg ip dot fp x] (Hip & Hfp & Hdot & Hne & Hx). cbn [r_sign r_ip r_dot r_fp r_exp] in *.
  unfold parse_dec, print, rend_dec. cbn [r_sign r_ip r_dot r_fp r_exp].
  (* the text after the sign starts with a digit or the point *)
  assert (Hhead : head_nonsign (print_digits ip ++ (if dot then [c_dot] else []) ++ print_digits fp ++ print_exp x)).
  { destruct ip as [|d ip'].
    - cbn [print_digits map app]. destruct dot.
      + cbn. unfold c_dot, c_plus, c_minus. lia.
      + exfalso. rewrite (Hdot eq_refl) in Hne. apply Hne. reflexivity.
    - apply head_nonsign_digits; [exact Hip|discriminate]. }
  rewrite (parse_sign_print sg _ Hhead).
  assert (Hnd : head_nondigit ((if dot then [c_dot] else []) ++ print_digits fp ++ print_exp x)).
  { destruct dot.
    - cbn. reflexivity.
    - rewrite (Hdot eq_refl). cbn [print_digits map app]. apply head_nondigit_exp. }
  rewrite (take_digits_print ip _ Hip Hnd).
  assert (Hfrac : (match (if dot then [c_dot] else []) ++ print_digits fp ++ print_exp x with
                   | c :: r => if c =? c_dot then take_digits r else ([], (if dot then [c_dot] else []) ++ print_digits fp ++ print_exp x)
                   | [] => ([], (if dot then [c_dot] else []) ++ print_digits fp ++ print_exp x)
                   end) = (fp, print_exp x)).
  { destruct dot.
    - cbn [app]. replace (c_dot =? c_dot) with true by reflexivity.
      apply take_digits_print; [exact Hfp | apply head_nondigit_exp].
    - rewrite (Hdot eq_refl). cbn [print_digits map app].
      destruct x as [|up es ed]; cbn [print_exp]; [reflexivity|]. destruct up; reflexivity. }
  rewrite Hfrac.
  destruct (ip ++ fp) as [|d0 rest0] eqn:Hcat; [exfalso; apply Hne; reflexivity|]. rewrite <- Hcat.
  destruct x as [|up es ed].
  - cbn [print_exp]. reflexivity.
  - cbn [print_exp]. destruct Hx as [Hed Hedne].
    assert (HE : ((if up then c_E else c_e) =? c_E) || ((if up then c_E else c_e) =? c_e) = true) by (destruct up; reflexivity).
    rewrite HE.
    assert (Hs : parse_sign (print_sign es ++ print_digits ed) = (is_minus es, print_digits ed)).
    { rewrite <- (app_nil_r (print_digits ed)) at 1. rewrite (parse_sign_print es); [rewrite app_nil_r; reflexivity|].
      apply head_nonsign_digits; assumption. }
    rewrite Hs.
    assert (Ht : take_digits (print_digits ed) = (ed, [])).
    { rewrite <- (app_nil_r (print_digits ed)). apply take_digits_print; [exact Hed| exact I]. }
    rewrite Ht. destruct ed as [|e0 ed']; [congruence|]. reflexivity.
Qed.

(* ---------------- value equality ---------------- *)
Lemma pow10_pos : forall n, 0 <= n -> 0 < 10 ^ n.
Proof. intros n Hn. apply Z.pow_pos_nonneg; lia. Qed.

Lemma value_eq_at : forall a b E, E <= dec_exp a -> E <= dec_exp b ->
  (dec_value_eq a b <-> dec_signed a * 10 ^ (dec_exp a - E) = dec_signed b * 10 ^ (dec_exp b - E)).
Proof.
  intros a b E Ha Hb. unfold dec_value_eq.
  set (m := Z.min (dec_exp a) (dec_exp b)).
  assert (Hm : E <= m) by (unfold m; lia).
  assert (Hma : m <= dec_exp a) by (unfold m; lia).
  assert (Hmb : m <= dec_exp b) by (unfold m; lia).
  replace (dec_exp a - E) with ((dec_exp a - m) + (m - E)) by lia.
  replace (dec_exp b - E) with ((dec_exp b - m) + (m - E)) by lia.
  rewrite !Z.pow_add_r by lia.
  pose proof (pow10_pos (m - E) ltac:(lia)) as HK.
  set (K := 10 ^ (m - E)) in *.
  set (X := dec_signed a * 10 ^ (dec_exp a - m)).
  set (Y := dec_signed b * 10 ^ (dec_exp b - m)).
  rewrite !Z.mul_assoc. fold X. fold Y.
  split.
  - intros H. rewrite H. reflexivity.
  - intros H. apply Z.mul_cancel_r in H; [exact H|lia].
Qed.

Lemma dec_value_eq_refl : forall a, dec_value_eq a a.
Proof. intros a. unfold dec_value_eq. reflexivity. Qed.

Lemma dec_value_eq_sym : forall a b, dec_value_eq a b -> dec_value_eq b a.
Proof. intros a b H. unfold dec_value_eq in *. rewrite (Z.min_comm (dec_exp b) (dec_exp a)). symmetry. exact H. Qed.

Lemma dec_value_eq_trans : forall a b c, dec_value_eq a b -> dec_value_eq b c -> dec_value_eq a c.
Proof.
  intros a b c Hab Hbc.
  set (E := Z.min (dec_exp a) (Z.min (dec_exp b) (dec_exp c))).
  assert (Ea : E <= dec_exp a) by (unfold E; lia).
  assert (Eb : E <= dec_exp b) by (unfold E; lia).
  assert (Ec : E <= dec_exp c) by (unfold E; lia).
  apply (value_eq_at a b E Ea Eb) in Hab.
  apply (value_eq_at b c E Eb Ec) in Hbc.
  apply (value_eq_at a c E Ea Ec). congruence.
Qed.

Lemma dec_value_eqb_spec : forall a b, dec_value_eqb a b = true <-> dec_value_eq a b.
Proof. intros a b. unfold dec_value_eqb, dec_value_eq. apply Z.eqb_eq. Qed.

(* ---------------- respelling keeps the value ---------------- *)
Lemma of_nat_len_cons : forall (d : Z) (l : list Z), Z.of_nat (length (d :: l)) = Z.of_nat (length l) + 1.
Proof. intros d l. cbn [length]. lia. Qed.

Lemma of_nat_len_app1 : forall (d : Z) (l : list Z), Z.of_nat (length (l ++ [d])) = Z.of_nat (length l) + 1.
Proof. intros d l. rewrite app_length. cbn [length]. lia. Qed.

Lemma respell_value : forall a b, respell a b -> dec_value_eq (rend_dec a) (rend_dec b).
Proof.
  intros a b H. destruct H; unfold rend_dec; cbn [r_sign r_ip r_dot r_fp r_exp is_minus].
  - apply dec_value_eq_refl.
  - cbn [app]. rewrite digits_val_lead0. apply dec_value_eq_refl.
  - apply dec_value_eq_refl.
  - (* trailing zero: coefficient * 10, exponent - 1 *)
    rewrite app_assoc. rewrite digits_val_app1. rewrite of_nat_len_app1.
    set (m := digits_val 0 (ip ++ fp)).
    set (X := match x with ENone => 0 | EExp _ es ed => if is_minus es then - digits_val 0 ed else digits_val 0 ed end).
    set (n := Z.of_nat (length fp)).
    apply (value_eq_at _ _ (X - (n + 1))); cbn [dec_exp dec_signed]; try lia.
    replace (X - n - (X - (n + 1))) with 1 by lia.
    replace (X - (n + 1) - (X - (n + 1))) with 0 by lia.
    rewrite Z.pow_1_r, Z.pow_0_r. destruct (is_minus s); lia.
  - replace (if is_minus es then - digits_val 0 ed else digits_val 0 ed) with 0 by (rewrite H; destruct (is_minus es); reflexivity).
    apply dec_value_eq_refl.
  - rewrite H. apply dec_value_eq_refl.
  - apply dec_value_eq_refl.
  - rewrite <- app_assoc. cbn [app]. rewrite H. rewrite H0. rewrite of_nat_len_cons.
    match goal with |- dec_value_eq ?p ?q => replace q with p; [apply dec_value_eq_refl|] end.
    apply dec_eq3; [reflexivity|reflexivity|lia].
  - rewrite <- app_assoc. cbn [app]. rewrite H. rewrite of_nat_len_cons.
    match goal with |- dec_value_eq ?p ?q => replace q with p; [apply dec_value_eq_refl|] end.
    apply dec_eq3; [reflexivity|reflexivity|lia].
  - rewrite H. apply dec_value_eq_refl.
Qed.

Lemma same_number_ok : forall a b, same_number a b -> rend_ok a /\ rend_ok b.
Proof.
  intros a b H. induction H as [r Hr|a b Ha Hb _|a b _ IH|a b c _ IH1 _ IH2].
  - split; assumption.
  - split; assumption.
  - destruct IH; split; assumption.
  - destruct IH1, IH2; split; assumption.
Qed.

Lemma same_number_value : forall a b, same_number a b -> dec_value_eq (rend_dec a) (rend_dec b).
Proof.
  intros a b H. induction H as [r Hr|a b Ha Hb Hs|a b _ IH|a b c _ IH1 _ IH2].
  - apply dec_value_eq_refl.
  - apply respell_value; exact Hs.
  - apply dec_value_eq_sym; exact IH.
  - eapply dec_value_eq_trans; eassumption.
Qed.

Theorem number_renderings_equivalent : forall a b, same_number a b ->
  exists va vb, parse_dec (print a) = Some va /\ parse_dec (print b) = Some vb /\ dec_value_eq va vb.
Proof.
  intros a b H. destruct (same_number_ok a b H) as [Ha Hb].
  exists (rend_dec a), (rend_dec b). repeat split.
  - apply parse_print; exact Ha.
  - apply parse_print; exact Hb.
  - apply same_number_value; exact H.
Qed.

(* ---------------- decode_number on renderings with a point ---------------- *)
Definition plain_char (c : Z) : Prop := is_space c = false /\ c <> 105.

Lemma drop_ws_plain : forall s, Forall plain_char s -> drop_ws s = s.
Proof. intros [|c r] H; [reflexivity|]. inversion H as [|x l [Hc _] Hl]; subst. cbn [drop_ws]. rewrite Hc. reflexivity. Qed.

Lemma strip_plain : forall s, Forall plain_char s -> strip s = s.
Proof.
  intros s H. unfold strip. rewrite (drop_ws_plain s H).
  rewrite (drop_ws_plain (rev s)); [apply rev_involutive|].
  apply Forall_rev; exact H.
Qed.

Lemma plain_digits : forall ds, Forall digit_ok ds -> Forall plain_char (print_digits ds).
Proof.
  intros ds H. unfold print_digits. apply Forall_map. eapply Forall_impl; [|exact H].
  intros d Hd. unfold digit_ok in Hd. unfold plain_char, is_space. split; lia.
Qed.

Lemma plain_sign : forall sg, Forall plain_char (print_sign sg).
Proof. intros [ | | ]; cbn; repeat constructor; unfold is_space, c_plus, c_minus; lia. Qed.

Lemma plain_print : forall r, rend_ok r -> Forall plain_char (print r).
Proof.
  intros [sg ip dot fp x] (Hip & Hfp & Hdot & Hne & Hx). cbn [r_sign r_ip r_dot r_fp r_exp] in *. unfold print. cbn [r_sign r_ip r_dot r_fp r_exp].
  apply Forall_app; split; [|apply Forall_app; split; [|apply Forall_app; split; [|apply Forall_app; split]]].
  - apply plain_sign.
  - apply plain_digits; exact Hip.
  - destruct dot; repeat constructor; unfold is_space, c_dot; lia.
  - apply plain_digits; exact Hfp.
  - destruct x as [|up es ed]; cbn [print_exp]; [constructor|]. destruct Hx as [Hed _]. constructor.
    + destruct up; unfold plain_char, is_space, c_E, c_e; split; lia.
    + apply Forall_app; split; [apply plain_sign|apply plain_digits; exact Hed].
Qed.

Lemma existsb_dot_print : forall r, r_dot r = true -> mem_c c_dot (print r) = true.
Proof.
  intros [sg ip dot fp x] H. cbn in H. subst dot. unfold print, mem_c. cbn [r_sign r_ip r_dot r_fp r_exp].
  rewrite !existsb_app. cbn [existsb]. replace (c_dot =? c_dot) with true by reflexivity.
  cbn [orb]. rewrite !orb_true_r. reflexivity.
Qed.

Lemma leqb_c_eq : forall a b, leqb_c a b = true -> a = b.
Proof.
  induction a as [|x a IH]; intros [|y b] H; cbn [leqb_c] in H; try discriminate; [reflexivity|].
  apply andb_true_iff in H. destruct H as [H1 H2]. apply Z.eqb_eq in H1. subst y. f_equal. apply IH; exact H2.
Qed.

Lemma mem_dot_lower : forall s, mem_c c_dot s = true -> mem_c c_dot (lower s) = true.
Proof.
  unfold mem_c, lower. induction s as [|c r IH]; intros H; [discriminate|]. cbn [map existsb] in *.
  apply orb_true_iff in H. destruct H as [H|H].
  - apply Z.eqb_eq in H. subst c. reflexivity.
  - rewrite (IH H). apply orb_true_r.
Qed.

Lemma not_inf_with_dot : forall s t, mem_c c_dot s = true -> mem_c c_dot t = false -> leqb_c (lower s) t = false.
Proof.
  intros s t Hs Ht. destruct (leqb_c (lower s) t) eqn:E; [|reflexivity].
  apply leqb_c_eq in E. rewrite <- E in Ht. rewrite (mem_dot_lower s Hs) in Ht. discriminate.
Qed.

(* with a decimal point the text goes to the float factory (Decimal): decode_number agrees with parse_dec *)
Theorem decode_number_print_dot : forall r, rend_ok r -> r_dot r = true ->
  decode_number (print r) = Some (NDec (rend_dec r)).
Proof.
  intros r Hok Hdot. unfold decode_number.
  rewrite (strip_plain _ (plain_print r Hok)).
  pose proof (existsb_dot_print r Hdot) as Hmem.
  rewrite (not_inf_with_dot (print r) s_inf Hmem eq_refl).
  rewrite (not_inf_with_dot (print r) (c_plus :: s_inf) Hmem eq_refl).
  rewrite (not_inf_with_dot (print r) (c_minus :: s_inf) Hmem eq_refl).
  cbn [orb]. rewrite Hmem. rewrite (parse_print r Hok). reflexivity.
Qed.

(* ---------------- a derivation: 0.001 ~ 1E-3 ~ 1.0e-03 ---------------- *)
Ltac rend_ok_tac := unfold rend_ok; cbn; repeat split; repeat constructor; unfold digit_ok; try lia; try discriminate.
Ltac step_fwd R := eapply sn_trans; [eapply sn_step; [ | |R]; rend_ok_tac|].
Ltac step_bwd R := eapply sn_trans; [apply sn_sym; eapply sn_step; [ | |R]; rend_ok_tac|].

Lemma related_0_001_1E_3 :
  same_number (mkRend SNone [0] true [0; 0; 1] ENone) (mkRend SNone [1] false [] (EExp true SMinus [3])).
Proof.
  (* 0.001 ~ 0.001E-0 *)
  step_fwd ltac:(apply (rs_exp_zero SNone [0] true [0; 0; 1] true SMinus [0]); reflexivity).
  (* 0.001E-0 ~ 00.01E-1 ~ 000.1E-2 ~ 0001.E-3 : the point moves right, read rs_shift_neg from right to left *)
  step_bwd ltac:(apply (rs_shift_neg SNone [0] 0 [0; 1] true [1] [0]); reflexivity).
  step_bwd ltac:(apply (rs_shift_neg SNone [0; 0] 0 [1] true [2] [1]); reflexivity).
  step_bwd ltac:(apply (rs_shift_neg SNone [0; 0; 0] 1 [] true [3] [2]); reflexivity).
  (* drop the leading zeros and the bare point *)
  step_bwd ltac:(apply (rs_lead_zero SNone [0; 0; 1] true [] (EExp true SMinus [3]))).
  step_bwd ltac:(apply (rs_lead_zero SNone [0; 1] true [] (EExp true SMinus [3]))).
  step_bwd ltac:(apply (rs_lead_zero SNone [1] true [] (EExp true SMinus [3]))).
  apply sn_sym. apply sn_step; [rend_ok_tac|rend_ok_tac|]. apply rs_dot.
Qed.

Lemma related_1E_3_10e_03 :
  same_number (mkRend SNone [1] false [] (EExp true SMinus [3])) (mkRend SNone [1] true [0] (EExp false SMinus [0; 3])).
Proof.
  step_fwd ltac:(apply rs_dot).
  step_fwd ltac:(apply (rs_trail_zero SNone [1] [] (EExp true SMinus [3]))).
  apply sn_step; [rend_ok_tac|rend_ok_tac|]. apply rs_exp_case. reflexivity.
Qed.
