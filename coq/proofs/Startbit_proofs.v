From CM Require Import lib.Prelude model.Startbit.

Lemma flip_div b : flip b / 8 = b / 8.
Proof. unfold flip. lia. Qed.
Lemma flip_mod b : flip b mod 8 = 7 - b mod 8.
Proof. unfold flip. lia. Qed.
Lemma flip_flip b : flip (flip b) = b.
Proof. unfold flip. lia. Qed.
Lemma flip_coord b : coord_lsb0 (flip b) = coord_msb0 b.
Proof. unfold coord_lsb0, coord_msb0. now rewrite flip_div, flip_mod. Qed.
Lemma flip_coord' b : coord_msb0 (flip b) = coord_lsb0 b.
Proof. rewrite <- (flip_flip b) at 2. now rewrite flip_coord. Qed.

Definition bn_ok (bn : option Z) : Prop := bn = None \/ bn = Some 0 \/ bn = Some 1.

Lemma get_after_set le size sb bn sl i :
  set_startbit le size sb bn sl = Some i -> get_startbit le size i bn sl = sb.
Proof.
  unfold set_startbit, get_startbit. intros H.
  destruct (numbering_differs bn le), (sl && negb le); cbv beta iota zeta in *;
    case_if; try discriminate; inversion H; subst; clear H;
    rewrite ?flip_flip; try lia.
  replace (flip sb + 1 - size + size - 1) with (flip sb) by lia. apply flip_flip.
Qed.

Lemma set_after_get le size i bn sl :
  0 <= i -> set_startbit le size (get_startbit le size i bn sl) bn sl = Some i.
Proof.
  unfold set_startbit, get_startbit. intros H.
  destruct (numbering_differs bn le), (sl && negb le); cbv beta iota zeta;
    rewrite ?flip_flip; case_if; try lia; f_equal; lia.
Qed.

(* the number a caller passes denotes, in the caller's numbering, the referenced bit of the signal *)
Lemma set_denotes le size sb bn sl i :
  bn_ok bn ->
  set_startbit le size sb bn sl = Some i ->
  num_coord (eff_lsb0 le bn) sb = bit_coord le size i (ref_bit le size sl).
Proof.
  unfold set_startbit, bit_coord, ref_bit, num_coord, eff_lsb0, numbering_differs.
  intros Hbn H.
  destruct Hbn as [-> | [-> | ->]]; destruct le, sl; cbn in *;
    case_if; try discriminate; inversion H; subst; clear H;
    rewrite ?Z.add_0_r, ?flip_coord, ?flip_coord'; try reflexivity;
    try (f_equal; lia).
  all: try (rewrite <- flip_coord; f_equal; lia).
  all: try (rewrite <- flip_coord'; f_equal; lia).
Qed.

Lemma get_denotes le size i bn sl :
  bn_ok bn ->
  num_coord (eff_lsb0 le bn) (get_startbit le size i bn sl) = bit_coord le size i (ref_bit le size sl).
Proof.
  unfold get_startbit, bit_coord, ref_bit, num_coord, eff_lsb0, numbering_differs.
  intros Hbn.
  destruct Hbn as [-> | [-> | ->]]; destruct le, sl; cbn;
    rewrite ?Z.add_0_r, ?flip_coord, ?flip_coord'; try reflexivity; try (f_equal; lia).
Qed.

(* set in notation A, query in notation B: B's number of the bit B refers to, of the same signal *)
Lemma cross_notation le size sb bnA slA bnB slB i :
  bn_ok bnA -> bn_ok bnB ->
  set_startbit le size sb bnA slA = Some i ->
  num_coord (eff_lsb0 le bnA) sb = bit_coord le size i (ref_bit le size slA) /\
  num_coord (eff_lsb0 le bnB) (get_startbit le size i bnB slB) = bit_coord le size i (ref_bit le size slB).
Proof. intros HA HB H. split; [eapply set_denotes; eauto | apply get_denotes; auto]. Qed.

(* the converted position: what set_startbit would store *)
Definition converted (le : bool) (size sb : Z) (bn : option Z) (sl : bool) : Z :=
  let sb1 := if numbering_differs bn le then flip sb else sb in
  if sl && negb le then sb1 + 1 - size else sb1.

Lemma set_rejects_negative le size sb bn sl :
  (set_startbit le size sb bn sl = None <-> converted le size sb bn sl < 0) /\
  (forall i, set_startbit le size sb bn sl = Some i -> i = converted le size sb bn sl /\ 0 <= i).
Proof.
  unfold set_startbit. fold (converted le size sb bn sl).
  generalize (converted le size sb bn sl) as c. intros c.
  destruct (c <? 0) eqn:Hc.
  - split; [split; intros; [lia | reflexivity] | intros i H; discriminate].
  - split; [split; intros; [discriminate | lia] | intros i H; inversion H; subst; split; [reflexivity | lia]].
Qed.

(* coordinates are injective: a number denotes one physical bit and a physical bit has one number *)
Lemma coord_lsb0_inj a b : coord_lsb0 a = coord_lsb0 b -> a = b.
Proof.
  unfold coord_lsb0. intros H.
  pose proof (f_equal fst H) as H1; pose proof (f_equal snd H) as H2; cbn [fst snd] in *; clear H. lia.
Qed.
Lemma coord_msb0_inj a b : coord_msb0 a = coord_msb0 b -> a = b.
Proof.
  unfold coord_msb0. intros H.
  pose proof (f_equal fst H) as H1; pose proof (f_equal snd H) as H2; cbn [fst snd] in *; clear H. lia.
Qed.

(* Intel: start_little is irrelevant *)
Lemma intel_ignores_start_little size sb bn sl sl' i :
  set_startbit true size sb bn sl = set_startbit true size sb bn sl' /\
  get_startbit true size i bn sl = get_startbit true size i bn sl'.
Proof. unfold set_startbit, get_startbit. rewrite !andb_false_r. split; reflexivity. Qed.

(* non-vacuity *)
Example set_denotes_example :
  set_startbit false 12 7 (Some 1) false = Some 0 /\
  get_startbit false 12 0 (Some 1) true = 11 + 8 - 7 + 8 - 8 - 4 + 4 (* = 12 *) /\
  bit_coord false 12 0 11 = (0, 7) /\ bit_coord false 12 0 0 = (1, 4).
Proof. vm_compute. repeat split. Qed.
