(* C18: the stage order of convert() (model/Convert.v, Part C), for every choice of the operations. *)
From Coq Require Import Permutation.
From CM Require Import lib.Prelude model.Glob model.Convert proofs.Glob_proofs proofs.C18_parse proofs.C18_direct.

Lemma okind_code_inj : forall a b, okind_code a = okind_code b -> a = b.
Proof. intros a b H. destruct a; destruct b; try reflexivity; cbn in H; discriminate. Qed.

Lemma okind_eqb_eq : forall a b, okind_eqb a b = true <-> a = b.
Proof.
  intros a b. unfold okind_eqb. rewrite Z.eqb_eq. split; [apply okind_code_inj|intros ->; reflexivity].
Qed.
Lemma okind_eqb_refl : forall a, okind_eqb a a = true.
Proof. intros a. apply okind_eqb_eq. reflexivity. Qed.

(* ---------- a command line as a finite map ---------- *)
Lemma given_some_in : forall k cl a, given k cl = Some a -> In (k, a) cl.
Proof.
  intros k cl. induction cl as [|[k' a'] r IH]; intros a H; [discriminate|].
  cbn [given] in H. destruct (okind_eqb k' k) eqn:E.
  - apply okind_eqb_eq in E. inversion H; subst. left. reflexivity.
  - right. apply IH. exact H.
Qed.
Lemma given_none_notin : forall k cl, given k cl = None -> forall a, ~ In (k, a) cl.
Proof.
  intros k cl. induction cl as [|[k' a'] r IH]; intros H a Hin; [destruct Hin|].
  cbn [given] in H. destruct (okind_eqb k' k) eqn:E; [discriminate|].
  destruct Hin as [Hin|Hin].
  - inversion Hin; subst. rewrite okind_eqb_refl in E. discriminate.
  - exact (IH H a Hin).
Qed.
Lemma in_once_given : forall k cl a, once cl -> In (k, a) cl -> given k cl = Some a.
Proof.
  intros k cl. induction cl as [|[k' a'] r IH]; intros a Ho Hin; [destruct Hin|].
  unfold once in Ho. cbn [map fst] in Ho. inversion Ho as [|? ? Hn Hr]; subst.
  cbn [given]. destruct Hin as [Hin|Hin].
  - inversion Hin; subst. rewrite okind_eqb_refl. reflexivity.
  - destruct (okind_eqb k' k) eqn:E; [|apply IH; assumption].
    apply okind_eqb_eq in E. subst k'. exfalso. apply Hn.
    exact (in_map (fun p : okind * str => okind_code (fst p)) r (k, a) Hin).
Qed.

Lemma once_perm : forall cl cl', once cl -> Permutation cl cl' -> once cl'.
Proof.
  intros cl cl' Ho Hp. unfold once in *. eapply Permutation_NoDup; [|exact Ho].
  apply Permutation_map. exact Hp.
Qed.

Lemma given_perm : forall k cl cl', once cl -> Permutation cl cl' -> given k cl = given k cl'.
Proof.
  intros k cl cl' Ho Hp. destruct (given k cl) as [a|] eqn:G.
  - symmetry. apply in_once_given; [eapply once_perm; eauto|].
    eapply Permutation_in; [exact Hp|]. apply given_some_in. exact G.
  - destruct (given k cl') as [a'|] eqn:G'; [|reflexivity].
    exfalso. apply (given_none_notin _ _ G a'). eapply Permutation_in; [apply Permutation_sym; exact Hp|].
    apply given_some_in. exact G'.
Qed.

Lemma active_perm : forall k cl cl', once cl -> Permutation cl cl' -> active k cl = active k cl'.
Proof. intros k cl cl' Ho Hp. unfold active. rewrite (given_perm k cl cl' Ho Hp). reflexivity. Qed.

(* ---------- the stages depend on the command line only through `active` ---------- *)
Lemma run_stages_ext : forall (M : Type) (O : ops M) ks cl cl' m,
  (forall k, active k cl = active k cl') -> run_stages O ks cl m = run_stages O ks cl' m.
Proof.
  intros M O ks cl cl' m H. revert m. induction ks as [|k r IH]; intros m; [reflexivity|].
  cbn [run_stages]. rewrite <- H. destruct (active k cl); [|apply IH].
  destruct (stage O k s m); [cbn [obind]; apply IH|reflexivity].
Qed.
Lemma select_ext3 : forall (M : Type) (O : ops M) cl cl' m,
  active KEcus cl = active KEcus cl' -> active KFrames cl = active KFrames cl' -> active KSignals cl = active KSignals cl' ->
  select O cl m = select O cl' m.
Proof. intros M O cl cl' m H1 H2 H3. unfold select. rewrite H1, H2, H3. reflexivity. Qed.
Lemma select_ext : forall (M : Type) (O : ops M) cl cl' m,
  (forall k, active k cl = active k cl') -> select O cl m = select O cl' m.
Proof. intros M O cl cl' m H. apply select_ext3; apply H. Qed.
Lemma pipeline_ext : forall (M : Type) (O : ops M) cl cl' m,
  (forall k, active k cl = active k cl') -> pipeline O cl m = pipeline O cl' m.
Proof.
  intros M O cl cl' m H. unfold pipeline, pdu_flag. rewrite (select_ext M O cl cl' m H). rewrite <- H.
  destruct (select O cl' m) as [db|]; [cbn [obind]|reflexivity].
  rewrite (run_stages_ext M O post_order cl cl' db H). reflexivity.
Qed.

Theorem option_order_is_fixed : forall (M : Type) (O : ops M) cl cl' m,
  once cl -> Permutation cl cl' -> pipeline O cl m = pipeline O cl' m.
Proof. intros M O cl cl' m Ho Hp. apply pipeline_ext. intros k. apply active_perm; assumption. Qed.

(* ---------- no options ---------- *)
Lemma run_stages_none : forall (M : Type) (O : ops M) ks cl m,
  (forall k, In k ks -> active k cl = None) -> run_stages O ks cl m = Some m.
Proof.
  intros M O ks cl m. induction ks as [|k r IH]; intros H; [reflexivity|].
  cbn [run_stages]. rewrite H by (left; reflexivity). apply IH. intros k' Hk. apply H. right. exact Hk.
Qed.

Theorem no_options_identity_generic : forall (M : Type) (O : ops M) m,
  o_pdu O false m = m -> pipeline O [] m = Some m.
Proof.
  intros M O m H. unfold pipeline, select, pdu_flag. cbn [active given obind].
  rewrite run_stages_none by reflexivity. cbn [obind]. rewrite H. reflexivity.
Qed.

Theorem no_options_identity : forall X m, no_containers m -> pipeline (cops X) [] m = Some m.
Proof. intros X m H. apply no_options_identity_generic. cbn [cops o_pdu]. apply pdu_stage_no_containers. exact H. Qed.

(* ---------- the pipeline is the composition of the given stages, sorted by their position ---------- *)
Lemma fold_opt_none : forall (A M : Type) (f : A -> M -> option M) l,
  fold_left (fun acc it => obind acc (f it)) l None = None.
Proof. intros A M f l. induction l as [|x r IH]; [reflexivity|exact IH]. Qed.
Lemma fold_opt_cons : forall (A M : Type) (f : A -> M -> option M) x l m,
  fold_opt f (x :: l) m = obind (f x m) (fold_opt f l).
Proof.
  intros A M f x l m. unfold fold_opt. cbn [fold_left obind]. destruct (f x m); [reflexivity|].
  cbn [obind]. apply fold_opt_none.
Qed.

Lemma run_stages_sorted : forall (M : Type) (O : ops M) ks cl m,
  run_stages O ks cl m =
  run_list O (flat_map (fun k => match active k cl with Some a => [(k, a)] | None => [] end) ks) m.
Proof.
  intros M O ks cl. induction ks as [|k r IH]; intros m; [reflexivity|].
  cbn [run_stages flat_map]. destruct (active k cl) as [a|].
  - cbn [app]. unfold run_list. rewrite fold_opt_cons. cbn [fst snd]. destruct (stage O k a m); [|reflexivity].
    cbn [obind]. apply IH.
  - cbn [app]. apply IH.
Qed.

Theorem pipeline_is_sorted_composition : forall (M : Type) (O : ops M) cl m,
  pipeline O cl m =
  obind (select O cl m) (fun db => obind (run_list O (sorted_active cl) db) (fun db' => Some (o_pdu O (pdu_flag cl) db'))).
Proof. intros M O cl m. unfold pipeline. destruct (select O cl m); [|reflexivity]. cbn [obind]. rewrite run_stages_sorted. reflexivity. Qed.

(* an argument counts: the option is not one that is tested by truth value, or the argument is not empty *)
Lemma active_single : forall k a, counts k a -> active k [(k, a)] = Some a.
Proof.
  intros k a H. unfold active. cbn [given]. rewrite okind_eqb_refl. unfold counts in H.
  destruct (by_truth k); [|reflexivity]. destruct (is_switch k); [reflexivity|]. cbn [negb andb].
  destruct a; [exfalso; apply H; reflexivity|reflexivity].
Qed.
Lemma active_other : forall k k' a cl, k' <> k -> active k ((k', a) :: cl) = active k cl.
Proof.
  intros k k' a cl H. unfold active. cbn [given].
  destruct (okind_eqb k' k) eqn:E; [apply okind_eqb_eq in E; congruence|reflexivity].
Qed.
Lemma active_nil : forall k, active k [] = None.
Proof. reflexivity. Qed.

(* one option *)
Theorem pipeline_single_is_stage : forall (M : Type) (O : ops M) k a m,
  is_post k = true -> counts k a ->
  pipeline O [(k, a)] m = obind (stage O k a m) (fun m' => Some (o_pdu O false m')).
Proof.
  intros M O k a m Hp Hc. rewrite pipeline_is_sorted_composition.
  assert (select O [(k, a)] m = Some m) as ->.
  { unfold select. rewrite !active_other by (intros E; subst k; discriminate). reflexivity. }
  assert (pdu_flag [(k, a)] = false) as ->.
  { unfold pdu_flag. rewrite active_other by (intros E; subst k; discriminate). reflexivity. }
  cbn [obind].
  assert (sorted_active [(k, a)] = [(k, a)]) as ->.
  { unfold sorted_active, post_order. cbn [flat_map].
    destruct k; try discriminate Hp;
      rewrite ?active_single by exact Hc; rewrite ?active_other by discriminate; rewrite ?active_nil; reflexivity. }
  unfold run_list. rewrite fold_opt_cons. cbn [fst snd]. destruct (stage O k a m); reflexivity.
Qed.

(* two options, in either order on the command line: the earlier stage, then the later one *)
Lemma sorted_active_pair : forall k1 a1 k2 a2,
  is_post k1 = true -> is_post k2 = true -> (slot k1 < slot k2)%nat -> counts k1 a1 -> counts k2 a2 ->
  sorted_active [(k1, a1); (k2, a2)] = [(k1, a1); (k2, a2)].
Proof.
  intros k1 a1 k2 a2 H1 H2 Hs C1 C2.
  assert (forall k, active k [(k1, a1); (k2, a2)] =
                    if okind_eqb k1 k then Some a1 else if okind_eqb k2 k then Some a2 else None) as Hact.
  { intros k. destruct (okind_eqb k1 k) eqn:E1.
    - apply okind_eqb_eq in E1. subst k.
      pose proof (active_single k1 a1 C1) as A. unfold active in *. cbn [given] in *. rewrite okind_eqb_refl in *. exact A.
    - rewrite active_other by (intros E; subst; rewrite okind_eqb_refl in E1; discriminate).
      destruct (okind_eqb k2 k) eqn:E2.
      + apply okind_eqb_eq in E2. subst k. apply active_single. exact C2.
      + apply active_other. intros E; subst; rewrite okind_eqb_refl in E2; discriminate. }
  unfold sorted_active, post_order. cbn [flat_map]. rewrite !Hact.
  destruct k1; try discriminate H1; destruct k2; try discriminate H2;
    try (exfalso; vm_compute in Hs; lia); reflexivity.
Qed.

Theorem pipeline_pair_is_composition : forall (M : Type) (O : ops M) k1 a1 k2 a2 m,
  is_post k1 = true -> is_post k2 = true -> (slot k1 < slot k2)%nat -> counts k1 a1 -> counts k2 a2 ->
  pipeline O [(k1, a1); (k2, a2)] m = pipeline O [(k2, a2); (k1, a1)] m /\
  pipeline O [(k1, a1); (k2, a2)] m =
    obind (stage O k1 a1 m) (fun m1 => obind (stage O k2 a2 m1) (fun m2 => Some (o_pdu O false m2))).
Proof.
  intros M O k1 a1 k2 a2 m H1 H2 Hs C1 C2.
  assert (k1 <> k2) as Hne by (intros E; subst; lia).
  split.
  - apply option_order_is_fixed; [|apply perm_swap].
    unfold once. cbn [map fst]. constructor; [|constructor; [intros []|constructor]].
    intros [E|[]]. apply Hne. symmetry. apply okind_code_inj. exact E.
  - rewrite pipeline_is_sorted_composition.
    assert (forall k, is_post k = false -> active k [(k1, a1); (k2, a2)] = None) as Hsel.
    { intros k Hk. rewrite !active_other; [reflexivity| |]; intros E; subst; congruence. }
    assert (select O [(k1, a1); (k2, a2)] m = Some m) as -> by (unfold select; rewrite !Hsel by reflexivity; reflexivity).
    assert (pdu_flag [(k1, a1); (k2, a2)] = false) as -> by (unfold pdu_flag; rewrite Hsel by reflexivity; reflexivity).
    cbn [obind]. rewrite sorted_active_pair by assumption.
    unfold run_list. rewrite fold_opt_cons. cbn [fst snd]. destruct (stage O k1 a1 m) as [m1|]; [|reflexivity].
    cbn [obind]. rewrite fold_opt_cons. cbn [fst snd]. destruct (stage O k2 a2 m1); reflexivity.
Qed.

(* a selection option and a later option: the selection comes first whatever the order on the command line *)
Theorem selection_runs_first : forall (M : Type) (O : ops M) ks as_ k a m,
  is_selection ks = true -> is_post k = true -> counts k a ->
  pipeline O [(ks, as_); (k, a)] m = pipeline O [(k, a); (ks, as_)] m /\
  pipeline O [(ks, as_); (k, a)] m =
    obind (select O [(ks, as_)] m) (fun db => obind (stage O k a db) (fun m2 => Some (o_pdu O false m2))).
Proof.
  intros M O ks as_ k a m Hs Hp Hc.
  assert (ks <> k) as Hne by (intros E; subst; destruct k; discriminate).
  split.
  - apply option_order_is_fixed; [|apply perm_swap].
    unfold once. cbn [map fst]. constructor; [|constructor; [intros []|constructor]].
    intros [E|[]]. apply Hne. symmetry. apply okind_code_inj. exact E.
  - rewrite pipeline_is_sorted_composition.
    assert (select O [(ks, as_); (k, a)] m = select O [(ks, as_)] m) as ->.
    { apply select_ext3; unfold active; cbn [given];
        match goal with |- context [okind_eqb ks ?kk] => destruct (okind_eqb ks kk); [reflexivity|] end;
        destruct k; try discriminate Hp; reflexivity. }
    destruct (select O [(ks, as_)] m) as [db|]; [|reflexivity]. cbn [obind].
    assert (pdu_flag [(ks, as_); (k, a)] = false) as ->.
    { unfold pdu_flag. rewrite !active_other; [reflexivity| |]; intros E; subst; discriminate. }
    assert (sorted_active [(ks, as_); (k, a)] = [(k, a)]) as ->.
    { unfold sorted_active, post_order. cbn [flat_map].
      destruct ks; try discriminate Hs; destruct k; try discriminate Hp;
        rewrite ?(active_other _ _ _ _) by discriminate;
        rewrite ?active_single by exact Hc; rewrite ?active_other by discriminate; rewrite ?active_nil; reflexivity. }
    unfold run_list. rewrite fold_opt_cons. cbn [fst snd]. destruct (stage O k a db); reflexivity.
Qed.

(* --ecus together with --frames: one new matrix, filled by the ECU part first *)
Theorem selection_pair_shares_target : forall (M : Type) (O : ops M) ae af m sel,
  ae <> [] -> af <> [] -> parse_ecus ae = Some sel ->
  select O [(KFrames, af); (KEcus, ae)] m =
  Some (fold_tot (fun n tg => match o_copy_frame_named O n m tg with Some x => x | None => tg end) (parse_list af)
          (o_prune_ecus O (map (fun e => fst (fst e)) sel) m
             (fold_tot (fun e t => o_copy_ecu_with_frames O (fst (fst e)) (snd (fst e)) (snd e) m t) sel (o_empty O)))).
Proof.
  intros M O ae af m sel He Hf Hp. unfold select.
  assert (active KEcus [(KFrames, af); (KEcus, ae)] = Some ae) as ->
    by (unfold active; cbn; destruct ae; [congruence|reflexivity]).
  assert (active KFrames [(KFrames, af); (KEcus, ae)] = Some af) as ->
    by (unfold active; cbn; destruct af; [congruence|reflexivity]).
  assert (active KSignals [(KFrames, af); (KEcus, ae)] = None) as -> by reflexivity.
  rewrite Hp. reflexivity.
Qed.

(* a malformed argument of an earlier stage aborts the conversion whatever follows *)
Theorem pipeline_error_propagates : forall (M : Type) (O : ops M) k1 a1 k2 a2 m,
  is_post k1 = true -> is_post k2 = true -> (slot k1 < slot k2)%nat -> counts k1 a1 -> counts k2 a2 ->
  stage O k1 a1 m = None -> pipeline O [(k2, a2); (k1, a1)] m = None.
Proof.
  intros M O k1 a1 k2 a2 m H1 H2 Hs C1 C2 He.
  destruct (pipeline_pair_is_composition M O k1 a1 k2 a2 m H1 H2 Hs C1 C2) as [P1 P2].
  rewrite <- P1. rewrite P2. rewrite He. reflexivity.
Qed.

(* the stages of renameEcu ... are the loops over the parsed argument *)
Theorem stage_rename_signal_is_fold : forall (M : Type) (O : ops M) ps m,
  ps <> [] -> Forall (fun p => plain_name (fst p) /\ plain_name (snd p)) ps ->
  stage O KRenameSignal (render_pairs ps) m = fold_opt (fun p => o_rename_signal O (fst p) (snd p)) ps m /\
  stage O KRenameFrame (render_pairs ps) m = fold_opt (fun p => o_rename_frame O (fst p) (snd p)) ps m /\
  stage O KRenameEcu (render_pairs ps) m = Some (fold_tot (fun p => o_rename_ecu O (fst p) (snd p)) ps m).
Proof.
  intros M O ps m Hne Hp. cbn [stage]. rewrite rename_tuple_parse by assumption. cbn [obind]. repeat split.
Qed.
Theorem stage_delete_is_fold : forall (M : Type) (O : ops M) l m,
  l <> [] -> Forall (no_char COMMA) l ->
  stage O KDeleteSignal (render_list l) m = Some (fold_tot (o_del_signal O) l m) /\
  stage O KDeleteFrame (render_list l) m = Some (fold_tot (o_del_frame O) l m) /\
  stage O KDeleteEcu (render_list l) m = Some (fold_tot (o_del_ecu O) l m) /\
  stage O KDeleteSignalAttributes (render_list l) m = Some (o_del_signal_attributes O l m) /\
  stage O KDeleteFrameAttributes (render_list l) m = Some (o_del_frame_attributes O l m).
Proof.
  intros M O l m Hne Hp. cbn [stage]. rewrite comma_list_parse by assumption. repeat split.
Qed.
Theorem stage_tuple_missing_colon : forall (M : Type) (O : ops M) s m,
  no_char COLON s -> no_char COMMA s ->
  stage O KRenameEcu s m = None /\ stage O KRenameFrame s m = None /\ stage O KRenameSignal s m = None.
Proof.
  intros M O s m Hc Hm. cbn [stage]. unfold parse_pairs. rewrite split_on_no_sep by exact Hm.
  cbn [parse_items]. rewrite pair_missing_colon_is_error by exact Hc. repeat split.
Qed.
