(* C04 library: __truediv__ returns an integer quotient of at most 28 digits exactly (whatever the exponents and
   the number of trailing zeros), and __round__ of an integer-valued Decimal is that integer. *)
From CM Require Import lib.Prelude model.Decimal model.DecimalSpec proofs.C04_digits proofs.C04_fix.

Lemma strip_ideal_spec : forall fuel c x i,
  exists t, 0 <= t /\ strip_ideal fuel c x i = (c / 10 ^ t, x + t) /\ c = (c / 10 ^ t) * 10 ^ t.
Proof.
  induction fuel as [|f IH]; intros c x i.
  - exists 0. cbn [strip_ideal]. rewrite Z.pow_0_r, Z.div_1_r, Z.add_0_r. repeat split; lia.
  - cbn [strip_ideal]. destruct ((x <? i) && (c mod 10 =? 0)) eqn:E.
    + destruct (IH (c / 10) (x + 1) i) as [t [Ht [Hs Hc]]]. exists (t + 1).
      pose proof (p10_gt0 t Ht) as Hp.
      assert (Hd : c / 10 ^ (t + 1) = c / 10 / 10 ^ t).
      { rewrite p10_succ by lia. rewrite Z.div_div by lia. reflexivity. }
      rewrite Hd. split; [lia|]. split; [rewrite Hs; f_equal; lia|].
      rewrite p10_succ by lia. assert (c mod 10 = 0) by lia.
      pose proof (Z.div_mod c 10 ltac:(lia)). lia.
    + exists 0. rewrite Z.pow_0_r, Z.div_1_r, Z.add_0_r. repeat split; lia.
Qed.

(* int(round(d)) of a Decimal whose value q*10^(s-u) is the integer R *)
Lemma dround_int_exact : forall q s u R, 0 <= s -> 0 <= u -> q * 10 ^ s = R * 10 ^ u ->
  dround_int (mkDec q (s - u)) = R.
Proof.
  intros q s u R Hs Hu H. unfold dround_int. cbn [dm de].
  pose proof (p10_gt0 s Hs) as Hps. pose proof (p10_gt0 u Hu) as Hpu.
  destruct (q =? 0) eqn:Eq.
  - assert (q = 0) by lia. subst q. rewrite Z.mul_0_l in H. symmetry in H.
    apply Z.mul_eq_0 in H. lia.
  - destruct (0 <=? s - u) eqn:EX.
    + rewrite (p10_split s u) in H by lia. rewrite Z.mul_assoc in H. apply Z.mul_reg_r in H; lia.
    + replace (- (s - u)) with (u - s) by lia.
      pose proof (p10_gt0 (u - s) ltac:(lia)) as Hp. set (p := 10 ^ (u - s)) in *.
      assert (Hq : q = R * p).
      { unfold p. rewrite (p10_split u s) in H by lia. rewrite Z.mul_assoc in H. apply Z.mul_reg_r in H; lia. }
      assert (Ha : Z.abs q = Z.abs R * p) by (rewrite Hq, Z.abs_mul, (Z.abs_eq p) by lia; reflexivity).
      rewrite Ha, rhe_up_exact, Z.div_mul by lia.
      unfold with_sign. destruct (q <? 0) eqn:Es; nia.
Qed.

Lemma sign_of_quotient : forall ma mf R A B, 0 < A -> 0 < B -> mf <> 0 -> ma <> 0 -> ma * A = R * mf * B ->
  xorb (ma <? 0) (mf <? 0) = (R <? 0).
Proof.
  intros ma mf R A B HA HB Hmf Hma H.
  apply (f_equal Z.sgn) in H. rewrite !Z.sgn_mul, (Z.sgn_pos A), (Z.sgn_pos B), !Z.mul_1_r in H by lia.
  destruct (Z.sgn_spec ma) as [[? Ha]|[[? Ha]|[? Ha]]]; destruct (Z.sgn_spec mf) as [[? Hf]|[[? Hf]|[? Hf]]];
    destruct (Z.sgn_spec R) as [[? Hr]|[[? Hr]|[? Hr]]]; rewrite Ha, Hf, Hr in H; try lia;
    destruct (ma <? 0) eqn:E1; destruct (mf <? 0) eqn:E2; destruct (R <? 0) eqn:E3; cbn [xorb]; try reflexivity; lia.
Qed.

Lemma ddiv_int_quotient : forall a f R, dm f <> 0 -> ndigits (dm a) <= 28 -> ndigits R <= 28 ->
  (let g := Z.min (de a) (de f) in dnum a g = R * dnum f g) ->
  exists r, ddiv a f = Some r /\ dround_int r = R.
Proof.
  intros [ma ea] [mf ef] R Hmf Hna HnR H. unfold dnum in H. cbn [dm de] in *. rewrite Z.mul_assoc in H.
  unfold ddiv. cbn [dm de].
  destruct (mf =? 0) eqn:Ef; [lia|].
  set (g := Z.min ea ef) in *.
  pose proof (p10_gt0 (ea - g) ltac:(lia)) as HpA. pose proof (p10_gt0 (ef - g) ltac:(lia)) as HpB.
  destruct (ma =? 0) eqn:Ea.
  - assert (ma = 0) by lia. subst ma. eexists. split; [reflexivity|].
    unfold dround_int. cbn [dm]. cbn.
    rewrite Z.mul_0_l in H. symmetry in H. rewrite <- Z.mul_assoc in H. apply Z.mul_eq_0 in H.
    destruct H as [H|H]; [lia|]. apply Z.mul_eq_0 in H. lia.
  - assert (Hma : ma <> 0) by lia.
    assert (HR : R <> 0). { intro; subst R. rewrite !Z.mul_0_l in H. apply Z.mul_eq_0 in H. lia. }
    rewrite !ndigits_abs. unfold prec.
    set (shift := ndigits mf - ndigits ma + 28 + 1).
    pose proof (ndigits_ge1 mf) as Hnf1. pose proof (ndigits_ge1 ma) as Hna1.
    assert (Hshift : 2 <= shift) by (unfold shift; lia).
    destruct (0 <=? shift) eqn:Esh; [|lia].
    set (E := ea - ef) in *.
    (* absolute values of the hypothesis *)
    assert (Habs : Z.abs ma * 10 ^ (ea - g) = Z.abs R * Z.abs mf * 10 ^ (ef - g)).
    { rewrite <- (Z.abs_eq (10 ^ (ea - g))), <- (Z.abs_eq (10 ^ (ef - g))), <- !Z.abs_mul by lia. f_equal. exact H. }
    pose proof (sign_of_quotient ma mf R _ _ HpA HpB Hmf Hma H) as Hsign.
    (* u = shift - E >= 1 and num = |R| * 10^u * |mf| *)
    assert (Hu : 1 <= shift - E).
    { destruct (Z_le_gt_dec E 0) as [HE|HE]; [unfold E in *; lia|].
      assert (Hg : g = ef) by (unfold g, E in *; lia). rewrite Hg in Habs.
      replace (ef - ef) with 0 in Habs by lia. rewrite Z.pow_0_r, Z.mul_1_r in Habs. fold E in Habs.
      assert (Hnd : ndigits (ma * 10 ^ E) = ndigits ma + E) by (apply ndigits_mul_p10; lia).
      assert (Hle : ndigits (ma * 10 ^ E) <= 28 + ndigits mf).
      { apply ndigits_le_iff; [lia|]. rewrite Z.abs_mul, (Z.abs_eq (10 ^ E)) by (pose proof (p10_gt0 E); lia).
        rewrite Habs. rewrite p10_add by lia.
        assert (Z.abs R < 10 ^ 28) by (apply ndigits_le_iff; lia).
        destruct (ndigits_spec mf Hmf) as [_ [_ Hfhi]].
        apply Z.mul_lt_mono_nonneg; lia. }
      unfold shift. lia. }
    set (u := shift - E) in *.
    assert (Hnum : Z.abs ma * 10 ^ shift = Z.abs R * 10 ^ u * Z.abs mf).
    { destruct (Z_le_gt_dec E 0) as [HE|HE].
      - assert (Hg : g = ea) by (unfold g, E in *; lia). rewrite Hg in Habs.
        replace (ea - ea) with 0 in Habs by lia. rewrite Z.pow_0_r, Z.mul_1_r in Habs.
        replace (ef - ea) with (- E) in Habs by (unfold E; lia).
        rewrite Habs. replace u with (- E + shift) by (unfold u; lia). rewrite p10_add by lia. ring.
      - assert (Hg : g = ef) by (unfold g, E in *; lia). rewrite Hg in Habs.
        replace (ef - ef) with 0 in Habs by lia. rewrite Z.pow_0_r, Z.mul_1_r in Habs. fold E in Habs.
        replace shift with (E + u) by (unfold u; lia). rewrite p10_add by lia.
        rewrite Z.mul_assoc, Habs. ring. }
    rewrite Hnum. assert (Hnb : 0 < Z.abs mf) by lia.
    rewrite Z.mod_mul by lia. cbn [Z.eqb]. rewrite Z.div_mul by lia.
    set (C := Z.abs R * 10 ^ u).
    destruct (strip_ideal_spec (Z.to_nat shift) C (E - shift) E) as [t [Ht [Hst HC]]].
    rewrite Hst. cbn [fst snd]. set (c' := C / 10 ^ t) in *.
    rewrite Hsign.
    set (m' := if R <? 0 then - c' else c').
    pose proof (p10_gt0 t Ht) as Hpt. pose proof (p10_gt0 u ltac:(lia)) as Hpu.
    assert (Hm' : m' * 10 ^ t = R * 10 ^ u).
    { unfold m'. destruct (R <? 0) eqn:ER.
      - rewrite Z.mul_opp_l, <- HC. unfold C. rewrite Z.abs_neq by lia. ring.
      - rewrite <- HC. unfold C. rewrite Z.abs_eq by lia. ring. }
    assert (Hfit : fits28 m').
    { apply (fits28_div_p10 m' t Ht). rewrite Hm'. apply fits28_mul_p10; [lia|]. apply fits28_of_ndigits. exact HnR. }
    destruct (fix28_fits (mkDec m' (E - shift + t)) Hfit) as [q [k [Hk [Hfix [Hq _]]]]].
    cbn [dm de] in Hfix, Hq. rewrite Hfix. eexists. split; [reflexivity|].
    replace (E - shift + t + k) with ((t + k) - u) by (unfold u; lia).
    apply dround_int_exact; [lia | lia |].
    rewrite (Z.add_comm t k), p10_add by lia. rewrite Z.mul_assoc, Hq. exact Hm'.
Qed.
