(* C15: attribute order, omitted optional attributes, COMPU-METHOD rational coefficients, base-type encodings, statement order. *)
From Coq Require Import Permutation.
From CM Require Import lib.Prelude model.Readers proofs.C15_numbers.

(* ---------------- association lists ---------------- *)
Lemma lookup_not_in : forall (V : Type) (k : Z) (l : list (Z * V)), ~ In k (map fst l) -> lookup k l = None.
Proof.
  intros V k l. induction l as [|[k' v] r IH]; intros H; [reflexivity|]. cbn [lookup]. cbn [map fst In] in H.
  destruct (k =? k') eqn:E; [exfalso; apply H; left; lia|]. apply IH. intros Hin. apply H. right. exact Hin.
Qed.

Theorem attr_order_irrelevant : forall (V : Type) (l l' : list (Z * V)),
  NoDup (map fst l) -> Permutation l l' -> forall k, lookup k l = lookup k l'.
Proof.
  intros V l l' Hnd Hp. induction Hp as [|[k1 v1] l l' Hp IH|[k1 v1] [k2 v2] l|l l' l'' Hp1 IH1 Hp2 IH2]; intros k.
  - reflexivity.
  - cbn [lookup]. cbn [map fst] in Hnd. inversion Hnd as [|x xs Hnotin Hnd']; subst. rewrite (IH Hnd' k). reflexivity.
  - cbn [lookup]. cbn [map fst] in Hnd. inversion Hnd as [|x xs Hnotin Hnd']; subst.
    destruct (k =? k2) eqn:E2; destruct (k =? k1) eqn:E1; try reflexivity.
    exfalso. apply Hnotin. left. lia.
  - rewrite (IH1 Hnd k). apply IH2.
    apply (Permutation_NoDup (Permutation_map fst Hp1)). exact Hnd.
Qed.

(* the decoded KCD signal does not depend on the order of the attributes of <Signal> and <Value> *)
Theorem kcd_attr_order_irrelevant : forall sa sa' vi vi' vn vn',
  NoDup (map fst sa) -> NoDup (map fst vi) -> NoDup (map fst vn) ->
  Permutation sa sa' -> Permutation vi vi' -> Permutation vn vn' ->
  kcd_signal sa (Some (vi, vn)) = kcd_signal sa' (Some (vi', vn')).
Proof.
  intros sa sa' vi vi' vn vn' N1 N2 N3 P1 P2 P3. unfold kcd_signal.
  rewrite !(attr_order_irrelevant Z sa sa' N1 P1).
  rewrite !(attr_order_irrelevant Z vi vi' N2 P2).
  rewrite !(attr_order_irrelevant dec vn vn' N3 P3).
  reflexivity.
Qed.

(* ---------------- omitted optional attributes take the documented default ---------------- *)
Definition LITTLE := 0.
Theorem omitted_optional_is_default : forall sa vi vn,
  (lookup A_length sa = None -> kcd_signal sa (Some (vi, vn)) = kcd_signal ((A_length, 1) :: sa) (Some (vi, vn))) /\
  (lookup A_endianess sa = None -> kcd_signal sa (Some (vi, vn)) = kcd_signal ((A_endianess, LITTLE) :: sa) (Some (vi, vn))) /\
  (lookup V_type vi = None -> kcd_signal sa (Some (vi, vn)) = kcd_signal sa (Some ((V_type, T_unsigned) :: vi, vn))) /\
  (lookup V_slope vn = None -> kcd_signal sa (Some (vi, vn)) = kcd_signal sa (Some (vi, (V_slope, dec_one) :: vn))) /\
  (lookup V_intercept vn = None -> kcd_signal sa (Some (vi, vn)) = kcd_signal sa (Some (vi, (V_intercept, dec_zero) :: vn))) /\
  (lookup V_unit vi = None -> kcd_signal sa (Some (vi, vn)) = kcd_signal sa (Some ((V_unit, no_unit) :: vi, vn))) /\
  kcd_signal sa None = kcd_signal sa (Some ([], [])).
Proof.
  intros sa vi vn. repeat split; try (intros H; unfold kcd_signal; cbn [lookup]; cbn; rewrite ?H; reflexivity).
Qed.

(* the defaults themselves: a <Signal name offset> without anything else is a 1-bit unsigned little-endian signal, factor 1, offset 0 *)
Theorem kcd_bare_signal : forall off,
  kcd_signal [(A_offset, off)] None = mkKsig off 1 true false false dec_one dec_zero no_unit None None.
Proof. intros off. reflexivity. Qed.

(* ---------------- COMPU-METHOD ---------------- *)
Definition text_scale (s : scale) : Prop := sc_rat s = None.

Lemma step_text_keeps_scaling : forall s c c', text_scale s -> step_scale (COk c) s = COk c' ->
  cm_factor c' = cm_factor c /\ cm_offset c' = cm_offset c.
Proof.
  intros s c c' Ht H. unfold text_scale in Ht. unfold step_scale in H. rewrite Ht in H.
  destruct (sc_ll s) as [ll|]; [|inversion H; subst; split; reflexivity].
  destruct (sc_desc s) as [d|]; [|inversion H; subst; split; reflexivity].
  destruct (sc_ul s) as [ul|]; [|discriminate].
  destruct (decode_number ul) as [a|]; [|discriminate].
  destruct (decode_number ll) as [b|]; [|discriminate].
  destruct (num_eqb a b); inversion H; subst; split; reflexivity.
Qed.

Lemma step_err : forall l, fold_left step_scale l CErr = CErr.
Proof. induction l as [|s l IH]; [reflexivity|]. cbn [fold_left step_scale]. exact IH. Qed.

Lemma fold_text_keeps_scaling : forall l c c', Forall text_scale l -> fold_left step_scale l (COk c) = COk c' ->
  cm_factor c' = cm_factor c /\ cm_offset c' = cm_offset c.
Proof.
  induction l as [|s l IH]; intros c c' Hl H.
  - cbn in H. inversion H; subst. split; reflexivity.
  - inversion Hl as [|x xs Hs Hl']; subst. cbn [fold_left] in H.
    destruct (step_scale (COk c) s) as [c1|] eqn:E.
    + destruct (step_text_keeps_scaling s c c1 Hs E) as [F1 O1].
      destruct (IH c1 c' Hl' H) as [F2 O2]. split; congruence.
    + rewrite step_err in H. discriminate.
Qed.

(* A linear scale with numerator (n0, n1) and denominator d (texts), d not zero, among text-table scales:
   factor = n1/d and offset = n0/d as exact rationals, whatever the denominator is. *)
Theorem compu_method_with_denominator :
  forall pre post n0 n1 d v0 v1 vd ll ul lab cst c,
    Forall text_scale pre -> Forall text_scale post ->
    parse_dec (strip n0) = Some v0 -> parse_dec (strip n1) = Some v1 -> parse_dec (strip d) = Some vd ->
    dec_is_zero vd = false ->
    decode_compu_method (pre ++ [mkScale ll ul lab (Some ([n0; n1], [d])) cst] ++ post) = COk c ->
    cm_factor c = (v1, vd) /\ cm_offset c = (v0, vd).
Proof.
  intros pre post n0 n1 d v0 v1 vd ll ul lab cst c Hpre Hpost H0 H1 Hd Hz H.
  unfold decode_compu_method in H. rewrite !fold_left_app in H.
  destruct (fold_left step_scale pre (COk (mkCompu [] ratio_one ratio_zero false))) as [c1|] eqn:E1.
  - cbn [fold_left] in H.
    assert (Hlin : step_scale (COk c1) (mkScale ll ul lab (Some ([n0; n1], [d])) cst)
                   = COk (mkCompu (cm_values c1) (v1, vd) (v0, vd) (cm_const c1))).
    { unfold step_scale. cbn [sc_rat]. rewrite H1, Hd, Hz, H0. reflexivity. }
    rewrite Hlin in H.
    destruct (fold_text_keeps_scaling post _ c Hpost H) as [F O]. cbn [cm_factor cm_offset] in F, O. split; assumption.
  - cbn [fold_left step_scale] in H. rewrite step_err in H. discriminate.
Qed.

(* multiplying numerator and denominator by the same non-zero integer does not change the ratio *)
Definition dec_scale (k : Z) (a : dec) : dec := let '(n, m, e) := a in (xorb n (k <? 0), m * Z.abs k, e).

Theorem denominator_scaling_irrelevant : forall k a b, k <> 0 ->
  ratio_eq (dec_scale k a, dec_scale k b) (a, b).
Proof.
  intros k [[na ma] ea] [[nb mb] eb] Hk. unfold ratio_eq. cbn [fst snd dec_scale dec_mul].
  apply (value_eq_at _ _ (ea + eb)); cbn [dec_exp dec_signed]; try lia.
  replace (ea + eb - (ea + eb)) with 0 by lia. rewrite Z.pow_0_r.
  destruct na; destruct nb; destruct (k <? 0) eqn:E; cbn [xorb]; lia.
Qed.

(* ---------------- base type encodings ---------------- *)
Theorem base_type_encoding_sign : forall bt,
  eval_type_of_signal EncNONE bt = (false, false) /\
  eval_type_of_signal EncBOOLEAN bt = (false, false) /\
  eval_type_of_signal Enc2C bt = (true, false) /\
  snd (eval_type_of_signal EncIEEE754 bt) = true /\
  snd (eval_type_of_signal EncSINGLE bt) = true /\
  snd (eval_type_of_signal EncDOUBLE bt) = true.
Proof. intros bt. repeat split. Qed.

(* ---------------- statements of one section ---------------- *)
Definition sequiv (m m' : state) : Prop := forall k, slookup k m = slookup k m'.

Lemma skey_eqb_eq : forall a b, skey_eqb a b = true <-> a = b.
Proof.
  intros [a1 a2] [b1 b2]. unfold skey_eqb. cbn [fst snd]. rewrite andb_true_iff, !Z.eqb_eq.
  split; [intros [H1 H2]; subst; reflexivity| intros H; inversion H; split; reflexivity].
Qed.

Lemma apply_equiv : forall m m' s, sequiv m m' -> sequiv (apply_stmt m s) (apply_stmt m' s).
Proof. intros m m' s H k. unfold apply_stmt. cbn [slookup]. destruct (skey_eqb k (st_key s)); [reflexivity|apply H]. Qed.

Lemma read_section_equiv : forall l m m', sequiv m m' -> sequiv (read_section l m) (read_section l m').
Proof.
  unfold read_section. induction l as [|s l IH]; intros m m' H; [exact H|].
  cbn [fold_left]. apply IH. apply apply_equiv. exact H.
Qed.

Lemma apply_commute : forall m a b, st_key a <> st_key b -> sequiv (apply_stmt (apply_stmt m a) b) (apply_stmt (apply_stmt m b) a).
Proof.
  intros m a b Hne k. unfold apply_stmt. cbn [slookup].
  destruct (skey_eqb k (st_key b)) eqn:Eb; destruct (skey_eqb k (st_key a)) eqn:Ea; try reflexivity.
  apply skey_eqb_eq in Eb. apply skey_eqb_eq in Ea. exfalso. apply Hne. congruence.
Qed.

Theorem stmt_order_irrelevant_within_section : forall l l',
  NoDup (map st_key l) -> Permutation l l' -> forall m, sequiv (read_section l m) (read_section l' m).
Proof.
  intros l l' Hnd Hp. induction Hp as [|s l l' Hp IH|a b l|l l' l'' Hp1 IH1 Hp2 IH2]; intros m.
  - intros k; reflexivity.
  - cbn [map] in Hnd. inversion Hnd as [|x xs Hnotin Hnd']; subst. unfold read_section. cbn [fold_left]. apply (IH Hnd').
  - cbn [map] in Hnd. inversion Hnd as [|x xs Hnotin Hnd']; subst.
    unfold read_section. cbn [fold_left]. apply read_section_equiv. apply apply_commute.
    intros Heq. apply Hnotin. left. symmetry. exact Heq.
  - intros k. rewrite (IH1 Hnd m k). apply IH2.
    apply (Permutation_NoDup (Permutation_map st_key Hp1)). exact Hnd.
Qed.
