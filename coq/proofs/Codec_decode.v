(* Decoder results about model/Codec.v referred to by props/C01.v. *)
From CM Require Import lib.Prelude model.Startbit model.Codec proofs.Codec_lib.

(* ---------- `inside` unpacked ---------- *)

Lemma inside_spec : forall nbits s, inside nbits s = true ->
  0 <= s_start s /\ 1 <= s_size s /\ s_start s + s_size s <= nbits.
Proof. intros nbits s H. unfold inside in H. lia. Qed.

(* ---------- the slice taken for one signal ---------- *)

Lemma signal_bits_length : forall d s, inside (8 * zlen d) s = true ->
  length (signal_bits s (big d) (little d) (8 * zlen d)) = Z.to_nat (s_size s).
Proof.
  intros d s Hin. apply inside_spec in Hin. destruct Hin as [H0 [H1 H2]].
  unfold signal_bits. destruct (s_le s).
  - rewrite py_slice_length by (rewrite ?zlen_little; lia). f_equal. lia.
  - rewrite py_slice_length by (rewrite ?zlen_big; lia). f_equal. lia.
Qed.

Lemma signal_bits_nth : forall d s j, inside (8 * zlen d) s = true ->
  (j < Z.to_nat (s_size s))%nat ->
  nth j (signal_bits s (big d) (little d) (8 * zlen d)) false
  = sig_bit d s (Z.to_nat (s_size s) - 1 - j).
Proof.
  intros d s j Hin Hj. apply inside_spec in Hin. destruct Hin as [H0 [H1 H2]].
  unfold signal_bits, sig_bit. destruct (s_le s).
  - rewrite py_slice_nth by (rewrite ?zlen_little; lia).
    replace (Z.to_nat (8 * zlen d - s_start s - s_size s) + j)%nat
      with (Z.to_nat (8 * zlen d - s_start s - s_size s + Z.of_nat j)) by lia.
    rewrite little_nth by lia. f_equal. lia.
  - rewrite py_slice_nth by (rewrite ?zlen_big; lia).
    replace (Z.to_nat (s_start s) + j)%nat with (Z.to_nat (s_start s + Z.of_nat j)) by lia.
    rewrite big_nth by lia. f_equal. lia.
Qed.

Lemma signal_bits_value : forall d s, inside (8 * zlen d) s = true ->
  bin_value (signal_bits s (big d) (little d) (8 * zlen d)) = unsigned_value d s.
Proof.
  intros d s Hin. unfold unsigned_value.
  rewrite <- (signal_bits_length d s Hin).
  apply bin_value_of_bits. intros j Hj.
  rewrite signal_bits_length in * by assumption.
  apply signal_bits_nth; assumption.
Qed.

(* ---------- decode = convention ---------- *)

Theorem decode_is_convention_value :
  forall d s,
    inside (8 * zlen d) s = true -> float_ok s ->
    decode_signal d (8 * zlen d) s = Some (convention_value d s).
Proof.
  intros d s Hin Hfl.
  pose proof (signal_bits_length d s Hin) as Hlen.
  pose proof (signal_bits_value d s Hin) as Hval.
  pose proof (signal_bits_nth d s 0 Hin) as Htop.
  pose proof (inside_spec _ _ Hin) as [H0 [H1 H2]].
  unfold decode_signal, unpack_bitstring, convention_value.
  set (bits := signal_bits s (big d) (little d) (8 * zlen d)) in *.
  assert (Hz : zlen bits = s_size s) by (unfold zlen; rewrite Hlen; lia).
  destruct (s_float s) eqn:Ef.
  - rewrite Hz, Hval. destruct (Hfl Ef) as [E|E]; rewrite E; reflexivity.
  - destruct bits as [|top rest] eqn:Eb.
    + cbn [length] in Hlen. lia.
    + rewrite Hval, Hz. cbn [nth] in Htop. rewrite Htop by lia.
      replace (Z.to_nat (s_size s) - 1 - 0)%nat with (Z.to_nat (s_size s) - 1)%nat by lia.
      reflexivity.
Qed.

Theorem decode_depends_only_on_own_bits :
  forall d d' s,
    zlen d = zlen d' -> inside (8 * zlen d) s = true -> float_ok s ->
    (forall i, (i < Z.to_nat (s_size s))%nat -> sig_bit d s i = sig_bit d' s i) ->
    decode_signal d (8 * zlen d) s = decode_signal d' (8 * zlen d') s.
Proof.
  intros d d' s Hlen Hin Hfl Hbits.
  rewrite decode_is_convention_value by assumption.
  rewrite decode_is_convention_value by (try rewrite <- Hlen; assumption).
  f_equal. unfold convention_value, unsigned_value.
  rewrite (bitsum_ext _ _ _ Hbits).
  pose proof (inside_spec _ _ Hin) as [H0 [H1 H2]].
  rewrite (Hbits (Z.to_nat (s_size s) - 1)%nat) by lia.
  reflexivity.
Qed.

Lemma convention_value_inj : forall d d' s, 1 <= s_size s ->
  convention_value d s = convention_value d' s ->
  unsigned_value d s = unsigned_value d' s.
Proof.
  intros d d' s H1 Heq. unfold convention_value in Heq.
  destruct (s_float s).
  - congruence.
  - assert (Hi : (if s_signed s && sig_bit d s (Z.to_nat (s_size s) - 1)
                  then unsigned_value d s - 2 ^ s_size s else unsigned_value d s)
               = (if s_signed s && sig_bit d' s (Z.to_nat (s_size s) - 1)
                  then unsigned_value d' s - 2 ^ s_size s else unsigned_value d' s))
      by congruence.
    clear Heq.
    pose proof (bitsum_bounds (sig_bit d s) (Z.to_nat (s_size s))) as Hb.
    pose proof (bitsum_bounds (sig_bit d' s) (Z.to_nat (s_size s))) as Hb'.
    rewrite Z2Nat.id in Hb, Hb' by lia.
    fold (unsigned_value d s) in Hb. fold (unsigned_value d' s) in Hb'.
    set (P := 2 ^ s_size s) in *.
    set (u := unsigned_value d s) in *. set (u' := unsigned_value d' s) in *.
    destruct (s_signed s && sig_bit d s (Z.to_nat (s_size s) - 1));
      destruct (s_signed s && sig_bit d' s (Z.to_nat (s_size s) - 1)); lia.
Qed.

Theorem decode_determines_own_bits :
  forall d d' s,
    zlen d = zlen d' -> inside (8 * zlen d) s = true -> float_ok s ->
    decode_signal d (8 * zlen d) s = decode_signal d' (8 * zlen d') s ->
    forall i, (i < Z.to_nat (s_size s))%nat -> sig_bit d s i = sig_bit d' s i.
Proof.
  intros d d' s Hlen Hin Hfl Heq.
  rewrite decode_is_convention_value in Heq by assumption.
  rewrite decode_is_convention_value in Heq by (try rewrite <- Hlen; assumption).
  pose proof (inside_spec _ _ Hin) as [H0 [H1 H2]].
  assert (Hc : convention_value d s = convention_value d' s) by congruence.
  apply convention_value_inj in Hc; [|assumption].
  unfold unsigned_value in Hc. apply bitsum_inj. exact Hc.
Qed.

(* ---------- the Motorola walk ---------- *)

Theorem motorola_walk_is_sawtooth :
  forall d p, 0 <= p ->
    mbit d p = pbit d (flip p) /\
    flip (p + 1) = (if flip p mod 8 =? 0 then flip p + 15 else flip p - 1).
Proof.
  intros d p Hp. unfold mbit, pbit, flip. split.
  - f_equal; [f_equal; f_equal|]; lia.
  - destruct ((p - p mod 8 + 7 - p mod 8) mod 8 =? 0) eqn:E; lia.
Qed.

(* ---------- the length gate ---------- *)

Lemma zlen_app : forall A (l l' : list A), zlen (l ++ l') = zlen l + zlen l'.
Proof. intros A l l'. unfold zlen. rewrite app_length. lia. Qed.

Lemma zlen_repeat : forall A (x : A) n, zlen (repeat x n) = Z.of_nat n.
Proof. intros A x n. unfold zlen. rewrite repeat_length. reflexivity. Qed.

Lemma zlen_nonneg : forall A (l : list A), 0 <= zlen l.
Proof. intros A l. unfold zlen. lia. Qed.

Lemma zlen_firstn : forall A (l : list A) n, 0 <= n <= zlen l -> zlen (firstn (Z.to_nat n) l) = n.
Proof. intros A l n Hn. unfold zlen in *. rewrite firstn_length. lia. Qed.

Theorem length_gate_spec :
  forall fsize at_ ae d, 0 <= fsize ->
    unpack_gate fsize at_ ae d =
      if zlen d =? fsize then Some d
      else if (zlen d <? fsize) && at_ then Some (d ++ repeat 255 (Z.to_nat (fsize - zlen d)))
      else if (fsize <? zlen d) && ae then Some (firstn (Z.to_nat fsize) d)
      else None.
Proof.
  intros fsize at_ ae d Hf. unfold unpack_gate, ljust.
  pose proof (zlen_nonneg _ d) as Hd.
  destruct (zlen d =? fsize) eqn:Eeq; [reflexivity|].
  destruct (zlen d <? fsize) eqn:Elt.
  - (* short payload *)
    destruct at_; cbn [andb].
    + assert (Hz : zlen (d ++ repeat 255 (Z.to_nat (fsize - zlen d))) = fsize)
        by (rewrite zlen_app, zlen_repeat; lia).
      destruct ae.
      * rewrite py_slice_prefix_all by lia. rewrite Hz, Z.eqb_refl. reflexivity.
      * rewrite Hz, Z.eqb_refl. reflexivity.
    + replace (fsize <? zlen d) with false by lia. cbn [andb].
      destruct ae.
      * rewrite py_slice_prefix_all by lia. rewrite Eeq. reflexivity.
      * rewrite Eeq. reflexivity.
  - (* long payload *)
    cbn [andb]. replace (fsize <? zlen d) with true by lia. cbn [andb].
    replace (Z.to_nat (fsize - zlen d)) with 0%nat by lia. cbn [repeat]. rewrite app_nil_r.
    assert (Hgoal : (if ae then if zlen (py_slice d 0 fsize) =? fsize then Some (py_slice d 0 fsize) else None
                     else if zlen d =? fsize then Some d else None)
                    = (if ae then Some (firstn (Z.to_nat fsize) d) else None)).
    { destruct ae.
      - rewrite py_slice_prefix by lia. rewrite zlen_firstn by lia. rewrite Z.eqb_refl. reflexivity.
      - rewrite Eeq. reflexivity. }
    destruct at_; destruct ae; exact Hgoal.
Qed.

Theorem default_never_silent :
  forall fsize sigs d, zlen d <> fsize -> frame_unpack fsize sigs false false d = ULengthError.
Proof.
  intros fsize sigs d Hne. unfold frame_unpack, unpack_gate.
  destruct (zlen d =? fsize) eqn:E; [lia|]. reflexivity.
Qed.

Lemma decode_all_values : forall d sigs,
  Forall (fun s => inside (8 * zlen d) s = true /\ float_ok s) sigs ->
  decode_all d (8 * zlen d) sigs = Some (map (fun s => (s_name s, convention_value d s)) sigs).
Proof.
  intros d sigs Hall. induction Hall as [|s sigs [Hin Hfl] Hrest IH].
  - reflexivity.
  - cbn [decode_all map]. rewrite IH. rewrite decode_is_convention_value by assumption.
    reflexivity.
Qed.

Theorem frame_unpack_values :
  forall fsize sigs at_ ae d,
    zlen d = fsize ->
    Forall (fun s => inside (8 * fsize) s = true /\ float_ok s) sigs ->
    frame_unpack fsize sigs at_ ae d = UOk (map (fun s => (s_name s, convention_value d s)) sigs).
Proof.
  intros fsize sigs at_ ae d Hlen Hall. subst fsize.
  unfold frame_unpack, unpack_gate. rewrite Z.eqb_refl.
  rewrite (Z.mul_comm (zlen d) 8). rewrite decode_all_values by assumption. reflexivity.
Qed.
