From CM Require Import lib.Prelude model.ArbId proofs.BitLemmas.

Lemma g_sa id : Z.land id 255 = f_sa id.
Proof. exact (land_ones_mod id 8 ltac:(lia)). Qed.
Lemma g_ps id : Z.land (Z.shiftr id 8) 255 = f_ps id.
Proof. exact (land_ones_div id 8 8 ltac:(lia) ltac:(lia)). Qed.
Lemma g_pf id : Z.land (Z.shiftr id 16) 255 = f_pf id.
Proof. exact (land_ones_div id 16 8 ltac:(lia) ltac:(lia)). Qed.
Lemma g_dp id : Z.land (Z.shiftr id 24) 1 = f_dp id.
Proof. exact (land_ones_div id 24 1 ltac:(lia) ltac:(lia)). Qed.
Lemma g_edp id : Z.land (Z.shiftr id 25) 1 = f_edp id.
Proof. exact (land_ones_div id 25 1 ltac:(lia) ltac:(lia)). Qed.
Lemma g_prio id : Z.land (Z.shiftr id 26) 7 = f_prio id.
Proof. exact (land_ones_div id 26 3 ltac:(lia) ltac:(lia)). Qed.

Lemma fields_of_compose : forall prio edp dp pf ps sa,
  0 <= prio < 8 -> 0 <= edp < 2 -> 0 <= dp < 2 -> 0 <= pf < 256 -> 0 <= ps < 256 -> 0 <= sa < 256 ->
  let id := prio * 2 ^ 26 + edp * 2 ^ 25 + dp * 2 ^ 24 + pf * 2 ^ 16 + ps * 2 ^ 8 + sa in
  0 <= id < 2 ^ 29 /\ f_prio id = prio /\ f_edp id = edp /\ f_dp id = dp /\ f_pf id = pf /\ f_ps id = ps /\ f_sa id = sa.
Proof.
  intros prio edp dp pf ps sa H1 H2 H3 H4 H5 H6 id.
  unfold f_prio, f_edp, f_dp, f_pf, f_ps, f_sa. subst id.
  repeat split; try lia.
Qed.

Lemma set_source_val id v :
  Z.lor (Z.land id 4294967040) (Z.land v 255) = ((id / 2 ^ 8) mod 2 ^ 24) * 2 ^ 8 + v mod 2 ^ 8.
Proof.
  change 4294967040 with (Z.shiftl (Z.ones 24) 8). change 255 with (Z.ones 8).
  rewrite land_shifted_ones, land_ones_mod by lia.
  apply lor_disjoint_add; [lia | apply Z.mod_pos_bound; lia].
Qed.

Lemma set_priority_val id v :
  Z.lor (Z.land id 67108863) (Z.shiftl (Z.land v 7) 26) = (v mod 2 ^ 3) * 2 ^ 26 + id mod 2 ^ 26.
Proof.
  change 67108863 with (Z.ones 26). change 7 with (Z.ones 3).
  rewrite !land_ones_mod, Z.shiftl_mul_pow2 by lia.
  apply lor_disjoint_add_l; [lia | apply Z.mod_pos_bound; lia].
Qed.

Lemma set_pgn_val id v :
  Z.lor (Z.land id 4227858687) (Z.land (Z.shiftl (Z.land v 262143) 8) 67108608)
  = ((id / 2 ^ 26) mod 2 ^ 6) * 2 ^ 26 + ((v mod 2 ^ 18) * 2 ^ 8 + id mod 2 ^ 8).
Proof.
  change 4227858687 with (Z.lor (Z.shiftl (Z.ones 6) 26) (Z.ones 8)).
  change 67108608 with (Z.shiftl (Z.ones 18) 8). change 262143 with (Z.ones 18).
  rewrite Z.land_lor_distr_r.
  rewrite !land_shifted_ones, !land_ones_mod, Z.shiftl_mul_pow2 by lia.
  rewrite Z.div_mul by lia. rewrite Z.mod_mod by lia.
  rewrite <- Z.lor_assoc.
  assert (H8 : 0 <= id mod 2 ^ 8 < 2 ^ 8) by (apply Z.mod_pos_bound; lia).
  assert (H18 : 0 <= v mod 2 ^ 18 < 2 ^ 18) by (apply Z.mod_pos_bound; lia).
  rewrite (lor_disjoint_add_l (v mod 2 ^ 18) 8 (id mod 2 ^ 8)) by lia.
  apply lor_disjoint_add; [lia|].
  clear - H8 H18. lia.
Qed.

Lemma field_ranges : forall id,
  0 <= f_prio id < 8 /\ 0 <= f_edp id < 2 /\ 0 <= f_dp id < 2 /\
  0 <= f_pf id < 256 /\ 0 <= f_ps id < 256 /\ 0 <= f_sa id < 256.
Proof. intros id. unfold f_prio, f_edp, f_dp, f_pf, f_ps, f_sa. lia. Qed.

Lemma decompose_29 : forall id, 0 <= id < 2 ^ 29 ->
  id = f_prio id * 2 ^ 26 + f_edp id * 2 ^ 25 + f_dp id * 2 ^ 24 + f_pf id * 2 ^ 16 + f_ps id * 2 ^ 8 + f_sa id.
Proof. intros id H. unfold f_prio, f_edp, f_dp, f_pf, f_ps, f_sa. lia. Qed.

(* ---- construction / range check ---- *)
Lemma mk_arbid_some_iff : forall id ext,
  mk_arbid id ext = Some (id, ext) <-> 0 <= id < (if ext then 2 ^ 29 else 2 ^ 11).
Proof.
  intros id ext. unfold mk_arbid.
  assert (E : (if ext then extended_id_mask else standard_id_mask) = Z.ones (if ext then 29 else 11))
    by (destruct ext; reflexivity).
  rewrite E.
  assert (R : (if ext then 2 ^ 29 else 2 ^ 11) = 2 ^ (if ext then 29 else 11)) by (destruct ext; reflexivity).
  rewrite R.
  rewrite <- (eq_land_ones_iff id (if ext then 29 else 11)) by (destruct ext; lia).
  destruct (Z.eqb_spec id (Z.land id (Z.ones (if ext then 29 else 11)))) as [He | Hne].
  - split; [intros _; exact He | reflexivity].
  - split; [discriminate | intros H; contradiction].
Qed.

Lemma mk_arbid_cases : forall id ext, mk_arbid id ext = Some (id, ext) \/ mk_arbid id ext = None.
Proof. intros id ext. unfold mk_arbid. case_if; [left | right]; reflexivity. Qed.

Lemma constructible_iff_in_range :
  forall id ext,
    (mk_arbid id ext = Some (id, ext) <-> 0 <= id < (if ext then 2 ^ 29 else 2 ^ 11)) /\
    (mk_arbid id ext = None <-> ~ (0 <= id < (if ext then 2 ^ 29 else 2 ^ 11))).
Proof.
  intros id ext. split; [apply mk_arbid_some_iff|].
  rewrite <- mk_arbid_some_iff.
  destruct (mk_arbid_cases id ext) as [H | H]; rewrite H; split; try congruence.
Qed.

(* ---- compound integer ---- *)
Lemma from_compound_val : forall c,
  from_compound_integer c = mk_arbid (c mod 2 ^ 29) (negb (((c / 2 ^ 31) mod 2 ^ 1) * 2 ^ 31 =? 0)).
Proof.
  intros c. unfold from_compound_integer.
  change extended_id_mask with (Z.ones 29). change compound_extended_mask with (Z.shiftl (Z.ones 1) 31).
  rewrite land_ones_mod, land_shifted_ones by lia. reflexivity.
Qed.

Lemma to_compound_ext : forall id, 0 <= id < 2 ^ 31 -> to_compound_integer (id, true) = 2 ^ 31 + id.
Proof.
  intros id H. unfold to_compound_integer; cbn [fst snd].
  change compound_extended_mask with (1 * 2 ^ 31).
  rewrite lor_disjoint_add_l by lia. reflexivity.
Qed.

Lemma compound_roundtrip_id :
  forall a, valid_ext a \/ valid_std a -> from_compound_integer (to_compound_integer a) = Some a.
Proof.
  intros [id ext] [[He Hr] | [He Hr]]; cbn [fst snd] in *; subst ext.
  - rewrite to_compound_ext by lia. rewrite from_compound_val.
    replace ((2 ^ 31 + id) mod 2 ^ 29) with id by lia.
    replace ((2 ^ 31 + id) / 2 ^ 31 mod 2 ^ 1) with 1 by lia.
    change (negb (1 * 2 ^ 31 =? 0)) with true.
    apply (mk_arbid_some_iff id true). exact Hr.
  - unfold to_compound_integer; cbn [fst snd]. rewrite from_compound_val.
    replace (id mod 2 ^ 29) with id by lia.
    replace (id / 2 ^ 31 mod 2 ^ 1) with 0 by lia.
    change (negb (0 * 2 ^ 31 =? 0)) with false.
    apply (mk_arbid_some_iff id false). exact Hr.
Qed.

Lemma compound_roundtrip_int :
  forall c a, 0 <= c < 2 ^ 32 -> from_compound_integer c = Some a ->
    to_compound_integer a = c - (c / 2 ^ 29 mod 4) * 2 ^ 29 /\
    (0 <= c < 2 ^ 11 \/ 2 ^ 31 <= c < 2 ^ 31 + 2 ^ 29 -> to_compound_integer a = c).
Proof.
  intros c a Hc H. rewrite from_compound_val in H.
  destruct (Z.ltb_spec c (2 ^ 31)) as [Hlo | Hhi].
  - replace (c / 2 ^ 31 mod 2 ^ 1) with 0 in H by lia.
    change (negb (0 * 2 ^ 31 =? 0)) with false in H.
    destruct (mk_arbid_cases (c mod 2 ^ 29) false) as [E | E]; rewrite E in H; [|discriminate].
    assert (Ha : a = (c mod 2 ^ 29, false)) by congruence. subst a.
    unfold to_compound_integer; cbn [fst snd]. clear E H. split; lia.
  - replace (c / 2 ^ 31 mod 2 ^ 1) with 1 in H by lia.
    change (negb (1 * 2 ^ 31 =? 0)) with true in H.
    destruct (mk_arbid_cases (c mod 2 ^ 29) true) as [E | E]; rewrite E in H; [|discriminate].
    assert (Ha : a = (c mod 2 ^ 29, true)) by congruence. subst a.
    rewrite to_compound_ext by lia. clear E H. split; lia.
Qed.

Lemma compound_rejects_wide_standard :
  forall c, 2 ^ 11 <= c < 2 ^ 29 -> from_compound_integer c = None.
Proof.
  intros c Hc. rewrite from_compound_val.
  replace (c mod 2 ^ 29) with c by lia.
  replace (c / 2 ^ 31 mod 2 ^ 1) with 0 by lia.
  change (negb (0 * 2 ^ 31 =? 0)) with false.
  apply (constructible_iff_in_range c false). lia.
Qed.

(* ---- getters ---- *)
Lemma fields_and_recompose :
  forall a, valid_ext a ->
    let id := fst a in
    j1939_source a = Some (f_sa id) /\ j1939_ps a = Some (f_ps id) /\ j1939_pf a = Some (f_pf id) /\
    j1939_dp a = Some (f_dp id) /\ j1939_edp a = Some (f_edp id) /\ j1939_priority a = Some (f_prio id) /\
    id = f_prio id * 2 ^ 26 + f_edp id * 2 ^ 25 + f_dp id * 2 ^ 24 + f_pf id * 2 ^ 16 + f_ps id * 2 ^ 8 + f_sa id.
Proof.
  intros [id ext] [He Hr]; cbn [fst snd] in *; subst ext.
  unfold j1939_source, j1939_ps, j1939_pf, j1939_dp, j1939_edp, j1939_priority, guard_ext; cbn [fst snd].
  rewrite g_sa, g_ps, g_pf, g_dp, g_edp, g_prio.
  repeat split. apply decompose_29; exact Hr.
Qed.

Lemma getters_need_extended :
  forall a, snd a = false ->
    j1939_source a = None /\ j1939_ps a = None /\ j1939_pf a = None /\ j1939_dp a = None /\
    j1939_edp a = None /\ j1939_priority a = None /\ pgn a = None /\ j1939_destination a = None.
Proof.
  intros [id ext] He; cbn [snd] in He; subst ext.
  unfold j1939_source, j1939_ps, j1939_pf, j1939_dp, j1939_edp, j1939_priority, guard_ext, pgn,
    j1939_destination; cbn [fst snd].
  repeat split.
Qed.

Lemma pgn_ext_val : forall id, pgn (id, true) = Some (spec_pgn id).
Proof.
  intros id. unfold pgn; cbn [fst snd].
  rewrite g_ps, g_pf, g_dp, g_edp, !Z.shiftl_mul_pow2 by lia.
  f_equal. unfold spec_pgn. ring.
Qed.

Lemma pgn_rule :
  forall a, valid_ext a ->
    pgn a = Some (spec_pgn (fst a)) /\
    j1939_destination a = Some (if f_pf (fst a) <? 240 then Some (f_ps (fst a)) else None).
Proof.
  intros [id ext] [He Hr]; cbn [fst snd] in *; subst ext.
  split; [apply pgn_ext_val|].
  unfold j1939_destination; cbn [fst snd]. rewrite g_ps, g_pf. reflexivity.
Qed.

(* ---- setters ---- *)
Lemma set_priority_frame :
  forall a v, valid_ext a ->
    let b := set_priority a v in
    valid_ext b /\ f_prio (fst b) = v mod 8 /\ f_edp (fst b) = f_edp (fst a) /\ f_dp (fst b) = f_dp (fst a) /\
    f_pf (fst b) = f_pf (fst a) /\ f_ps (fst b) = f_ps (fst a) /\ f_sa (fst b) = f_sa (fst a).
Proof.
  intros [id ext] v [He Hr]; cbn [fst snd] in *; subst ext.
  unfold set_priority, valid_ext; cbn [fst snd]. rewrite set_priority_val.
  unfold f_prio, f_edp, f_dp, f_pf, f_ps, f_sa.
  repeat split; lia.
Qed.

Lemma set_source_frame :
  forall a v, valid_ext a ->
    let b := set_source a v in
    valid_ext b /\ f_sa (fst b) = v mod 256 /\ f_prio (fst b) = f_prio (fst a) /\ f_edp (fst b) = f_edp (fst a) /\
    f_dp (fst b) = f_dp (fst a) /\ f_pf (fst b) = f_pf (fst a) /\ f_ps (fst b) = f_ps (fst a).
Proof.
  intros [id ext] v [He Hr]; cbn [fst snd] in *; subst ext.
  unfold set_source, valid_ext; cbn [fst snd]. rewrite set_source_val.
  unfold f_prio, f_edp, f_dp, f_pf, f_ps, f_sa.
  repeat split; lia.
Qed.

Lemma set_pgn_frame :
  forall a v, valid_ext a ->
    let b := set_pgn a v in
    valid_ext b /\ f_prio (fst b) = f_prio (fst a) /\ f_sa (fst b) = f_sa (fst a) /\
    f_edp (fst b) = (v / 2 ^ 17) mod 2 /\ f_dp (fst b) = (v / 2 ^ 16) mod 2 /\
    f_pf (fst b) = (v / 2 ^ 8) mod 256 /\ f_ps (fst b) = v mod 256.
Proof.
  intros [id ext] v [He Hr]; cbn [fst snd] in *; subst ext.
  unfold set_pgn, valid_ext; cbn [fst snd]. rewrite set_pgn_val.
  unfold f_prio, f_edp, f_dp, f_pf, f_ps, f_sa.
  repeat split; lia.
Qed.

(* ---- PGN ---- *)
Lemma pgn_eq_iff :
  forall id id', 0 <= id < 2 ^ 29 -> 0 <= id' < 2 ^ 29 ->
    (spec_pgn id = spec_pgn id' <->
     f_edp id = f_edp id' /\ f_dp id = f_dp id' /\ f_pf id = f_pf id' /\ (240 <= f_pf id -> f_ps id = f_ps id')).
Proof.
  intros id id' _ _. unfold spec_pgn.
  pose proof (field_ranges id) as (_ & He & Hd & Hf & Hs & _).
  pose proof (field_ranges id') as (_ & He' & Hd' & Hf' & Hs' & _).
  generalize dependent (f_edp id); generalize dependent (f_dp id); generalize dependent (f_pf id);
    generalize dependent (f_ps id).
  generalize dependent (f_edp id'); generalize dependent (f_dp id'); generalize dependent (f_pf id');
    generalize dependent (f_ps id').
  intros ps' Hs' pf' Hf' dp' Hd' edp' He' ps Hs pf Hf dp Hd edp He.
  destruct (Z.ltb_spec pf 240) as [H1 | H1]; destruct (Z.ltb_spec pf' 240) as [H2 | H2]; lia.
Qed.

Lemma spec_pgn_range : forall id, 0 <= spec_pgn id < 2 ^ 18.
Proof.
  intros id. unfold spec_pgn.
  pose proof (field_ranges id) as (_ & He & Hd & Hf & Hs & _).
  destruct (f_pf id <? 240); lia.
Qed.

Lemma spec_pgn_shift : forall id, spec_pgn (spec_pgn id * 2 ^ 8) = spec_pgn id.
Proof.
  intros id.
  pose proof (field_ranges id) as (_ & He & Hd & Hf & Hs & _).
  set (x := if f_pf id <? 240 then 0 else f_ps id).
  assert (Hx : 0 <= x < 256) by (subst x; destruct (f_pf id <? 240); lia).
  assert (Hx0 : (if f_pf id <? 240 then 0 else x) = x) by (subst x; destruct (f_pf id <? 240); reflexivity).
  assert (E : spec_pgn id * 2 ^ 8 =
              0 * 2 ^ 26 + f_edp id * 2 ^ 25 + f_dp id * 2 ^ 24 + f_pf id * 2 ^ 16 + x * 2 ^ 8 + 0)
    by (unfold spec_pgn; fold x; ring).
  destruct (fields_of_compose 0 (f_edp id) (f_dp id) (f_pf id) x 0 ltac:(lia) He Hd Hf Hx ltac:(lia))
    as (_ & _ & E1 & E2 & E3 & E4 & _).
  rewrite <- E in E1, E2, E3, E4.
  unfold spec_pgn at 1. rewrite E1, E2, E3, E4, Hx0. unfold spec_pgn. fold x. reflexivity.
Qed.

Lemma from_pgn_spec_val : forall id,
  from_pgn (spec_pgn id) = Some (spec_pgn id * 2 ^ 8, true).
Proof.
  intros id. unfold from_pgn. rewrite Z.shiftl_mul_pow2 by lia.
  apply (mk_arbid_some_iff (spec_pgn id * 2 ^ 8) true).
  pose proof (spec_pgn_range id). lia.
Qed.

Lemma from_pgn_normalises :
  forall a, valid_ext a ->
    exists fp, from_pgn (spec_pgn (fst a)) = Some fp /\ pgn fp = Some (spec_pgn (fst a)).
Proof.
  intros a _. exists (spec_pgn (fst a) * 2 ^ 8, true). split.
  - apply from_pgn_spec_val.
  - rewrite pgn_ext_val, spec_pgn_shift. reflexivity.
Qed.

(* ---- frame selection ---- *)
Lemma frame_by_pgn_spec : forall g fp frames,
  from_pgn g = Some fp -> pgn fp = Some g ->
  Forall (fun f => valid_ext (fr_id f) \/ valid_std (fr_id f)) frames ->
  frame_by_pgn g frames = match first_with_pgn g frames with Some f => PFound f | None => PNone end.
Proof.
  intros g fp frames Hfp Hpg HF. induction HF as [| f r Hf _ IH]; [reflexivity|].
  cbn [frame_by_pgn first_with_pgn].
  destruct (snd (fr_id f)) eqn:He; cbn [andb]; [|exact IH].
  rewrite Hfp, Hpg.
  destruct (fr_id f) as [fid fext] eqn:Eid; cbn [fst snd] in *. subst fext.
  rewrite pgn_ext_val. cbn [opt_eqb].
  destruct (spec_pgn fid =? g); [reflexivity | exact IH].
Qed.

Lemma decode_select_spec :
  forall a frames,
    existsb fr_j1939 frames = true ->
    Forall (fun f => valid_ext (fr_id f) \/ valid_std (fr_id f)) frames ->
    (valid_ext a ->
       decode_select a frames =
         match scan_by_id a frames with
         | Some f => SelFrame f
         | None => match first_with_pgn (spec_pgn (fst a)) frames with
                   | Some f => SelFrame f
                   | None => SelEmpty
                   end
         end) /\
    (valid_std a -> decode_select a frames = SelEmpty).
Proof.
  intros a frames Hex HF. unfold decode_select. rewrite Hex. cbn [negb]. split.
  - intros Ha. destruct (pgn_rule a Ha) as [Hp _]. destruct Ha as [He Hr]. rewrite He.
    destruct (scan_by_id a frames); [reflexivity|].
    rewrite Hp.
    rewrite (frame_by_pgn_spec _ _ frames (from_pgn_spec_val (fst a))
               (eq_trans (pgn_ext_val _) (f_equal Some (spec_pgn_shift (fst a)))) HF).
    destruct (first_with_pgn (spec_pgn (fst a)) frames); reflexivity.
  - intros [He _]. rewrite He. reflexivity.
Qed.
