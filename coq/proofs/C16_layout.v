(* C16, part 1: the usage map (get_frame_layout / layout_of) lists exactly the occupying signals. *)
From CM Require Import lib.Prelude model.Codec model.Layout proofs.Codec_encode_lib.

(* ---------- interval view of `occupies` ---------- *)

(* in its walking coordinate (LSB0 number for Intel, sequential MSB0 number for Motorola) a signal is the
   interval [start, start+size) *)
Definition wocc (s : signal) (n : Z) : bool := (s_start s <=? n) && (n <? s_start s + s_size s).
Definition occz (s : signal) (p : Z) : bool := wocc s (walk_pos (s_le s) p).

Lemma flip_invol : forall n, 8 * ((8 * (n / 8) + (7 - n mod 8)) / 8) + (7 - (8 * (n / 8) + (7 - n mod 8)) mod 8) = n.
Proof. intros n. lia. Qed.

Lemma walk_pos_invol : forall le p, walk_pos le (walk_pos le p) = p.
Proof. intros [|] p; unfold walk_pos; [apply flip_invol|reflexivity]. Qed.

Lemma occupies_occz : forall s p, occupies s p <-> occz s p = true.
Proof.
  intros s p. unfold occupies, occz, wocc, pos_of, walk_pos. destruct (s_le s).
  - split.
    + intros [i [Hi Hp]]. subst p. rewrite flip_invol. lia.
    + intros H. exists (Z.to_nat (8 * (p / 8) + (7 - p mod 8) - s_start s)). split; [lia|].
      rewrite Z2Nat.id by lia.
      replace (s_start s + (8 * (p / 8) + (7 - p mod 8) - s_start s)) with (8 * (p / 8) + (7 - p mod 8)) by lia.
      apply flip_invol.
  - split.
    + intros [i [Hi Hp]]. lia.
    + intros H. exists (Z.to_nat (s_start s + s_size s - 1 - p)). split; lia.
Qed.

Lemma occupies_dec : forall s p, occupies s p \/ ~ occupies s p.
Proof.
  intros s p. destruct (occz s p) eqn:E.
  - left. apply occupies_occz. exact E.
  - right. intros H. apply occupies_occz in H. congruence.
Qed.

Lemma inside_inside0 : forall N s, inside N s = true -> inside0 N s = true.
Proof. intros N s H. unfold inside, inside0 in *. lia. Qed.

Lemma inside0_facts : forall N s, inside0 N s = true -> 0 <= s_start s /\ 0 <= s_size s /\ s_start s + s_size s <= N.
Proof. intros N s H. unfold inside0 in H. lia. Qed.

(* ---------- mark ---------- *)

Lemma mark_from_length : forall A (l : list (list A)) i a b x, length (mark_from i l a b x) = length l.
Proof. induction l as [|c r IH]; intros; cbn [mark_from length]; [reflexivity|]. rewrite IH. reflexivity. Qed.

Lemma mark_from_nth : forall A (l : list (list A)) i a b x q, (q < length l)%nat ->
  nth q (mark_from i l a b x) [] =
    if (a <=? i + Z.of_nat q) && (i + Z.of_nat q <? b) then nth q l [] ++ [x] else nth q l [].
Proof.
  induction l as [|c r IH]; intros i a b x q Hq; cbn [length] in Hq; [lia|].
  cbn [mark_from]. destruct q as [|q].
  - cbn [nth]. replace (i + Z.of_nat 0) with i by lia. reflexivity.
  - cbn [nth]. rewrite IH by lia. replace (i + 1 + Z.of_nat q) with (i + Z.of_nat (S q)) by lia. reflexivity.
Qed.

Lemma zlen_mark : forall A (l : list (list A)) a b x, zlen (mark l a b x) = zlen l.
Proof. intros. unfold mark, zlen. rewrite mark_from_length. reflexivity. Qed.

Lemma znth_mark : forall A (l : list (list A)) a b x q, 0 <= q < zlen l ->
  znth (mark l a b x) q [] =
    if (py_bound (zlen l) a <=? q) && (q <? py_bound (zlen l) b) then znth l q [] ++ [x] else znth l q [].
Proof.
  intros A l a b x q Hq. unfold znth, mark. unfold zlen in Hq. rewrite mark_from_nth by lia.
  rewrite Z2Nat.id by lia. reflexivity.
Qed.

(* ---------- the fold over the signals ---------- *)

Definition lrange (N : Z) (s : signal) (q : Z) : bool :=
  (py_bound N (N - s_start s - s_size s) <=? q) && (q <? py_bound N (N - s_start s)).
Definition brange (N : Z) (s : signal) (q : Z) : bool :=
  (py_bound N (s_start s) <=? q) && (q <? py_bound N (s_start s + s_size s)).

Lemma fold_spec : forall A N (items : list (A * signal)) lb bb,
  zlen lb = N -> zlen bb = N ->
  let acc := fold_left layout_step items (lb, bb) in
  zlen (fst acc) = N /\ zlen (snd acc) = N /\
  forall q, 0 <= q < N ->
    znth (fst acc) q [] = znth lb q [] ++ map fst (filter (fun it => s_le (snd it) && lrange N (snd it) q) items) /\
    znth (snd acc) q [] = znth bb q [] ++ map fst (filter (fun it => negb (s_le (snd it)) && brange N (snd it) q) items).
Proof.
  intros A N items. induction items as [|it r IH]; intros lb bb Hl Hb.
  - cbn [fold_left fst snd filter map]. repeat split; try assumption; rewrite app_nil_r; reflexivity.
  - cbn [fold_left].
    destruct (s_le (snd it)) eqn:Ele.
    + replace (layout_step (lb, bb) it)
        with (mark lb (zlen lb - s_start (snd it) - s_size (snd it)) (zlen lb - s_start (snd it)) (fst it), bb)
        by (unfold layout_step; rewrite Ele; reflexivity).
      specialize (IH (mark lb (zlen lb - s_start (snd it) - s_size (snd it)) (zlen lb - s_start (snd it)) (fst it)) bb).
      rewrite zlen_mark in IH. specialize (IH Hl Hb). cbv zeta in IH |- *.
      destruct IH as [I1 [I2 I3]]. split; [exact I1|]. split; [exact I2|].
      intros q Hq. destruct (I3 q Hq) as [J1 J2]. split.
      * rewrite J1. rewrite znth_mark by lia. cbn [filter]. rewrite Ele. cbn [andb negb].
        unfold lrange at 2. rewrite Hl.
        destruct ((py_bound N (N - s_start (snd it) - s_size (snd it)) <=? q) && (q <? py_bound N (N - s_start (snd it)))).
        -- cbn [map]. rewrite <- app_assoc. reflexivity.
        -- reflexivity.
      * rewrite J2. cbn [filter]. rewrite Ele. cbn [andb negb]. reflexivity.
    + replace (layout_step (lb, bb) it)
        with (lb, mark bb (s_start (snd it)) (s_start (snd it) + s_size (snd it)) (fst it))
        by (unfold layout_step; rewrite Ele; reflexivity).
      specialize (IH lb (mark bb (s_start (snd it)) (s_start (snd it) + s_size (snd it)) (fst it))).
      rewrite zlen_mark in IH. specialize (IH Hl Hb). cbv zeta in IH |- *.
      destruct IH as [I1 [I2 I3]]. split; [exact I1|]. split; [exact I2|].
      intros q Hq. destruct (I3 q Hq) as [J1 J2]. split.
      * rewrite J1. cbn [filter]. rewrite Ele. cbn [andb negb]. reflexivity.
      * rewrite J2. rewrite znth_mark by lia. cbn [filter]. rewrite Ele. cbn [andb negb].
        unfold brange at 2. rewrite Hb.
        destruct ((py_bound N (s_start (snd it)) <=? q) && (q <? py_bound N (s_start (snd it) + s_size (snd it)))).
        -- cbn [map]. rewrite <- app_assoc. reflexivity.
        -- reflexivity.
Qed.

(* inside the frame the slices are the plain intervals *)
Lemma lrange_inside : forall N s q, inside0 N s = true -> 0 <= q < N ->
  lrange N s q = wocc s (N - 1 - q).
Proof.
  intros N s q Hin Hq. apply inside0_facts in Hin. unfold lrange, wocc, py_bound.
  destruct (N - s_start s - s_size s <? 0) eqn:E1; destruct (N - s_start s <? 0) eqn:E2; lia.
Qed.

Lemma brange_inside : forall N s q, inside0 N s = true -> 0 <= q < N ->
  brange N s q = wocc s q.
Proof.
  intros N s q Hin Hq. apply inside0_facts in Hin. unfold brange, wocc, py_bound.
  destruct (s_start s <? 0) eqn:E1; destruct (s_start s + s_size s <? 0) eqn:E2; lia.
Qed.

(* ---------- the usage map ---------- *)

Definition cell_of {A} (items : list (A * signal)) (p : Z) : list A :=
  map fst (filter (fun it => s_le (snd it) && occz (snd it) p) items) ++
  map fst (filter (fun it => negb (s_le (snd it)) && occz (snd it) p) items).

Lemma zlen_empty_cells : forall A f, 0 <= f -> zlen (repeat (@nil A) (Z.to_nat (f * 8))) = 8 * f.
Proof. intros. rewrite zlen_repeat. lia. Qed.

Lemma znth_empty_cells : forall A n q, znth (repeat (@nil A) n) q [] = [].
Proof. intros. apply znth_repeat. Qed.

Lemma nth_map_combine_app : forall A (l1 l2 : list (list A)) n,
  (n < length l1)%nat -> (n < length l2)%nat ->
  nth n (map (fun lb : list A * list A => fst lb ++ snd lb) (combine l1 l2)) [] = nth n l1 [] ++ nth n l2 [].
Proof.
  induction l1 as [|c1 r1 IH]; intros l2 n H1 H2; cbn [length] in H1; [lia|].
  destruct l2 as [|c2 r2]; cbn [length] in H2; [lia|].
  destruct n as [|n]; cbn [combine map nth fst snd]; [reflexivity|]. apply IH; lia.
Qed.

Lemma layout_of_spec : forall A f (items : list (A * signal)),
  0 <= f -> Forall (fun it => inside0 (8 * f) (snd it) = true) items ->
  zlen (layout_of f items) = 8 * f /\
  forall p, 0 <= p < 8 * f -> znth (layout_of f items) p [] = cell_of items p.
Proof.
  intros A f items Hf Hin. unfold layout_of.
  pose proof (fold_spec A (8 * f) items (repeat [] (Z.to_nat (f * 8))) (repeat [] (Z.to_nat (f * 8)))
                (zlen_empty_cells A f Hf) (zlen_empty_cells A f Hf)) as S.
  cbv zeta in S. destruct S as [S1 [S2 S3]].
  set (acc := fold_left layout_step items (repeat [] (Z.to_nat (f * 8)), repeat [] (Z.to_nat (f * 8)))) in *.
  assert (L1 : length (fst acc) = (8 * Z.to_nat f)%nat) by (unfold zlen in S1; lia).
  assert (L2 : length (snd acc) = (8 * Z.to_nat f)%nat) by (unfold zlen in S2; lia).
  assert (Lg : length (grev (fst acc)) = (8 * Z.to_nat f)%nat).
  { rewrite (grev_length _ (Z.to_nat f)) by exact L1. exact L1. }
  split.
  - unfold zlen. rewrite map_length, combine_length, Lg, L2. lia.
  - intros p Hp. unfold znth.
    rewrite nth_map_combine_app by lia.
    change (nth (Z.to_nat p) (grev (fst acc)) []) with (znth (grev (fst acc)) p []).
    change (nth (Z.to_nat p) (snd acc) []) with (znth (snd acc) p []).
    rewrite (znth_grev _ [] (Z.to_nat f)) by (try exact L1; lia).
    rewrite Z2Nat.id by lia.
    pose proof (gidx_range f p Hp) as Hg.
    destruct (S3 (gidx f p) Hg) as [J1 _]. destruct (S3 p Hp) as [_ J2].
    rewrite J1, J2. rewrite !znth_empty_cells. cbn [app]. unfold cell_of. f_equal.
    + f_equal. apply filter_ext_in. intros it Hit.
      rewrite Forall_forall in Hin. specialize (Hin it Hit).
      destruct (s_le (snd it)) eqn:Ele; [|reflexivity]. cbn [andb].
      rewrite lrange_inside by assumption. unfold occz. rewrite Ele. f_equal.
      unfold walk_pos, gidx. lia.
    + f_equal. apply filter_ext_in. intros it Hit.
      rewrite Forall_forall in Hin. specialize (Hin it Hit).
      destruct (s_le (snd it)) eqn:Ele; [reflexivity|]. cbn [andb negb].
      rewrite brange_inside by assumption. unfold occz. rewrite Ele. reflexivity.
Qed.

Lemma in_cell_of : forall A (items : list (A * signal)) p a,
  In a (cell_of items p) <-> exists s, In (a, s) items /\ occz s p = true.
Proof.
  intros A items p a. unfold cell_of. rewrite in_app_iff, !in_map_iff. split.
  - intros [[[a' s] [E H]]|[[a' s] [E H]]]; cbn [fst] in E; subst a';
      apply filter_In in H; destruct H as [H1 H2]; cbn [snd] in H2; exists s; split; try exact H1;
      destruct (s_le s); cbn [andb negb] in H2; congruence.
  - intros [s [H1 H2]]. destruct (s_le s) eqn:Ele.
    + left. exists (a, s). split; [reflexivity|]. apply filter_In. split; [exact H1|]. cbn [snd]. rewrite Ele, H2. reflexivity.
    + right. exists (a, s). split; [reflexivity|]. apply filter_In. split; [exact H1|]. cbn [snd]. rewrite Ele, H2. reflexivity.
Qed.

(* ---------- Frame.get_frame_layout ---------- *)

Lemma Forall_inside0_self : forall N sigs, Forall (fun s => inside0 N s = true) sigs ->
  Forall (fun it : signal * signal => inside0 N (snd it) = true) (map (fun s => (s, s)) sigs).
Proof. intros N sigs H. rewrite Forall_map. exact H. Qed.

Theorem layout_lists_exactly_occupants0 : forall f sigs,
  0 <= f -> Forall (fun s => inside0 (8 * f) s = true) sigs ->
  zlen (get_frame_layout f sigs) = 8 * f /\
  forall p s, 0 <= p < 8 * f ->
    (In s (nth (Z.to_nat p) (get_frame_layout f sigs) []) <-> In s sigs /\ occupies s p).
Proof.
  intros f sigs Hf Hin. unfold get_frame_layout.
  destruct (layout_of_spec _ f _ Hf (Forall_inside0_self _ _ Hin)) as [L S]. split; [exact L|].
  intros p s Hp. change (nth (Z.to_nat p) ?l []) with (znth l p []). rewrite S by exact Hp.
  rewrite in_cell_of. rewrite occupies_occz. split.
  - intros [t [H1 H2]]. apply in_map_iff in H1. destruct H1 as [u [E Hu]]. inversion E; subst. split; assumption.
  - intros [H1 H2]. exists s. split; [|exact H2]. apply in_map_iff. exists s. split; [reflexivity|exact H1].
Qed.

Theorem layout_lists_exactly_dependents : forall f sigs,
  0 <= f -> Forall (fun s => inside (8 * f) s = true) sigs ->
  zlen (get_frame_layout f sigs) = 8 * f /\
  forall p s, 0 <= p < 8 * f ->
    (In s (nth (Z.to_nat p) (get_frame_layout f sigs) []) <-> In s sigs /\ occupies s p).
Proof.
  intros f sigs Hf Hin. apply layout_lists_exactly_occupants0; [exact Hf|].
  eapply Forall_impl; [|exact Hin]. intros s H. apply inside_inside0. exact H.
Qed.

(* the cell of a signal list, with the signals themselves as references *)
Lemma layout_cell_nil : forall f sigs p,
  0 <= f -> Forall (fun s => inside0 (8 * f) s = true) sigs -> 0 <= p < 8 * f ->
  (nth (Z.to_nat p) (get_frame_layout f sigs) [] = [] <-> forall s, In s sigs -> occz s p = false).
Proof.
  intros f sigs p Hf Hin Hp.
  destruct (layout_lists_exactly_occupants0 f sigs Hf Hin) as [_ S]. split.
  - intros E s Hs. destruct (occz s p) eqn:O; [|reflexivity]. exfalso.
    assert (In s (nth (Z.to_nat p) (get_frame_layout f sigs) [])) by (apply S; [exact Hp|split; [exact Hs|apply occupies_occz; exact O]]).
    rewrite E in H. exact H.
  - intros H. destruct (nth (Z.to_nat p) (get_frame_layout f sigs) []) as [|s r] eqn:E; [reflexivity|]. exfalso.
    assert (Hs : In s (nth (Z.to_nat p) (get_frame_layout f sigs) [])) by (rewrite E; left; reflexivity).
    apply S in Hs; [|exact Hp]. destruct Hs as [H1 H2]. apply occupies_occz in H2. rewrite (H s H1) in H2. discriminate.
Qed.
