(* C10: the lookups of every reachable world answer like a scan; matrices do not influence each other *)
From CM Require Import lib.Prelude model.ArbId model.Lookup proofs.ArbId_proofs proofs.C10_lib proofs.C10_inv.

(* ---- frame_by_id ---- *)
Lemma lookup_id_inv : forall w i m id ext,
  memo_inv w -> nth_error (w_mats w) i = Some m ->
  exists r, snd (step w (FrameById i id ext)) = RFound r /\
            lookup_ok (has_id (id, ext)) (m_frames m) r /\
            (r = None <-> first_such (has_id (id, ext)) (m_frames m) = None).
Proof.
  intros w i m id ext Hw Hn. cbn [step]. unfold on_mat. rewrite Hn.
  destruct (fbi_spec m (id, ext) (proj1 (inv_nth _ _ _ Hw Hn))) as [Hok _].
  destruct (frame_by_id_m m (id, ext)) as [m' r]. cbn [snd] in *. exists r.
  split; [reflexivity|]. split; [exact Hok | exact (lookup_ok_none_iff _ _ _ Hok)].
Qed.
Lemma lookup_refines_scan : forall ops i m id ext,
  nth_error (w_mats (run init_world ops)) i = Some m ->
  exists r, snd (step (run init_world ops) (FrameById i id ext)) = RFound r /\
            lookup_ok (has_id (id, ext)) (m_frames m) r /\
            (r = None <-> first_such (has_id (id, ext)) (m_frames m) = None).
Proof. intros ops i m id ext Hn. apply lookup_id_inv; [apply memo_inv_reachable | exact Hn]. Qed.

(* a lookup never edits a frame list *)
Lemma lookup_id_keeps_frames : forall w i m id ext,
  nth_error (w_mats w) i = Some m ->
  exists m', nth_error (w_mats (fst (step w (FrameById i id ext)))) i = Some m' /\
             m_frames m' = m_frames m /\ m_ecus m' = m_ecus m /\ m_dead m' = m_dead m.
Proof.
  intros w i m id ext Hn. cbn [step]. unfold on_mat. rewrite Hn.
  pose proof (fbi_shape m (id, ext)) as Hs.
  destruct (frame_by_id_m m (id, ext)) as [m' r]. cbn [fst] in *. exists m'.
  split; [cbn; exact (upd_nth_same _ _ _ _ _ Hn) | exact Hs].
Qed.

(* ---- the plain scans ---- *)
Lemma lookup_name_scan : forall w i m n,
  nth_error (w_mats w) i = Some m ->
  step w (FrameByName i n) = (w, RFound (option_map f_uid (first_such (has_name n) (m_frames m)))) /\
  lookup_ok (has_name n) (m_frames m) (option_map f_uid (first_such (has_name n) (m_frames m))).
Proof.
  intros w i m n Hn. split; [|apply lookup_ok_first].
  cbn [step]. unfold on_mat. rewrite Hn. unfold set_mat. rewrite (upd_nth_id _ _ _ _ Hn).
  rewrite scan_name_first. destruct w; reflexivity.
Qed.
Lemma lookup_hdr_scan : forall w i m h,
  nth_error (w_mats w) i = Some m ->
  step w (FrameByHeaderId i h) = (w, RFound (option_map f_uid (first_such (has_hdr h) (m_frames m)))) /\
  lookup_ok (has_hdr h) (m_frames m) (option_map f_uid (first_such (has_hdr h) (m_frames m))).
Proof.
  intros w i m h Hn. split; [|apply lookup_ok_first].
  cbn [step]. unfold on_mat. rewrite Hn. unfold set_mat. rewrite (upd_nth_id _ _ _ _ Hn).
  rewrite scan_hdr_first. destruct w; reflexivity.
Qed.

Lemma from_pgn_in_range : forall p, 0 <= p < 2 ^ 21 -> from_pgn p = Some (p * 2 ^ 8, true).
Proof.
  intros p Hp. unfold from_pgn. rewrite Z.shiftl_mul_pow2 by lia.
  apply (mk_arbid_some_iff (p * 2 ^ 8) true). lia.
Qed.
Lemma from_pgn_out_of_range : forall p, ~ (0 <= p < 2 ^ 21) -> from_pgn p = None.
Proof.
  intros p Hp. unfold from_pgn. rewrite Z.shiftl_mul_pow2 by lia.
  apply (proj2 (constructible_iff_in_range (p * 2 ^ 8) true)). lia.
Qed.
Lemma pgn_loop_in_range : forall p fs, 0 <= p < 2 ^ 21 ->
  pgn_out (frame_by_pgn p (map to_fr fs)) = RFound (option_map f_uid (first_such (has_pgn p) fs)).
Proof.
  intros p fs Hp. induction fs as [| f r IH]; [reflexivity|].
  cbn [map frame_by_pgn first_such]. unfold has_pgn at 1.
  change (fr_id (to_fr f)) with (f_id f, f_ext f). cbn [snd].
  destruct (f_ext f); cbn [andb]; [|exact IH].
  rewrite (from_pgn_in_range p Hp), !pgn_ext_val. cbn [opt_eqb].
  destruct (spec_pgn (f_id f) =? spec_pgn (p * 2 ^ 8)); [reflexivity | exact IH].
Qed.
Lemma pgn_loop_out_of_range : forall p fs, ~ (0 <= p < 2 ^ 21) ->
  pgn_out (frame_by_pgn p (map to_fr fs)) = if existsb f_ext fs then RErr else RFound None.
Proof.
  intros p fs Hp. induction fs as [| f r IH]; [reflexivity|].
  cbn [map frame_by_pgn existsb]. change (fr_id (to_fr f)) with (f_id f, f_ext f). cbn [snd].
  destruct (f_ext f); cbn [orb]; [|exact IH].
  rewrite (from_pgn_out_of_range p Hp). reflexivity.
Qed.
Lemma lookup_pgn_scan : forall w i m p,
  nth_error (w_mats w) i = Some m ->
  (0 <= p < 2 ^ 21 ->
     step w (FrameByPgn i p) = (w, RFound (option_map f_uid (first_such (has_pgn p) (m_frames m)))) /\
     lookup_ok (has_pgn p) (m_frames m) (option_map f_uid (first_such (has_pgn p) (m_frames m)))) /\
  (~ (0 <= p < 2 ^ 21) ->
     step w (FrameByPgn i p) = (w, if existsb f_ext (m_frames m) then RErr else RFound None)).
Proof.
  intros w i m p Hn.
  assert (E : step w (FrameByPgn i p) = (w, pgn_out (frame_by_pgn p (map to_fr (m_frames m))))).
  { cbn [step]. unfold on_mat. rewrite Hn. unfold set_mat. rewrite (upd_nth_id _ _ _ _ Hn). destruct w; reflexivity. }
  split; intros Hp.
  - split; [|apply lookup_ok_first]. rewrite E, (pgn_loop_in_range _ _ Hp). reflexivity.
  - rewrite E, (pgn_loop_out_of_range _ _ Hp). reflexivity.
Qed.

(* ---- independence ---- *)
(* two states of a matrix that no lookup can tell apart now (same objects, same answers by id) *)
Definition same_view (m1 m2 : matrix) : Prop :=
  m_frames m1 = m_frames m2 /\ m_ecus m1 = m_ecus m2 /\ m_dead m1 = m_dead m2 /\
  forall k, snd (frame_by_id_m m1 k) = snd (frame_by_id_m m2 k).
Lemma same_view_refl : forall m, same_view m m.
Proof. intros m. repeat split. Qed.
Lemma same_view_trans : forall a b c, same_view a b -> same_view b c -> same_view a c.
Proof.
  intros a b c (A1 & A2 & A3 & A4) (B1 & B2 & B3 & B4).
  split; [congruence|]. split; [congruence|]. split; [congruence|]. intros k. rewrite A4. apply B4.
Qed.
Lemma same_view_fbi : forall m k, same_view (fst (frame_by_id_m m k)) m.
Proof.
  intros m k. destruct (fbi_shape m k) as (H1 & H2 & H3).
  repeat split; try assumption. intros k'. apply fbi_idempotent.
Qed.

Lemma on_mat_other : forall w i f j, i <> j ->
  nth_error (w_mats (fst (on_mat w i f))) j = nth_error (w_mats w) j.
Proof.
  intros w i f j H. unfold on_mat. destruct (nth_error (w_mats w) i) as [m|]; [|reflexivity].
  destruct (f m) as [m' r]. cbn. apply upd_nth_other. exact H.
Qed.
Lemma on_mat_new_other : forall w i f j, i <> j ->
  nth_error (w_mats (fst (on_mat_new w i f))) j = nth_error (w_mats w) j.
Proof.
  intros w i f j H. unfold on_mat_new. destruct (nth_error (w_mats w) i) as [m|]; [|reflexivity].
  cbn. apply upd_nth_other. exact H.
Qed.

Definition view_after (w' : world) (j : nat) (m : matrix) (src : nat) : Prop :=
  exists m', nth_error (w_mats w') j = Some m' /\ same_view m' m /\ (src <> j -> m' = m).

Lemma copy_view : forall w src dst k j m,
  dst <> j -> nth_error (w_mats w) j = Some m -> view_after (fst (copy_frame_w w src dst k)) j m src.
Proof.
  intros w src dst k j m Hd Hn. unfold copy_frame_w.
  destruct (nth_error (w_mats w) src) as [ms|] eqn:Es;
    [|exists m; split; [exact Hn | split; [apply same_view_refl | reflexivity]]].
  pose proof (same_view_fbi ms k) as Hv.
  destruct (frame_by_id_m ms k) as [ms' r]. cbn [fst] in Hv.
  (* the world after the source lookup *)
  assert (H1 : view_after (set_mat w src ms') j m src).
  { destruct (Nat.eq_dec src j) as [E | E].
    - subst j. rewrite Es in Hn. inversion Hn; subst m. exists ms'.
      split; [cbn; exact (upd_nth_same _ _ _ _ _ Es) | split; [exact Hv | intros C; contradiction]].
    - exists m. split; [cbn; rewrite upd_nth_other by exact E; exact Hn |
                       split; [apply same_view_refl | reflexivity]]. }
  destruct r as [u|]; [|exact H1].
  destruct (find_obj u ms') as [f|]; [|exact H1].
  destruct (nth_error (w_mats (set_mat w src ms')) dst) as [md|]; [|exact H1].
  destruct (frame_by_id_m md (f_key f)) as [md' r2].
  destruct H1 as (m' & Hm' & Hvm & Heq).
  destruct r2 as [u2|]; cbn [fst]; exists m'; (split; [|split; assumption]);
    cbn [w_mats set_mat]; rewrite upd_nth_other by exact Hd; exact Hm'.
Qed.

Lemma view_after_trans : forall w1 w2 j m src,
  view_after w1 j m src ->
  (forall m1, nth_error (w_mats w1) j = Some m1 -> view_after w2 j m1 src) ->
  view_after w2 j m src.
Proof.
  intros w1 w2 j m src (m1 & Hn1 & Hv1 & He1) H2.
  destruct (H2 m1 Hn1) as (m2 & Hn2 & Hv2 & He2). exists m2.
  split; [exact Hn2|]. split; [exact (same_view_trans _ _ _ Hv2 Hv1)|].
  intros Hs. rewrite (He2 Hs). exact (He1 Hs).
Qed.

Lemma merge_loop_view : forall ks w src dst j m,
  dst <> j -> nth_error (w_mats w) j = Some m -> view_after (fst (merge_loop w src dst ks)) j m src.
Proof.
  induction ks as [| k r IH]; intros w src dst j m Hd Hn; cbn [merge_loop].
  - exists m. split; [exact Hn | split; [apply same_view_refl | reflexivity]].
  - pose proof (copy_view w src dst k j m Hd Hn) as H1.
    destruct (copy_frame_w w src dst k) as [w1 res]. cbn [fst] in H1.
    destruct res; try exact H1;
      (apply (view_after_trans w1 _ j m src H1); intros m1 Hn1; apply IH; assumption).
Qed.

Lemma merge_view : forall w dst src j m,
  dst <> j -> nth_error (w_mats w) j = Some m -> view_after (fst (merge_w w dst src)) j m src.
Proof.
  intros w dst src j m Hd Hn. unfold merge_w.
  assert (H0 : view_after w j m src)
    by (exists m; split; [exact Hn | split; [apply same_view_refl | reflexivity]]).
  destruct (nth_error (w_mats w) src) as [ms|]; [|exact H0].
  destruct (nth_error (w_mats w) dst) as [md0|]; [|exact H0].
  pose proof (merge_loop_view (map f_key (m_frames ms)) w src dst j m Hd Hn) as H1.
  destruct (merge_loop w src dst (map f_key (m_frames ms))) as [w1 res]. cbn [fst] in H1.
  assert (Hfin : view_after (fst (match nth_error (w_mats w1) dst with
                                  | Some md => (set_mat w1 dst (clear_memo md), RUnit)
                                  | None => (w1, RErr) end)) j m src).
  { destruct (nth_error (w_mats w1) dst) as [md|]; [|exact H1]. cbn [fst].
    destruct H1 as (m' & Hm' & Hv & He). exists m'.
    split; [cbn; rewrite upd_nth_other by exact Hd; exact Hm' | split; assumption]. }
  destruct res; try exact Hfin; exact H1.
Qed.

Lemma step_view : forall w o j m,
  op_target o <> Some j -> nth_error (w_mats w) j = Some m ->
  exists m', nth_error (w_mats (fst (step w o))) j = Some m' /\ same_view m' m /\
             (op_source o <> Some j -> m' = m).
Proof.
  intros w o j m Ht Hn.
  assert (Hsame : forall w', nth_error (w_mats w') j = nth_error (w_mats w) j ->
            exists m', nth_error (w_mats w') j = Some m' /\ same_view m' m /\ (op_source o <> Some j -> m' = m)).
  { intros w' E. exists m. rewrite E. split; [exact Hn | split; [apply same_view_refl | reflexivity]]. }
  assert (Hne : forall i, op_target o = Some i -> i <> j) by (intros i E C; apply Ht; rewrite E, C; reflexivity).
  destruct o; cbn [step op_target op_source] in *;
    try (apply Hsame; apply on_mat_other; apply Hne; reflexivity);
    try (apply Hsame; apply on_mat_new_other; apply Hne; reflexivity).
  - (* NewMatrix *) apply Hsame. cbn. rewrite Hn. exact (nth_error_app_old _ _ _ _ _ Hn).
  - (* CopyFrame *)
    destruct (copy_view w src dst (id, ext) j m (Hne dst eq_refl) Hn) as (m' & H1 & H2 & H3).
    exists m'. split; [exact H1 | split; [exact H2|]]. intros Hs. apply H3. intros C. apply Hs. rewrite C. reflexivity.
  - (* Merge *)
    destruct (merge_view w dst src j m (Hne dst eq_refl) Hn) as (m' & H1 & H2 & H3).
    exists m'. split; [exact H1 | split; [exact H2|]]. intros Hs. apply H3. intros C. apply Hs. rewrite C. reflexivity.
Qed.

(* the answer of a lookup on matrix j depends only on the view of matrix j *)
Lemma lookup_same_view : forall w1 w2 j m1 m2 l,
  nth_error (w_mats w1) j = Some m1 -> nth_error (w_mats w2) j = Some m2 -> same_view m1 m2 ->
  is_lookup_on j l -> snd (step w1 l) = snd (step w2 l).
Proof.
  intros w1 w2 j m1 m2 l H1 H2 (Hf & _ & _ & Hk) Hl.
  destruct l; cbn [is_lookup_on] in Hl; try contradiction; subst i; cbn [step]; unfold on_mat; rewrite H1, H2.
  - specialize (Hk (id, ext)).
    destruct (frame_by_id_m m1 (id, ext)) as [a r1], (frame_by_id_m m2 (id, ext)) as [b r2].
    cbn in *. rewrite Hk. reflexivity.
  - cbn. rewrite Hf. reflexivity.
  - cbn. rewrite Hf. reflexivity.
  - cbn. rewrite Hf. reflexivity.
Qed.

Lemma matrices_independent : forall w o j m,
  nth_error (w_mats w) j = Some m -> op_target o <> Some j ->
  (exists m', nth_error (w_mats (fst (step w o))) j = Some m' /\ m_frames m' = m_frames m) /\
  (forall l, is_lookup_on j l -> snd (step (fst (step w o)) l) = snd (step w l)) /\
  (op_source o <> Some j -> nth_error (w_mats (fst (step w o))) j = Some m).
Proof.
  intros w o j m Hn Ht. destruct (step_view w o j m Ht Hn) as (m' & H1 & H2 & H3).
  split; [exists m'; split; [exact H1 | exact (proj1 H2)]|].
  split; [intros l Hl; exact (lookup_same_view _ _ j m' m l H1 Hn H2 Hl)|].
  intros Hs. rewrite H1, (H3 Hs). reflexivity.
Qed.

(* whole histories that are not addressed to matrix j *)
Lemma independent_history : forall ops w j m,
  nth_error (w_mats w) j = Some m -> Forall (fun o => op_target o <> Some j) ops ->
  (exists m', nth_error (w_mats (run w ops)) j = Some m' /\ m_frames m' = m_frames m) /\
  (forall l, is_lookup_on j l -> snd (step (run w ops) l) = snd (step w l)).
Proof.
  assert (G : forall ops w j m, nth_error (w_mats w) j = Some m -> Forall (fun o => op_target o <> Some j) ops ->
              exists m', nth_error (w_mats (run w ops)) j = Some m' /\ same_view m' m).
  { induction ops as [| o r IH]; intros w j m Hn Hall; cbn [run fold_left].
    - exists m. split; [exact Hn | apply same_view_refl].
    - inversion Hall as [| ? ? Ho Hr]; subst.
      destruct (step_view w o j m Ho Hn) as (m1 & H1 & H2 & _).
      destruct (IH (fst (step w o)) j m1 H1 Hr) as (m2 & H3 & H4).
      exists m2. split; [exact H3 | exact (same_view_trans _ _ _ H4 H2)]. }
  intros ops w j m Hn Hall. destruct (G ops w j m Hn Hall) as (m' & H1 & H2).
  split; [exists m'; split; [exact H1 | exact (proj1 H2)]|].
  intros l Hl. exact (lookup_same_view _ _ j m' m l H1 Hn H2 Hl).
Qed.
