(* C02: the encoder (signals_to_bytes) is total on its envelope, inverts decoding, clears foreign bits. *)
From CM Require Import lib.Prelude model.Codec proofs.Codec_encode_lib.

(* ---------- one placement step ---------- *)

Definition sel {A} (le : bool) (lb bb : A) : A := if le then lb else bb.
Definition slot (N : Z) (s : signal) : Z := if s_le s then N - s_start s - s_size s else s_start s.

Definition sig_ok (data : list (Z * raw)) (N : Z) (s : signal) : Prop :=
  forall v, lookup (s_name s) data = Some v -> inside N s = true /\ float_ok s /\ in_range s v.

Definition step (N : Z) (s : signal) (bits : list bool) (lb bb : list (option bool)) :=
  if s_le s then (py_set_slice lb (N - s_start s - s_size s) (N - s_start s) (map Some bits), bb)
  else (lb, py_set_slice bb (s_start s) (s_start s + s_size s) (map Some bits)).

Lemma place_cons_none : forall N s r data lb bb, lookup (s_name s) data = None ->
  place_signals N (s :: r) data lb bb = place_signals N r data lb bb.
Proof. intros N s r data lb bb H. cbn [place_signals]. rewrite H. reflexivity. Qed.

Lemma place_cons_some : forall N s r data lb bb v bits,
  lookup (s_name s) data = Some v -> inside N s = true -> pack_bitstring s v = Some bits ->
  place_signals N (s :: r) data lb bb =
  place_signals N r data (fst (step N s bits lb bb)) (snd (step N s bits lb bb)).
Proof.
  intros N s r data lb bb v bits H1 H2 H3. cbn [place_signals]. rewrite H1, H2, H3.
  unfold step. destruct (s_le s); reflexivity.
Qed.

Lemma znth_map_some : forall (bits : list bool) j, 0 <= j < zlen bits ->
  znth (map Some bits) j None = Some (znth bits j false).
Proof. intros bits j H. apply znth_map. exact H. Qed.

Lemma step_spec : forall N s bits lb bb,
  inside N s = true -> zlen bits = s_size s -> zlen lb = N -> zlen bb = N ->
  zlen (fst (step N s bits lb bb)) = N /\ zlen (snd (step N s bits lb bb)) = N /\
  forall le q, 0 <= q < N ->
    znth (sel le (fst (step N s bits lb bb)) (snd (step N s bits lb bb))) q None =
      if Bool.eqb le (s_le s) && (slot N s <=? q) && (q <? slot N s + s_size s)
      then Some (znth bits (q - slot N s) false) else znth (sel le lb bb) q None.
Proof.
  intros N s bits lb bb Hin Hbits Hlb Hbb. apply inside_facts in Hin. destruct Hin as [H0 [H1 H2]].
  assert (Hm : zlen (map Some bits) = s_size s) by (rewrite zlen_map; exact Hbits).
  unfold step, slot. destruct (s_le s); cbn [fst snd].
  - split; [apply eq_trans with (zlen lb); [apply zlen_py_set_slice; lia|exact Hlb]|].
    split; [exact Hbb|].
    intros le q Hq. destruct le; cbn [sel Bool.eqb andb]; [|reflexivity].
    rewrite znth_py_set_slice by lia.
    destruct (Z.leb_spec (N - s_start s - s_size s) q); cbn [andb]; [|reflexivity].
    destruct (Z.ltb_spec q (N - s_start s)); destruct (Z.ltb_spec q (N - s_start s - s_size s + s_size s));
      try lia; [|reflexivity].
    apply znth_map_some. lia.
  - split; [exact Hlb|].
    split; [apply eq_trans with (zlen bb); [apply zlen_py_set_slice; lia|exact Hbb]|].
    intros le q Hq. destruct le; cbn [sel Bool.eqb andb]; [reflexivity|].
    rewrite znth_py_set_slice by lia.
    destruct (Z.leb_spec (s_start s) q); cbn [andb]; [|reflexivity].
    destruct (Z.ltb_spec q (s_start s + s_size s)); [|reflexivity].
    apply znth_map_some. lia.
Qed.

(* ---------- the placement loop ---------- *)

Lemma place_total : forall data N sigs lb bb,
  Forall (sig_ok data N) sigs -> zlen lb = N -> zlen bb = N ->
  exists lb' bb', place_signals N sigs data lb bb = Some (lb', bb').
Proof.
  intros data N sigs. induction sigs as [|s r IH]; intros lb bb Hok Hlb Hbb.
  - exists lb, bb. reflexivity.
  - inversion Hok as [|s' r' Hs Hr]; subst s' r'.
    destruct (lookup (s_name s) data) as [v|] eqn:E.
    + destruct (Hs v E) as [Hin [Hf Hrng]].
      destruct (pack_bits_spec N s v Hin Hf Hrng) as [bits [Hp [Hl _]]].
      rewrite (place_cons_some _ _ _ _ _ _ _ _ E Hin Hp).
      destruct (step_spec N s bits lb bb Hin Hl Hlb Hbb) as [L1 [L2 _]].
      apply IH; assumption.
    + rewrite place_cons_none by exact E. apply IH; assumption.
Qed.

(* entry x at index q of the `le` array was written by a supplied signal of sigs *)
Definition written (data : list (Z * raw)) (N : Z) (sigs : list signal) (le : bool) (q : Z) (x : option bool) : Prop :=
  exists s v bits j, In s sigs /\ s_le s = le /\ lookup (s_name s) data = Some v /\
    pack_bitstring s v = Some bits /\ 0 <= j < s_size s /\ q = slot N s + j /\ x = Some (znth bits j false).

Lemma written_cons : forall data N s r le q x, written data N r le q x -> written data N (s :: r) le q x.
Proof.
  intros data N s r le q x [t [v [bits [j [H1 H2]]]]]. exists t, v, bits, j. split; [right; exact H1|exact H2].
Qed.

Lemma place_spec : forall data N sigs lb bb lb' bb',
  Forall (sig_ok data N) sigs -> zlen lb = N -> zlen bb = N ->
  place_signals N sigs data lb bb = Some (lb', bb') ->
  zlen lb' = N /\ zlen bb' = N /\
  forall le q, 0 <= q < N ->
    znth (sel le lb' bb') q None = znth (sel le lb bb) q None \/
    written data N sigs le q (znth (sel le lb' bb') q None).
Proof.
  intros data N sigs. induction sigs as [|s r IH]; intros lb bb lb' bb' Hok Hlb Hbb Hp.
  - cbn [place_signals] in Hp. assert (lb' = lb /\ bb' = bb) as [-> ->] by (split; congruence).
    split; [exact Hlb|]. split; [exact Hbb|]. intros le q Hq. left. reflexivity.
  - inversion Hok as [|s' r' Hs Hr]; subst s' r'.
    destruct (lookup (s_name s) data) as [v|] eqn:E.
    + destruct (Hs v E) as [Hin [Hf Hrng]].
      destruct (pack_bits_spec N s v Hin Hf Hrng) as [bits [Hpk [Hl _]]].
      rewrite (place_cons_some _ _ _ _ _ _ _ _ E Hin Hpk) in Hp.
      destruct (step_spec N s bits lb bb Hin Hl Hlb Hbb) as [L1 [L2 L3]].
      destruct (IH _ _ _ _ Hr L1 L2 Hp) as [M1 [M2 M3]].
      split; [exact M1|]. split; [exact M2|].
      intros le q Hq. destruct (M3 le q Hq) as [Heq|Hw].
      * rewrite Heq. rewrite (L3 le q Hq).
        destruct (Bool.eqb le (s_le s) && (slot N s <=? q) && (q <? slot N s + s_size s)) eqn:Ec.
        -- apply andb_prop in Ec. destruct Ec as [Ec Ec3]. apply andb_prop in Ec. destruct Ec as [Ec1 Ec2].
           apply eqb_prop in Ec1.
           right. exists s, v, bits, (q - slot N s).
           split; [left; reflexivity|]. split; [symmetry; exact Ec1|].
           split; [exact E|]. split; [exact Hpk|]. split; [lia|]. split; [lia|reflexivity].
        -- left. reflexivity.
      * right. apply written_cons. exact Hw.
    + rewrite place_cons_none in Hp by exact E.
      destruct (IH _ _ _ _ Hr Hlb Hbb Hp) as [M1 [M2 M3]].
      split; [exact M1|]. split; [exact M2|].
      intros le q Hq. destruct (M3 le q Hq) as [Heq|Hw]; [left; exact Heq|right; apply written_cons; exact Hw].
Qed.

(* ---------- positions ---------- *)

(* final bit-string position of index q of the `le` array, for a frame of f bytes *)
Definition posn (f : Z) (le : bool) (q : Z) : Z := if le then gidx f q else q.

Lemma slot_occupies : forall f s j, inside (8 * f) s = true -> 0 <= j < s_size s ->
  occupies s (posn f (s_le s) (slot (8 * f) s + j)).
Proof.
  intros f s j Hin Hj. apply inside_facts in Hin. destruct Hin as [H0 [H1 H2]].
  exists (Z.to_nat (s_size s - 1 - j)). split; [lia|].
  unfold pos_of, posn, slot, gidx. destruct (s_le s).
  - rewrite Z2Nat.id by lia. lia.
  - rewrite Z2Nat.id by lia. lia.
Qed.

Lemma written_occupies : forall data f sigs le q x, Forall (sig_ok data (8 * f)) sigs ->
  written data (8 * f) sigs le q x ->
  exists t, In t sigs /\ s_le t = le /\ lookup (s_name t) data <> None /\ occupies t (posn f le q).
Proof.
  intros data f sigs le q x Hok [t [v [bits [j [H1 [H2 [H3 [H4 [H5 [H6 H7]]]]]]]]]].
  exists t. split; [exact H1|]. split; [exact H2|]. split; [congruence|].
  rewrite Forall_forall in Hok. destruct (Hok t H1 v H3) as [Hin _].
  subst q. subst le. apply slot_occupies; assumption.
Qed.

Definition disj (s t : signal) : Prop := forall p, ~ (occupies s p /\ occupies t p).

Lemma place_keeps : forall data f sigs lb bb lb' bb',
  Forall (sig_ok data (8 * f)) sigs -> pairwise_disjoint sigs ->
  zlen lb = 8 * f -> zlen bb = 8 * f ->
  place_signals (8 * f) sigs data lb bb = Some (lb', bb') ->
  forall s v bits j, In s sigs -> lookup (s_name s) data = Some v -> pack_bitstring s v = Some bits ->
    0 <= j < s_size s ->
    znth (sel (s_le s) lb' bb') (slot (8 * f) s + j) None = Some (znth bits j false).
Proof.
  intros data f sigs. induction sigs as [|s0 r IH]; intros lb bb lb' bb' Hok Hd Hlb Hbb Hp s v bits j Hs Hv Hpk Hj.
  - destruct Hs.
  - inversion Hok as [|s' r' Hs0 Hr]; subst s' r'.
    unfold pairwise_disjoint in Hd. inversion Hd as [|s' r' Hd0 Hdr]; subst s' r'.
    destruct (lookup (s_name s0) data) as [v0|] eqn:E.
    + destruct (Hs0 v0 E) as [Hin [Hf Hrng]].
      destruct (pack_bits_spec (8 * f) s0 v0 Hin Hf Hrng) as [bits0 [Hpk0 [Hl _]]].
      rewrite (place_cons_some _ _ _ _ _ _ _ _ E Hin Hpk0) in Hp.
      destruct (step_spec (8 * f) s0 bits0 lb bb Hin Hl Hlb Hbb) as [L1 [L2 L3]].
      destruct Hs as [<-|Hs].
      * assert (v = v0) by congruence. subst v. assert (bits = bits0) by congruence. subst bits.
        pose proof (inside_facts _ _ Hin) as [I0 [I1 I2]].
        assert (Hq : 0 <= slot (8 * f) s0 + j < 8 * f) by (unfold slot; destruct (s_le s0); lia).
        destruct (place_spec _ _ _ _ _ _ _ Hr L1 L2 Hp) as [_ [_ M3]].
        destruct (M3 (s_le s0) _ Hq) as [Heq|Hw].
        -- rewrite Heq. rewrite (L3 (s_le s0) _ Hq). rewrite eqb_reflx.
           destruct (Z.leb_spec (slot (8 * f) s0) (slot (8 * f) s0 + j)); [|lia].
           destruct (Z.ltb_spec (slot (8 * f) s0 + j) (slot (8 * f) s0 + s_size s0)); [|lia].
           cbn [andb]. do 2 f_equal. lia.
        -- exfalso. destruct (written_occupies _ _ _ _ _ _ Hr Hw) as [t [T1 [T2 [T3 T4]]]].
           rewrite Forall_forall in Hd0. apply (Hd0 t T1 (posn f (s_le s0) (slot (8 * f) s0 + j))).
           split; [apply slot_occupies; assumption|exact T4].
      * apply (IH _ _ _ _ Hr Hdr L1 L2 Hp s v bits j Hs Hv Hpk Hj).
    + rewrite place_cons_none in Hp by exact E.
      destruct Hs as [<-|Hs]; [congruence|].
      apply (IH _ _ _ _ Hr Hdr Hlb Hbb Hp s v bits j Hs Hv Hpk Hj).
Qed.
