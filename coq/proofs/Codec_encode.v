(* C02: the encoder (signals_to_bytes) is total on its envelope, inverts decoding, clears foreign bits. *)
From CM Require Import lib.Prelude model.Codec proofs.Codec_encode_lib.
From CM Require proofs.Codec_decode.

(* ---------- one placement step ---------- *)

Definition sel {A} (le : bool) (lb bb : A) : A := if le then lb else bb.
Definition slot (N : Z) (s : signal) : Z := if s_le s then N - s_start s - s_size s else s_start s.

Definition sig_ok (data : list (Z * raw)) (N : Z) (s : signal) : Prop :=
  forall v, lookup (s_name s) data = Some v -> inside N s = true /\ float_ok s /\ in_range s v.

Definition step (N : Z) (s : signal) (bits : list bool) (lb bb : list (option bool)) :=
  if s_le s then (py_set_slice lb (N - s_start s - s_size s) (N - s_start s) (map Some bits), bb)
  else (lb, py_set_slice bb (s_start s) (s_start s + s_size s) (map Some bits)).

Lemma place_cons_none : forall N s r data lb bb, lookup (s_name s) data = None ->
  place_signals N (s :: r) data lb bb = place_signals N r data lb bb.
Proof. intros N s r data lb bb H. cbn [place_signals]. rewrite H. reflexivity. Qed.

Lemma place_cons_some : forall N s r data lb bb v bits,
  lookup (s_name s) data = Some v -> inside N s = true -> pack_bitstring s v = Some bits ->
  place_signals N (s :: r) data lb bb =
  place_signals N r data (fst (step N s bits lb bb)) (snd (step N s bits lb bb)).
Proof.
  intros N s r data lb bb v bits H1 H2 H3. cbn [place_signals]. rewrite H1, H2, H3.
  unfold step. destruct (s_le s); reflexivity.
Qed.

Lemma znth_map_some : forall (bits : list bool) j, 0 <= j < zlen bits ->
  znth (map Some bits) j None = Some (znth bits j false).
Proof. intros bits j H. apply znth_map. exact H. Qed.

Lemma step_spec : forall N s bits lb bb,
  inside N s = true -> zlen bits = s_size s -> zlen lb = N -> zlen bb = N ->
  zlen (fst (step N s bits lb bb)) = N /\ zlen (snd (step N s bits lb bb)) = N /\
  forall le q, 0 <= q < N ->
    znth (sel le (fst (step N s bits lb bb)) (snd (step N s bits lb bb))) q None =
      if Bool.eqb le (s_le s) && (slot N s <=? q) && (q <? slot N s + s_size s)
      then Some (znth bits (q - slot N s) false) else znth (sel le lb bb) q None.
Proof.
  intros N s bits lb bb Hin Hbits Hlb Hbb. apply inside_facts in Hin. destruct Hin as [H0 [H1 H2]].
  assert (Hm : zlen (map Some bits) = s_size s) by (rewrite zlen_map; exact Hbits).
  unfold step, slot. destruct (s_le s); cbn [fst snd].
  - split; [apply eq_trans with (zlen lb); [apply zlen_py_set_slice; lia|exact Hlb]|].
    split; [exact Hbb|].
    intros le q Hq. destruct le; cbn [sel Bool.eqb andb]; [|reflexivity].
    rewrite znth_py_set_slice by lia.
    destruct (Z.leb_spec (N - s_start s - s_size s) q); cbn [andb]; [|reflexivity].
    destruct (Z.ltb_spec q (N - s_start s)); destruct (Z.ltb_spec q (N - s_start s - s_size s + s_size s));
      try lia; [|reflexivity].
    apply znth_map_some. lia.
  - split; [exact Hlb|].
    split; [apply eq_trans with (zlen bb); [apply zlen_py_set_slice; lia|exact Hbb]|].
    intros le q Hq. destruct le; cbn [sel Bool.eqb andb]; [reflexivity|].
    rewrite znth_py_set_slice by lia.
    destruct (Z.leb_spec (s_start s) q); cbn [andb]; [|reflexivity].
    destruct (Z.ltb_spec q (s_start s + s_size s)); [|reflexivity].
    apply znth_map_some. lia.
Qed.

(* ---------- the placement loop ---------- *)

Lemma place_total : forall data N sigs lb bb,
  Forall (sig_ok data N) sigs -> zlen lb = N -> zlen bb = N ->
  exists lb' bb', place_signals N sigs data lb bb = Some (lb', bb').
Proof.
  intros data N sigs. induction sigs as [|s r IH]; intros lb bb Hok Hlb Hbb.
  - exists lb, bb. reflexivity.
  - inversion Hok as [|s' r' Hs Hr]; subst s' r'.
    destruct (lookup (s_name s) data) as [v|] eqn:E.
    + destruct (Hs v E) as [Hin [Hf Hrng]].
      destruct (pack_bits_spec N s v Hin Hf Hrng) as [bits [Hp [Hl _]]].
      rewrite (place_cons_some _ _ _ _ _ _ _ _ E Hin Hp).
      destruct (step_spec N s bits lb bb Hin Hl Hlb Hbb) as [L1 [L2 _]].
      apply IH; assumption.
    + rewrite place_cons_none by exact E. apply IH; assumption.
Qed.

(* entry x at index q of the `le` array was written by a supplied signal of sigs *)
Definition written (data : list (Z * raw)) (N : Z) (sigs : list signal) (le : bool) (q : Z) (x : option bool) : Prop :=
  exists s v bits j, In s sigs /\ s_le s = le /\ lookup (s_name s) data = Some v /\
    pack_bitstring s v = Some bits /\ 0 <= j < s_size s /\ q = slot N s + j /\ x = Some (znth bits j false).

Lemma written_cons : forall data N s r le q x, written data N r le q x -> written data N (s :: r) le q x.
Proof.
  intros data N s r le q x [t [v [bits [j [H1 H2]]]]]. exists t, v, bits, j. split; [right; exact H1|exact H2].
Qed.

Lemma place_spec : forall data N sigs lb bb lb' bb',
  Forall (sig_ok data N) sigs -> zlen lb = N -> zlen bb = N ->
  place_signals N sigs data lb bb = Some (lb', bb') ->
  zlen lb' = N /\ zlen bb' = N /\
  forall le q, 0 <= q < N ->
    znth (sel le lb' bb') q None = znth (sel le lb bb) q None \/
    written data N sigs le q (znth (sel le lb' bb') q None).
Proof.
  intros data N sigs. induction sigs as [|s r IH]; intros lb bb lb' bb' Hok Hlb Hbb Hp.
  - cbn [place_signals] in Hp. assert (lb' = lb /\ bb' = bb) as [-> ->] by (split; congruence).
    split; [exact Hlb|]. split; [exact Hbb|]. intros le q Hq. left. reflexivity.
  - inversion Hok as [|s' r' Hs Hr]; subst s' r'.
    destruct (lookup (s_name s) data) as [v|] eqn:E.
    + destruct (Hs v E) as [Hin [Hf Hrng]].
      destruct (pack_bits_spec N s v Hin Hf Hrng) as [bits [Hpk [Hl _]]].
      rewrite (place_cons_some _ _ _ _ _ _ _ _ E Hin Hpk) in Hp.
      destruct (step_spec N s bits lb bb Hin Hl Hlb Hbb) as [L1 [L2 L3]].
      destruct (IH _ _ _ _ Hr L1 L2 Hp) as [M1 [M2 M3]].
      split; [exact M1|]. split; [exact M2|].
      intros le q Hq. destruct (M3 le q Hq) as [Heq|Hw].
      * rewrite Heq. rewrite (L3 le q Hq).
        destruct (Bool.eqb le (s_le s) && (slot N s <=? q) && (q <? slot N s + s_size s)) eqn:Ec.
        -- apply andb_prop in Ec. destruct Ec as [Ec Ec3]. apply andb_prop in Ec. destruct Ec as [Ec1 Ec2].
           apply eqb_prop in Ec1.
           right. exists s, v, bits, (q - slot N s).
           split; [left; reflexivity|]. split; [symmetry; exact Ec1|].
           split; [exact E|]. split; [exact Hpk|]. split; [lia|]. split; [lia|reflexivity].
        -- left. reflexivity.
      * right. apply written_cons. exact Hw.
    + rewrite place_cons_none in Hp by exact E.
      destruct (IH _ _ _ _ Hr Hlb Hbb Hp) as [M1 [M2 M3]].
      split; [exact M1|]. split; [exact M2|].
      intros le q Hq. destruct (M3 le q Hq) as [Heq|Hw]; [left; exact Heq|right; apply written_cons; exact Hw].
Qed.

(* ---------- positions ---------- *)

(* final bit-string position of index q of the `le` array, for a frame of f bytes *)
Definition posn (f : Z) (le : bool) (q : Z) : Z := if le then gidx f q else q.

Lemma slot_occupies : forall f s j, inside (8 * f) s = true -> 0 <= j < s_size s ->
  occupies s (posn f (s_le s) (slot (8 * f) s + j)).
Proof.
  intros f s j Hin Hj. apply inside_facts in Hin. destruct Hin as [H0 [H1 H2]].
  exists (Z.to_nat (s_size s - 1 - j)). split; [lia|].
  unfold pos_of, posn, slot, gidx. destruct (s_le s).
  - rewrite Z2Nat.id by lia. lia.
  - rewrite Z2Nat.id by lia. lia.
Qed.

Lemma written_occupies : forall data f sigs le q x, Forall (sig_ok data (8 * f)) sigs ->
  written data (8 * f) sigs le q x ->
  exists t, In t sigs /\ s_le t = le /\ lookup (s_name t) data <> None /\ occupies t (posn f le q).
Proof.
  intros data f sigs le q x Hok [t [v [bits [j [H1 [H2 [H3 [H4 [H5 [H6 H7]]]]]]]]]].
  exists t. split; [exact H1|]. split; [exact H2|]. split; [congruence|].
  rewrite Forall_forall in Hok. destruct (Hok t H1 v H3) as [Hin _].
  subst q. subst le. apply slot_occupies; assumption.
Qed.

Definition disj (s t : signal) : Prop := forall p, ~ (occupies s p /\ occupies t p).

Lemma place_keeps : forall data f sigs lb bb lb' bb',
  Forall (sig_ok data (8 * f)) sigs -> pairwise_disjoint sigs ->
  zlen lb = 8 * f -> zlen bb = 8 * f ->
  place_signals (8 * f) sigs data lb bb = Some (lb', bb') ->
  forall s v bits j, In s sigs -> lookup (s_name s) data = Some v -> pack_bitstring s v = Some bits ->
    0 <= j < s_size s ->
    znth (sel (s_le s) lb' bb') (slot (8 * f) s + j) None = Some (znth bits j false).
Proof.
  intros data f sigs. induction sigs as [|s0 r IH]; intros lb bb lb' bb' Hok Hd Hlb Hbb Hp s v bits j Hs Hv Hpk Hj.
  - destruct Hs.
  - inversion Hok as [|s' r' Hs0 Hr]; subst s' r'.
    unfold pairwise_disjoint in Hd. inversion Hd as [|s' r' Hd0 Hdr]; subst s' r'.
    destruct (lookup (s_name s0) data) as [v0|] eqn:E.
    + destruct (Hs0 v0 E) as [Hin [Hf Hrng]].
      destruct (pack_bits_spec (8 * f) s0 v0 Hin Hf Hrng) as [bits0 [Hpk0 [Hl _]]].
      rewrite (place_cons_some _ _ _ _ _ _ _ _ E Hin Hpk0) in Hp.
      destruct (step_spec (8 * f) s0 bits0 lb bb Hin Hl Hlb Hbb) as [L1 [L2 L3]].
      destruct Hs as [<-|Hs].
      * assert (v = v0) by congruence. subst v. assert (bits = bits0) by congruence. subst bits.
        pose proof (inside_facts _ _ Hin) as [I0 [I1 I2]].
        assert (Hq : 0 <= slot (8 * f) s0 + j < 8 * f) by (unfold slot; destruct (s_le s0); lia).
        destruct (place_spec _ _ _ _ _ _ _ Hr L1 L2 Hp) as [_ [_ M3]].
        destruct (M3 (s_le s0) _ Hq) as [Heq|Hw].
        -- rewrite Heq. rewrite (L3 (s_le s0) _ Hq). rewrite eqb_reflx.
           destruct (Z.leb_spec (slot (8 * f) s0) (slot (8 * f) s0 + j)); [|lia].
           destruct (Z.ltb_spec (slot (8 * f) s0 + j) (slot (8 * f) s0 + s_size s0)); [|lia].
           cbn [andb]. do 2 f_equal. lia.
        -- exfalso. destruct (written_occupies _ _ _ _ _ _ Hr Hw) as [t [T1 [T2 [T3 T4]]]].
           rewrite Forall_forall in Hd0. apply (Hd0 t T1 (posn f (s_le s0) (slot (8 * f) s0 + j))).
           split; [apply slot_occupies; assumption|exact T4].
      * apply (IH _ _ _ _ Hr Hdr L1 L2 Hp s v bits j Hs Hv Hpk Hj).
    + rewrite place_cons_none in Hp by exact E.
      destruct Hs as [<-|Hs]; [congruence|].
      apply (IH _ _ _ _ Hr Hdr Hlb Hbb Hp s v bits j Hs Hv Hpk Hj).
Qed.

(* ---------- the assembled bytes ---------- *)

Definition empty_bits (f : Z) : list (option bool) := repeat None (Z.to_nat (8 * f)).

Lemma stb_unfold : forall f sigs data bytes, signals_to_bytes f sigs data = Some bytes ->
  0 <= f /\ exists lb bb, place_signals (8 * f) sigs data (empty_bits f) (empty_bits f) = Some (lb, bb) /\
    bytes = map bin_value (chunks 8 (map merge_bit (combine (grev lb) bb))).
Proof.
  intros f sigs data bytes. unfold signals_to_bytes, empty_bits.
  destruct (Z.ltb_spec f 0) as [|Hf]; [discriminate|]. rewrite (Z.mul_comm f 8).
  destruct (place_signals _ _ _ _ _) as [[lb bb]|] eqn:E; [|discriminate].
  intros H. split; [exact Hf|]. exists lb, bb. split; [reflexivity|]. congruence.
Qed.

Lemma stb_fold : forall f sigs data lb bb, 0 <= f ->
  place_signals (8 * f) sigs data (empty_bits f) (empty_bits f) = Some (lb, bb) ->
  signals_to_bytes f sigs data = Some (map bin_value (chunks 8 (map merge_bit (combine (grev lb) bb)))).
Proof.
  intros f sigs data lb bb Hf H. unfold signals_to_bytes. unfold empty_bits in H.
  destruct (Z.ltb_spec f 0) as [|_]; [lia|]. rewrite (Z.mul_comm f 8). rewrite H. reflexivity.
Qed.

Lemma zlen_empty : forall f, 0 <= f -> zlen (empty_bits f) = 8 * f.
Proof. intros f H. unfold empty_bits. rewrite zlen_repeat. lia. Qed.

Lemma znth_empty : forall f q, znth (empty_bits f) q None = None.
Proof. intros. apply znth_repeat. Qed.

Lemma layout_sig_ok : forall f sigs data, layout_ok f sigs ->
  (forall s v, In s sigs -> lookup (s_name s) data = Some v -> in_range s v) ->
  Forall (sig_ok data (8 * f)) sigs.
Proof.
  intros f sigs data [_ [_ [_ HF]]] Hr. rewrite Forall_forall in *. intros s Hs v Hv.
  destruct (HF s Hs) as [H1 H2]. split; [exact H1|]. split; [exact H2|]. apply Hr; assumption.
Qed.

Lemma encode_bits : forall f (lb bb : list (option bool)), 0 <= f -> zlen lb = 8 * f -> zlen bb = 8 * f ->
  let bytes := map bin_value (chunks 8 (map merge_bit (combine (grev lb) bb))) in
  zlen bytes = f /\ bytes_ok bytes = true /\
  forall p, 0 <= p < 8 * f -> mbit bytes p = merge_bit (znth lb (gidx f p) None, znth bb p None).
Proof.
  intros f lb bb Hf Hlb Hbb bytes.
  assert (Llb : length lb = (8 * Z.to_nat f)%nat) by (unfold zlen in Hlb; lia).
  assert (Lbb : length bb = (8 * Z.to_nat f)%nat) by (unfold zlen in Hbb; lia).
  assert (Lg : length (grev lb) = length lb) by (apply (grev_length _ (Z.to_nat f)); exact Llb).
  set (bs := map merge_bit (combine (grev lb) bb)) in *.
  assert (Lbs : length bs = (8 * Z.to_nat f)%nat).
  { unfold bs. rewrite map_length, combine_length. lia. }
  split; [|split].
  - unfold bytes. rewrite zlen_map. unfold zlen. rewrite (chunks_length _ (Z.to_nat f)) by exact Lbs. lia.
  - apply (bytes_ok_chunks (Z.to_nat f)). exact Lbs.
  - intros p Hp. unfold bytes. rewrite (mbit_chunks (Z.to_nat f)) by (unfold zlen; lia).
    unfold bs. rewrite (znth_map _ _ _ _ _ (None, None)) by (unfold zlen; rewrite combine_length; lia).
    f_equal. unfold znth at 1. rewrite combine_nth by lia. f_equal.
    change (nth (Z.to_nat p) (grev lb) None) with (znth (grev lb) p None).
    rewrite (znth_grev _ _ (Z.to_nat f)) by (unfold zlen; lia). rewrite Z2Nat.id by lia. reflexivity.
Qed.

Lemma sig_bit_mbit : forall d s i, 0 <= s_start s -> sig_bit d s i = mbit d (pos_of s i).
Proof.
  intros d s i H. unfold sig_bit, pos_of. destruct (s_le s); [|reflexivity]. apply pbit_mbit. lia.
Qed.

Lemma pos_of_posn : forall f s i, inside (8 * f) s = true -> (i < Z.to_nat (s_size s))%nat ->
  pos_of s i = posn f (s_le s) (slot (8 * f) s + (s_size s - 1 - Z.of_nat i)).
Proof.
  intros f s i Hin Hi. apply inside_facts in Hin. destruct Hin as [H0 [H1 H2]].
  unfold pos_of, posn, slot, gidx. destruct (s_le s); lia.
Qed.

Lemma occupies_range : forall f s p, inside (8 * f) s = true -> occupies s p -> 0 <= p < 8 * f.
Proof.
  intros f s p Hin [i [Hi Hp]]. apply inside_facts in Hin. destruct Hin as [H0 [H1 H2]].
  subst p. unfold pos_of. destruct (s_le s); lia.
Qed.

(* the whole characterisation: own bits of supplied signals, and cleared foreign bits *)
Lemma encode_char : forall f sigs data bytes,
  layout_ok f sigs ->
  (forall s v, In s sigs -> lookup (s_name s) data = Some v -> in_range s v) ->
  signals_to_bytes f sigs data = Some bytes ->
  zlen bytes = f /\ bytes_ok bytes = true /\
  (forall s v i, In s sigs -> lookup (s_name s) data = Some v -> (i < Z.to_nat (s_size s))%nat ->
     sig_bit bytes s i = Z.testbit (raw_z v) (Z.of_nat i)) /\
  (forall p, 0 <= p < 8 * f ->
     (forall s, In s sigs -> lookup (s_name s) data <> None -> ~ occupies s p) -> mbit bytes p = false).
Proof.
  intros f sigs data bytes Hlay Hrng Hstb.
  pose proof (layout_sig_ok f sigs data Hlay Hrng) as Hok.
  destruct (stb_unfold _ _ _ _ Hstb) as [Hf [lb [bb [Hp ->]]]].
  destruct (place_spec _ _ _ _ _ _ _ Hok (zlen_empty f Hf) (zlen_empty f Hf) Hp) as [Llb [Lbb Hsp]].
  destruct (encode_bits f lb bb Hf Llb Lbb) as [E1 [E2 E3]].
  destruct Hlay as [_ [_ [Hdis _]]].
  split; [exact E1|]. split; [exact E2|]. split.
  - intros s v i Hs Hv Hi.
    rewrite Forall_forall in Hok. destruct (Hok s Hs v Hv) as [Hin [Hfl Hr]].
    pose proof (inside_facts _ _ Hin) as [I0 [I1 I2]].
    destruct (pack_bits_spec _ s v Hin Hfl Hr) as [bits [Hpk [Hl Hb]]].
    rewrite sig_bit_mbit by exact I0.
    assert (Hocc : occupies s (pos_of s i)) by (exists i; split; [exact Hi|reflexivity]).
    pose proof (occupies_range f s _ Hin Hocc) as Hpr.
    rewrite E3 by exact Hpr.
    assert (Hj : 0 <= s_size s - 1 - Z.of_nat i < s_size s) by lia.
    rewrite <- Forall_forall in Hok.
    pose proof (place_keeps _ _ _ _ _ _ _ Hok Hdis (zlen_empty f Hf) (zlen_empty f Hf) Hp s v bits _ Hs Hv Hpk Hj) as Hk.
    rewrite (Hb (Z.of_nat i)) in Hk by lia.
    rewrite (pos_of_posn f s i Hin Hi). rewrite (pos_of_posn f s i Hin Hi) in Hpr, Hocc.
    set (q := slot (8 * f) s + (s_size s - 1 - Z.of_nat i)) in *.
    assert (Hq : 0 <= q < 8 * f) by (unfold q, slot; destruct (s_le s); lia).
    unfold posn in *. destruct (s_le s) eqn:Ele; cbn [sel] in Hk.
    + rewrite gidx_invol by exact Hq. rewrite Hk. reflexivity.
    + rewrite Hk.
      destruct (Hsp true (gidx f q) (gidx_range f q Hq)) as [Heq|Hw]; cbn [sel] in *.
      * rewrite Heq, znth_empty. reflexivity.
      * exfalso. destruct (written_occupies _ _ _ _ _ _ Hok Hw) as [t [T1 [T2 [T3 T4]]]].
        unfold posn in T4. rewrite gidx_invol in T4 by exact Hq.
        destruct (ForallOrdPairs_In Hdis s t Hs T1) as [Hst|[Hst|Hst]].
        -- subst t. congruence.
        -- apply (Hst q). split; assumption.
        -- apply (Hst q). split; assumption.
  - intros p Hpr Hfor. rewrite E3 by exact Hpr.
    assert (Hno : forall le q x, posn f le q = p -> written data (8 * f) sigs le q x -> False).
    { intros le q x Hpq Hw. destruct (written_occupies _ _ _ _ _ _ Hok Hw) as [t [T1 [T2 [T3 T4]]]].
      rewrite Hpq in T4. exact (Hfor t T1 T3 T4). }
    destruct (Hsp true (gidx f p) (gidx_range f p Hpr)) as [Heq|Hw]; cbn [sel] in *.
    + rewrite Heq, znth_empty.
      destruct (Hsp false p Hpr) as [Heq2|Hw2]; cbn [sel] in *.
      * rewrite Heq2, znth_empty. reflexivity.
      * exfalso. apply (Hno false p _ eq_refl Hw2).
    + exfalso. apply (Hno true (gidx f p) _ (gidx_invol f p Hpr) Hw).
Qed.

(* ---------- the C02 statements ---------- *)

Theorem encode_total_and_length :
  forall fsize sigs data,
    layout_ok fsize sigs ->
    (forall s v, In s sigs -> lookup (s_name s) data = Some v -> in_range s v) ->
    exists bytes, signals_to_bytes fsize sigs data = Some bytes /\ zlen bytes = fsize /\ bytes_ok bytes = true.
Proof.
  intros f sigs data Hlay Hrng.
  pose proof (layout_sig_ok f sigs data Hlay Hrng) as Hok.
  assert (Hf : 0 <= f) by (destruct Hlay as [H _]; exact H).
  destruct (place_total data (8 * f) sigs _ _ Hok (zlen_empty f Hf) (zlen_empty f Hf)) as [lb [bb Hp]].
  pose proof (stb_fold f sigs data lb bb Hf Hp) as Hs.
  eexists. split; [exact Hs|].
  destruct (encode_char f sigs data _ Hlay Hrng Hs) as [E1 [E2 _]]. split; assumption.
Qed.

Theorem decode_encode :
  forall fsize sigs data bytes,
    layout_ok fsize sigs ->
    (forall s v, In s sigs -> lookup (s_name s) data = Some v -> in_range s v) ->
    signals_to_bytes fsize sigs data = Some bytes ->
    forall s v, In s sigs -> lookup (s_name s) data = Some v ->
      decode_signal bytes (8 * fsize) s = Some v.
Proof.
  intros f sigs data bytes Hlay Hrng Hs s v Hin Hv.
  destruct (encode_char f sigs data bytes Hlay Hrng Hs) as [E1 [_ [E3 _]]].
  destruct Hlay as [_ [_ [_ HF]]]. rewrite Forall_forall in HF. destruct (HF s Hin) as [Hi Hfl].
  rewrite <- E1 in Hi |- *.
  rewrite (Codec_decode.decode_is_convention_value bytes s Hi Hfl). f_equal.
  apply (convention_value_of_bits (8 * zlen bytes)); [exact Hi|apply (Hrng s v Hin Hv)|].
  intros i Hlt. apply (E3 s v i Hin Hv Hlt).
Qed.

Theorem encode_clears_foreign_bits :
  forall fsize sigs data bytes,
    layout_ok fsize sigs ->
    (forall s v, In s sigs -> lookup (s_name s) data = Some v -> in_range s v) ->
    signals_to_bytes fsize sigs data = Some bytes ->
    forall p, 0 <= p < 8 * fsize ->
      (forall s, In s sigs -> lookup (s_name s) data <> None -> ~ occupies s p) ->
      mbit bytes p = false.
Proof.
  intros f sigs data bytes Hlay Hrng Hs.
  destruct (encode_char f sigs data bytes Hlay Hrng Hs) as [_ [_ [_ E4]]]. exact E4.
Qed.

Lemma decode_all_lookup : forall d N sigs vals, NoDup (map s_name sigs) ->
  decode_all d N sigs = Some vals ->
  forall s, In s sigs -> lookup (s_name s) vals = decode_signal d N s.
Proof.
  intros d N sigs. induction sigs as [|s0 r IH]; intros vals Hnd Hd s Hs.
  - destruct Hs.
  - cbn [decode_all] in Hd. cbn [map] in Hnd. inversion Hnd as [|n l Hni Hnd']; subst n l.
    destruct (decode_signal d N s0) as [v0|] eqn:E0; [|discriminate].
    destruct (decode_all d N r) as [vs|] eqn:Er; [|discriminate].
    assert (vals = (s_name s0, v0) :: vs) by congruence. subst vals.
    cbn [lookup]. destruct Hs as [<-|Hs].
    + rewrite Z.eqb_refl. symmetry. exact E0.
    + destruct (Z.eqb_spec (s_name s0) (s_name s)) as [Heq|Hne].
      * exfalso. apply Hni. rewrite Heq. apply in_map. exact Hs.
      * apply (IH vs Hnd' eq_refl s Hs).
Qed.

Theorem encode_decode_on_covered_bits :
  forall fsize sigs d vals bytes,
    layout_ok fsize sigs -> zlen d = fsize ->
    decode_all d (8 * fsize) sigs = Some vals ->
    signals_to_bytes fsize sigs vals = Some bytes ->
    forall s i, In s sigs -> (i < Z.to_nat (s_size s))%nat -> sig_bit bytes s i = sig_bit d s i.
Proof.
  intros f sigs d vals bytes Hlay Hlen Hd Hs.
  assert (Hval : forall s, In s sigs -> inside (8 * f) s = true /\
                   lookup (s_name s) vals = Some (convention_value d s)).
  { intros s Hin. destruct Hlay as [_ [Hnu [_ HF]]]. rewrite Forall_forall in HF.
    destruct (HF s Hin) as [Hi Hfl]. split; [exact Hi|].
    rewrite (decode_all_lookup d (8 * f) sigs vals Hnu Hd s Hin).
    rewrite <- Hlen in Hi |- *. apply Codec_decode.decode_is_convention_value; assumption. }
  assert (Hrng : forall s v, In s sigs -> lookup (s_name s) vals = Some v -> in_range s v).
  { intros s v Hin Hv. destruct (Hval s Hin) as [Hi Hl]. rewrite Hl in Hv.
    assert (v = convention_value d s) by congruence. subst v.
    apply (convention_value_in_range (8 * f)). exact Hi. }
  destruct (encode_char f sigs vals bytes Hlay Hrng Hs) as [_ [_ [E3 _]]].
  intros s i Hin Hi. destruct (Hval s Hin) as [Hins Hl].
  rewrite (E3 s _ i Hin Hl Hi). apply (convention_value_bits (8 * f)); assumption.
Qed.
