(* Proofs for props/C06.v: round trips of the per-format position and identity field codecs (model/FmtPos.v),
   what the position fields denote physically, and the bus partition of multi-bus files. *)
From CM Require Import lib.Prelude model.Startbit model.ArbId model.Codec model.FmtPos
  proofs.Startbit_proofs proofs.ArbId_proofs.

(* ---------- small facts ---------- *)
Lemma bz'_eqb1 b : (bz' b =? 1) = b.
Proof. destruct b; reflexivity. Qed.
Lemma bz'_neg_eqb0 b : (bz' (negb b) =? 0) = b.
Proof. destruct b; reflexivity. Qed.
Lemma bz'_eqb0 b : (bz' b =? 0) = negb b.
Proof. destruct b; reflexivity. Qed.

Lemma flip_nonneg b : 0 <= b -> 0 <= flip b.
Proof. unfold flip. lia. Qed.

Lemma get_startbit_nonneg le size i bn sl :
  0 <= i -> 1 <= size -> 0 <= get_startbit le size i bn sl.
Proof.
  intros Hi Hs. unfold get_startbit.
  destruct (sl && negb le), (numbering_differs bn le); try apply flip_nonneg; lia.
Qed.

Lemma get_intel_lsb0 size i sl : get_startbit true size i (Some 1) sl = i.
Proof. unfold get_startbit. rewrite andb_false_r. reflexivity. Qed.

Lemma mk_opt_some le size i : mk_opt le size (Some i) = Some (mkPos le size i).
Proof. reflexivity. Qed.

Ltac open_pos p := destruct p as [le size start]; unfold pos_ok in *; cbn [p_le p_size p_start] in *.

(* ---------- position round trips ---------- *)
Lemma dbc_position_roundtrip p : pos_ok p -> dbc_read_pos (dbc_write_pos p) = Some p.
Proof.
  open_pos p. intros [Hs Hw]. unfold dbc_read_pos, dbc_write_pos; cbn [fnth nth p_le p_size p_start].
  rewrite bz'_eqb1. destruct le.
  - rewrite get_intel_lsb0. reflexivity.
  - rewrite set_after_get by exact Hs. reflexivity.
Qed.

Lemma arxml_position_roundtrip p : pos_ok p -> arxml_read_pos (arxml_write_pos p) = Some p.
Proof. exact (dbc_position_roundtrip p). Qed.

Lemma dbf_position_roundtrip p : pos_ok p -> dbf_read_pos (dbf_write_pos p) = Some p.
Proof.
  open_pos p. intros [Hs Hw]. unfold dbf_read_pos, dbf_write_pos; cbn [fnth nth p_le p_size p_start].
  set (lsb := get_startbit le size start (Some 1) true).
  replace (lsb mod 8 + (lsb / 8 + 1 - 1) * 8) with lsb by lia.
  rewrite bz'_eqb1, bz'_eqb0. destruct le; cbn [negb].
  - subst lsb. rewrite get_intel_lsb0. reflexivity.
  - subst lsb. rewrite set_after_get by exact Hs. reflexivity.
Qed.

Lemma sym_position_roundtrip p : pos_ok p -> sym_read_pos (sym_write_pos p) = Some p.
Proof.
  open_pos p. intros [Hs Hw]. unfold sym_read_pos, sym_write_pos; cbn [fnth nth p_le p_size p_start].
  rewrite bz'_neg_eqb0. destruct le; [reflexivity|].
  change start with (get_startbit false size start None false) at 1.
  rewrite set_after_get by exact Hs. reflexivity.
Qed.

Lemma kcd_position_roundtrip p : pos_ok p -> kcd_read_pos (kcd_write_pos p) = Some p.
Proof.
  open_pos p. intros [Hs Hw]. unfold kcd_read_pos, kcd_write_pos; cbn [fnth nth p_le p_size p_start].
  rewrite bz'_neg_eqb0.
  assert (E : (if (if size >? 1 then size else -1) <? 0 then 1 else (if size >? 1 then size else -1)) = size).
  { destruct (size >? 1) eqn:G; [destruct (size <? 0) eqn:L; lia | cbn; lia]. }
  rewrite E.
  change start with (get_startbit le size start None false) at 1.
  rewrite set_after_get by exact Hs. reflexivity.
Qed.

(* the length attribute may be left out (schema default 1) or stated: the reader stores the same signal *)
Lemma kcd_length_default_equivalent s b : kcd_read_pos [s; -1; b] = kcd_read_pos [s; 1; b].
Proof. reflexivity. Qed.

(* a KCD writer that always states the length round-trips as well *)
Definition kcd_write_pos_explicit (p : pos) : list Z := [p_start p; p_size p; bz' (negb (p_le p))].
Lemma kcd_explicit_position_roundtrip p : pos_ok p -> kcd_read_pos (kcd_write_pos_explicit p) = Some p.
Proof.
  open_pos p. intros [Hs Hw]. unfold kcd_read_pos, kcd_write_pos_explicit; cbn [fnth nth p_le p_size p_start].
  rewrite bz'_neg_eqb0.
  replace (if size <? 0 then 1 else size) with size by (destruct (size <? 0) eqn:L; lia).
  change start with (get_startbit le size start None false) at 1.
  rewrite set_after_get by exact Hs. reflexivity.
Qed.

Lemma kcd_mux_position_roundtrip p :
  pos_ok p -> p_le p = true -> kcd_read_mux_pos (kcd_write_mux_pos p) = Some p.
Proof. open_pos p. intros _ ->. reflexivity. Qed.

Lemma json_position_roundtrip p : pos_ok p -> json_read_pos (json_write_pos NLsb p) = Some p.
Proof.
  open_pos p. intros [Hs Hw]. unfold json_read_pos, json_write_pos, start_in; cbn [fnth nth p_le p_size p_start].
  rewrite bz'_neg_eqb0. destruct le.
  - rewrite get_intel_lsb0. reflexivity.
  - rewrite set_after_get by exact Hs. reflexivity.
Qed.

Lemma start_in_nonneg n p : pos_ok p -> 0 <= start_in n p.
Proof. open_pos p. intros [Hs Hw]. destruct n; cbn [start_in p_le p_size p_start]; apply get_startbit_nonneg; assumption. Qed.

Lemma set_in_start_in n le size start :
  0 <= start -> set_in n le size (start_in n (mkPos le size start)) = Some start.
Proof. intros Hs. destruct n; cbn [set_in start_in p_le p_size p_start]; apply set_after_get; exact Hs. Qed.

Lemma start_in_intel n size start : start_in n (mkPos true size start) = start.
Proof. destruct n; cbn [start_in p_le p_size p_start]; unfold get_startbit; rewrite ?andb_false_r; reflexivity. Qed.

Lemma xls_position_roundtrip n p : pos_ok p -> xls_read_pos n (xls_write_pos n p) = Some p.
Proof.
  intros Hok. pose proof (start_in_nonneg n p Hok) as Hnn.
  open_pos p. destruct Hok as [Hs Hw].
  unfold xls_read_pos, xls_write_pos; cbn [fnth nth p_le p_size p_start].
  set (s := start_in n (mkPos le size start)) in *.
  rewrite Z.quot_div_nonneg by lia.
  replace ((s / 8 + 1 - 1) * 8 + s mod 8) with s by lia.
  rewrite bz'_eqb1. destruct le.
  - subst s. rewrite start_in_intel. reflexivity.
  - subst s. rewrite set_in_start_in by exact Hs. reflexivity.
Qed.

(* all seven formats at once (JSON in the notation its reader understands; XLS in any notation, same on both sides) *)
Lemma position_roundtrip fmt n p :
  pos_ok p -> 1 <= fmt <= 7 -> (fmt = 5 -> n = NLsb) ->
  read_pos fmt n (write_pos fmt n p) = Some p.
Proof.
  intros Hok Hf Hj.
  assert (C : fmt = 1 \/ fmt = 2 \/ fmt = 3 \/ fmt = 4 \/ fmt = 5 \/ fmt = 6 \/ fmt = 7) by lia.
  destruct C as [-> | [-> | [-> | [-> | [-> | [-> | ->]]]]]]; cbn [read_pos write_pos].
  - now apply dbc_position_roundtrip.
  - now apply dbf_position_roundtrip.
  - now apply sym_position_roundtrip.
  - now apply kcd_position_roundtrip.
  - rewrite (Hj eq_refl). now apply json_position_roundtrip.
  - now apply xls_position_roundtrip.
  - now apply arxml_position_roundtrip.
Qed.

(* ---------- what the fields denote physically ---------- *)
Lemma bn1_ok : bn_ok (Some 1).
Proof. right; right; reflexivity. Qed.
Lemma bnN_ok : bn_ok None.
Proof. left; reflexivity. Qed.

(* DBC / ARXML start field, read as an LSB0 number (byte n/8, bit n mod 8): the least significant bit of an Intel
   signal, the most significant bit of a Motorola signal *)
Lemma dbc_start_denotes p :
  coord_lsb0 (fnth (dbc_write_pos p) 0) = pos_bit p (if p_le p then 0 else p_size p - 1).
Proof.
  open_pos p. unfold dbc_write_pos, pos_bit; cbn [fnth nth p_le p_size p_start].
  pose proof (get_denotes le size start (Some 1) false bn1_ok) as H.
  unfold num_coord, eff_lsb0, ref_bit in H. cbn in H. exact H.
Qed.

(* DBF byte and bit columns: the least significant bit, byte counted from 1 *)
Lemma dbf_columns_denote_lsb p :
  (fnth (dbf_write_pos p) 0 - 1, fnth (dbf_write_pos p) 1) = pos_bit p 0.
Proof.
  open_pos p. unfold dbf_write_pos, pos_bit; cbn [fnth nth p_le p_size p_start].
  pose proof (get_denotes le size start (Some 1) true bn1_ok) as H.
  unfold num_coord, eff_lsb0, ref_bit, coord_lsb0 in H. cbn in H.
  replace (get_startbit le size start (Some 1) true / 8 + 1 - 1) with (get_startbit le size start (Some 1) true / 8) by lia.
  destruct le; exact H.
Qed.

(* XLS byte and bit columns in each notation: lsb -> least significant bit; msb -> most significant bit of a
   Motorola signal, both in LSB0 numbering; msbreverse -> most significant bit in MSB0 (sequential) numbering *)
Lemma xls_columns_denote n p :
  pos_ok p ->
  let byte := fnth (xls_write_pos n p) 0 - 1 in
  let bit := fnth (xls_write_pos n p) 1 in
  match n with
  | NLsb => (byte, bit) = pos_bit p 0
  | NMsb => (byte, bit) = pos_bit p (if p_le p then 0 else p_size p - 1)
  | NMsbReverse => (byte, if p_le p then bit else 7 - bit) = pos_bit p (if p_le p then 0 else p_size p - 1)
  end.
Proof.
  intros Hok. pose proof (start_in_nonneg n p Hok) as Hnn.
  open_pos p. cbv zeta. unfold xls_write_pos, pos_bit; cbn [fnth nth p_le p_size p_start].
  set (s := start_in n (mkPos le size start)) in *.
  rewrite Z.quot_div_nonneg by lia.
  replace (s / 8 + 1 - 1) with (s / 8) by lia.
  destruct n; subst s; cbn [start_in p_le p_size p_start].
  - pose proof (get_denotes le size start (Some 1) true bn1_ok) as H.
    unfold num_coord, eff_lsb0, ref_bit, coord_lsb0 in H. cbn in H. destruct le; exact H.
  - pose proof (get_denotes le size start (Some 1) false bn1_ok) as H.
    unfold num_coord, eff_lsb0, ref_bit, coord_lsb0 in H. cbn in H. destruct le; exact H.
  - unfold get_startbit, bit_coord, coord_lsb0, coord_msb0, numbering_differs. cbn [andb negb].
    destruct le; cbn [andb negb]; f_equal; try (f_equal; lia); lia.
Qed.

(* SYM / KCD number: canmatrix' internal start - LSB0 number of the LSB (Intel), sequential MSB0 number of the MSB
   (Motorola) *)
Lemma internal_start_denotes p :
  (if p_le p then coord_lsb0 (p_start p) else coord_msb0 (p_start p)) = pos_bit p (if p_le p then 0 else p_size p - 1).
Proof.
  open_pos p. unfold pos_bit, bit_coord; cbn [p_le p_size p_start]. destruct le; f_equal; lia.
Qed.

(* JSON start_bit in the lsb notation: the least significant bit in LSB0 numbering, both byte orders *)
Lemma json_start_denotes_lsb p :
  coord_lsb0 (fnth (json_write_pos NLsb p) 0) = pos_bit p 0.
Proof.
  open_pos p. unfold json_write_pos, pos_bit, start_in; cbn [fnth nth p_le p_size p_start].
  pose proof (get_denotes le size start (Some 1) true bn1_ok) as H.
  unfold num_coord, eff_lsb0, ref_bit in H. cbn in H. destruct le; exact H.
Qed.

(* ---------- identity round trips ---------- *)
Lemma mk_arbid_ok id ext : id_ok (id, ext) -> mk_arbid id ext = Some (id, ext).
Proof.
  intros [[He Hr] | [He Hr]]; cbn [fst snd] in *; subst ext; apply mk_arbid_some_iff; exact Hr.
Qed.

Lemma dbc_id_roundtrip a : id_ok a -> dbc_read_id (dbc_write_id a) = Some a.
Proof. intros H. unfold dbc_read_id, dbc_write_id; cbn [fnth nth]. now apply compound_roundtrip_id. Qed.

Lemma flag_id_roundtrip a : id_ok a -> mk_arbid (fnth [fst a; bz' (snd a)] 0) (fnth [fst a; bz' (snd a)] 1 =? 1) = Some a.
Proof. destruct a as [id ext]. intros H. cbn [fnth nth fst snd]. rewrite bz'_eqb1. now apply mk_arbid_ok. Qed.

Lemma arxml_id_roundtrip a : id_ok a -> arxml_read_id (arxml_write_id a) = Some a.
Proof. exact (flag_id_roundtrip a). Qed.
Lemma kcd_id_roundtrip a : id_ok a -> kcd_read_id (kcd_write_id a) = Some a.
Proof. exact (flag_id_roundtrip a). Qed.
Lemma json_id_roundtrip a : id_ok a -> json_read_id (json_write_id a) = Some a.
Proof. exact (flag_id_roundtrip a). Qed.
Lemma xls_id_roundtrip a : id_ok a -> xls_read_id (xls_write_id a) = Some a.
Proof. exact (flag_id_roundtrip a). Qed.

Lemma sym_id_roundtrip a : sym_read_id (sym_write_id a) = Some a.
Proof. destruct a as [id ext]. unfold sym_read_id, sym_write_id; cbn [fnth nth fst snd]. now rewrite bz'_eqb1. Qed.

Lemma land_ext_mask id : 0 <= id < 2 ^ 29 -> Z.land id extended_id_mask = id.
Proof.
  intros H. change extended_id_mask with (Z.ones 29). rewrite Z.land_ones by lia. lia.
Qed.

Lemma dbf_id_roundtrip a : id_ok a -> dbf_read_id (dbf_write_id a) = Some a.
Proof.
  destruct a as [id ext]. intros H. unfold dbf_read_id, dbf_write_id; cbn [fnth nth fst snd].
  rewrite bz'_eqb1. destruct H as [[He Hr] | [He Hr]]; cbn [fst snd] in *; subst ext.
  - rewrite land_ext_mask by exact Hr. apply (mk_arbid_some_iff id true). exact Hr.
  - apply (compound_roundtrip_id (id, false)). right. split; [reflexivity | exact Hr].
Qed.

(* the reader before the repair loses every extended identifier above 0x7FF *)
Lemma dbf_id_before_fix_fails id :
  2 ^ 11 <= id < 2 ^ 29 -> dbf_read_id_before_fix (dbf_write_id (id, true)) = None.
Proof.
  intros H. unfold dbf_read_id_before_fix, dbf_write_id; cbn [fnth nth fst snd].
  rewrite compound_rejects_wide_standard by exact H. reflexivity.
Qed.

Lemma id_roundtrip fmt a : id_ok a -> 1 <= fmt <= 7 -> read_id fmt (write_id fmt a) = Some a.
Proof.
  intros Hok Hf.
  assert (C : fmt = 1 \/ fmt = 2 \/ fmt = 3 \/ fmt = 4 \/ fmt = 5 \/ fmt = 6 \/ fmt = 7) by lia.
  destruct C as [-> | [-> | [-> | [-> | [-> | [-> | ->]]]]]]; cbn [read_id write_id].
  - now apply dbc_id_roundtrip.
  - now apply dbf_id_roundtrip.
  - apply sym_id_roundtrip.
  - now apply kcd_id_roundtrip.
  - now apply json_id_roundtrip.
  - now apply xls_id_roundtrip.
  - now apply arxml_id_roundtrip.
Qed.

(* ---------- same payload bits, same raw fields ---------- *)
Lemma same_payload_bits fmt n p :
  pos_ok p -> 1 <= fmt <= 7 -> (fmt = 5 -> n = NLsb) ->
  exists q, read_pos fmt n (write_pos fmt n p) = Some q /\
            p_size q = p_size p /\ p_le q = p_le p /\ forall k, pos_bit q k = pos_bit p k.
Proof.
  intros Hok Hf Hj. exists p. split; [now apply position_roundtrip|]. repeat split.
Qed.

Definition sig_at (name : Z) (signed float : bool) (p : pos) : signal :=
  mkSignal name (p_start p) (p_size p) (p_le p) signed float.

Lemma same_raw_fields fmt n p q :
  pos_ok p -> 1 <= fmt <= 7 -> (fmt = 5 -> n = NLsb) ->
  read_pos fmt n (write_pos fmt n p) = Some q ->
  forall payload nbits name signed float,
    decode_signal payload nbits (sig_at name signed float q) = decode_signal payload nbits (sig_at name signed float p).
Proof.
  intros Hok Hf Hj Hr. rewrite position_roundtrip in Hr by assumption. inversion Hr; subst. reflexivity.
Qed.

(* ---------- bus partition ---------- *)
Lemma dict_get_set_same k v d : dict_get k (dict_set k v d) = Some v.
Proof.
  induction d as [|[k' v'] r IH]; cbn.
  - now rewrite Z.eqb_refl.
  - destruct (k' =? k) eqn:E; cbn; [now rewrite Z.eqb_refl | now rewrite E].
Qed.

Lemma dict_get_set_other k k' v d : k' <> k -> dict_get k' (dict_set k v d) = dict_get k' d.
Proof.
  intros Hne. induction d as [|[k2 v2] r IH]; cbn.
  - destruct (k =? k') eqn:E; [lia | reflexivity].
  - destruct (k2 =? k) eqn:E; cbn.
    + assert (k2 = k) by lia; subst k2. destruct (k =? k') eqn:E2; [lia | reflexivity].
    + destruct (k2 =? k'); [reflexivity | exact IH].
Qed.

Lemma read_cluster_get (file : list bus) : forall d k v,
  NoDup (map fst file) -> In (k, v) file ->
  dict_get k (fold_left (fun d b => dict_set (fst b) (snd b) d) file d) = Some v.
Proof.
  induction file as [|[k0 v0] r IH]; intros d k v Hnd Hin; [contradiction|].
  cbn [fold_left fst snd]. cbn [map fst] in Hnd. inversion Hnd as [|x l Hnotin Hnd']; subst.
  destruct Hin as [E | Hin].
  - inversion E; subst. clear IH.
    assert (G : forall (r : list bus) d, ~ In k (map fst r) ->
              dict_get k (fold_left (fun d b => dict_set (fst b) (snd b) d) r d) = dict_get k d).
    { induction r0 as [|[k1 v1] r1 IH1]; intros d1 Hn; [reflexivity|].
      cbn [fold_left fst snd]. cbn [map fst In] in Hn.
      rewrite IH1 by tauto. apply dict_get_set_other. intros ->. apply Hn. now left. }
    rewrite G by exact Hnotin. apply dict_get_set_same.
  - apply IH; assumption.
Qed.

Lemma cluster_partition_preserved can_code (bs : list bus) :
  NoDup (map fst (write_cluster can_code bs)) ->
  forall b, In b bs ->
    dict_get (bus_key can_code (fst b)) (read_cluster (write_cluster can_code bs)) = Some (snd b).
Proof.
  intros Hnd b Hin. unfold read_cluster. apply read_cluster_get; [exact Hnd|].
  unfold write_cluster. apply in_map_iff. exists b. split; [reflexivity | exact Hin].
Qed.
