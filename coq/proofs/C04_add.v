(* C04 library: __add__ (with _normalize) is exact whenever the exact sum is representable in 28 digits,
   and it is commutative on representations. *)
From CM Require Import lib.Prelude model.Decimal model.DecimalSpec proofs.C04_digits proofs.C04_fix.

(* a multiple of 10^D that is not zero is at least 10^D in magnitude *)
Lemma multiple_ge : forall z P, 0 < P -> z * P <> 0 -> P <= Z.abs (z * P).
Proof. intros z P HP H. rewrite Z.abs_mul, (Z.abs_eq P) by lia. assert (z <> 0) by (intro; subst; lia). nia. Qed.

(* _normalize never replaces the smaller operand when the exact sum is representable *)
Lemma no_replace : forall T te O oe, T <> 0 -> O <> 0 -> oe <= te ->
  fits28 (T * 10 ^ (te - oe) + O) ->
  (ndigits O + oe - 1 <? te + Z.min (-1) (ndigits T - prec - 2)) = false.
Proof.
  intros T te O oe HT HO Hle [c [j [Hj [HS Hc]]]]. unfold prec.
  destruct (ndigits O + oe - 1 <? te + Z.min (-1) (ndigits T - 28 - 2)) eqn:E; [exfalso | reflexivity].
  destruct (ndigits_spec T HT) as [Htl1 [HTlo _]]. destruct (ndigits_spec O HO) as [Hol1 [_ HOhi]].
  set (tl := ndigits T) in *. set (ol := ndigits O) in *. set (D := te - oe) in *.
  set (w := D + tl - 30).
  assert (HolD : ol < D) by lia. assert (Holw : ol <= w) by (unfold w; lia).
  pose proof (p10_le ol w ltac:(lia)) as H1. pose proof (p10_le ol (D - 1) ltac:(lia)) as H2.
  pose proof (p10_gt0 D ltac:(lia)) as HpD. pose proof (p10_gt0 j Hj) as Hpj.
  destruct (Z_le_gt_dec D j) as [HDj|HjD].
  - (* the sum is a multiple of 10^D, hence so is O *)
    assert (HOz : O = (c * 10 ^ (j - D) - T) * 10 ^ D).
    { rewrite Z.mul_sub_distr_r, <- Z.mul_assoc, <- (p10_split j D) by lia. lia. }
    pose proof (multiple_ge (c * 10 ^ (j - D) - T) (10 ^ D) HpD ltac:(rewrite <- HOz; exact HO)) as Hge.
    rewrite <- HOz in Hge. pose proof (p10_lt (D - 1) D ltac:(lia)). lia.
  - assert (HOz : O = (c - T * 10 ^ (D - j)) * 10 ^ j).
    { rewrite Z.mul_sub_distr_r, <- Z.mul_assoc, <- (p10_split D j) by lia. lia. }
    pose proof (multiple_ge (c - T * 10 ^ (D - j)) (10 ^ j) Hpj ltac:(rewrite <- HOz; exact HO)) as Hge.
    rewrite <- HOz in Hge.
    assert (Hjw : j < w) by (apply p10_lt_inv; lia).
    pose proof (p10_gt0 (w - 1) ltac:(lia)) as HP. set (P := 10 ^ (w - 1)) in *.
    assert (Hw : 10 ^ w = 10 * P). { unfold P. replace w with ((w - 1) + 1) at 1 by lia. apply p10_succ. lia. }
    pose proof (p10_le j (w - 1) ltac:(lia)) as HjP. fold P in HjP.
    assert (HTD : 10 ^ w * 10 ^ 29 <= Z.abs (T * 10 ^ D)).
    { rewrite Z.abs_mul, (Z.abs_eq (10 ^ D)) by lia.
      assert (10 ^ w * 10 ^ 29 = 10 ^ (tl - 1) * 10 ^ D).
      { rewrite <- !p10_add by lia. f_equal. unfold w. lia. }
      rewrite H. apply Z.mul_le_mono_nonneg_r; lia. }
    assert (HSabs : Z.abs (T * 10 ^ D + O) = Z.abs c * 10 ^ j).
    { rewrite HS, Z.abs_mul, (Z.abs_eq (10 ^ j)) by lia. reflexivity. }
    assert (Z.abs c * 10 ^ j <= (10 ^ 28 - 1) * P).
    { apply Z.mul_le_mono_nonneg; lia. }
    assert (Z.abs (T * 10 ^ D) - Z.abs O <= Z.abs (T * 10 ^ D + O)) by lia.
    lia.
Qed.

Lemma normalize_exact : forall T te O oe, T <> 0 -> O <> 0 -> oe <= te ->
  fits28 (T * 10 ^ (te - oe) + O) ->
  normalize T te O oe = (T * 10 ^ (te - oe), O, oe).
Proof.
  intros T te O oe HT HO Hle Hf. unfold normalize. rewrite (no_replace T te O oe HT HO Hle Hf). reflexivity.
Qed.

Lemma dadd_zero_l : forall mb eb e, mb <> 0 -> e <= eb -> fits28 (mb * 10 ^ (eb - e)) ->
  let e' := Z.max e (eb - prec - 1) in
  exists q k, 0 <= k /\ fix28 (mkDec (mb * 10 ^ (eb - e')) e') = mkDec q (e + k) /\
              q * 10 ^ k = mb * 10 ^ (eb - e) /\ ndigits q <= 28.
Proof.
  intros mb eb e Hmb Hle Hf. unfold prec. set (e' := Z.max e (eb - 28 - 1)).
  assert (He' : e <= e' <= eb) by (unfold e'; lia).
  assert (Hsplit : mb * 10 ^ (eb - e) = mb * 10 ^ (eb - e') * 10 ^ (e' - e)).
  { rewrite <- Z.mul_assoc, <- p10_add by lia. do 2 f_equal. lia. }
  rewrite Hsplit in Hf. apply fits28_div_p10 in Hf; [|lia].
  destruct (fix28_fits (mkDec (mb * 10 ^ (eb - e')) e') Hf) as [q [k [Hk [Hfix [Hq Hn]]]]].
  cbn [dm de] in *. exists q, (e' - e + k). split; [lia|]. split; [rewrite Hfix; f_equal; lia|].
  split; [|exact Hn]. rewrite Hsplit, <- Hq, p10_add by lia. ring.
Qed.

(* __add__ *)
Lemma dadd_fits : forall a b, let e := Z.min (de a) (de b) in
  fits28 (dnum a e + dnum b e) ->
  exists q k, 0 <= k /\ dadd a b = mkDec q (e + k) /\ q * 10 ^ k = dnum a e + dnum b e /\ ndigits q <= 28.
Proof.
  intros [ma ea] [mb eb] e Hf. cbn [dm de] in e. unfold dnum in *. cbn [dm de] in *. unfold dadd. cbn [dm de].
  fold e.
  destruct (ma =? 0) eqn:Ea; destruct (mb =? 0) eqn:Eb; cbn [andb].
  - assert (ma = 0) by lia. assert (mb = 0) by lia. subst. exists 0, 0.
    rewrite Z.add_0_r, ndigits_0. repeat split; lia.
  - assert (ma = 0) by lia. subst ma. rewrite Z.mul_0_l, Z.add_0_l in *.
    apply dadd_zero_l; [lia | unfold e; lia | exact Hf].
  - assert (mb = 0) by lia. subst mb. rewrite Z.mul_0_l, Z.add_0_r in *.
    apply dadd_zero_l; [lia | unfold e; lia | exact Hf].
  - assert (Hma : ma <> 0) by lia. assert (Hmb : mb <> 0) by lia.
    destruct (ea <? eb) eqn:Elt.
    + assert (He : e = ea) by (unfold e; lia). rewrite He in *.
      replace (ea - ea) with 0 in * by lia. rewrite Z.pow_0_r, Z.mul_1_r in *.
      rewrite Z.add_comm in Hf.
      rewrite (normalize_exact mb eb ma ea Hmb Hma ltac:(lia) Hf).
      rewrite (Z.add_comm ma).
      destruct (mb * 10 ^ (eb - ea) + ma =? 0) eqn:Es.
      * exists 0, 0. rewrite Z.add_0_r, ndigits_0. repeat split; lia.
      * apply (fix28_fits (mkDec (mb * 10 ^ (eb - ea) + ma) ea)). exact Hf.
    + assert (He : e = eb) by (unfold e; lia). rewrite He in *.
      replace (eb - eb) with 0 in * by lia. rewrite Z.pow_0_r, Z.mul_1_r in *.
      rewrite (normalize_exact ma ea mb eb Hma Hmb ltac:(lia) Hf).
      destruct (ma * 10 ^ (ea - eb) + mb =? 0) eqn:Es.
      * exists 0, 0. rewrite Z.add_0_r, ndigits_0. repeat split; lia.
      * apply (fix28_fits (mkDec (ma * 10 ^ (ea - eb) + mb) eb)). exact Hf.
Qed.

(* __add__ is commutative on representations (so offset + raw*factor of calc_min is raw*factor + offset) *)
Lemma normalize_same_exp : forall T O e, normalize T e O e = (T, O, e).
Proof.
  intros T O e. unfold normalize, prec.
  pose proof (ndigits_ge1 O).
  destruct (ndigits O + e - 1 <? e + Z.min (-1) (ndigits T - 28 - 2)) eqn:E; [lia|].
  rewrite Z.sub_diag, Z.pow_0_r, Z.mul_1_r. reflexivity.
Qed.

Lemma dadd_comm : forall a b, dadd a b = dadd b a.
Proof.
  intros [ma ea] [mb eb]. unfold dadd. cbn [dm de]. rewrite (Z.min_comm eb ea).
  destruct (ma =? 0) eqn:Ea; destruct (mb =? 0) eqn:Eb; cbn [andb]; try reflexivity.
  destruct (ea <? eb) eqn:E1; destruct (eb <? ea) eqn:E2; try lia.
  - destruct (normalize mb eb ma ea) as [[tm om] e']. reflexivity.
  - destruct (normalize ma ea mb eb) as [[tm om] e']. reflexivity.
  - assert (ea = eb) by lia. subst eb. rewrite !normalize_same_exp. rewrite (Z.add_comm mb ma). reflexivity.
Qed.
