(* C17: histories of bulk operations; the pre-fix variants (refutations and what still holds of them). *)
From CM Require Import lib.Prelude model.Glob_c17 model.BulkOps proofs.C17_glob proofs.C17_lib proofs.C17_ops.

(* ---------- object identities survive every specified effect ---------- *)
Lemma map_id_set_frames_signals : forall (g : list bsignal -> list bsignal) fs,
  map bf_id (map (fun f => set_signals f (g (bf_signals f))) fs) = map bf_id fs.
Proof. intros g fs. rewrite map_map. apply map_ext_in'. intros f _. reflexivity. Qed.

Lemma distinct_on_signals : forall g m,
  (forall l, NoDup (map bs_id l) -> NoDup (map bs_id (g l))) ->
  objects_distinct m -> objects_distinct (on_signals g m).
Proof.
  intros g m Hg [H1 H2]. unfold objects_distinct, on_signals. cbn [set_frames bm_frames]. split.
  - rewrite map_id_set_frames_signals. exact H1.
  - rewrite Forall_forall in *. intros f' Hf'. apply in_map_iff in Hf'. destruct Hf' as [f [E Hf]]. subst f'.
    cbn [set_signals bf_signals]. apply Hg. apply H2. exact Hf.
Qed.

Lemma distinct_map_frames : forall (h : bframe -> bframe) m,
  (forall f, bf_id (h f) = bf_id f) -> (forall f, bf_signals (h f) = bf_signals f) ->
  objects_distinct m -> objects_distinct (set_frames m (map h (bm_frames m))).
Proof.
  intros h m Hi Hs [H1 H2]. unfold objects_distinct. cbn [set_frames bm_frames]. split.
  - rewrite map_map. rewrite (map_ext_in' (fun x => bf_id (h x)) bf_id) by (intros; apply Hi). exact H1.
  - rewrite Forall_forall in *. intros f' Hf'. apply in_map_iff in Hf'. destruct Hf' as [f [E Hf]]. subst f'.
    rewrite Hs. apply H2. exact Hf.
Qed.

Lemma NoDup_ids_map_sname : forall (h : bsignal -> bsignal) l, (forall s, bs_id (h s) = bs_id s) ->
  NoDup (map bs_id l) -> NoDup (map bs_id (map h l)).
Proof.
  intros h l Hh H. rewrite map_map. rewrite (map_ext_in' (fun x => bs_id (h x)) bs_id) by (intros; apply Hh). exact H.
Qed.

Lemma spec_op_distinct : forall o m, objects_distinct m -> objects_distinct (spec_op o m).
Proof.
  intros o m H. destruct o; cbn [spec_op].
  - apply distinct_on_signals; [|exact H]. intros l. apply NoDup_map_filter.
  - exact H.
  - apply distinct_on_signals; [|exact H]. intros l. apply NoDup_map_filter.
  - apply distinct_on_signals; [|exact H]. intros l. apply NoDup_ids_map_sname. reflexivity.
  - destruct H as [H1 H2]. unfold objects_distinct. cbn [set_frames bm_frames]. split.
    + apply NoDup_map_filter. exact H1.
    + rewrite Forall_forall in *. intros f Hf. apply filter_In in Hf. apply H2. apply Hf.
  - apply distinct_map_frames; [reflexivity|reflexivity|exact H].
  - apply distinct_on_signals; [|exact H]. intros l. apply NoDup_ids_map_sname. reflexivity.
  - apply distinct_map_frames; [reflexivity|reflexivity|exact H].
Qed.

(* ---------- one step, then histories ---------- *)
Lemma apply_op_exact : forall o m, names_unique m -> objects_distinct m -> op_wellformed o ->
  apply_op o m = Some (spec_op o m).
Proof.
  intros o m [Hf Hs] Hd Hw. destruct o; cbn [apply_op spec_op op_wellformed] in *.
  - rewrite zero_signals_all_removed_nothing_else by exact Hd. reflexivity.
  - rewrite obsolete_defines_exactly_unused. reflexivity.
  - rewrite del_signal_exactly_matching by exact Hd. reflexivity.
  - apply rename_signal_prefix_suffix_exact; assumption.
  - rewrite del_frame_by_name by assumption. reflexivity.
  - apply rename_frame_prefix_suffix_exact. exact Hw.
  - rewrite (proj1 (del_attributes_exact ks m)). reflexivity.
  - rewrite (proj2 (del_attributes_exact ks m)). reflexivity.
Qed.

Lemma bulk_history_exact : forall ops m, objects_distinct m -> history_ok ops m ->
  run_ops ops m = Some (fold_left (fun acc o => spec_op o acc) ops m).
Proof.
  induction ops as [|o ops IH]; intros m Hd Hh; cbn [run_ops fold_left]; [reflexivity|].
  cbn [history_ok] in Hh. destruct Hh as [Hu [Hw Hr]].
  rewrite (apply_op_exact o m Hu Hd Hw). apply IH; [apply spec_op_distinct; exact Hd|exact Hr].
Qed.

(* ---------- the code before the repairs ---------- *)
Definition sig0 (i : Z) (n : str) (size : Z) (attrs : dict) : bsignal := mkBSignal i n size attrs 0.
Definition fr0 (i : Z) (n : str) (sigs : list bsignal) : bframe := mkBFrame i n [] 0 sigs.

(* two adjacent zero-width signals: the second survives the live-list loop *)
Definition witness_zero : bmatrix := mkBMatrix [fr0 1 [97] [sig0 1 [97] 0 []; sig0 2 [98] 0 []]] [] [] [] [] [].
Lemma zero_signals_unfixed_refuted :
  exists m, names_unique m /\ objects_distinct m /\
    delete_zero_signals_unfixed m <> on_signals (filter (fun s => negb (bs_size s =? 0))) m.
Proof.
  exists witness_zero. split; [|split].
  - split; [|repeat constructor]; repeat constructor; cbn; intuition discriminate.
  - split; [|repeat constructor]; repeat constructor; cbn; intuition discriminate.
  - intros H. apply (f_equal (fun m => length (flat_map bf_signals (bm_frames m)))) in H. vm_compute in H. discriminate.
Qed.

(* a signal define used in frame "a" while frame "b" has no signal using it *)
Definition witness_obsolete : bmatrix :=
  mkBMatrix [fr0 1 [97] [sig0 1 [97] 1 [(0, 1)]]; fr0 2 [98] []] [] [] [] [] [(0, 5)].
Lemma obsolete_defines_unfixed_refuted :
  exists m, names_unique m /\ objects_distinct m /\
    delete_obsolete_defines_unfixed m <>
    set_defines m (filter (used_by (bm_frames m) bf_attrs) (bm_fdefs m))
                  (filter (used_by (bm_ecus m) be_attrs) (bm_edefs m))
                  (filter (used_by (all_signals m) bs_attrs) (bm_sdefs m)).
Proof.
  exists witness_obsolete. split; [|split].
  - split; repeat constructor; cbn; intuition discriminate.
  - split; repeat constructor; cbn; intuition discriminate.
  - intros H. apply (f_equal (fun m => length (bm_sdefs m))) in H. vm_compute in H. discriminate.
Qed.

(* rename_frame with if/if/elif: a frame called like the pattern is renamed twice *)
Definition witness_rename : bmatrix := mkBMatrix [fr0 1 [97; 42] []] [] [] [] [] [].
Lemma rename_frame_unfixed_refuted :
  exists m old new, names_unique m /\ objects_distinct m /\ old <> [] /\ new <> [] /\
    rename_frame_unfixed old new m <>
    Some (set_frames m (map (fun f => set_fname f (spec_rename old new (bf_name f))) (bm_frames m))).
Proof.
  exists witness_rename, [97; 42], [97]. split; [|split; [|split; [|split]]].
  - split; repeat constructor; cbn; intuition discriminate.
  - split; repeat constructor; cbn; intuition discriminate.
  - discriminate.
  - discriminate.
  - intros H. vm_compute in H. discriminate.
Qed.

(* ... and only then: without '*' inside frame names the if/if/elif code is exact *)
Lemma not_in_app_star : forall (a b : str), ~ In ch_star (a ++ b) -> ~ In ch_star b.
Proof. intros a b H Hb. apply H. apply in_app_iff. right. exact Hb. Qed.

Lemma rename_frame_name_unfixed_nostar : forall old new name, old <> [] -> ~ In ch_star name ->
  rename_frame_name_unfixed old new name = rename_frame_name old new name.
Proof.
  intros old new name Hne Hns. unfold rename_frame_name_unfixed, rename_frame_name.
  destruct (last old 0 =? ch_star) eqn:E1; [|reflexivity].
  apply Z.eqb_eq in E1.
  destruct (exists_last Hne) as [p [c Eo]]. rewrite Eo in E1. rewrite last_app_single in E1. subst c.
  rewrite (rename_prefix_name_spec old new name Hne).
  assert (removelast old = p) as Rp by (rewrite Eo; apply removelast_last). rewrite Rp. clear Rp.
  pose proof (strip_prefix_spec p name) as S.
  destruct (hd 0 old =? ch_star) eqn:E2.
  - (* pattern starts and ends with '*' *)
    apply Z.eqb_eq in E2. destruct p as [|c p'].
    + (* "*" : name[-0:] *)
      cbn in Eo. subst old. cbn [strip_prefix] in *. apply rename_suffix_name_k0.
    + cbn in Eo. rewrite Eo in E2. cbn in E2. subst c.
      destruct (strip_prefix (ch_star :: p') name) as [rest|].
      * exfalso. apply Hns. rewrite S. left. reflexivity.
      * rewrite Eo. rewrite rename_suffix_name_spec by (intros E; destruct p'; discriminate).
        pose proof (strip_suffix_spec (p' ++ [ch_star]) name) as S2.
        destruct (strip_suffix (p' ++ [ch_star]) name) as [rest|]; [|reflexivity].
        exfalso. apply Hns. rewrite S2. rewrite !in_app_iff. right. right. left. reflexivity.
  - (* prefix pattern: the exact comparison afterwards never changes the outcome *)
    destruct (strip_prefix p name) as [rest|].
    + destruct (str_eqb (new ++ rest) old) eqn:E3; [|reflexivity].
      apply str_eqb_eq in E3. destruct rest as [|r rest'].
      * rewrite app_nil_r. reflexivity.
      * exfalso. apply Hns. rewrite S. apply in_app_iff. right.
        assert (last (new ++ r :: rest') 0 = ch_star) as L by (rewrite E3, Eo; apply last_app_single).
        destruct (@exists_last _ (r :: rest') ltac:(discriminate)) as [q [z Ez]]. rewrite Ez in *.
        rewrite app_assoc, last_app_single in L. subst z. apply in_app_iff. right. left. reflexivity.
    + destruct (str_eqb name old) eqn:E3; [|reflexivity].
      apply str_eqb_eq in E3. exfalso. apply Hns. rewrite E3, Eo. apply in_app_iff. right. left. reflexivity.
Qed.

Lemma rename_frame_unfixed_partial : forall old new m, no_star_in_frame_names m -> old <> [] ->
  rename_frame_unfixed old new m =
  Some (set_frames m (map (fun f => set_fname f (spec_rename old new (bf_name f))) (bm_frames m))).
Proof.
  intros old new m Hns Hne. rewrite <- (rename_frame_prefix_suffix_exact old new m Hne).
  unfold rename_frame_unfixed, rename_frame.
  destruct (bm_frames m) as [|f0 fs] eqn:Ef; [reflexivity|].
  destruct old as [|c old']; [reflexivity|].
  f_equal. f_equal. apply map_ext_in'. intros f Hf. f_equal.
  apply rename_frame_name_unfixed_nostar; [exact Hne|].
  unfold no_star_in_frame_names in Hns. rewrite Ef, Forall_forall in Hns. apply Hns. exact Hf.
Qed.
