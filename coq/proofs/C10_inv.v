(* C10: the invariant holds initially and is preserved by every operation; lifted to histories *)
From CM Require Import lib.Prelude model.ArbId model.Lookup proofs.C10_lib.

Definition minv (next : Z) (m : matrix) : Prop := memo_inv_m m /\ uids_ok next m.

Lemma minv_mono : forall n n' m, n <= n' -> minv n m -> minv n' m.
Proof.
  intros n n' m Hle (Hm & Hn & Hb). split; [exact Hm|]. split; [exact Hn|].
  eapply Forall_impl; [|exact Hb]. cbn. intros f Hf. lia.
Qed.
Lemma minv_empty : forall n, minv n empty_matrix.
Proof. intros n. repeat split; cbn; constructor. Qed.

Lemma nodup_snoc : forall (l : list Z) x, NoDup l -> ~ In x l -> NoDup (l ++ [x]).
Proof.
  intros l x H. induction H as [| y r Hy Hr IH]; cbn; intros Hx.
  - constructor; [intros [] | constructor].
  - constructor.
    + intros Hin. apply in_app_or in Hin. destruct Hin as [Hin | [Hin | []]]; [exact (Hy Hin)|].
      apply Hx. left. symmetry. exact Hin.
    + apply IH. intros Hin. apply Hx. right. exact Hin.
Qed.
Lemma fresh_not_in : forall n fs, Forall (fun f => f_uid f < n) fs -> ~ In n (map f_uid fs).
Proof.
  intros n fs H Hin. apply in_map_iff in Hin. destruct Hin as (f & Hf & Hin).
  rewrite Forall_forall in H. specialize (H f Hin). lia.
Qed.
Lemma uids_ok_snoc : forall n m f ecus' memo' dead',
  uids_ok n m -> f_uid f = n -> uids_ok (n + 1) (mkMatrix (m_frames m ++ [f]) ecus' memo' dead').
Proof.
  intros n m f ecus' memo' dead' [Hn Hb] Hu. split; cbn.
  - rewrite map_app. cbn. apply nodup_snoc; [exact Hn|]. rewrite Hu. apply fresh_not_in. exact Hb.
  - apply Forall_app. split; [eapply Forall_impl; [|exact Hb]; cbn; intros; lia|].
    constructor; [lia | constructor].
Qed.

Lemma minv_add : forall n m f, minv n m -> f_uid f = n -> minv (n + 1) (m_add_frame m f).
Proof.
  intros n m f [Hm Hu] Hf. split; [constructor|]. exact (uids_ok_snoc _ _ _ _ _ _ Hu Hf).
Qed.
Lemma minv_append : forall n m f, minv n m -> f_uid f = n -> minv (n + 1) (m_append m f).
Proof.
  intros n m f [Hm Hu] Hf. split; [|exact (uids_ok_snoc _ _ _ _ _ _ Hu Hf)].
  unfold memo_inv_m in *. cbn. eapply Forall_impl; [|exact Hm]. cbn. intros e He.
  rewrite map_app. apply in_or_app. left. exact He.
Qed.
Lemma minv_remove : forall n m u m', minv n m -> m_remove m u = Some m' -> minv n m'.
Proof.
  intros n m u m' [Hm [Hn Hb]] H. unfold m_remove in H.
  destruct (find_uid u (m_frames m)) as [f|]; [|discriminate]. inversion H; subst m'. clear H.
  split; [constructor|]. split; cbn; [apply remove_uid_nodup; exact Hn | apply remove_uid_forall; exact Hb].
Qed.
Lemma minv_del_name : forall n m x, minv n m -> minv n (m_del_name m x).
Proof.
  intros n m x H. unfold m_del_name. destruct (scan_name x (m_frames m)) as [f|]; [|exact H].
  destruct (m_remove m (f_uid f)) as [m'|] eqn:E; [exact (minv_remove _ _ _ _ H E) | exact H].
Qed.
Lemma minv_rename : forall n m old new, minv n m -> minv n (m_rename m old new).
Proof.
  intros n m old new [Hm [Hn Hb]]. unfold minv, memo_inv_m, uids_ok, m_rename. cbn.
  rewrite map_uid_rename. repeat split; [exact Hm | exact Hn |].
  apply Forall_forall. intros f Hf. apply in_map_iff in Hf. destruct Hf as (g & Hg & Hin). subst f.
  rewrite Forall_forall in Hb. specialize (Hb g Hin). unfold rename1. destruct (f_name g =? old); exact Hb.
Qed.
Lemma minv_set_id : forall n m u id ext, minv n m -> minv n (m_set_id m u id ext).
Proof.
  intros n m u id ext [Hm [Hn Hb]]. unfold minv, memo_inv_m, uids_ok, m_set_id. cbn.
  rewrite map_uid_setid. repeat split; [exact Hm | exact Hn |].
  apply Forall_forall. intros f Hf. apply in_map_iff in Hf. destruct Hf as (g & Hg & Hin). subst f.
  rewrite Forall_forall in Hb. specialize (Hb g Hin). unfold setid1. destruct (f_uid g =? u); exact Hb.
Qed.
Lemma minv_set_hdr : forall n m u h, minv n m -> minv n (m_set_hdr m u h).
Proof.
  intros n m u h [Hm [Hn Hb]]. unfold minv, memo_inv_m, uids_ok, m_set_hdr. cbn.
  rewrite map_uid_sethdr. repeat split; [exact Hm | exact Hn |].
  apply Forall_forall. intros f Hf. apply in_map_iff in Hf. destruct Hf as (g & Hg & Hin). subst f.
  rewrite Forall_forall in Hb. specialize (Hb g Hin). unfold sethdr1. destruct (f_uid g =? u); exact Hb.
Qed.
Lemma minv_add_ecu : forall n m e, minv n m -> minv n (m_add_ecu m e).
Proof.
  intros n m e [Hm Hu]. unfold m_add_ecu. destruct (existsb (Z.eqb e) (m_ecus m)); [split; assumption|].
  split; [constructor | exact Hu].
Qed.
Lemma minv_clear_memo : forall n m, minv n m -> minv n (clear_memo m).
Proof. intros n m [Hm Hu]. split; [constructor | exact Hu]. Qed.
Lemma minv_fbi : forall n m k, minv n m -> minv n (fst (frame_by_id_m m k)).
Proof.
  intros n m k [Hm Hu]. split; [exact (proj2 (fbi_spec m k Hm))|].
  destruct (fbi_shape m k) as (Hf & _ & _). unfold uids_ok in *. rewrite Hf. exact Hu.
Qed.
Lemma minv_change_id : forall n m k newid, minv n m -> minv n (fst (m_change_id m k newid)).
Proof.
  intros n m k newid H. unfold m_change_id. pose proof (minv_fbi n m k H) as H1.
  destruct (frame_by_id_m m k) as [m1 [u|]]; cbn in *; [apply minv_set_id; exact H1 | exact H1].
Qed.

(* ---- worlds ---- *)
Lemma inv_set_mat : forall w i m, memo_inv w -> minv (w_next w) m -> memo_inv (set_mat w i m).
Proof. intros w i m Hw Hm. unfold memo_inv, set_mat. cbn. apply upd_nth_forall; assumption. Qed.
Lemma inv_nth : forall w i m, memo_inv w -> nth_error (w_mats w) i = Some m -> minv (w_next w) m.
Proof. intros w i m Hw Hn. exact (forall_nth_error _ _ _ _ _ Hw Hn). Qed.

Lemma inv_on_mat : forall w i f,
  (forall m, minv (w_next w) m -> minv (w_next w) (fst (f m))) ->
  memo_inv w -> memo_inv (fst (on_mat w i f)).
Proof.
  intros w i f Hf Hw. unfold on_mat. destruct (nth_error (w_mats w) i) as [m|] eqn:E; [|exact Hw].
  pose proof (Hf m (inv_nth _ _ _ Hw E)) as Hm. destruct (f m) as [m' r]. cbn in *.
  apply inv_set_mat; assumption.
Qed.
Lemma inv_bump : forall mats n i m,
  Forall (minv n) mats -> minv (n + 1) m -> memo_inv (mkWorld (upd_nth mats i m) (n + 1)).
Proof.
  intros mats n i m Hw Hm. unfold memo_inv. cbn. apply upd_nth_forall; [|exact Hm].
  eapply Forall_impl; [|exact Hw]. intros x Hx. apply (minv_mono n); [lia | exact Hx].
Qed.
Lemma inv_on_mat_new : forall w i f,
  (forall m, minv (w_next w) m -> minv (w_next w + 1) (f m)) ->
  memo_inv w -> memo_inv (fst (on_mat_new w i f)).
Proof.
  intros w i f Hf Hw. unfold on_mat_new. destruct (nth_error (w_mats w) i) as [m|] eqn:E; [|exact Hw].
  cbn. apply inv_bump; [exact Hw | exact (Hf m (inv_nth _ _ _ Hw E))].
Qed.

Lemma with_uid_uid : forall f u, f_uid (with_uid f u) = u.
Proof. reflexivity. Qed.

Lemma inv_copy : forall w src dst k, memo_inv w -> memo_inv (fst (copy_frame_w w src dst k)) .
Proof.
  intros w src dst k Hw. unfold copy_frame_w.
  destruct (nth_error (w_mats w) src) as [ms|] eqn:Es; [|exact Hw].
  pose proof (minv_fbi _ ms k (inv_nth _ _ _ Hw Es)) as Hms.
  destruct (frame_by_id_m ms k) as [ms' r]. cbn [fst] in Hms.
  assert (Hw1 : memo_inv (set_mat w src ms')) by (apply inv_set_mat; assumption).
  destruct r as [u|]; [|exact Hw1].
  destruct (find_obj u ms') as [f|]; [|exact Hw1].
  destruct (nth_error (w_mats (set_mat w src ms')) dst) as [md|] eqn:Ed; [|exact Hw1].
  pose proof (minv_fbi _ md (f_key f) (inv_nth _ _ _ Hw1 Ed)) as Hmd. cbn [w_next set_mat] in Hmd.
  destruct (frame_by_id_m md (f_key f)) as [md' r2]. cbn [fst] in Hmd.
  destruct r2 as [u2|]; cbn [fst].
  - apply inv_set_mat; assumption.
  - apply inv_bump; [exact Hw1|]. apply minv_add; [exact Hmd | reflexivity].
Qed.

Lemma inv_merge_loop : forall ks w src dst, memo_inv w -> memo_inv (fst (merge_loop w src dst ks)).
Proof.
  induction ks as [| k r IH]; intros w src dst Hw; cbn; [exact Hw|].
  pose proof (inv_copy w src dst k Hw) as H1.
  destruct (copy_frame_w w src dst k) as [w1 res]. cbn [fst] in H1.
  destruct res; try exact H1; apply IH; exact H1.
Qed.
Lemma inv_merge : forall w dst src, memo_inv w -> memo_inv (fst (merge_w w dst src)).
Proof.
  intros w dst src Hw. unfold merge_w.
  destruct (nth_error (w_mats w) src) as [ms|]; [|exact Hw].
  destruct (nth_error (w_mats w) dst) as [md0|]; [|exact Hw].
  pose proof (inv_merge_loop (map f_key (m_frames ms)) w src dst Hw) as H1.
  destruct (merge_loop w src dst (map f_key (m_frames ms))) as [w1 res]. cbn [fst] in H1.
  assert (Hfin : memo_inv (fst (match nth_error (w_mats w1) dst with
                                | Some md => (set_mat w1 dst (clear_memo md), RUnit)
                                | None => (w1, RErr) end))).
  { destruct (nth_error (w_mats w1) dst) as [md|] eqn:Ed; [|exact H1]. cbn [fst].
    apply inv_set_mat; [exact H1|]. apply minv_clear_memo. exact (inv_nth _ _ _ H1 Ed). }
  destruct res; try exact Hfin; exact H1.
Qed.

Lemma memo_inv_init : memo_inv init_world.
Proof. constructor. Qed.

Lemma memo_inv_step : forall w o, memo_inv w -> memo_inv (fst (step w o)).
Proof.
  intros w o Hw. destruct o; cbn [step].
  - (* NewMatrix *) unfold memo_inv. cbn. apply Forall_app. split; [exact Hw|].
    constructor; [apply minv_empty | constructor].
  - apply inv_on_mat_new; [|exact Hw]. intros m Hm. apply minv_add; [exact Hm | reflexivity].
  - apply inv_on_mat_new; [|exact Hw]. intros m Hm. apply minv_append; [exact Hm | reflexivity].
  - apply inv_on_mat; [|exact Hw]. intros m Hm. destruct (m_remove m u) as [m'|] eqn:E; cbn;
      [exact (minv_remove _ _ _ _ Hm E) | exact Hm].
  - apply inv_on_mat; [|exact Hw]. intros m Hm. destruct (m_remove m u) as [m'|] eqn:E; cbn;
      [exact (minv_remove _ _ _ _ Hm E) | exact Hm].
  - apply inv_on_mat; [|exact Hw]. intros m Hm. cbn. apply minv_del_name. exact Hm.
  - apply inv_on_mat; [|exact Hw]. intros m Hm. cbn. apply minv_rename. exact Hm.
  - apply inv_on_mat; [|exact Hw]. intros m Hm. cbn. apply minv_set_id. exact Hm.
  - apply inv_on_mat; [|exact Hw]. intros m Hm. cbn. apply minv_set_id. exact Hm.
  - apply inv_on_mat; [|exact Hw]. intros m Hm. pose proof (minv_change_id _ m (id, ext) newid Hm) as H.
    destruct (m_change_id m (id, ext) newid) as [m' r]. exact H.
  - apply inv_on_mat; [|exact Hw]. intros m Hm. cbn. apply minv_add_ecu. exact Hm.
  - apply inv_copy. exact Hw.
  - apply inv_merge. exact Hw.
  - apply inv_on_mat; [|exact Hw]. intros m Hm. pose proof (minv_fbi _ m (id, ext) Hm) as H.
    destruct (frame_by_id_m m (id, ext)) as [m' r]. exact H.
  - apply inv_on_mat; [|exact Hw]. intros m Hm. exact Hm.
  - apply inv_on_mat; [|exact Hw]. intros m Hm. exact Hm.
  - apply inv_on_mat; [|exact Hw]. intros m Hm. exact Hm.
  - apply inv_on_mat; [|exact Hw]. intros m Hm. cbn. apply minv_set_hdr. exact Hm.
Qed.

Lemma memo_inv_run : forall ops w, memo_inv w -> memo_inv (run w ops).
Proof.
  induction ops as [| o r IH]; intros w Hw; cbn; [exact Hw|].
  apply IH. apply memo_inv_step. exact Hw.
Qed.
Lemma memo_inv_reachable : forall ops, memo_inv (run init_world ops).
Proof. intros ops. apply memo_inv_run. exact memo_inv_init. Qed.
