(* C12: the object an explicit value is written to, seen through the same lookup the code uses (first ECU of that name,
   first frame of that id, first signal of that name in it, the free signal just appended); one round and a whole loop
   of "for attribute in source_db.X_defines" seen from that object. *)
From CM Require Import lib.Prelude model.CopyOps model.CopySpec proofs.Copy_lib.

Fixpoint last_opt {A} (l : list A) : option A :=
  match l with
  | [] => None
  | [x] => Some x
  | _ :: r => last_opt r
  end.

Lemma last_opt_app : forall {A} (l : list A) x, last_opt (l ++ [x]) = Some x.
Proof.
  intros A l x. induction l as [|y r IH]; simpl; [reflexivity|].
  destruct (r ++ [x]) eqn:E; [destruct r; discriminate|exact IH].
Qed.

Lemma last_opt_upd_last : forall {A} (g : A -> A) l, last_opt (upd_last g l) = option_map g (last_opt l).
Proof.
  intros A g l. induction l as [|x r IH]; simpl; [reflexivity|].
  destruct r as [|y r']; [reflexivity|].
  change (upd_last g (x :: y :: r')) with (x :: upd_last g (y :: r')).
  simpl in IH. simpl. destruct r'; simpl in *; [reflexivity|exact IH].
Qed.

Definition attrs_of (o : target_obj) (t : matrix) : option (list (Z * Z)) :=
  match o with
  | TEcu n => option_map e_attrs (ecu_by_name n (m_ecus t))
  | TFrame id => option_map f_attrs (frame_by_id id (m_frames t))
  | TSig id sn =>
      match frame_by_id id (m_frames t) with
      | Some f => option_map s_attrs (sig_by_name sn (f_sigs f))
      | None => None
      end
  | TLastFree => option_map s_attrs (last_opt (m_sigs t))
  end.

Lemma attrs_of_objs : forall o t1 t2, objs t1 = objs t2 -> attrs_of o t1 = attrs_of o t2.
Proof.
  intros o t1 t2 H. apply objs_eq in H. destruct H as (He & Hf & Hs & Hg).
  destruct o; simpl; rewrite ?He, ?Hf, ?Hs; reflexivity.
Qed.

(* ---- lookups through upd_first ---- *)
Lemma ecu_by_name_upd_first : forall n n' g l,
  (forall e, e_name (g e) = e_name e) ->
  ecu_by_name n' (upd_first (fun e => e_name e =? n) g l) =
  if n' =? n then option_map g (ecu_by_name n l) else ecu_by_name n' l.
Proof.
  intros n n' g l Hg. induction l as [|x r IH]; simpl.
  - destruct (n' =? n); reflexivity.
  - destruct (e_name x =? n) eqn:E; simpl.
    + rewrite Hg. apply Z.eqb_eq in E. destruct (n' =? n) eqn:E'.
      * apply Z.eqb_eq in E'. subst. rewrite Z.eqb_refl. reflexivity.
      * destruct (e_name x =? n') eqn:E''; [|reflexivity].
        apply Z.eqb_eq in E''. apply Z.eqb_neq in E'. congruence.
    + rewrite IH. destruct (n' =? n) eqn:E'.
      * apply Z.eqb_eq in E'. subst. rewrite E. reflexivity.
      * reflexivity.
Qed.

Lemma frame_by_id_upd_first : forall id id' g l,
  (forall f, fid (g f) = fid f) ->
  frame_by_id id' (upd_first (fun f => id_eqb (fid f) id) g l) =
  if id_eqb id' id then option_map g (frame_by_id id l) else frame_by_id id' l.
Proof.
  intros id id' g l Hg. induction l as [|x r IH]; simpl.
  - destruct (id_eqb id' id); reflexivity.
  - destruct (id_eqb (fid x) id) eqn:E; simpl.
    + rewrite Hg. apply id_eqb_eq in E. destruct (id_eqb id' id) eqn:E'.
      * apply id_eqb_eq in E'. subst. rewrite id_eqb_refl. reflexivity.
      * destruct (id_eqb (fid x) id') eqn:E''; [|reflexivity].
        apply id_eqb_eq in E''. apply id_eqb_neq in E'. congruence.
    + rewrite IH. destruct (id_eqb id' id) eqn:E'.
      * apply id_eqb_eq in E'. subst. rewrite E. reflexivity.
      * reflexivity.
Qed.

Lemma sig_by_name_upd_first : forall n n' g l,
  (forall s, s_name (g s) = s_name s) ->
  sig_by_name n' (upd_first (fun s => s_name s =? n) g l) =
  if n' =? n then option_map g (sig_by_name n l) else sig_by_name n' l.
Proof.
  intros n n' g l Hg. induction l as [|x r IH]; simpl.
  - destruct (n' =? n); reflexivity.
  - destruct (s_name x =? n) eqn:E; simpl.
    + rewrite Hg. apply Z.eqb_eq in E. destruct (n' =? n) eqn:E'.
      * apply Z.eqb_eq in E'. subst. rewrite Z.eqb_refl. reflexivity.
      * destruct (s_name x =? n') eqn:E''; [|reflexivity].
        apply Z.eqb_eq in E''. apply Z.eqb_neq in E'. congruence.
    + rewrite IH. destruct (n' =? n) eqn:E'.
      * apply Z.eqb_eq in E'. subst. rewrite E. reflexivity.
      * reflexivity.
Qed.

(* ---- set_explicit seen from the located object and from any other ---- *)
Lemma attrs_of_set_explicit_same : forall o a v t at0,
  attrs_of o t = Some at0 -> attrs_of o (set_explicit o a v t) = Some (aset a v at0).
Proof.
  intros o a v t at0 H. destruct o as [n|id|id sn|]; simpl in *.
  - destruct (ecu_by_name n (m_ecus t)) as [e|] eqn:E; [|discriminate]. simpl in H. inversion H; subst.
    destruct (existsb (fun e0 => e_name e0 =? n) (m_ecus t)) eqn:Ex.
    + simpl. rewrite ecu_by_name_upd_first by reflexivity. rewrite Z.eqb_refl, E. reflexivity.
    + apply ecu_by_name_none in Ex. congruence.
  - destruct (frame_by_id id (m_frames t)) as [f|] eqn:E; [|discriminate]. simpl in H. inversion H; subst.
    destruct (existsb (fun f0 => id_eqb (fid f0) id) (m_frames t)) eqn:Ex.
    + simpl. rewrite frame_by_id_upd_first by reflexivity. rewrite id_eqb_refl, E. reflexivity.
    + apply frame_by_id_none in Ex. congruence.
  - destruct (frame_by_id id (m_frames t)) as [f|] eqn:E; [|discriminate].
    destruct (sig_by_name sn (f_sigs f)) as [s|] eqn:Es; [|discriminate]. simpl in H. inversion H; subst.
    destruct (existsb (fun s0 => s_name s0 =? sn) (f_sigs f)) eqn:Ex.
    + simpl. rewrite frame_by_id_upd_first by reflexivity. rewrite id_eqb_refl, E. simpl.
      rewrite sig_by_name_upd_first by reflexivity. rewrite Z.eqb_refl, Es. reflexivity.
    + apply sig_by_name_none in Ex. congruence.
  - rewrite last_opt_upd_last. destruct (last_opt (m_sigs t)); [|discriminate]. simpl in *. inversion H; subst. reflexivity.
Qed.

Lemma attrs_of_set_explicit_other : forall o o' a v t,
  o' <> o -> attrs_of o' (set_explicit o a v t) = attrs_of o' t.
Proof.
  intros o o' a v t Hne. destruct o as [n|id|id sn|]; simpl.
  - destruct (existsb (fun e => e_name e =? n) (m_ecus t)) eqn:Ex; [|destruct o'; reflexivity].
    destruct o' as [n'|id'|id' sn'|]; simpl; try reflexivity.
    rewrite ecu_by_name_upd_first by reflexivity.
    destruct (n' =? n) eqn:E; [apply Z.eqb_eq in E; congruence|reflexivity].
  - destruct (existsb (fun f => id_eqb (fid f) id) (m_frames t)) eqn:Ex; [|destruct o'; reflexivity].
    destruct o' as [n'|id'|id' sn'|]; simpl; try reflexivity.
    + rewrite frame_by_id_upd_first by reflexivity.
      destruct (id_eqb id' id) eqn:E; [apply id_eqb_eq in E; congruence|reflexivity].
    + rewrite frame_by_id_upd_first by reflexivity.
      destruct (id_eqb id' id) eqn:E; [|reflexivity].
      apply id_eqb_eq in E. subst. destruct (frame_by_id id (m_frames t)); reflexivity.
  - destruct (frame_by_id id (m_frames t)) as [f0|] eqn:Ef; [|destruct o'; reflexivity].
    destruct (existsb (fun s => s_name s =? sn) (f_sigs f0)) eqn:Ex; [|destruct o'; reflexivity].
    destruct o' as [n'|id'|id' sn'|]; simpl; try reflexivity.
    + rewrite frame_by_id_upd_first by reflexivity.
      destruct (id_eqb id' id) eqn:E; [|reflexivity].
      apply id_eqb_eq in E. subst. rewrite Ef. reflexivity.
    + rewrite frame_by_id_upd_first by reflexivity.
      destruct (id_eqb id' id) eqn:E; [|reflexivity].
      apply id_eqb_eq in E. subst. rewrite Ef. simpl.
      rewrite sig_by_name_upd_first by reflexivity.
      destruct (sn' =? sn) eqn:E'; [apply Z.eqb_eq in E'; congruence|reflexivity].
  - destruct o'; simpl; try reflexivity. congruence.
Qed.

Lemma attrs_of_set_explicit_none : forall o a v t, attrs_of o t = None -> objs (set_explicit o a v t) = objs t.
Proof.
  intros o a v t H. destruct o as [n|id|id sn|]; simpl in *.
  - destruct (ecu_by_name n (m_ecus t)) eqn:E; [discriminate|].
    apply ecu_by_name_none in E. rewrite E. reflexivity.
  - destruct (frame_by_id id (m_frames t)) eqn:E; [discriminate|].
    apply frame_by_id_none in E. rewrite E. reflexivity.
  - destruct (frame_by_id id (m_frames t)) as [f|] eqn:E; [|reflexivity].
    destruct (sig_by_name sn (f_sigs f)) eqn:Es; [discriminate|].
    apply sig_by_name_none in Es. rewrite Es. reflexivity.
  - destruct (m_sigs t) as [|s r] eqn:Em; [unfold objs; simpl; rewrite Em; reflexivity|].
    exfalso. clear -H. revert s H. induction r as [|y r IH]; intros s H; simpl in H; [discriminate|].
    apply (IH y). exact H.
Qed.

(* ---- effective value through dinfo ---- *)
Definition dflt_of (c : cat) (a : Z) (t : matrix) : option Z :=
  match dinfo c a t with Some (_, _, d) => d | None => None end.

Lemma obj_attribute_dflt : forall at0 a c t,
  obj_attribute at0 a (get_defs c t) = match lookup a at0 with Some v => Some v | None => dflt_of c a t end.
Proof.
  intros at0 a c t. unfold obj_attribute, dflt_of, dinfo. destruct (lookup a at0); [reflexivity|].
  destruct (lookup a (get_defs c t)); reflexivity.
Qed.

Lemma dflt_of_eq : forall c a t1 t2, dinfo c a t1 = dinfo c a t2 -> dflt_of c a t1 = dflt_of c a t2.
Proof. intros c a t1 t2 H. unfold dflt_of. rewrite H. reflexivity. Qed.

Lemma opt_eqb_eq : forall a b, opt_eqb a b = true <-> a = b.
Proof.
  intros [x|] [y|]; simpl; split; intros H; try congruence; try reflexivity.
  - apply Z.eqb_eq in H. congruence.
  - inversion H. apply Z.eqb_refl.
Qed.

(* ---- one round, seen from the located object ---- *)
(* (i) what happens to the object's explicit attributes *)
Lemma attr_step_attrs : forall o sk ef oattrs t ad at0,
  attrs_of o t = Some at0 ->
  exists at1, attrs_of o (attr_step o sk ef oattrs t ad) = Some at1 /\
    (at1 = at0 \/ (lookup (fst ad) oattrs = None /\ exists v, src_value oattrs ad = Some v /\ at1 = aset (fst ad) v at0)).
Proof.
  intros o sk ef oattrs t ad at0 H.
  destruct (objs_attr_step o sk ef oattrs t ad) as [Ho|(Hl & v & Hv & Ho)].
  - exists at0. split; [|left; reflexivity]. rewrite (attrs_of_objs _ _ _ Ho). exact H.
  - exists (aset (fst ad) v at0). split.
    + rewrite (attrs_of_objs _ _ _ Ho). apply attrs_of_set_explicit_same. exact H.
    + right. split; [exact Hl|]. exists v. split; [exact Hv|reflexivity].
Qed.

(* any other object keeps its attributes *)
Lemma attr_step_attrs_other : forall o o' sk ef oattrs t ad,
  o' <> o -> attrs_of o' (attr_step o sk ef oattrs t ad) = attrs_of o' t.
Proof.
  intros o o' sk ef oattrs t ad Hne.
  destruct (objs_attr_step o sk ef oattrs t ad) as [Ho|(Hl & v & Hv & Ho)].
  - apply attrs_of_objs. exact Ho.
  - rewrite (attrs_of_objs _ _ _ Ho). apply attrs_of_set_explicit_other. exact Hne.
Qed.

(* (ii) the located object has the source's value for the round's attribute afterwards *)
Lemma explicit_step_value : forall o a oattrs v t at0,
  attrs_of o t = Some at0 ->
  attrs_carried oattrs at0 ->
  (forall w, lookup a at0 = Some w -> w = v) ->
  (lookup a oattrs = None \/ lookup a oattrs = Some v) ->
  exists at1, attrs_of o (explicit_step o a oattrs (Some v) t) = Some at1 /\
    match lookup a at1 with Some w => Some w | None => dflt_of (cat_of o) a t end = Some v.
Proof.
  intros o a oattrs v t at0 Hat Hc HJ Hl. unfold explicit_step.
  destruct Hl as [Hl|Hl]; rewrite Hl.
  - rewrite obj_attribute_dflt, Hl.
    destruct (opt_eqb (Some v) (dflt_of (cat_of o) a t)) eqn:E.
    + apply opt_eqb_eq in E. exists at0. split; [exact Hat|].
      destruct (lookup a at0) as [w|] eqn:Ew; [rewrite (HJ w eq_refl); reflexivity|congruence].
    + exists (aset a v at0). split; [apply attrs_of_set_explicit_same; exact Hat|].
      rewrite lookup_aset_same. reflexivity.
  - exists at0. split; [exact Hat|]. rewrite (Hc _ _ Hl). reflexivity.
Qed.

Lemma attr_step_value : forall o sk ef oattrs t ad at0 v,
  attrs_of o t = Some at0 ->
  attrs_carried oattrs at0 ->
  (forall w, lookup (fst ad) at0 = Some w -> w = v) ->
  src_value oattrs ad = Some v ->
  exists at1, attrs_of o (attr_step o sk ef oattrs t ad) = Some at1 /\
    obj_attribute at1 (fst ad) (get_defs (cat_of o) (attr_step o sk ef oattrs t ad)) = Some v.
Proof.
  intros o sk ef oattrs t ad at0 v Hat Hc HJ Hsv. unfold attr_step.
  unfold src_value in Hsv. rewrite Hsv. rewrite andb_false_r.
  set (a := fst ad) in *. set (sd := snd ad) in *. set (c := cat_of o).
  set (t1 := ensure_define c a sd t).
  assert (Hat1 : attrs_of o t1 = Some at0).
  { rewrite (attrs_of_objs o t1 t); [exact Hat|apply objs_ensure_define]. }
  assert (Hl : lookup a oattrs = None \/ lookup a oattrs = Some v).
  { destruct (lookup a oattrs); [right; congruence|left; reflexivity]. }
  destruct ef.
  - set (t2 := enum_step c a sd (Some v) t1).
    assert (Hat2 : attrs_of o t2 = Some at0).
    { rewrite (attrs_of_objs o t2 t1); [exact Hat1|apply objs_enum_step]. }
    destruct (explicit_step_value o a oattrs v t2 at0 Hat2 Hc HJ Hl) as (at1 & Ha1 & Hv1).
    exists at1. split; [exact Ha1|].
    rewrite obj_attribute_dflt.
    rewrite (dflt_of_eq c a _ t2); [exact Hv1|]. apply dinfo_explicit_step.
  - destruct (explicit_step_value o a oattrs v t1 at0 Hat1 Hc HJ Hl) as (at1 & Ha1 & Hv1).
    exists at1. split.
    + rewrite (attrs_of_objs o _ (explicit_step o a oattrs (Some v) t1)); [exact Ha1|apply objs_enum_step].
    + rewrite obj_attribute_dflt.
      rewrite (dflt_of_eq c a _ t1); [exact Hv1|].
      rewrite dinfo_enum_step. apply dinfo_explicit_step.
Qed.

(* ---- a whole loop over the source's definitions of one category, seen from the located object ---- *)
Definition loop (o : target_obj) (sk ef : bool) (oattrs : list (Z * Z)) (sdefs : defs) (t : matrix) : matrix :=
  fold_left (attr_step o sk ef oattrs) sdefs t.

(* the source's effective value of attribute a for an object with explicit attributes oattrs *)
Definition src_eff (oattrs : list (Z * Z)) (sdefs : defs) (a : Z) : option Z := obj_attribute oattrs a sdefs.

(* every explicit value the located object carries is the source's effective value *)
Definition only_source_values (oattrs : list (Z * Z)) (sdefs : defs) (at0 : list (Z * Z)) : Prop :=
  forall a w, lookup a at0 = Some w -> src_eff oattrs sdefs a = Some w.

Lemma src_value_src_eff : forall oattrs sdefs a sd,
  lookup a sdefs = Some sd -> src_value oattrs (a, sd) = src_eff oattrs sdefs a.
Proof.
  intros oattrs sdefs a sd H. unfold src_value, src_eff, obj_attribute. simpl. rewrite H. reflexivity.
Qed.

(* the loop and the definitions *)
Lemma loop_dinfo_keeps : forall o sk ef oattrs l t c a x,
  (~ In a (keys l) \/ c = cat_of o) -> dinfo c a t = Some x -> dinfo c a (loop o sk ef oattrs l t) = Some x.
Proof.
  intros o sk ef oattrs l. unfold loop. induction l as [|ad r IH]; intros t c a x Hor H; [exact H|].
  simpl. apply IH.
  - destruct Hor as [Hn|Hc]; [left; intros Hin; apply Hn; right; exact Hin|right; exact Hc].
  - apply dinfo_attr_step_keeps; [|exact H].
    destruct Hor as [Hn|Hc]; [left; intros ->; apply Hn; left; reflexivity|right; exact Hc].
Qed.

Lemma loop_dinfo_other_key : forall o sk ef oattrs l t c a,
  ~ In a (keys l) -> dinfo c a (loop o sk ef oattrs l t) = dinfo c a t.
Proof.
  intros o sk ef oattrs l. unfold loop. induction l as [|ad r IH]; intros t c a Hn; [reflexivity|].
  simpl. rewrite IH by (intros Hin; apply Hn; right; exact Hin).
  apply dinfo_attr_step_other_key. intros ->. apply Hn. left. reflexivity.
Qed.

Lemma loop_attrs_other : forall o o' sk ef oattrs l t,
  o' <> o -> attrs_of o' (loop o sk ef oattrs l t) = attrs_of o' t.
Proof.
  intros o o' sk ef oattrs l. unfold loop. induction l as [|ad r IH]; intros t Hne; [reflexivity|].
  simpl. rewrite IH by exact Hne. apply attr_step_attrs_other. exact Hne.
Qed.

Lemma loop_spec : forall o sk ef oattrs (all : defs) l t at0,
  NoDup (keys l) -> (forall a sd, In (a, sd) l -> lookup a all = Some sd) ->
  attrs_of o t = Some at0 -> attrs_carried oattrs at0 -> only_source_values oattrs all at0 ->
  exists at1, attrs_of o (loop o sk ef oattrs l t) = Some at1 /\
    attrs_carried oattrs at1 /\ only_source_values oattrs all at1 /\
    (* names the loop does not visit: the object keeps what it had *)
    (forall a, ~ In a (keys l) -> lookup a at1 = lookup a at0) /\
    (* names it visits and the source has a value for: the definition is there and the object has the source's value *)
    (forall a sd v, In (a, sd) l -> src_eff oattrs all a = Some v ->
        mem a (get_defs (cat_of o) (loop o sk ef oattrs l t)) = true /\
        obj_attribute at1 a (get_defs (cat_of o) (loop o sk ef oattrs l t)) = Some v).
Proof.
  intros o sk ef oattrs all l. induction l as [|[a2 sd2] r IH]; intros t at0 Hnd Hall Hat Hc HJ.
  - exists at0. simpl. split; [exact Hat|]. split; [exact Hc|]. split; [exact HJ|]. split; [reflexivity|].
    intros a sd v [].
  - simpl. inversion Hnd as [|x xs Hnotin Hnd']; subst.
    assert (Hl2 : lookup a2 all = Some sd2) by (apply Hall; left; reflexivity).
    set (t1 := attr_step o sk ef oattrs t (a2, sd2)).
    destruct (attr_step_attrs o sk ef oattrs t (a2, sd2) at0 Hat) as (at1 & Hat1 & Hshape).
    fold t1 in Hat1.
    assert (Hc1 : attrs_carried oattrs at1).
    { destruct Hshape as [->|(Hl & v & Hv & ->)]; [exact Hc|].
      intros a w Haw. simpl in Hl. destruct (Z.eq_dec a a2) as [->|Hne]; [congruence|].
      rewrite lookup_aset_other by exact Hne. apply Hc. exact Haw. }
    assert (HJ1 : only_source_values oattrs all at1).
    { destruct Hshape as [->|(Hl & v & Hv & ->)]; [exact HJ|].
      intros a w Haw. destruct (Z.eq_dec a a2) as [->|Hne].
      - rewrite lookup_aset_same in Haw. inversion Haw; subst.
        rewrite <- (src_value_src_eff oattrs all a2 sd2 Hl2). exact Hv.
      - rewrite lookup_aset_other in Haw by exact Hne. apply HJ. exact Haw. }
    destruct (IH t1 at1 Hnd' (fun a sd Hin => Hall a sd (or_intror Hin)) Hat1 Hc1 HJ1)
      as (at2 & Hat2 & Hc2 & HJ2 & Hkeep & Hvis).
    exists at2. split; [exact Hat2|]. split; [exact Hc2|]. split; [exact HJ2|]. split.
    + intros a Hnot. simpl in Hnot.
      assert (Hn1 : a2 <> a) by (intros E; apply Hnot; left; exact E).
      assert (Hn2 : ~ In a (keys r)) by (intros E; apply Hnot; right; exact E).
      rewrite (Hkeep a Hn2).
      destruct Hshape as [->|(Hl & v & Hv & ->)]; [reflexivity|].
      apply lookup_aset_other. simpl. congruence.
    + intros a sd v [Heq|Hin] Hv; [|eapply Hvis; eassumption].
      inversion Heq; subst a sd. clear Heq.
      (* the round for a2 itself, then untouched by the rest of the loop *)
      assert (Hsv : src_value oattrs (a2, sd2) = Some v) by (rewrite (src_value_src_eff _ all); assumption).
      assert (HJa : forall w, lookup (fst (a2, sd2)) at0 = Some w -> w = v).
      { intros w Hw. simpl in Hw. apply HJ in Hw. congruence. }
      destruct (attr_step_value o sk ef oattrs t (a2, sd2) at0 v Hat Hc HJa Hsv) as (at1' & Hat1' & Hval).
      fold t1 in Hat1', Hval. rewrite Hat1 in Hat1'. inversion Hat1'; subst at1'. simpl in Hval.
      assert (Hdef : (sk && is_none (src_value oattrs (a2, sd2))) = false) by (rewrite Hsv; apply andb_false_r).
      destruct (attr_step_defines o sk ef oattrs t (a2, sd2) Hdef) as [Hmem _]. fold t1 in Hmem. simpl in Hmem.
      apply mem_dinfo_some in Hmem. destruct Hmem as [x Hx].
      assert (Hx2 : dinfo (cat_of o) a2 (loop o sk ef oattrs r t1) = Some x).
      { rewrite loop_dinfo_other_key by exact Hnotin. exact Hx. }
      split; [eapply dinfo_some_mem; exact Hx2|].
      rewrite obj_attribute_dflt in *. rewrite (Hkeep a2 Hnotin).
      rewrite (dflt_of_eq _ _ _ t1); [exact Hval|].
      change (fold_left (attr_step o sk ef oattrs) r t1) with (loop o sk ef oattrs r t1).
      rewrite Hx2, Hx. reflexivity.
Qed.

