(* The matcher of model/Glob.v (written concurrently for C11) and the one C17 uses (model/Glob_c17.v) are the same
   function, so either development can be re-based on the other.  Not imported by props/C17.v. *)
From CM Require Import lib.Prelude.
From CM Require model.Glob model.Glob_c17.

Lemma glob_models_agree : forall p n, Glob.glob_match p n = Glob_c17.glob_match p n.
Proof.
  induction p as [|c p IH]; intros n; [reflexivity|].
  cbn [Glob.glob_match Glob_c17.glob_match].
  change Glob.STAR with Glob_c17.ch_star. change Glob.QMARK with Glob_c17.ch_qmark.
  destruct (c =? Glob_c17.ch_star).
  - induction n as [|d n IHn]; cbn [Glob_c17.star_any].
    + rewrite IH. reflexivity.
    + rewrite IH. f_equal. exact IHn.
  - destruct n as [|d n]; [reflexivity|]. rewrite IH. reflexivity.
Qed.
