(* C03: the range test and simple (one-level) multiplexed decoding. *)
From CM Require Import lib.Prelude model.Codec model.Mux proofs.Codec_decode proofs.Mux_lib.

(* ---------- Signal.multiplexer_value_in_range ---------- *)

Lemma any_range_iff : forall g v,
  any_range g v = true <-> exists lo hi, In (lo, hi) g /\ lo <= v <= hi.
Proof.
  induction g as [|[lo hi] r IH]; intro v.
  - cbn. split; [discriminate|]. intros [lo [hi [[] _]]].
  - cbn [any_range]. destruct ((lo <=? v) && (v <=? hi)) eqn:E.
    + split; [|reflexivity]. intros _. exists lo, hi. split; [left; reflexivity|lia].
    + rewrite IH. split.
      * intros [lo' [hi' [H1 H2]]]. exists lo', hi'. split; [right; exact H1|exact H2].
      * intros [lo' [hi' [[H1|H1] H2]]].
        -- exfalso. assert (lo' = lo /\ hi' = hi) as [-> ->] by (split; congruence). lia.
        -- exists lo', hi'. split; assumption.
Qed.

Lemma value_in_range_ranges : forall s v, m_grp s <> [] ->
  value_in_range s (Some v) = any_range (m_grp s) v.
Proof. intros s v H. unfold value_in_range. destruct (m_grp s); [contradiction|reflexivity]. Qed.

Lemma value_in_range_no_ranges : forall s mv, m_grp s = [] ->
  value_in_range s mv = opt_eqb mv (m_mux_val s).
Proof. intros s mv H. unfold value_in_range. rewrite H. reflexivity. Qed.

Lemma value_in_range_none : forall s, value_in_range s None = is_none (m_mux_val s).
Proof.
  intro s. unfold value_in_range. destruct (m_grp s); destruct (m_mux_val s); reflexivity.
Qed.

Theorem range_test_spec : forall s v,
  value_in_range s (Some v) = true <->
  (m_grp s <> [] /\ exists lo hi, In (lo, hi) (m_grp s) /\ lo <= v <= hi) \/
  (m_grp s = [] /\ m_mux_val s = Some v).
Proof.
  intros s v. destruct (m_grp s) as [|p r] eqn:E.
  - rewrite (value_in_range_no_ranges s (Some v) E). rewrite opt_eqb_eq. split.
    + intro H. right. split; [reflexivity|congruence].
    + intros [[H _]|[_ H]]; [congruence|congruence].
  - assert (Hne : m_grp s <> []) by (rewrite E; discriminate).
    rewrite (value_in_range_ranges s v Hne), E, any_range_iff. split.
    + intro H. left. split; [discriminate|exact H].
    + intros [[_ H]|[H _]]; [exact H|discriminate].
Qed.

Theorem range_test_inclusive : forall s lo hi v,
  In (lo, hi) (m_grp s) -> lo <= v <= hi -> value_in_range s (Some v) = true.
Proof.
  intros s lo hi v Hin Hv. apply range_test_spec. left. split.
  - intro E. rewrite E in Hin. destruct Hin.
  - exists lo, hi. split; assumption.
Qed.

Theorem range_test_exclusive : forall s v, m_grp s <> [] ->
  (forall lo hi, In (lo, hi) (m_grp s) -> v < lo \/ hi < v) -> value_in_range s (Some v) = false.
Proof.
  intros s v Hne Hout. destruct (value_in_range s (Some v)) eqn:E; [|reflexivity].
  apply range_test_spec in E. destruct E as [[_ [lo [hi [Hin Hv]]]]|[E _]]; [|contradiction].
  destruct (Hout lo hi Hin); lia.
Qed.

(* both ends of a range are accepted, the neighbours outside are rejected *)
Theorem range_test_boundaries : forall s lo hi, m_grp s = [(lo, hi)] -> lo <= hi ->
  value_in_range s (Some lo) = true /\ value_in_range s (Some hi) = true /\
  value_in_range s (Some (lo - 1)) = false /\ value_in_range s (Some (hi + 1)) = false.
Proof.
  intros s lo hi E Hle.
  assert (Hin : In (lo, hi) (m_grp s)) by (rewrite E; left; reflexivity).
  assert (Hne : m_grp s <> []) by (rewrite E; discriminate).
  repeat split.
  - apply (range_test_inclusive s lo hi lo Hin). lia.
  - apply (range_test_inclusive s lo hi hi Hin). lia.
  - apply range_test_exclusive; [exact Hne|]. intros lo' hi' H. rewrite E in H.
    destruct H as [H|[]]. assert (lo' = lo /\ hi' = hi) as [-> ->] by (split; congruence). lia.
  - apply range_test_exclusive; [exact Hne|]. intros lo' hi' H. rewrite E in H.
    destruct H as [H|[]]. assert (lo' = lo /\ hi' = hi) as [-> ->] by (split; congruence). lia.
Qed.

(* ---------- simple decoding ---------- *)

Lemma last_multiplexer_in : forall sigs acc m, last_multiplexer sigs acc = Some m ->
  (In m sigs /\ m_is_mux m = true) \/ acc = Some m.
Proof.
  induction sigs as [|s r IH]; intros acc m H.
  - right. exact H.
  - cbn [last_multiplexer] in H. destruct (IH _ _ H) as [[H1 H2]|H1].
    + left. split; [right; exact H1|exact H2].
    + destruct (m_is_mux s) eqn:E.
      * left. assert (s = m) by congruence. subst. split; [left; reflexivity|exact E].
      * right. exact H1.
Qed.

Lemma last_mux_value_spec : forall decoded (g : msignal -> raw) l acc,
  (forall s, In s l -> lookup (m_name s) decoded = Some (g s)) ->
  last_mux_value l decoded (option_map g acc) = Some (option_map g (last_multiplexer l acc)).
Proof.
  intros decoded g. induction l as [|s r IH]; intros acc Hl.
  - reflexivity.
  - cbn [last_mux_value last_multiplexer].
    assert (Hr : forall t, In t r -> lookup (m_name t) decoded = Some (g t)) by (intros t Ht; apply Hl; right; exact Ht).
    destruct (m_is_mux s).
    + rewrite (Hl s) by (left; reflexivity). apply (IH (Some s) Hr).
    + apply (IH acc Hr).
Qed.

Lemma is_multiplexed_of_in : forall sigs m, In m sigs -> m_is_mux m = true -> is_multiplexed sigs = true.
Proof. intros sigs m H1 H2. unfold is_multiplexed. apply existsb_exists. exists m. split; assumption. Qed.

Lemma filter_names_nodup : forall (P : msignal -> bool) sigs, unique_names sigs ->
  NoDup (map m_name (filter P sigs)).
Proof.
  intros P sigs. unfold unique_names. induction sigs as [|s r IH]; intro H.
  - constructor.
  - cbn [map] in H. inversion H as [|a l Hni Hnd]; subst a l.
    cbn [filter]. destruct (P s).
    + cbn [map]. constructor; [|apply IH; exact Hnd].
      intro Hin. apply Hni. apply in_map_iff in Hin. destruct Hin as [t [E Ht]].
      apply filter_In in Ht. rewrite <- E. apply in_map. apply Ht.
    + apply IH. exact Hnd.
Qed.

(* Exactly what a simply multiplexed frame decodes to: the multiplexer that comes last in signal order provides
   the selector value v; the result lists, in signal order, every signal bound to nothing or bound to v, each with
   the convention's value (C01). *)
Theorem decode_simple_exact :
  forall f d m,
    f_complex f = false -> unique_names (f_sigs f) -> placed (f_size f) (f_sigs f) -> zlen d = f_size f ->
    last_multiplexer (f_sigs f) None = Some m ->
    exists v, int_value d m = Some v /\
      frame_decode f d =
        DOk (map (fun s => (m_name s, convention_value d (m_sig s))) (filter (selected (Some v)) (f_sigs f))).
Proof.
  intros f d m Hc Hn Hp Hl Hm.
  destruct (last_multiplexer_in _ _ _ Hm) as [[Hin Hmux]|H]; [|discriminate].
  destruct (mux_int_value _ _ d m Hp Hin Hmux) as [v [Hcv Hiv]].
  exists v. split; [exact Hiv|].
  destruct (unpack_msigs f d Hn Hp Hl) as [Hu Hd].
  unfold frame_decode. rewrite Hu, Hd, Hc. rewrite (is_multiplexed_of_in _ m Hin Hmux).
  unfold decode_simple.
  pose proof (last_mux_value_spec (decoded_of d (f_sigs f)) (fun s => convention_value d (m_sig s))
                (f_sigs f) None (fun s Hs => lookup_decoded d (f_sigs f) s Hn Hs)) as Hlast.
  cbn [option_map] in Hlast. rewrite Hlast, Hm. cbn [option_map]. rewrite Hcv.
  rewrite (copy_values_exact (decoded_of d (f_sigs f)) (fun s => convention_value d (m_sig s))).
  - reflexivity.
  - intros s Hs. apply filter_In in Hs. apply lookup_decoded; [exact Hn|apply Hs].
  - cbn [map app]. apply filter_names_nodup. exact Hn.
Qed.

Lemma selected_spec : forall v s, selected (Some v) s = true <-> m_mux_val s = None \/ m_mux_val s = Some v.
Proof.
  intros v s. unfold selected. rewrite orb_true_iff, opt_eqb_eq, is_none_eq. tauto.
Qed.

(* the key set: the multiplexer's value v is read from the payload; a signal is returned iff it is bound to nothing
   (this includes the multiplexer of a well-formed frame) or bound to v - whether or not any group uses v *)
Theorem decode_simple_keys :
  forall f d m,
    f_complex f = false -> unique_names (f_sigs f) -> placed (f_size f) (f_sigs f) -> zlen d = f_size f ->
    last_multiplexer (f_sigs f) None = Some m ->
    exists v vals, int_value d m = Some v /\ frame_decode f d = DOk vals /\ NoDup (map fst vals) /\
      (forall n, In n (map fst vals) -> exists s, In s (f_sigs f) /\ m_name s = n) /\
      (forall s, In s (f_sigs f) ->
         (In (m_name s) (map fst vals) <-> m_mux_val s = None \/ m_mux_val s = Some v)).
Proof.
  intros f d m Hc Hn Hp Hl Hm.
  destruct (decode_simple_exact f d m Hc Hn Hp Hl Hm) as [v [Hv Hd]].
  exists v. eexists. split; [exact Hv|]. split; [exact Hd|].
  rewrite map_map. cbn [fst].
  change (map (fun x : msignal => m_name x)) with (map m_name).
  split; [apply filter_names_nodup; exact Hn|]. split.
  - intros n Hin. apply in_map_iff in Hin. destruct Hin as [s [E Hs]]. apply filter_In in Hs.
    exists s. split; [apply Hs|exact E].
  - intros s Hs. rewrite <- selected_spec. split.
    + intro Hin. apply in_map_iff in Hin. destruct Hin as [t [E Ht]]. apply filter_In in Ht.
      destruct Ht as [Ht Hsel].
      assert (t = s) by (apply (unique_names_inj (f_sigs f)); assumption).
      subst t. exact Hsel.
    + intro Hsel. apply in_map. apply filter_In. split; assumption.
Qed.

(* each returned value is the convention's reading of that signal's bits (C01) *)
Theorem decode_simple_values :
  forall f d m,
    f_complex f = false -> unique_names (f_sigs f) -> placed (f_size f) (f_sigs f) -> zlen d = f_size f ->
    last_multiplexer (f_sigs f) None = Some m ->
    exists vals, frame_decode f d = DOk vals /\
      forall n x, In (n, x) vals ->
        exists s, In s (f_sigs f) /\ m_name s = n /\ x = convention_value d (m_sig s).
Proof.
  intros f d m Hc Hn Hp Hl Hm.
  destruct (decode_simple_exact f d m Hc Hn Hp Hl Hm) as [v [Hv Hd]].
  eexists. split; [exact Hd|].
  intros n x Hin. apply in_map_iff in Hin. destruct Hin as [s [E Hs]]. apply filter_In in Hs.
  exists s. split; [apply Hs|]. split; congruence.
Qed.

(* with exactly one multiplexer it is the one decoding consults *)
Lemma sole_last_multiplexer : forall sigs m, sole_multiplexer sigs m -> last_multiplexer sigs None = Some m.
Proof.
  intros sigs m [Hin [Hmux [_ [_ Hsole]]]].
  assert (G : forall l acc, (forall s, In s l -> m_is_mux s = true -> s = m) ->
              (acc = None \/ acc = Some m) ->
              (In m l \/ acc = Some m) -> last_multiplexer l acc = Some m).
  { induction l as [|s r IH]; intros acc Hs Hacc Hm.
    - cbn. destruct Hm as [[]|Hm]. exact Hm.
    - cbn [last_multiplexer]. destruct (m_is_mux s) eqn:E.
      + assert (s = m) by (apply Hs; [left; reflexivity|exact E]). subst s.
        apply IH; [intros t Ht; apply Hs; right; exact Ht|right; reflexivity|right; reflexivity].
      + apply IH; [intros t Ht; apply Hs; right; exact Ht|exact Hacc|].
        destruct Hm as [[Hm|Hm]|Hm]; [subst s; congruence|left; exact Hm|right; exact Hm]. }
  apply G; [exact Hsole|left; reflexivity|left; exact Hin].
Qed.

Lemma sole_get_multiplexer : forall sigs m, sole_multiplexer sigs m -> get_multiplexer sigs = Some m.
Proof.
  intros sigs m [Hin [Hmux [_ [_ Hsole]]]]. unfold get_multiplexer.
  induction sigs as [|s r IH]; [destruct Hin|].
  cbn [find]. destruct (m_is_mux s) eqn:E.
  - f_equal. apply Hsole; [left; reflexivity|exact E].
  - apply IH.
    + destruct Hin as [->|Hin]; [congruence|exact Hin].
    + intros t Ht. apply Hsole. right. exact Ht.
Qed.
