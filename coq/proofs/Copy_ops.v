(* C12: copy_signal, copy_ecu, copy_ecu_with_frames, merge and histories. *)
From CM Require Import lib.Prelude model.CopyOps model.CopySpec proofs.Copy_lib proofs.Copy_focus proofs.Copy_frame
  proofs.Copy_steps proofs.Copy_theorems.

(* ------------------------------------------------------------------ the objects of the target stay in front *)
Lemma keeps_objects_refl : forall t, keeps_objects t t.
Proof. intros t. destruct (keeps_refl t) as [H _]. exact H. Qed.

Lemma keeps_objects_trans : forall t1 t2 t3, keeps_objects t1 t2 -> keeps_objects t2 t3 -> keeps_objects t1 t3.
Proof.
  intros t1 t2 t3 ((le & He) & (lf & Hf) & (ls & Hs) & Hg) ((le' & He') & (lf' & Hf') & (ls' & Hs') & Hg').
  split; [exists (le ++ le'); rewrite He', He, app_assoc; reflexivity|].
  split; [exists (lf ++ lf'); rewrite Hf', Hf, app_assoc; reflexivity|].
  split; [exists (ls ++ ls'); rewrite Hs', Hs, app_assoc; reflexivity|congruence].
Qed.

Lemma keeps_objects_fold : forall {A} (F : matrix -> A -> matrix) l t,
  (forall t x, keeps_objects t (F t x)) -> keeps_objects t (fold_left F l t).
Proof.
  intros A F l. induction l as [|x r IH]; intros t H; simpl; [apply keeps_objects_refl|].
  eapply keeps_objects_trans; [apply H|apply IH; exact H].
Qed.

Lemma keeps_objects_copy_ecu_obj : forall e src t, keeps_objects t (copy_ecu_obj e src t).
Proof.
  intros e src t. destruct (ecu_by_name (e_name e) (m_ecus t)) eqn:E.
  - rewrite (copy_ecu_obj_present e src t _ E). apply keeps_objects_refl.
  - destruct (copy_ecu_obj_shape e src t E) as (e' & He & _ & _ & Hf & Hs & Hg).
    split; [exists [e']; exact He|]. split; [exists []; rewrite app_nil_r; exact Hf|].
    split; [exists []; rewrite app_nil_r; exact Hs|exact Hg].
Qed.

Lemma keeps_objects_copy_frame : forall id src t, keeps_objects t (snd (copy_frame id src t)).
Proof.
  intros id src t. unfold copy_frame. destruct (frame_by_id id (m_frames src)) as [f|]; simpl.
  - destruct (frame_by_id (fid f) (m_frames t)) eqn:Et; simpl; [apply keeps_objects_refl|].
    destruct (copy_frame_body_shape f src t Et) as (l & f' & He & Hf & _ & Hsg & Hg).
    split; [exists l; exact He|]. split; [exists [f']; exact Hf|]. split; [exists []; rewrite app_nil_r; exact Hsg|exact Hg].
  - repeat split; try (exists []; rewrite app_nil_r; reflexivity).
Qed.

Lemma keeps_objects_add_ecu : forall e t, keeps_objects t (add_ecu e t).
Proof.
  intros e t. unfold add_ecu. destruct (existsb _ _); [apply keeps_objects_refl|].
  split; [exists [e]; reflexivity|]. repeat split; try (exists []; rewrite app_nil_r; reflexivity).
Qed.

Lemma keeps_objects_update_ecu_list : forall t, keeps_objects t (update_ecu_list t).
Proof.
  intros t. unfold update_ecu_list. apply keeps_objects_fold. intros t0 f.
  apply keeps_objects_trans with (t2 := fold_left (fun t n => add_ecu (blank_ecu n) t) (f_tx f) t0).
  - apply keeps_objects_fold. intros t1 n. apply keeps_objects_add_ecu.
  - apply keeps_objects_fold. intros t1 s. apply keeps_objects_fold. intros t2 n. apply keeps_objects_add_ecu.
Qed.

(* copy_signal: the signal is appended to the free signals, carried field by field *)
Lemma copy_one_signal_shape : forall s src t,
  exists s', m_sigs (copy_one_signal s src t) = m_sigs t ++ [s'] /\ signal_carried s s' /\
    m_ecus (copy_one_signal s src t) = m_ecus t /\ m_frames (copy_one_signal s src t) = m_frames t /\
    m_gattrs (copy_one_signal s src t) = m_gattrs t.
Proof.
  intros s src t. unfold copy_one_signal.
  set (I := fun ob : list ecu * list frame * list signal * list (Z * Z) =>
              exists sk, ob = (m_ecus t, m_frames t, m_sigs t ++ [sk], m_gattrs t) /\ signal_carried s sk).
  assert (HI : I (objs (loop TLastFree false true (s_attrs s) (m_sdefs src) (add_signal s t)))).
  { apply loop_objs_inv.
    - intros a v t0 (sk & Ho & Hc). apply objs_eq_parts in Ho. destruct Ho as (He & Hf & Hs & Hg).
      exists (set_s_attrs (aset a v (s_attrs sk)) sk). split.
      + unfold objs. simpl. rewrite Hs, upd_last_app, He, Hf, Hg. reflexivity.
      + destruct Hc as (H1 & H2 & H3 & H4). repeat split; assumption.
    - exists s. split; [reflexivity|repeat split; reflexivity]. }
  destruct HI as (sk & Ho & Hc). apply objs_eq_parts in Ho. destruct Ho as (He & Hf & Hs & Hg).
  exists sk. auto.
Qed.

Lemma keeps_objects_copy_one_signal : forall s src t, keeps_objects t (copy_one_signal s src t).
Proof.
  intros s src t. destruct (copy_one_signal_shape s src t) as (s' & Hs & _ & He & Hf & Hg).
  split; [exists []; rewrite app_nil_r; exact He|]. split; [exists []; rewrite app_nil_r; exact Hf|].
  split; [exists [s']; exact Hs|exact Hg].
Qed.

Lemma copy_one_signal_values : forall s src t,
  NoDup (keys (m_sdefs src)) ->
  exists s', m_sigs (copy_one_signal s src t) = m_sigs t ++ [s'] /\ signal_carried s s' /\
             values_from (eff_sig src s) (eff_sig (copy_one_signal s src t) s').
Proof.
  intros s src t Hnd. destruct (copy_one_signal_shape s src t) as (s' & Hs & Hc & _).
  exists s'. split; [exact Hs|]. split; [exact Hc|].
  destruct (good_after_own_loop TLastFree false true (s_attrs s) (m_sdefs src) (add_signal s t) Hnd) as (at0 & Hat & _ & Hv & _).
  - simpl. rewrite last_opt_app. reflexivity.
  - change (loop TLastFree false true (s_attrs s) (m_sdefs src) (add_signal s t)) with (copy_one_signal s src t) in Hat, Hv.
    simpl in Hat. rewrite Hs, last_opt_app in Hat. simpl in Hat.
    inversion Hat. subst at0. intros a v Hav. apply (Hv a v). exact Hav.
Qed.

Lemma keeps_objects_copy_signal : forall g src t, keeps_objects t (copy_signal g src t).
Proof.
  intros g src t. unfold copy_signal. apply keeps_objects_fold. intros t0 f. apply keeps_objects_fold. intros t1 s.
  destruct (glob_match g (s_name s)); [apply keeps_objects_copy_one_signal|apply keeps_objects_refl].
Qed.

Lemma keeps_objects_copy_ecu : forall g src t, keeps_objects t (copy_ecu g src t).
Proof. intros g src t. unfold copy_ecu. apply keeps_objects_fold. intros t0 e. apply keeps_objects_copy_ecu_obj. Qed.

Lemma keeps_objects_copy_frames_where : forall p src t, keeps_objects t (copy_frames_where p src t).
Proof.
  intros p src t. unfold copy_frames_where. apply keeps_objects_fold. intros t0 f.
  destruct (p f); [apply keeps_objects_copy_frame|apply keeps_objects_refl].
Qed.

Lemma keeps_objects_copy_ecu_frames_one : forall rx tx src t e, keeps_objects t (copy_ecu_frames_one rx tx src t e).
Proof.
  intros rx tx src t e. unfold copy_ecu_frames_one.
  set (ta := copy_ecu_obj e src t).
  set (tb := if tx then copy_frames_where (sends (e_name e)) src ta else ta).
  apply keeps_objects_trans with (t2 := ta); [apply keeps_objects_copy_ecu_obj|].
  apply keeps_objects_trans with (t2 := tb).
  - unfold tb. destruct tx; [apply keeps_objects_copy_frames_where|apply keeps_objects_refl].
  - destruct rx; [apply keeps_objects_copy_frames_where|apply keeps_objects_refl].
Qed.

Lemma keeps_objects_copy_ecu_with_frames_nodirect : forall g rx tx src t,
  keeps_objects t (copy_ecu_with_frames g rx tx false src t).
Proof.
  intros g rx tx src t. unfold copy_ecu_with_frames.
  eapply keeps_objects_trans; [|apply keeps_objects_update_ecu_list].
  apply keeps_objects_fold. intros t0 e. apply keeps_objects_copy_ecu_frames_one.
Qed.

Lemma keeps_objects_merge_one : forall t src, keeps_objects t (merge_one t src).
Proof.
  intros t src. unfold merge_one, merge_env.
  apply keeps_objects_trans with (t2 := fold_left (fun t f => snd (copy_frame (fid f) src t)) (m_frames src) t).
  - apply keeps_objects_fold. intros t0 f. apply keeps_objects_copy_frame.
  - apply keeps_objects_fold. intros t0 kv. destruct (mem _ _); [apply keeps_objects_refl|].
    repeat split; try (exists []; rewrite app_nil_r; reflexivity).
Qed.

(* ------------------------------------------------------------------ bystanders, per operation and over histories *)
Lemma merge_keeps : forall ns srcs t, ns_ok ns t -> Forall (ns_ok ns) srcs ->
  keeps t (merge srcs t) /\ ns_ok ns (merge srcs t).
Proof.
  intros ns srcs. unfold merge. induction srcs as [|src r IH]; intros t Ht Hs; [split; [apply keeps_refl|exact Ht]|].
  simpl. inversion Hs as [|x xs Hsrc Hr]; subst.
  destruct (steps_ns ns src t _ Hsrc (steps_merge_one src t) Ht) as [H1 H2].
  destruct (IH _ H1 Hr) as [H3 H4]. split; [|exact H4].
  eapply keeps_trans; [|exact H3]. split; [apply keeps_objects_merge_one|exact H2].
Qed.

Lemma op_keeps : forall ns o t, ns_ok ns t -> Forall (ns_ok ns) (op_sources o) -> op_deletes o = false ->
  keeps t (apply_op t o) /\ ns_ok ns (apply_op t o).
Proof.
  intros ns o t Ht Hs Hd. destruct o as [id src|g src|g rx tx d src|g src|srcs]; simpl in *.
  - inversion Hs; subst. destruct (copy_frame_keeps ns id src t); auto.
  - inversion Hs as [|x xs Hsrc _]; subst.
    destruct (steps_ns ns src t _ Hsrc (steps_copy_ecu g src t) Ht) as [H1 H2].
    split; [split; [apply keeps_objects_copy_ecu|exact H2]|exact H1].
  - inversion Hs as [|x xs Hsrc _]; subst.
    destruct (steps_ns ns src t _ Hsrc (steps_copy_ecu_with_frames g rx tx false src t) Ht) as [H1 H2].
    split; [split; [apply keeps_objects_copy_ecu_with_frames_nodirect|exact H2]|exact H1].
  - inversion Hs as [|x xs Hsrc _]; subst.
    destruct (steps_ns ns src t _ Hsrc (steps_copy_signal g src t) Ht) as [H1 H2].
    split; [split; [apply keeps_objects_copy_signal|exact H2]|exact H1].
  - apply merge_keeps; assumption.
Qed.

Lemma history_keeps : forall ns ops t,
  ns_ok ns t -> Forall (fun o => Forall (ns_ok ns) (op_sources o)) ops -> Forall (fun o => op_deletes o = false) ops ->
  keeps t (run_history t ops) /\ ns_ok ns (run_history t ops).
Proof.
  intros ns ops. unfold run_history. induction ops as [|o r IH]; intros t Ht Hs Hd; [split; [apply keeps_refl|exact Ht]|].
  simpl. inversion Hs as [|x xs Hso Hsr]; subst. inversion Hd as [|y ys Hdo Hdr]; subst.
  destruct (op_keeps ns o t Ht Hso Hdo) as [H1 H2].
  destruct (IH _ H2 Hsr Hdr) as [H3 H4]. split; [eapply keeps_trans; eassumption|exact H4].
Qed.

(* ------------------------------------------------------------------ which frames are copied *)
Lemma mem_id_app : forall i l1 l2, mem_id i (l1 ++ l2) = mem_id i l1 || mem_id i l2.
Proof. intros. unfold mem_id. apply existsb_app. Qed.

Lemma mem_id_true_iff : forall i l, mem_id i l = true <-> In i l.
Proof.
  intros i l. unfold mem_id. rewrite existsb_exists. split.
  - intros (j & Hin & He). apply id_eqb_eq in He. subst. exact Hin.
  - intros Hin. exists i. split; [exact Hin|apply id_eqb_refl].
Qed.

Lemma ids_of_copy_frame : forall id src t,
  frame_by_id id (m_frames src) <> None ->
  ids_of (snd (copy_frame id src t)) = if mem_id id (ids_of t) then ids_of t else ids_of t ++ [id].
Proof.
  intros id src t Hs. unfold copy_frame. destruct (frame_by_id id (m_frames src)) as [f|] eqn:Es; [|congruence].
  destruct (frame_by_id_some _ _ _ Es) as [_ Hid]. rewrite Hid.
  destruct (frame_by_id id (m_frames t)) eqn:Et; simpl.
  - destruct (mem_id id (ids_of t)) eqn:Em; [reflexivity|].
    apply frame_by_id_none_mem in Em. congruence.
  - pose proof Et as Em. apply frame_by_id_none_mem in Em. unfold ids_of at 2. rewrite Em.
    rewrite <- Hid in Et. destruct (copy_frame_body_shape f src t Et) as (l & f' & _ & Hf & Hc & _).
    unfold ids_of. rewrite Hf, map_app. simpl. rewrite (fid_core _ _ Hc), Hid. reflexivity.
Qed.

Lemma frame_by_id_in : forall f fs, In f fs -> frame_by_id (fid f) fs <> None.
Proof.
  intros f fs Hin H. apply frame_by_id_none in H. rewrite existsb_exists in H || idtac.
  assert (Hex : existsb (fun f0 => id_eqb (fid f0) (fid f)) fs = true).
  { apply existsb_exists. exists f. split; [exact Hin|apply id_eqb_refl]. }
  congruence.
Qed.

Lemma add_new_ids_app : forall h r1 r2, add_new_ids h (r1 ++ r2) = add_new_ids (add_new_ids h r1) r2.
Proof. intros. unfold add_new_ids. apply fold_left_app. Qed.

Lemma ids_of_copy_frames_where : forall p src t,
  ids_of (copy_frames_where p src t) = add_new_ids (ids_of t) (map fid (filter p (m_frames src))).
Proof.
  intros p src t. unfold copy_frames_where.
  assert (H : forall l t, incl l (m_frames src) ->
            ids_of (fold_left (fun t f => if p f then snd (copy_frame (fid f) src t) else t) l t) =
            add_new_ids (ids_of t) (map fid (filter p l))).
  { intros l. induction l as [|f r IH]; intros t0 Hincl; [reflexivity|].
    simpl. rewrite IH by (intros x Hx; apply Hincl; right; exact Hx).
    destruct (p f); [|reflexivity].
    simpl. unfold add_new_ids at 2. simpl. fold (add_new_ids (if mem_id (fid f) (ids_of t0) then ids_of t0 else ids_of t0 ++ [fid f]) (map fid (filter p r))).
    rewrite ids_of_copy_frame; [reflexivity|]. apply frame_by_id_in. apply Hincl. left. reflexivity. }
  apply H. apply incl_refl.
Qed.

Lemma ids_of_copy_ecu_obj : forall e src t, ids_of (copy_ecu_obj e src t) = ids_of t.
Proof.
  intros e src t. destruct (keeps_objects_copy_ecu_obj e src t) as (_ & (l & Hf) & _).
  destruct (ecu_by_name (e_name e) (m_ecus t)) eqn:E.
  - rewrite (copy_ecu_obj_present e src t _ E). reflexivity.
  - destruct (copy_ecu_obj_shape e src t E) as (e' & _ & _ & _ & Hf' & _). unfold ids_of. rewrite Hf'. reflexivity.
Qed.

Lemma ids_of_add_ecu : forall e t, ids_of (add_ecu e t) = ids_of t.
Proof. intros e t. unfold add_ecu. destruct (existsb _ _); reflexivity. Qed.

Lemma ids_of_fold_same : forall {A} (F : matrix -> A -> matrix) l t,
  (forall t x, ids_of (F t x) = ids_of t) -> ids_of (fold_left F l t) = ids_of t.
Proof.
  intros A F l. induction l as [|x r IH]; intros t H; simpl; [reflexivity|]. rewrite IH by exact H. apply H.
Qed.

Lemma ids_of_update_ecu_list : forall t, ids_of (update_ecu_list t) = ids_of t.
Proof.
  intros t. unfold update_ecu_list. apply ids_of_fold_same. intros t0 f.
  rewrite ids_of_fold_same.
  - apply ids_of_fold_same. intros t1 n. apply ids_of_add_ecu.
  - intros t1 s. apply ids_of_fold_same. intros t2 n. apply ids_of_add_ecu.
Qed.

Lemma fid_del_from_frame : forall n f, fid (del_from_frame n f) = fid f.
Proof. reflexivity. Qed.

Lemma ids_of_del_ecu : forall e t, ids_of (del_ecu e t) = ids_of t.
Proof.
  intros e t. unfold del_ecu. destruct (existsb _ _); [|reflexivity].
  unfold ids_of. simpl. rewrite map_map. apply map_ext. intros f. apply fid_del_from_frame.
Qed.

Lemma ids_of_direct_only : forall w t, ids_of (direct_only w t) = ids_of t.
Proof. intros w t. unfold direct_only. apply ids_of_fold_same. intros t0 e. apply ids_of_del_ecu. Qed.

Lemma copy_ecu_with_frames_frame_set : forall g rx tx direct src t,
  ids_of (copy_ecu_with_frames g rx tx direct src t) = add_new_ids (ids_of t) (requested_ids g rx tx src).
Proof.
  intros g rx tx direct src t. unfold copy_ecu_with_frames, requested_ids.
  assert (H : forall l t0, ids_of (fold_left (copy_ecu_frames_one rx tx src) l t0) =
            add_new_ids (ids_of t0)
              (flat_map (fun e => (if tx then map fid (filter (sends (e_name e)) (m_frames src)) else []) ++
                                  (if rx then map fid (filter (receives (e_name e)) (m_frames src)) else [])) l)).
  { intros l. induction l as [|e r IH]; intros t0; [reflexivity|].
    simpl. rewrite IH, add_new_ids_app. f_equal. unfold copy_ecu_frames_one. rewrite add_new_ids_app.
    destruct tx, rx; simpl; rewrite ?ids_of_copy_frames_where, ?ids_of_copy_ecu_obj; reflexivity. }
  destruct direct; rewrite ?ids_of_direct_only, ids_of_update_ecu_list; apply H.
Qed.

Lemma add_new_ids_spec : forall req have,
  (exists l, add_new_ids have req = have ++ l) /\
  (forall i, In i (add_new_ids have req) <-> In i have \/ In i req).
Proof.
  intros req. unfold add_new_ids. induction req as [|j r IH]; intros have; simpl.
  - split; [exists []; rewrite app_nil_r; reflexivity|]. intros i. tauto.
  - destruct (mem_id j have) eqn:E.
    + destruct (IH have) as [(l & Hl) Hin]. split; [exists l; exact Hl|].
      intros i. rewrite Hin. apply mem_id_true_iff in E. split; [tauto|]. intros [H|[H|H]]; subst; tauto.
    + destruct (IH (have ++ [j])) as [(l & Hl) Hin]. split; [exists ([j] ++ l); rewrite Hl, app_assoc; reflexivity|].
      intros i. rewrite Hin, in_app_iff. simpl. tauto.
Qed.

(* merge *)
Lemma merge_is_fold_of_copy_frame : forall srcs t,
  merge srcs t =
  fold_left (fun t src => merge_env src (fold_left (fun t f => snd (copy_frame (fid f) src t)) (m_frames src) t)) srcs t.
Proof. reflexivity. Qed.

Lemma filter_true : forall {A} (l : list A), filter (fun _ => true) l = l.
Proof. intros A l. induction l as [|x r IH]; simpl; [reflexivity|]. rewrite IH. reflexivity. Qed.

Lemma ids_of_merge_one : forall t src, ids_of (merge_one t src) = add_new_ids (ids_of t) (map fid (m_frames src)).
Proof.
  intros t src. unfold merge_one, merge_env.
  rewrite ids_of_fold_same by (intros t0 kv; destruct (mem _ _); reflexivity).
  pose proof (ids_of_copy_frames_where (fun _ => true) src t) as H. unfold copy_frames_where in H. simpl in H.
  rewrite filter_true in H. exact H.
Qed.

Lemma merge_frame_rule : forall srcs t,
  ids_of (merge srcs t) = add_new_ids (ids_of t) (flat_map (fun s => map fid (m_frames s)) srcs).
Proof.
  intros srcs. unfold merge. induction srcs as [|s r IH]; intros t; [reflexivity|].
  simpl. rewrite IH, ids_of_merge_one, add_new_ids_app. reflexivity.
Qed.
