(* C17: every bulk operation of model/BulkOps.v has exactly its specified effect. *)
From CM Require Import lib.Prelude model.Glob_c17 model.BulkOps proofs.C17_glob proofs.C17_lib.

(* ---------- zero-width signals ---------- *)
Lemma delete_zero_in_frame_spec : forall f, NoDup (map bs_id (bf_signals f)) ->
  delete_zero_in_frame f = set_signals f (filter (fun s => negb (bs_size s =? 0)) (bf_signals f)).
Proof.
  intros f H. unfold delete_zero_in_frame. f_equal.
  rewrite (remove_all_matching (fun s => 0 =? bs_size s) _ H).
  apply filter_ext_in'. intros x _. rewrite Z.eqb_sym. reflexivity.
Qed.

Lemma zero_signals_all_removed_nothing_else : forall m, objects_distinct m ->
  delete_zero_signals m = on_signals (filter (fun s => negb (bs_size s =? 0))) m.
Proof.
  intros m [_ H]. unfold delete_zero_signals, on_signals. f_equal.
  apply map_ext_in'. intros f Hf. apply delete_zero_in_frame_spec.
  rewrite Forall_forall in H. apply H. exact Hf.
Qed.

(* ---------- obsolete defines ---------- *)
Lemma obsolete_defines_exactly_unused : forall m,
  delete_obsolete_defines m =
  set_defines m (filter (used_by (bm_frames m) bf_attrs) (bm_fdefs m))
                (filter (used_by (bm_ecus m) be_attrs) (bm_edefs m))
                (filter (used_by (all_signals m) bs_attrs) (bm_sdefs m)).
Proof.
  intros m. unfold delete_obsolete_defines. rewrite !obsolete_keys_filter. reflexivity.
Qed.

Lemma used_by_iff {A} (objs : list A) (attrs_of : A -> dict) (kv : Z * Z) :
  used_by objs attrs_of kv = true <-> exists o v, In o objs /\ In (fst kv, v) (attrs_of o).
Proof.
  unfold used_by. rewrite existsb_exists. split.
  - intros [o [Ho H]]. apply dict_has_iff in H. destruct H as [v H]. exists o, v. split; assumption.
  - intros [o [v [Ho H]]]. exists o. split; [exact Ho|]. apply dict_has_iff. exists v. exact H.
Qed.

Lemma all_signals_iff : forall m s,
  In s (all_signals m) <-> (exists f, In f (bm_frames m) /\ In s (bf_signals f)) \/ In s (bm_free m).
Proof.
  intros m s. unfold all_signals. rewrite in_app_iff, in_flat_map. reflexivity.
Qed.

Lemma obsolete_defines_membership : forall m k v,
  let m' := delete_obsolete_defines m in
  (In (k, v) (bm_fdefs m') <->
     In (k, v) (bm_fdefs m) /\ exists f v', In f (bm_frames m) /\ In (k, v') (bf_attrs f)) /\
  (In (k, v) (bm_edefs m') <->
     In (k, v) (bm_edefs m) /\ exists e v', In e (bm_ecus m) /\ In (k, v') (be_attrs e)) /\
  (In (k, v) (bm_sdefs m') <->
     In (k, v) (bm_sdefs m) /\ exists s v', (In s (bm_free m) \/ exists f, In f (bm_frames m) /\ In s (bf_signals f))
                                             /\ In (k, v') (bs_attrs s)) /\
  bm_frames m' = bm_frames m /\ bm_ecus m' = bm_ecus m /\ bm_free m' = bm_free m.
Proof.
  intros m k v m'. subst m'. rewrite obsolete_defines_exactly_unused.
  cbn [set_defines bm_fdefs bm_edefs bm_sdefs bm_frames bm_ecus bm_free].
  split; [|split; [|split; [|split; [reflexivity|split; reflexivity]]]].
  - rewrite filter_In, used_by_iff. cbn [fst]. reflexivity.
  - rewrite filter_In, used_by_iff. cbn [fst]. reflexivity.
  - rewrite filter_In, used_by_iff. cbn [fst]. split.
    + intros [H1 [s [v' [Hs Hv]]]]. split; [exact H1|]. exists s, v'. split; [|exact Hv].
      apply all_signals_iff in Hs. tauto.
    + intros [H1 [s [v' [Hs Hv]]]]. split; [exact H1|]. exists s, v'. split; [|exact Hv].
      apply all_signals_iff. tauto.
Qed.

(* ---------- del_signal ---------- *)
Lemma del_signal_exactly_matching : forall pat m, objects_distinct m ->
  del_signal_glob pat m = on_signals (filter (fun s => negb (glob_match pat (bs_name s)))) m.
Proof.
  intros pat m [_ H]. unfold del_signal_glob, on_signals. f_equal.
  apply map_ext_in'. intros f Hf. f_equal. rewrite Forall_forall in H. specialize (H f Hf).
  unfold glob_signals. rewrite fold_left_filter.
  apply (remove_all_matching (fun s => glob_match pat (bs_name s)) _ H).
Qed.

Lemma del_signal_object_exact : forall i m, objects_distinct m ->
  del_signal_obj i m = on_signals (filter (fun s => negb (bs_id s =? i))) m.
Proof.
  intros i m [_ H]. unfold del_signal_obj, on_signals. f_equal.
  apply map_ext_in'. intros f Hf. rewrite Forall_forall in H. specialize (H f Hf).
  destruct (existsb (fun s => bs_id s =? i) (bf_signals f)) eqn:E.
  - f_equal. apply remove_sig_filter. exact H.
  - rewrite filter_all_true; [symmetry; apply set_signals_same|].
    intros x Hx. destruct (bs_id x =? i) eqn:E2; [|reflexivity].
    assert (existsb (fun s => bs_id s =? i) (bf_signals f) = true) as T.
    { apply existsb_exists. exists x. split; assumption. }
    congruence.
Qed.

(* ---------- renaming ---------- *)
Lemma hd_star_not_last_star : forall old, last old 0 <> ch_star -> hd 0 old = ch_star ->
  exists s, old = ch_star :: s /\ s <> [].
Proof.
  intros old Hl Hh. destruct old as [|c s]; cbn in Hh.
  - unfold ch_star in Hh. discriminate.
  - subst c. exists s. split; [reflexivity|]. intros E. subst s. apply Hl. reflexivity.
Qed.

Lemma rename_frame_name_spec : forall old new name, old <> [] ->
  rename_frame_name old new name = spec_rename old new name.
Proof.
  intros old new name Hne. unfold rename_frame_name, spec_rename.
  destruct (last old 0 =? ch_star) eqn:E1.
  - apply rename_prefix_name_spec. exact Hne.
  - destruct (hd 0 old =? ch_star) eqn:E2; [|reflexivity].
    apply Z.eqb_neq in E1. apply Z.eqb_eq in E2.
    destruct (hd_star_not_last_star old E1 E2) as [s [Eo Hs]]. subst old. cbn [tl].
    apply rename_suffix_name_spec. exact Hs.
Qed.

Lemma last_app_single : forall (p : str) c, last (p ++ [c]) 0 = c.
Proof. intros p c. apply last_last. Qed.

(* what spec_rename means, by concatenation only *)
Lemma rename_meaning : forall old new name, renamed old new name (spec_rename old new name).
Proof.
  intros old new name. unfold renamed, spec_rename. repeat split.
  - intros rest E. unfold is_prefix_pattern in H. subst old. rewrite last_app_single, Z.eqb_refl, removelast_last.
    subst name. rewrite strip_prefix_app. reflexivity.
  - intros Hno. unfold is_prefix_pattern in H. subst old. rewrite last_app_single, Z.eqb_refl, removelast_last.
    pose proof (strip_prefix_spec p name) as S. destruct (strip_prefix p name) as [rest|]; [|reflexivity].
    exfalso. exact (Hno rest S).
  - intros rest E. destruct H as [Eo Hl]. apply Z.eqb_neq in Hl. rewrite Hl. subst old. cbn [hd tl]. rewrite Z.eqb_refl.
    subst name. rewrite strip_suffix_app. reflexivity.
  - intros Hno. destruct H as [Eo Hl]. apply Z.eqb_neq in Hl. rewrite Hl. subst old. cbn [hd tl]. rewrite Z.eqb_refl.
    pose proof (strip_suffix_spec s name) as S. destruct (strip_suffix s name) as [rest|]; [|reflexivity].
    exfalso. exact (Hno rest S).
  - intros E. destruct H as [Hl Hh]. apply Z.eqb_neq in Hl, Hh. rewrite Hl, Hh. subst name. rewrite str_eqb_refl. reflexivity.
  - intros E. destruct H as [Hl Hh]. apply Z.eqb_neq in Hl, Hh. rewrite Hl, Hh. apply str_eqb_neq in E. rewrite E. reflexivity.
Qed.

(* ... and nothing else satisfies that description: the result of a rename is determined *)
Lemma rename_determined : forall old new name name', old <> [] ->
  renamed old new name name' -> name' = spec_rename old new name.
Proof.
  intros old new name name' Hne [Hp [Hs He]]. unfold spec_rename.
  destruct (last old 0 =? ch_star) eqn:E1.
  - apply Z.eqb_eq in E1. destruct (exists_last Hne) as [p [c Eo]]. subst old. rewrite last_app_single in E1. subst c.
    rewrite removelast_last. destruct (Hp p eq_refl) as [H1 H2].
    pose proof (strip_prefix_spec p name) as S. destruct (strip_prefix p name) as [rest|].
    + apply H1. exact S.
    + apply H2. exact S.
  - apply Z.eqb_neq in E1. destruct (hd 0 old =? ch_star) eqn:E2.
    + apply Z.eqb_eq in E2. destruct (hd_star_not_last_star old E1 E2) as [s [Eo Hs']]. subst old. cbn [tl].
      destruct (Hs s (conj eq_refl E1)) as [H1 H2].
      pose proof (strip_suffix_spec s name) as S. destruct (strip_suffix s name) as [rest|].
      * apply H1. exact S.
      * apply H2. exact S.
    + apply Z.eqb_neq in E2. destruct (He (conj E1 E2)) as [H1 H2].
      destruct (str_eqb name old) eqn:E3.
      * apply str_eqb_eq in E3. apply H1. exact E3.
      * apply str_eqb_neq in E3. apply H2. exact E3.
Qed.

Lemma rename_first_unique : forall old new l, NoDup (map bs_name l) ->
  rename_first old new l = map (fun s => if str_eqb (bs_name s) old then set_sname s new else s) l.
Proof.
  intros old new l. induction l as [|s r IH]; intros H; cbn [rename_first map]; [reflexivity|].
  cbn [map] in H. inversion H as [|z zs Hn Hr]; subst.
  destruct (str_eqb (bs_name s) old) eqn:E.
  - f_equal. rewrite (map_ext_in' _ (fun x => x)); [symmetry; apply map_id|].
    intros x Hx. destruct (str_eqb (bs_name x) old) eqn:E2; [|reflexivity].
    apply str_eqb_eq in E, E2. exfalso. apply Hn. rewrite E, <- E2. apply in_map. exact Hx.
  - f_equal. apply IH. exact Hr.
Qed.

Lemma rename_signal_in_frame_spec : forall old new f, old <> [] -> NoDup (map bs_name (bf_signals f)) ->
  rename_signal_in_frame old new f =
  set_signals f (map (fun s => set_sname s (spec_rename old new (bs_name s))) (bf_signals f)).
Proof.
  intros old new f Hne Hu. unfold rename_signal_in_frame.
  rewrite (map_ext_in' (fun s => set_sname s (spec_rename old new (bs_name s)))
                       (fun s => set_sname s (rename_frame_name old new (bs_name s))))
    by (intros s _; rewrite rename_frame_name_spec by exact Hne; reflexivity).
  unfold rename_frame_name.
  destruct (last old 0 =? ch_star); [reflexivity|].
  destruct (hd 0 old =? ch_star); [reflexivity|].
  f_equal. rewrite (rename_first_unique _ _ _ Hu). apply map_ext_in'. intros s _.
  destruct (str_eqb (bs_name s) old); [reflexivity|symmetry; apply set_sname_same].
Qed.

Lemma rename_signal_prefix_suffix_exact : forall old new m, signal_names_unique m -> old <> [] ->
  rename_signal old new m =
  Some (on_signals (map (fun s => set_sname s (spec_rename old new (bs_name s)))) m).
Proof.
  intros old new m Hu Hne. unfold rename_signal, on_signals.
  destruct old as [|c old']; [contradiction|].
  destruct (bm_frames m) as [|f0 fs] eqn:Ef.
  - cbn [map]. rewrite <- Ef. rewrite set_frames_same. reflexivity.
  - f_equal. f_equal. apply map_ext_in'. intros f Hf. apply rename_signal_in_frame_spec; [exact Hne|].
    unfold signal_names_unique in Hu. rewrite Ef, Forall_forall in Hu. apply Hu. exact Hf.
Qed.

Lemma rename_frame_prefix_suffix_exact : forall old new m, old <> [] ->
  rename_frame old new m =
  Some (set_frames m (map (fun f => set_fname f (spec_rename old new (bf_name f))) (bm_frames m))).
Proof.
  intros old new m Hne. unfold rename_frame.
  destruct old as [|c old']; [contradiction|].
  destruct (bm_frames m) as [|f0 fs] eqn:Ef.
  - cbn [map]. rewrite <- Ef. rewrite set_frames_same. reflexivity.
  - f_equal. f_equal. apply map_ext_in'. intros f _. rewrite rename_frame_name_spec by exact Hne. reflexivity.
Qed.

(* ---------- del_frame ---------- *)
Lemma frame_by_name_In : forall n l f, frame_by_name n l = Some f -> In f l /\ bf_name f = n.
Proof.
  intros n l f. induction l as [|g r IH]; cbn [frame_by_name]; [discriminate|].
  destruct (str_eqb (bf_name g) n) eqn:E.
  - intros H. injection H as H. subst g. apply str_eqb_eq in E. split; [left; reflexivity|exact E].
  - intros H. destruct (IH H) as [H1 H2]. split; [right; exact H1|exact H2].
Qed.

Lemma frame_by_name_None : forall n l, frame_by_name n l = None -> forall f, In f l -> str_eqb (bf_name f) n = false.
Proof.
  intros n l. induction l as [|g r IH]; cbn [frame_by_name]; intros H f Hf; [destruct Hf|].
  destruct (str_eqb (bf_name g) n) eqn:E; [discriminate|].
  destruct Hf as [Hf|Hf]; [subst; exact E|apply IH; assumption].
Qed.

Lemma del_frame_by_name : forall n m, frame_names_unique m -> objects_distinct m ->
  del_frame_name n m = set_frames m (filter (fun f => negb (str_eqb (bf_name f) n)) (bm_frames m)).
Proof.
  intros n m Hu [Hd _]. unfold del_frame_name.
  destruct (frame_by_name n (bm_frames m)) as [f|] eqn:E.
  - f_equal. rewrite (remove_frame_filter _ _ Hd). apply filter_ext_in'. intros x Hx. f_equal.
    apply frame_by_name_In in E. destruct E as [Hf En].
    destruct (bf_id x =? bf_id f) eqn:E2.
    + apply Z.eqb_eq in E2. assert (x = f) by (eapply NoDup_map_inj; eauto). subst x.
      symmetry. apply str_eqb_eq. exact En.
    + symmetry. apply str_eqb_neq. intros En2. apply Z.eqb_neq in E2. apply E2.
      assert (x = f) by (eapply (NoDup_map_inj bf_name); eauto; congruence). subst x. reflexivity.
  - rewrite filter_all_true; [symmetry; apply set_frames_same|].
    intros x Hx. rewrite (frame_by_name_None _ _ E x Hx). reflexivity.
Qed.

Lemma del_frame_object_exact : forall i m, objects_distinct m ->
  (existsb (fun f => bf_id f =? i) (bm_frames m) = true ->
     del_frame_obj i m = Some (set_frames m (filter (fun f => negb (bf_id f =? i)) (bm_frames m)))) /\
  (existsb (fun f => bf_id f =? i) (bm_frames m) = false -> del_frame_obj i m = None).
Proof.
  intros i m [Hd _]. unfold del_frame_obj. split; intros E; rewrite E; [|reflexivity].
  rewrite (remove_frame_filter _ _ Hd). reflexivity.
Qed.

(* ---------- attributes ---------- *)
Lemma del_attributes_exact : forall ks m,
  del_signal_attributes ks m = on_signals (map (fun s => set_sattrs s (filter (keeps ks) (bs_attrs s)))) m /\
  del_frame_attributes ks m = set_frames m (map (fun f => set_fattrs f (filter (keeps ks) (bf_attrs f))) (bm_frames m)).
Proof.
  intros ks m. unfold del_signal_attributes, del_frame_attributes, on_signals. split; f_equal.
  - apply map_ext_in'. intros f _. f_equal. apply map_ext_in'. intros s _. rewrite del_attributes_filter. reflexivity.
  - apply map_ext_in'. intros f _. rewrite del_attributes_filter. reflexivity.
Qed.

Lemma keeps_iff : forall ks kv, keeps ks kv = true <-> ~ In (fst kv) ks.
Proof.
  intros ks kv. unfold keeps. rewrite negb_true_iff. split.
  - intros H Hin. assert (existsb (fun k => k =? fst kv) ks = true) as T.
    { apply existsb_exists. exists (fst kv). split; [exact Hin|apply Z.eqb_refl]. }
    congruence.
  - intros H. destruct (existsb (fun k => k =? fst kv) ks) eqn:E; [|reflexivity].
    apply existsb_exists in E. destruct E as [k [Hk E]]. apply Z.eqb_eq in E. subst k. contradiction.
Qed.
