(* C11: the ECU operations of model/EcuOps.v against their specifications. *)
From Coq Require Import Permutation.
From CM Require Import lib.Prelude model.Glob model.EcuOps proofs.Glob_proofs proofs.C11_lists.

Arguments dedup : simpl never.
Arguments nub : simpl nomatch.

(* ================= references of rewritten frames ================= *)
Lemma frame_refs_map_filter : forall p f, frame_refs (map_refs (filter p) f) = filter p (frame_refs f).
Proof.
  intros p [n tx rx sg pay]. unfold frame_refs, map_refs. cbn.
  rewrite !filter_app, flat_map_map'. cbn. rewrite flat_map_filter. reflexivity.
Qed.

Lemma refs_map_filter : forall p fs,
  flat_map frame_refs (map (map_refs (filter p)) fs) = filter p (flat_map frame_refs fs).
Proof.
  intros p fs. rewrite flat_map_map'. rewrite <- flat_map_filter. apply flat_map_ext_in.
  intros f _. apply frame_refs_map_filter.
Qed.

Lemma in_frame_refs_refs3 : forall m f x, In f (frames m) -> In x (frame_refs f) -> In x (refs3 m).
Proof. intros m f x Hf Hx. unfold refs3. apply in_flat_map. exists f. split; assumption. Qed.

(* ================= rename_ecu ================= *)
Lemma ecu_index_spec : forall n es,
  match ecu_index n es with
  | Some i => exists e, nth_error es i = Some e /\ ename e = n /\
                        (forall j e', (j < i)%nat -> nth_error es j = Some e' -> ename e' <> n)
  | None => ~ In n (map ename es)
  end.
Proof.
  intros n. induction es as [|a es IH]; cbn [ecu_index]; [intros []|].
  destruct (name_eqb (ename a) n) eqn:E.
  - apply name_eqb_eq in E. exists a. split; [reflexivity|]. split; [exact E|]. intros j e' Hj. lia.
  - apply name_eqb_neq in E. destruct (ecu_index n es) as [i|].
    + destruct IH as (e & He & Hn & Hlt). exists e. split; [exact He|]. split; [exact Hn|].
      intros j e' Hj Hnth. destruct j as [|j]; cbn in Hnth.
      * injection Hnth as <-. exact E.
      * apply (Hlt j e'); [lia | exact Hnth].
    + cbn. intros [H | H]; [contradiction | apply IH; exact H].
Qed.

Lemma nth_error_set_nth : forall i e es x,
  nth_error es i = Some x ->
  length (set_nth_ecu i e es) = length es /\
  nth_error (set_nth_ecu i e es) i = Some e /\
  (forall j, j <> i -> nth_error (set_nth_ecu i e es) j = nth_error es j).
Proof.
  induction i as [|i IH]; intros e es x H; destruct es as [|a es]; try discriminate; cbn in *.
  - split; [reflexivity|]. split; [reflexivity|]. intros [|j] Hj; [contradiction | reflexivity].
  - destruct (IH e es x H) as (H1 & H2 & H3). split; [congruence|]. split; [exact H2|].
    intros [|j] Hj; [reflexivity|]. cbn. apply H3. congruence.
Qed.

Lemma NoDup_map_inj_in : forall (f : name -> name) l,
  (forall x y, In x l -> In y l -> f x = f y -> x = y) -> NoDup l -> NoDup (map f l).
Proof.
  intros f. induction l as [|a l IH]; intros Hinj H; cbn; [constructor|].
  inversion H as [|a' l' Ha Hl]; subst. constructor.
  - intro HI. apply in_map_iff in HI. destruct HI as (x & Ex & Hx).
    assert (x = a) by (apply Hinj; [right; exact Hx | left; reflexivity | exact Ex]). subst. contradiction.
  - apply IH; [|exact Hl]. intros x y Hx Hy. apply Hinj; right; assumption.
Qed.

Lemma subst_inj_in : forall old new l x y, ~ In new l -> In x l -> In y l ->
  subst old new x = subst old new y -> x = y.
Proof.
  intros old new l x y Hnew Hx Hy E.
  destruct (name_eq_dec x old) as [Ex | Ex]; destruct (name_eq_dec y old) as [Ey | Ey].
  - congruence.
  - subst x. rewrite subst_old, (subst_other _ _ y) in E by exact Ey. subst. contradiction.
  - subst y. rewrite subst_old, (subst_other _ _ x) in E by exact Ex. subst. contradiction.
  - rewrite !subst_other in E by assumption. exact E.
Qed.

Lemma rename_receivers_perm : forall old new sg,
  Forall (fun s => NoDup (sreceivers s)) sg -> ~ In new (flat_map sreceivers sg) ->
  Permutation (map (subst old new) (nub (flat_map sreceivers sg)))
              (nub (flat_map sreceivers (map (fun s => set_sreceivers s (rename_in old new (sreceivers s))) sg))).
Proof.
  intros old new sg Hnd Hnew. rewrite Forall_forall in Hnd.
  assert (Hs : forall s, In s sg -> rename_in old new (sreceivers s) = repl old new (sreceivers s)).
  { intros s Hs. apply rename_in_repl; [apply Hnd; exact Hs|]. intro HI. exfalso. apply Hnew.
    apply in_flat_map. exists s. split; assumption. }
  apply NoDup_Permutation.
  - apply NoDup_map_inj_in; [|apply NoDup_nub]. intros x y Hx Hy. rewrite In_nub in Hx. rewrite In_nub in Hy.
    apply (subst_inj_in old new (flat_map sreceivers sg)); assumption.
  - apply NoDup_nub.
  - intro y. rewrite In_nub, flat_map_map'. cbn. rewrite in_map_iff, in_flat_map. split.
    + intros (x & Ex & Hx). rewrite In_nub in Hx. apply in_flat_map in Hx. destruct Hx as (s & Hs1 & Hs2).
      exists s. split; [exact Hs1|]. rewrite Hs by exact Hs1. apply in_repl_iff; [apply Hnd; exact Hs1|].
      apply in_map_iff. exists x. split; assumption.
    + intros (s & Hs1 & Hs2). rewrite Hs in Hs2 by exact Hs1. apply in_repl_iff in Hs2; [|apply Hnd; exact Hs1].
      apply in_map_iff in Hs2. destruct Hs2 as (x & Ex & Hx). exists x. split; [exact Ex|].
      apply In_nub. apply in_flat_map. exists s. split; assumption.
Qed.

Lemma renamed_frame_holds : forall old new f,
  frame_wf f -> ~ In new (frame_refs f) -> renamed_frame old new f (rewrite_frame (rename_in old new) f).
Proof.
  intros old new [n tx rx sg pay] [Hup [Htx Hsg]] Hnew. unfold frame_uptodate in Hup. unfold frame_refs in Hnew. cbn in *.
  assert (Hn1 : ~ In new tx) by (intro HI; apply Hnew; apply in_or_app; left; exact HI).
  assert (Hn2 : ~ In new (flat_map sreceivers sg))
    by (intro HI; apply Hnew; apply in_or_app; right; apply in_or_app; left; exact HI).
  assert (Etx : rename_in old new tx = repl old new tx)
    by (apply rename_in_repl; [exact Htx | intro HI; contradiction]).
  unfold renamed_frame, rewrite_frame, update_receiver. cbn.
  split; [reflexivity|]. split; [reflexivity|]. split; [exact Etx|].
  split; [rewrite Etx; apply repl_perm; exact Htx|].
  split.
  - apply Forall2_map_r. intros s Hs. cbn. rewrite Forall_forall in Hsg.
    assert (Es : rename_in old new (sreceivers s) = repl old new (sreceivers s)).
    { apply rename_in_repl; [apply Hsg; exact Hs|]. intro HI. exfalso. apply Hn2. apply in_flat_map.
      exists s. split; assumption. }
    split; [reflexivity|]. split; [reflexivity|]. split; [exact Es|]. rewrite Es. apply repl_perm. apply Hsg. exact Hs.
  - split.
    + rewrite dedup_nub, Hup. apply rename_receivers_perm; assumption.
    + unfold frame_uptodate. cbn. apply dedup_nub.
Qed.

Lemma rewrite_rename_no_old : forall old new f, new <> old -> frame_refs_nodup f ->
  ~ In old (frame_refs (rewrite_frame (rename_in old new) f)).
Proof.
  intros old new [n tx rx sg pay] Hne [Htx Hsg]. cbn in *. rewrite Forall_forall in Hsg.
  unfold frame_refs, rewrite_frame, update_receiver. cbn.
  assert (Hmid : ~ In old (flat_map sreceivers (map (fun s => set_sreceivers s (rename_in old new (sreceivers s))) sg))).
  { rewrite flat_map_map'. cbn. intro HI. apply in_flat_map in HI. destruct HI as (s & Hs1 & Hs2).
    revert Hs2. apply rename_in_no_old; [exact Hne | apply Hsg; exact Hs1]. }
  intro HI. apply in_app_or in HI. destruct HI as [HI | HI].
  - revert HI. apply rename_in_no_old; assumption.
  - apply in_app_or in HI. destruct HI as [HI | HI]; [apply Hmid; exact HI|].
    rewrite dedup_nub in HI. rewrite In_nub in HI. apply Hmid. exact HI.
Qed.

Lemma rename_at_wf : forall i new m, wf m -> wf (rename_ecu_at i new m).
Proof.
  intros i new m H. unfold rename_ecu_at. destruct (nth_error (ecus m) i) as [e|]; [|exact H].
  apply wf_frames. cbn. apply wf_frames in H. rewrite Forall_map. eapply Forall_impl; [|exact H].
  intros f [_ Hf]. apply rewrite_frame_wf; [apply rename_in_NoDup | exact Hf].
Qed.

Lemma rename_replaces_all_refs : forall m i e new,
  wf m -> nth_error (ecus m) i = Some e -> ~ In new (refs3 m) ->
  let old := ename e in
  let m' := rename_ecu_at i new m in
  (length (ecus m') = length (ecus m) /\
   nth_error (ecus m') i = Some (mkEcu new (epay e)) /\
   (forall j, j <> i -> nth_error (ecus m') j = nth_error (ecus m) j)) /\
  Forall2 (renamed_frame old new) (frames m) (frames m') /\
  free m' = free m /\
  (new <> old -> ~ In old (refs3 m')) /\
  wf m'.
Proof.
  intros m i e new Hwf Hnth Hnew old m'.
  assert (Em : m' = mkMatrix (set_nth_ecu i (mkEcu new (epay e)) (ecus m))
                             (map (rewrite_frame (rename_in old new)) (frames m)) (free m)).
  { unfold m', rename_ecu_at. rewrite Hnth. reflexivity. }
  split; [rewrite Em; cbn; apply (nth_error_set_nth i _ _ e); exact Hnth|].
  apply wf_frames in Hwf. rewrite Forall_forall in Hwf.
  split.
  { rewrite Em. cbn. apply Forall2_map_r. intros f Hf. apply renamed_frame_holds; [apply Hwf; exact Hf|].
    intro HI. apply Hnew. apply (in_frame_refs_refs3 m f); assumption. }
  split; [rewrite Em; reflexivity|].
  split.
  { intros Hne HI. rewrite Em in HI. unfold refs3 in HI. cbn in HI. rewrite flat_map_map' in HI.
    apply in_flat_map in HI. destruct HI as (f & Hf & HI). revert HI.
    apply rewrite_rename_no_old; [exact Hne | apply Hwf; exact Hf]. }
  unfold m'. apply rename_at_wf. apply wf_frames. apply Forall_forall. exact Hwf.
Qed.

Lemma rename_by_name_is_first_listed : forall m old new,
  match ecu_index old (ecus m) with
  | Some i => rename_ecu_name old new m = rename_ecu_at i new m /\
              exists e, nth_error (ecus m) i = Some e /\ ename e = old /\
                        (forall j e', (j < i)%nat -> nth_error (ecus m) j = Some e' -> ename e' <> old)
  | None => ~ In old (listed m)
  end.
Proof.
  intros m old new. pose proof (ecu_index_spec old (ecus m)) as H. unfold rename_ecu_name.
  destruct (ecu_index old (ecus m)) as [i|]; [split; [reflexivity | exact H] | exact H].
Qed.

Lemma rename_unlisted_is_noop : forall m old new, ~ In old (listed m) -> rename_ecu_name old new m = m.
Proof.
  intros m old new H. pose proof (ecu_index_spec old (ecus m)) as Hs. unfold rename_ecu_name.
  destruct (ecu_index old (ecus m)) as [i|]; [|reflexivity].
  destruct Hs as (e & He & Hn & _). exfalso. apply H. unfold listed. apply in_map_iff. exists e.
  split; [exact Hn | eapply nth_error_In; exact He].
Qed.

(* ================= del_ecu ================= *)
Lemma ecu_eqb_eq : forall a b, ecu_eqb a b = true <-> a = b.
Proof.
  intros [na pa] [nb pb]. unfold ecu_eqb. cbn. rewrite andb_true_iff, name_eqb_eq, Z.eqb_eq. split.
  - intros [H1 H2]. congruence.
  - intro H. injection H as H1 H2. split; assumption.
Qed.

Lemma ecu_mem_In : forall e es, ecu_mem e es = true <-> In e es.
Proof.
  intros e es. unfold ecu_mem. rewrite existsb_exists. split.
  - intros (y & Hy & E). apply ecu_eqb_eq in E. subst. exact Hy.
  - intro H. exists e. split; [exact H | apply ecu_eqb_eq; reflexivity].
Qed.

Lemma remove_first_ecu_split : forall e es, In e es ->
  exists l1 l2, es = l1 ++ e :: l2 /\ ~ In e l1 /\ remove_first_ecu e es = l1 ++ l2.
Proof.
  intros e. induction es as [|a es IH]; intro H; [destruct H|]. cbn [remove_first_ecu].
  destruct (ecu_eqb e a) eqn:E.
  - apply ecu_eqb_eq in E. subst a. exists [], es. split; [reflexivity|]. split; [intros []|reflexivity].
  - assert (Hne : e <> a) by (intro Ee; subst; rewrite (proj2 (ecu_eqb_eq a a) eq_refl) in E; discriminate).
    destruct H as [H | H]; [congruence|]. destruct (IH H) as (l1 & l2 & E1 & E2 & E3).
    exists (a :: l1), l2. split; [cbn; congruence|]. split; [|cbn; congruence].
    intros [HI | HI]; [congruence | contradiction].
Qed.

Lemma remove_first_ecu_middle : forall e pre r, (forall y, In y pre -> ecu_eqb e y = false) ->
  remove_first_ecu e (pre ++ e :: r) = pre ++ r.
Proof.
  intros e. induction pre as [|a pre IH]; intros r H; cbn.
  - rewrite (proj2 (ecu_eqb_eq e e) eq_refl). reflexivity.
  - rewrite (H a) by (left; reflexivity). f_equal. apply IH. intros y Hy. apply H. right. exact Hy.
Qed.

Lemma del_one_spec : forall e m, wf m -> ecu_mem e (ecus m) = true ->
  del_one e m = mkMatrix (remove_first_ecu e (ecus m))
                         (map (map_refs (filter (keep_not (ename e)))) (frames m)) (free m).
Proof.
  intros e m Hwf He. unfold del_one. rewrite He. f_equal. apply map_ext_in. intros f Hf.
  apply wf_frames in Hwf. rewrite Forall_forall in Hwf.
  apply rewrite_frame_filter; [apply Hwf; exact Hf|]. intros l Hl. apply del_name_nodup. exact Hl.
Qed.

Lemma del_one_wf : forall e m, wf m -> wf (del_one e m).
Proof.
  intros e m H. unfold del_one. destruct (ecu_mem e (ecus m)); [|exact H].
  apply wf_frames. cbn. apply wf_frames in H. rewrite Forall_map. eapply Forall_impl; [|exact H].
  intros f [_ Hf]. apply rewrite_frame_wf; [apply del_name_NoDup | exact Hf].
Qed.

Lemma Forall_wf_map_filter : forall p fs, Forall frame_wf fs -> Forall frame_wf (map (map_refs (filter p)) fs).
Proof. intros p fs H. rewrite Forall_map. eapply Forall_impl; [|exact H]. intros f Hf. apply map_refs_filter_wf. exact Hf. Qed.

Lemma del_removes_ecu_and_refs : forall m e,
  wf m -> In e (ecus m) ->
  let m' := del_ecu_inst e m in
  (exists l1 l2, ecus m = l1 ++ e :: l2 /\ ~ In e l1 /\ ecus m' = l1 ++ l2) /\
  frames m' = map (map_refs (filter (keep_not (ename e)))) (frames m) /\
  free m' = free m /\
  refs3 m' = filter (keep_not (ename e)) (refs3 m) /\
  ~ In (ename e) (refs3 m') /\
  wf m'.
Proof.
  intros m e Hwf He m'.
  assert (Em : m' = mkMatrix (remove_first_ecu e (ecus m))
                             (map (map_refs (filter (keep_not (ename e)))) (frames m)) (free m)).
  { unfold m', del_ecu_inst. apply del_one_spec; [exact Hwf | apply ecu_mem_In; exact He]. }
  assert (Er : refs3 m' = filter (keep_not (ename e)) (refs3 m)).
  { rewrite Em. unfold refs3. cbn. apply refs_map_filter. }
  split.
  { destruct (remove_first_ecu_split e (ecus m) He) as (l1 & l2 & E1 & E2 & E3).
    exists l1, l2. split; [exact E1|]. split; [exact E2|]. rewrite Em. exact E3. }
  split; [rewrite Em; reflexivity|]. split; [rewrite Em; reflexivity|]. split; [exact Er|].
  split.
  { rewrite Er. intro HI. apply filter_In in HI. destruct HI as [_ HI]. apply keep_not_true in HI. apply HI. reflexivity. }
  unfold m', del_ecu_inst. apply del_one_wf. exact Hwf.
Qed.

Lemma del_foreign_is_noop : forall m e, ~ In e (ecus m) -> del_ecu_inst e m = m.
Proof.
  intros m e H. unfold del_ecu_inst, del_one. destruct (ecu_mem e (ecus m)) eqn:E; [|reflexivity].
  apply ecu_mem_In in E. contradiction.
Qed.

(* ---- glob ---- *)
Definition hitb (p : name -> bool) (ns : list name) (x : name) : bool := p x && mem x ns.

Lemma del_fold : forall (p : name -> bool) es pre fs fr,
  Forall frame_wf fs -> (forall e, In e pre -> p (ename e) = false) ->
  fold_left (fun m e => del_one e m) (filter (fun e => p (ename e)) es) (mkMatrix (pre ++ es) fs fr)
  = mkMatrix (pre ++ filter (fun e => negb (p (ename e))) es)
             (map (map_refs (filter (fun x => negb (hitb p (map ename es) x)))) fs) fr.
Proof.
  intros p. induction es as [|e r IH]; intros pre fs fr Hwf Hpre.
  - cbn. f_equal. symmetry. erewrite map_ext; [apply map_id|]. intro f. apply map_refs_filter_id.
    intros x _. unfold hitb. cbn. rewrite andb_false_r. reflexivity.
  - cbn [filter map]. destruct (p (ename e)) eqn:E; cbn [negb fold_left].
    + rewrite del_one_spec.
      2:{ apply wf_frames. exact Hwf. }
      2:{ cbn. apply ecu_mem_In. apply in_or_app. right. left. reflexivity. }
      cbn [ecus frames free]. rewrite remove_first_ecu_middle.
      2:{ intros y Hy. destruct (ecu_eqb e y) eqn:Ey; [|reflexivity]. apply ecu_eqb_eq in Ey. subst y.
          rewrite (Hpre e Hy) in E. discriminate. }
      rewrite IH; [|apply Forall_wf_map_filter; exact Hwf | exact Hpre].
      f_equal. rewrite map_map. apply map_ext. intro f. rewrite map_refs_filter_filter.
      apply map_refs_filter_ext. intro x. unfold hitb. rewrite mem_cons.
      destruct (name_eq_dec x (ename e)) as [Ex | Ex].
      * subst x. rewrite E. unfold keep_not. rewrite !name_eqb_refl. cbn. apply andb_false_r.
      * assert (K : keep_not (ename e) x = true) by (apply keep_not_true; exact Ex).
        rewrite K, andb_true_r. apply name_eqb_neq in Ex. rewrite Ex. reflexivity.
    + change (pre ++ e :: r) with (pre ++ [e] ++ r). rewrite app_assoc.
      rewrite IH; [|exact Hwf|].
      2:{ intros y Hy. apply in_app_or in Hy. destruct Hy as [Hy | [Hy | []]]; [apply Hpre; exact Hy | subst; exact E]. }
      rewrite <- app_assoc. cbn [app]. f_equal. apply map_ext. intro f.
      apply map_refs_filter_ext. intro x. unfold hitb. rewrite mem_cons.
      destruct (name_eq_dec x (ename e)) as [Ex | Ex].
      * subst x. rewrite E. reflexivity.
      * apply name_eqb_neq in Ex. rewrite Ex. reflexivity.
Qed.

Lemma del_ecu_glob_spec : forall pat m, wf m ->
  del_ecu_glob pat m = mkMatrix (filter (fun e => negb (glob_match pat (ename e))) (ecus m))
                                (map (map_refs (filter (fun x => negb (glob_hit pat m x)))) (frames m))
                                (free m).
Proof.
  intros pat [es fs fr] Hwf. unfold del_ecu_glob, glob_ecus. cbn [ecus frames free].
  apply wf_frames in Hwf. cbn in Hwf.
  exact (del_fold (glob_match pat) es [] fs fr Hwf (fun e (H : In e []) => match H with end)).
Qed.

Lemma del_ecu_glob_wf : forall pat m, wf m -> wf (del_ecu_glob pat m).
Proof.
  intros pat m H. unfold del_ecu_glob. apply fold_left_preserves; [|exact H]. intros a x Ha. apply del_one_wf. exact Ha.
Qed.

Lemma glob_hit_iff : forall pat m x, glob_hit pat m x = true <-> glob_rel pat x /\ In x (listed m).
Proof. intros pat m x. unfold glob_hit. rewrite andb_true_iff, glob_match_iff, mem_In. reflexivity. Qed.

Lemma del_glob_hits_exactly_matches : forall m pat,
  wf m ->
  let m' := del_ecu_glob pat m in
  ecus m' = filter (fun e => negb (glob_match pat (ename e))) (ecus m) /\
  frames m' = map (map_refs (filter (fun x => negb (glob_hit pat m x)))) (frames m) /\
  free m' = free m /\
  refs3 m' = filter (fun x => negb (glob_hit pat m x)) (refs3 m) /\
  wf m'.
Proof.
  intros m pat Hwf m'. unfold m'. split; [|split; [|split; [|split]]].
  - rewrite del_ecu_glob_spec by exact Hwf. reflexivity.
  - rewrite del_ecu_glob_spec by exact Hwf. reflexivity.
  - rewrite del_ecu_glob_spec by exact Hwf. reflexivity.
  - rewrite del_ecu_glob_spec by exact Hwf. unfold refs3. cbn. apply refs_map_filter.
  - apply del_ecu_glob_wf. exact Hwf.
Qed.

(* ================= delete_obsolete_ecus ================= *)
Lemma del_glob_literal_unref : forall n m, wf m -> literal n = true -> ~ In n (refs3 m) ->
  del_ecu_glob n m = mkMatrix (filter (fun e => negb (name_eqb n (ename e))) (ecus m)) (frames m) (free m).
Proof.
  intros n m Hwf Hlit Hun. rewrite del_ecu_glob_spec by exact Hwf. f_equal.
  - apply filter_ext. intro e. rewrite glob_literal by exact Hlit. reflexivity.
  - erewrite map_ext_in; [apply map_id|]. intros f Hf. apply map_refs_filter_id. intros x Hx.
    unfold glob_hit. rewrite glob_literal by exact Hlit. apply negb_true_iff.
    assert (Hne : n <> x) by (intro E; subst; apply Hun; apply (in_frame_refs_refs3 m f); assumption).
    apply name_eqb_neq in Hne. rewrite Hne. reflexivity.
Qed.

Lemma obsolete_fold : forall ns m, wf m -> Forall (fun n => literal n = true) ns ->
  (forall n, In n ns -> ~ In n (refs3 m)) ->
  fold_left (fun m n => del_ecu_glob n m) ns m
  = mkMatrix (filter (fun e => negb (mem (ename e) ns)) (ecus m)) (frames m) (free m).
Proof.
  induction ns as [|n ns IH]; intros m Hwf Hlit Hun.
  - cbn. destruct m as [es fs fr]. cbn. f_equal. symmetry. apply filter_all. reflexivity.
  - cbn [fold_left]. inversion Hlit as [|n' ns' Hl1 Hl2]; subst.
    rewrite del_glob_literal_unref; [|exact Hwf | exact Hl1 | apply Hun; left; reflexivity].
    rewrite IH.
    + cbn [ecus frames free]. f_equal. rewrite filter_filter. apply filter_ext. intro e.
      rewrite mem_cons, negb_orb, (name_eqb_sym n (ename e)). apply andb_comm.
    + apply wf_frames. cbn. apply wf_frames. exact Hwf.
    + exact Hl2.
    + intros x Hx. unfold refs3. cbn. apply Hun. right. exact Hx.
Qed.

Lemma refs3_used : forall m x, In x (refs3 m) -> In x (used_names m).
Proof.
  intros m x H. unfold refs3 in H. apply in_flat_map in H. destruct H as (f & Hf & Hx).
  unfold frame_refs in Hx. unfold used_names. apply in_app_or in Hx. destruct Hx as [Hx | Hx].
  - apply in_or_app. left. apply in_flat_map. exists f. split; assumption.
  - apply in_app_or in Hx. destruct Hx as [Hx | Hx].
    + apply in_or_app. right. apply in_or_app. right. apply in_or_app. left. apply in_flat_map. exists f. split; assumption.
    + apply in_or_app. right. apply in_or_app. left. apply in_flat_map. exists f. split; assumption.
Qed.

Lemma used_iff : forall m x, In x (used_names m) <-> In x (refs3 m) \/ In x (flat_map sreceivers (free m)).
Proof.
  intros m x. split.
  - intro H. unfold used_names in H. apply in_app_or in H. destruct H as [H | H].
    + left. apply in_flat_map in H. destruct H as (f & Hf & Hx). apply (in_frame_refs_refs3 m f); [exact Hf|].
      unfold frame_refs. apply in_or_app. left. exact Hx.
    + apply in_app_or in H. destruct H as [H | H].
      * left. apply in_flat_map in H. destruct H as (f & Hf & Hx). apply (in_frame_refs_refs3 m f); [exact Hf|].
        unfold frame_refs. apply in_or_app. right. apply in_or_app. right. exact Hx.
      * apply in_app_or in H. destruct H as [H | H]; [|right; exact H].
        left. apply in_flat_map in H. destruct H as (f & Hf & Hx). apply (in_frame_refs_refs3 m f); [exact Hf|].
        unfold frame_refs. apply in_or_app. right. apply in_or_app. left. exact Hx.
  - intros [H | H]; [apply refs3_used; exact H|]. unfold used_names.
    apply in_or_app. right. apply in_or_app. right. apply in_or_app. right. exact H.
Qed.

Lemma obsolete_removes_exactly_unreferenced : forall m,
  wf m -> listed_literal m ->
  let m' := delete_obsolete_ecus m in
  ecus m' = filter (fun e => mem (ename e) (used_names m)) (ecus m) /\
  frames m' = frames m /\ free m' = free m.
Proof.
  intros m Hwf Hlit m'.
  assert (Em : m' = mkMatrix (filter (fun e => negb (mem (ename e) (obsolete_names m))) (ecus m)) (frames m) (free m)).
  { unfold m', delete_obsolete_ecus. apply obsolete_fold; [exact Hwf| |].
    - unfold listed_literal, listed in Hlit. rewrite Forall_forall in *. intros n Hn. apply Hlit.
      unfold obsolete_names in Hn. apply in_map_iff in Hn. destruct Hn as (e & Ee & He).
      apply filter_In in He. apply in_map_iff. exists e. split; [exact Ee | apply He].
    - intros n Hn HI. unfold obsolete_names in Hn. apply in_map_iff in Hn. destruct Hn as (e & Ee & He).
      apply filter_In in He. destruct He as [_ He]. apply negb_true_iff in He. apply mem_false in He.
      apply He. rewrite Ee. apply refs3_used. exact HI. }
  rewrite Em. cbn. split; [|split; reflexivity].
  apply filter_ext_in'. intros e He. destruct (mem (ename e) (used_names m)) eqn:E.
  - apply negb_true_iff. apply mem_false. intro HI. unfold obsolete_names in HI. apply in_map_iff in HI.
    destruct HI as (e' & Ee & He'). apply filter_In in He'. destruct He' as [_ He']. rewrite Ee, E in He'. discriminate.
  - apply negb_false_iff. apply mem_In. unfold obsolete_names. apply in_map_iff. exists e. split; [reflexivity|].
    apply filter_In. split; [exact He | rewrite E; reflexivity].
Qed.

(* ================= add_ecu / update_ecu_list ================= *)
Lemma add_ecu_clean : forall n es, Forall clean (map ename es) ->
  add_ecu n es = if mem n (map ename es) then es else es ++ [mkEcu n default_epay].
Proof.
  intros n es H. unfold add_ecu.
  assert (E : existsb (fun e => name_eqb (strip (ename e)) n) es = mem n (map ename es)).
  { induction es as [|a es IH]; [reflexivity|]. cbn in H. inversion H as [|x l Hx Hl]; subst.
    cbn [existsb map]. rewrite mem_cons, IH by exact Hl. unfold clean in Hx. rewrite Hx, (name_eqb_sym n). reflexivity. }
  rewrite E. reflexivity.
Qed.

Lemma fold_add_ecu : forall L es, Forall clean (map ename es) -> Forall clean L ->
  fold_left (fun es n => add_ecu n es) L es
  = es ++ map (fun n => mkEcu n default_epay) (filter (fun n => negb (mem n (map ename es))) (nub L)).
Proof.
  induction L as [|x L IH]; intros es Hes HL; cbn [fold_left nub filter map]; [rewrite app_nil_r; reflexivity|].
  inversion HL as [|x' L' Hx HL']; subst. rewrite add_ecu_clean by exact Hes.
  destruct (mem x (map ename es)) eqn:E; cbn [negb].
  - rewrite IH by assumption. f_equal. f_equal. rewrite filter_filter. apply filter_ext_in'. intros y _.
    destruct (mem y (map ename es)) eqn:Ey; cbn; [reflexivity|]. symmetry. apply negb_true_iff. apply name_eqb_neq.
    intro Exy. subst. congruence.
  - rewrite IH; [|rewrite map_app; apply Forall_app; split; [exact Hes | constructor; [exact Hx | constructor]] | exact HL'].
    rewrite <- app_assoc. cbn [app map]. f_equal. f_equal. f_equal. rewrite filter_filter. apply filter_ext_in'. intros y _.
    rewrite map_app, mem_app. cbn [map ename mem existsb]. rewrite orb_false_r, negb_orb, (name_eqb_sym x y). reflexivity.
Qed.

Lemma update_ecu_list_wf : forall m, refs_nodup m -> wf (update_ecu_list m).
Proof.
  intros m H. apply wf_frames. cbn. rewrite Forall_map. unfold refs_nodup in H. eapply Forall_impl; [|exact H].
  intros f Hf. split; [apply update_receiver_uptodate|]. exact Hf.
Qed.

Lemma in_refs3_update_order : forall m x, receivers_uptodate m -> In x (refs3 m) -> In x (update_order (frames m)).
Proof.
  intros m x Hup H. unfold refs3 in H. apply in_flat_map in H. destruct H as (f & Hf & Hx).
  unfold update_order. apply in_flat_map. exists f. split; [exact Hf|].
  unfold frame_refs in Hx. apply in_app_or in Hx. destruct Hx as [Hx | Hx]; [apply in_or_app; left; exact Hx|].
  apply in_or_app. right. apply in_app_or in Hx. destruct Hx as [Hx | Hx]; [exact Hx|].
  unfold receivers_uptodate in Hup. rewrite Forall_forall in Hup. rewrite (Hup f Hf) in Hx. rewrite In_nub in Hx. exact Hx.
Qed.

Lemma in_update_order_refs3 : forall m x, In x (update_order (frames m)) -> In x (refs3 m).
Proof.
  intros m x H. unfold update_order in H. apply in_flat_map in H. destruct H as (f & Hf & Hx).
  apply (in_frame_refs_refs3 m f); [exact Hf|]. unfold frame_refs. apply in_app_or in Hx.
  destruct Hx as [Hx | Hx]; apply in_or_app; [left; exact Hx | right; apply in_or_app; left; exact Hx].
Qed.

Lemma update_lists_every_ref_once : forall m,
  receivers_uptodate m -> names_clean m ->
  let m' := update_ecu_list m in
  let added := filter (fun n => negb (mem n (listed m))) (nub (update_order (frames m))) in
  ecus m' = ecus m ++ map (fun n => mkEcu n default_epay) added /\
  frames m' = frames m /\ free m' = free m /\
  (forall n, In n (refs3 m') -> In n (listed m')) /\
  (forall n, In n (listed m') -> In n (listed m) \/ In n (refs3 m)) /\
  (NoDup (listed m) -> NoDup (listed m')).
Proof.
  intros m Hup [Hc1 Hc2] m' added.
  assert (Ee : ecus m' = ecus m ++ map (fun n => mkEcu n default_epay) added).
  { unfold m', update_ecu_list. cbn. apply fold_add_ecu; assumption. }
  assert (Ef : frames m' = frames m).
  { unfold m', update_ecu_list. cbn. erewrite map_ext_in; [apply map_id|]. intros f Hf.
    apply update_receiver_id. unfold receivers_uptodate in Hup. rewrite Forall_forall in Hup. apply Hup. exact Hf. }
  assert (El : listed m' = listed m ++ added).
  { unfold listed. rewrite Ee, map_app, map_map. cbn. rewrite map_id. reflexivity. }
  split; [exact Ee|]. split; [exact Ef|]. split; [reflexivity|].
  split; [|split].
  - intros n Hn. assert (Hn' : In n (refs3 m)) by (unfold refs3 in *; rewrite Ef in Hn; exact Hn).
    rewrite El. apply in_or_app. destruct (mem n (listed m)) eqn:E; [left; apply mem_In; exact E|].
    right. unfold added. apply filter_In. split; [|rewrite E; reflexivity].
    apply In_nub. apply in_refs3_update_order; assumption.
  - intros n Hn. rewrite El in Hn. apply in_app_or in Hn. destruct Hn as [Hn | Hn]; [left; exact Hn|].
    right. unfold added in Hn. apply filter_In in Hn. destruct Hn as [Hn _]. rewrite In_nub in Hn.
    apply in_update_order_refs3. exact Hn.
  - intro Hnd. rewrite El. apply (Permutation_NoDup (l := added ++ listed m)); [apply Permutation_app_comm|].
    unfold added. revert Hnd. generalize (listed m) as L0. intros L0 Hnd.
    assert (G : forall A, NoDup A -> (forall x, In x A -> ~ In x L0) -> NoDup (A ++ L0)).
    { induction A as [|a A IHA]; intros HA Hd; cbn; [exact Hnd|]. inversion HA as [|a' A' Ha HA']; subst.
      constructor.
      - intro HI. apply in_app_or in HI. destruct HI as [HI | HI]; [contradiction|]. apply (Hd a); [left; reflexivity | exact HI].
      - apply IHA; [exact HA'|]. intros x Hx. apply Hd. right. exact Hx. }
    apply G; [apply NoDup_filter'; apply NoDup_nub|].
    intros x Hx. apply filter_In in Hx. destruct Hx as [_ Hx]. apply negb_true_iff in Hx. apply mem_false. exact Hx.
Qed.

(* ================= add/del_signal_receiver and the history invariant ================= *)
Lemma sig_recv_op_wf : forall g gf gs m, (forall l, NoDup l -> NoDup (g l)) -> wf m -> wf (sig_recv_op g gf gs m).
Proof.
  intros g gf gs m Hg H. apply wf_frames. cbn. apply wf_frames in H. rewrite Forall_map.
  eapply Forall_impl; [|exact H]. intros f [Hup [Htx Hsg]]. destruct (glob_match gf (fname f)); [|split; [exact Hup | split; assumption]].
  split; [apply update_receiver_uptodate|]. unfold update_receiver, frame_refs_nodup. cbn. split; [exact Htx|].
  rewrite Forall_map. eapply Forall_impl; [|exact Hsg]. intros s Hs. cbn.
  destruct (glob_match gs (sname s)); [cbn; apply Hg; exact Hs | exact Hs].
Qed.

Lemma delete_obsolete_wf : forall m, wf m -> wf (delete_obsolete_ecus m).
Proof.
  intros m H. unfold delete_obsolete_ecus. apply fold_left_preserves; [|exact H]. intros a x Ha. apply del_ecu_glob_wf. exact Ha.
Qed.

Lemma step_wf : forall m o, wf m -> wf (step m o).
Proof.
  intros m o H. destruct o; cbn [step].
  - unfold rename_ecu_name. destruct (ecu_index old (ecus m)); [apply rename_at_wf; exact H | exact H].
  - apply rename_at_wf. exact H.
  - apply del_one_wf. exact H.
  - apply del_ecu_glob_wf. exact H.
  - apply update_ecu_list_wf. apply H.
  - apply delete_obsolete_wf. exact H.
  - apply sig_recv_op_wf; [intros l Hl; apply add_name_NoDup; exact Hl | exact H].
  - apply sig_recv_op_wf; [intros l Hl; apply del_name_NoDup; exact Hl | exact H].
Qed.

Lemma run_ops_wf : forall ops m, wf m -> wf (run_ops m ops).
Proof. intros ops m H. unfold run_ops. apply fold_left_preserves; [|exact H]. intros a x Ha. apply step_wf. exact Ha. Qed.

(* the property's last sentence over all histories: after every prefix of every operation sequence each frame's
   receiver list is duplicate-free and, as a set, the union of its signals' receivers *)
Lemma ops_preserve_receivers_uptodate : forall ops1 ops2 m,
  wf m ->
  let m' := run_ops m ops1 in
  wf m' /\ receivers_uptodate (run_ops m (ops1 ++ ops2)) /\
  forall f, In f (frames m') ->
    receivers f = nub (flat_map sreceivers (signals f)) /\
    NoDup (receivers f) /\
    (forall x, In x (receivers f) <-> exists s, In s (signals f) /\ In x (sreceivers s)).
Proof.
  intros ops1 ops2 m H m'. assert (H' : wf m') by (apply run_ops_wf; exact H).
  split; [exact H'|]. split; [apply run_ops_wf; exact H|].
  intros f Hf. destruct H' as [Hup _]. unfold receivers_uptodate in Hup. rewrite Forall_forall in Hup.
  pose proof (Hup f Hf) as Hu. split; [exact Hu|]. apply uptodate_union. exact Hu.
Qed.

(* ================= selection by an arbitrary name predicate; patterns with character classes ================= *)
Lemma del_by_spec : forall p m, wf m ->
  del_ecu_by p m = mkMatrix (filter (fun e => negb (p (ename e))) (ecus m))
                            (map (map_refs (filter (fun x => negb (hit_by p m x)))) (frames m))
                            (free m).
Proof.
  intros p [es fs fr] Hwf. unfold del_ecu_by. cbn [ecus frames free].
  apply wf_frames in Hwf. cbn in Hwf.
  exact (del_fold p es [] fs fr Hwf (fun e (H : In e []) => match H with end)).
Qed.

Lemma del_by_wf : forall p m, wf m -> wf (del_ecu_by p m).
Proof.
  intros p m H. unfold del_ecu_by. apply fold_left_preserves; [|exact H]. intros a x Ha. apply del_one_wf. exact Ha.
Qed.

Lemma del_by_hits_exactly_matches : forall (p : name -> bool) m,
  wf m ->
  let m' := del_ecu_by p m in
  ecus m' = filter (fun e => negb (p (ename e))) (ecus m) /\
  frames m' = map (map_refs (filter (fun x => negb (hit_by p m x)))) (frames m) /\
  free m' = free m /\
  refs3 m' = filter (fun x => negb (hit_by p m x)) (refs3 m) /\
  wf m'.
Proof.
  intros p m Hwf m'. unfold m'. split; [|split; [|split; [|split]]].
  - rewrite del_by_spec by exact Hwf. reflexivity.
  - rewrite del_by_spec by exact Hwf. reflexivity.
  - rewrite del_by_spec by exact Hwf. reflexivity.
  - rewrite del_by_spec by exact Hwf. unfold refs3. cbn. apply refs_map_filter.
  - apply del_by_wf. exact Hwf.
Qed.

Lemma sig_recv_by_wf : forall g pf ps m, (forall l, NoDup l -> NoDup (g l)) -> wf m -> wf (sig_recv_by g pf ps m).
Proof.
  intros g pf ps m Hg H. apply wf_frames. cbn. apply wf_frames in H. rewrite Forall_map.
  eapply Forall_impl; [|exact H]. intros f [Hup [Htx Hsg]]. destruct (pf (fname f)); [|split; [exact Hup | split; assumption]].
  split; [apply update_receiver_uptodate|]. unfold update_receiver, frame_refs_nodup. cbn. split; [exact Htx|].
  rewrite Forall_map. eapply Forall_impl; [|exact Hsg]. intros s Hs. cbn.
  destruct (ps (sname s)); [cbn; apply Hg; exact Hs | exact Hs].
Qed.

Lemma step_cls_wf : forall m o, wf m -> wf (step_cls m o).
Proof.
  intros m o H. destruct o; cbn [step_cls]; try (apply step_wf; exact H).
  - apply del_by_wf. exact H.
  - apply sig_recv_by_wf; [intros l Hl; apply add_name_NoDup; exact Hl | exact H].
  - apply sig_recv_by_wf; [intros l Hl; apply del_name_NoDup; exact Hl | exact H].
Qed.

Lemma run_ops_cls_wf : forall ops m, wf m -> wf (run_ops_cls m ops).
Proof. intros ops m H. unfold run_ops_cls. apply fold_left_preserves; [|exact H]. intros a x Ha. apply step_cls_wf. exact Ha. Qed.

Lemma sig_recv_by_ext : forall g pf pf' ps ps' m, (forall x, pf x = pf' x) -> (forall x, ps x = ps' x) ->
  sig_recv_by g pf ps m = sig_recv_by g pf' ps' m.
Proof.
  intros g pf pf' ps ps' m Hf Hs. unfold sig_recv_by. f_equal. apply map_ext. intro f. rewrite Hf.
  destruct (pf' (fname f)); [|reflexivity]. f_equal. f_equal. apply map_ext. intro s. rewrite Hs. reflexivity.
Qed.

Lemma step_cls_agrees : forall m o, op_no_bracket o = true -> step_cls m o = step m o.
Proof.
  intros m o H. destruct o; cbn [step_cls step op_no_bracket] in *; try reflexivity.
  - unfold del_ecu_by, del_ecu_glob, glob_ecus. f_equal. apply filter_ext. intro e. apply glob_cls_agrees. exact H.
  - apply andb_true_iff in H. destruct H as [H1 H2]. unfold add_signal_receiver.
    change (sig_recv_op (add_name n) gf gs m) with (sig_recv_by (add_name n) (glob_match gf) (glob_match gs) m).
    apply sig_recv_by_ext; intro x; apply glob_cls_agrees; assumption.
  - apply andb_true_iff in H. destruct H as [H1 H2]. unfold del_signal_receiver.
    change (sig_recv_op (del_name n) gf gs m) with (sig_recv_by (del_name n) (glob_match gf) (glob_match gs) m).
    apply sig_recv_by_ext; intro x; apply glob_cls_agrees; assumption.
Qed.

Lemma ops_cls_preserve_receivers_uptodate : forall ops1 ops2 m,
  wf m ->
  let m' := run_ops_cls m ops1 in
  wf m' /\ receivers_uptodate (run_ops_cls m (ops1 ++ ops2)) /\
  forall f, In f (frames m') ->
    receivers f = nub (flat_map sreceivers (signals f)) /\
    NoDup (receivers f) /\
    (forall x, In x (receivers f) <-> exists s, In s (signals f) /\ In x (sreceivers s)).
Proof.
  intros ops1 ops2 m H m'. assert (H' : wf m') by (apply run_ops_cls_wf; exact H).
  split; [exact H'|]. split; [apply run_ops_cls_wf; exact H|].
  intros f Hf. destruct H' as [Hup _]. unfold receivers_uptodate in Hup. rewrite Forall_forall in Hup.
  pose proof (Hup f Hf) as Hu. split; [exact Hu|]. apply uptodate_union. exact Hu.
Qed.

(* ================= shared list objects: the rebinding discipline is transparent ================= *)
Lemma length_wr : forall h i v, length (wr h i v) = length h.
Proof. induction h as [|x h IH]; intros [|i] v; cbn; try reflexivity. rewrite IH. reflexivity. Qed.

Lemma rd_wr_same : forall h i v, (i < length h)%nat -> rd (wr h i v) i = v.
Proof.
  unfold rd. induction h as [|x h IH]; intros [|i] v H; cbn in *; try lia; [reflexivity|]. apply IH. lia.
Qed.

Lemma rd_wr_other : forall h i j v, i <> j -> rd (wr h i v) j = rd h j.
Proof.
  unfold rd. induction h as [|x h IH]; intros [|i] [|j] v H; cbn; try reflexivity; try contradiction.
  apply IH. congruence.
Qed.

Lemma rd_app_l : forall h l i, (i < length h)%nat -> rd (h ++ l) i = rd h i.
Proof. intros h l i H. unfold rd. apply app_nth1. exact H. Qed.

Lemma rd_app_len : forall h v, rd (h ++ [v]) (length h) = v.
Proof. intros h v. unfold rd. rewrite app_nth2 by lia. rewrite Nat.sub_diag. reflexivity. Qed.

Definition okh (g : list name -> list name) (h0 h : heap) : Prop :=
  (length h0 <= length h)%nat /\ forall i, (i < length h0)%nat -> rd h i = rd h0 i \/ rd h i = g (rd h0 i).
(* cells that are final (a rewritten original cell, or a cell created later) keep their content *)
Definition keeps (g : list name -> list name) (h0 h h' : heap) : Prop :=
  (length h <= length h')%nat /\
  forall i, (i < length h)%nat -> ((length h0 <= i)%nat \/ rd h i = g (rd h0 i)) -> rd h' i = rd h i.

Lemma keeps_refl : forall g h0 h, keeps g h0 h h.
Proof. intros. split; [lia | reflexivity]. Qed.

Lemma keeps_trans : forall g h0 h1 h2 h3, keeps g h0 h1 h2 -> keeps g h0 h2 h3 -> keeps g h0 h1 h3.
Proof.
  intros g h0 h1 h2 h3 [L1 K1] [L2 K2]. split; [lia|]. intros i Hi Hc.
  rewrite <- (K1 i Hi Hc). apply K2; [lia|]. destruct Hc as [Hc | Hc]; [left; exact Hc | right; rewrite (K1 i Hi (or_intror Hc)); exact Hc].
Qed.

Lemma wr_step : forall g (P : list name -> Prop) h0 h i,
  (forall c, P c -> P (g c) /\ g (g c) = g c) -> (forall j, (j < length h0)%nat -> P (rd h0 j)) ->
  okh g h0 h -> (i < length h0)%nat ->
  let h' := wr h i (g (rd h i)) in
  okh g h0 h' /\ keeps g h0 h h' /\ rd h' i = g (rd h0 i).
Proof.
  intros g P h0 h i Hg HP [L Hok] Hi h'.
  assert (Es : g (rd h i) = g (rd h0 i)).
  { destruct (Hok i Hi) as [E | E]; rewrite E; [reflexivity|]. apply Hg. apply HP. exact Hi. }
  assert (Ei : rd h' i = g (rd h0 i)) by (unfold h'; rewrite rd_wr_same by lia; exact Es).
  split; [|split; [|exact Ei]].
  - split; [unfold h'; rewrite length_wr; exact L|]. intros j Hj. destruct (Nat.eq_dec i j) as [E | E].
    + subst j. right. exact Ei.
    + unfold h'. rewrite rd_wr_other by exact E. apply Hok. exact Hj.
  - split; [unfold h'; rewrite length_wr; lia|]. intros j Hj Hc. destruct (Nat.eq_dec i j) as [E | E].
    + subst j. destruct Hc as [Hc | Hc]; [lia|]. rewrite Ei. symmetry. exact Hc.
    + unfold h'. apply rd_wr_other. exact E.
Qed.

Lemma sigs_step : forall g (P : list name -> Prop) h0,
  (forall c, P c -> P (g c) /\ g (g c) = g c) -> (forall j, (j < length h0)%nat -> P (rd h0 j)) ->
  forall sigs h, okh g h0 h -> Forall (fun s => (hs_cell s < length h0)%nat) sigs ->
  let h' := fold_left (fun h s => wr h (hs_cell s) (g (rd h (hs_cell s)))) sigs h in
  okh g h0 h' /\ keeps g h0 h h' /\ Forall (fun s => rd h' (hs_cell s) = g (rd h0 (hs_cell s))) sigs.
Proof.
  intros g P h0 Hg HP. induction sigs as [|s r IH]; intros h Hok Hr; cbn [fold_left].
  - split; [exact Hok|]. split; [apply keeps_refl | constructor].
  - inversion Hr as [|s' r' Hs Hr']; subst.
    destruct (wr_step g P h0 h (hs_cell s) Hg HP Hok Hs) as (Hok1 & K1 & E1).
    destruct (IH _ Hok1 Hr') as (Hok2 & K2 & F2).
    split; [exact Hok2|]. split; [eapply keeps_trans; eassumption|]. constructor; [|exact F2].
    destruct K2 as [L2 K2]. rewrite K2; [exact E1 | | right; exact E1].
    rewrite length_wr. destruct Hok as [L _]. lia.
Qed.

(* an output frame whose cells are all final *)
Definition fixedf (g : list name -> list name) (h0 h : heap) (f' : hframe) : Prop :=
  ((hf_tx f' < length h0)%nat /\ rd h (hf_tx f') = g (rd h0 (hf_tx f'))) /\
  Forall (fun s => (hs_cell s < length h0)%nat /\ rd h (hs_cell s) = g (rd h0 (hs_cell s))) (hf_sigs f') /\
  ((length h0 <= hf_rx f')%nat /\ (hf_rx f' < length h)%nat).

Lemma fixedf_keeps : forall g h0 h h' f', okh g h0 h -> fixedf g h0 h f' -> keeps g h0 h h' ->
  fixedf g h0 h' f' /\ deref_frame h' f' = deref_frame h f'.
Proof.
  intros g h0 h h' f' [L _] [[Ht Et] [Fs [Hr1 Hr2]]] [L' K].
  assert (Etx : rd h' (hf_tx f') = rd h (hf_tx f')) by (apply K; [lia | right; exact Et]).
  assert (Erx : rd h' (hf_rx f') = rd h (hf_rx f')) by (apply K; [lia | left; exact Hr1]).
  assert (Es : forall s, In s (hf_sigs f') -> rd h' (hs_cell s) = rd h (hs_cell s)).
  { intros s Hs. rewrite Forall_forall in Fs. destruct (Fs s Hs) as [Hc Ec]. apply K; [lia | right; exact Ec]. }
  split.
  - split; [split; [exact Ht | rewrite Etx; exact Et]|]. split; [|split; [exact Hr1 | lia]].
    rewrite Forall_forall in *. intros s Hs. destruct (Fs s Hs) as [Hc Ec]. split; [exact Hc | rewrite (Es s Hs); exact Ec].
  - unfold deref_frame. rewrite Etx, Erx. f_equal. apply map_ext_in. intros s Hs. unfold deref_sig. rewrite (Es s Hs). reflexivity.
Qed.

Lemma frame_step : forall g (P : list name -> Prop) h0,
  (forall c, P c -> P (g c) /\ g (g c) = g c) -> (forall j, (j < length h0)%nat -> P (rd h0 j)) ->
  forall h acc f, okh g h0 h -> hframe_in_range h0 f ->
  let r := hrewrite_frame g (h, acc) f in
  okh g h0 (fst r) /\ keeps g h0 h (fst r) /\
  exists f', snd r = acc ++ [f'] /\ fixedf g h0 (fst r) f' /\
             deref_frame (fst r) f' = rewrite_frame g (deref_frame h0 f).
Proof.
  intros g P h0 Hg HP h acc f Hok [Htx Hsg] r.
  destruct (wr_step g P h0 h (hf_tx f) Hg HP Hok Htx) as (Hok1 & K1 & E1).
  destruct (sigs_step g P h0 Hg HP (hf_sigs f) _ Hok1 Hsg) as (Hok2 & K2 & F2).
  set (h2 := hrewrite_cells g f h) in *.
  assert (Eh2 : fold_left (fun h s => wr h (hs_cell s) (g (rd h (hs_cell s)))) (hf_sigs f)
                          (wr h (hf_tx f) (g (rd h (hf_tx f)))) = h2) by reflexivity.
  rewrite Eh2 in Hok2, K2, F2.
  assert (L2 : (length h0 <= length h2)%nat) by apply Hok2.
  assert (Et2 : rd h2 (hf_tx f) = g (rd h0 (hf_tx f))).
  { destruct K2 as [_ K2]. rewrite K2; [exact E1 | rewrite length_wr; destruct Hok; lia | right; exact E1]. }
  set (rxv := dedup (flat_map (fun s => rd h2 (hs_cell s)) (hf_sigs f))).
  assert (Er : fst r = h2 ++ [rxv]) by reflexivity.
  assert (Kapp : keeps g h0 h2 (h2 ++ [rxv])).
  { split; [rewrite app_length; cbn; lia|]. intros i Hi _. apply rd_app_l. exact Hi. }
  split.
  { rewrite Er. split; [rewrite app_length; cbn; lia|]. intros i Hi. rewrite rd_app_l by lia. apply Hok2. exact Hi. }
  split.
  { rewrite Er. eapply keeps_trans; [|exact Kapp]. eapply keeps_trans; eassumption. }
  exists (mkHFrame (hf_name f) (hf_tx f) (length h2) (hf_sigs f) (hf_pay f)).
  split; [reflexivity|].
  assert (Fs : Forall (fun s => (hs_cell s < length h0)%nat /\ rd (h2 ++ [rxv]) (hs_cell s) = g (rd h0 (hs_cell s))) (hf_sigs f)).
  { rewrite Forall_forall in *. intros s Hs. split; [apply Hsg; exact Hs|]. rewrite rd_app_l by (specialize (Hsg s Hs); cbn in Hsg; lia).
    apply F2. exact Hs. }
  split.
  { rewrite Er. split; [split; [exact Htx | cbn; rewrite rd_app_l by lia; exact Et2]|]. split; [exact Fs|].
    cbn. rewrite app_length. cbn. lia. }
  rewrite Er. unfold deref_frame, rewrite_frame, update_receiver. cbn.
  rewrite rd_app_l by lia. rewrite Et2, rd_app_len. rewrite map_map. f_equal.
  - unfold rxv. f_equal. rewrite flat_map_map'. cbn. apply flat_map_ext_in. intros s Hs.
    rewrite Forall_forall in F2. apply F2. exact Hs.
  - apply map_ext_in. intros s Hs. unfold deref_sig, set_sreceivers. cbn. rewrite Forall_forall in Fs.
    destruct (Fs s Hs) as [_ E]. rewrite E. reflexivity.
Qed.

Lemma Forall2_snoc : forall (A B : Type) (R : A -> B -> Prop) l1 l2 a b,
  Forall2 R l1 l2 -> R a b -> Forall2 R (l1 ++ [a]) (l2 ++ [b]).
Proof. intros A B R l1 l2 a b H Hab. apply Forall2_app; [exact H | constructor; [exact Hab | constructor]]. Qed.

Lemma Forall2_weaken : forall (A B : Type) (R S : A -> B -> Prop) l1 l2,
  (forall a b, R a b -> S a b) -> Forall2 R l1 l2 -> Forall2 S l1 l2.
Proof. intros A B R S l1 l2 H F. induction F; constructor; auto. Qed.

Lemma hrewrite_fold : forall g (P : list name -> Prop) h0,
  (forall c, P c -> P (g c) /\ g (g c) = g c) -> (forall j, (j < length h0)%nat -> P (rd h0 j)) ->
  forall fs done h acc, okh g h0 h -> Forall (hframe_in_range h0) fs ->
  Forall2 (fun f f' => fixedf g h0 h f' /\ deref_frame h f' = rewrite_frame g (deref_frame h0 f)) done acc ->
  let r := fold_left (hrewrite_frame g) fs (h, acc) in
  Forall2 (fun f f' => deref_frame (fst r) f' = rewrite_frame g (deref_frame h0 f)) (done ++ fs) (snd r).
Proof.
  intros g P h0 Hg HP. induction fs as [|f fs IH]; intros done h acc Hok Hr Hd; cbn [fold_left].
  - rewrite app_nil_r. cbn. eapply Forall2_weaken; [|exact Hd]. intros a b [_ E]. exact E.
  - inversion Hr as [|f0 fs0 Hf Hr']; subst.
    destruct (frame_step g P h0 Hg HP h acc f Hok Hf) as (Hok' & K & f' & Es & Fx & Ed).
    remember (hrewrite_frame g (h, acc) f) as st eqn:Est. destruct st as [h' acc'].
    cbn [fst snd] in *. subst acc'.
    replace (done ++ f :: fs) with ((done ++ [f]) ++ fs) by (rewrite <- app_assoc; reflexivity).
    apply IH; [exact Hok' | exact Hr'|]. apply Forall2_snoc; [|split; assumption].
    eapply Forall2_weaken; [|exact Hd]. intros a b [Fa Ea].
    destruct (fixedf_keeps g h0 h h' b Hok Fa K) as [Fb Eb]. split; [exact Fb | rewrite Eb; exact Ea].
Qed.

Lemma Forall2_map_eq : forall (A B C : Type) (u : B -> C) (v : A -> C) l1 l2,
  Forall2 (fun a b => u b = v a) l1 l2 -> map u l2 = map v l1.
Proof. intros A B C u v l1 l2 H. induction H; cbn; [reflexivity | congruence]. Qed.

Lemma shared_lists_transparent : forall (g : list name -> list name) (P : list name -> Prop) h fs,
  (forall c, P c -> P (g c) /\ g (g c) = g c) ->
  Forall P h -> Forall (hframe_in_range h) fs ->
  let r := hrewrite_all g h fs in
  map (deref_frame (fst r)) (snd r) = map (fun f => rewrite_frame g (deref_frame h f)) fs.
Proof.
  intros g P h fs Hg HP Hr r. apply Forall2_map_eq.
  assert (HP' : forall j, (j < length h)%nat -> P (rd h j)).
  { intros j Hj. rewrite Forall_forall in HP. apply HP. unfold rd. apply nth_In. exact Hj. }
  assert (Hok : okh g h h) by (split; [lia | intros i _; left; reflexivity]).
  exact (hrewrite_fold g P h Hg HP' fs [] h [] Hok Hr (Forall2_nil _)).
Qed.

(* the two rewrites of the ECU operations are idempotent on duplicate-free lists *)
Lemma rename_in_idem : forall old new, new <> old ->
  forall c, NoDup c -> NoDup (rename_in old new c) /\ rename_in old new (rename_in old new c) = rename_in old new c.
Proof.
  intros old new Hne c Hc. split; [apply rename_in_NoDup; exact Hc|].
  pose proof (rename_in_no_old old new c Hne Hc) as H. unfold rename_in at 1.
  apply mem_false in H. rewrite H. reflexivity.
Qed.

Lemma del_name_idem : forall n c, NoDup c -> NoDup (del_name n c) /\ del_name n (del_name n c) = del_name n c.
Proof.
  intros n c Hc. split; [apply del_name_NoDup; exact Hc|].
  rewrite (del_name_nodup n c Hc). rewrite del_name_nodup by (apply NoDup_filter'; exact Hc).
  rewrite filter_filter. apply filter_ext. intro x. apply andb_diag.
Qed.
