(* C17: the structural glob matcher decides exactly the declarative pattern relation. *)
From CM Require Import lib.Prelude model.Glob_c17.

Lemma star_any_true : forall g n,
  star_any g n = true <-> exists w n', n = w ++ n' /\ g n' = true.
Proof.
  intros g n; induction n as [|d n IH]; cbn [star_any].
  - split.
    + intros H. rewrite orb_false_r in H. exists [], []. split; [reflexivity|exact H].
    + intros [w [n' [E H]]]. symmetry in E. apply app_eq_nil in E. destruct E as [_ E]. subst n'.
      rewrite H. reflexivity.
  - split.
    + intros H. apply orb_true_iff in H. destruct H as [H|H].
      * exists [], (d :: n). split; [reflexivity|exact H].
      * apply IH in H. destruct H as [w [n' [E H]]]. exists (d :: w), n'. split; [cbn; f_equal; exact E|exact H].
    + intros [w [n' [E H]]]. apply orb_true_iff. destruct w as [|x w].
      * left. cbn in E. subst n'. exact H.
      * right. apply IH. cbn in E. injection E as E1 E2. exists w, n'. split; assumption.
Qed.

Lemma ch_star_neq_qmark : ch_star <> ch_qmark.
Proof. unfold ch_star, ch_qmark. discriminate. Qed.

Lemma glob_rel_cons_inv : forall c p n, glob_rel (c :: p) n ->
  (c = ch_star /\ exists w n', n = w ++ n' /\ glob_rel p n') \/
  (c = ch_qmark /\ exists d n', n = d :: n' /\ glob_rel p n') \/
  (c <> ch_star /\ c <> ch_qmark /\ exists n', n = c :: n' /\ glob_rel p n').
Proof.
  intros c p n H. inversion H; subst.
  - left. split; [reflexivity|]. eexists _, _. split; [reflexivity|assumption].
  - right. left. split; [reflexivity|]. eexists _, _. split; [reflexivity|assumption].
  - right. right. split; [assumption|]. split; [assumption|]. eexists. split; [reflexivity|assumption].
Qed.

Theorem glob_match_iff : forall p n, glob_match p n = true <-> glob_rel p n.
Proof.
  induction p as [|c p IH]; intros n.
  - cbn [glob_match]. destruct n as [|d n]; split; intros H.
    + constructor.
    + reflexivity.
    + discriminate.
    + inversion H.
  - cbn [glob_match]. destruct (c =? ch_star) eqn:Ec.
    + apply Z.eqb_eq in Ec. subst c. rewrite star_any_true. split.
      * intros [w [n' [E H]]]. subst n. apply glob_star. apply IH. exact H.
      * intros H. apply glob_rel_cons_inv in H.
        destruct H as [[_ [w [n' [E H]]]] | [[E _] | [E _]]].
        -- exists w, n'. split; [exact E|]. apply IH. exact H.
        -- exfalso. apply ch_star_neq_qmark. exact E.
        -- exfalso. apply E. reflexivity.
    + apply Z.eqb_neq in Ec. destruct n as [|d n].
      * split; [discriminate|]. intros H. apply glob_rel_cons_inv in H.
        destruct H as [[E _] | [[_ [d [n' [E _]]]] | [_ [_ [n' [E _]]]]]].
        -- exfalso. apply Ec. exact E.
        -- discriminate.
        -- discriminate.
      * split.
        -- intros H. apply andb_true_iff in H. destruct H as [H1 H2]. apply IH in H2.
           apply orb_true_iff in H1. destruct H1 as [H1|H1]; apply Z.eqb_eq in H1; subst c.
           ++ apply glob_qmark. exact H2.
           ++ destruct (Z.eq_dec d ch_qmark) as [Eq|Nq].
              ** subst d. apply glob_qmark. exact H2.
              ** apply glob_lit; assumption.
        -- intros H. apply glob_rel_cons_inv in H.
           destruct H as [[E _] | [[Eq [d0 [n' [E H]]]] | [_ [_ [n' [E H]]]]]].
           ++ exfalso. apply Ec. exact E.
           ++ injection E as E1 E2. subst. rewrite Z.eqb_refl. cbn [orb andb]. apply IH. exact H.
           ++ injection E as E1 E2. subst. rewrite Z.eqb_refl. rewrite orb_true_r. cbn [andb]. apply IH. exact H.
Qed.

(* corollaries used in the statements: what `*` and a literal pattern mean *)
Lemma glob_match_star_all : forall n, glob_match [ch_star] n = true.
Proof.
  intros n. apply glob_match_iff. rewrite <- (app_nil_r n). apply glob_star. constructor.
Qed.
