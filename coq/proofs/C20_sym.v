(* C20, SYM-like language of model/LineFold.v. *)
From CM Require Import lib.Prelude model.LineFold proofs.C20_generic.

Ltac break_match :=
  match goal with
  | |- context [match ?x with _ => _ end] => destruct x eqn:?
  end.
Ltac break_all := repeat break_match.

Lemma not_num_none f : not_num f = true -> num_of f = None.
Proof. destruct f; cbn; congruence. Qed.
Lemma num_some_not_num f z : num_of f = Some z -> not_num f = false.
Proof. destruct f; cbn; congruence. Qed.
Lemma name_some_not_bad f z : name_of f = Some z -> is_bad f = false.
Proof. destruct f; cbn; congruence. Qed.

Lemma yhas_app : forall sigs x n, yhas sigs n = true -> yhas (sigs ++ [x]) n = true.
Proof.
  induction sigs as [|y r IH]; intros x n H; cbn in *; [discriminate|].
  destruct (ys_name y =? n); [reflexivity|]. cbn in *. apply IH. exact H.
Qed.
Lemma yhas_last : forall sigs x, yhas (sigs ++ [x]) (ys_name x) = true.
Proof.
  induction sigs as [|y r IH]; intros x; cbn.
  - rewrite Z.eqb_refl. reflexivity.
  - destruct (ys_name y =? ys_name x); [reflexivity|]. cbn. apply IH.
Qed.

Lemma close_frame_inv : forall f fname, yf_name f = fname ->
  (yf_muxnames f = [] \/ yhas (yf_signals f) (mux_signal_name (yf_name f)) = true) -> close_frame f = Some f.
Proof.
  intros f fname _ H. unfold close_frame. destruct (yf_muxnames f) eqn:Hm; [reflexivity|].
  destruct H as [H|H]; [discriminate|]. rewrite H. reflexivity.
Qed.

Lemma mux_inv_record : forall s, mux_inv s -> mux_inv (record_error s).
Proof. intros s H. exact H. Qed.
Lemma mux_inv_set : forall s g, (forall f, yf_name (g f) = yf_name f /\ yf_muxnames (g f) = yf_muxnames f /\
                                           yf_signals (g f) = yf_signals f) ->
  mux_inv s -> mux_inv (settle (ystep_set s g)).
Proof.
  intros s g Hg Hinv. unfold ystep_set. unfold mux_inv in *. destruct (y_cur s) as [f|] eqn:Hc; cbn; [|rewrite Hc; exact I].
  destruct (Hg f) as [H1 [H2 H3]]. rewrite H1, H2, H3. exact Hinv.
Qed.

Lemma sym_step_inv : forall s l, mux_inv s -> mux_inv (step' sym_step s l).
Proof.
  intros s l Hinv. unfold step', sym_step, sym_step_gen. destruct l.
  - (* header *) unfold ystep_header. cbn [andb]. destruct closed; cbn [negb]; [|exact Hinv].
    destruct (name =? y_fname s) eqn:Hn; [exact Hinv|].
    unfold mux_inv in Hinv. destruct (y_cur s) as [f|] eqn:Hc.
    + destruct Hinv as [Hname Hmux]. rewrite (close_frame_inv f _ Hname Hmux). cbn. split; [reflexivity|left; reflexivity].
    + cbn. split; [reflexivity|left; reflexivity].
  - destruct (num_of v); [|exact Hinv]. destruct hsuffix; [|destruct (_ <? 16); [exact Hinv|]];
      (apply mux_inv_set; [intros f; repeat split|exact Hinv]).
  - destruct v as [z| |]; try exact Hinv. destruct z as [|p|p]; try exact Hinv.
    destruct p; try exact Hinv. apply mux_inv_set; [intros f; repeat split|exact Hinv].
  - destruct (num_of v); [|exact Hinv]. apply mux_inv_set; [intros f; repeat split|exact Hinv].
  - destruct (num_of v); [|exact Hinv]. apply mux_inv_set; [intros f; repeat split|exact Hinv].
  - unfold ystep_var. destruct (name_of name); [|exact Hinv]. destruct (num_of ty); [|exact Hinv].
    destruct (num_of start); [|exact Hinv]. destruct (num_of size); [|exact Hinv].
    destruct nums_ok; cbn [negb]; [|exact Hinv]. destruct (mux_of_var (y_mux s)); [|exact Hinv].
    unfold mux_inv in *. destruct (y_cur s) as [f|] eqn:Hc; [|cbn; rewrite Hc; exact I].
    cbn. destruct Hinv as [Hn Hm]. split; [exact Hn|].
    destruct Hm as [Hm|Hm]; [left; exact Hm|right; apply yhas_app; exact Hm].
  - unfold ystep_mux. destruct (name_of name); [|exact Hinv]. destruct (num_of start); [|exact Hinv].
    destruct (num_of size); [|exact Hinv]. destruct value as [k| |]; try exact Hinv.
    cbn [negb]. unfold mux_inv in Hinv. destruct (y_cur s) as [f|] eqn:Hc; [|unfold mux_inv; cbn; rewrite Hc; exact I].
    destruct (mux_in f k); [unfold mux_inv; cbn; rewrite Hc; exact Hinv|].
    destruct nums_ok; cbn [negb]; [|unfold mux_inv; cbn; rewrite Hc; exact Hinv].
    destruct Hinv as [Hn Hm]. unfold mux_inv. cbn [settle y_cur y_fname].
    destruct (yhas (yf_signals f) (mux_signal_name (y_fname s))) eqn:Hh; cbn.
    + split; [exact Hn|]. right. rewrite Hn. exact Hh.
    + split; [exact Hn|]. right. rewrite Hn.
      apply (yhas_last (yf_signals f) (mkYSig (mux_signal_name (y_fname s)) z0 z1 (negb motorola) false (-2))).
  - exact Hinv.
Qed.

Lemma sym_reachable_inv : forall ls s, mux_inv s -> mux_inv (read sym_step s ls).
Proof. induction ls as [|l ls IH]; intros s H; [exact H|]. rewrite read_cons. apply IH. apply sym_step_inv. exact H. Qed.
Lemma sym_init_inv : mux_inv sym_init.
Proof. exact I. Qed.

(* every failing step of the repaired reader leaves everything as it was and records exactly one error *)
Theorem sym_steps_fail_before_mutation : forall s l s', mux_inv s -> sym_step s l = Fail s' -> s' = record_error s.
Proof.
  intros s l s' Hinv H. unfold sym_step, sym_step_gen in H. destruct l.
  - unfold ystep_header in H. cbn [andb] in H. destruct closed; cbn [negb] in H; [|inversion H; reflexivity].
    destruct (name =? y_fname s); [discriminate|]. unfold mux_inv in Hinv. destruct (y_cur s) as [f|]; [|discriminate].
    destruct Hinv as [Hn Hm]. rewrite (close_frame_inv f _ Hn Hm) in H. discriminate.
  - destruct (num_of v); [|inversion H; reflexivity]. destruct hsuffix; [|destruct (_ <? 16); [inversion H; reflexivity|]];
      (unfold ystep_set in H; destruct (y_cur s); [discriminate|inversion H; reflexivity]).
  - destruct v as [z| |]; try discriminate. destruct z as [|p|p]; try discriminate. destruct p; try discriminate.
    unfold ystep_set in H. destruct (y_cur s); [discriminate|inversion H; reflexivity].
  - destruct (num_of v); [|inversion H; reflexivity]. unfold ystep_set in H.
    destruct (y_cur s); [discriminate|inversion H; reflexivity].
  - destruct (num_of v); [|inversion H; reflexivity]. unfold ystep_set in H.
    destruct (y_cur s); [discriminate|inversion H; reflexivity].
  - unfold ystep_var in H.
    repeat match type of H with context [match ?x with _ => _ end] => destruct x end;
      try discriminate; inversion H; reflexivity.
  - unfold ystep_mux in H. cbn [negb] in H.
    repeat match type of H with context [match ?x with _ => _ end] => destruct x end;
      try discriminate; inversion H; reflexivity.
  - discriminate.
Qed.

(* malformed lines fail in every state *)
Lemma sym_malformed_fails : forall l, sym_malformed l = true -> forall s, sym_step s l = Fail (record_error s).
Proof.
  intros l Hm s. destruct l; cbn [sym_malformed] in Hm; unfold sym_step, sym_step_gen.
  - unfold ystep_header. destruct closed; [discriminate|reflexivity].
  - destruct (num_of v) eqn:Hv; [|reflexivity]. rewrite (num_some_not_num _ _ Hv) in Hm. discriminate.
  - discriminate.
  - destruct (num_of v) eqn:Hv; [|reflexivity]. rewrite (num_some_not_num _ _ Hv) in Hm. discriminate.
  - destruct (num_of v) eqn:Hv; [|reflexivity]. rewrite (num_some_not_num _ _ Hv) in Hm. discriminate.
  - unfold ystep_var. destruct (name_of name) eqn:H0; [|reflexivity]. destruct (num_of ty) eqn:H1; [|reflexivity].
    destruct (num_of start) eqn:H2; [|reflexivity]. destruct (num_of size) eqn:H3; [|reflexivity].
    rewrite (name_some_not_bad _ _ H0), (num_some_not_num _ _ H1), (num_some_not_num _ _ H2), (num_some_not_num _ _ H3) in Hm.
    cbn in Hm. rewrite Hm. reflexivity.
  - unfold ystep_mux. destruct (name_of name) eqn:H0; [|reflexivity]. destruct (num_of start) eqn:H1; [|reflexivity].
    destruct (num_of size) eqn:H2; [|reflexivity].
    rewrite (name_some_not_bad _ _ H0), (num_some_not_num _ _ H1), (num_some_not_num _ _ H2) in Hm. cbn in Hm.
    destruct value as [k| |]; cbn in Hm; try reflexivity.
    destruct (y_cur s); [|reflexivity]. destruct (mux_in y k); [reflexivity|]. rewrite Hm. reflexivity.
  - discriminate.
Qed.

(* no step looks at the error list *)
Lemma sym_step_errs : forall s l, step' sym_step (record_error s) l = record_error (step' sym_step s l).
Proof.
  intros [done cu fn mx er] l. unfold step', sym_step, sym_step_gen, record_error. destruct l;
    unfold ystep_header, ystep_var, ystep_mux, ystep_set, with_ycur, record_error; cbn [y_done y_cur y_fname y_mux y_errs andb negb];
    break_all; reflexivity.
Qed.
Lemma sym_read_errs : forall ls s, read sym_step (record_error s) ls = record_error (read sym_step s ls).
Proof. induction ls as [|l ls IH]; intros s; [reflexivity|]. rewrite !read_cons, sym_step_errs. apply IH. Qed.

Theorem sym_bad_lines_recorded : forall bads goods merged, Interleave bads goods merged ->
  Forall (fun l => sym_malformed l = true) bads ->
  forall s, read sym_step s merged = add_errors (length bads) (read sym_step s goods).
Proof.
  intros bads goods merged HI. induction HI as [|x bads goods merged HI IH|x bads goods merged HI IH]; intros Hb s.
  - reflexivity.
  - inversion Hb as [|y ys Hx Hrest]; subst. rewrite read_cons. unfold step' at 1. rewrite (sym_malformed_fails x Hx s).
    cbn [settle]. rewrite sym_read_errs, (IH Hrest s). reflexivity.
  - rewrite !read_cons. apply IH. exact Hb.
Qed.

Lemma add_errors_spec : forall n s, add_errors n s = mkY (y_done s) (y_cur s) (y_fname s) (y_mux s) (n + y_errs s).
Proof.
  induction n as [|n IH]; intros s; cbn [add_errors].
  - destruct s; reflexivity.
  - rewrite IH. reflexivity.
Qed.

(* the end-of-file step never raises on a state the repaired reader can reach *)
Theorem sym_post_total : forall ls, load_with sym_step sym_post sym_init ls <> None.
Proof.
  intros ls. unfold load_with. pose proof (sym_reachable_inv ls sym_init sym_init_inv) as Hinv.
  unfold sym_post, mux_inv in *. destruct (y_cur (read sym_step sym_init ls)) as [f|]; [|discriminate].
  destruct Hinv as [Hn Hm]. rewrite (close_frame_inv f _ Hn Hm). discriminate.
Qed.

(* the reader as found *)
Definition yhdr := YHeader 1 true.
Definition yvar := YVar (Str 3) (Num 0) (Num 8) (Num 8) false true.
Lemma sym_orig_refuted :
  (* Mux=M 0,4 zz : `multiplexor` keeps the text, the failing line is not neutral and the next Var= line is lost *)
  (exists s', sym_step_orig (read sym_step_orig sym_init [yhdr]) (YMux (Str 5) (Num 0) (Num 4) (Str 99) false true) = Fail s' /\
              s' <> record_error (read sym_step_orig sym_init [yhdr])) /\
  (exists fs1 fs2 e1 e2,
      load_with sym_step_orig sym_post sym_init [yhdr; yvar] = Some (fs1, e1) /\
      load_with sym_step_orig sym_post sym_init [yhdr; YMux (Str 5) (Num 0) (Num 4) (Str 99) false true; yvar] = Some (fs2, e2) /\
      fs1 <> fs2 /\ e2 = 2%nat) /\
  (* Mux=M 0,4 7 -m /f:abc in a frame without multiplexer: mux_names is written, the <frame>_MUX signal is not created,
     and the end-of-file step raises outside the try block *)
  load_with sym_step_orig sym_post sym_init [yhdr; YMux (Str 5) (Num 0) (Num 4) (Num 7) true false] = None.
Proof.
  split; [|split].
  - eexists. split; [vm_compute; reflexivity|]. vm_compute. intros H. discriminate H.
  - do 4 eexists. split; [vm_compute; reflexivity|]. split; [vm_compute; reflexivity|]. split; [|reflexivity].
    intros H. discriminate H.
  - vm_compute. reflexivity.
Qed.

(* frames and signals introduced so far are kept (repaired reader, reachable states) *)
Definition yframe_le (f f' : yframe) : Prop := yf_name f' = yf_name f /\ forall x, In x (yf_signals f) -> In x (yf_signals f').
Definition yframes_le (a b : list yframe) : Prop := forall f, In f a -> exists f', In f' b /\ yframe_le f f'.
Lemma yframe_le_refl f : yframe_le f f.
Proof. split; [reflexivity|auto]. Qed.
Lemma yframes_le_refl a : yframes_le a a.
Proof. intros f H. exists f. split; [exact H|apply yframe_le_refl]. Qed.

Lemma all_frames_replace_cur : forall s f g, y_cur s = Some f -> yframe_le f g ->
  yframes_le (sym_all_frames s) (sym_all_frames (with_ycur s g)).
Proof.
  intros s f g Hc Hle h Hh. unfold sym_all_frames in *. rewrite Hc in Hh. cbn [with_ycur y_done y_cur].
  apply in_app_or in Hh. destruct Hh as [Hh|[Hh|[]]].
  - exists h. split; [apply in_or_app; left; exact Hh|apply yframe_le_refl].
  - subst h. exists g. split; [apply in_or_app; right; left; reflexivity|exact Hle].
Qed.

Lemma sym_step_le : forall s l, mux_inv s -> yframes_le (sym_all_frames s) (sym_all_frames (step' sym_step s l)).
Proof.
  intros s l Hinv. unfold step', sym_step, sym_step_gen. destruct l.
  - unfold ystep_header. cbn [andb]. destruct closed; cbn [negb settle]; [|apply yframes_le_refl].
    destruct (name =? y_fname s); [apply yframes_le_refl|].
    unfold mux_inv in Hinv. destruct (y_cur s) as [f|] eqn:Hc.
    + destruct Hinv as [Hn Hm]. rewrite (close_frame_inv f _ Hn Hm). cbn [settle]. unfold sym_all_frames. rewrite Hc.
      cbn [y_done y_cur]. intros h Hh. exists h. split; [apply in_or_app; left; exact Hh|apply yframe_le_refl].
    + cbn [settle]. unfold sym_all_frames. rewrite Hc. cbn [y_done y_cur]. intros h Hh. exists h.
      split; [rewrite app_nil_r in Hh; apply in_or_app; left; exact Hh|apply yframe_le_refl].
  - destruct (num_of v); [|apply yframes_le_refl]. destruct hsuffix; [|destruct (_ <? 16); [apply yframes_le_refl|]];
      (unfold ystep_set; destruct (y_cur s) eqn:Hc; [|apply yframes_le_refl]; cbn [settle];
       eapply all_frames_replace_cur; [exact Hc|]; split; [reflexivity|auto]).
  - destruct v as [z| |]; try apply yframes_le_refl. destruct z as [|p|p]; try apply yframes_le_refl.
    destruct p; try apply yframes_le_refl.
    unfold ystep_set. destruct (y_cur s) eqn:Hc; [|apply yframes_le_refl]. cbn [settle].
    eapply all_frames_replace_cur; [exact Hc|]. split; [reflexivity|auto].
  - destruct (num_of v); [|apply yframes_le_refl].
    unfold ystep_set. destruct (y_cur s) eqn:Hc; [|apply yframes_le_refl]. cbn [settle].
    eapply all_frames_replace_cur; [exact Hc|]. split; [reflexivity|auto].
  - destruct (num_of v); [|apply yframes_le_refl].
    unfold ystep_set. destruct (y_cur s) eqn:Hc; [|apply yframes_le_refl]. cbn [settle].
    eapply all_frames_replace_cur; [exact Hc|]. split; [reflexivity|auto].
  - unfold ystep_var. destruct (name_of name); [|apply yframes_le_refl]. destruct (num_of ty); [|apply yframes_le_refl].
    destruct (num_of start); [|apply yframes_le_refl]. destruct (num_of size); [|apply yframes_le_refl].
    destruct nums_ok; cbn [negb]; [|apply yframes_le_refl]. destruct (mux_of_var (y_mux s)); [|apply yframes_le_refl].
    destruct (y_cur s) eqn:Hc; [|apply yframes_le_refl]. cbn [settle].
    eapply all_frames_replace_cur; [exact Hc|]. split; [reflexivity|]. cbn. intros x Hx. apply in_or_app. left. exact Hx.
  - unfold ystep_mux. destruct (name_of name); [|apply yframes_le_refl]. destruct (num_of start); [|apply yframes_le_refl].
    destruct (num_of size); [|apply yframes_le_refl]. destruct value as [k| |]; try apply yframes_le_refl.
    destruct (y_cur s) as [f|] eqn:Hc; [|apply yframes_le_refl].
    destruct (mux_in f k); [apply yframes_le_refl|]. destruct nums_ok; cbn [negb]; [|apply yframes_le_refl].
    cbn [settle]. intros h Hh. unfold sym_all_frames in *. rewrite Hc in Hh. cbn [y_done y_cur].
    apply in_app_or in Hh. destruct Hh as [Hh|[Hh|[]]].
    + exists h. split; [apply in_or_app; left; exact Hh|apply yframe_le_refl].
    + subst h. eexists. split; [apply in_or_app; right; left; reflexivity|]. split.
      * destruct (yhas (yf_signals f) (mux_signal_name (y_fname s))); reflexivity.
      * intros x Hx. destruct (yhas (yf_signals f) (mux_signal_name (y_fname s))); cbn; [exact Hx|apply in_or_app; left; exact Hx].
  - apply yframes_le_refl.
Qed.

Lemma yframes_le_objs : forall s s' o, yframes_le (sym_all_frames s) (sym_all_frames s') -> sym_objs s o -> sym_objs s' o.
Proof.
  intros s s' o Hle [f [Hf [Hn Hx]]]. destruct (Hle f Hf) as [f' [Hf' [Hn' Hs]]].
  exists f'. split; [exact Hf'|]. split; [congruence|]. apply Hs. exact Hx.
Qed.

Theorem sym_prefix_keeps_frames_and_signals : forall l1 l2 o,
  sym_objs (read sym_step sym_init l1) o -> sym_objs (read sym_step sym_init (l1 ++ l2)) o.
Proof.
  intros l1 l2 o H. rewrite read_app.
  pose proof (sym_reachable_inv l1 sym_init sym_init_inv) as Hinv.
  generalize dependent (read sym_step sym_init l1). induction l2 as [|l l2 IH]; intros s H Hinv; [exact H|].
  rewrite read_cons. apply IH.
  - eapply yframes_le_objs; [apply sym_step_le; exact Hinv|exact H].
  - apply sym_step_inv. exact Hinv.
Qed.
