(* C05: dbc.format_float renders a Decimal as a text that Decimal(text) parses back to the same number
   (model/FmtDbc.v section 9). *)
From CM Require Import lib.Prelude model.FmtDbc proofs.C05_mech.
From Coq Require Import DecimalN DecimalPos.

(* ---- characters ---- *)
Lemma all_digits_app a b : all_digits (a ++ b) = all_digits a && all_digits b.
Proof. apply forallb_app. Qed.

Lemma all_digits_zeros k : all_digits (zeros k) = true.
Proof. induction k; cbn; [reflexivity|exact IHk]. Qed.

Lemma all_digits_nat_text n : all_digits (nat_text n) = true.
Proof.
  unfold all_digits. apply forallb_forall. intros c Hc. pose proof (nat_text_digits n) as H.
  rewrite Forall_forall in H. specialize (H c Hc). unfold is_digit. lia.
Qed.

Lemma all_digits_notin l c : all_digits l = true -> (c < 48 \/ 57 < c) -> ~ In c l.
Proof.
  intros H Hc Hin. unfold all_digits in H. rewrite forallb_forall in H. specialize (H c Hin). unfold is_digit in H. lia.
Qed.

Lemma in_firstn {A} k (l : list A) x : In x (firstn k l) -> In x l.
Proof. intros H. rewrite <- (firstn_skipn k l). apply in_or_app. left. exact H. Qed.
Lemma in_skipn {A} k (l : list A) x : In x (skipn k l) -> In x l.
Proof. intros H. rewrite <- (firstn_skipn k l). apply in_or_app. right. exact H. Qed.

Lemma all_digits_firstn k l : all_digits l = true -> all_digits (firstn k l) = true.
Proof.
  intros H. unfold all_digits in *. apply forallb_forall. intros c Hc. rewrite forallb_forall in H. apply H.
  eapply in_firstn. exact Hc.
Qed.
Lemma all_digits_skipn k l : all_digits l = true -> all_digits (skipn k l) = true.
Proof.
  intros H. unfold all_digits in *. apply forallb_forall. intros c Hc. rewrite forallb_forall in H. apply H.
  eapply in_skipn. exact Hc.
Qed.

(* ---- split ---- *)
Lemma split_at_notin ch l : ~ In ch l -> split_at ch l = (l, None).
Proof.
  induction l as [|c r IH]; intros H; cbn [split_at]; [reflexivity|].
  destruct (c =? ch) eqn:E; [exfalso; apply H; left; lia|].
  rewrite IH by (intros Hr; apply H; right; exact Hr). reflexivity.
Qed.

Lemma split_at_app ch l r : ~ In ch l -> split_at ch (l ++ ch :: r) = (l, Some r).
Proof.
  induction l as [|c l IH]; intros H; cbn [app split_at].
  - rewrite Z.eqb_refl. reflexivity.
  - destruct (c =? ch) eqn:E; [exfalso; apply H; left; lia|].
    rewrite IH by (intros Hr; apply H; right; exact Hr). reflexivity.
Qed.

(* ---- strip ".0" ---- *)
Lemma strip_dot0_cons3 c b b' r : strip_dot0 (c :: b :: b' :: r) = c :: strip_dot0 (b :: b' :: r).
Proof. reflexivity. Qed.

Lemma strip_dot0_app p t : (2 <= length t)%nat -> strip_dot0 (p ++ t) = p ++ strip_dot0 t.
Proof.
  intros Ht. induction p as [|c p IH]; [reflexivity|].
  cbn [app]. destruct (p ++ t) as [|b [|b' r]] eqn:E.
  - apply (f_equal (@length Z)) in E. rewrite app_length in E. cbn in E. lia.
  - apply (f_equal (@length Z)) in E. rewrite app_length in E. cbn in E. lia.
  - rewrite strip_dot0_cons3, IH. reflexivity.
Qed.

Lemma strip_dot0_nodot t : ~ In 46 t -> strip_dot0 t = t.
Proof.
  induction t as [|c r IH]; intros H; [reflexivity|].
  destruct r as [|b [|b' r']].
  - reflexivity.
  - cbn [strip_dot0]. destruct (c =? 46) eqn:E; [exfalso; apply H; left; lia|]. reflexivity.
  - rewrite strip_dot0_cons3, IH by (intros Hr; apply H; right; exact Hr). reflexivity.
Qed.

Lemma strip_dot0_pair d : strip_dot0 [46; d] = if d =? 48 then [] else [46; d].
Proof. cbn. reflexivity. Qed.

(* ---- layouts: the parts of a rendered number ---- *)
Definition layout := (bool * text * option text * option (bool * N))%type.
Definition flatten (pad : bool) (L : layout) : text :=
  match L with
  | (neg, ip, fp, ex) =>
      (if neg then [45] else []) ++ ip ++ (match fp with Some f => 46 :: f | None => [] end)
      ++ (match ex with
          | Some (xneg, a) => 69 :: (if xneg then 45 else 43) :: (if pad then rjust3 (nat_text a) else nat_text a)
          | None => []
          end)
  end.
Definition wf_layout (L : layout) : Prop :=
  match L with
  | (neg, ip, fp, ex) =>
      ip <> [] /\ all_digits ip = true /\
      match fp with Some f => f <> [] /\ all_digits f = true | None => True end
  end.
Definition layout_of (d : dec) : layout :=
  match d with
  | (neg, ds, e) =>
      let n := Z.of_nat (length ds) in
      let leftdigits := e + n in
      let dotplace := if (e <=? 0) && (-6 <? leftdigits) then leftdigits else 1 in
      let x := leftdigits - dotplace in
      (neg,
       if dotplace <=? 0 then [48] else if n <=? dotplace then ds ++ zeros (Z.to_nat (dotplace - n)) else firstn (Z.to_nat dotplace) ds,
       if dotplace <=? 0 then Some (zeros (Z.to_nat (- dotplace)) ++ ds)
       else if n <=? dotplace then None else Some (skipn (Z.to_nat dotplace) ds),
       if x =? 0 then None else Some (x <? 0, Z.to_N (Z.abs x)))
  end.
Definition strip_layout (L : layout) : layout :=
  match L with
  | (neg, ip, Some [d], None) => if d =? 48 then (neg, ip, None, None) else L
  | _ => L
  end.


Lemma dec_str_layout d : dec_str d = flatten false (layout_of d).
Proof.
  destruct d as [[neg ds] e]. unfold dec_str, layout_of, flatten. cbv zeta.
  set (n := Z.of_nat (length ds)).
  set (dp := if (e <=? 0) && (-6 <? e + n) then e + n else 1).
  f_equal.
  assert (Hx : (if e + n - dp =? 0 then []
                else 69 :: (if 0 <=? e + n - dp then 43 else 45) :: nat_text (Z.to_N (Z.abs (e + n - dp))))
               = match (if e + n - dp =? 0 then None else Some (e + n - dp <? 0, Z.to_N (Z.abs (e + n - dp)))) with
                 | Some (xneg, a) => 69 :: (if xneg then 45 else 43) :: nat_text a
                 | None => []
                 end).
  { destruct (e + n - dp =? 0); [reflexivity|]. destruct (0 <=? e + n - dp) eqn:A, (e + n - dp <? 0) eqn:B; try lia; reflexivity. }
  rewrite Hx. clear Hx.
  destruct (dp <=? 0).
  - cbn [app]. reflexivity.
  - destruct (n <=? dp).
    + rewrite app_nil_l. reflexivity.
    + rewrite <- app_assoc. reflexivity.
Qed.

Lemma layout_wf neg ds e : canonical ds -> wf_layout (layout_of (neg, ds, e)).
Proof.
  intros [Hne [Hd _]]. unfold layout_of, wf_layout. cbv zeta.
  set (n := Z.of_nat (length ds)).
  set (dp := if (e <=? 0) && (-6 <? e + n) then e + n else 1).
  assert (Hn : 1 <= n) by (subst n; destruct ds; [contradiction|cbn [length]; lia]).
  destruct (dp <=? 0) eqn:E1.
  - split; [discriminate|]. split; [reflexivity|]. split.
    + intros H. apply app_eq_nil in H. destruct H as [_ H]. contradiction.
    + rewrite all_digits_app, all_digits_zeros, Hd. reflexivity.
  - destruct (n <=? dp) eqn:E2.
    + split; [intros H; apply app_eq_nil in H; destruct H as [H _]; contradiction|].
      split; [rewrite all_digits_app, all_digits_zeros, Hd; reflexivity|exact I].
    + assert (Hk : (0 < Z.to_nat dp < length ds)%nat) by lia.
      split.
      { intros H. apply (f_equal (@length Z)) in H. rewrite firstn_length in H. cbn in H. lia. }
      split; [apply all_digits_firstn; exact Hd|]. split.
      { intros H. apply (f_equal (@length Z)) in H. rewrite skipn_length in H. cbn in H. lia. }
      apply all_digits_skipn. exact Hd.
Qed.

Lemma strip_layout_wf L : wf_layout L -> wf_layout (strip_layout L).
Proof.
  destruct L as [[[neg ip] fp] ex]. intros H. unfold strip_layout.
  destruct fp as [[|d [|d' f]]|]; try exact H. destruct ex; [exact H|]. destruct (d =? 48); [|exact H].
  destruct H as [H1 [H2 _]]. repeat split; assumption.
Qed.

(* strip_dot0 acts on the layout *)
Lemma strip_flatten L : wf_layout L -> strip_dot0 (flatten false L) = flatten false (strip_layout L).
Proof.
  destruct L as [[[neg ip] fp] ex]. intros [Hne [Hip Hfp]]. unfold flatten, strip_layout.
  assert (Hs : ~ In 46 (if neg then [45] else [])) by (destruct neg; cbn; lia).
  assert (Hi : ~ In 46 ip) by (apply all_digits_notin; [exact Hip|lia]).
  destruct ex as [[xneg a]|].
  - (* ends with sign and digits of the exponent *)
    assert (Hsame : (match fp with Some [d] => (neg, ip, fp, Some (xneg, a)) | _ => (neg, ip, fp, Some (xneg, a)) end)
                    = (neg, ip, fp, Some (xneg, a))) by (destruct fp as [[|d [|d' f]]|]; reflexivity).
    replace (match fp with
             | Some [d] => _
             | _ => (neg, ip, fp, Some (xneg, a))
             end) with (neg, ip, fp, Some (xneg, a)) by (destruct fp as [[|d [|d' f]]|]; reflexivity).
    clear Hsame.
    set (t := (if xneg then 45 else 43) :: nat_text a).
    assert (Ht : (2 <= length t)%nat).
    { subst t. cbn [length]. pose proof (nat_text_nonempty a). destruct (nat_text a); [contradiction|cbn; lia]. }
    assert (Hnt : ~ In 46 t).
    { subst t. intros [H|H]; [destruct xneg; lia|]. revert H. apply all_digits_notin; [apply all_digits_nat_text|lia]. }
    replace ((if neg then [45] else []) ++ ip ++ match fp with Some f => 46 :: f | None => [] end ++ 69 :: t)
      with (((if neg then [45] else []) ++ ip ++ match fp with Some f => 46 :: f | None => [] end ++ [69]) ++ t)
      by (rewrite <- !app_assoc; reflexivity).
    rewrite strip_dot0_app by exact Ht. rewrite strip_dot0_nodot by exact Hnt. rewrite <- !app_assoc. reflexivity.
  - rewrite !app_nil_r. destruct fp as [f|].
    + destruct Hfp as [Hfne Hfd]. destruct f as [|d [|d' f']]; [contradiction| |].
      * (* exactly one fraction digit *)
        replace ((if neg then [45] else []) ++ ip ++ [46; d]) with (((if neg then [45] else []) ++ ip) ++ [46; d])
          by (rewrite <- app_assoc; reflexivity).
        rewrite strip_dot0_app by (cbn; lia). rewrite strip_dot0_pair. destruct (d =? 48).
        -- rewrite !app_nil_r. reflexivity.
        -- rewrite !app_nil_r, <- app_assoc. reflexivity.
      * rewrite !app_nil_r.
        replace ((if neg then [45] else []) ++ ip ++ 46 :: d :: d' :: f')
          with (((if neg then [45] else []) ++ ip ++ [46]) ++ d :: d' :: f') by (rewrite <- !app_assoc; reflexivity).
        rewrite strip_dot0_app by (cbn; lia).
        rewrite strip_dot0_nodot by (apply all_digits_notin; [exact Hfd|lia]). rewrite <- !app_assoc. reflexivity.
    + rewrite !app_nil_r. apply strip_dot0_nodot. intros H. apply in_app_or in H. destruct H; contradiction.
Qed.

(* the exponent is padded to three digits *)
Lemma pad_flatten L : wf_layout L ->
  match split_at 69 (flatten false L) with
  | (m, Some (sg :: digs)) => m ++ 69 :: sg :: rjust3 digs
  | _ => flatten false L
  end = flatten true L.
Proof.
  destruct L as [[[neg ip] fp] ex]. intros [Hne [Hip Hfp]]. unfold flatten.
  assert (Hm : ~ In 69 ((if neg then [45] else []) ++ ip ++ match fp with Some f => 46 :: f | None => [] end)).
  { intros H. apply in_app_or in H. destruct H as [H|H]; [destruct neg; cbn in H; lia|].
    apply in_app_or in H. destruct H as [H|H]; [revert H; apply all_digits_notin; [exact Hip|lia]|].
    destruct fp as [f|]; [|contradiction]. destruct H as [H|H]; [lia|]. destruct Hfp as [_ Hfd].
    revert H. apply all_digits_notin; [exact Hfd|lia]. }
  destruct ex as [[xneg a]|].
  - replace ((if neg then [45] else []) ++ ip ++ match fp with Some f => 46 :: f | None => [] end
             ++ 69 :: (if xneg then 45 else 43) :: nat_text a)
      with (((if neg then [45] else []) ++ ip ++ match fp with Some f => 46 :: f | None => [] end)
             ++ 69 :: (if xneg then 45 else 43) :: nat_text a) by (rewrite <- !app_assoc; reflexivity).
    rewrite split_at_app by exact Hm. rewrite <- !app_assoc. reflexivity.
  - rewrite !app_nil_r in *. rewrite split_at_notin by exact Hm. reflexivity.
Qed.

Lemma format_float_layout neg ds e :
  canonical ds -> format_float (neg, ds, e) = flatten true (strip_layout (layout_of (neg, ds, e))).
Proof.
  intros Hc. unfold format_float. cbv zeta. rewrite dec_str_layout.
  rewrite (strip_flatten _ (layout_wf neg ds e Hc)).
  apply pad_flatten. apply strip_layout_wf. apply layout_wf. exact Hc.
Qed.

(* ---- parsing a flattened layout ---- *)
Fixpoint lead0 (k : nat) (d : Decimal.uint) : Decimal.uint := match k with O => d | S j => Decimal.D0 (lead0 j d) end.

Lemma codes_uint_zeros k l : codes_uint (zeros k ++ l) = match codes_uint l with Some d => Some (lead0 k d) | None => None end.
Proof.
  induction k as [|k IH]; cbn [zeros repeat app lead0].
  - destruct (codes_uint l); reflexivity.
  - cbn [codes_uint]. fold (zeros k). rewrite IH. destruct (codes_uint l); reflexivity.
Qed.

Lemma of_uint_lead0 k d : N.of_uint (lead0 k d) = N.of_uint d.
Proof. induction k as [|k IH]; cbn [lead0]; [reflexivity|]. rewrite <- IH. reflexivity. Qed.

Lemma text_nat_padded k a : text_nat (zeros k ++ nat_text a) = Some a.
Proof.
  unfold text_nat. destruct (zeros k ++ nat_text a) as [|c r] eqn:E.
  - apply app_eq_nil in E. destruct E as [_ E]. exfalso. exact (nat_text_nonempty a E).
  - rewrite <- E, codes_uint_zeros. unfold nat_text. rewrite codes_uint_codes, of_uint_lead0.
    f_equal. apply DecimalN.Unsigned.of_to.
Qed.

Lemma lstrip0_canonical ds : canonical ds -> lstrip0 ds = ds.
Proof.
  intros [Hne [_ [-> | Hh]]]; [reflexivity|]. destruct ds as [|c r]; [contradiction|]. cbn [hd] in Hh. cbn [lstrip0].
  destruct (c =? 48) eqn:E; [lia|reflexivity].
Qed.

Lemma lstrip0_zeros k ds : canonical ds -> lstrip0 (zeros k ++ ds) = ds.
Proof.
  intros Hc. induction k as [|k IH]; cbn [zeros repeat app]; [apply lstrip0_canonical; exact Hc|].
  cbn [lstrip0]. rewrite Z.eqb_refl. exact IH.
Qed.

Definition layout_exp (ex : option (bool * N)) : Z :=
  match ex with None => 0 | Some (xneg, a) => if xneg then - Z.of_N a else Z.of_N a end.

Lemma parse_flatten neg ip fp ex :
  wf_layout (neg, ip, fp, ex) ->
  dec_parse (flatten true (neg, ip, fp, ex))
  = Some (neg, lstrip0 (ip ++ match fp with Some f => f | None => [] end),
          layout_exp ex - Z.of_nat (length (match fp with Some f => f | None => [] end))).
Proof.
  intros [Hne [Hip Hfp]]. unfold dec_parse, flatten. cbv zeta.
  set (mant := ip ++ match fp with Some f => 46 :: f | None => [] end).
  set (etxt := match ex with
               | Some (xneg, a) => 69 :: (if xneg then 45 else 43) :: rjust3 (nat_text a)
               | None => []
               end).
  assert (Hhd : exists c r, ip = c :: r /\ 48 <= c <= 57).
  { destruct ip as [|c r]; [contradiction|]. exists c, r. split; [reflexivity|].
    cbn [all_digits forallb] in Hip. apply andb_true_iff in Hip. destruct Hip as [Hc _]. unfold is_digit in Hc. lia. }
  destruct Hhd as [c0 [r0 [Hip0 Hc0]]].
  (* the sign *)
  assert (Hneg : (match (if neg then [45] else []) ++ mant ++ etxt with c :: _ => c =? 45 | [] => false end) = neg).
  { destruct neg; cbn [app]; [reflexivity|]. subst mant. rewrite Hip0. cbn [app]. lia. }
  replace ((if neg then [45] else []) ++ ip ++ match fp with Some f => 46 :: f | None => [] end ++ etxt)
    with ((if neg then [45] else []) ++ mant ++ etxt) by (subst mant; rewrite <- !app_assoc; reflexivity).
  rewrite Hneg.
  assert (Hbody : (if neg then tl ((if neg then [45] else []) ++ mant ++ etxt) else (if neg then [45] else []) ++ mant ++ etxt)
                  = mant ++ etxt) by (destruct neg; reflexivity).
  rewrite Hbody. clear Hneg Hbody.
  assert (Hm69 : ~ In 69 mant).
  { subst mant. intros H. apply in_app_or in H. destruct H as [H|H]; [revert H; apply all_digits_notin; [exact Hip|lia]|].
    destruct fp as [f|]; [|contradiction]. destruct H as [H|H]; [lia|]. destruct Hfp as [_ Hfd].
    revert H. apply all_digits_notin; [exact Hfd|lia]. }
  assert (Hi46 : ~ In 46 ip) by (apply all_digits_notin; [exact Hip|lia]).
  (* mantissa and exponent text *)
  assert (Hsplit : split_at 69 (mant ++ etxt)
                   = (mant, match ex with Some (xneg, a) => Some ((if xneg then 45 else 43) :: rjust3 (nat_text a)) | None => None end)).
  { subst etxt. destruct ex as [[xneg a]|].
    - apply split_at_app. exact Hm69.
    - rewrite app_nil_r. apply split_at_notin. exact Hm69. }
  rewrite Hsplit. cbn [fst snd].
  assert (Hdot : split_at 46 mant = (ip, fp)).
  { subst mant. destruct fp as [f|].
    - apply split_at_app. exact Hi46.
    - rewrite app_nil_r. apply split_at_notin. exact Hi46. }
  rewrite Hdot. cbn [fst snd].
  set (fpt := match fp with Some f => f | None => [] end).
  assert (Hall : all_digits (ip ++ fpt) = true).
  { rewrite all_digits_app, Hip. subst fpt. destruct fp as [f|]; [destruct Hfp as [_ Hfd]; rewrite Hfd|]; reflexivity. }
  destruct (ip ++ fpt) as [|c r] eqn:E.
  - apply app_eq_nil in E. destruct E as [E _]. contradiction.
  - rewrite <- E in Hall. rewrite <- E. destruct ex as [[xneg a]|].
    + unfold rjust3. rewrite all_digits_app, all_digits_zeros, all_digits_nat_text. cbn [andb]. rewrite text_nat_padded.
      destruct xneg; cbn [layout_exp].
      * replace (45 =? 43) with false by reflexivity. replace (45 =? 45) with true by reflexivity. rewrite Hall. reflexivity.
      * replace (43 =? 43) with true by reflexivity. rewrite Hall. reflexivity.
    + rewrite Hall. reflexivity.
Qed.

(* ---- value ---- *)
Lemma dval_app_digit l c : dval (l ++ [c]) = 10 * dval l + (c - 48).
Proof. unfold dval. rewrite fold_left_app. reflexivity. Qed.

Lemma firstn_removelast_last (l : text) : l <> [] -> l = firstn (length l - 1) l ++ [last l 0].
Proof.
  intros H. replace (length l - 1)%nat with (Init.Nat.pred (length l)) by lia.
  rewrite <- (removelast_firstn_len l). apply app_removelast_last. exact H.
Qed.

(* the parsed number: the same (digits, exponent), or - when ".0" was cut - the digits without their final 0 at exponent 0 *)
Ltac rw_parse H := let P := fresh "P" in pose proof H as P; unfold text in *; rewrite P; clear P.

Lemma format_float_parse neg ds e :
  canonical ds ->
  exists ds' e', dec_parse (format_float (neg, ds, e)) = Some (neg, ds', e') /\
    ((ds' = ds /\ e' = e) \/ (e = -1 /\ e' = 0 /\ dval ds = 10 * dval ds')).
Proof.
  intros Hc. rewrite (format_float_layout neg ds e Hc).
  pose proof (layout_wf neg ds e Hc) as Hwf.
  destruct Hc as [Hne [Hd Hcan]].
  assert (Hc : canonical ds) by (repeat split; assumption).
  unfold layout_of in *. cbv zeta in *.
  set (n := Z.of_nat (length ds)) in *.
  assert (Hn : 1 <= n) by (subst n; destruct ds; [contradiction|cbn [length]; lia]).
  set (dp := if (e <=? 0) && (-6 <? e + n) then e + n else 1) in *.
  destruct ((e <=? 0) && (-6 <? e + n)) eqn:Hsci.
  - (* positional notation: dp = e + n, no exponent *)
    assert (Hdp : dp = e + n) by reflexivity.
    replace (e + n - dp =? 0) with true in * by lia.
    destruct (dp <=? 0) eqn:E1.
    + (* 0.000ddd *)
      destruct (zeros (Z.to_nat (- dp)) ++ ds) as [|d0 [|d1 fr]] eqn:Ef.
      * apply app_eq_nil in Ef. destruct Ef as [_ Ef]. contradiction.
      * (* a single fraction digit: dp = 0 and n = 1 *)
        assert (Hlen : (length (zeros (Z.to_nat (- dp)) ++ ds) = 1)%nat) by (rewrite Ef; reflexivity).
        rewrite app_length in Hlen. unfold zeros in Hlen. rewrite repeat_length in Hlen.
        assert (Hz : Z.to_nat (- dp) = O) by lia. rewrite Hz in Ef. cbn [zeros repeat app] in Ef.
        unfold strip_layout. destruct (d0 =? 48) eqn:E48.
        -- exists [48], 0.
           assert (Hw : wf_layout (neg, [48], None, None)) by (repeat split; discriminate).
           rw_parse (parse_flatten neg [48] None None Hw).
           split; [reflexivity|]. right. subst ds. cbn [length] in n. repeat split; try lia.
           assert (d0 = 48) by lia. subst d0. reflexivity.
        -- exists ds, e.
           assert (Hw : wf_layout (neg, [48], Some [d0], None)).
           { repeat split; try discriminate. subst ds. exact Hd. }
           rw_parse (parse_flatten neg [48] (Some [d0]) None Hw).
           split; [|left; split; reflexivity]. cbn [app length layout_exp]. subst ds. cbn [lstrip0]. rewrite Z.eqb_refl.
           cbn [lstrip0]. rewrite E48. cbn [length] in n. f_equal. f_equal. lia.
      * unfold strip_layout. exists ds, e. rewrite <- Ef. rewrite <- Ef in Hwf.
        rw_parse (parse_flatten neg [48] (Some (zeros (Z.to_nat (- dp)) ++ ds)) None Hwf).
        split; [|left; split; reflexivity]. cbn [layout_exp].
        change ([48] ++ zeros (Z.to_nat (- dp)) ++ ds) with (zeros (S (Z.to_nat (- dp))) ++ ds).
        rewrite (lstrip0_zeros _ ds Hc). f_equal. f_equal. rewrite app_length. unfold zeros. rewrite repeat_length. lia.
    + destruct (n <=? dp) eqn:E2.
      * (* an integer: e = 0 *)
        assert (He : e = 0) by lia. assert (Hz : Z.to_nat (dp - n) = O) by lia. rewrite Hz in *. cbn [zeros repeat] in *.
        rewrite app_nil_r in *. unfold strip_layout. exists ds, e.
        rw_parse (parse_flatten neg ds None None Hwf). split; [|left; split; reflexivity].
        cbn [layout_exp length]. rewrite app_nil_r, (lstrip0_canonical ds Hc). f_equal. f_equal. lia.
      * (* ddd.ddd *)
        assert (Hk : (0 < Z.to_nat dp < length ds)%nat) by lia.
        assert (Hh : hd 0 ds <> 48).
        { destruct Hcan as [-> | H]; [cbn in Hk; lia|exact H]. }
        destruct (skipn (Z.to_nat dp) ds) as [|d0 [|d1 fr]] eqn:Ef.
        -- apply (f_equal (@length Z)) in Ef. rewrite skipn_length in Ef. cbn in Ef. lia.
        -- (* one fraction digit: e = -1 *)
           assert (Hlen : (length (skipn (Z.to_nat dp) ds) = 1)%nat) by (rewrite Ef; reflexivity).
           rewrite skipn_length in Hlen. assert (He : e = -1) by lia.
           assert (Hfn : Z.to_nat dp = (length ds - 1)%nat) by lia.
           pose proof (firstn_removelast_last ds Hne) as Hsplit.
           assert (Hlast : last ds 0 = d0).
           { pose proof (firstn_skipn (Z.to_nat dp) ds) as Hfs. rewrite Ef in Hfs. rewrite <- Hfs. apply last_last. }
           assert (Hfc : canonical (firstn (Z.to_nat dp) ds)).
           { split; [intros H; apply (f_equal (@length Z)) in H; rewrite firstn_length in H; cbn in H; lia|].
             split; [apply all_digits_firstn; exact Hd|]. right. destruct ds as [|c r]; [contradiction|].
             destruct (Z.to_nat dp) eqn:Edp; [lia|]. cbn [firstn hd]. exact Hh. }
           unfold strip_layout. destruct (d0 =? 48) eqn:E48.
           ++ exists (firstn (Z.to_nat dp) ds), 0.
              assert (Hw : wf_layout (neg, firstn (Z.to_nat dp) ds, None, None)).
              { destruct Hfc as [A [B _]]. repeat split; assumption. }
              rw_parse (parse_flatten neg (firstn (Z.to_nat dp) ds) None None Hw).
              split; [cbn [layout_exp length]; rewrite app_nil_r, (lstrip0_canonical _ Hfc); reflexivity|].
              right. repeat split; try lia. rewrite Hsplit at 1. rewrite dval_app_digit, Hlast, Hfn. lia.
           ++ exists ds, e.
              assert (Hw : wf_layout (neg, firstn (Z.to_nat dp) ds, Some [d0], None)).
              { destruct Hfc as [A [B _]]. repeat split; try assumption; try discriminate.
                pose proof (all_digits_skipn (Z.to_nat dp) ds Hd) as Hs. rewrite Ef in Hs. exact Hs. }
              rw_parse (parse_flatten neg (firstn (Z.to_nat dp) ds) (Some [d0]) None Hw).
              split; [|left; split; reflexivity]. rewrite <- Ef, firstn_skipn, (lstrip0_canonical ds Hc).
              rewrite Ef. cbn [layout_exp length]. f_equal. f_equal. lia.
        -- unfold strip_layout. exists ds, e. rewrite <- Ef. rewrite <- Ef in Hwf.
           rw_parse (parse_flatten neg _ (Some (skipn (Z.to_nat dp) ds)) None Hwf).
           split; [|left; split; reflexivity]. rewrite firstn_skipn, (lstrip0_canonical ds Hc). cbn [layout_exp].
           f_equal. f_equal. rewrite skipn_length. lia.
  - (* scientific notation: dp = 1 *)
    assert (Hdp : dp = 1) by reflexivity. rewrite Hdp in *.
    replace (1 <=? 0) with false in * by reflexivity.
    destruct (e + n - 1 =? 0) eqn:Ex.
    + (* exponent 0 can only arise in positional notation *)
      exfalso. lia.
    + assert (Hstrip : forall ip fp, strip_layout (neg, ip, fp, Some (e + n - 1 <? 0, Z.to_N (Z.abs (e + n - 1))))
                                   = (neg, ip, fp, Some (e + n - 1 <? 0, Z.to_N (Z.abs (e + n - 1))))).
      { intros ip fp. unfold strip_layout. destruct fp as [[|d [|d' f]]|]; reflexivity. }
      rewrite Hstrip. exists ds, e. rw_parse (parse_flatten _ _ _ _ Hwf). split; [|left; split; reflexivity].
      assert (Hexp : layout_exp (Some (e + n - 1 <? 0, Z.to_N (Z.abs (e + n - 1)))) = e + n - 1).
      { cbn [layout_exp]. destruct (e + n - 1 <? 0) eqn:S; lia. }
      rewrite Hexp. destruct (n <=? 1) eqn:E2.
      * assert (Hz : Z.to_nat (1 - n) = O) by lia. rewrite Hz. cbn [zeros repeat]. rewrite !app_nil_r.
        rewrite (lstrip0_canonical ds Hc). cbn [length]. f_equal. f_equal. lia.
      * rewrite firstn_skipn, (lstrip0_canonical ds Hc), skipn_length. f_equal. f_equal. lia.
Qed.
