(* C18: the directly modelled options of model/Convert.v (Part B). *)
From CM Require Import lib.Prelude model.Glob model.Convert proofs.Glob_proofs proofs.C18_parse.
From CM Require model.EcuOps model.Codec model.Layout proofs.C16_dlc proofs.C11_lists.

(* ---------- booleans ---------- *)
Lemma gtb_negb_leb : forall a b, negb (a >? b) = (a <=? b).
Proof. intros a b. rewrite Z.gtb_ltb. rewrite Z.leb_antisym. reflexivity. Qed.

Lemma set_cframes_same : forall m, set_cframes m (cm_frames m) = m.
Proof. intros [fs p]. reflexivity. Qed.

(* ---------- removing by identity ---------- *)
Lemma remove_frame_uid_mid : forall pre x r,
  ~ In (cf_uid x) (map cf_uid pre) -> remove_frame_uid (cf_uid x) (pre ++ x :: r) = pre ++ r.
Proof.
  induction pre as [|y pre IH]; intros x r H; cbn [app remove_frame_uid].
  - rewrite Z.eqb_refl. reflexivity.
  - destruct (cf_uid y =? cf_uid x) eqn:E.
    + apply Z.eqb_eq in E. exfalso. apply H. left. exact E.
    + f_equal. apply IH. intros Hin. apply H. right. exact Hin.
Qed.
Lemma remove_sig_uid_mid : forall pre x r,
  ~ In (cs_uid x) (map cs_uid pre) -> remove_sig_uid (cs_uid x) (pre ++ x :: r) = pre ++ r.
Proof.
  induction pre as [|y pre IH]; intros x r H; cbn [app remove_sig_uid].
  - rewrite Z.eqb_refl. reflexivity.
  - destruct (cs_uid y =? cs_uid x) eqn:E.
    + apply Z.eqb_eq in E. exfalso. apply H. left. exact E.
    + f_equal. apply IH. intros Hin. apply H. right. exact Hin.
Qed.

Lemma fold_remove_frames_gen : forall (p : cframe -> bool) l pre,
  NoDup (map cf_uid (pre ++ l)) ->
  fold_left (fun live f => remove_frame_uid (cf_uid f) live) (filter p l) (pre ++ l) =
  pre ++ filter (fun f => negb (p f)) l.
Proof.
  intros p l. induction l as [|x r IH]; intros pre Hnd; [reflexivity|].
  cbn [filter]. destruct (p x) eqn:E; cbn [negb].
  - cbn [fold_left]. rewrite remove_frame_uid_mid.
    + apply IH. rewrite map_app in *. cbn [map] in Hnd. apply NoDup_remove_1 in Hnd. exact Hnd.
    + rewrite map_app in Hnd. cbn [map] in Hnd. apply NoDup_remove_2 in Hnd.
      intros Hin. apply Hnd. apply in_or_app. left. exact Hin.
  - change (pre ++ x :: r) with (pre ++ [x] ++ r). rewrite app_assoc. rewrite IH.
    + rewrite <- app_assoc. reflexivity.
    + rewrite <- app_assoc. exact Hnd.
Qed.
Lemma fold_remove_frames : forall (p : cframe -> bool) l,
  NoDup (map cf_uid l) ->
  fold_left (fun live f => remove_frame_uid (cf_uid f) live) (filter p l) l = filter (fun f => negb (p f)) l.
Proof. intros p l H. exact (fold_remove_frames_gen p l [] H). Qed.

Lemma fold_remove_sigs_gen : forall (p : csignal -> bool) l pre,
  NoDup (map cs_uid (pre ++ l)) ->
  fold_left (fun live s => remove_sig_uid (cs_uid s) live) (filter p l) (pre ++ l) =
  pre ++ filter (fun s => negb (p s)) l.
Proof.
  intros p l. induction l as [|x r IH]; intros pre Hnd; [reflexivity|].
  cbn [filter]. destruct (p x) eqn:E; cbn [negb].
  - cbn [fold_left]. rewrite remove_sig_uid_mid.
    + apply IH. rewrite map_app in *. cbn [map] in Hnd. apply NoDup_remove_1 in Hnd. exact Hnd.
    + rewrite map_app in Hnd. cbn [map] in Hnd. apply NoDup_remove_2 in Hnd.
      intros Hin. apply Hnd. apply in_or_app. left. exact Hin.
  - change (pre ++ x :: r) with (pre ++ [x] ++ r). rewrite app_assoc. rewrite IH.
    + rewrite <- app_assoc. reflexivity.
    + rewrite <- app_assoc. exact Hnd.
Qed.
Lemma fold_remove_sigs : forall (p : csignal -> bool) l,
  NoDup (map cs_uid l) ->
  fold_left (fun live s => remove_sig_uid (cs_uid s) live) (filter p l) l = filter (fun s => negb (p s)) l.
Proof. intros p l H. exact (fold_remove_sigs_gen p l [] H). Qed.

(* ---------- skipLongDlc ---------- *)
Theorem skip_long_dlc_effect : forall t m,
  frames_distinct m ->
  skip_long_dlc (render_int t) m = Some (set_cframes m (filter (fun f => cf_size f <=? t) (cm_frames m))).
Proof.
  intros t m Hd. unfold skip_long_dlc. destruct (cm_frames m) as [|f0 r] eqn:F.
  - cbn [filter]. rewrite <- F. rewrite set_cframes_same. reflexivity.
  - rewrite int_parse_render. rewrite <- F. rewrite fold_remove_frames by exact Hd.
    f_equal. f_equal. apply filter_ext. intros f. apply gtb_negb_leb.
Qed.

Theorem skip_long_dlc_bad_threshold : forall s m,
  parse_int s = None -> cm_frames m <> [] -> skip_long_dlc s m = None.
Proof. intros s m H Hne. unfold skip_long_dlc. destruct (cm_frames m); [congruence|]. rewrite H. reflexivity. Qed.

(* ---------- cutLongFrames ---------- *)
Lemma max_byte_c_nonneg : forall ss, 0 <= max_byte_c ss.
Proof.
  intros ss. unfold max_byte_c, Layout.max_byte.
  destruct (C16_dlc.max_bit_spec (map to_codec ss)) as [H _]. lia.
Qed.

Lemma cut_frame_spec : forall t f,
  NoDup (map cs_uid (cf_signals f)) ->
  cut_frame t f =
  if cf_size f <=? t then f
  else let kept := filter (fun s => cs_start s + cs_size s <=? 8 * t) (cf_signals f) in
       with_signals f kept (Z.max 0 (pdu_extra f (max_byte_c kept))).
Proof.
  intros t f Hd. unfold cut_frame. rewrite <- gtb_negb_leb. destruct (cf_size f >? t); cbn [negb]; [|reflexivity].
  rewrite fold_remove_sigs by exact Hd. cbv zeta.
  assert (filter (fun s => negb (cs_start s + cs_size s >? t * 8)) (cf_signals f) =
          filter (fun s => cs_start s + cs_size s <=? 8 * t) (cf_signals f)) as ->.
  { apply filter_ext. intros s. rewrite gtb_negb_leb. rewrite (Z.mul_comm t 8). reflexivity. }
  reflexivity.
Qed.

Theorem cut_long_frames_effect : forall t m,
  signals_distinct m ->
  cut_long_frames (render_int t) m =
  Some (set_cframes m
          (map (fun f => if cf_size f <=? t then f
                         else let kept := filter (fun s => cs_start s + cs_size s <=? 8 * t) (cf_signals f) in
                              with_signals f kept (Z.max 0 (pdu_extra f (max_byte_c kept))))
               (cm_frames m))).
Proof.
  intros t m Hd. unfold cut_long_frames. destruct (cm_frames m) as [|f0 r] eqn:F.
  - cbn [map]. rewrite <- F. rewrite set_cframes_same. reflexivity.
  - rewrite int_parse_render. rewrite <- F. f_equal. f_equal.
    unfold signals_distinct in Hd. rewrite Forall_forall in Hd.
    apply map_ext_in. intros f Hf. apply cut_frame_spec. apply Hd. exact Hf.
Qed.

(* a plain frame gets the smallest length that covers the signals it keeps (C16) *)
Lemma to_codec_wellformed : forall ss,
  Forall (fun s => 0 <= cs_start s /\ 1 <= cs_size s) ss -> Forall Layout.wellformed (map to_codec ss).
Proof.
  intros ss H. rewrite Forall_forall in *. intros c Hc. apply in_map_iff in Hc. destruct Hc as [s [<- Hs]].
  exact (H s Hs).
Qed.

Theorem cut_plain_frame_length_minimal : forall f kept,
  cf_pdus f = [] -> Forall (fun s => 0 <= cs_start s /\ 1 <= cs_size s) kept ->
  let n := Z.max 0 (pdu_extra f (max_byte_c kept)) in
  n = max_byte_c kept /\ Layout.covers n (map to_codec kept) /\
  forall k, 0 <= k -> Layout.covers k (map to_codec kept) -> n <= k.
Proof.
  intros f kept Hp Hw. cbv zeta. unfold pdu_extra, is_container. rewrite Hp.
  pose proof (max_byte_c_nonneg kept) as H0. rewrite Z.max_r by exact H0.
  destruct (C16_dlc.calc_dlc_minimal_cover (map to_codec kept) (to_codec_wellformed kept Hw)) as [_ [C1 [_ C3]]].
  split; [reflexivity|]. split; [exact C1|exact C3].
Qed.

(* ---------- updates by identity ---------- *)
Lemma upd_frame_uids : forall u g l, (forall f, cf_uid (g f) = cf_uid f) -> map cf_uid (upd_frame u g l) = map cf_uid l.
Proof.
  intros u g l Hg. unfold upd_frame. rewrite map_map. apply map_ext. intros f.
  destruct (cf_uid f =? u); [apply Hg|reflexivity].
Qed.
Lemma upd_frame_names : forall u g l, (forall f, cf_name (g f) = cf_name f) -> map cf_name (upd_frame u g l) = map cf_name l.
Proof.
  intros u g l Hg. unfold upd_frame. rewrite map_map. apply map_ext. intros f.
  destruct (cf_uid f =? u); [apply Hg|reflexivity].
Qed.

Lemma NoDup_map_inj : forall (A B : Type) (h : A -> B) l x y, NoDup (map h l) -> In x l -> In y l -> h x = h y -> x = y.
Proof.
  intros A B h l. induction l as [|a r IH]; intros x y Hnd Hx Hy E; [destruct Hx|].
  cbn [map] in Hnd. inversion Hnd as [|? ? Hn Hr]; subst.
  destruct Hx as [->|Hx]; destruct Hy as [->|Hy]; [reflexivity| | |apply IH; assumption].
  - exfalso. apply Hn. rewrite E. apply in_map. exact Hy.
  - exfalso. apply Hn. rewrite <- E. apply in_map. exact Hx.
Qed.

Lemma frame_named_some : forall n l f, frame_named n l = Some f -> In f l /\ cf_name f = n.
Proof.
  intros n l. induction l as [|x r IH]; intros f H; [discriminate|].
  cbn [frame_named] in H. destruct (name_eqb (cf_name x) n) eqn:E.
  - inversion H; subst. split; [left; reflexivity|apply name_eqb_eq; exact E].
  - destruct (IH f H). split; [right; assumption|assumption].
Qed.
Lemma frame_named_none : forall n l, frame_named n l = None -> forall f, In f l -> name_eqb (cf_name f) n = false.
Proof.
  intros n l. induction l as [|x r IH]; intros H f Hf; [destruct Hf|].
  cbn [frame_named] in H. destruct (name_eqb (cf_name x) n) eqn:E; [discriminate|].
  destruct Hf as [<-|Hf]; [exact E|apply IH; assumption].
Qed.

(* with unique names and identities, "the frame called n" is hit through its identity exactly *)
Lemma on_named_map : forall g l n,
  NoDup (map cf_uid l) -> NoDup (map cf_name l) ->
  on_named g l n = map (fun f => if name_eqb (cf_name f) n then g f else f) l.
Proof.
  intros g l n Hu Hn. unfold on_named. destruct (frame_named n l) as [f0|] eqn:F.
  - destruct (frame_named_some _ _ _ F) as [Hin Hname]. unfold upd_frame. apply map_ext_in. intros f Hf.
    destruct (cf_uid f =? cf_uid f0) eqn:E.
    + apply Z.eqb_eq in E. assert (f = f0) as -> by (exact (NoDup_map_inj _ _ cf_uid l f f0 Hu Hf Hin E)).
      rewrite Hname. rewrite name_eqb_refl. reflexivity.
    + destruct (name_eqb (cf_name f) n) eqn:E2; [|reflexivity].
      apply name_eqb_eq in E2.
      assert (f = f0) as -> by (apply (NoDup_map_inj _ _ cf_name l f f0 Hn Hf Hin); congruence).
      rewrite Z.eqb_refl in E. discriminate.
  - symmetry. rewrite <- (map_id l) at 2. apply map_ext_in. intros f Hf.
    rewrite (frame_named_none _ _ F f Hf). reflexivity.
Qed.

Lemma mem_name_cons : forall x n ns, mem_name x (n :: ns) = name_eqb x n || mem_name x ns.
Proof. reflexivity. Qed.

Lemma fold_on_named : forall g names l,
  (forall f, cf_uid (g f) = cf_uid f) -> (forall f, cf_name (g f) = cf_name f) -> (forall f, g (g f) = g f) ->
  NoDup (map cf_uid l) -> NoDup (map cf_name l) ->
  fold_left (on_named g) names l = map (fun f => if mem_name (cf_name f) names then g f else f) l.
Proof.
  intros g names. induction names as [|n ns IH]; intros l Hgu Hgn Hgg Hu Hn.
  - cbn [fold_left]. symmetry. apply map_id.
  - cbn [fold_left]. rewrite on_named_map by assumption. rewrite IH; try assumption.
    + rewrite map_map. apply map_ext. intros f. rewrite mem_name_cons.
      destruct (name_eqb (cf_name f) n) eqn:E; cbn [orb].
      * rewrite Hgn. destruct (mem_name (cf_name f) ns); [apply Hgg|reflexivity].
      * reflexivity.
    + rewrite map_map. erewrite map_ext; [exact Hu|]. intros f. destruct (name_eqb (cf_name f) n); [apply Hgu|reflexivity].
    + rewrite map_map. erewrite map_ext; [exact Hn|]. intros f. destruct (name_eqb (cf_name f) n); [apply Hgn|reflexivity].
Qed.

(* ---------- setFrameFd / unsetFrameFd ---------- *)
Theorem set_frame_fd_effect : forall arg m,
  frames_distinct m -> frame_names_unique m ->
  set_frame_fd arg m =
  set_cframes m (map (fun f => if mem_name (cf_name f) (parse_list arg) then with_fd f true (cf_attrs f) else f) (cm_frames m)).
Proof.
  intros arg m Hu Hn. unfold set_frame_fd. f_equal. apply fold_on_named; try assumption; intros f; reflexivity.
Qed.

Lemma del_attr_idem : forall k a, del_attr k (del_attr k a) = del_attr k a.
Proof.
  intros k a. unfold del_attr. induction a as [|x r IH]; [reflexivity|].
  cbn [filter]. destruct (negb (fst x =? k)) eqn:E; [|exact IH]. cbn [filter]. rewrite E. f_equal. exact IH.
Qed.

Theorem unset_frame_fd_effect : forall arg m,
  frames_distinct m -> frame_names_unique m ->
  unset_frame_fd arg m =
  set_cframes m (map (fun f => if mem_name (cf_name f) (parse_list arg)
                               then with_fd f false (filter (fun kv => negb (fst kv =? A_VFrameFormat)) (cf_attrs f)) else f)
                     (cm_frames m)).
Proof.
  intros arg m Hu Hn. unfold unset_frame_fd. f_equal.
  apply (fold_on_named (fun f => with_fd f false (del_attr A_VFrameFormat (cf_attrs f)))); try assumption; intros f; try reflexivity.
  unfold with_fd. cbn [cf_attrs cf_uid cf_name cf_id cf_ext cf_size cf_receivers cf_signals cf_groups cf_pdus cf_pay].
  rewrite del_attr_idem. reflexivity.
Qed.

(* a name that no frame carries NOW addresses nothing - whatever the frame was called before an earlier stage renamed it *)
Lemma frame_named_absent : forall n l, ~ In n (map cf_name l) -> frame_named n l = None.
Proof.
  intros n l. induction l as [|x r IH]; intros H; [reflexivity|].
  cbn [frame_named]. destruct (name_eqb (cf_name x) n) eqn:E.
  - apply name_eqb_eq in E. exfalso. apply H. left. exact E.
  - apply IH. intros Hin. apply H. right. exact Hin.
Qed.
Theorem fd_options_unknown_name_noop : forall n m,
  no_char COMMA n -> ~ In n (map cf_name (cm_frames m)) -> set_frame_fd n m = m /\ unset_frame_fd n m = m.
Proof.
  intros n m Hc Hn. unfold set_frame_fd, unset_frame_fd, parse_list. rewrite split_on_no_sep by exact Hc.
  cbn [fold_left]. unfold on_named. rewrite frame_named_absent by exact Hn. split; apply set_cframes_same.
Qed.

(* ---------- frameIdIncrement ---------- *)
Theorem frame_id_increment_effect : forall n m,
  frame_id_increment (render_int n) m = Some (set_cframes m (map (fun f => with_id f (cf_id f + n)) (cm_frames m))).
Proof. intros n m. unfold frame_id_increment. rewrite int_parse_render. reflexivity. Qed.

Theorem frame_id_increment_bad : forall s m, parse_int s = None -> frame_id_increment s m = None.
Proof. intros s m H. unfold frame_id_increment. rewrite H. reflexivity. Qed.

(* ---------- changeFrameId ---------- *)
Lemma change_one_step : forall l p,
  change_one (fun old l => Some (frame_with_id old l)) (Some l) (render_id_pair p) = Some (change_step l p).
Proof.
  intros l p. unfold change_one, render_id_pair, change_step. cbn [fst snd]. rewrite int_parse_render.
  destruct (frame_with_id (fst p) l) as [f|]; [rewrite int_parse_render|]; reflexivity.
Qed.
Lemma change_fold : forall ps l,
  fold_left (change_one (fun old l => Some (frame_with_id old l))) (map render_id_pair ps) (Some l) =
  Some (fold_left change_step ps l).
Proof.
  induction ps as [|p r IH]; intros l; [reflexivity|].
  cbn [map fold_left]. rewrite change_one_step. apply IH.
Qed.

Theorem change_frame_id_effect : forall ps m,
  ps <> [] ->
  change_frame_id (render_pairs (map render_id_pair ps)) m = Some (set_cframes m (fold_left change_step ps (cm_frames m))).
Proof.
  intros ps m Hne. unfold change_frame_id, change_with. rewrite rename_tuple_parse.
  - rewrite change_fold. reflexivity.
  - destruct ps; [congruence|discriminate].
  - rewrite Forall_forall. intros x Hx. apply in_map_iff in Hx. destruct Hx as [p [<- _]].
    split; apply render_int_plain.
Qed.

Lemma frame_with_id_some : forall i l f, frame_with_id i l = Some f -> In f l /\ cf_id f = i.
Proof.
  intros i l. induction l as [|x r IH]; intros f H; [discriminate|].
  cbn [frame_with_id] in H. destruct (cf_id x =? i) eqn:E.
  - inversion H; subst. split; [left; reflexivity|apply Z.eqb_eq; exact E].
  - destruct (IH f H). split; [right; assumption|assumption].
Qed.
Lemma frame_with_id_none : forall i l, frame_with_id i l = None -> forall f, In f l -> (cf_id f =? i) = false.
Proof.
  intros i l. induction l as [|x r IH]; intros H f Hf; [destruct Hf|].
  cbn [frame_with_id] in H. destruct (cf_id x =? i) eqn:E; [discriminate|].
  destruct Hf as [<-|Hf]; [exact E|apply IH; assumption].
Qed.

(* with distinct objects and distinct identifier numbers one step changes exactly the frame carrying the old number *)
Theorem change_step_exact : forall l old new,
  NoDup (map cf_uid l) -> NoDup (map cf_id l) ->
  change_step l (old, new) = map (fun f => if cf_id f =? old then with_id f new else f) l.
Proof.
  intros l old new Hu Hi. unfold change_step. cbn [fst snd]. destruct (frame_with_id old l) as [f0|] eqn:F.
  - destruct (frame_with_id_some _ _ _ F) as [Hin Hid]. unfold upd_frame. apply map_ext_in. intros f Hf.
    destruct (cf_uid f =? cf_uid f0) eqn:E.
    + apply Z.eqb_eq in E. assert (f = f0) as -> by (exact (NoDup_map_inj _ _ cf_uid l f f0 Hu Hf Hin E)).
      rewrite Hid. rewrite Z.eqb_refl. reflexivity.
    + destruct (cf_id f =? old) eqn:E2; [|reflexivity].
      apply Z.eqb_eq in E2.
      assert (f = f0) as -> by (apply (NoDup_map_inj _ _ cf_id l f f0 Hi Hf Hin); congruence).
      rewrite Z.eqb_refl in E. discriminate.
  - symmetry. rewrite <- (map_id l) at 2. apply map_ext_in. intros f Hf.
    rewrite (frame_with_id_none _ _ F f Hf). reflexivity.
Qed.

(* the code in /repo (ArbitrationId(int(old)) is an 11-bit identifier): a 29-bit frame is not found, a number above
   0x7FF aborts the conversion *)
Theorem change_frame_id_unfixed_refuted :
  (let m := mkCMatrix [ext_frame 5] 0 in
   frames_distinct m /\ frame_ids_unique m /\
   change_frame_id_unfixed (render_pairs [render_id_pair (5, 6)]) m = Some m /\
   change_frame_id (render_pairs [render_id_pair (5, 6)]) m = Some (mkCMatrix [ext_frame 6] 0)) /\
  (let m := mkCMatrix [ext_frame 2048] 0 in
   frames_distinct m /\ frame_ids_unique m /\
   change_frame_id_unfixed (render_pairs [render_id_pair (2048, 6)]) m = None /\
   change_frame_id (render_pairs [render_id_pair (2048, 6)]) m = Some (mkCMatrix [ext_frame 6] 0)).
Proof.
  split; cbv zeta; (split; [repeat constructor; cbn; intuition|]); (split; [repeat constructor; cbn; intuition|]);
    split; vm_compute; reflexivity.
Qed.

Lemma std_frame_with_id_all_std : forall i l,
  Forall (fun f => cf_ext f = false) l -> std_frame_with_id i l = frame_with_id i l.
Proof.
  intros i l H. induction l as [|x r IH]; [reflexivity|].
  inversion H as [|? ? Hx Hr]; subst. cbn [std_frame_with_id frame_with_id]. rewrite Hx. cbn [negb].
  rewrite Bool.andb_true_r. destruct (cf_id x =? i); [reflexivity|apply IH; exact Hr].
Qed.

Lemma land_2047_small : forall x, 0 <= x <= 2047 -> (x =? Z.land x 2047) = true.
Proof.
  intros x H. apply Z.eqb_eq. change 2047 with (Z.ones 11). rewrite Z.land_ones by lia.
  symmetry. apply Z.mod_small. change (2 ^ 11) with 2048. lia.
Qed.

Lemma upd_frame_keeps_std : forall u g l,
  (forall f, cf_ext (g f) = cf_ext f) -> Forall (fun f => cf_ext f = false) l -> Forall (fun f => cf_ext f = false) (upd_frame u g l).
Proof.
  intros u g l Hg H. unfold upd_frame. rewrite Forall_forall in *. intros f Hf. apply in_map_iff in Hf.
  destruct Hf as [x [<- Hx]]. destruct (cf_uid x =? u); [rewrite Hg|]; apply H; exact Hx.
Qed.

Lemma change_one_step_unfixed : forall l p,
  0 <= fst p <= 2047 -> Forall (fun f => cf_ext f = false) l ->
  change_one (fun old l => if old =? Z.land old 2047 then Some (std_frame_with_id old l) else None) (Some l) (render_id_pair p) =
  Some (change_step l p).
Proof.
  intros l p Hp Hl. unfold change_one, render_id_pair, change_step. cbn [fst snd]. rewrite int_parse_render.
  rewrite land_2047_small by exact Hp. rewrite std_frame_with_id_all_std by exact Hl.
  destruct (frame_with_id (fst p) l) as [f|]; [rewrite int_parse_render|]; reflexivity.
Qed.
Lemma change_step_keeps_std : forall l p, Forall (fun f => cf_ext f = false) l -> Forall (fun f => cf_ext f = false) (change_step l p).
Proof.
  intros l p Hl. unfold change_step. destruct (frame_with_id (fst p) l); [|exact Hl].
  apply upd_frame_keeps_std; [reflexivity|exact Hl].
Qed.
Lemma change_fold_unfixed : forall ps l,
  Forall (fun p => 0 <= fst p <= 2047) ps -> Forall (fun f => cf_ext f = false) l ->
  fold_left (change_one (fun old l => if old =? Z.land old 2047 then Some (std_frame_with_id old l) else None))
            (map render_id_pair ps) (Some l) =
  Some (fold_left change_step ps l).
Proof.
  induction ps as [|p r IH]; intros l Hp Hl; [reflexivity|].
  inversion Hp as [|? ? Hp0 Hpr]; subst.
  cbn [map fold_left]. rewrite change_one_step_unfixed by assumption. apply IH; [exact Hpr|].
  apply change_step_keeps_std. exact Hl.
Qed.

Theorem change_frame_id_unfixed_partial : forall ps m,
  ps <> [] -> Forall (fun p => 0 <= fst p <= 2047) ps -> Forall (fun f => cf_ext f = false) (cm_frames m) ->
  change_frame_id_unfixed (render_pairs (map render_id_pair ps)) m =
  Some (set_cframes m (fold_left change_step ps (cm_frames m))).
Proof.
  intros ps m Hne Hp Hs. unfold change_frame_id_unfixed, change_with. rewrite rename_tuple_parse.
  - rewrite change_fold_unfixed by assumption. reflexivity.
  - destruct ps; [congruence|discriminate].
  - rewrite Forall_forall. intros x Hx. apply in_map_iff in Hx. destruct Hx as [p [<- _]].
    split; apply render_int_plain.
Qed.

(* ---------- addFrameReceiver ---------- *)
Lemma fold_upd_sel : forall g sel l,
  (forall f, cf_uid (g f) = cf_uid f) -> NoDup (map cf_uid sel) ->
  fold_left (fun acc f => upd_frame (cf_uid f) g acc) sel l =
  map (fun f => if existsb (fun u => cf_uid f =? u) (map cf_uid sel) then g f else f) l.
Proof.
  intros g sel. induction sel as [|x r IH]; intros l Hg Hnd.
  - cbn [fold_left map existsb]. symmetry. apply map_id.
  - cbn [fold_left]. cbn [map] in Hnd. inversion Hnd as [|? ? Hx Hr]; subst.
    rewrite IH by assumption. unfold upd_frame. rewrite map_map. apply map_ext. intros f.
    cbn [map existsb]. destruct (cf_uid f =? cf_uid x) eqn:E; cbn [orb].
    + rewrite Hg. apply Z.eqb_eq in E. rewrite E.
      assert (existsb (fun u => cf_uid x =? u) (map cf_uid r) = false) as ->; [|reflexivity].
      apply Bool.not_true_is_false. intros H. apply existsb_exists in H. destruct H as [u [Hu Eu]].
      apply Z.eqb_eq in Eu. subst u. exact (Hx Hu).
    + reflexivity.
Qed.

Lemma NoDup_map_filter : forall (A B : Type) (h : A -> B) (p : A -> bool) l, NoDup (map h l) -> NoDup (map h (filter p l)).
Proof.
  intros A B h p l. induction l as [|x r IH]; intros H; [constructor|].
  cbn [map] in H. inversion H as [|? ? Hx Hr]; subst. cbn [filter]. destruct (p x); [|apply IH; exact Hr].
  cbn [map]. constructor; [|apply IH; exact Hr].
  intros Hin. apply Hx. apply in_map_iff in Hin. destruct Hin as [y [Ey Hy]]. apply filter_In in Hy.
  rewrite <- Ey. apply in_map. apply Hy.
Qed.

Lemma sel_by_uid : forall (p : cframe -> bool) l f,
  NoDup (map cf_uid l) -> In f l ->
  existsb (fun u => cf_uid f =? u) (map cf_uid (filter p l)) = p f.
Proof.
  intros p l f Hnd Hf. destruct (p f) eqn:E.
  - apply existsb_exists. exists (cf_uid f). split; [|apply Z.eqb_refl].
    apply in_map. apply filter_In. split; assumption.
  - apply Bool.not_true_is_false. intros H. apply existsb_exists in H. destruct H as [u [Hu Eu]].
    apply Z.eqb_eq in Eu. subst u. apply in_map_iff in Hu. destruct Hu as [y [Ey Hy]]. apply filter_In in Hy.
    destruct Hy as [Hy Py]. assert (y = f) by (exact (NoDup_map_inj _ _ cf_uid l y f Hnd Hy Hf Ey)). subst y. congruence.
Qed.

Lemma add_frame_receiver_one_spec : forall l p,
  NoDup (map cf_uid l) ->
  add_frame_receiver_one l p =
  map (fun f => if glob_match (fst p) (cf_name f) then add_receiver_frame (snd p) f else f) l.
Proof.
  intros l p Hnd. unfold add_frame_receiver_one. rewrite fold_upd_sel.
  - apply map_ext_in. intros f Hf. rewrite sel_by_uid by assumption. reflexivity.
  - intros f. reflexivity.
  - apply NoDup_map_filter. exact Hnd.
Qed.

Theorem add_frame_receiver_effect : forall pat ecu m,
  frames_distinct m -> plain_name pat -> plain_name ecu ->
  add_frame_receiver (render_pairs [(pat, ecu)]) m =
  Some (set_cframes m (map (fun f => if glob_match pat (cf_name f) then add_receiver_frame ecu f else f) (cm_frames m))).
Proof.
  intros pat ecu m Hd Hp He. unfold add_frame_receiver. rewrite rename_tuple_parse.
  - cbn [fold_left]. rewrite add_frame_receiver_one_spec by exact Hd. reflexivity.
  - discriminate.
  - constructor; [split; assumption|constructor].
Qed.

(* what the option does to one matching frame: every signal lists the ECU (once), nothing else about the signals changes,
   and the frame's receivers are the receivers of its signals, each once, in order of first appearance *)
Theorem add_receiver_frame_spec : forall ecu f,
  let f' := add_receiver_frame ecu f in
  cf_signals f' = map (fun s => sig_with_receivers s (EcuOps.add_name ecu (cs_receivers s))) (cf_signals f) /\
  cf_receivers f' = EcuOps.nub (flat_map cs_receivers (cf_signals f')) /\
  (forall s, In s (cf_signals f) -> In ecu (EcuOps.add_name ecu (cs_receivers s)) /\
                                     forall x, In x (EcuOps.add_name ecu (cs_receivers s)) <-> x = ecu \/ In x (cs_receivers s)) /\
  with_receivers f' (cf_signals f) (cf_receivers f) = f.
Proof.
  intros ecu f. cbv zeta. unfold add_receiver_frame. cbn [cf_signals cf_receivers with_receivers].
  split; [reflexivity|]. split; [apply C11_lists.dedup_nub|]. split.
  - intros s _. split; [apply C11_lists.in_add_name; left; reflexivity|]. intros x. apply C11_lists.in_add_name.
  - destruct f. reflexivity.
Qed.

Theorem add_frame_receiver_missing_colon : forall s m, no_char COLON s -> no_char COMMA s -> add_frame_receiver s m = None.
Proof.
  intros s m Hc Hm. unfold add_frame_receiver, parse_pairs. rewrite split_on_no_sep by exact Hm.
  cbn [parse_items]. rewrite pair_missing_colon_is_error by exact Hc. reflexivity.
Qed.

(* ---------- recalcDLC ---------- *)
Lemma name_eqb_false_of_neq : forall a b, a <> b -> name_eqb a b = false.
Proof. intros a b H. apply name_eqb_neq. exact H. Qed.

Theorem recalc_dlc_effect : forall m,
  recalc_dlc_c s_max m = Some (set_cframes m (map (fun f => with_size f (calc_dlc_c f)) (cm_frames m))) /\
  (no_containers m ->
   recalc_dlc_c s_force m = Some (set_cframes m (map (fun f => with_size f (max_byte_c (cf_signals f))) (cm_frames m)))) /\
  (forall a, a <> s_max -> a <> s_force -> recalc_dlc_c a m = Some m).
Proof.
  intros m. split; [reflexivity|]. split.
  - intros Hc. unfold recalc_dlc_c. change (name_eqb s_force s_max) with false. rewrite name_eqb_refl.
    assert (existsb is_container (cm_frames m) = false) as ->; [|reflexivity].
    apply Bool.not_true_is_false. intros H. apply existsb_exists in H. destruct H as [f [Hf Hcf]].
    unfold no_containers in Hc. rewrite Forall_forall in Hc. unfold is_container in Hcf. rewrite (Hc f Hf) in Hcf. discriminate.
  - intros a H1 H2. unfold recalc_dlc_c. rewrite (name_eqb_false_of_neq _ _ H1). rewrite (name_eqb_false_of_neq _ _ H2).
    reflexivity.
Qed.

(* for a plain frame these are Layout's recalc_frame: C16_calc_dlc_never_shrinks / C16_recalc_force_is_minimal apply *)
Theorem recalc_matches_layout : forall f,
  cf_pdus f = [] ->
  calc_dlc_c f = Layout.recalc_frame 0 (cf_size f) (map to_codec (cf_signals f)) /\
  max_byte_c (cf_signals f) = Layout.recalc_frame 1 (cf_size f) (map to_codec (cf_signals f)).
Proof.
  intros f Hp. unfold calc_dlc_c, pdu_extra, is_container. rewrite Hp. split; reflexivity.
Qed.

(* ---------- PDU containers ---------- *)
Theorem pdu_ignore_effect : forall m,
  frames_distinct m ->
  pdu_stage true m = set_cframes m (filter (fun f => negb (is_container f)) (cm_frames m)).
Proof. intros m Hd. unfold pdu_stage. rewrite fold_remove_frames by exact Hd. reflexivity. Qed.

Lemma remove_frame_uid_left : forall u A B,
  In u (map cf_uid A) -> remove_frame_uid u (A ++ B) = remove_frame_uid u A ++ B.
Proof.
  intros u A B. induction A as [|x r IH]; intros H; [destruct H|].
  cbn [app remove_frame_uid]. destruct (cf_uid x =? u) eqn:E; [reflexivity|].
  cbn [app]. f_equal. apply IH. cbn [map] in H. destruct H as [H|H]; [apply Z.eqb_neq in E; congruence|exact H].
Qed.
Lemma remove_frame_uid_keeps_other : forall u v A,
  u <> v -> In v (map cf_uid A) -> In v (map cf_uid (remove_frame_uid u A)).
Proof.
  intros u v A Hne. induction A as [|x r IH]; intros H; [destruct H|].
  cbn [remove_frame_uid]. cbn [map] in H. destruct (cf_uid x =? u) eqn:E.
  - apply Z.eqb_eq in E. destruct H as [H|H]; [congruence|exact H].
  - cbn [map]. destruct H as [H|H]; [left; exact H|right; apply IH; exact H].
Qed.

Lemma pdu_fold : forall (g : cframe -> cframe) cs A B,
  NoDup (map cf_uid cs) -> (forall f, In f cs -> In (cf_uid f) (map cf_uid A)) ->
  fold_left (fun live f => remove_frame_uid (cf_uid f) live ++ [g f]) cs (A ++ B) =
  fold_left (fun live f => remove_frame_uid (cf_uid f) live) cs A ++ B ++ map g cs.
Proof.
  intros g cs. induction cs as [|f r IH]; intros A B Hnd Hin.
  - cbn [fold_left map]. rewrite app_nil_r. reflexivity.
  - cbn [fold_left map]. cbn [map] in Hnd. inversion Hnd as [|? ? Hf Hr]; subst.
    rewrite remove_frame_uid_left by (apply Hin; left; reflexivity).
    rewrite <- app_assoc. rewrite IH.
    + rewrite <- app_assoc. reflexivity.
    + exact Hr.
    + intros f' Hf'. apply remove_frame_uid_keeps_other; [|apply Hin; right; exact Hf'].
      intros E. apply Hf. rewrite E. apply in_map. exact Hf'.
Qed.

Theorem pdu_default_effect : forall m,
  frames_distinct m ->
  pdu_stage false m =
  set_cframes m (filter (fun f => negb (is_container f)) (cm_frames m) ++
                 map pdu_to_multiplexed (filter is_container (cm_frames m))).
Proof.
  intros m Hd. unfold pdu_stage. f_equal.
  rewrite <- (app_nil_r (cm_frames m)) at 2. rewrite pdu_fold.
  - rewrite fold_remove_frames by exact Hd. reflexivity.
  - apply NoDup_map_filter. exact Hd.
  - intros f Hf. apply in_map. apply filter_In in Hf. apply Hf.
Qed.

Theorem pdu_stage_no_containers : forall b m, no_containers m -> pdu_stage b m = m.
Proof.
  intros b m Hc. unfold pdu_stage.
  assert (filter is_container (cm_frames m) = []) as ->.
  { unfold no_containers in Hc. induction (cm_frames m) as [|x r IH]; [reflexivity|].
    inversion Hc as [|? ? Hx Hr]; subst. cbn [filter]. unfold is_container at 1. rewrite Hx. apply IH. exact Hr. }
  destruct b; cbn [fold_left]; apply set_cframes_same.
Qed.

(* what the rewrite makes of one container frame *)
Lemma pdu_steps_signals : forall off ps sigs groups n,
  fst (fst (fold_left (pdu_step off) ps (sigs, groups, n))) = sigs ++ flat_map (pdu_moved off) ps /\
  length (snd (fst (fold_left (pdu_step off) ps (sigs, groups, n)))) = (length groups + length ps)%nat.
Proof.
  intros off ps. induction ps as [|p r IH]; intros sigs groups n.
  - cbn [fold_left flat_map fst snd length]. rewrite app_nil_r. split; [reflexivity|lia].
  - cbn [fold_left flat_map]. unfold pdu_step at 2. unfold pdu_step at 3. cbv zeta.
    match goal with |- context [fold_left (pdu_step off) r (?a, ?b, ?c)] => destruct (IH a b c) as [I1 I2] end.
    split.
    + rewrite I1. rewrite <- app_assoc. reflexivity.
    + rewrite I2. rewrite app_length. cbn [length]. lia.
Qed.

Theorem pdu_rewrite_frame_effect : forall f,
  (is_container f = false -> pdu_to_multiplexed f = f) /\
  (is_container f = true ->
   let f' := pdu_to_multiplexed f in
   cf_signals f' = header_marked f ++ flat_map (pdu_moved (header_offset f)) (cf_pdus f) /\
   cf_pdus f' = [] /\ length (cf_groups f') = (length (cf_groups f) + length (cf_pdus f))%nat /\
   cf_uid f' = cf_uid f /\ cf_name f' = cf_name f /\ cf_id f' = cf_id f /\ cf_ext f' = cf_ext f /\ cf_size f' = cf_size f /\
   cf_fd f' = cf_fd f /\ cf_attrs f' = cf_attrs f /\ cf_receivers f' = cf_receivers f /\ cf_pay f' = cf_pay f).
Proof.
  intros f. split; intros Hc; unfold pdu_to_multiplexed; rewrite Hc; [reflexivity|].
  cbv zeta. unfold header_marked, header_offset.
  destruct (signal_named s_header_id (cf_signals f)) as [a|]; [destruct (signal_named s_header_dlc (cf_signals f)) as [b|]|].
  all: match goal with |- context [fold_left (pdu_step ?off) ?ps (?a, ?b, ?c)] =>
         destruct (pdu_steps_signals off ps a b c) as [I1 I2];
         destruct (fold_left (pdu_step off) ps (a, b, c)) as [[sg gr] k] end;
       cbn [fst snd] in I1, I2; cbn [cf_signals cf_pdus cf_groups cf_uid cf_name cf_id cf_ext cf_size cf_fd cf_attrs cf_receivers cf_pay];
       repeat split; assumption.
Qed.

(* marking the multiplexer touches only the first signal called Header_ID, and only its multiplexer flag *)
Lemma mark_first_named_spec : forall n l,
  map cs_name (mark_first_named n l) = map cs_name l /\ map cs_start (mark_first_named n l) = map cs_start l /\
  map cs_size (mark_first_named n l) = map cs_size l /\ map cs_uid (mark_first_named n l) = map cs_uid l.
Proof.
  intros n l. induction l as [|s r IH]; [repeat split|].
  cbn [mark_first_named]. destruct (name_eqb (cs_name s) n); cbn [map]; [repeat split; reflexivity|].
  destruct IH as [I1 [I2 [I3 I4]]]. repeat split; f_equal; assumption.
Qed.
