(* C05: the statement-level round trip of model/FmtDbc.v (section 8): dbc_read (dbc_write m) = (m, 0, 0). *)
From CM Require Import lib.Prelude model.Startbit model.ArbId model.FmtDbc proofs.ArbId_proofs proofs.C05_mech.

(* ------------------------------------------------------------------------------------------------------------ *)
(* generic list facts *)
Lemma find_last_none {A} (p : A -> bool) l : (forall y, In y l -> p y = false) -> find_last_idx p l = None.
Proof.
  induction l as [|x l IH]; intros H; [reflexivity|]. cbn [find_last_idx].
  rewrite IH by (intros y Hy; apply H; right; exact Hy). rewrite (H x) by (left; reflexivity). reflexivity.
Qed.

Lemma find_last_mid {A} (p : A -> bool) l1 x l2 :
  p x = true -> (forall y, In y l2 -> p y = false) -> find_last_idx p (l1 ++ x :: l2) = Some (length l1).
Proof.
  intros Hx H2. induction l1 as [|y l1 IH]; cbn [app find_last_idx length].
  - rewrite (find_last_none p l2 H2), Hx. reflexivity.
  - rewrite IH. reflexivity.
Qed.

Lemma find_first_mid {A} (p : A -> bool) l1 x l2 :
  p x = true -> (forall y, In y l1 -> p y = false) -> find_first_idx p (l1 ++ x :: l2) = Some (length l1).
Proof.
  intros Hx. induction l1 as [|y l1 IH]; intros H1; cbn [app find_first_idx length].
  - rewrite Hx. reflexivity.
  - rewrite (H1 y) by (left; reflexivity). rewrite IH by (intros z Hz; apply H1; right; exact Hz). reflexivity.
Qed.

Lemma upd_nth_mid {A} (g : A -> A) l1 x l2 : upd_nth (length l1) g (l1 ++ x :: l2) = l1 ++ g x :: l2.
Proof. induction l1 as [|y l1 IH]; cbn [app length upd_nth]; [reflexivity|]. rewrite IH. reflexivity. Qed.

Lemma nth_error_mid {A} (l1 : list A) x l2 : nth_error (l1 ++ x :: l2) (length l1) = Some x.
Proof. induction l1 as [|y l1 IH]; cbn; [reflexivity|exact IH]. Qed.

Lemma fold_left_flat_map {A B C} (f : A -> B -> A) (g : C -> list B) l a :
  fold_left f (flat_map g l) a = fold_left (fun a x => fold_left f (g x) a) l a.
Proof.
  revert a. induction l as [|x l IH]; intros a; cbn [flat_map fold_left]; [reflexivity|].
  rewrite fold_left_app. apply IH.
Qed.

(* association lists *)
Lemma assoc_set_fresh {K V} (eqb : K -> K -> bool) k (v : V) l :
  (forall a b, eqb a b = true -> a = b) -> ~ In k (map fst l) -> assoc_set eqb k v l = l ++ [(k, v)].
Proof.
  intros Hspec. induction l as [|[k' v'] l IH]; intros Hn; cbn [assoc_set app]; [reflexivity|].
  destruct (eqb k' k) eqn:E.
  - apply Hspec in E. subst. exfalso. apply Hn. left. reflexivity.
  - rewrite IH; [reflexivity|]. intros H. apply Hn. right. exact H.
Qed.

Lemma assoc_build {K V} (eqb : K -> K -> bool) (r : list (K * V)) :
  (forall a b, eqb a b = true -> a = b) ->
  forall acc, NoDup (map fst (acc ++ r)) ->
  fold_left (fun acc kv => assoc_set eqb (fst kv) (snd kv) acc) r acc = acc ++ r.
Proof.
  intros Hspec. induction r as [|[k v] r IH]; intros acc Hnd; cbn [fold_left fst snd].
  - rewrite app_nil_r. reflexivity.
  - rewrite assoc_set_fresh; [|exact Hspec|].
    + rewrite IH; rewrite <- app_assoc; [reflexivity|exact Hnd].
    + rewrite map_app in Hnd. cbn [map fst] in Hnd. apply NoDup_remove_2 in Hnd.
      intros H. apply Hnd. apply in_or_app. left. exact H.
Qed.

Lemma zeqb_spec a b : (a =? b) = true -> a = b.
Proof. apply Z.eqb_eq. Qed.
Lemma teqb_spec a b : text_eqb a b = true -> a = b.
Proof. apply text_eqb_eq. Qed.

Lemma rows_build (r : rows) : keys_nodup r ->
  fold_left (fun acc kv => assoc_set Z.eqb (fst kv) (snd kv) acc) r [] = r.
Proof. intros H. apply (assoc_build Z.eqb r zeqb_spec []). exact H. Qed.

Lemma arbid_eqb_eq a b : arbid_eqb a b = true <-> a = b.
Proof.
  destruct a as [i e], b as [j f]. unfold arbid_eqb. cbn [fst snd]. split.
  - intros H. apply andb_true_iff in H. destruct H as [H1 H2]. apply Z.eqb_eq in H1. apply eqb_prop in H2.
    subst. reflexivity.
  - intros H. injection H as -> ->. rewrite Z.eqb_refl, eqb_reflx. reflexivity.
Qed.
Lemma arbid_eqb_neq a b : a <> b -> arbid_eqb a b = false.
Proof. intros H. destruct (arbid_eqb a b) eqn:E; [|reflexivity]. apply arbid_eqb_eq in E. contradiction. Qed.

(* add_unique *)
Lemma existsb_text x l : existsb (text_eqb x) l = true <-> In x l.
Proof.
  rewrite existsb_exists. split.
  - intros [y [Hy E]]. apply text_eqb_eq in E. subst. exact Hy.
  - intros H. exists x. split; [exact H|apply text_eqb_refl].
Qed.
Lemma add_unique_in x l : In x l -> add_unique x l = l.
Proof. intros H. unfold add_unique. apply existsb_text in H. rewrite H. reflexivity. Qed.
Lemma add_unique_fresh x l : ~ In x l -> add_unique x l = l ++ [x].
Proof.
  intros H. unfold add_unique. destruct (existsb (text_eqb x) l) eqn:E; [|reflexivity].
  apply existsb_text in E. contradiction.
Qed.
Lemma add_unique_all l : forall acc, NoDup (acc ++ l) ->
  fold_left (fun acc t => add_unique t acc) l acc = acc ++ l.
Proof.
  induction l as [|x l IH]; intros acc Hnd; cbn [fold_left]; [rewrite app_nil_r; reflexivity|].
  rewrite add_unique_fresh.
  - rewrite IH; rewrite <- app_assoc; [reflexivity|exact Hnd].
  - apply NoDup_remove_2 in Hnd. intros H. apply Hnd. apply in_or_app. left. exact H.
Qed.

(* ------------------------------------------------------------------------------------------------------------ *)
(* the intermediate shapes of a frame while its statements are read *)
Definition sigC (s : signal) : signal :=
  mkSig (s_name s) (s_start s) (s_size s) (s_le s) (s_signed s) false (s_factor s) (s_offset s) (s_min s) (s_max s)
        (s_unit s) (fill (s_receivers s)) (s_mux s) [].
Definition sigE (s : signal) : signal :=
  mkSig (s_name s) (s_start s) (s_size s) (s_le s) (s_signed s) false (s_factor s) (s_offset s) (s_min s) (s_max s)
        (s_unit s) (fill (s_receivers s)) (s_mux s) (s_values s).
Definition sigF (s : signal) : signal :=
  mkSig (s_name s) (s_start s) (s_size s) (s_le s) (s_signed s) (s_float s) (s_factor s) (s_offset s) (s_min s) (s_max s)
        (s_unit s) (fill (s_receivers s)) (s_mux s) (s_values s).
Definition frC (f : frame) : frame :=
  mkFrame (f_id f) (f_name f) (f_size f) [hd vector_xxx (fill (f_tx f))] (map sigC (f_sigs f)).
Definition frD (f : frame) : frame := mkFrame (f_id f) (f_name f) (f_size f) (fill (f_tx f)) (map sigC (f_sigs f)).
Definition frE (f : frame) : frame := mkFrame (f_id f) (f_name f) (f_size f) (fill (f_tx f)) (map sigE (f_sigs f)).
Definition frF (f : frame) : frame := mkFrame (f_id f) (f_name f) (f_size f) (fill (f_tx f)) (map sigF (f_sigs f)).

(* ------------------------------------------------------------------------------------------------------------ *)
(* phase A/B: BU_, VAL_TABLE_ *)
Lemma filter_long_names ecus :
  Forall (fun n => (2 <= length n)%nat) ecus -> filter (fun n : text => (1 <? length n)%nat) ecus = ecus.
Proof.
  induction 1 as [|x l Hx Hl IH]; cbn [filter]; [reflexivity|].
  replace (1 <? length x)%nat with true by (symmetry; apply Nat.ltb_lt; lia). rewrite IH. reflexivity.
Qed.

Lemma read_vtabs todo : forall st,
  NoDup (map fst (rs_vtabs st ++ todo)) -> Forall (fun t => keys_nodup (snd t)) todo ->
  fold_left r_stmt (map (fun t => St_VAL_TABLE (fst t) (snd t)) todo) st
  = mkRS (rs_ecus st) (rs_vtabs st ++ todo) (rs_frames st) (rs_cur st) (rs_err st) (rs_log st).
Proof.
  induction todo as [|[n r] todo IH]; intros st Hnd Hk.
  - cbn. rewrite app_nil_r. destruct st; reflexivity.
  - cbn [map fold_left fst snd]. inversion Hk as [|t l Hr Hrest]; subst. cbn [snd] in Hr.
    rewrite IH.
    + cbn [r_stmt rs_ecus rs_vtabs rs_frames rs_cur rs_err rs_log]. rewrite (rows_build r Hr).
      rewrite assoc_set_fresh.
      * rewrite <- app_assoc. reflexivity.
      * exact teqb_spec.
      * rewrite map_app in Hnd. cbn [map fst] in Hnd. apply NoDup_remove_2 in Hnd.
        intros H. apply Hnd. apply in_or_app. left. exact H.
    + cbn [r_stmt rs_vtabs]. rewrite (rows_build r Hr). rewrite assoc_set_fresh.
      * rewrite <- app_assoc. exact Hnd.
      * exact teqb_spec.
      * rewrite map_app in Hnd. cbn [map fst] in Hnd. apply NoDup_remove_2 in Hnd.
        intros H. apply Hnd. apply in_or_app. left. exact H.
    + exact Hrest.
Qed.

(* ------------------------------------------------------------------------------------------------------------ *)
(* phase C: BO_ + SG_ *)
Lemma w_sigs_map l : forall written : bool,
  (length (filter (fun s => is_M (s_mux s)) l) + (if written then 1 else 0) <= 1)%nat ->
  w_sigs written l = map w_sig l.
Proof.
  induction l as [|s l IH]; intros written H; cbn [w_sigs map]; [reflexivity|].
  cbn [filter] in H. destruct (is_M (s_mux s)) eqn:EM.
  - cbn [length] in H. destruct written; [lia|]. cbn [andb orb]. f_equal. apply IH. lia.
  - cbn [andb]. rewrite orb_false_r. f_equal. apply IH. exact H.
Qed.

Lemma read_sigs sigs : forall st fs a nm sz tx pre,
  rs_frames st = fs ++ [mkFrame a nm sz tx pre] -> rs_cur st = Some (length fs) ->
  Forall (fun s => 0 <= s_start s) sigs ->
  fold_left r_stmt (map w_sig sigs) st
  = mkRS (rs_ecus st) (rs_vtabs st) (fs ++ [mkFrame a nm sz tx (pre ++ map sigC sigs)]) (Some (length fs)) (rs_err st) (rs_log st).
Proof.
  induction sigs as [|s sigs IH]; intros st fs a nm sz tx pre Hf Hc Hs.
  - cbn. rewrite app_nil_r, <- Hf, <- Hc. destruct st; reflexivity.
  - inversion Hs as [|s' l Hs0 Hrest]; subst. cbn [map fold_left].
    assert (Hstep : r_stmt st (w_sig s)
                    = mkRS (rs_ecus st) (rs_vtabs st) (fs ++ [mkFrame a nm sz tx (pre ++ [sigC s])]) (Some (length fs)) (rs_err st) (rs_log st)).
    { unfold w_sig. cbn [r_stmt]. unfold set_frames. rewrite Hc, startbit_roundtrip by exact Hs0.
      rewrite Hf, upd_nth_mid. cbn [f_id f_name f_size f_tx f_sigs]. reflexivity. }
    rewrite Hstep. rewrite (IH _ fs a nm sz tx (pre ++ [sigC s])); cbn [rs_frames rs_cur rs_ecus rs_vtabs rs_err rs_log].
    + rewrite <- app_assoc. reflexivity.
    + reflexivity.
    + reflexivity.
    + exact Hrest.
Qed.

Definition frame_core_ok (f : frame) : Prop :=
  (valid_ext (f_id f) \/ valid_std (f_id f)) /\ at_most_one_M (f_sigs f) /\ Forall (fun s => 0 <= s_start s) (f_sigs f).

Lemma read_frame f st :
  frame_core_ok f ->
  fold_left r_stmt (w_frame f) st
  = mkRS (rs_ecus st) (rs_vtabs st) (rs_frames st ++ [frC f]) (Some (length (rs_frames st))) (rs_err st) (rs_log st).
Proof.
  intros [Hid [HM Hs]]. unfold w_frame. cbn [fold_left]. rewrite (w_sigs_map (f_sigs f) false) by (unfold at_most_one_M in HM; lia).
  cbn [r_stmt]. rewrite (id_roundtrip (f_id f) Hid).
  rewrite (read_sigs (f_sigs f) _ (rs_frames st) (f_id f) (f_name f) (f_size f) [hd vector_xxx (fill (f_tx f))] []);
    cbn [rs_frames rs_cur rs_ecus rs_vtabs rs_err rs_log]; try reflexivity. exact Hs.
Qed.

Lemma read_frames fs : forall st,
  Forall frame_core_ok fs ->
  exists c, fold_left r_stmt (flat_map w_frame fs) st
            = mkRS (rs_ecus st) (rs_vtabs st) (rs_frames st ++ map frC fs) c (rs_err st) (rs_log st).
Proof.
  induction fs as [|f fs IH]; intros st H.
  - exists (rs_cur st). cbn. rewrite app_nil_r. destruct st; reflexivity.
  - inversion H as [|f' l Hf Hrest]; subst. cbn [flat_map]. rewrite fold_left_app, (read_frame f st Hf).
    destruct (IH (mkRS (rs_ecus st) (rs_vtabs st) (rs_frames st ++ [frC f]) (Some (length (rs_frames st))) (rs_err st) (rs_log st)) Hrest)
      as [c Hc].
    exists c. rewrite Hc. cbn [rs_frames rs_cur rs_ecus rs_vtabs rs_err rs_log map]. rewrite <- app_assoc. reflexivity.
Qed.

(* ------------------------------------------------------------------------------------------------------------ *)
(* phases D-F: statements that address a frame by its identifier; generic induction over the frames *)
Lemma phase (ph : frame -> list stmt) (h U : frame -> frame) (Q : frame -> Prop) :
  (forall f, f_id (h f) = f_id f) -> (forall f, f_id (U f) = f_id f) ->
  (forall f L1 L2 st, Q f -> rs_frames st = L1 ++ h f :: L2 ->
     (forall y, In y L2 -> f_id y <> f_id f) ->
     exists c, fold_left r_stmt (ph f) st = mkRS (rs_ecus st) (rs_vtabs st) (L1 ++ U f :: L2) c (rs_err st) (rs_log st)) ->
  forall todo done st, NoDup (map f_id (done ++ todo)) -> Forall Q todo ->
    rs_frames st = map U done ++ map h todo ->
    exists c, fold_left r_stmt (flat_map ph todo) st
              = mkRS (rs_ecus st) (rs_vtabs st) (map U (done ++ todo)) c (rs_err st) (rs_log st).
Proof.
  intros Hh HU Hstep. induction todo as [|f todo IH]; intros done st Hnd HQ Hfr.
  - exists (rs_cur st). cbn [flat_map fold_left]. cbn [map] in Hfr. rewrite app_nil_r in *. rewrite <- Hfr.
    destruct st; reflexivity.
  - inversion HQ as [|f' l HQf HQrest]; subst. cbn [flat_map]. rewrite fold_left_app.
    cbn [map] in Hfr.
    destruct (Hstep f (map U done) (map h todo) st HQf Hfr) as [c1 Hc1].
    { intros y Hy. apply in_map_iff in Hy. destruct Hy as [d [<- Hd]]. rewrite Hh.
      rewrite map_app in Hnd. cbn [map] in Hnd. apply NoDup_remove_2 in Hnd.
      intros E. apply Hnd. apply in_or_app. right. rewrite <- E. apply in_map. exact Hd. }
    rewrite Hc1.
    assert (Hnd' : NoDup (map f_id ((done ++ [f]) ++ todo))) by (rewrite <- app_assoc; exact Hnd).
    destruct (IH (done ++ [f]) (mkRS (rs_ecus st) (rs_vtabs st) (map U done ++ U f :: map h todo) c1 (rs_err st) (rs_log st)) Hnd' HQrest)
      as [c2 Hc2].
    { cbn [rs_frames]. rewrite map_app. cbn [map]. rewrite <- app_assoc. reflexivity. }
    exists c2. rewrite Hc2. cbn [rs_ecus rs_vtabs rs_err rs_log]. rewrite <- app_assoc. reflexivity.
Qed.

Lemma fill_nonempty l : fill l <> [].
Proof. destruct l; cbn; discriminate. Qed.
Lemma fill_nodup l : NoDup l -> NoDup (fill l).
Proof. intros H. destruct l; cbn; [constructor; [intros []|constructor]|exact H]. Qed.

Lemma add_tx_all l : NoDup l -> l <> [] ->
  fold_left (fun acc t => add_unique t acc) l [hd vector_xxx l] = l.
Proof.
  intros Hnd Hne. destruct l as [|x r]; [contradiction|]. cbn [hd fold_left].
  rewrite add_unique_in by (left; reflexivity). apply (add_unique_all r [x]). exact Hnd.
Qed.

Definition Q_tx (f : frame) : Prop := (valid_ext (f_id f) \/ valid_std (f_id f)) /\ NoDup (f_tx f).

Lemma step_tx f L1 L2 st :
  Q_tx f -> rs_frames st = L1 ++ frC f :: L2 -> (forall y, In y L2 -> f_id y <> f_id f) ->
  exists c, fold_left r_stmt (w_tx f) st = mkRS (rs_ecus st) (rs_vtabs st) (L1 ++ frD f :: L2) c (rs_err st) (rs_log st).
Proof.
  intros [Hid Hnd] Hfr H2. unfold w_tx. destruct (1 <? length (fill (f_tx f)))%nat eqn:E.
  - eexists. cbn [fold_left r_stmt]. rewrite (id_roundtrip (f_id f) Hid). unfold frame_idx_by_id.
    rewrite Hfr, find_last_mid.
    + unfold set_cur, set_frames. cbn [rs_ecus rs_vtabs rs_frames rs_cur rs_err rs_log]. rewrite upd_nth_mid.
      unfold frC, frD. cbn [f_id f_name f_size f_tx f_sigs].
      rewrite (add_tx_all (fill (f_tx f)) (fill_nodup _ Hnd) (fill_nonempty _)). reflexivity.
    + cbn [frC f_id]. apply arbid_eqb_eq. reflexivity.
    + intros y Hy. apply arbid_eqb_neq. apply H2. exact Hy.
  - exists (rs_cur st). cbn [fold_left]. apply Nat.ltb_ge in E.
    assert (Heq : frC f = frD f).
    { unfold frC, frD. f_equal. pose proof (fill_nonempty (f_tx f)) as Hne.
      destruct (fill (f_tx f)) as [|x [|y r]]; [contradiction|reflexivity|cbn in E; lia]. }
    rewrite <- Heq, <- Hfr. destruct st; reflexivity.
Qed.

(* signals addressed by (identifier, name) inside one frame *)
Lemma sig_name_neq (g : signal -> signal) done s :
  (forall x, s_name (g x) = s_name x) -> ~ In (s_name s) (map s_name done) ->
  forall y, In y (map g done) -> text_eqb (s_name y) (s_name s) = false.
Proof.
  intros Hg Hn y Hy. apply in_map_iff in Hy. destruct Hy as [d [<- Hd]]. rewrite Hg. apply text_eqb_neq.
  intros E. apply Hn. rewrite <- E. apply in_map. exact Hd.
Qed.

Lemma step_vals_sigs cid a nm sz tx L1 L2 : forall todo done st,
  dbc_read_id cid = Some a -> (forall y, In y L2 -> f_id y <> a) ->
  rs_frames st = L1 ++ mkFrame a nm sz tx (map sigE done ++ map sigC todo) :: L2 ->
  NoDup (map s_name (done ++ todo)) -> Forall (fun s => keys_nodup (s_values s)) todo ->
  exists c, fold_left r_stmt (flat_map (fun s => match s_values s with [] => [] | v => [St_VAL cid (s_name s) v] end) todo) st
            = mkRS (rs_ecus st) (rs_vtabs st) (L1 ++ mkFrame a nm sz tx (map sigE (done ++ todo)) :: L2) c (rs_err st) (rs_log st).
Proof.
  induction todo as [|s todo IH]; intros done st Hcid H2 Hfr Hnd Hk.
  - exists (rs_cur st). cbn [flat_map fold_left]. cbn [map] in Hfr. rewrite app_nil_r in *. rewrite <- Hfr.
    destruct st; reflexivity.
  - inversion Hk as [|s' l Hks Hkrest]; subst. cbn [flat_map]. rewrite fold_left_app.
    assert (Hnd' : NoDup (map s_name ((done ++ [s]) ++ todo))) by (rewrite <- app_assoc; exact Hnd).
    assert (Hfresh : ~ In (s_name s) (map s_name done)).
    { rewrite map_app in Hnd. cbn [map] in Hnd. apply NoDup_remove_2 in Hnd. intros H. apply Hnd.
      apply in_or_app. left. exact H. }
    assert (Hstep : exists c1, fold_left r_stmt (match s_values s with [] => [] | v => [St_VAL cid (s_name s) v] end) st
              = mkRS (rs_ecus st) (rs_vtabs st)
                     (L1 ++ mkFrame a nm sz tx (map sigE (done ++ [s]) ++ map sigC todo) :: L2) c1 (rs_err st) (rs_log st)).
    { destruct (s_values s) as [|kv v] eqn:Ev.
      - exists (rs_cur st). cbn [fold_left]. rewrite map_app. cbn [map]. rewrite <- app_assoc. cbn [app].
        assert (HE : sigE s = sigC s) by (unfold sigE, sigC; rewrite Ev; reflexivity).
        rewrite HE. cbn [map] in Hfr. rewrite <- Hfr. destruct st; reflexivity.
      - eexists. cbn [fold_left]. cbn [r_stmt]. rewrite Hcid. unfold frame_idx_by_id. rewrite Hfr, find_last_mid.
        + unfold set_cur, set_frames. cbn [rs_ecus rs_vtabs rs_frames rs_cur rs_err rs_log]. rewrite upd_nth_mid.
          cbn [f_id f_name f_size f_tx f_sigs map]. unfold sig_idx_by_name. rewrite find_first_mid.
          * rewrite upd_nth_mid. rewrite map_app. cbn [map]. rewrite <- app_assoc. cbn [app].
            unfold sigC, sigE. cbn [s_name s_start s_size s_le s_signed s_float s_factor s_offset s_min s_max s_unit
                                   s_receivers s_mux s_values].
            rewrite <- Ev in *. rewrite (rows_build (s_values s) Hks). reflexivity.
          * cbn [sigC s_name]. apply text_eqb_refl.
          * apply sig_name_neq; [reflexivity|exact Hfresh].
        + cbn [f_id]. apply arbid_eqb_eq. reflexivity.
        + intros y Hy. apply arbid_eqb_neq. apply H2. exact Hy. }
    destruct Hstep as [c1 Hc1]. rewrite Hc1.
    destruct (IH (done ++ [s]) (mkRS (rs_ecus st) (rs_vtabs st)
                     (L1 ++ mkFrame a nm sz tx (map sigE (done ++ [s]) ++ map sigC todo) :: L2) c1 (rs_err st) (rs_log st))
                 Hcid H2 eq_refl Hnd' Hkrest) as [c2 Hc2].
    exists c2. rewrite Hc2. cbn [rs_ecus rs_vtabs rs_err rs_log]. rewrite <- app_assoc. reflexivity.
Qed.

Definition Q_vals (f : frame) : Prop :=
  (valid_ext (f_id f) \/ valid_std (f_id f)) /\ NoDup (map s_name (f_sigs f)) /\
  Forall (fun s => keys_nodup (s_values s)) (f_sigs f).

Lemma step_vals f L1 L2 st :
  Q_vals f -> rs_frames st = L1 ++ frD f :: L2 -> (forall y, In y L2 -> f_id y <> f_id f) ->
  exists c, fold_left r_stmt (w_vals f) st = mkRS (rs_ecus st) (rs_vtabs st) (L1 ++ frE f :: L2) c (rs_err st) (rs_log st).
Proof.
  intros [Hid [Hnd Hk]] Hfr H2. unfold w_vals, frE.
  apply (step_vals_sigs (dbc_write_id (f_id f)) (f_id f) (f_name f) (f_size f) (fill (f_tx f)) L1 L2 (f_sigs f) [] st).
  - apply id_roundtrip. exact Hid.
  - exact H2.
  - exact Hfr.
  - exact Hnd.
  - exact Hk.
Qed.

Lemma step_valtypes_sigs cid a nm sz tx L1 L2 : forall todo done st,
  dbc_read_id cid = Some a -> (forall y, In y L2 -> f_id y <> a) ->
  rs_frames st = L1 ++ mkFrame a nm sz tx (map sigF done ++ map sigE todo) :: L2 ->
  NoDup (map s_name (done ++ todo)) ->
  exists c, fold_left r_stmt (flat_map (fun s => if s_float s then [St_SIG_VALTYPE cid (s_name s) (if 32 <? s_size s then 2 else 1)]
                                                 else []) todo) st
            = mkRS (rs_ecus st) (rs_vtabs st) (L1 ++ mkFrame a nm sz tx (map sigF (done ++ todo)) :: L2) c (rs_err st) (rs_log st).
Proof.
  induction todo as [|s todo IH]; intros done st Hcid H2 Hfr Hnd.
  - exists (rs_cur st). cbn [flat_map fold_left]. cbn [map] in Hfr. rewrite app_nil_r in *. rewrite <- Hfr.
    destruct st; reflexivity.
  - cbn [flat_map]. rewrite fold_left_app.
    assert (Hnd' : NoDup (map s_name ((done ++ [s]) ++ todo))) by (rewrite <- app_assoc; exact Hnd).
    assert (Hfresh : ~ In (s_name s) (map s_name done)).
    { rewrite map_app in Hnd. cbn [map] in Hnd. apply NoDup_remove_2 in Hnd. intros H. apply Hnd.
      apply in_or_app. left. exact H. }
    assert (Hstep : exists c1, fold_left r_stmt (if s_float s then [St_SIG_VALTYPE cid (s_name s) (if 32 <? s_size s then 2 else 1)] else []) st
              = mkRS (rs_ecus st) (rs_vtabs st)
                     (L1 ++ mkFrame a nm sz tx (map sigF (done ++ [s]) ++ map sigE todo) :: L2) c1 (rs_err st) (rs_log st)).
    { destruct (s_float s) eqn:Ef.
      - eexists. cbn [fold_left r_stmt]. rewrite Hcid. unfold frame_idx_by_id. rewrite Hfr, find_last_mid.
        + rewrite nth_error_mid. cbn [f_sigs map]. unfold sig_idx_by_name. rewrite find_first_mid.
          * unfold set_cur, set_frames. cbn [rs_ecus rs_vtabs rs_frames rs_cur rs_err rs_log]. rewrite upd_nth_mid.
            cbn [f_id f_name f_size f_tx f_sigs]. rewrite upd_nth_mid. rewrite map_app. cbn [map]. rewrite <- app_assoc. cbn [app].
            unfold sigE, sigF. cbn [s_name s_start s_size s_le s_signed s_float s_factor s_offset s_min s_max s_unit
                                   s_receivers s_mux s_values]. rewrite Ef. reflexivity.
          * cbn [sigE s_name]. apply text_eqb_refl.
          * apply sig_name_neq; [reflexivity|exact Hfresh].
        + cbn [f_id]. apply arbid_eqb_eq. reflexivity.
        + intros y Hy. apply arbid_eqb_neq. apply H2. exact Hy.
      - exists (rs_cur st). cbn [fold_left]. rewrite map_app. cbn [map]. rewrite <- app_assoc. cbn [app].
        assert (HE : sigF s = sigE s) by (unfold sigE, sigF; rewrite Ef; reflexivity).
        rewrite HE. cbn [map] in Hfr. rewrite <- Hfr. destruct st; reflexivity. }
    destruct Hstep as [c1 Hc1]. rewrite Hc1.
    destruct (IH (done ++ [s]) (mkRS (rs_ecus st) (rs_vtabs st)
                     (L1 ++ mkFrame a nm sz tx (map sigF (done ++ [s]) ++ map sigE todo) :: L2) c1 (rs_err st) (rs_log st))
                 Hcid H2 eq_refl Hnd') as [c2 Hc2].
    exists c2. rewrite Hc2. cbn [rs_ecus rs_vtabs rs_err rs_log]. rewrite <- app_assoc. reflexivity.
Qed.

Lemma step_valtypes f L1 L2 st :
  Q_vals f -> rs_frames st = L1 ++ frE f :: L2 -> (forall y, In y L2 -> f_id y <> f_id f) ->
  exists c, fold_left r_stmt (w_valtypes f) st = mkRS (rs_ecus st) (rs_vtabs st) (L1 ++ frF f :: L2) c (rs_err st) (rs_log st).
Proof.
  intros [Hid [Hnd Hk]] Hfr H2. unfold w_valtypes, frF.
  apply (step_valtypes_sigs (dbc_write_id (f_id f)) (f_id f) (f_name f) (f_size f) (fill (f_tx f)) L1 L2 (f_sigs f) [] st).
  - apply id_roundtrip. exact Hid.
  - exact H2.
  - exact Hfr.
  - exact Hnd.
Qed.

(* ------------------------------------------------------------------------------------------------------------ *)
(* post-processing: update_ecu_list and del_ecu("Vector__XXX") *)
Lemma fold_add_present l : forall acc, (forall x, In x l -> In x acc) ->
  fold_left (fun acc n => add_unique n acc) l acc = acc.
Proof.
  induction l as [|x l IH]; intros acc H; cbn [fold_left]; [reflexivity|].
  rewrite add_unique_in by (apply H; left; reflexivity). apply IH. intros y Hy. apply H. right. exact Hy.
Qed.

Lemma refs_fold l ecus :
  ~ In vector_xxx ecus -> (forall x, In x l -> In x ecus \/ x = vector_xxx) ->
  fold_left (fun acc n => add_unique n acc) l ecus
  = if existsb (text_eqb vector_xxx) l then ecus ++ [vector_xxx] else ecus.
Proof.
  intros Hv. induction l as [|x l IH]; intros H; cbn [fold_left existsb]; [reflexivity|].
  destruct (H x (or_introl eq_refl)) as [Hx | ->].
  - rewrite add_unique_in by exact Hx.
    assert (E : text_eqb vector_xxx x = false) by (apply text_eqb_neq; intros E; subst; contradiction).
    rewrite E. cbn [orb]. apply IH. intros y Hy. apply H. right. exact Hy.
  - rewrite text_eqb_refl. cbn [orb]. rewrite add_unique_fresh by exact Hv.
    apply fold_add_present. intros y Hy. destruct (H y (or_intror Hy)) as [Hy' | ->]; apply in_or_app;
      [left; exact Hy'|right; left; reflexivity].
Qed.

Lemma count_name_notin x l : ~ In x l -> count_name x l = O.
Proof.
  unfold count_name. induction l as [|y l IH]; intros H; cbn [filter]; [reflexivity|].
  assert (E : text_eqb x y = false) by (apply text_eqb_neq; intros E; subst; apply H; left; reflexivity).
  rewrite E. apply IH. intros Hy. apply H. right. exact Hy.
Qed.
Lemma count_name_last x l : ~ In x l -> count_name x (l ++ [x]) = 1%nat.
Proof.
  intros H. unfold count_name. rewrite filter_app, app_length. fold (count_name x l). rewrite (count_name_notin x l H).
  cbn [filter]. rewrite text_eqb_refl. reflexivity.
Qed.

Lemma remove_first_notin x l : ~ In x l -> remove_first x l = l.
Proof.
  induction l as [|y l IH]; intros H; cbn [remove_first]; [reflexivity|].
  assert (E : text_eqb y x = false) by (apply text_eqb_neq; intros E; subst; apply H; left; reflexivity).
  rewrite E, IH; [reflexivity|]. intros Hy. apply H. right. exact Hy.
Qed.
Lemma remove_first_last x l : ~ In x l -> remove_first x (l ++ [x]) = l.
Proof.
  induction l as [|y l IH]; intros H; cbn [app remove_first].
  - rewrite text_eqb_refl. reflexivity.
  - assert (E : text_eqb y x = false) by (apply text_eqb_neq; intros E; subst; apply H; left; reflexivity).
    rewrite E, IH; [reflexivity|]. intros Hy. apply H. right. exact Hy.
Qed.
Lemma remove_first_fill l : ~ In vector_xxx l -> remove_first vector_xxx (fill l) = l.
Proof.
  intros H. destruct l as [|y l]; [reflexivity|]. cbn [fill]. apply remove_first_notin. exact H.
Qed.

Definition refs_listed (ecus : list text) (f : frame) : Prop :=
  (forall t, In t (f_tx f) -> In t ecus) /\ Forall (fun s => forall r, In r (s_receivers s) -> In r ecus) (f_sigs f).

Lemma del_frF ecus f : ~ In vector_xxx ecus -> refs_listed ecus f -> del_ecu_in_frame vector_xxx (frF f) = f.
Proof.
  intros Hv [Htx Hrx]. unfold del_ecu_in_frame, frF. cbn [f_id f_name f_size f_tx f_sigs].
  rewrite remove_first_fill by (intros H; apply Hv; apply Htx; exact H).
  rewrite map_map.
  assert (Hm : map (fun s => mkSig (s_name (sigF s)) (s_start (sigF s)) (s_size (sigF s)) (s_le (sigF s)) (s_signed (sigF s))
                                    (s_float (sigF s)) (s_factor (sigF s)) (s_offset (sigF s)) (s_min (sigF s)) (s_max (sigF s))
                                    (s_unit (sigF s)) (remove_first vector_xxx (s_receivers (sigF s))) (s_mux (sigF s))
                                    (s_values (sigF s))) (f_sigs f) = f_sigs f).
  { rewrite <- (map_id (f_sigs f)) at 2. apply map_ext_in. intros s Hs. rewrite Forall_forall in Hrx.
    unfold sigF. cbn [s_name s_start s_size s_le s_signed s_float s_factor s_offset s_min s_max s_unit s_receivers s_mux s_values].
    rewrite remove_first_fill by (intros H; apply Hv; apply (Hrx s Hs); exact H). destruct s; reflexivity. }
  rewrite Hm. destruct f; reflexivity.
Qed.

Lemma frF_fixed f : ~ In vector_xxx (frame_refs (frF f)) -> frF f = f.
Proof.
  intros H. unfold frame_refs, frF in H. cbn [f_tx f_sigs] in H. unfold frF.
  assert (Htx : fill (f_tx f) = f_tx f).
  { destruct (f_tx f); [|reflexivity]. exfalso. apply H. cbn. left. reflexivity. }
  assert (Hm : map sigF (f_sigs f) = f_sigs f).
  { rewrite <- (map_id (f_sigs f)) at 2. apply map_ext_in. intros s Hs. unfold sigF.
    assert (Hr : fill (s_receivers s) = s_receivers s).
    { destruct (s_receivers s) eqn:Er; [|reflexivity]. exfalso. apply H. apply in_or_app. right.
      apply in_flat_map. exists (sigF s). split; [apply in_map; exact Hs|]. unfold sigF. cbn [s_receivers]. rewrite Er.
      left. reflexivity. }
    rewrite Hr. destruct s; reflexivity. }
  rewrite Htx, Hm. destruct f; reflexivity.
Qed.

Lemma frF_refs ecus f : refs_listed ecus f -> forall x, In x (frame_refs (frF f)) -> In x ecus \/ x = vector_xxx.
Proof.
  intros [Htx Hrx] x Hx. unfold frame_refs, frF in Hx. cbn [f_tx f_sigs] in Hx. apply in_app_or in Hx.
  destruct Hx as [Hx | Hx].
  - destruct (f_tx f) as [|t r] eqn:E; cbn [fill] in Hx.
    + destruct Hx as [<- | []]. right. reflexivity.
    + left. apply Htx. exact Hx.
  - apply in_flat_map in Hx. destruct Hx as [s' [Hs' Hx]]. apply in_map_iff in Hs'. destruct Hs' as [s [<- Hs]].
    unfold sigF in Hx. cbn [s_receivers] in Hx. rewrite Forall_forall in Hrx.
    destruct (s_receivers s) as [|t r] eqn:E; cbn [fill] in Hx.
    + destruct Hx as [<- | []]. right. reflexivity.
    + left. apply (Hrx s Hs). rewrite E. exact Hx.
Qed.

Lemma post_process_frF ecus vtabs fs c e g :
  ~ In vector_xxx ecus -> Forall (refs_listed ecus) fs ->
  post_process (mkRS ecus vtabs (map frF fs) c e g) = mkMatrix ecus vtabs fs.
Proof.
  intros Hv Hrefs. unfold post_process. cbn [rs_ecus rs_vtabs rs_frames]. unfold update_ecu_list.
  rewrite (refs_fold _ ecus Hv).
  2:{ intros x Hx. apply in_flat_map in Hx. destruct Hx as [f' [Hf' Hx]]. apply in_map_iff in Hf'.
      destruct Hf' as [f [<- Hf]]. rewrite Forall_forall in Hrefs. apply (frF_refs ecus f (Hrefs f Hf) x Hx). }
  destruct (existsb (text_eqb vector_xxx) (flat_map frame_refs (map frF fs))) eqn:E.
  - rewrite (count_name_last _ _ Hv). cbn [Nat.iter nat_rect]. unfold del_ecu_step. cbn [fst snd].
    rewrite (remove_first_last _ _ Hv). rewrite map_map. f_equal.
    rewrite <- (map_id fs) at 2. apply map_ext_in. intros f Hf. rewrite Forall_forall in Hrefs.
    apply (del_frF ecus f Hv (Hrefs f Hf)).
  - rewrite (count_name_notin _ _ Hv). cbn [Nat.iter nat_rect fst snd]. f_equal.
    rewrite <- (map_id fs) at 2. apply map_ext_in. intros f Hf. apply frF_fixed. intros Hin.
    assert (Ht : existsb (text_eqb vector_xxx) (flat_map frame_refs (map frF fs)) = true).
    { apply existsb_text. apply in_flat_map. exists (frF f). split; [apply in_map; exact Hf|exact Hin]. }
    congruence.
Qed.

(* ------------------------------------------------------------------------------------------------------------ *)
(* the composed theorem *)
Lemma expressible_parts m : dbc_expressible m ->
  Forall frame_core_ok (m_frames m) /\ Forall Q_tx (m_frames m) /\ Forall Q_vals (m_frames m) /\
  Forall (refs_listed (m_ecus m)) (m_frames m).
Proof.
  intros [_ [_ [_ [_ [_ HF]]]]]. rewrite Forall_forall in HF.
  repeat split; apply Forall_forall; intros f Hf; destruct (HF f Hf) as [Hid [Htx [Hnd [Hnames [HM Hs]]]]];
    rewrite Forall_forall in Hs.
  - split; [exact Hid|split; [exact HM|]]. apply Forall_forall. intros s Hs'. apply (Hs s Hs').
  - split; assumption.
  - split; [exact Hid|split; [exact Hnames|]]. apply Forall_forall. intros s Hs'. apply (Hs s Hs').
  - split; [exact Htx|]. apply Forall_forall. intros s Hs'. apply (Hs s Hs').
Qed.

Lemma core_roundtrip m : dbc_expressible m -> dbc_read (dbc_write m) = (m, 0, 0).
Proof.
  intros Hm. destruct (expressible_parts m Hm) as [Hcore [Htx [Hvals Hrefs]]].
  destruct Hm as [Hlen [Hv [Hvt [Hvk [Hids _]]]]].
  unfold dbc_read, dbc_write. cbn [fold_left]. rewrite !fold_left_app.
  (* BU_ *)
  assert (H0 : r_stmt rs0 (St_BU (m_ecus m)) = mkRS (m_ecus m) [] [] None 0 0).
  { cbn [r_stmt rs0 rs_ecus rs_vtabs rs_frames rs_cur rs_err rs_log app]. f_equal. exact (filter_long_names _ Hlen). }
  rewrite H0.
  (* VAL_TABLE_ *)
  rewrite read_vtabs; cbn [rs_ecus rs_vtabs rs_frames rs_cur rs_err rs_log app]; [|exact Hvt|exact Hvk].
  (* BO_ / SG_ *)
  destruct (read_frames (m_frames m) (mkRS (m_ecus m) (m_vtabs m) [] None 0 0) Hcore) as [c1 H1].
  rewrite H1. cbn [rs_ecus rs_vtabs rs_frames rs_cur rs_err rs_log app].
  (* BO_TX_BU_ *)
  destruct (phase w_tx frC frD Q_tx (fun f => eq_refl) (fun f => eq_refl) step_tx (m_frames m) []
                  (mkRS (m_ecus m) (m_vtabs m) (map frC (m_frames m)) c1 0 0) Hids Htx eq_refl) as [c2 H2].
  rewrite H2. cbn [rs_ecus rs_vtabs rs_frames rs_cur rs_err rs_log app].
  (* VAL_ *)
  destruct (phase w_vals frD frE Q_vals (fun f => eq_refl) (fun f => eq_refl) step_vals (m_frames m) []
                  (mkRS (m_ecus m) (m_vtabs m) (map frD (m_frames m)) c2 0 0) Hids Hvals eq_refl) as [c3 H3].
  rewrite H3. cbn [rs_ecus rs_vtabs rs_frames rs_cur rs_err rs_log app].
  (* SIG_VALTYPE_ *)
  destruct (phase w_valtypes frE frF Q_vals (fun f => eq_refl) (fun f => eq_refl) step_valtypes (m_frames m) []
                  (mkRS (m_ecus m) (m_vtabs m) (map frE (m_frames m)) c3 0 0) Hids Hvals eq_refl) as [c4 H4].
  rewrite H4. cbn [rs_ecus rs_vtabs rs_frames rs_cur rs_err rs_log app].
  rewrite (post_process_frF _ _ _ _ _ _ Hv Hrefs). destruct m; reflexivity.
Qed.

Lemma write_fixed_point m : dbc_expressible m -> dbc_write (fst (fst (dbc_read (dbc_write m)))) = dbc_write m.
Proof. intros H. rewrite (core_roundtrip m H). reflexivity. Qed.
