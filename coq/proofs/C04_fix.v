(* C04 library: the precision envelope fits28 and exactness of _fix, __mul__ and __add__ inside it. *)
From CM Require Import lib.Prelude model.Decimal model.DecimalSpec proofs.C04_digits.

Lemma fits28_of_ndigits : forall m, ndigits m <= 28 -> fits28 m.
Proof.
  intros m H. exists m, 0. split; [lia|]. split; [rewrite Z.pow_0_r; lia|].
  apply ndigits_le_iff; lia.
Qed.

Lemma fits28_0 : fits28 0.
Proof. apply fits28_of_ndigits. rewrite ndigits_0. lia. Qed.

Lemma fits28_opp : forall m, fits28 m -> fits28 (- m).
Proof.
  intros m [c [j [Hj [Hm Hc]]]]. exists (- c), j. split; [lia|]. split; [subst; ring|].
  rewrite Z.abs_opp. exact Hc.
Qed.

Lemma fits28_mul_p10 : forall m t, 0 <= t -> fits28 m -> fits28 (m * 10 ^ t).
Proof.
  intros m t Ht [c [j [Hj [Hm Hc]]]]. exists c, (j + t). split; [lia|]. split; [|exact Hc].
  subst. rewrite p10_add by lia. ring.
Qed.

Lemma fits28_div_p10 : forall X t, 0 <= t -> fits28 (X * 10 ^ t) -> fits28 X.
Proof.
  intros X t Ht [c [j [Hj [Hm Hc]]]].
  pose proof (p10_gt0 t Ht) as Hpt.
  destruct (Z_le_gt_dec t j) as [Hle|Hgt].
  - exists c, (j - t). split; [lia|]. split; [|exact Hc].
    rewrite (p10_split j t) in Hm by lia. rewrite Z.mul_assoc in Hm.
    apply Z.mul_reg_r in Hm; [exact Hm | lia].
  - pose proof (p10_gt0 j Hj) as Hpj.
    rewrite (p10_split t j) in Hm by lia. rewrite Z.mul_assoc in Hm.
    apply Z.mul_reg_r in Hm; [| lia].
    exists X, 0. split; [lia|]. split; [rewrite Z.pow_0_r; lia|].
    pose proof (p10_ge1 (t - j) ltac:(lia)) as H1.
    assert (Z.abs c = Z.abs X * 10 ^ (t - j)) by (rewrite <- Hm, Z.abs_mul, (Z.abs_eq (10 ^ (t - j))) by lia; reflexivity).
    nia.
Qed.

Lemma with_sign_abs : forall m, with_sign m (Z.abs m) = m.
Proof. intros m. unfold with_sign. destruct (m <? 0) eqn:E; lia. Qed.

Lemma ndigits_with_sign : forall m c, ndigits (with_sign m c) = ndigits c.
Proof. intros m c. unfold with_sign. destruct (m <? 0); [apply ndigits_opp | reflexivity]. Qed.

Lemma rhe_up_exact : forall q p, 0 < p -> rhe_up (q * p) p = false.
Proof.
  intros q p Hp. unfold rhe_up. rewrite Z.mod_mul by lia.
  destruct (p <? 2 * 0) eqn:E1; [lia|]. destruct (p =? 2 * 0) eqn:E2; [lia|]. reflexivity.
Qed.

(* _fix keeps the value of every number that is representable in 28 digits: it only drops zeros *)
Lemma fix28_fits : forall d, fits28 (dm d) ->
  exists q k, 0 <= k /\ fix28 d = mkDec q (de d + k) /\ q * 10 ^ k = dm d /\ ndigits q <= 28.
Proof.
  intros [m e] [c [j [Hj [Hm Hc]]]]. cbn [dm de] in *. unfold fix28. cbn [dm de]. unfold prec.
  destruct (m =? 0) eqn:E0.
  - exists m, 0. rewrite Z.add_0_r, Z.pow_0_r. repeat split; try lia.
    assert (m = 0) by lia. subst m. rewrite H, ndigits_0. lia.
  - assert (Hm0 : m <> 0) by lia.
    rewrite ndigits_abs. set (nd := ndigits m).
    destruct (ndigits_spec m Hm0) as [Hnd1 [Hlo Hhi]]. fold nd in Hnd1, Hlo, Hhi.
    destruct (e <? nd + e - 28) eqn:E1.
    + set (k := nd - 28). assert (Hk : 0 < k) by (unfold k; lia).
      replace (nd + e - 28 - e) with k by (unfold k; lia).
      replace (nd + e - 28) with (e + k) by (unfold k; lia).
      pose proof (p10_gt0 j Hj) as Hpj.
      assert (Habs : Z.abs m = Z.abs c * 10 ^ j).
      { rewrite Hm, Z.abs_mul, (Z.abs_eq (10 ^ j)) by lia. reflexivity. }
      assert (Hjk : k <= j).
      { assert (10 ^ (nd - 1) < 10 ^ (28 + j)).
        { rewrite (p10_add 28 j) by lia. nia. }
        apply p10_lt_inv in H; unfold k; lia. }
      pose proof (p10_gt0 k ltac:(lia)) as Hpk.
      set (q0 := Z.abs c * 10 ^ (j - k)).
      assert (Hq0 : Z.abs m = q0 * 10 ^ k).
      { unfold q0. rewrite Habs, (p10_split j k) by lia. ring. }
      rewrite Hq0. rewrite rhe_up_exact by lia. rewrite Z.div_mul by lia.
      assert (Hb : 10 ^ 27 <= q0 < 10 ^ 28).
      { rewrite Hq0 in Hlo, Hhi.
        replace (nd - 1) with (27 + k) in Hlo by (unfold k; lia).
        replace nd with (28 + k) in Hhi by (unfold k; lia).
        rewrite p10_add in Hlo, Hhi by lia. nia. }
      assert (Hnq : ndigits q0 = 28).
      { apply ndigits_unique; [lia|]. change (28 - 1) with 27. rewrite Z.abs_eq by lia. exact Hb. }
      rewrite Hnq. cbn [Z.ltb Z.compare Pos.compare Pos.compare_cont].
      exists (with_sign m q0), k. split; [lia|]. split; [reflexivity|]. split.
      * unfold with_sign. destruct (m <? 0) eqn:Es; lia.
      * rewrite ndigits_with_sign. lia.
    + exists m, 0. rewrite Z.add_0_r, Z.pow_0_r. repeat split; try lia.
Qed.

Lemma fix28_small : forall d, ndigits (dm d) <= 28 -> fix28 d = d.
Proof.
  intros [m e] H. cbn [dm] in H. unfold fix28. cbn [dm de]. unfold prec.
  destruct (m =? 0); [reflexivity|]. rewrite ndigits_abs.
  destruct (e <? ndigits m + e - 28) eqn:E; [lia | reflexivity].
Qed.

(* __mul__ *)
Lemma dmul_fits : forall a b, fits28 (dm a * dm b) ->
  exists q k, 0 <= k /\ dmul a b = mkDec q (de a + de b + k) /\ q * 10 ^ k = dm a * dm b /\ ndigits q <= 28.
Proof. intros a b H. unfold dmul. apply (fix28_fits (mkDec (dm a * dm b) (de a + de b))). exact H. Qed.
