(* A normalising tactic for goals about masks and shifts by literal amounts: every Z.land with a literal mask (split into its
   blocks of ones), every Z.shiftr / Z.shiftl by a literal and every Z.lor of two terms confined to disjoint masks becomes
   div / mod / mul / add with literal powers of two, which lia decides (Zify's Euclidean-division hook is set in
   lib/Prelude).  Used by the translator ties (coq/gen/Tie_*.v) so that a rewrite of the source into another, equal,
   mask-and-shift expression still proves. *)
From CM Require Import lib.Prelude proofs.BitLemmas.

(* lowest block of ones of the literal m: (shift, width) *)
Definition low_run (m : Z) : Z * Z :=
  let s := Z.log2 (Z.land m (- m)) in
  let t := Z.shiftr m s in
  let w := Z.log2 (Z.land (Z.lnot t) (t + 1)) in
  (s, w).
Definition low_run_mask (m : Z) : Z := let '(s, w) := low_run m in Z.shiftl (Z.ones w) s.

Lemma land_lor_split a m1 m2 : Z.land a (Z.lor m1 m2) = Z.lor (Z.land a m1) (Z.land a m2).
Proof. apply Z.land_lor_distr_r. Qed.

(* x confined to mx, y confined to my, the masks disjoint: or is plus *)
Lemma lor_confined x y mx my :
  Z.land x mx = x -> Z.land y my = y -> Z.land mx my = 0 -> Z.lor x y = x + y.
Proof.
  intros Hx Hy Hm. apply lor_land0_add. rewrite <- Hx, <- Hy.
  apply Z.bits_inj'. intros n Hn. rewrite !Z.land_spec, Z.bits_0.
  assert (Hb : Z.testbit (Z.land mx my) n = false) by (rewrite Hm; apply Z.bits_0).
  rewrite Z.land_spec in Hb.
  destruct (Z.testbit mx n), (Z.testbit my n); try discriminate; rewrite ?andb_false_r, ?andb_false_l; reflexivity.
Qed.

Lemma confined_land a m : Z.land (Z.land a m) m = Z.land a m.
Proof. rewrite <- Z.land_assoc, Z.land_diag. reflexivity. Qed.
Lemma confined_land_l a m : Z.land (Z.land m a) m = Z.land m a.
Proof. rewrite (Z.land_comm m a). apply confined_land. Qed.
Lemma confined_shiftl a m k : Z.land a m = a -> Z.land (Z.shiftl a k) (Z.shiftl m k) = Z.shiftl a k.
Proof. intros H. rewrite <- Z.shiftl_land, H. reflexivity. Qed.
Lemma confined_lor a b ma mb : Z.land a ma = a -> Z.land b mb = b -> Z.land (Z.lor a b) (Z.lor ma mb) = Z.lor a b.
Proof.
  intros Ha Hb. apply Z.bits_inj'. intros n Hn. rewrite Z.land_spec, !Z.lor_spec.
  rewrite <- Ha, <- Hb at 1 2. rewrite !Z.land_spec.
  destruct (Z.testbit a n), (Z.testbit b n), (Z.testbit ma n), (Z.testbit mb n); reflexivity.
Qed.
Lemma confined_lit m : 0 <= m -> Z.land m m = m.
Proof. intros _. apply Z.land_diag. Qed.

Ltac is_zlit m := match m with Zpos _ => idtac | Z0 => idtac | Zneg _ => idtac end.

(* a literal mask to which the term is confined, read off its syntax *)
Ltac mask_of x :=
  match x with
  | Z.land ?a ?m => let _ := match goal with _ => is_zlit m end in constr:(m)
  | Z.land ?m ?a => let _ := match goal with _ => is_zlit m end in constr:(m)
  | Z.shiftl ?a ?k => let _ := match goal with _ => is_zlit k end in
                      let ma := mask_of a in let v := eval vm_compute in (Z.shiftl ma k) in constr:(v)
  | Z.lor ?a ?b => let ma := mask_of a in let mb := mask_of b in let v := eval vm_compute in (Z.lor ma mb) in constr:(v)
  | _ => let _ := match goal with _ => is_zlit x end in
         let _ := match goal with _ => match x with Zneg _ => fail 1 | _ => idtac end end in constr:(x)
  end.

Ltac solve_confined :=
  lazymatch goal with
  | |- Z.land (Z.land ?a ?m) ?m = _ => apply confined_land
  | |- Z.land (Z.land ?m ?a) ?m = _ => apply confined_land_l
  | |- Z.land (Z.shiftl ?a ?k) ?mk = _ =>
      let ma := mask_of a in
      change mk with (Z.shiftl ma k); apply confined_shiftl; solve_confined
  | |- Z.land (Z.lor ?a ?b) ?mm = _ =>
      let ma := mask_of a in let mb := mask_of b in
      change mm with (Z.lor ma mb); apply confined_lor; solve_confined
  | |- Z.land ?m ?m = ?m => apply Z.land_diag
  end.

Ltac lor_step :=
  match goal with
  | |- context [Z.lor ?x ?y] =>
      let mx := mask_of x in let my := mask_of y in
      rewrite (lor_confined x y mx my) by (first [solve_confined | vm_compute; reflexivity])
  end.

Ltac mask_step :=
  match goal with
  | |- context [Z.land ?a ?m] =>
      is_zlit m;
      let r := eval vm_compute in (low_run m) in
      let lm := eval vm_compute in (low_run_mask m) in
      match r with
      | (?s, ?w) =>
          first
          [ (* a single block *)
            let e := eval vm_compute in (Z.eqb lm m) in
            match e with true => idtac end;
            match s with
            | 0 => change (Z.land a m) with (Z.land a (Z.ones w)); rewrite (land_ones_mod a w) by lia
            | _ => change (Z.land a m) with (Z.land a (Z.shiftl (Z.ones w) s)); rewrite (land_shifted_ones a s w) by lia
            end
          | (* several blocks: split off the lowest one *)
            let rest := eval vm_compute in (Z.ldiff m lm) in
            change (Z.land a m) with (Z.land a (Z.lor lm rest)); rewrite (land_lor_split a lm rest) ]
      end
  | |- context [Z.land ?m ?a] =>
      is_zlit m; match a with Zpos _ => fail 1 | Z0 => fail 1 | _ => idtac end; rewrite (Z.land_comm m a)
  | |- context [Z.shiftr ?a ?k] => is_zlit k; rewrite (Z.shiftr_div_pow2 a k) by lia
  | |- context [Z.shiftl ?a ?k] => is_zlit k; rewrite (Z.shiftl_mul_pow2 a k) by lia
  end.

Ltac pow_lits :=
  repeat match goal with
  | |- context [2 ^ ?k] => is_zlit k; let v := eval vm_compute in (2 ^ k) in change (2 ^ k) with v
  end.

(* closed integer arithmetic on literals (2 ^ 29 - 1 and the like) *)
Ltac const_fold :=
  repeat match goal with
  | |- context [Z.pow ?a ?b] => is_zlit a; is_zlit b; let v := eval vm_compute in (Z.pow a b) in change (Z.pow a b) with v
  | |- context [Z.sub ?a ?b] => is_zlit a; is_zlit b; let v := eval vm_compute in (Z.sub a b) in change (Z.sub a b) with v
  | |- context [Z.add ?a ?b] => is_zlit a; is_zlit b; let v := eval vm_compute in (Z.add a b) in change (Z.add a b) with v
  | |- context [Z.mul ?a ?b] => is_zlit a; is_zlit b; let v := eval vm_compute in (Z.mul a b) in change (Z.mul a b) with v
  | |- context [Z.shiftl ?a ?b] => is_zlit a; is_zlit b; let v := eval vm_compute in (Z.shiftl a b) in change (Z.shiftl a b) with v
  end.

(* ors first (they need the masks still visible), then masks and shifts *)
Ltac bits_to_arith := const_fold; repeat lor_step; repeat mask_step; pow_lits.

(* finishing tactic of the translator ties: normalise, split on every remaining condition, decide by arithmetic *)
(* peel Some and pairs (never arithmetic: a + b = c + d does not split) *)
Ltac strip_ctor :=
  repeat match goal with
  | |- Some _ = Some _ => apply f_equal
  | |- (_, _) = (_, _) => apply f_equal2
  end.
Ltac revert_bool_hyps := repeat match goal with H : _ = _ :> bool |- _ => revert H end.
Ltac tie_auto :=
  cbv zeta; bits_to_arith;
  repeat (case_if; cbn [negb andb orb] in * );
  (* conditions recorded before an inner `if` chose their mask still carry masks: normalise them as premises *)
  revert_bool_hyps; cbv zeta; bits_to_arith; intros;
  first [ reflexivity | discriminate | lia | (strip_ctor; first [reflexivity | lia]) ].
