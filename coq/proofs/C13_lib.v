(* C13: generic lemmas (lists, look-ups, result trees) used by the proofs about model/Compare.v. *)
From CM Require Import lib.Prelude model.Compare model.CompareSpec.
From Coq Require Import Permutation.

(* ------------------------------------------------------------------ small boolean facts *)
Lemma opt_eqb_eq : forall a b, opt_eqb a b = true <-> a = b.
Proof.
  intros [x|] [y|]; cbn; split; intro H; try congruence; try discriminate.
  - apply Z.eqb_eq in H. congruence.
  - inversion H. apply Z.eqb_refl.
Qed.
Lemma mux_eqb_eq : forall a b, mux_eqb a b = true <-> a = b.
Proof.
  intros [| |x] [| |y]; cbn; split; intro H; try congruence; try discriminate.
  - apply Z.eqb_eq in H. congruence.
  - inversion H. apply Z.eqb_refl.
Qed.
Lemma booleqb_eq : forall a b : bool, Bool.eqb a b = true <-> a = b.
Proof. intros [] []; cbn; split; congruence. Qed.
Lemma mem_In : forall x l, mem x l = true <-> In x l.
Proof.
  intros x l. unfold mem. rewrite existsb_exists. split.
  - intros [y [Hy He]]. apply Z.eqb_eq in He. subst. exact Hy.
  - intro H. exists x. split; [exact H | apply Z.eqb_refl].
Qed.
Lemma mem_false : forall x l, mem x l = false <-> ~ In x l.
Proof. intros x l. rewrite <- mem_In. destruct (mem x l); split; congruence. Qed.

(* ------------------------------------------------------------------ lists *)
Lemma flat_map_app' : forall {A B} (f : A -> list B) l1 l2, flat_map f (l1 ++ l2) = flat_map f l1 ++ flat_map f l2.
Proof. intros A B f l1 l2. induction l1 as [|x l1 IH]; cbn; [reflexivity|]. rewrite IH, app_assoc. reflexivity. Qed.
Lemma flat_map_flat_map : forall {A B C} (f : A -> list B) (g : B -> list C) l,
  flat_map g (flat_map f l) = flat_map (fun x => flat_map g (f x)) l.
Proof. intros A B C f g l. induction l as [|x l IH]; cbn; [reflexivity|]. rewrite flat_map_app', IH. reflexivity. Qed.
Lemma flat_map_map' : forall {A B C} (f : A -> B) (g : B -> list C) l, flat_map g (map f l) = flat_map (fun x => g (f x)) l.
Proof. intros A B C f g l. induction l as [|x l IH]; cbn; [reflexivity|]. rewrite IH. reflexivity. Qed.
Lemma flat_map_ext_in : forall {A B} (f g : A -> list B) l, (forall x, In x l -> f x = g x) -> flat_map f l = flat_map g l.
Proof.
  intros A B f g l H. induction l as [|x l IH]; cbn; [reflexivity|].
  rewrite H by (left; reflexivity). rewrite IH; [reflexivity|]. intros y Hy. apply H. right. exact Hy.
Qed.
Lemma flat_map_nil_in : forall {A B} (f : A -> list B) l, (forall x, In x l -> f x = []) -> flat_map f l = [].
Proof.
  intros A B f l H. induction l as [|x l IH]; cbn; [reflexivity|].
  rewrite H by (left; reflexivity). cbn. apply IH. intros y Hy. apply H. right. exact Hy.
Qed.
Lemma map_flat_map : forall {A B C} (f : A -> list B) (g : B -> C) l, map g (flat_map f l) = flat_map (fun x => map g (f x)) l.
Proof. intros A B C f g l. induction l as [|x l IH]; cbn; [reflexivity|]. rewrite map_app, IH. reflexivity. Qed.

Lemma forallb_flat_map : forall {A B} (p : B -> bool) (f : A -> list B) l,
  forallb p (flat_map f l) = true <-> (forall x, In x l -> forallb p (f x) = true).
Proof.
  intros A B p f l. induction l as [|x l IH]; cbn.
  - split; [intros _ y []| reflexivity].
  - rewrite forallb_app, andb_true_iff, IH. split.
    + intros [H1 H2] y [Hy|Hy]; [subst; exact H1 | apply H2; exact Hy].
    + intro H. split; [apply H; left; reflexivity | intros y Hy; apply H; right; exact Hy].
Qed.
Lemma forallb_map : forall {A B} (p : B -> bool) (f : A -> B) l,
  forallb p (map f l) = true <-> (forall x, In x l -> p (f x) = true).
Proof.
  intros A B p f l. rewrite forallb_forall. split.
  - intros H x Hx. apply H. apply in_map. exact Hx.
  - intros H y Hy. apply in_map_iff in Hy. destruct Hy as [x [E Hx]]. subst. apply H. exact Hx.
Qed.

(* permutations of concatenated pieces *)
Lemma Permutation_flat_map_pointwise : forall {A B} (f g : A -> list B) l,
  (forall x, In x l -> Permutation (f x) (g x)) -> Permutation (flat_map f l) (flat_map g l).
Proof.
  intros A B f g l H. induction l as [|x l IH]; cbn; [constructor|].
  apply Permutation_app; [apply H; left; reflexivity | apply IH; intros y Hy; apply H; right; exact Hy].
Qed.
Lemma Permutation_flat_map_split : forall {A B} (f g : A -> list B) l,
  Permutation (flat_map (fun x => f x ++ g x) l) (flat_map f l ++ flat_map g l).
Proof.
  intros A B f g l. induction l as [|x l IH]; cbn; [constructor|].
  rewrite <- !app_assoc. apply Permutation_app_head.
  eapply Permutation_trans; [apply Permutation_app_head; exact IH|].
  rewrite !app_assoc. apply Permutation_app_tail. apply Permutation_app_comm.
Qed.

(* ------------------------------------------------------------------ dict look-up *)
Lemma lookup_in : forall {A} k (v : A) d, lookup k d = Some v -> In (k, v) d.
Proof.
  intros A k v d. induction d as [|[k' v'] d IH]; cbn; [discriminate|].
  destruct (k' =? k) eqn:E.
  - intro H. inversion H. apply Z.eqb_eq in E. subst. left. reflexivity.
  - intro H. right. apply IH. exact H.
Qed.
Lemma lookup_none : forall {A} k (d : list (Z * A)), lookup k d = None <-> ~ In k (keys d).
Proof.
  intros A k d. induction d as [|[k' v'] d IH]; cbn.
  - split; [intros _ [] | reflexivity].
  - destruct (k' =? k) eqn:E.
    + apply Z.eqb_eq in E. subst. split; [discriminate | intro H; exfalso; apply H; left; reflexivity].
    + apply Z.eqb_neq in E. rewrite IH. split.
      * intros H [H1|H1]; [congruence | exact (H H1)].
      * intros H H1. apply H. right. exact H1.
Qed.
Lemma in_keys : forall {A} k (v : A) d, In (k, v) d -> In k (keys d).
Proof. intros A k v d H. unfold keys. change k with (fst (k, v)). apply in_map. exact H. Qed.
Lemma lookup_nodup : forall {A} k (v : A) d, NoDup (keys d) -> In (k, v) d -> lookup k d = Some v.
Proof.
  intros A k v d. induction d as [|[k' v'] d IH]; cbn; intros ND H; [contradiction|].
  inversion ND as [|? ? Hnot ND']. subst. destruct H as [H|H].
  - inversion H. subst. rewrite Z.eqb_refl. reflexivity.
  - destruct (k' =? k) eqn:E.
    + apply Z.eqb_eq in E. subst. exfalso. apply Hnot. eapply in_keys. exact H.
    + apply IH; assumption.
Qed.
Lemma lookup_some_or_none : forall {A} k (d : list (Z * A)), lookup k d <> None <-> In k (keys d).
Proof.
  intros A k d. rewrite lookup_none. split.
  - intro H. destruct (in_dec Z.eq_dec k (keys d)) as [i|n]; [exact i | exfalso; apply H; exact n].
  - intros H1 H2. exact (H2 H1).
Qed.

(* a dict comparison finds nothing iff the dicts hold the same pairs *)
Lemma dict_quiet : forall {A} (d1 d2 : list (Z * A)), NoDup (keys d1) -> NoDup (keys d2) ->
  ((forall k v, In (k, v) d1 -> lookup k d2 = Some v) /\ (forall k v, In (k, v) d2 -> lookup k d1 <> None))
  <-> dict_agree d1 d2.
Proof.
  intros A d1 d2 N1 N2. unfold dict_agree. split.
  - intros [H1 H2] k v. split.
    + intro H. apply lookup_in. apply H1. exact H.
    + intro H. specialize (H2 k v H). destruct (lookup k d1) as [v1|] eqn:E; [|congruence].
      apply lookup_in in E. pose proof (H1 k v1 E) as E2. rewrite (lookup_nodup k v d2 N2 H) in E2.
      inversion E2. subst. exact E.
  - intro H. split.
    + intros k v Hin. apply lookup_nodup; [exact N2|]. apply H. exact Hin.
    + intros k v Hin. apply H in Hin. rewrite (lookup_nodup k v d1 N1 Hin). discriminate.
Qed.

(* ------------------------------------------------------------------ look-up by name *)
Lemma find_name_some : forall {A} (name : A -> Z) n l y,
  find (fun z => name z =? n) l = Some y -> In y l /\ name y = n.
Proof. intros A name n l y H. apply find_some in H. destruct H as [H1 H2]. apply Z.eqb_eq in H2. auto. Qed.
Lemma find_name_none : forall {A} (name : A -> Z) n l,
  find (fun z => name z =? n) l = None <-> ~ In n (map name l).
Proof.
  intros A name n l. split.
  - intros H Hin. apply in_map_iff in Hin. destruct Hin as [y [E Hy]].
    pose proof (find_none _ _ H y Hy) as F. cbn in F. apply Z.eqb_neq in F. congruence.
  - intro H. destruct (find (fun z => name z =? n) l) as [y|] eqn:E; [|reflexivity].
    apply find_name_some in E. destruct E as [E1 E2]. exfalso. apply H. subst. apply in_map. exact E1.
Qed.
Lemma find_name_nodup : forall {A} (name : A -> Z) l y,
  NoDup (map name l) -> In y l -> find (fun z => name z =? name y) l = Some y.
Proof.
  intros A name l y. induction l as [|x l IH]; cbn; intros ND H; [contradiction|].
  inversion ND as [|? ? Hnot ND']. subst. destruct H as [H|H].
  - subst. rewrite Z.eqb_refl. reflexivity.
  - destruct (name x =? name y) eqn:E.
    + apply Z.eqb_eq in E. exfalso. apply Hnot. rewrite E. apply in_map. exact H.
    + apply IH; assumption.
Qed.
Lemma find_name_in : forall {A} (name : A -> Z) n l,
  In n (map name l) -> exists y, find (fun z => name z =? n) l = Some y.
Proof.
  intros A name n l H. destruct (find (fun z => name z =? n) l) as [y|] eqn:E; [exists y; reflexivity|].
  apply find_name_none in E. contradiction.
Qed.

(* the two loops over named objects find nothing to add or delete and only quiet pairs
   iff the name sets coincide and same-named objects compare quietly *)
Lemma named_quiet : forall {A} (name : A -> Z) (Q : A -> A -> Prop) l1 l2,
  NoDup (map name l1) -> NoDup (map name l2) ->
  ((forall x, In x l1 -> exists y, find (fun z => name z =? name x) l2 = Some y /\ Q x y) /\
   (forall y, In y l2 -> find (fun z => name z =? name y) l1 <> None))
  <-> (same_names name l1 l2 /\ pairwise name Q l1 l2).
Proof.
  intros A name Q l1 l2 N1 N2. unfold same_names, set_eq, pairwise. split.
  - intros [H1 H2]. split.
    + intro n. split; intro Hn; apply in_map_iff in Hn; destruct Hn as [x [E Hx]]; subst.
      * destruct (H1 x Hx) as [y [Hy _]]. apply find_name_some in Hy. destruct Hy as [Hy1 Hy2].
        rewrite <- Hy2. apply in_map. exact Hy1.
      * specialize (H2 x Hx). destruct (find (fun z => name z =? name x) l1) as [y|] eqn:E; [|congruence].
        apply find_name_some in E. destruct E as [E1 E2]. rewrite <- E2. apply in_map. exact E1.
    + intros x y Hx Hy E. destruct (H1 x Hx) as [y' [Hy' HQ]].
      rewrite E in Hy'. rewrite (find_name_nodup name l2 y N2 Hy) in Hy'. inversion Hy'. subst. exact HQ.
  - intros [HS HP]. split.
    + intros x Hx. assert (Hn : In (name x) (map name l2)) by (apply HS; apply in_map; exact Hx).
      destruct (find_name_in name _ _ Hn) as [y Hy]. exists y. split; [exact Hy|].
      apply find_name_some in Hy. destruct Hy as [Hy1 Hy2]. apply HP; auto.
    + intros y Hy. assert (Hn : In (name y) (map name l1)) by (apply HS; apply in_map; exact Hy).
      destruct (find_name_in name _ _ Hn) as [x Hx]. rewrite Hx. discriminate.
Qed.

(* matched pairs, enumerated from either side, are the same multiset *)
Lemma matched_perm : forall {A B} (name : A -> Z) (G : A -> A -> list B) l1 l2,
  NoDup (map name l1) -> NoDup (map name l2) ->
  Permutation
    (flat_map (fun x => match find (fun z => name z =? name x) l2 with Some y => G x y | None => [] end) l1)
    (flat_map (fun y => match find (fun z => name z =? name y) l1 with Some x => G x y | None => [] end) l2).
Proof.
  intros A B name G l1. induction l1 as [|x l1 IH]; intros l2 N1 N2.
  - cbn. rewrite flat_map_nil_in; [constructor | reflexivity].
  - inversion N1 as [|? ? Hnot N1']. subst. cbn [flat_map].
    (* elements of l2 whose name differs from x look the same in x :: l1 and in l1 *)
    assert (Hother : forall y, name y <> name x ->
              find (fun z => name z =? name y) (x :: l1) = find (fun z => name z =? name y) l1).
    { intros y Hy. cbn. destruct (name x =? name y) eqn:E; [apply Z.eqb_eq in E; congruence | reflexivity]. }
    destruct (find (fun z => name z =? name x) l2) as [y|] eqn:Ey.
    + apply find_name_some in Ey. destruct Ey as [Hy Hname].
      destruct (in_split _ _ Hy) as [la [lb Hsplit]]. subst l2.
      assert (Hna : forall z, In z la -> name z <> name x).
      { intros z Hz Ez. rewrite map_app in N2. cbn in N2. apply NoDup_remove_2 in N2. apply N2.
        apply in_or_app. left. rewrite Hname, <- Ez. apply in_map. exact Hz. }
      assert (Hnb : forall z, In z lb -> name z <> name x).
      { intros z Hz Ez. rewrite map_app in N2. cbn in N2. apply NoDup_remove_2 in N2. apply N2.
        apply in_or_app. right. rewrite Hname, <- Ez. apply in_map. exact Hz. }
      rewrite flat_map_app'. cbn [flat_map].
      replace (find (fun z => name z =? name y) (x :: l1)) with (Some x)
        by (cbn; rewrite Hname, Z.eqb_refl; reflexivity).
      rewrite (flat_map_ext_in _ (fun y0 => match find (fun z => name z =? name y0) l1 with Some x0 => G x0 y0 | None => [] end) la)
        by (intros z Hz; rewrite Hother by (apply Hna; exact Hz); reflexivity).
      rewrite (flat_map_ext_in _ (fun y0 => match find (fun z => name z =? name y0) l1 with Some x0 => G x0 y0 | None => [] end) lb)
        by (intros z Hz; rewrite Hother by (apply Hnb; exact Hz); reflexivity).
      specialize (IH (la ++ y :: lb) N1' N2). rewrite flat_map_app' in IH. cbn [flat_map] in IH.
      assert (Ey1 : find (fun z => name z =? name y) l1 = None).
      { apply find_name_none. rewrite Hname. exact Hnot. }
      rewrite Ey1 in IH. cbn in IH.
      eapply Permutation_trans; [apply Permutation_app_head; exact IH|].
      rewrite app_assoc. eapply Permutation_trans; [apply Permutation_app_tail; apply Permutation_app_comm|].
      rewrite <- app_assoc. reflexivity.
    + cbn [app]. specialize (IH l2 N1' N2). eapply Permutation_trans; [exact IH|].
      rewrite (flat_map_ext_in (fun y => match find (fun z => name z =? name y) (x :: l1) with Some x0 => G x0 y | None => [] end)
                 (fun y => match find (fun z => name z =? name y) l1 with Some x0 => G x0 y | None => [] end) l2); [reflexivity|].
      intros z Hz. rewrite Hother; [reflexivity|]. intro E. apply find_name_none in Ey. apply Ey. rewrite <- E. apply in_map. exact Hz.
Qed.

(* ------------------------------------------------------------------ sequence *)
Lemma sequence_map_some : forall {A B} (g : A -> option B) (g' : A -> B) l ks,
  (forall x y, In x l -> g x = Some y -> y = g' x) -> sequence (map g l) = Some ks -> ks = map g' l.
Proof.
  intros A B g g' l. induction l as [|x l IH]; cbn; intros ks H E.
  - inversion E. reflexivity.
  - destruct (g x) as [y|] eqn:Ex; [|discriminate].
    destruct (sequence (map g l)) as [ys|] eqn:Es; [|discriminate]. inversion E. subst.
    f_equal; [apply H; [left; reflexivity | exact Ex] | apply IH; [|reflexivity]].
    intros x' y' Hx'. apply H. right. exact Hx'.
Qed.
Lemma sequence_map_all : forall {A B} (g : A -> option B) l,
  (forall x, In x l -> g x <> None) -> sequence (map g l) <> None.
Proof.
  intros A B g l. induction l as [|x l IH]; cbn; intro H; [discriminate|].
  destruct (g x) eqn:Ex; [|exfalso; apply (H x); [left; reflexivity | exact Ex]].
  destruct (sequence (map g l)) eqn:Es; [discriminate|].
  exfalso. apply IH; [|reflexivity]. intros y Hy. apply H. right. exact Hy.
Qed.
Lemma sequence_map_some_each : forall {A B} (g : A -> option B) l ks,
  sequence (map g l) = Some ks -> forall x, In x l -> g x <> None.
Proof.
  intros A B g l. induction l as [|x l IH]; cbn; intros ks E y Hy; [contradiction|].
  destruct (g x) eqn:Ex; [|discriminate]. destruct (sequence (map g l)) eqn:Es; [|discriminate].
  destruct Hy as [Hy|Hy]; [subst; rewrite Ex; discriminate | eapply IH; [reflexivity | exact Hy]].
Qed.

(* ------------------------------------------------------------------ result trees *)
Lemma cres_ind' : forall (P : cres -> Prop),
  (forall r t ref kids, Forall P kids -> P (Node r t ref kids)) -> forall t, P t.
Proof.
  intros P H. fix IH 1. intros [r t ref kids]. apply H.
  induction kids as [|k ks IHks]; constructor; [apply IH | exact IHks].
Qed.

Definition changeb (k : cres) : bool := negb (is_equal (result_of k)).

Lemma propagate_node : forall r ty ref kids,
  propagate (Node r ty ref kids) =
  Node (if existsb changeb (map propagate kids) then RChanged else r) ty ref (map propagate kids).
Proof. reflexivity. Qed.
Lemma propagate_leaf : forall r ty ref, propagate (leaf r ty ref) = leaf r ty ref.
Proof. reflexivity. Qed.
Lemma type_of_propagate : forall t, type_of (propagate t) = type_of t.
Proof. intros [r ty ref kids]. reflexivity. Qed.
Lemma ref_of_propagate : forall t, ref_of (propagate t) = ref_of t.
Proof. intros [r ty ref kids]. reflexivity. Qed.
Lemma kids_of_propagate : forall t, kids_of (propagate t) = map propagate (kids_of t).
Proof. intros [r ty ref kids]. reflexivity. Qed.

(* a node that is not "equal" makes the tree not all-equal, and conversely *)
Lemma all_equal_changeb : forall t, all_equal t = true -> changeb t = false.
Proof. intros [r ty ref kids]. cbn. unfold changeb. cbn. destruct (is_equal r); cbn; [reflexivity | discriminate]. Qed.

Lemma all_equal_no_change : forall l, forallb all_equal l = true -> existsb changeb l = false.
Proof.
  induction l as [|k ks IHks]; cbn; [reflexivity|]. intro Ef.
  apply andb_true_iff in Ef. destruct Ef as [E1 E2].
  rewrite (all_equal_changeb k E1). cbn. apply IHks. exact E2.
Qed.

Lemma all_equal_propagate : forall t, all_equal (propagate t) = all_equal t.
Proof.
  induction t as [r ty ref kids IH] using cres_ind'.
  rewrite propagate_node. cbn [all_equal].
  assert (Hk : forallb all_equal (map propagate kids) = forallb all_equal kids).
  { induction kids as [|k ks IHks]; cbn; [reflexivity|]. inversion IH. subst. rewrite IHks by assumption. congruence. }
  rewrite Hk. destruct (forallb all_equal kids) eqn:Ef.
  - (* all kids equal: no change propagates *)
    assert (He : existsb changeb (map propagate kids) = false).
    { apply all_equal_no_change. exact Hk. }
    rewrite He. reflexivity.
  - rewrite !andb_false_r. reflexivity.
Qed.

Lemma reports_nothing_propagate : forall t, reports_nothing (propagate t) <-> forallb all_equal (kids_of t) = true.
Proof.
  intros [r ty ref kids]. unfold reports_nothing. rewrite propagate_node. cbn [kids_of].
  assert (Hk : forallb all_equal (map propagate kids) = forallb all_equal kids).
  { induction kids as [|k ks IHks]; cbn; [reflexivity|]. rewrite IHks, all_equal_propagate. reflexivity. }
  rewrite Hk. tauto.
Qed.

(* the root keeps result None exactly when nothing is reported *)
Lemma changeb_false_propagate : forall t, changeb (propagate t) = false -> all_equal t = true.
Proof.
  induction t as [r ty ref kids IH] using cres_ind'. rewrite propagate_node.
  intro H. cbn [all_equal].
  destruct (existsb changeb (map propagate kids)) eqn:E; [cbv in H; discriminate|].
  unfold changeb in H. cbn [result_of] in H.
  apply negb_false_iff in H. rewrite H. cbn [andb].
  apply forallb_forall. intros k Hk. rewrite Forall_forall in IH. apply IH; [exact Hk|].
  destruct (changeb (propagate k)) eqn:Ec; [|reflexivity].
  assert (existsb changeb (map propagate kids) = true); [|congruence].
  apply existsb_exists. exists (propagate k). split; [apply in_map; exact Hk | exact Ec].
Qed.
Lemma root_none_iff : forall ty ref kids,
  result_of (propagate (Node RNone ty ref kids)) = RNone <-> reports_nothing (propagate (Node RNone ty ref kids)).
Proof.
  intros ty ref kids. rewrite reports_nothing_propagate. rewrite propagate_node. cbn [result_of kids_of].
  destruct (existsb changeb (map propagate kids)) eqn:E.
  - split; [discriminate|]. intro H. exfalso.
    apply existsb_exists in E. destruct E as [k' [Hk' Hc]]. apply in_map_iff in Hk'. destruct Hk' as [k [Ek Hk]]. subst.
    rewrite forallb_forall in H. specialize (H k Hk). rewrite <- all_equal_propagate in H.
    rewrite (all_equal_changeb _ H) in Hc. discriminate.
  - split; [|reflexivity]. intros _. apply forallb_forall. intros k Hk. apply changeb_false_propagate.
    destruct (changeb (propagate k)) eqn:Ec; [|reflexivity].
    assert (existsb changeb (map propagate kids) = true); [|congruence].
    apply existsb_exists. exists (propagate k). split; [apply in_map; exact Hk | exact Ec].
Qed.

(* leaves *)
Lemma all_equal_leaf : forall r ty ref, all_equal (leaf r ty ref) = is_equal r.
Proof. intros. cbn. apply andb_true_r. Qed.

(* [leaf] / [] produced under a condition *)
Definition chgl (same : bool) (ty : ctype) (n : Z) : list cres := if same then [] else [leaf RChanged ty n].
Lemma chgl_quiet : forall same ty n, forallb all_equal (chgl same ty n) = true <-> same = true.
Proof. intros [] ty n; cbn; split; congruence. Qed.
Lemma in_chgl : forall ty n, In (leaf RChanged ty n) (chgl false ty n).
Proof. intros. left. reflexivity. Qed.

(* ------------------------------------------------------------------ reading reports through propagate *)
(* `reports0`: as `reports` but without the demand that the inner nodes are "changed" (raw tree) *)
Fixpoint reports0 (t : cres) (path : list (ctype * Z)) (r : cresult) (ty : ctype) (ref : Z) : Prop :=
  match path with
  | [] => In (Node r ty ref []) (kids_of t)
  | (pt, pref) :: rest =>
      exists c, In c (kids_of t) /\ type_of c = pt /\ ref_of c = pref /\ reports0 c rest r ty ref
  end.

Lemma reports0_changes : forall path t r ty ref, is_equal r = false -> reports0 t path r ty ref ->
  existsb changeb (map propagate (kids_of t)) = true.
Proof.
  induction path as [|[pt pref] rest IH]; intros t r ty ref Hr H; cbn in H.
  - apply existsb_exists. exists (propagate (Node r ty ref [])). split; [apply in_map; exact H|].
    cbn. unfold changeb. cbn. rewrite Hr. reflexivity.
  - destruct H as [c [Hc [_ [_ Hrest]]]]. apply existsb_exists. exists (propagate c). split; [apply in_map; exact Hc|].
    destruct c as [rc tc refc kc].
    pose proof (IH (Node rc tc refc kc) r ty ref Hr Hrest) as E. cbn [kids_of] in E.
    rewrite propagate_node, E. reflexivity.
Qed.

Lemma reports_propagate : forall path t r ty ref, is_equal r = false -> reports0 t path r ty ref ->
  reports (propagate t) path r ty ref.
Proof.
  induction path as [|[pt pref] rest IH]; intros t r ty ref Hr H; cbn in H |- *.
  - rewrite kids_of_propagate. change (Node r ty ref []) with (propagate (Node r ty ref [])). apply in_map. exact H.
  - destruct H as [c [Hc [Ht [Hf Hrest]]]]. exists (propagate c).
    rewrite kids_of_propagate, type_of_propagate, ref_of_propagate.
    split; [apply in_map; exact Hc|]. split; [exact Ht|]. split; [exact Hf|]. split.
    + destruct c as [rc tc refc kc].
      pose proof (reports0_changes rest (Node rc tc refc kc) r ty ref Hr Hrest) as E. cbn [kids_of] in E.
      rewrite propagate_node, E. reflexivity.
    + apply IH; assumption.
Qed.

(* ------------------------------------------------------------------ collect through propagate *)
Definition pc (want : cresult -> bool) (t : cres) : list (list (ctype * Z)) := collect want (propagate t).
Definition neutral (want : cresult -> bool) : Prop := want REqual = false /\ want RChanged = false /\ want RNone = false.
Lemma neutral_added : neutral is_added. Proof. repeat split. Qed.
Lemma neutral_deleted : neutral is_deleted. Proof. repeat split. Qed.

Lemma pc_leaf : forall want r ty ref, pc want (leaf r ty ref) = if want r then [[(ty, ref)]] else [].
Proof. intros. unfold pc. cbn. rewrite app_nil_r. reflexivity. Qed.
Lemma pc_node : forall want r ty ref kids, neutral want -> (r = REqual \/ r = RNone) ->
  pc want (Node r ty ref kids) = map (cons (ty, ref)) (flat_map (pc want) kids).
Proof.
  intros want r ty ref kids [N1 [N2 N3]] Hr. unfold pc. rewrite propagate_node. cbn [collect].
  replace (want (if existsb changeb (map propagate kids) then RChanged else r)) with false
    by (destruct (existsb changeb (map propagate kids)); destruct Hr; subst; congruence).
  cbn. rewrite flat_map_map'. reflexivity.
Qed.
Lemma pc_set_type : forall want ty t, pc want (set_type ty t) =
  match t with Node r _ ref kids => pc want (Node r ty ref kids) end.
Proof. intros want ty [r t0 ref kids]. reflexivity. Qed.
