(* C12: concrete instances - the namespace hypothesis is necessary (shared names: refuted), and the envelope of the theorems
   is inhabited by a non-trivial source/target pair. *)
From CM Require Import lib.Prelude model.CopyOps model.CopySpec proofs.Copy_lib proofs.Copy_focus proofs.Copy_frame.

(* ---- a checker for ns_ok on concrete matrices ---- *)
Definition cat_eqb (c c' : cat) : bool :=
  match c, c' with CSig, CSig | CFrame, CFrame | CEcu, CEcu | CGlob, CGlob => true | _, _ => false end.
Lemma cat_eqb_eq : forall c c', cat_eqb c c' = true -> c = c'.
Proof. intros [] []; simpl; intros H; congruence. Qed.
Definition ns_okb (ns : Z -> cat) (m : matrix) : bool :=
  forallb (fun c => forallb (fun a => cat_eqb (ns a) c) (keys (get_defs c m))) [CSig; CFrame; CEcu; CGlob].
Lemma ns_okb_sound : forall ns m, ns_okb ns m = true -> ns_ok ns m.
Proof.
  intros ns m H c a Hm. unfold ns_okb in H. rewrite forallb_forall in H.
  assert (Hc : In c [CSig; CFrame; CEcu; CGlob]) by (destruct c; simpl; tauto).
  specialize (H c Hc). rewrite forallb_forall in H. apply cat_eqb_eq. apply H. apply mem_keys. exact Hm.
Qed.

(* ---- shared names: a frame definition X in the source, a signal definition X in the target ---- *)
Definition w_src : matrix :=
  mkMatrix [] [mkFrame 16 false 100 8 [] 0 0 [] []] [] [] [(5, mkDef 0 3 (Some 2) [])] [] [] [] [] false.
Definition w_sig : signal := mkSig 200 0 [] 0 [].
Definition w_frame : frame := mkFrame 32 false 101 8 [] 0 0 [] [w_sig].
Definition w_tgt : matrix :=
  mkMatrix [] [w_frame] [] [(5, mkDef 0 3 (Some 1) [])] [] [] [] [] [] false.

Lemma shared_names_refuted :
  exists id src t, ~ bystanders_keep_values t (snd (copy_frame id src t)).
Proof.
  exists (16, false), w_src, w_tgt. intros (_ & _ & Hsig & _).
  destruct (Hsig w_frame w_sig 5) as [_ H].
  - left. reflexivity.
  - left. reflexivity.
  - right. reflexivity.
  - vm_compute in H. discriminate.
Qed.

(* ---- the envelope is inhabited: every cell "default differs" at once, with bystanders ---- *)
Definition ex_ns (a : Z) : cat := if a <? 10 then CSig else if a <? 20 then CFrame else if a <? 30 then CEcu else CGlob.
Definition ex_src : matrix :=
  mkMatrix [mkEcu 50 (-1) []]
           [mkFrame 16 false 100 8 [50] 0 0 [] [mkSig 60 7 [50] 0 []]] []
           [(1, mkDef 0 3 (Some 2) [])] [(11, mkDef 0 3 (Some 2) [])] [(21, mkDef 0 3 (Some 2) [])] [] [] [] false.
Definition ex_tgt : matrix :=
  mkMatrix [mkEcu 51 (-1) []]
           [mkFrame 32 false 101 8 [51] 0 0 [] [mkSig 61 7 [51] 0 []]] []
           [(1, mkDef 0 3 (Some 1) [])] [(11, mkDef 0 3 (Some 1) [])] [(21, mkDef 0 3 (Some 1) [])] [] [] [] false.

Lemma envelope_inhabited :
  ns_ok ex_ns ex_src /\ ns_ok ex_ns ex_tgt /\ dicts_ok ex_src /\
  copy_frame (16, false) ex_src ex_tgt <> (false, ex_tgt) /\
  let t' := snd (copy_frame (16, false) ex_src ex_tgt) in
  map (fun e => eff_ecu t' e 21) (m_ecus t') = [Some 1; Some 2] /\
  map (fun f => eff_frame t' f 11) (m_frames t') = [Some 1; Some 2] /\
  map (fun f => map (fun s => eff_sig t' s 1) (f_sigs f)) (m_frames t') = [[Some 1]; [Some 2]] /\
  m_err t' = false.
Proof.
  split; [apply ns_okb_sound; reflexivity|]. split; [apply ns_okb_sound; reflexivity|].
  split.
  { unfold dicts_ok, keys. simpl. repeat split; (constructor; [intros []|constructor]). }
  split; [vm_compute; discriminate|].
  vm_compute. repeat split; reflexivity.
Qed.
